import LasioModel.Basic
import LasioModel.HeaderLine
import LasioModel.Reader
import LasioModel.Data
/-
C09 — the PRESENTATION TRANSFORMATIONS of a LAS text, as total functions on the list of physical lines of a document
(`Doc`, the lines `io.StringIO(text)` yields: terminator kept), and the whole-file reader `readModel` that glues the
header-level reader (`Lasio.Rd.readLines`) and the data-section reader (`Lasio.Dt.readData`).

The same functions exist in Python (`harness/transforms.py`); the driver op `tf.apply` lets the harness compare them on
every generated case.  Every argument is SANITISED inside the function (padding arguments are filtered to blanks/TABs, a
separator that would not separate is replaced by the default one, comment text loses its line feeds), so the functions are
total and the side conditions of the theorems (LasioProofs/Props/C09.lean) speak about the DOCUMENT only.
-/
namespace Lasio.Tf

abbrev Doc := List Str

def nl : Str := ['\n']

/-- blank or TAB: the padding characters of the property text -/
def isBT (c : Char) : Bool := c == ' ' || c == '\t'

/-- keep the blanks/TABs of a padding argument -/
def blanksOf (s : Str) : Str := s.filter isBT

/-- text and terminator (`"\r\n"`, `"\n"` or nothing) of a physical line -/
def splitEol (l : Str) : Str × Str :=
  match l.reverse with
  | '\n' :: '\r' :: r => (r.reverse, ['\r', '\n'])
  | '\n' :: r => (r.reverse, ['\n'])
  | _ => (l, [])

/-- a line with a terminator -/
def termLine (l : Str) : Str := if l.getLast? == some '\n' then l else l ++ nl

/-- give the last line its line feed (`addFinalNewline`) -/
def terminate : Doc → Doc
  | [] => []
  | [l] => [termLine l]
  | l :: ls => l :: terminate ls

/-- apply `f` to line `k` (nothing when there is no such line) -/
def mapAt (k : Nat) (f : Str → Str) : Doc → Doc
  | [] => []
  | l :: ls =>
    match k with
    | 0 => f l :: ls
    | k + 1 => l :: mapAt k f ls

/-! ## inserting lines -/

/-- insert the line `l` (given without terminator) before line `k`; after the last line when `k ≥ length` -/
def insLine (k : Nat) (l : Str) (d : Doc) : Doc :=
  terminate (d.take k) ++ (l ++ nl) :: d.drop k

/-- a blank line: blanks/TABs only -/
def insBlank (k : Nat) (ws : Str) (d : Doc) : Doc := insLine k (blanksOf ws) d

/-- the text of a comment line: optional indentation, `#`, free text without line feed -/
def commentLine (indent text : Str) : Str := blanksOf indent ++ '#' :: text.filter (· != '\n')

def insComment (k : Nat) (indent text : Str) (d : Doc) : Doc := insLine k (commentLine indent text) d

/-! ## padding around a line, padding between the fields of a data line -/

/-- remove leading and trailing blanks/TABs -/
def stripBT (s : Str) : Str := ((s.dropWhile isBT).reverse.dropWhile isBT).reverse

/-- replace the leading and the trailing run of blanks/TABs of a line -/
def padLine1 (lead trail : Str) (l : Str) : Str :=
  let te := splitEol l
  blanksOf lead ++ (stripBT te.1 ++ (blanksOf trail ++ te.2))

def padLine (k : Nat) (lead trail : Str) (d : Doc) : Doc := mapAt k (padLine1 lead trail) d

/-- a separator for the declared delimiter made from the argument `s`:
SPACE: its blanks/TABs, one blank when there is none;
TAB:   its blanks/TABs when a TAB is among them, else one TAB;
COMMA: the blanks/TABs before its first comma, one comma, the blanks/TABs after it. -/
def mkSep : Dt.Dlm → Str → Str
  | .space, s => let b := blanksOf s; if b.isEmpty then [' '] else b
  | .tab, s => let b := blanksOf s; if b.contains '\t' then b else ['\t']
  | .comma, s => blanksOf (s.takeWhile (· != ',')) ++ ',' :: blanksOf (s.dropWhile (· != ','))

/-- the cells of a data line for a delimiter: whitespace-separated words / TAB- or comma-separated stripped cells -/
def cellsOf : Dt.Dlm → Str → List Str
  | .space, t => Dt.pySplit t
  | .tab, t => (Dt.splitOnChar '\t' (strip t)).map strip
  | .comma, t => (Dt.splitOnChar ',' (strip t)).map strip

/-- cells joined by the separators made from `seps` (the default separator when `seps` is exhausted) -/
def joinSeps (mk : Str → Str) : List Str → List Str → Str
  | [], _ => []
  | [w], _ => w
  | w :: w' :: ws, ss => w ++ (mk (ss.headD []) ++ joinSeps mk (w' :: ws) ss.tail)

/-- re-lay the cells of a line: `from` says how the line is cut into cells, `to` how they are joined -/
def relayLine1 (frm to : Dt.Dlm) (seps : List Str) (l : Str) : Str :=
  let te := splitEol l
  joinSeps (mkSep to) (cellsOf frm te.1) seps ++ te.2

/-- `repadLine`: replace every run of blanks between the fields of line `k` (cut and joined with the same delimiter) -/
def repadLine (k : Nat) (dlm : Dt.Dlm) (seps : List Str) (d : Doc) : Doc := mapAt k (relayLine1 dlm dlm seps) d

/-! ## line terminators -/

/-- every `\n` → `\r\n` -/
def crlf1 (l : Str) : Str := l.flatMap fun c => if c == '\n' then ['\r', '\n'] else [c]
def crlf (d : Doc) : Doc := d.map crlf1

/-- a final `\r\n` → `\n` -/
def lf1 (l : Str) : Str :=
  match l.reverse with
  | '\n' :: '\r' :: r => r.reverse ++ nl
  | _ => l
def lf (d : Doc) : Doc := d.map lf1

/-- omit the terminator of the last line (a last line that was nothing but its terminator disappears) -/
def dropFinalNewline (d : Doc) : Doc :=
  match d.reverse with
  | [] => []
  | l :: r => let t := (splitEol l).1; if t.isEmpty then r.reverse else r.reverse ++ [t]

def addFinalNewline (d : Doc) : Doc := terminate d

/-! ## re-wrapping -/

/-- blank line or comment line of a data section -/
def isSkip (l : Str) : Bool := let c := Dt.cleanLine l; c.isEmpty || Dt.isComment c

/-- cut a list into pieces of the given widths (a width 0 counts as 1; what is left when the widths are used up is one
piece) -/
def cut {α} : List Nat → List α → List (List α)
  | _, [] => []
  | [], l => [l]
  | w :: ws, a :: l => (a :: l).take (max w 1) :: cut ws ((a :: l).drop (max w 1))

/-- the physical lines of one depth step -/
def wrapStep (widths : List Nat) (step : List Str) : List Str :=
  (cut widths step).map fun ws => joinWith [' '] ws ++ nl

/-- the body of a wrapped data section laid out again: the blank/comment lines first, then every depth step (`d` words)
cut into lines of the given widths -/
def rewrapBody (d : Nat) (widths : List Nat) (body : List Str) : List Str :=
  (body.filter isSkip).map termLine ++
    (Dt.reshape (max d 1) ((body.filter (fun l => !isSkip l)).flatMap Dt.pySplit)).flatMap (wrapStep widths)

/-- re-wrap the data section with window `(first, last)` (title line, inclusive last line) of a file with `d` curves -/
def rewrap (first last d : Nat) (widths : List Nat) (doc : Doc) : Doc :=
  doc.take (first + 1) ++ rewrapBody d widths (Dt.bodyLines doc first last) ++ doc.drop (last + 1)

/-! ## the layout of a header line -/

/-- `p0 name p1 . unit p2 value p3 : p4 descr p5` -/
def layoutFields (f : Fields) (p0 p1 p2 p3 p4 p5 : Str) : Str :=
  p0 ++ f.name ++ p1 ++ '.' :: (f.unit ++ p2 ++ f.value ++ p3 ++ ':' :: (p4 ++ f.descr ++ p5))

/-- parse a header line as the reader does and lay its fields out again with other paddings (a line the reader cannot
parse is left alone) -/
def relayoutLine1 (sec : SecName) (p0 p1 p2 p3 p4 p5 : Str) (l : Str) : Str :=
  let te := splitEol l
  match parseHeaderLine sec (strip te.1) with
  | some f => layoutFields f (blanksOf p0) (blanksOf p1) (blanksOf p2) (blanksOf p3) (blanksOf p4) (blanksOf p5) ++ te.2
  | none => l

def relayout (k : Nat) (sec : SecName) (p0 p1 p2 p3 p4 p5 : Str) (d : Doc) : Doc :=
  mapAt k (relayoutLine1 sec p0 p1 p2 p3 p4 p5) d

/-! ## re-delimiting -/

def dlmName : Dt.Dlm → Str
  | .space => "SPACE".toList
  | .tab => "TAB".toList
  | .comma => "COMMA".toList

def dlmItemLine (to : Dt.Dlm) : Str := "DLM. ".toList ++ dlmName to ++ " : delimiter".toList

/-- re-lay every data line (not the blank / comment lines) of a body -/
def relayBody (frm to : Dt.Dlm) (seps : List Str) (body : List Str) : List Str :=
  body.map fun l => if isSkip l then l else relayLine1 frm to seps l

/-- Declare another delimiter and re-delimit the data accordingly: the data lines of the window `(first, last)` are cut
into cells with `frm` and joined with `to`; the DLM item of ~Version is line `vk` (`replace`), or a new item line is
inserted before line `vk` (`vk ≤ first`: the ~Version section precedes the data section). -/
def redelim (first last vk : Nat) (replace : Bool) (frm to : Dt.Dlm) (seps : List Str) (doc : Doc) : Doc :=
  let doc1 := doc.take (first + 1) ++ relayBody frm to seps (Dt.bodyLines doc first last) ++ doc.drop (last + 1)
  if replace then mapAt vk (fun l => dlmItemLine to ++ (splitEol l).2) doc1
  else insLine vk (dlmItemLine to) doc1

/-! ## the transformations as data -/

inductive Transform where
  | insBlank (k : Nat) (ws : Str)
  | insComment (k : Nat) (indent text : Str)
  | padLine (k : Nat) (lead trail : Str)
  | repadLine (k : Nat) (dlm : Dt.Dlm) (seps : List Str)
  | relayout (k : Nat) (sec : SecName) (p0 p1 p2 p3 p4 p5 : Str)
  | crlf
  | lf
  | dropFinalNewline
  | addFinalNewline
  | rewrap (first last d : Nat) (widths : List Nat)
  | redelim (first last vk : Nat) (replace : Bool) (frm to : Dt.Dlm) (seps : List Str)
deriving Repr

def Transform.apply : Transform → Doc → Doc
  | .insBlank k ws, d => Tf.insBlank k ws d
  | .insComment k i t, d => Tf.insComment k i t d
  | .padLine k a b, d => Tf.padLine k a b d
  | .repadLine k dlm seps, d => Tf.repadLine k dlm seps d
  | .relayout k sec p0 p1 p2 p3 p4 p5, d => Tf.relayout k sec p0 p1 p2 p3 p4 p5 d
  | .crlf, d => Tf.crlf d
  | .lf, d => Tf.lf d
  | .dropFinalNewline, d => Tf.dropFinalNewline d
  | .addFinalNewline, d => Tf.addFinalNewline d
  | .rewrap f l n ws, d => Tf.rewrap f l n ws d
  | .redelim f l vk r a b seps, d => Tf.redelim f l vk r a b seps d

/-- apply the transformations from left to right -/
def applyAll : List Transform → Doc → Doc
  | [], d => d
  | t :: ts, d => applyAll ts (t.apply d)

/-- on texts: split into lines, transform, concatenate -/
def applyText (ts : List Transform) (text : Str) : Str := (applyAll ts (Rd.splitLines text)).flatten

/-! ## the whole-file reader -/

structure Opts where
  hdr : Rd.ReadOpts
  dat : Dt.DataOpts
deriving DecidableEq, Repr

/-- `define_line_splitter(provisional_delimiter)` (`finishRead` has rejected everything but the three names) -/
def dlmOf : Option Str → Dt.Dlm
  | none => .space
  | some d => if d == "COMMA".toList then .comma else if d == "TAB".toList then .tab else .space

/-- The steering values handed to the data reader. `nullOf` is the trusted numeric service for the ~Well NULL value
(`num()` then `float()`: raw text ↦ canonical float text when it is a number). -/
def dtSteer (nullOf : Option Str → Option Str) (s : Rd.Steer) : Dt.Steer :=
  { wrapDeclared := s.wrap.isSome, wrapped := s.wrap.getD Dt.yesTxt, nullValue := nullOf s.null, delimiter := dlmOf s.dlm }

/-- `len(self.curves)` when the data are read: the items stored under "Curves" -/
def declaredCount (secs : List (Rd.RKey × Rd.SecVal)) : Nat :=
  match secs.lookup Rd.kCurves with
  | some (.items l) => l.length
  | _ => 0

/-- one data section: its window and what `readData` makes of it -/
structure DataRead where
  first : Nat
  last : Nat
  res : Except Dt.DErr (Dt.Engine × List (Dt.Slot × Dt.Column))
deriving Repr

structure FullRead where
  sections : List (Rd.RKey × Rd.SecVal)
  steer : Rd.Steer
  data : List DataRead
deriving Repr

/-- `LASFile.read` on the lines of a file: the header-level reader, then `readData` on every data window it reports -/
def readFull (o : Opts) (nullOf : Option Str → Option Str) (ft : Dt.FloatTable) (lines : Doc) : Except Rd.RErr FullRead :=
  match Rd.readLines o.hdr lines with
  | .error e => .error e
  | .ok h =>
    let st := dtSteer nullOf h.steer
    let d := declaredCount h.sections
    .ok ⟨h.sections, h.steer, h.data.map fun w => ⟨w.1, w.2.1, Dt.readData o.dat lines w.1 w.2.1 st d ft⟩⟩

/-- the PARSED RESULT: header items of every section (and the ~Other text), and per data section the curves — neither the
line numbers of the windows nor the engine that produced the curves belong to it -/
structure Parsed where
  sections : List (Rd.RKey × Rd.SecVal)
  data : List (Except Dt.DErr (List (Dt.Slot × Dt.Column)))
deriving Repr

def FullRead.parsed (r : FullRead) : Parsed := ⟨r.sections, r.data.map fun x => x.res.map Prod.snd⟩

def readModel (o : Opts) (nullOf : Option Str → Option Str) (ft : Dt.FloatTable) (lines : Doc) : Except Rd.RErr Parsed :=
  (readFull o nullOf ft lines).map FullRead.parsed

end Lasio.Tf
