import LasioModel.Basic
/- Transform model (to be filled in) -/
namespace Lasio
end Lasio
