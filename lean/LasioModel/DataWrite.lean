import LasioModel.Basic
/-
Model of the DATA-SECTION part of `lasio.writer.write` (writer.py, from "Set empty defaults for nrows and ncols"
to the end of the function): `len_numeric_field` default, `format_data_section_line`, per-column formats and
spacers, the `~A` header line (plain or with mnemonics) and the row loop with `textwrap.TextWrapper.wrap`.

Runtime services modelled here (validated against the interpreter by harness/props/c01.py on every run):
* `'%[w].Nf' % x` for a binary64 `x` : exact decimal expansion rounded half-even to N fraction digits (`fmtFixed`);
* `textwrap.TextWrapper(width=w, break_long_words=False, break_on_hyphens=False).wrap(row)` : the chunk model (`textWrap`); before the repair: valid when no chunk is longer than
  the width and no word has a hyphen/em-dash break position (tokens are numbers here).
-/
namespace Lasio.Dw

/-! ### binary64 values, carried exactly -/

/-- `(-1)^neg · m · 2^e`, NaN, ±inf -/
inductive F64 where
  | finite (neg : Bool) (m : Nat) (e : Int)
  | nan
  | inf (neg : Bool)
  deriving Repr, DecidableEq, Inhabited

def F64.isNaN : F64 → Bool
  | .nan => true
  | _ => false

def F64.isFinite : F64 → Bool
  | .finite _ _ _ => true
  | _ => false

/-- `math.pi` = 0x1.921fb54442d18p+1 = 884279719003555 / 2^48 -/
def F64.pi : F64 := .finite false 884279719003555 (-48)

/-! ### `%.Nf` -/

/-- nearest integer to `num/den`, ties to even (what correctly rounded `%.Nf` does with the exact binary value) -/
def divRoundHalfEven (num den : Nat) : Nat :=
  let q := num / den
  let r := num % den
  if 2 * r > den || (2 * r == den && q % 2 == 1) then q + 1 else q

/-- the `N` low-order decimal digits of `q` (exactly `N` characters) -/
def lastDigits : Nat → Nat → Str
  | 0, _ => []
  | N + 1, q => lastDigits N (q / 10) ++ [digitChar q]

/-- `q` (an integer number of units 10^-N) printed with the decimal point `N` digits from the right -/
def fixedDigits (N q : Nat) : Str :=
  natToStr (q / 10 ^ N) ++ (if N = 0 then [] else '.' :: lastDigits N q)

/-- the rounded magnitude, in units of 10^-N, of `m · 2^e` -/
def fixedUnits (N m : Nat) (e : Int) : Nat :=
  divRoundHalfEven (m * 2 ^ e.toNat * 10 ^ N) (2 ^ (-e).toNat)

/-- `'%.Nf' % x` -/
def fmtFixed (N : Nat) : F64 → Str
  | .nan => ['n', 'a', 'n']
  | .inf neg => if neg then ['-', 'i', 'n', 'f'] else ['i', 'n', 'f']
  | .finite neg m e => (if neg then ['-'] else []) ++ fixedDigits N (fixedUnits N m e)

/-- a supported format string `%[width].Nf` -/
structure Fmt where
  width : Option Nat
  prec : Nat
  deriving Repr, DecidableEq, Inhabited

def dwDigitsVal (s : Str) : Nat := s.foldl (fun a c => 10 * a + (c.toNat - 48)) 0

/-- parser of the supported printf formats: `%`, optional width (digits, not starting with `0`: that would be the
zero-pad flag), `.`, at least one precision digit, `f`.  Anything else is unsupported (`none`). -/
def parseFmt : Str → Option Fmt
  | '%' :: rest =>
    let w := rest.takeWhile isDigit
    match rest.dropWhile isDigit with
    | '.' :: r2 =>
      let p := r2.takeWhile isDigit
      if r2.dropWhile isDigit == ['f'] && !p.isEmpty && w.head? != some '0' then
        some ⟨if w.isEmpty then none else some (dwDigitsVal w), dwDigitsVal p⟩
      else none
    | _ => none
  | _ => none

/-- `fmt % x` -/
def fmtApply (f : Fmt) (x : F64) : Str :=
  match f.width with
  | none => fmtFixed f.prec x
  | some w => rjust w (fmtFixed f.prec x)

/-- `len_numeric_field = 10; test = fmt % np.pi; while len(test) > len_numeric_field - 1: len_numeric_field += 1` -/
def lenNumericFieldDefault (f : Fmt) : Int :=
  let t := (fmtApply f F64.pi).length
  if t > 9 then (t + 1 : Nat) else 10

/-! ### cells and rows -/

/-- parsed row-level options -/
structure RowCfg where
  fmt : Fmt
  columnFmt : List (Nat × Fmt)
  lenNumericField : Int
  lhsSpacer : Str
  spacer : Str
  deriving Repr, Inhabited

def RowCfg.colFmt (c : RowCfg) (j : Nat) : Fmt :=
  match c.columnFmt.lookup j with
  | some f => f
  | none => c.fmt

def RowCfg.leftSpacing (c : RowCfg) (j : Nat) : Str := if j = 0 then c.lhsSpacer else c.spacer

/-- the text of a cell before justification: NaN → `str(NULL)`, else `fmt % n` -/
def cellValue (null : Str) (f : Fmt) (x : F64) : Str :=
  if x.isNaN then null else fmtApply f x

/-- `format_data_section_line(n, fmt, l, spacing_chars)` -/
def formatCell (null : Str) (f : Fmt) (l : Int) (sp : Str) (x : F64) : Str :=
  sp ++ (if l == -1 then cellValue null f x else rjust l.toNat (cellValue null f x))

def dataRowFrom (c : RowCfg) (null : Str) : Nat → List F64 → Str
  | _, [] => []
  | j, x :: xs => formatCell null (c.colFmt j) c.lenNumericField (c.leftSpacing j) x ++ dataRowFrom c null (j + 1) xs

/-- `depth_slice` : the concatenation of the formatted cells of one row -/
def dataRow (c : RowCfg) (null : Str) (cells : List F64) : Str := dataRowFrom c null 0 cells

/-! ### `textwrap.TextWrapper(width).wrap` on data rows -/

/-- the characters TextWrapper treats as whitespace (`textwrap._whitespace`) -/
def isWrapSpace (c : Char) : Bool :=
  c == ' ' || c == '\t' || c == '\n' || c == '\x0b' || c == '\x0c' || c == '\r'

/-- `str.expandtabs(8)` (column counter reset by `\n` and `\r`) -/
def expandTabs : Nat → Str → Str
  | _, [] => []
  | col, c :: cs =>
    if c == '\t' then List.replicate (8 - col % 8) ' ' ++ expandTabs (col + (8 - col % 8)) cs
    else if c == '\n' || c == '\r' then c :: expandTabs 0 cs
    else c :: expandTabs (col + 1) cs

/-- `_munge_whitespace` : expand tabs, then every whitespace character becomes a blank -/
def wrapMunge (s : Str) : Str := (expandTabs 0 s).map (fun c => if isWrapSpace c then ' ' else c)

/-- `_split` for texts without hyphen/em-dash break positions: maximal runs of blanks / of non-blanks -/
def wrapChunks : Str → List Str
  | [] => []
  | c :: cs =>
    match wrapChunks cs with
    | (d :: ds) :: rest => if (c == ' ') == (d == ' ') then (c :: d :: ds) :: rest else [c] :: (d :: ds) :: rest
    | _ => [[c]]

/-- `chunk.strip() == ''` -/
def isBlankChunk (c : Str) : Bool := c.all isPySpace

/-- end of a line: drop a trailing all-whitespace chunk; an empty line is not emitted (`cur` is reversed) -/
def closeLine (cur : List Str) : Option Str :=
  let kept := match cur with
    | l :: rest => if isBlankChunk l then rest else cur
    | [] => []
  if kept.isEmpty then none else some kept.reverse.flatten

/-- `_wrap_chunks` with `break_long_words=False` (when every chunk fits in the width the flag plays no part).  `has` = a line has already been emitted,
`cur` = wrapChunks of the current line (reversed), `n` = their total length. -/
def wrapLines (w : Nat) : List Str → Bool → List Str → Nat → List Str
  | [], _, cur, _ => (closeLine cur).toList
  | c :: cs, has, cur, n =>
    if n + c.length ≤ w then wrapLines w cs has (c :: cur) (n + c.length)
    else
      let l := closeLine cur
      let has' := has || l.isSome
      l.toList ++ (if has' && isBlankChunk c then wrapLines w cs has' [] 0
                   else wrapLines w cs has' [c] c.length)

/-- `TextWrapper(width=w, break_long_words=False, break_on_hyphens=False).wrap(s)`; `none`: width ≤ 0 raises.  A chunk longer
than the width is not broken (since the repair "wrapped data lines cut a value longer than data_width in two"): it cannot be
added to a line that has something on it, and it is put alone on the next one (`_handle_long_word` on an empty line) — which
is what `wrapLines` does with it: started as `[c]` with `n > w`, the line accepts no further chunk and is closed. -/
def textWrap (w : Nat) (s : Str) : Option (List Str) :=
  if w = 0 then none
  else some (wrapLines w (wrapChunks (wrapMunge s)) false [] 0)

/-- `TextWrapper(width=w).wrap(s)` as the writer called it BEFORE that repair (long words broken): modelled only when no chunk
is longer than the width; kept to state the defect (`C01_counterexample_long_value_broken`) -/
def textWrapOld (w : Nat) (s : Str) : Option (List Str) :=
  let cs := wrapChunks (wrapMunge s)
  if w = 0 || cs.any (fun c => c.length > w) then none
  else some (wrapLines w cs false [] 0)

/-! ### the `~A` line -/

/-- `for k in range(steps): if k < len(hv): if hv[0] == " ": hv = hv[1:]` -/
def trimLoop : Nat → Nat → Str → Str
  | 0, _, hv => hv
  | steps + 1, k, hv =>
    trimLoop steps (k + 1)
      (if k < hv.length then (match hv with | ' ' :: t => t | _ => hv) else hv)

def headerValue (mnemonic : Str) (colWidth : Nat) : Str :=
  let width := if mnemonic.length + 1 > colWidth then mnemonic.length + 1 else colWidth
  rjust width mnemonic

def zipHeaderValues : List Str → List Nat → Option (List Str)
  | [], _ => some []
  | _ :: _, [] => none            -- header_col_widths[j] IndexError
  | m :: ms, w :: ws => (zipHeaderValues ms ws).map (headerValue m w :: ·)

def colWidthsFrom (c : RowCfg) (null : Str) : Nat → List F64 → List Nat
  | _, [] => []
  | j, x :: xs => (formatCell null (c.colFmt j) c.lenNumericField (c.leftSpacing j) x).length :: colWidthsFrom c null (j + 1) xs

/-- the data-section header line. `firstRow = none` : no data rows (then `data_arr[0, j]` raises as soon as there is a column) -/
def dataHeaderLine (c : RowCfg) (null : Str) (mnemonicsHeader : Bool) (dsh : Str) (headerWidth : Nat)
    (mnemonics : List Str) (firstRow : Option (List F64)) : Option Str :=
  if mnemonicsHeader then
    let widths? : Option (List Nat) := match firstRow with
      | some r => some (colWidthsFrom c null 0 r)
      | none => if mnemonics.isEmpty then some [] else none
    match widths? with
    | none => none
    | some widths =>
      match zipHeaderValues mnemonics widths with
      | none => none
      | some hvs =>
        let dsh2 := dsh ++ [' ']
        match hvs with
        | [] => some dsh2
        | hv :: rest => some (dsh2 ++ trimLoop dsh2.length 0 hv ++ rest.flatten)
  else some (ljust headerWidth '-' (dsh ++ [' ']))

/-! ### the whole data section -/

structure DataCfg where
  wrap : Bool
  fmt : Str
  columnFmt : List (Nat × Str)
  lenNumericField : Option Int
  lhsSpacer : Str
  spacer : Str
  dataWidth : Nat
  headerWidth : Nat
  dataSectionHeader : Str
  mnemonicsHeader : Bool
  deriving Repr, Inhabited

def parseColumnFmt : List (Nat × Str) → Option (List (Nat × Fmt))
  | [] => some []
  | (j, s) :: rest =>
    match parseFmt s, parseColumnFmt rest with
    | some f, some r => some ((j, f) :: r)
    | _, _ => none

def DataCfg.rowCfg (cfg : DataCfg) : Option RowCfg :=
  match parseFmt cfg.fmt, parseColumnFmt cfg.columnFmt with
  | some f, some cf =>
    some { fmt := f, columnFmt := cf,
           lenNumericField := (match cfg.lenNumericField with | some l => l | none => lenNumericFieldDefault f),
           lhsSpacer := cfg.lhsSpacer, spacer := cfg.spacer }
  | _, _ => none

/-- the physical lines of one row -/
def rowLines (wrap : Bool) (dataWidth : Nat) (row : Str) : Option (List Str) :=
  if wrap then textWrap dataWidth row else some [row]

def dwBodyLines (c : RowCfg) (null : Str) (wrap : Bool) (dataWidth : Nat) : List (List F64) → Option (List Str)
  | [] => some []
  | r :: rs =>
    match rowLines wrap dataWidth (dataRow c null r), dwBodyLines c null wrap dataWidth rs with
    | some a, some b => some (a ++ b)
    | _, _ => none

/-- everything `write` emits from the `~A` line on (without the line terminators); `none` = unmodelled
(unsupported format string, a field that does not fit in `data_width` when wrapping, IndexError paths) -/
def dataLines (cfg : DataCfg) (null : Str) (mnemonics : List Str) (rows : List (List F64)) : Option (List Str) :=
  match cfg.rowCfg with
  | none => none
  | some c =>
    match dataHeaderLine c null cfg.mnemonicsHeader cfg.dataSectionHeader cfg.headerWidth mnemonics rows.head?,
          dwBodyLines c null cfg.wrap cfg.dataWidth rows with
    | some h, some b => some (h :: b)
    | _, _ => none

/-! ### reading a printed token back -/

/-- digits `.` digits, at least one digit in total → (integer numerator, number of fraction digits) -/
def decOfUnsigned (s : Str) : Option (Nat × Nat) :=
  let ip := s.takeWhile isDigit
  match s.dropWhile isDigit with
  | [] => if ip.isEmpty then none else some (dwDigitsVal ip, 0)
  | '.' :: fr =>
    if fr.all isDigit && !(ip.isEmpty && fr.isEmpty) then some (dwDigitsVal ip * 10 ^ fr.length + dwDigitsVal fr, fr.length)
    else none
  | _ => none

/-- sign, magnitude numerator, scale: the token denotes `(-1)^neg · a / 10^k` (sign kept so that `-0.00` is told apart) -/
def decOfTokS : Str → Option (Bool × Nat × Nat)
  | '-' :: s => (decOfUnsigned s).map fun (a, k) => (true, a, k)
  | '+' :: s => (decOfUnsigned s).map fun (a, k) => (false, a, k)
  | s => (decOfUnsigned s).map fun (a, k) => (false, a, k)

/-- the exact rational `num / 10^k` denoted by a plain decimal token (no exponent) -/
def decOfTok (s : Str) : Option (Int × Nat) :=
  (decOfTokS s).map fun (neg, a, k) => (if neg then -(a : Int) else (a : Int), k)

/-- `%.Nf` applied to the exact decimal `(-1)^neg · a / 10^k` -/
def fmtFixedDec (N : Nat) (neg : Bool) (a k : Nat) : Str :=
  (if neg then ['-'] else []) ++ fixedDigits N (divRoundHalfEven (a * 10 ^ N) (10 ^ k))

/-- whitespace tokenisation: `str.split()` -/
def tokGo : Str → Str → List Str
  | cur, [] => if cur.isEmpty then [] else [cur.reverse]
  | cur, c :: cs =>
    if isPySpace c then (if cur.isEmpty then tokGo [] cs else cur.reverse :: tokGo [] cs)
    else tokGo (c :: cur) cs

def tokensWs (s : Str) : List Str := tokGo [] s

end Lasio.Dw
