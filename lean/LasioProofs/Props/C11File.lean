import LasioProofs.Lemmas.CycleLemmas
/-
C11 (file level) — the header `write` emits is a fixed point of  read -> write -> read.

`C03_file` says: the header lines `write` emits for a conformant object `las`, read by the whole-file reader model
(`Rd.readLines`), give back exactly the written items in every section (`Cy.firstRead`).  Here it is used TWICE:

  L1   := the sections obtained by reading `headerLines version wrap w las`                       (first re-read)
  las1 := `Cy.lasOfRead rv o L1`, the LASFile that holds exactly the items of L1                    (what `read` builds)
  L2   := the sections obtained by reading `headerLines version wrap w2 las1`                     (second re-read)

  `C11_file_fixed_point`        L2 = L1  (and the second write succeeds), any header widths `w`, `w2`
  `C11_file_fixed_point_text`   the same with every re-read value kept as the `str` that was read (`rv = WVal.str`)
  `C11_file_recycle`, `C11_file_iterate`   L1 is a fixed point of the cycle `recycle`; any number of further
                                load/save cycles (any header widths) returns L1: nothing drifts
  `C11_file_invariant`          the hypotheses themselves hold again for `las1` (so the theorem can be re-applied)

VALUES.  The reader model keeps the value TEXT (`num()` is applied later in the code); the second `write` sees the re-read
value through `str()`, `not v`, `v == 0`, `v is None`.  `rv : Str → WVal` is that re-typing (`num()` as the writer sees it).  The
theorems hold for every `rv` with `Cy.Retype rv` (never `None`; falsy-but-not-zero only for the empty string — true of `num()`,
whose results are numbers and strings) and every `las` with `hsp : Cy.SpeltConf rv … las`: every value `write` prints for `las`
is spelt as its re-typed re-read prints, `str(num(t)) = t`.  That covers
  * `rv = WVal.str` (every re-read value kept as the `str` that was read): `hsp` holds for every `las` (`C11_file_fixed_point_text`);
  * `rv = num()` and every `las` whose values are `str()`s of Python numbers / strings that are no numeric literals — in particular
    every `las` that `lasio.read` built (its numeric values are `np.float64` / `np.int64`; `str(num(str(x))) = str(x)` is the
    round-trip property of `float.__repr__`, a runtime service: it enters as the hypothesis `hsp`, it is not proved here).
NOT covered: a `las` built by a program that holds the `str` `"1670.00"` (or `"1e3"`) as a value: the first re-read has the text
`1670.00`, `num()` makes it the float 1670.0, the second re-read has the text `1670.0` — equal as numbers, not as text
(`C11_file_counterexample_respelt`); from the second re-read on `hsp` holds and the theorem applies (L3 = L2).
NOT modelled here (outside `Wr.headerLines`, which starts from the LASFile AFTER `update_start_stop_step` and
`update_units_from_index_curve`): a second `write` that refreshes STRT/STOP/STEP or copies the index unit because the re-read
DATA differ from the header (the known findings `sss-shift-after-lossy-index-format`, `unit-leading-period`); the data section.

EXTRA HYPOTHESES (each forced, see the counter-example theorems):
  `hwrap : Cy.WrapOK`      exactly one item of the written ~Version section is WRAP for the reader  (`…_duplicate_wrap`)
  `hvw`, `hvp : Cy.ValueShown`   a ~Well / ~Parameter item with a unit shows a value                  (`…_value_hidden`)
  `hol : Cy.OtherLast`     the last ~Other line is not blank                                         (`…_other_blank_tail`)
  `hsp : Cy.SpeltConf`     the written values are spelt as their re-typed re-reads print             (`…_respelt`)
  the same `mnemonic_case` in both reads                                                             (`…_case_change`)
and two of the `TextConf` conditions inherited from `C03_file` are shown to be needed for the FIXED POINT too (not only for
the round trip): `unit_notnum` (`…_numeric_unit`) and `mnem_ne` (`…_blank_mnemonic`, drifts on every cycle).
The known drift "unit starting with '.'" (`DEPT..1IN`) is NOT a header-level drift in this model: the first re-read
(`DEPT.` / `1IN`) is already a fixed point of the header cycle (`C11_file_unit_leading_period_stable`); in lasio the drift
comes from `update_units_from_index_curve` copying the changed unit into STRT/STOP/STEP, which is outside `headerLines`.
-/
namespace Lasio.C11
open Lasio Lasio.Wr Lasio.Cy

abbrev Sections := List (Rd.RKey × Rd.SecVal)

/-- write the header of `las`, read it back: the sections (`none` = `write` or `read` raises) -/
def reread (o : Rd.ReadOpts) (version : String) (wrap : Option Bool) (w : Nat) (las : WLas) : Option Sections :=
  match headerLines version wrap w las with
  | .error _ => none
  | .ok (lines, _) =>
    match Rd.readLines o lines with
    | .ok hd => some hd.sections
    | .error _ => none

/-- one load/save cycle on re-read sections: build the LASFile (`lasOfRead`), write it, read it -/
def recycle (rv : Str → WVal) (o : Rd.ReadOpts) (version : String) (wrap : Option Bool) (w : Nat) (secs : Sections) :
    Option Sections :=
  reread o version wrap w (lasOfRead rv o secs)

/-- one cycle per header width in the list -/
def recycleAll (rv : Str → WVal) (o : Rd.ReadOpts) (version : String) (wrap : Option Bool) : List Nat → Sections → Option Sections
  | [], s => some s
  | w :: ws, s => (recycle rv o version wrap w s).bind (recycleAll rv o version wrap ws)

/-! ## the fixed point -/

/-- **File-level fixed point (header).**  `las` satisfies the hypotheses of `C03_file` (+ `hdlm`, which `readLines` needs) and
the extra ones `hwrap`, `hvw`, `hvp`, `hol`, `hsp` (`rv` any re-typing of the re-read value texts with `Retype rv`).  Then: the written header reads back (`hd`, first re-read); `write` succeeds again on
the LASFile `lasOfRead rv o hd.sections` built from it, with any header width `w2`; and reading THAT header gives the same
sections — every item of every section with the same mnemonic, unit, value text and description, in the same order, the same
~Other text — the same version and no data section: second re-read = first re-read. -/
theorem C11_file_fixed_point (o : Rd.ReadOpts) (rv : Str → WVal) (hrv : Retype rv) (version : String)
    (wrap : Option Bool) (w w2 : Nat) (las las' : WLas) (lines : List Str)
    (h : headerLines version wrap w las = .ok (lines, las'))
    (hcv : ∀ it ∈ RH.versionCopy version wrap las, TextConf .version it)
    (hcw : ∀ it ∈ standardizeItems las.well, TextConf .well it)
    (hcc : ∀ it ∈ las.curves, TextConf .curves it)
    (hcp : ∀ it ∈ standardizeItems las.params, TextConf .parameter it)
    (hmv : ∀ it ∈ RH.versionCopy version wrap las, it.orig.head? ≠ some '#' ∧ it.orig.head? ≠ some '~')
    (hmw : ∀ it ∈ las.well, it.orig.head? ≠ some '#' ∧ it.orig.head? ≠ some '~')
    (hmc : ∀ it ∈ las.curves, it.orig.head? ≠ some '#' ∧ it.orig.head? ≠ some '~')
    (hmp : ∀ it ∈ las.params, it.orig.head? ≠ some '#' ∧ it.orig.head? ≠ some '~')
    (hvers : VersOK o version (RH.versionCopy version wrap las))
    (ho : OtherOK las.other)
    (hdlm : ∀ it ∈ RH.versionCopy version wrap las, upper it.orig ≠ "DLM".toList)
    (hwrap : WrapOK o (RH.versionCopy version wrap las))
    (hvw : ∀ it ∈ standardizeItems las.well, ValueShown it)
    (hvp : ∀ it ∈ standardizeItems las.params, ValueShown it)
    (hol : OtherLast las.other)
    (hsp : SpeltConf rv version wrap las) :
    ∃ hd, Rd.readLines o lines = .ok hd ∧ hd.sections = firstRead o version wrap las ∧
      ∃ lines2 las2', headerLines version wrap w2 (lasOfRead rv o hd.sections) = .ok (lines2, las2') ∧
        ∃ hd2, Rd.readLines o lines2 = .ok hd2 ∧ hd2.sections = hd.sections ∧ hd2.steer.vers = hd.steer.vers ∧
          hd2.data = hd.data := by
  have hc : FileConf o version wrap las := ⟨hcv, hcw, hcc, hcp, hmv, hmw, hmc, hmp, hvers, ho, hdlm⟩
  have hx : CycleConf o version wrap las := ⟨hwrap, hvw, hvp, hol⟩
  have hver := headerLines_version version wrap w las las' lines h
  obtain ⟨steer, hr, hsv⟩ := read_written o version wrap w las las' lines h hc
  obtain ⟨hc1, _, _, hfix, htot⟩ := cycle_core o hrv version wrap las hver hc hx hsp
  obtain ⟨lines2, las2', h2⟩ := htot w2
  obtain ⟨steer2, hr2, hsv2⟩ := read_written o version wrap w2 _ las2' lines2 h2 hc1
  refine ⟨_, hr, rfl, lines2, las2', h2, _, hr2, ?_, ?_, rfl⟩
  · exact hfix
  · simp only [hsv, hsv2]

/-- the same, every re-read value kept as the text that was read -/
theorem C11_file_fixed_point_text (o : Rd.ReadOpts) (version : String)
    (wrap : Option Bool) (w w2 : Nat) (las las' : WLas) (lines : List Str)
    (h : headerLines version wrap w las = .ok (lines, las'))
    (hcv : ∀ it ∈ RH.versionCopy version wrap las, TextConf .version it)
    (hcw : ∀ it ∈ standardizeItems las.well, TextConf .well it)
    (hcc : ∀ it ∈ las.curves, TextConf .curves it)
    (hcp : ∀ it ∈ standardizeItems las.params, TextConf .parameter it)
    (hmv : ∀ it ∈ RH.versionCopy version wrap las, it.orig.head? ≠ some '#' ∧ it.orig.head? ≠ some '~')
    (hmw : ∀ it ∈ las.well, it.orig.head? ≠ some '#' ∧ it.orig.head? ≠ some '~')
    (hmc : ∀ it ∈ las.curves, it.orig.head? ≠ some '#' ∧ it.orig.head? ≠ some '~')
    (hmp : ∀ it ∈ las.params, it.orig.head? ≠ some '#' ∧ it.orig.head? ≠ some '~')
    (hvers : VersOK o version (RH.versionCopy version wrap las))
    (ho : OtherOK las.other)
    (hdlm : ∀ it ∈ RH.versionCopy version wrap las, upper it.orig ≠ "DLM".toList)
    (hwrap : WrapOK o (RH.versionCopy version wrap las))
    (hvw : ∀ it ∈ standardizeItems las.well, ValueShown it)
    (hvp : ∀ it ∈ standardizeItems las.params, ValueShown it)
    (hol : OtherLast las.other) :
    ∃ hd, Rd.readLines o lines = .ok hd ∧ hd.sections = firstRead o version wrap las ∧
      ∃ lines2 las2', headerLines version wrap w2 (lasOfRead WVal.str o hd.sections) = .ok (lines2, las2') ∧
        ∃ hd2, Rd.readLines o lines2 = .ok hd2 ∧ hd2.sections = hd.sections ∧ hd2.steer.vers = hd.steer.vers ∧
          hd2.data = hd.data :=
  C11_file_fixed_point o WVal.str retype_str version wrap w w2 las las' lines h hcv hcw hcc hcp hmv hmw hmc hmp hvers ho
    hdlm hwrap hvw hvp hol (speltConf_str version wrap las)

/-- **The hypotheses are an invariant of the cycle**: the LASFile of the first re-read satisfies every hypothesis of
`C11_file_fixed_point` again (so the theorem, and `C03_file`, apply to it, to the LASFile of ITS re-read, and so on). -/
theorem C11_file_invariant (o : Rd.ReadOpts) (rv : Str → WVal) (hrv : Retype rv) (version : String)
    (wrap : Option Bool) (las : WLas) (hver : version = "1.2" ∨ version = "2.0")
    (hc : FileConf o version wrap las) (hx : CycleConf o version wrap las) (hsp : SpeltConf rv version wrap las) :
    FileConf o version wrap (lasOfRead rv o (firstRead o version wrap las)) ∧
    CycleConf o version wrap (lasOfRead rv o (firstRead o version wrap las)) ∧
    SpeltConf rv version wrap (lasOfRead rv o (firstRead o version wrap las)) :=
  ⟨(cycle_core o hrv version wrap las hver hc hx hsp).1, (cycle_core o hrv version wrap las hver hc hx hsp).2.1,
   (cycle_core o hrv version wrap las hver hc hx hsp).2.2.1⟩

/-- the first re-read is a fixed point of the load/save cycle, whatever the header width -/
theorem C11_file_recycle (o : Rd.ReadOpts) (rv : Str → WVal) (hrv : Retype rv) (version : String)
    (wrap : Option Bool) (w2 : Nat) (las : WLas) (hver : version = "1.2" ∨ version = "2.0")
    (hc : FileConf o version wrap las) (hx : CycleConf o version wrap las) (hsp : SpeltConf rv version wrap las) :
    recycle rv o version wrap w2 (firstRead o version wrap las) = some (firstRead o version wrap las) := by
  obtain ⟨hc1, _, _, hfix, htot⟩ := cycle_core o hrv version wrap las hver hc hx hsp
  obtain ⟨lines2, las2', h2⟩ := htot w2
  obtain ⟨steer2, hr2, _⟩ := read_written o version wrap w2 _ las2' lines2 h2 hc1
  unfold recycle reread
  rw [h2]
  simp only [hr2, hfix]

/-- the first re-read itself, as a value of `reread` -/
theorem C11_file_reread (o : Rd.ReadOpts) (version : String) (wrap : Option Bool) (w : Nat) (las : WLas)
    (hver : version = "1.2" ∨ version = "2.0")
    (hwk : wrap = none → ∃ i, findFirst (fun x : WItem => cmpStr las.versionTr x.session "WRAP".toList) las.version = some i)
    (hc : FileConf o version wrap las) :
    reread o version wrap w las = some (firstRead o version wrap las) := by
  obtain ⟨lines, las', h⟩ := headerLines_total version wrap w las hver hwk
  obtain ⟨steer, hr, _⟩ := read_written o version wrap w las las' lines h hc
  unfold reread
  rw [h]
  simp only [hr]

/-- **Nothing drifts over repeated load/save cycles**: any number of further cycles (one per header width in `ws`) after the
first re-read returns the first re-read. -/
theorem C11_file_iterate (o : Rd.ReadOpts) (rv : Str → WVal) (hrv : Retype rv) (version : String)
    (wrap : Option Bool) (las : WLas) (hver : version = "1.2" ∨ version = "2.0")
    (hc : FileConf o version wrap las) (hx : CycleConf o version wrap las) (hsp : SpeltConf rv version wrap las)
    (ws : List Nat) :
    recycleAll rv o version wrap ws (firstRead o version wrap las) = some (firstRead o version wrap las) := by
  induction ws with
  | nil => rfl
  | cons w ws ih =>
    simp only [recycleAll, C11_file_recycle o rv hrv version wrap w las hver hc hx hsp, Option.bind_some, ih]

/-! ## the extra hypotheses hold for ordinary objects -/

/-- `hvw` / `hvp` hold by themselves for the values Python programs put there: after `standardize_value` a `str`, `None` or a
number (whose `str()` is not empty) on an item with a unit always shows a value -/
theorem C11_file_valueShown_plain (it : WItem)
    (hv : (∃ s, it.value = .str s) ∨ it.value = .none ∨ (∃ t z, it.value = .num t z ∧ t ≠ [])) :
    ValueShown { it with value := standardizeValue it.value it.unit } := by
  intro hu
  have hue : it.unit.isEmpty = false := by
    cases h : it.unit with
    | nil => exact absurd h hu
    | cons a t => rfl
  rcases hv with ⟨s, e⟩ | e | ⟨t, z, e, ht⟩
  · rw [e]
    cases s with
    | nil => simp [standardizeValue, hue, WVal.str, WVal.intZero]
    | cons a s => simp [standardizeValue, hue, WVal.str]
  · rw [e]
    simp [standardizeValue, hue, WVal.none, WVal.intZero]
  · rw [e]
    cases z <;> simpa [standardizeValue, hue, WVal.num] using ht

/-! ## the hypotheses are needed -/

def exVers : WItem := mkWItem "VERS".toList [] (.num "2.0".toList false) "old".toList
def optsU : Rd.ReadOpts := ⟨false, .upper⟩
def optsL : Rd.ReadOpts := ⟨false, .lower⟩

/-- `hwrap` is needed: a ~Version section with two WRAP items (session mnemonics WRAP:1, WRAP:2, as `read` builds them from a
file with two WRAP lines): `version["WRAP"] = …` finds no item called WRAP and appends one — on every cycle (the known finding
`dup-wrap-grows`): the ~Version section has 4 items (VERS + 3 WRAP) in the first re-read, 5 in the second -/
theorem C11_file_counterexample_duplicate_wrap :
    let las : WLas := ⟨[exVers, { wrapItem true with session := "WRAP:1".toList },
      { wrapItem true with session := "WRAP:2".toList }], true, [], [], [], []⟩
    ((reread optsU "2.0" (some false) 20 las).map fun s => (secItems Rd.kVersion s).length) = some 4 ∧
    (((reread optsU "2.0" (some false) 20 las).bind (recycle WVal.str optsU "2.0" (some false) 20)).map
      fun s => (secItems Rd.kVersion s).length) = some 5 := by
  decide +kernel

/-- `hvw` is needed: a value that is truthy but prints as the empty string, on an item with a unit, is written as nothing; it is
re-read as the `str` `""`, which the next `write` normalises to 0 -/
theorem C11_file_counterexample_value_hidden :
    let las : WLas := ⟨[exVers, wrapItem false], true,
      [⟨"A".toList, "A".toList, "M".toList, ⟨[], false, false, false⟩, "d".toList⟩], [], [], []⟩
    ((reread optsU "2.0" (some false) 20 las).map (secItems Rd.kWell)) =
      some [⟨"A".toList, "M".toList, [], "d".toList⟩] ∧
    (((reread optsU "2.0" (some false) 20 las).bind (recycle WVal.str optsU "2.0" (some false) 20)).map
      (secItems Rd.kWell)) = some [⟨"A".toList, "M".toList, "0".toList, "d".toList⟩] := by
  decide +kernel

/-- `hol` is needed: `"\n".join` / `splitlines` lose one trailing blank line of ~Other per cycle -/
theorem C11_file_counterexample_other_blank_tail :
    let las : WLas := ⟨[exVers, wrapItem false], true, [], [], [], "a\n ".toList⟩
    ((reread optsU "2.0" (some false) 20 las).map (secText Rd.kOther)) = some "a\n".toList ∧
    (((reread optsU "2.0" (some false) 20 las).bind (recycle WVal.str optsU "2.0" (some false) 20)).map
      (secText Rd.kOther)) = some "a".toList := by
  decide +kernel

/-- a re-typing that respells one value: `num("1670.00")` is the float that prints as `1670.0` -/
def rvToy (t : Str) : WVal := if t = "1670.00".toList then .num "1670.0".toList false else .str t

/-- `hsp` is needed for a fixed point of the TEXT: the `str` value `"1670.00"` is re-read, becomes a float, and is printed as
`1670.0` by the second `write` (numerically the same value) -/
theorem C11_file_counterexample_respelt :
    let las : WLas := ⟨[exVers, wrapItem false], true,
      [mkWItem "STRT".toList "M".toList (.str "1670.00".toList) []], [], [], []⟩
    ((reread optsU "2.0" (some false) 20 las).map (secItems Rd.kWell)) =
      some [⟨"STRT".toList, "M".toList, "1670.00".toList, []⟩] ∧
    (((reread optsU "2.0" (some false) 20 las).bind (recycle rvToy optsU "2.0" (some false) 20)).map
      (secItems Rd.kWell)) = some [⟨"STRT".toList, "M".toList, "1670.0".toList, []⟩] := by
  decide +kernel

/-- the same `mnemonic_case` in both reads is needed -/
theorem C11_file_counterexample_case_change :
    let las : WLas := ⟨[exVers, wrapItem false], true, [], [mkWItem "Dept".toList "M".toList (.str []) []], [], []⟩
    ((reread optsU "2.0" (some false) 20 las).map (secItems Rd.kCurves)) =
      some [⟨"DEPT".toList, "M".toList, [], []⟩] ∧
    (((reread optsU "2.0" (some false) 20 las).bind (recycle WVal.str optsL "2.0" (some false) 20)).map
      (secItems Rd.kCurves)) = some [⟨"dept".toList, "M".toList, [], []⟩] := by
  decide +kernel

/-- `TextConf.unit_notnum` is needed for the fixed point: an all-digit unit followed by exactly one blank and a value
(`STRT.1000 1.0 :`) re-reads as unit `1000 1.0`, value `""` (the known finding `numeric-unit-swallows-value`); in ~Well the
next `write` puts 0 there -/
theorem C11_file_counterexample_numeric_unit :
    let las : WLas := ⟨[exVers, wrapItem false], true,
      [mkWItem "STRT".toList "1000".toList (.str "1.0".toList) []], [], [], []⟩
    ((reread optsU "2.0" (some false) 20 las).map (secItems Rd.kWell)) =
      some [⟨"STRT".toList, "1000 1.0".toList, [], []⟩] ∧
    (((reread optsU "2.0" (some false) 20 las).bind (recycle WVal.str optsU "2.0" (some false) 20)).map
      (secItems Rd.kWell)) = some [⟨"STRT".toList, "1000 1.0".toList, "0".toList, []⟩] := by
  decide +kernel

/-- `TextConf.mnem_ne` is needed for the fixed point: a blank mnemonic on a line with another period (the known finding
`blank-mnemonic-period`) moves fields on EVERY cycle -/
theorem C11_file_counterexample_blank_mnemonic :
    let las : WLas := ⟨[exVers, wrapItem false], true,
      [⟨[], "UNKNOWN".toList, [], .str "1.5".toList, "a.b".toList⟩], [], [], []⟩
    let c := recycle WVal.str optsU "2.0" (some false) 20
    ((reread optsU "2.0" (some false) 20 las).map (secItems Rd.kWell)) =
      some [⟨"1".toList, "5".toList, [], "a.b".toList⟩] ∧
    (((reread optsU "2.0" (some false) 20 las).bind c).map (secItems Rd.kWell)) =
      some [⟨"1".toList, "5 0".toList, [], "a.b".toList⟩] ∧
    ((((reread optsU "2.0" (some false) 20 las).bind c).bind c).map (secItems Rd.kWell)) =
      some [⟨"1".toList, "5 0".toList, "0".toList, "a.b".toList⟩] := by
  decide +kernel

/-- the known drift "unit starting with '.'": the round trip fails (`DEPT..1IN` re-reads as `DEPT.` / `1IN`, outside
`TextConf.unit_first`), but the first re-read is already a fixed point of the HEADER cycle -/
theorem C11_file_unit_leading_period_stable :
    let las : WLas := ⟨[exVers, wrapItem false], true, [], [mkWItem "DEPT".toList ".1IN".toList (.str []) []], [], []⟩
    ((reread optsU "2.0" (some false) 20 las).map (secItems Rd.kCurves)) =
      some [⟨"DEPT.".toList, "1IN".toList, [], []⟩] ∧
    ((reread optsU "2.0" (some false) 20 las).bind (recycle WVal.str optsU "2.0" (some false) 20)) =
      reread optsU "2.0" (some false) 20 las := by
  decide +kernel

/-! ## non-vacuity -/

def exDept : WItem :=
  ⟨"DEPT".toList, "DEPT".toList, "M".toList, .str "1670.0".toList, "start (depth) \"x\"".toList⟩
def exNull : WItem := mkWItem "Null".toList [] (.num "-999.25".toList false) "null value".toList
def exLas : WLas := ⟨[exVers, wrapItem true], true, [exDept, exNull], [exDept, exDept], [exDept], "hello\n\n world ".toList⟩

theorem exConf (kind : SecName) (it : WItem) (h : it = exDept ∨ it = exNull ∨ it = exVers) : TextConf kind it := by
  rcases h with rfl | rfl | rfl <;>
  exact ⟨by decide, by decide, by decide, by decide, by decide, by decide, by decide, by decide, by decide,
    by decide, by decide, (fun _ => by decide), by decide, by decide⟩

theorem exFileConf : FileConf optsL "1.2" (some false) exLas ∧ CycleConf optsL "1.2" (some false) exLas := by
  have hvc : ∀ it ∈ exLas.version, TextConf .version it := by
    intro it hit
    have : it = exVers ∨ it = wrapItem true := by simpa [exLas] using hit
    rcases this with rfl | rfl
    · exact exConf _ _ (Or.inr (Or.inr rfl))
    · exact conf_wrapItem true
  have hvm : ∀ it ∈ exLas.version, it.orig.head? ≠ some '#' ∧ it.orig.head? ≠ some '~' := by decide
  obtain ⟨hcv, hmv⟩ := C03_versionCopy_conf "1.2" (some false) exLas hvc hvm
  refine ⟨⟨hcv, ?_, ?_, ?_, hmv, by decide, by decide, by decide, ?_,
      (show ∀ l ∈ splitlines exLas.other, (strip l).head? ≠ some '~' by decide +kernel), by decide +kernel⟩,
    ⟨?_, by decide, by decide, by decide +kernel⟩⟩
  · intro it hit
    have : it = exDept ∨ it = exNull := by simpa [exLas, standardizeItems, exDept, exNull, standardizeValue, mkWItem, WVal.str, WVal.num] using hit
    rcases this with rfl | rfl
    · exact exConf _ _ (Or.inl rfl)
    · exact exConf _ _ (Or.inr (Or.inl rfl))
  · intro it hit
    have : it = exDept := by simpa [exLas] using hit
    exact exConf _ _ (Or.inl this)
  · intro it hit
    have : it = exDept := by simpa [exLas, standardizeItems, exDept, standardizeValue, WVal.str] using hit
    exact exConf _ _ (Or.inl this)
  · exact ⟨mkWItem "VERS".toList [] (.num "1.2".toList false) "CWLS LOG ASCII STANDARD - VERSION 1.2".toList,
      by decide +kernel, by decide⟩
  · exact ⟨wrapItem false, by decide +kernel⟩

/-- a LASFile header that satisfies every hypothesis, written as version 1.2 (description-first ~Well lines, `Null` value-first),
read with `mnemonic_case="lower"`: three further cycles with header widths 60, 5 and 33 return the first re-read, which is -/
example :
    reread optsL "1.2" (some false) 20 exLas = some (firstRead optsL "1.2" (some false) exLas) ∧
    recycleAll WVal.str optsL "1.2" (some false) [60, 5, 33] (firstRead optsL "1.2" (some false) exLas) =
      some (firstRead optsL "1.2" (some false) exLas) ∧
    secItems Rd.kWell (firstRead optsL "1.2" (some false) exLas) =
      [⟨"dept".toList, "M".toList, "1670.0".toList, "start (depth) \"x\"".toList⟩,
       ⟨"null".toList, [], "-999.25".toList, "null value".toList⟩] ∧
    secText Rd.kOther (firstRead optsL "1.2" (some false) exLas) = "hello\n\nworld".toList :=
  ⟨C11_file_reread optsL "1.2" (some false) 20 exLas (Or.inl rfl) (fun h => nomatch h) exFileConf.1,
   C11_file_iterate optsL WVal.str retype_str "1.2" (some false) exLas (Or.inl rfl) exFileConf.1 exFileConf.2
     (speltConf_str _ _ _) _,
   by decide +kernel, by decide +kernel⟩

/-- the same fixed point by running the model (no theorem involved) -/
example : (reread optsL "1.2" (some false) 20 exLas).bind (recycle WVal.str optsL "1.2" (some false) 60) =
    reread optsL "1.2" (some false) 20 exLas := by
  decide +kernel

end Lasio.C11

#print axioms Lasio.C11.C11_file_fixed_point
#print axioms Lasio.C11.C11_file_fixed_point_text
#print axioms Lasio.C11.C11_file_invariant
#print axioms Lasio.C11.C11_file_recycle
#print axioms Lasio.C11.C11_file_reread
#print axioms Lasio.C11.C11_file_iterate
#print axioms Lasio.C11.C11_file_valueShown_plain
#print axioms Lasio.C11.C11_file_counterexample_duplicate_wrap
#print axioms Lasio.C11.C11_file_counterexample_value_hidden
#print axioms Lasio.C11.C11_file_counterexample_other_blank_tail
#print axioms Lasio.C11.C11_file_counterexample_respelt
#print axioms Lasio.C11.C11_file_counterexample_case_change
#print axioms Lasio.C11.C11_file_counterexample_numeric_unit
#print axioms Lasio.C11.C11_file_counterexample_blank_mnemonic
#print axioms Lasio.C11.C11_file_unit_leading_period_stable
#print axioms Lasio.C11.exFileConf
