import LasioModel.Reader
import LasioProofs.Lemmas.ReaderLemmas
/-
C19 — `ignore_header_errors=True` makes header parsing tolerant and non-interfering.

Model: `Lasio.Rd.itemsLoop` / `parseItemsSection` (reader.py `parse_header_items_section`), `Lasio.Rd.steer`
(las.py:272-286).  A section body is the list of physical lines between two title lines; `bodyItems o p body` is what
the lines parse to one by one (`lineItem`), `bodyRun` the same with the error of the first unparsable line.

* `C19_total`            with the flag the items loop never returns an error, whatever the lines are
* `C19_local`            a line inserted into a body only inserts what it alone parses to (nothing or one item)
* `C19_steer`            an item whose upper-cased mnemonic is not VERS/WRAP/DLM/NULL leaves the steering unchanged
* `C19_only_header_error` without the flag the only error is `HeaderError` of the first unparsable line
-/
namespace Lasio.Rd

/-- With `ignore_header_errors=True` the loop over the lines of a header section cannot fail, for any lines at all. -/
theorem C19_total (o : ReadOpts) (p : Parser) (last : Nat) (rest : List Str) (lineNo : Nat)
    (hi : o.ignoreHeaderErrors = true) : ∃ items, itemsLoop o p last rest lineNo = .ok items := by
  cases h : itemsLoop o p last rest lineNo with
  | ok l => exact ⟨l, rfl⟩
  | error e =>
    have := (itemsLoop_error o p last rest lineNo e h).1
    rw [hi] at this; cases this

/-- … hence `parse_header_items_section` can only fail on the section title / version (`ORDER_DEFINITIONS[version]`),
never on a line of the section. -/
theorem C19_total_section (o : ReadOpts) (ver : VerVal) (secLines : List Str) (first last : Nat) (e : RErr)
    (hi : o.ignoreHeaderErrors = true) (h : parseItemsSection o ver secLines first last = .error e) :
    e = .keyError ∨ e = .unmodelled := by
  unfold parseItemsSection at h
  cases secLines with
  | nil => simp at h
  | cons t rest =>
    simp only at h
    cases hp : mkParser (lineStrip t) ver with
    | ok p =>
      simp only [hp] at h
      obtain ⟨l, hl⟩ := C19_total o p last rest first hi
      rw [hl] at h; cases h
    | error e' =>
      simp only [hp] at h
      cases h
      unfold mkParser at hp
      cases ver with
      | undecided => simp at hp; right; exact hp.symm
      | bad => simp at hp; left; exact hp.symm
      | known v =>
        simp only at hp
        split at hp <;> cases hp

/-- A whole body is read line by line: with the flag, the items of a section whose body is `body` (no title line inside,
`rest` = whatever follows in the file) are exactly what each line parses to on its own. -/
theorem C19_body (o : ReadOpts) (p : Parser) (body rest : List Str) (first : Nat)
    (hi : o.ignoreHeaderErrors = true) (hne : body ≠ []) (hb : ∀ b ∈ body, isTitle b = false) :
    itemsLoop o p (first + body.length) (body ++ rest) first = .ok (bodyItems o p body) := by
  rw [itemsLoop_body o p body rest first _ (no_title o p body hb) hne rfl]
  exact bodyRun_ignore o p body first hi

/-- LOCALITY. Inserting a line `j` (not a title line) into a section body changes the item list only by inserting,
at its place, what `j` alone parses to: nothing, or one item.  The genuine items keep their original mnemonic, unit,
value, description and their order. -/
theorem C19_local (o : ReadOpts) (p : Parser) (l₁ l₂ rest : List Str) (j : Str) (first : Nat)
    (hi : o.ignoreHeaderErrors = true)
    (h₁ : ∀ b ∈ l₁, isTitle b = false) (hj : isTitle j = false) (h₂ : ∀ b ∈ l₂, isTitle b = false) :
    itemsLoop o p (first + (l₁ ++ j :: l₂).length) (l₁ ++ j :: l₂ ++ rest) first
      = .ok (bodyItems o p l₁ ++ (lineItem o p j).toList ++ bodyItems o p l₂) := by
  have hb : ∀ b ∈ l₁ ++ j :: l₂, isTitle b = false := by
    intro b hb
    rcases List.mem_append.mp hb with h | h
    · exact h₁ b h
    · rcases List.mem_cons.mp h with rfl | h
      · exact hj
      · exact h₂ b h
  rw [C19_body o p (l₁ ++ j :: l₂) rest first hi (by simp) hb]
  rw [bodyItems_append, show j :: l₂ = [j] ++ l₂ from rfl, bodyItems_append]
  simp only [bodyItems, List.filterMap_cons, List.filterMap_nil, List.append_assoc]
  cases lineItem o p j <;> simp

/-- the same body without the junk line, for comparison: `items (l₁ ++ l₂) = items l₁ ++ items l₂` -/
theorem C19_local_base (o : ReadOpts) (p : Parser) (l₁ l₂ : List Str) :
    bodyItems o p (l₁ ++ l₂) = bodyItems o p l₁ ++ bodyItems o p l₂ := bodyItems_append o p l₁ l₂

/-- a junk line contributes at most one item -/
theorem C19_junk_at_most_one (o : ReadOpts) (p : Parser) (j : Str) : (lineItem o p j).toList.length ≤ 1 := by
  cases lineItem o p j <;> simp

/-- STEERING. An extra item whose upper-cased mnemonic is none of VERS, WRAP, DLM, NULL — wherever it is inserted in the
section and whatever else it contains — leaves the steering values computed from that section unchanged
(in every `mnemonic_case` mode, for every title). -/
theorem C19_steer (o : ReadOpts) (title : Str) (a b : List RItem) (x : RItem) (s : Steer)
    (hx : upper x.orig ∉ steerKeys) :
    steer o title (a ++ x :: b) s = steer o title (a ++ b) s := by
  apply steer_congr
  intro k hk
  exact lookupItem_insert _ k hk a b x (not_steering _ x hx k hk)

/-- the hypothesis is necessary: an extra `VERS` line in ~V changes the steering (here it hides the genuine one,
because two items named VERS become `VERS:1`, `VERS:2` and `"VERS" in section` turns false) -/
theorem C19_steer_needs_hyp :
    steer ⟨true, .upper⟩ "~V".toList ([⟨"VERS".toList, [], "1.2".toList, []⟩] ++ ⟨"VERS".toList, [], "3.0".toList, []⟩ :: []) Steer.init
      ≠ steer ⟨true, .upper⟩ "~V".toList ([⟨"VERS".toList, [], "1.2".toList, []⟩] ++ []) Steer.init := by
  decide

/-- WITHOUT THE FLAG the only possible failure of the loop is the `LASHeaderError` of an unparsable line, and its
line number is that of a line of the section that `read_header_line` cannot parse (1-based: `lineNo + i + 2`). -/
theorem C19_only_header_error (o : ReadOpts) (p : Parser) (last : Nat) (rest : List Str) (lineNo : Nat) (e : RErr)
    (h : itemsLoop o p last rest lineNo = .error e) :
    o.ignoreHeaderErrors = false ∧
      ∃ i l, rest[i]? = some l ∧ lineRes o p l = .bad ∧ e = .headerError (lineNo + i + 2) :=
  itemsLoop_error o p last rest lineNo e h

/-- … and on a section body it is exactly the FIRST unparsable line (nothing after it is looked at). -/
theorem C19_first_bad_line (o : ReadOpts) (p : Parser) (body rest : List Str) (first : Nat)
    (hi : o.ignoreHeaderErrors = false) (hne : body ≠ []) (hb : ∀ b ∈ body, isTitle b = false) :
    itemsLoop o p (first + body.length) (body ++ rest) first =
      match firstBad o p body with
      | none => .ok (bodyItems o p body)
      | some i => .error (.headerError (first + i + 2)) := by
  rw [itemsLoop_body o p body rest first _ (no_title o p body hb) hne rfl]
  exact bodyRun_strict o p body first hi

/-! ### non-vacuity: a concrete ~W body with a junk line -/

def exParser : Parser := ⟨.metadata, .well, valueDescr, []⟩

def errOf {α} : Except RErr α → Option RErr
  | .error e => some e
  | .ok _ => none

example : (itemsLoop ⟨true, .upper⟩ exParser 3
    ["STRT.M 1 : start\n".toList, "no period here\n".toList, "STOP.M 2 : stop\n".toList, "~C\n".toList] 0).toOption
    = some [⟨"STRT".toList, "M".toList, "1".toList, "start".toList⟩, ⟨"STOP".toList, "M".toList, "2".toList, "stop".toList⟩] := by
  decide +kernel

example : errOf (itemsLoop ⟨false, .upper⟩ exParser 3
    ["STRT.M 1 : start\n".toList, "no period here\n".toList, "STOP.M 2 : stop\n".toList, "~C\n".toList] 0)
    = some (.headerError 3) := by
  decide +kernel

example : lineItem ⟨true, .upper⟩ exParser "no period here\n".toList = none := by decide +kernel
example : lineItem ⟨true, .upper⟩ exParser "junk.x 5 : parsable junk\n".toList
    = some ⟨"JUNK".toList, "x".toList, "5".toList, "parsable junk".toList⟩ := by decide +kernel

end Lasio.Rd

#print axioms Lasio.Rd.C19_total
#print axioms Lasio.Rd.C19_total_section
#print axioms Lasio.Rd.C19_body
#print axioms Lasio.Rd.C19_local
#print axioms Lasio.Rd.C19_steer
#print axioms Lasio.Rd.C19_steer_needs_hyp
#print axioms Lasio.Rd.C19_only_header_error
#print axioms Lasio.Rd.C19_first_bad_line
