import LasioModel.Data
import LasioProofs.Lemmas.DataLemmas
/-
C06 — NULL handling on read.  Statements about `applyNull` (the step of `LASFile.read` that replaces the ~Well NULL
value by NaN), for an arbitrary float service: cells are canonical float texts, `feq` is IEEE `==` on them.

* `C06_iff_strict`     : under the strict policy a cell is NaN afterwards iff it was NaN before, or it lies in a float column
                         other than column 0 and is `==` the (numeric) header NULL;
* `C06_other_cells`    : a cell that is not turned into NaN is unchanged;
* `C06_none`           : with `null_policy="none"` nothing changes;
* `C06_index_kept`     : column 0 is never changed;
* `C06_text_untouched` : text columns are never changed;
* `C06_shape`          : number of columns, kind and length of every column are kept.
-/
namespace Lasio.Dt

/-! ### the property -/

/-- with `null_policy="none"` no sample is changed -/
theorem C06_none (null : Option Str) (cols : List Column) : applyNull false null cols = cols := by
  apply List.ext_getElem?
  intro j
  rw [applyNull_getElem?]
  cases cols[j]? <;> simp [applyNullCol_none]

/-- a NULL that is not a number (text, or absent) changes nothing -/
theorem C06_nonnumeric_null (u : Bool) (cols : List Column) : applyNull u none cols = cols := by
  apply List.ext_getElem?
  intro j
  rw [applyNull_getElem?]
  cases cols[j]? <;> simp [applyNullCol_nonnumeric]

/-- index samples equal to NULL are kept: column 0 is unchanged under every policy -/
theorem C06_index_kept (u : Bool) (null : Option Str) (cols : List Column) :
    (applyNull u null cols)[0]? = cols[0]? := by
  rw [applyNull_getElem?]
  cases cols[0]? <;> simp [applyNullCol_zero]

/-- text columns are untouched -/
theorem C06_text_untouched (u : Bool) (null : Option Str) (cols : List Column) (j : Nat) (cells : List Str)
    (h : cols[j]? = some (.text cells)) : (applyNull u null cols)[j]? = some (.text cells) := by
  rw [applyNull_getElem?, h]
  simp [applyNullCol_text]

/-- a column that is a text column afterwards was that text column before -/
theorem C06_text_untouched_conv (u : Bool) (null : Option Str) (cols : List Column) (j : Nat) (cells : List Str)
    (h : (applyNull u null cols)[j]? = some (.text cells)) : cols[j]? = some (.text cells) := by
  rw [applyNull_getElem?] at h
  cases hc : cols[j]? with
  | none => simp [hc] at h
  | some c =>
    cases c with
    | text t => simpa [hc, applyNullCol_text] using h
    | floats f =>
      simp only [hc, Option.map_some, applyNullCol] at h
      split at h <;> (try split at h) <;> simp_all

/-- number of columns is kept -/
theorem C06_length (u : Bool) (null : Option Str) (cols : List Column) : (applyNull u null cols).length = cols.length :=
  applyNull_length u null cols

/-- the length of every column is kept -/
theorem C06_shape (u : Bool) (null : Option Str) (cols : List Column) (j : Nat) :
    ((applyNull u null cols)[j]?).map Column.length = (cols[j]?).map Column.length := by
  rw [applyNull_getElem?]
  cases cols[j]? <;> simp [applyNullCol_length]

/-- Strict policy: a float cell is NaN after the read **iff** it was NaN in the data, or it lies in a float column
other than the index column and is numerically equal to the header NULL. -/
theorem C06_iff_strict (null : Option Str) (cols : List Column) (j i : Nat) :
    floatCell (applyNull true null cols) j i = some nanTxt ↔
      floatCell cols j i = some nanTxt ∨
      (j ≠ 0 ∧ ∃ nv v, null = some nv ∧ floatCell cols j i = some v ∧ feq v nv = true) := by
  unfold floatCell
  rw [applyNull_getElem?]
  cases hc : cols[j]? with
  | none => simp
  | some c =>
    cases c with
    | text t => simp [applyNullCol_text]
    | floats cells =>
      by_cases hj : j = 0
      · subst hj; simp [applyNullCol_zero]
      · cases null with
        | none => simp [applyNullCol_nonnumeric]
        | some nv =>
          simp only [Option.map_some, applyNullCol_floats nv j hj, nullCells_getElem?]
          cases hv : cells[i]? with
          | none => simp
          | some v =>
            by_cases hf : feq v nv = true
            · simp [hf, hj]
            · simp [hf]

/-- a cell that does not become NaN keeps its value (no other value is ever written) -/
theorem C06_other_cells (u : Bool) (null : Option Str) (cols : List Column) (j i : Nat) (v : Str)
    (h : floatCell (applyNull u null cols) j i = some v) (hv : v ≠ nanTxt) : floatCell cols j i = some v := by
  unfold floatCell at *
  rw [applyNull_getElem?] at h
  cases hc : cols[j]? with
  | none => simp [hc] at h
  | some c =>
    cases c with
    | text t => simp [hc, applyNullCol_text] at h
    | floats cells =>
      simp only [hc, Option.map_some] at h
      rcases applyNullCol_floats_cases u null j cells with h1 | ⟨nv, _, h1⟩
      · simpa [h1] using h
      · simp only [h1, nullCells_getElem?] at h
        cases hx : cells[i]? with
        | none => simp [hx] at h
        | some x =>
          simp only [hx, Option.map_some, Option.some.injEq] at h
          by_cases hf : feq x nv = true
          · simp [hf] at h; exact absurd h.symm hv
          · simp [hf] at h; subst h; exact hx

/-- the NaN positions of the data themselves survive (NaN is `==` nothing, so NaN is only ever added) -/
theorem C06_nan_kept (u : Bool) (null : Option Str) (cols : List Column) (j i : Nat)
    (h : floatCell cols j i = some nanTxt) : floatCell (applyNull u null cols) j i = some nanTxt := by
  unfold floatCell at *
  rw [applyNull_getElem?]
  cases hc : cols[j]? with
  | none => simp [hc] at h
  | some c =>
    cases c with
    | text t => simp [hc] at h
    | floats cells =>
      simp only [hc] at h
      simp only [Option.map_some]
      rcases applyNullCol_floats_cases u null j cells with h1 | ⟨nv, _, h1⟩
      · simpa [h1] using h
      · simp [h1, nullCells_getElem?, h, feq_nan]

/-! ### hypotheses are necessary, non-vacuity -/

def c06s (s : String) : Str := s.toList

/-- −999.25 as `float.hex()` -/
def nullHex : Str := c06s "-0x1.f3a0000000000p+9"

/-- the index column keeps a NULL-equal sample while the same value in column 1 becomes NaN (so `j ≠ 0` is necessary) -/
theorem C06_index_exception :
    applyNull true (some nullHex) [.floats [nullHex], .floats [nullHex, c06s "0x1.0000000000000p+0"], .text [c06s "-999.25"]]
      = [.floats [nullHex], .floats [nanTxt, c06s "0x1.0000000000000p+0"], .text [c06s "-999.25"]] := by decide

/-- `==` is numeric: a NULL of 0 also catches −0.0 -/
example : applyNull true (some zeroPos) [.floats [zeroPos], .floats [zeroNeg, zeroPos]] =
    [.floats [zeroPos], .floats [nanTxt, nanTxt]] := by decide

example : floatCell (applyNull true (some nullHex) [.floats [nullHex], .floats [nullHex]]) 1 0 = some nanTxt := by decide

end Lasio.Dt

#print axioms Lasio.Dt.C06_iff_strict
#print axioms Lasio.Dt.C06_other_cells
#print axioms Lasio.Dt.C06_none
#print axioms Lasio.Dt.C06_nonnumeric_null
#print axioms Lasio.Dt.C06_index_kept
#print axioms Lasio.Dt.C06_text_untouched
#print axioms Lasio.Dt.C06_text_untouched_conv
#print axioms Lasio.Dt.C06_shape
#print axioms Lasio.Dt.C06_length
#print axioms Lasio.Dt.C06_nan_kept
#print axioms Lasio.Dt.C06_index_exception
