import LasioModel.Data
import LasioProofs.Lemmas.DataLemmas
import LasioProofs.Lemmas.RoundTripData
/-
C06 — NULL handling on read.  Statements about `applyNull` (the step of `LASFile.read` that replaces the ~Well NULL
value by NaN), for an arbitrary float service: cells are canonical float texts, `feq` is IEEE `==` on them.

* `C06_iff_strict`     : under the strict policy a cell is NaN afterwards iff it was NaN before, or it lies in a float column
                         other than column 0 and is `==` the (numeric) header NULL;
* `C06_other_cells`    : a cell that is not turned into NaN is unchanged;
* `C06_none`           : with `null_policy="none"` nothing changes;
* `C06_index_kept`     : column 0 is never changed;
* `C06_text_untouched` : text columns are never changed;
* `C06_shape`          : number of columns, kind and length of every column are kept.
-/
namespace Lasio.Dt

/-! ### the property -/

/-- with `null_policy="none"` no sample is changed -/
theorem C06_none (null : Option Str) (cols : List Column) : applyNull false null cols = cols := by
  apply List.ext_getElem?
  intro j
  rw [applyNull_getElem?]
  cases cols[j]? <;> simp [applyNullCol_none]

/-- a NULL that is not a number (text, or absent) changes nothing -/
theorem C06_nonnumeric_null (u : Bool) (cols : List Column) : applyNull u none cols = cols := by
  apply List.ext_getElem?
  intro j
  rw [applyNull_getElem?]
  cases cols[j]? <;> simp [applyNullCol_nonnumeric]

/-- index samples equal to NULL are kept: column 0 is unchanged under every policy -/
theorem C06_index_kept (u : Bool) (null : Option Str) (cols : List Column) :
    (applyNull u null cols)[0]? = cols[0]? := by
  rw [applyNull_getElem?]
  cases cols[0]? <;> simp [applyNullCol_zero]

/-- text columns are untouched -/
theorem C06_text_untouched (u : Bool) (null : Option Str) (cols : List Column) (j : Nat) (cells : List Str)
    (h : cols[j]? = some (.text cells)) : (applyNull u null cols)[j]? = some (.text cells) := by
  rw [applyNull_getElem?, h]
  simp [applyNullCol_text]

/-- a column that is a text column afterwards was that text column before -/
theorem C06_text_untouched_conv (u : Bool) (null : Option Str) (cols : List Column) (j : Nat) (cells : List Str)
    (h : (applyNull u null cols)[j]? = some (.text cells)) : cols[j]? = some (.text cells) := by
  rw [applyNull_getElem?] at h
  cases hc : cols[j]? with
  | none => simp [hc] at h
  | some c =>
    cases c with
    | text t => simpa [hc, applyNullCol_text] using h
    | floats f =>
      simp only [hc, Option.map_some, applyNullCol] at h
      split at h <;> (try split at h) <;> simp_all

/-- number of columns is kept -/
theorem C06_length (u : Bool) (null : Option Str) (cols : List Column) : (applyNull u null cols).length = cols.length :=
  applyNull_length u null cols

/-- the length of every column is kept -/
theorem C06_shape (u : Bool) (null : Option Str) (cols : List Column) (j : Nat) :
    ((applyNull u null cols)[j]?).map Column.length = (cols[j]?).map Column.length := by
  rw [applyNull_getElem?]
  cases cols[j]? <;> simp [applyNullCol_length]

/-- Strict policy: a float cell is NaN after the read **iff** it was NaN in the data, or it lies in a float column
other than the index column and is numerically equal to the header NULL. -/
theorem C06_iff_strict (null : Option Str) (cols : List Column) (j i : Nat) :
    floatCell (applyNull true null cols) j i = some nanTxt ↔
      floatCell cols j i = some nanTxt ∨
      (j ≠ 0 ∧ ∃ nv v, null = some nv ∧ floatCell cols j i = some v ∧ feq v nv = true) := by
  unfold floatCell
  rw [applyNull_getElem?]
  cases hc : cols[j]? with
  | none => simp
  | some c =>
    cases c with
    | text t => simp [applyNullCol_text]
    | floats cells =>
      by_cases hj : j = 0
      · subst hj; simp [applyNullCol_zero]
      · cases null with
        | none => simp [applyNullCol_nonnumeric]
        | some nv =>
          simp only [Option.map_some, applyNullCol_floats nv j hj, nullCells_getElem?]
          cases hv : cells[i]? with
          | none => simp
          | some v =>
            by_cases hf : feq v nv = true
            · simp [hf, hj]
            · simp [hf]

/-- a cell that does not become NaN keeps its value (no other value is ever written) -/
theorem C06_other_cells (u : Bool) (null : Option Str) (cols : List Column) (j i : Nat) (v : Str)
    (h : floatCell (applyNull u null cols) j i = some v) (hv : v ≠ nanTxt) : floatCell cols j i = some v := by
  unfold floatCell at *
  rw [applyNull_getElem?] at h
  cases hc : cols[j]? with
  | none => simp [hc] at h
  | some c =>
    cases c with
    | text t => simp [hc, applyNullCol_text] at h
    | floats cells =>
      simp only [hc, Option.map_some] at h
      rcases applyNullCol_floats_cases u null j cells with h1 | ⟨nv, _, h1⟩
      · simpa [h1] using h
      · simp only [h1, nullCells_getElem?] at h
        cases hx : cells[i]? with
        | none => simp [hx] at h
        | some x =>
          simp only [hx, Option.map_some, Option.some.injEq] at h
          by_cases hf : feq x nv = true
          · simp [hf] at h; exact absurd h.symm hv
          · simp [hf] at h; subst h; exact hx

/-- the NaN positions of the data themselves survive (NaN is `==` nothing, so NaN is only ever added) -/
theorem C06_nan_kept (u : Bool) (null : Option Str) (cols : List Column) (j i : Nat)
    (h : floatCell cols j i = some nanTxt) : floatCell (applyNull u null cols) j i = some nanTxt := by
  unfold floatCell at *
  rw [applyNull_getElem?]
  cases hc : cols[j]? with
  | none => simp [hc] at h
  | some c =>
    cases c with
    | text t => simp [hc] at h
    | floats cells =>
      simp only [hc] at h
      simp only [Option.map_some]
      rcases applyNullCol_floats_cases u null j cells with h1 | ⟨nv, _, h1⟩
      · simpa [h1] using h
      · simp [h1, nullCells_getElem?, h, feq_nan]

/-! ### hypotheses are necessary, non-vacuity -/

def c06s (s : String) : Str := s.toList

/-- −999.25 as `float.hex()` -/
def nullHex : Str := c06s "-0x1.f3a0000000000p+9"

/-- the index column keeps a NULL-equal sample while the same value in column 1 becomes NaN (so `j ≠ 0` is necessary) -/
theorem C06_index_exception :
    applyNull true (some nullHex) [.floats [nullHex], .floats [nullHex, c06s "0x1.0000000000000p+0"], .text [c06s "-999.25"]]
      = [.floats [nullHex], .floats [nanTxt, c06s "0x1.0000000000000p+0"], .text [c06s "-999.25"]] := by decide

/-- `==` is numeric: a NULL of 0 also catches −0.0 -/
example : applyNull true (some zeroPos) [.floats [zeroPos], .floats [zeroNeg, zeroPos]] =
    [.floats [zeroPos], .floats [nanTxt, nanTxt]] := by decide

example : floatCell (applyNull true (some nullHex) [.floats [nullHex], .floats [nullHex]]) 1 0 = some nanTxt := by decide

/-! ### the NaN mask through a write -> read cycle (writer model `Dw`, bridge lemmas `Rt` in Lemmas/RoundTripData.lean)

`Rt.tokenRows c null rows` is the matrix of written tokens; by `C01_roundtrip_normal` / `C01_roundtrip_numpy`
(Props/C01.lean) the engines return `matrixColumns ft n (Rt.tokenRows c null rows)` from the written body.
`Rt.TableOK ft null nv c rows`: the NULL text converts to the header NULL value `nv`, `nv == nv`, every written token
converts, and the `%.Nf` rendering of a value that is not NaN is not read as NaN.
`Rt.NoNullClash ft nv c rows`: no cell outside column 0 that is not NaN is printed to a token whose float is `==` `nv`. -/

/-- **The NaN mask survives write -> read** (strict policy, numeric header NULL `nv`): for every cell (i, j) = `x` of the
r × n matrix, outside column 0 the cell read back is NaN **iff** `x` was NaN, and a cell that was not NaN reads back as the
float of its printed token `'%.Nf' % x`; in column 0 every cell reads back as the float of its token (a NaN index sample
comes back as the NULL value, not as NaN). -/
theorem C06_roundtrip_mask (ft : FloatTable) (null nv : Str) (c : Dw.RowCfg) (rows : List (List Dw.F64)) (n : Nat)
    (hrect : ∀ r ∈ rows, r.length = n) (htab : Rt.TableOK ft null nv c rows) (hclash : Rt.NoNullClash ft nv c rows)
    (i j : Nat) (row : List Dw.F64) (x : Dw.F64) (hi : rows[i]? = some row) (hx : row[j]? = some x) :
    (j ≠ 0 → (floatCell (applyNull true (some nv) (matrixColumns ft n (Rt.tokenRows c null rows))) j i = some nanTxt
        ↔ x.isNaN = true)) ∧
    (j ≠ 0 → x.isNaN = false →
      floatCell (applyNull true (some nv) (matrixColumns ft n (Rt.tokenRows c null rows))) j i =
        toFloat ft (Dw.fmtFixed (c.colFmt j).prec x)) ∧
    (j = 0 → floatCell (applyNull true (some nv) (matrixColumns ft n (Rt.tokenRows c null rows))) j i =
        toFloat ft (Dw.cellToken null (c.colFmt 0) x)) :=
  Rt.roundtrip_mask ft null nv c rows n hrect htab hclash i j row x hi hx

/-- before NULL handling, cell (i, j) of what the engines return is the float of the written token of cell (i, j) -/
theorem C06_roundtrip_cell (ft : FloatTable) (null : Str) (c : Dw.RowCfg) (rows : List (List Dw.F64)) (n : Nat)
    (hrect : ∀ r ∈ rows, r.length = n) (hnum : Numeric ft (Rt.tokenRows c null rows))
    (i j : Nat) (row : List Dw.F64) (x : Dw.F64) (hi : rows[i]? = some row) (hx : row[j]? = some x) :
    floatCell (matrixColumns ft n (Rt.tokenRows c null rows)) j i = toFloat ft (Dw.cellToken null (c.colFmt j) x) :=
  Rt.floatCell_written ft null c rows n hrect hnum i j row x hi hx

/-- COUNTER-EXAMPLE (`NoNullClash` is needed): NULL −9999.25, the sample −9999.2501 (binary64 `Rt.cxSample`) in column 1
written with `%.2f` prints as `-9999.25`, the NULL text; read back it is NaN although the sample was not.  All other
hypotheses of `C06_roundtrip_mask` hold. -/
theorem C06_roundtrip_mask_needs_noNullClash :
    Rt.TableOK Rt.cxFt Rt.cxNull Rt.cxNv Rt.cxCfg Rt.cxRows ∧ Rt.cxSample.isNaN = false ∧
    Dw.fmtFixed 2 Rt.cxSample = Rt.cxNull ∧
    floatCell (applyNull true (some Rt.cxNv) (matrixColumns Rt.cxFt 2 (Rt.tokenRows Rt.cxCfg Rt.cxNull Rt.cxRows))) 1 0
      = some nanTxt ∧
    ¬ Rt.NoNullClash Rt.cxFt Rt.cxNv Rt.cxCfg Rt.cxRows :=
  Rt.mask_needs_noNullClash

/-- non-vacuity: the section with the sample −124990.75 in place of −9999.2501, and a NaN cell below it, satisfies every
hypothesis of `C06_roundtrip_mask`, `NoNullClash` included; the sample reads back as itself, the NaN cell as NaN -/
theorem C06_roundtrip_mask_example :
    Rt.TableOK Rt.exFt Rt.cxNull Rt.cxNv Rt.cxCfg Rt.exRows ∧ Rt.NoNullClash Rt.exFt Rt.cxNv Rt.cxCfg Rt.exRows ∧
    Rt.tokenRows Rt.cxCfg Rt.cxNull Rt.exRows =
      [["1.00".toList, "-124990.75".toList], ["2.00".toList, "-9999.25".toList]] ∧
    floatCell (applyNull true (some Rt.cxNv) (matrixColumns Rt.exFt 2 (Rt.tokenRows Rt.cxCfg Rt.cxNull Rt.exRows))) 1 0
      = some "-0x1.e83ec00000000p+16".toList ∧
    floatCell (applyNull true (some Rt.cxNv) (matrixColumns Rt.exFt 2 (Rt.tokenRows Rt.cxCfg Rt.cxNull Rt.exRows))) 1 1
      = some nanTxt := by
  refine ⟨Rt.ex_table, Rt.ex_noClash, Rt.ex_tokens, ?_, ?_⟩
  · exact ((C06_roundtrip_mask _ _ _ _ _ 2 (by decide) Rt.ex_table Rt.ex_noClash 0 1 _ _ rfl rfl).2.1 (by decide) rfl).trans
      (by decide)
  · exact ((C06_roundtrip_mask _ _ _ _ _ 2 (by decide) Rt.ex_table Rt.ex_noClash 1 1 _ _ rfl rfl).1 (by decide)).mpr rfl

end Lasio.Dt

#print axioms Lasio.Dt.C06_iff_strict
#print axioms Lasio.Dt.C06_other_cells
#print axioms Lasio.Dt.C06_none
#print axioms Lasio.Dt.C06_nonnumeric_null
#print axioms Lasio.Dt.C06_index_kept
#print axioms Lasio.Dt.C06_text_untouched
#print axioms Lasio.Dt.C06_text_untouched_conv
#print axioms Lasio.Dt.C06_shape
#print axioms Lasio.Dt.C06_length
#print axioms Lasio.Dt.C06_nan_kept
#print axioms Lasio.Dt.C06_index_exception
#print axioms Lasio.Dt.C06_roundtrip_mask
#print axioms Lasio.Dt.C06_roundtrip_cell
#print axioms Lasio.Dt.C06_roundtrip_mask_needs_noNullClash
#print axioms Lasio.Dt.C06_roundtrip_mask_example
