import LasioProofs.Lemmas.SectionFile
/-
C13 (file level) — duplicates and blanks survive a write -> read round trip and receive the same session names again.

1. READER = SECTIONITEMS.  `C13_read_is_sectionItems`: for every list of read items and both settings of `mnemonic_transforms`
   the reader model's session names `Rd.sessionNames` are the keys of the `Section` model after appending the items, in
   file order, to an empty section.  So the theorems of Props/C13.lean hold for sections obtained by reading:
   `C13_read_inv` (suffix invariant), `C13_read_names` (position by position: `:k`, k = 1 + number of earlier members of the
   group, exactly when the group has more than one member; blank -> UNKNOWN; unique names untouched), `C13_read_distinct`
   (pairwise distinct under `NoSuffixClash`, which is a condition on the ORIGINAL mnemonics only), `C13_read_resolve` (each session
   name resolves to exactly its own item, in the `Section` model and through the reader's own `Rd.lookupItem`).

2. ROUND TRIP.  `C13_file_roundtrip`: for an object satisfying `Cy.FileConfB` (the hypotheses of `C03_file`, with EMPTY original
   mnemonics allowed on lines that carry no further period before the delimiter colon: `Wr.BlankConf`) the header `write` emits reads back, in each of the
   four item sections, with (a) the same ORIGINAL mnemonics in the same order under the case map of the read option and (b) the
   session names of the section built by appends from those originals; they are pairwise distinct and each resolves to its own
   item (no `NoSuffixClash` hypothesis: a conformant mnemonic has no colon).  `C13_file_same_names`: when the object's section
   was itself built by appends from its originals (`BuiltByAppends`; true of every section `read` built, `builtByAppends_read`)
   the re-read session names ARE the object's.  `C13_file_roundtrip_preserve`: `mnemonic_case="preserve"`, originals literally equal.

NOTE on `TextConf`: blank mnemonics are NOT inside `TextConf` (`TextConf.mnem_ne` excludes the empty mnemonic, and `mnem_strip`
every other blank one), so `C03_file` says nothing about them.  The blank case is proved here from scratch
(Lemmas/SectionFile.lean, parts B and C: `C04_blank_all`, `readLine_formatItem_blank`, `section_read_back`, `file_read_back`);
the condition "no further period on the line" is `BlankConf.unit_nodot` and `BlankConf.rhs_nodot` (unit, and the field written
BEFORE the delimiter colon: the value in 2.0, the description in a 1.2 ~Well line); a period after the colon is harmless
(`C13_blank_period_after_colon`), one before it is not (`C13_counterexample_blank_period`).
-/
namespace Lasio.C13File
open Lasio Lasio.Wr Lasio.Cy Lasio.C11 Lasio.SF

/-! ## 1. reader = SectionItems -/

/-- **Reader = SectionItems**: the session names the reader model computes are those `SectionItems.append` hands out, item
after item (`SF.toItem r = HeaderItem(r.orig, r.unit, r.value, r.descr)`), and the originals are untouched. -/
theorem C13_read_is_sectionItems (tr : Bool) (l : List Rd.RItem) :
    Rd.sessionNames tr l = ((l.map toItem).foldl Section.append ⟨[], tr⟩).keys ∧
    ((l.map toItem).foldl Section.append ⟨[], tr⟩).origs = l.map (·.orig) ∧
    ((l.map toItem).foldl Section.append ⟨[], tr⟩).tr = tr :=
  ⟨sessionNames_eq_rebuild tr l, sectionOfRead_origs tr l, sectionOfRead_tr tr l⟩

/-- the same through `Section.run` (the edit-sequence form of Props/C13.lean): reading a section is a run of appends -/
theorem C13_read_is_run (tr : Bool) (l : List Rd.RItem) :
    sectionOfRead tr l = Section.run ⟨[], tr⟩ (l.map fun r => Op.append r.orig r.unit r.value r.descr) := by
  unfold sectionOfRead rebuild Section.run
  rw [List.foldl_map, List.foldl_map]
  rfl

/-- the suffix invariant of C13 holds for every section obtained by reading -/
theorem C13_read_inv (tr : Bool) (l : List Rd.RItem) : Inv (sectionOfRead tr l) :=
  C11_suffix_inv tr _ (by
    intro it hit
    obtain ⟨r, _, rfl⟩ := List.mem_map.mp hit
    exact suffixForm_mkItem _ _ _ _)

/-- **numbering, position by position**: the item at position `i` with original mnemonic `r.orig` gets
`useful ++ ":" ++ k`, `k` = 1 + the number of EARLIER items of its group, exactly when its group (the items whose useful
mnemonic compares equal, `upper`-insensitively when `tr`) has more than one member; otherwise its useful mnemonic, untouched
(`UNKNOWN` for a blank one). -/
theorem C13_read_names (tr : Bool) (l : List Rd.RItem) (i : Nat) (r : Rd.RItem) (h : l[i]? = some r) :
    (Rd.sessionNames tr l)[i]? = some
      (if cnt tr (useful r.orig) (l.map fun x => useful x.orig) > 1 then
        useful r.orig ++ ':' :: natToStr (cnt tr (useful r.orig) ((l.take i).map fun x => useful x.orig) + 1)
      else useful r.orig) := by
  have e : (fun x : Rd.RItem => Rd.usefulMn x.orig) = fun x => useful x.orig := by
    funext x; exact (useful_eq _).symm
  simp only [Rd.sessionNames, sessionGo_getElem?, List.getElem?_map, h, Option.map_some, List.nil_append, e,
    List.map_take]

theorem C13_read_blank_unknown (tr : Bool) (l : List Rd.RItem) (i : Nat) (r : Rd.RItem) (h : l[i]? = some r)
    (hb : strip r.orig = []) :
    ∃ name, (Rd.sessionNames tr l)[i]? = some name ∧
      (name = "UNKNOWN".toList ∨ ∃ k, 1 ≤ k ∧ name = "UNKNOWN".toList ++ ':' :: natToStr k) := by
  have hu : useful r.orig = "UNKNOWN".toList := by simp [useful, hb]
  rw [C13_read_names tr l i r h, hu]
  split
  · exact ⟨_, rfl, Or.inr ⟨_, by omega, rfl⟩⟩
  · exact ⟨_, rfl, Or.inl rfl⟩

/-- `NoSuffixClash` of a section obtained by reading is a condition on the original mnemonics that were read -/
theorem C13_read_noSuffixClash_iff (tr : Bool) (l : List Rd.RItem) :
    NoSuffixClash (sectionOfRead tr l) ↔
      ∀ a ∈ l, ∀ b ∈ l, ∀ k, ckey tr (useful a.orig) ≠ ckey tr (useful b.orig) ++ ':' :: natToStr k := by
  have h1 : ∀ s : Section, NoSuffixClash s ↔
      ∀ oa ∈ s.origs, ∀ ob ∈ s.origs, ∀ k, ckey s.tr (useful oa) ≠ ckey s.tr (useful ob) ++ ':' :: natToStr k := by
    intro s
    simp only [NoSuffixClash, Section.origs, List.forall_mem_map]
  rw [h1, sectionOfRead_origs, sectionOfRead_tr]
  simp only [List.forall_mem_map]

/-- **pairwise distinct** session names for every section obtained by reading whose original mnemonics do not clash -/
theorem C13_read_distinct (tr : Bool) (l : List Rd.RItem)
    (hc : ∀ a ∈ l, ∀ b ∈ l, ∀ k, ckey tr (useful a.orig) ≠ ckey tr (useful b.orig) ++ ':' :: natToStr k) :
    Distinct (sectionOfRead tr l) ∧ (Rd.sessionNames tr l).Pairwise (fun a b => Rd.mcmp tr a b = false) := by
  have hd : Distinct (sectionOfRead tr l) :=
    C13_distinct _ (C13_read_inv tr l) ((C13_read_noSuffixClash_iff tr l).mpr hc)
  refine ⟨hd, ?_⟩
  rw [← sectionOfRead_keys, Section.keys, List.pairwise_map]
  have := hd
  unfold Distinct at this
  rw [sectionOfRead_tr] at this
  exact this

/-- a colon-free useful mnemonic cannot clash -/
theorem noClash_of_no_colon (tr : Bool) (l : List Rd.RItem) (h : ∀ a ∈ l, ':' ∉ ckey tr (useful a.orig)) :
    ∀ a ∈ l, ∀ b ∈ l, ∀ k, ckey tr (useful a.orig) ≠ ckey tr (useful b.orig) ++ ':' :: natToStr k := by
  intro a ha b _ k heq
  apply h a ha
  rw [heq]
  simp

theorem find_zip_first {β} (q : Str → Bool) : ∀ (ks : List Str) (l : List β) (i : Nat) (k : Str) (r : β),
    ks[i]? = some k → l[i]? = some r → q k = true → (∀ j k', j < i → ks[j]? = some k' → q k' = false) →
    ((ks.zip l).find? (fun p => q p.1)).map (·.2) = some r := by
  intro ks
  induction ks with
  | nil => intro l i k r h; simp at h
  | cons k0 ks ih =>
    intro l i k r hk hr hq hbefore
    cases l with
    | nil => simp at hr
    | cons r0 l =>
      cases i with
      | zero =>
        simp only [List.getElem?_cons_zero, Option.some.injEq] at hk hr
        subst hk hr
        simp [hq]
      | succ i =>
        simp only [List.getElem?_cons_succ] at hk hr
        have h0 : q k0 = false := hbefore 0 k0 (by omega) (by simp)
        simp only [List.zip_cons_cons, List.find?_cons, h0]
        exact ih l i k r hk hr hq (fun j k' hj hk' => hbefore (j + 1) k' (by omega) (by simpa using hk'))

/-- **resolution**: in a section obtained by reading whose session names are pairwise distinct, the session name at position `i`
resolves to position `i` — by `section[name]` / `name in section` of the `Section` model, and by the reader model's own lookup
`Rd.lookupItem` (the steering code's `section.NAME`), which returns exactly the item read at position `i`. -/
theorem C13_read_resolve (tr : Bool) (l : List Rd.RItem) (hd : Distinct (sectionOfRead tr l))
    (i : Nat) (r : Rd.RItem) (name : Str) (hi : l[i]? = some r) (hn : (Rd.sessionNames tr l)[i]? = some name) :
    (sectionOfRead tr l).getitem (.str name) = .ok i ∧ (sectionOfRead tr l).contains (.str name) = true ∧
    Rd.lookupItem tr l name = some r := by
  have hkeys := sectionOfRead_keys tr l
  -- the item of the Section model at position i
  have hlen : i < (sectionOfRead tr l).items.length := by
    have h1 : i < (Rd.sessionNames tr l).length := (List.getElem?_eq_some_iff.mp hn).1
    rw [← hkeys, Section.keys, List.length_map] at h1
    exact h1
  have hit : (sectionOfRead tr l).items[i]? = some (sectionOfRead tr l).items[i] := List.getElem?_eq_getElem hlen
  have hsess : (sectionOfRead tr l).items[i].session = name := by
    have : (sectionOfRead tr l).keys[i]? = some name := by rw [hkeys]; exact hn
    simpa [Section.keys, List.getElem?_map, hit] using this
  obtain ⟨h1, h2⟩ := C13_resolve _ hd i _ hit
  rw [hsess] at h1 h2
  refine ⟨h1, h2, ?_⟩
  -- the reader's lookup
  have hpw : (Rd.sessionNames tr l).Pairwise (fun a b => Rd.mcmp tr a b = false) := by
    rw [← hkeys, Section.keys, List.pairwise_map]
    have := hd
    unfold Distinct at this
    rw [sectionOfRead_tr] at this
    exact this
  unfold Rd.lookupItem
  apply find_zip_first (fun k => Rd.mcmp tr k name) _ _ i name r hn hi (mcmp_refl tr name)
  intro j k' hj hk'
  obtain ⟨hjl, hjk⟩ := List.getElem?_eq_some_iff.mp hk'
  obtain ⟨hil, hik⟩ := List.getElem?_eq_some_iff.mp hn
  have := List.pairwise_iff_getElem.mp hpw j i hjl hil hj
  rw [hjk, hik] at this
  exact this


/-! ## 2. the round trip -/

/-- **C13 at file level.**  `las` is an object whose written header satisfies `FileConfB` (the hypotheses of `C03_file`, blank
mnemonics allowed on lines without a further period before the colon, + no DLM item in ~Version, which `readLines` needs); `lines` is the header
`write` emits for it (any header width).  Then the whole-file reader reads it (`hd`), and in each of the four item sections
(`kind`; `W` = the items `write` formatted, `R` = the items the reader stored, `las2` = the LASFile `read` builds from them, `rv` any
re-typing of the value texts):
 (a) the ORIGINAL mnemonics come back in the same order, under the case map of the read option, duplicates and blanks included —
     in the stored items and in the `SectionItems` object built from them;
 (b) the session names are `namesOf tr (those originals)`: the names a section gets when it is built by appends from them — in the
     reader model (`Rd.sessionNames`), in the `Section` model (`sectionOfRead`), and on the items of `las2`;
 (c) they are pairwise distinct, and each one resolves to exactly its own item (`Section.getitem`, `Section.contains`,
     `Rd.lookupItem`). -/
theorem C13_file_roundtrip (o : Rd.ReadOpts) (rv : Str → WVal) (version : String) (wrap : Option Bool) (w : Nat)
    (las las' : WLas) (lines : List Str) (h : headerLines version wrap w las = .ok (lines, las'))
    (hc : FileConfB o version wrap las) :
    ∃ hd, Rd.readLines o lines = .ok hd ∧ hd.sections = firstRead o version wrap las ∧
      ∀ kind, kind ≠ .other →
        -- (a)
        (rereadItems o version wrap las kind).map (·.orig) =
          (writtenOf version wrap las kind).map (fun it => caseMap (RH.cvtCase o.mnemonicCase) it.orig) ∧
        (sectionOfRead (o.mnemonicCase != .preserve) (rereadItems o version wrap las kind)).origs =
          (writtenOf version wrap las kind).map (fun it => caseMap (RH.cvtCase o.mnemonicCase) it.orig) ∧
        (itemsOf (lasOfRead rv o hd.sections) kind).map (·.orig) =
          (writtenOf version wrap las kind).map (fun it => caseMap (RH.cvtCase o.mnemonicCase) it.orig) ∧
        -- (b)
        Rd.sessionNames (o.mnemonicCase != .preserve) (rereadItems o version wrap las kind) =
          namesOf (o.mnemonicCase != .preserve)
            ((writtenOf version wrap las kind).map (fun it => caseMap (RH.cvtCase o.mnemonicCase) it.orig)) ∧
        (sectionOfRead (o.mnemonicCase != .preserve) (rereadItems o version wrap las kind)).keys =
          namesOf (o.mnemonicCase != .preserve)
            ((writtenOf version wrap las kind).map (fun it => caseMap (RH.cvtCase o.mnemonicCase) it.orig)) ∧
        (itemsOf (lasOfRead rv o hd.sections) kind).map (·.session) =
          namesOf (o.mnemonicCase != .preserve)
            ((writtenOf version wrap las kind).map (fun it => caseMap (RH.cvtCase o.mnemonicCase) it.orig)) ∧
        -- (c)
        Distinct (sectionOfRead (o.mnemonicCase != .preserve) (rereadItems o version wrap las kind)) ∧
        (Rd.sessionNames (o.mnemonicCase != .preserve) (rereadItems o version wrap las kind)).Pairwise
          (fun a b => Rd.mcmp (o.mnemonicCase != .preserve) a b = false) ∧
        ∀ i r name, (rereadItems o version wrap las kind)[i]? = some r →
          (Rd.sessionNames (o.mnemonicCase != .preserve) (rereadItems o version wrap las kind))[i]? = some name →
          (sectionOfRead (o.mnemonicCase != .preserve) (rereadItems o version wrap las kind)).getitem (.str name) = .ok i ∧
          (sectionOfRead (o.mnemonicCase != .preserve) (rereadItems o version wrap las kind)).contains (.str name) = true ∧
          Rd.lookupItem (o.mnemonicCase != .preserve) (rereadItems o version wrap las kind) name = some r := by
  obtain ⟨steer, hr, _⟩ := read_written_B o version wrap w las las' lines h hc
  refine ⟨_, hr, rfl, ?_⟩
  intro kind hk
  have hR := rereadItems_eq o version wrap las kind hk
  have horig : (rereadItems o version wrap las kind).map (·.orig) =
      (writtenOf version wrap las kind).map (fun it => caseMap (RH.cvtCase o.mnemonicCase) it.orig) := by
    rw [hR, List.map_map]; rfl
  have hnames := sessionNames_eq_namesOf (o.mnemonicCase != .preserve) (rereadItems o version wrap las kind)
  rw [horig] at hnames
  have hclash := noClash_of_no_colon (o.mnemonicCase != .preserve) (rereadItems o version wrap las kind) (by
    intro a ha
    rw [hR] at ha
    obtain ⟨it, hit, rfl⟩ := List.mem_map.mp ha
    exact useful_nocolon _ (RH.cvtCase o.mnemonicCase) version kind it (fileConfB_items hc kind it hit))
  obtain ⟨hd1, hd2⟩ := C13_read_distinct _ _ hclash
  refine ⟨horig, ?_, ?_, hnames, ?_, ?_, hd1, hd2, ?_⟩
  · rw [sectionOfRead_origs, horig]
  · simp only []
    rw [itemsOf_lasOfRead rv o version wrap las kind hk, itemsOfRead_origs, horig]
  · rw [sectionOfRead_keys, hnames]
  · simp only []
    rw [itemsOf_lasOfRead rv o version wrap las kind hk, itemsOfRead_sessions, hnames]
  · intro i r name hi hn
    exact C13_read_resolve _ _ hd1 i r name hi hn

/-- **"… and receive the same session names again".**  When the case map of the read option leaves the written originals alone
(`mnemonic_case="preserve"`, or an object that was itself read with the same `mnemonic_case`: `caseMap_idem`) and the written
section was built by appends from its originals under the same `mnemonic_transforms` (`BuiltByAppends`: true of every section
`read` built, `builtByAppends_read`), the re-read original mnemonics and session names are literally the written section's. -/
theorem C13_file_same_names (o : Rd.ReadOpts) (version : String) (wrap : Option Bool)
    (las : WLas) (kind : SecName) (hk : kind ≠ .other)
    (hfix : ∀ it ∈ writtenOf version wrap las kind, caseMap (RH.cvtCase o.mnemonicCase) it.orig = it.orig)
    (hb : BuiltByAppends (o.mnemonicCase != .preserve) (writtenOf version wrap las kind)) :
    (rereadItems o version wrap las kind).map (·.orig) = (writtenOf version wrap las kind).map (·.orig) ∧
    Rd.sessionNames (o.mnemonicCase != .preserve) (rereadItems o version wrap las kind) =
      (writtenOf version wrap las kind).map (·.session) := by
  have horig : (rereadItems o version wrap las kind).map (·.orig) = (writtenOf version wrap las kind).map (·.orig) := by
    rw [rereadItems_eq o version wrap las kind hk, List.map_map]
    apply List.map_congr_left
    intro it hit
    exact hfix it hit
  refine ⟨horig, ?_⟩
  rw [sessionNames_eq_namesOf, horig]
  exact hb.symm

/-- the same for ~Well, ~Curves, ~Parameter in terms of the object's OWN items (what `write` formats there differs from them
in the standardised values only) -/
theorem C13_file_same_names_object (o : Rd.ReadOpts) (version : String) (wrap : Option Bool)
    (las : WLas) (kind : SecName) (hk : kind ≠ .other) (hkv : kind ≠ .version)
    (hfix : ∀ it ∈ itemsOf las kind, caseMap (RH.cvtCase o.mnemonicCase) it.orig = it.orig)
    (hb : BuiltByAppends (o.mnemonicCase != .preserve) (itemsOf las kind)) :
    (rereadItems o version wrap las kind).map (·.orig) = (itemsOf las kind).map (·.orig) ∧
    Rd.sessionNames (o.mnemonicCase != .preserve) (rereadItems o version wrap las kind) =
      (itemsOf las kind).map (·.session) := by
  obtain ⟨e1, e2⟩ := writtenOf_names version wrap las kind hkv
  have hfix' : ∀ o' ∈ (writtenOf version wrap las kind).map (·.orig), caseMap (RH.cvtCase o.mnemonicCase) o' = o' := by
    rw [e1]
    intro o' ho'
    obtain ⟨it, hit, rfl⟩ := List.mem_map.mp ho'
    exact hfix it hit
  have := C13_file_same_names o version wrap las kind hk
    (fun it hit => hfix' it.orig (List.mem_map.mpr ⟨it, hit, rfl⟩))
    (by unfold BuiltByAppends at hb ⊢; rw [e1, e2]; exact hb)
  rw [e1, e2] at this
  exact this

/-- **`mnemonic_case="preserve"`**: the original mnemonics come back literally equal, the session names are the names of a
section built by appends from them, and — for a section that was built that way (without `mnemonic_transforms`) — the
section's own session names. -/
theorem C13_file_roundtrip_preserve (o : Rd.ReadOpts) (hp : o.mnemonicCase = .preserve) (version : String)
    (wrap : Option Bool) (w : Nat) (las las' : WLas) (lines : List Str)
    (h : headerLines version wrap w las = .ok (lines, las')) (hc : FileConfB o version wrap las) :
    ∃ hd, Rd.readLines o lines = .ok hd ∧ hd.sections = firstRead o version wrap las ∧
      ∀ kind, kind ≠ .other →
        (rereadItems o version wrap las kind).map (·.orig) = (writtenOf version wrap las kind).map (·.orig) ∧
        Rd.sessionNames false (rereadItems o version wrap las kind) =
          namesOf false ((writtenOf version wrap las kind).map (·.orig)) ∧
        (BuiltByAppends false (writtenOf version wrap las kind) →
          Rd.sessionNames false (rereadItems o version wrap las kind) = (writtenOf version wrap las kind).map (·.session)) := by
  obtain ⟨hd, hr, hs, hall⟩ := C13_file_roundtrip o WVal.str version wrap w las las' lines h hc
  refine ⟨hd, hr, hs, ?_⟩
  intro kind hk
  obtain ⟨ha, _, _, hb, _⟩ := hall kind hk
  have htr : (o.mnemonicCase != Rd.MCase.preserve) = false := by rw [hp]; rfl
  have hcm : ∀ x : Str, caseMap (RH.cvtCase o.mnemonicCase) x = x := by
    intro x; rw [hp]; rfl
  simp only [htr, hcm] at ha hb
  refine ⟨ha, hb, ?_⟩
  intro hbuilt
  rw [hb]
  exact hbuilt.symm


/-- every section of a LASFile that `read` built satisfies the two hypotheses of `C13_file_same_names_object` for a re-read with
the same `mnemonic_case`: it is built by appends from its originals, and — the reader having applied the case map to every
mnemonic it parsed — the case map leaves its originals alone -/
theorem C13_read_object_hyps (rv : Str → WVal) (o : Rd.ReadOpts) (secs : List (Rd.RKey × Rd.SecVal)) (kind : SecName)
    (hk : kind ≠ .other)
    (hcase : ∀ r ∈ secItems (RH.keyOf kind) secs, ∃ m, r.orig = caseMap (RH.cvtCase o.mnemonicCase) m) :
    BuiltByAppends (o.mnemonicCase != .preserve) (itemsOf (lasOfRead rv o secs) kind) ∧
    ∀ it ∈ itemsOf (lasOfRead rv o secs) kind, caseMap (RH.cvtCase o.mnemonicCase) it.orig = it.orig := by
  have e : itemsOf (lasOfRead rv o secs) kind =
      itemsOfRead rv (o.mnemonicCase != .preserve) (secItems (RH.keyOf kind) secs) := by
    cases kind with
    | other => exact absurd rfl hk
    | version => rfl
    | well => rfl
    | curves => rfl
    | parameter => rfl
  rw [e]
  refine ⟨builtByAppends_read _ _ _, ?_⟩
  intro it hit
  obtain ⟨s, r, hr, rfl⟩ := mem_itemsOfRead rv _ _ it hit
  obtain ⟨m, hm⟩ := hcase r hr
  show caseMap _ r.orig = r.orig
  rw [hm, Cy.caseMap_idem]

/-! ## 3. the hypotheses are needed -/

def cxVers : WItem := mkWItem "VERS".toList [] (.num "2.0".toList false) "old".toList
def optsP : Rd.ReadOpts := ⟨false, .preserve⟩
def optsU : Rd.ReadOpts := ⟨false, .upper⟩
/-- a ~Parameter item with unit `M`, description `d` -/
def pItem (orig session value : String) : WItem := ⟨orig.toList, session.toList, "M".toList, .str value.toList, "d".toList⟩
/-- a LASFile header with a minimal ~Version section and the given ~Parameter items -/
def lasP (tr : Bool) (params : List WItem) : WLas := ⟨[cxVers, wrapItem false], tr, [], [], params, []⟩

/-- what comes back in ~Parameter: original mnemonics and session names (`none` = `write` or `read` raises) -/
def paramsBack (o : Rd.ReadOpts) (version : String) (las : WLas) : Option (List Str × List Str) :=
  (reread o version (some false) 20 las).map fun s =>
    ((secItems Rd.kParameter s).map (·.orig), Rd.sessionNames (o.mnemonicCase != .preserve) (secItems Rd.kParameter s))

theorem conf_pItem (kind : SecName) (a s v : String)
    (h1 : a.toList ≠ []) (h2 : strip a.toList = a.toList) (h3 : ∀ c ∈ a.toList, c ≠ '.' ∧ c ≠ ':')
    (h4 : strip v.toList = v.toList) (h5 : ∀ c ∈ v.toList, c ≠ ':') (h6 : ¬ hasDotDot v.toList) :
    TextConf kind (pItem a s v) :=
  ⟨h1, h2, h3, (by decide : ∀ c ∈ "M".toList, isPySpace c = false), (by decide : ¬ hasDotDot "M".toList),
    Or.inr (by decide : ¬ allDigits "M".toList), (by decide : isBracketed "M".toList = false),
    (by decide : "M".toList.head? ≠ some '.'), (by decide : "M".toList.getLast? ≠ some '.'), h4, h5, fun _ => h6,
    (by decide : strip "d".toList = "d".toList), (by decide : ∀ c ∈ "d".toList, c ≠ ':')⟩

/-- the hypotheses of the round trip for `lasP tr params`, from `ItemOK` of the ~Parameter items -/
theorem fileConfB_lasP (o : Rd.ReadOpts) (tr : Bool) (params : List WItem)
    (hop : ∀ it ∈ standardizeItems params, ItemOK "2.0" .parameter it) : FileConfB o "2.0" (some false) (lasP tr params) := by
  have hvc : ∀ it ∈ (lasP tr params).version, TextConf .version it := by
    intro it hit
    have : it = cxVers ∨ it = wrapItem false := by simpa [lasP] using hit
    rcases this with rfl | rfl
    · exact ⟨by decide, by decide, by decide, by decide, by decide, Or.inl rfl, by decide, by decide, by decide,
        by decide, by decide, (fun h => nomatch h), by decide, by decide⟩
    · exact conf_wrapItem false
  have hvm : ∀ it ∈ (lasP tr params).version, it.orig.head? ≠ some '#' ∧ it.orig.head? ≠ some '~' := by
    intro it hit
    have : it = cxVers ∨ it = wrapItem false := by simpa [lasP] using hit
    rcases this with rfl | rfl <;> decide
  obtain ⟨hcv, hmv⟩ := C03_versionCopy_conf "2.0" (some false) (lasP tr params) hvc hvm
  have hcopy : RH.versionCopy "2.0" (some false) (lasP tr params) =
      [mkWItem "VERS".toList [] (.num "2.0".toList false) "CWLS log ASCII Standard -VERSION 2.0".toList,
       wrapItem false] := by
    cases tr <;> rfl
  refine ⟨fun it hit => Or.inl ⟨hcv it hit, hmv it hit⟩, ?_, ?_, hop, ?_, ?_, ?_⟩
  · intro it hit; simp [lasP, standardizeItems] at hit
  · intro it hit; simp [lasP] at hit
  · rw [hcopy]
    exact ⟨mkWItem "VERS".toList [] (.num "2.0".toList false) "CWLS log ASCII Standard -VERSION 2.0".toList,
      by cases o with | mk e c => cases e <;> cases c <;> decide +kernel, by decide⟩
  · intro l hl; simp [lasP, splitlines, splitlinesAux] at hl
  · rw [hcopy]; decide +kernel

/-- **`BuiltByAppends` is needed** (the object's session names are history dependent, the re-read ones are not): appending
`A`, `A`, `B` and deleting `A:1` leaves the session names `A:2`, `B` over the originals `A`, `B`; the written section re-reads with
the originals `A`, `B` and the session names `A`, `B`.  Every other hypothesis holds. -/
theorem C13_counterexample_stale_suffix :
    let sec := Section.run ⟨[], false⟩
      [.append "A".toList [] [] [], .append "A".toList [] [] [], .append "B".toList [] [] [], .del (.str "A:1".toList)]
    let las := lasP false [pItem "A" "A:2" "1", pItem "B" "B" "2"]
    sec.keys = ["A:2".toList, "B".toList] ∧ sec.origs = ["A".toList, "B".toList] ∧
    (itemsOf las .parameter).map (·.session) = sec.keys ∧ (itemsOf las .parameter).map (·.orig) = sec.origs ∧
    FileConfB optsP "2.0" (some false) las ∧
    ¬ BuiltByAppends false (itemsOf las .parameter) ∧
    namesOf false ["A".toList, "B".toList] = ["A".toList, "B".toList] ∧
    paramsBack optsP "2.0" las = some (["A".toList, "B".toList], ["A".toList, "B".toList]) := by
  refine ⟨by decide, by decide, by decide, by decide, ?_, by unfold BuiltByAppends; decide, by decide,
    by decide +kernel⟩
  apply fileConfB_lasP
  intro it hit
  have : it = pItem "A" "A:2" "1" ∨ it = pItem "B" "B" "2" := by
    simpa [standardizeItems, pItem, standardizeValue, WVal.str] using hit
  rcases this with rfl | rfl <;>
    exact Or.inl ⟨conf_pItem _ _ _ _ (by decide) (by decide) (by decide) (by decide) (by decide) (by decide), by decide⟩

/-- **`NoSuffixClash` is needed at the reader level** (`C13_read_distinct`): a section holding the originals `X:1`, `X`, `X`
gets the session names `X:1`, `X:1`, `X:2`; the name `X:1` resolves to the first item, the second is unreachable by name.  (At file
level the clash cannot arise from a conformant object — `TextConf.mnem_chars` excludes the colon — so `C13_file_roundtrip` has
no such hypothesis.) -/
theorem C13_counterexample_read_clash :
    let l : List Rd.RItem := [⟨"X:1".toList, [], "a".toList, []⟩, ⟨"X".toList, [], "b".toList, []⟩, ⟨"X".toList, [], "c".toList, []⟩]
    Rd.sessionNames false l = ["X:1".toList, "X:1".toList, "X:2".toList] ∧
    (Rd.lookupItem false l "X:1".toList).map (·.value) = some "a".toList ∧
    ¬ Distinct (sectionOfRead false l) := by
  refine ⟨by decide, by decide, ?_⟩
  intro hd
  have := (C13_read_resolve false _ hd 1 ⟨"X".toList, [], "b".toList, []⟩ "X:1".toList (by decide) (by decide)).2.2
  revert this
  decide

/-- **`BlankConf.rhs_nodot` is needed**: a blank mnemonic on a line with a further period BEFORE the colon (the value `1.5`)
comes back as the mnemonic `M 1` with unit `5` (the known finding `blank-mnemonic-period`) … -/
theorem C13_counterexample_blank_period :
    paramsBack optsU "2.0" (lasP true [⟨[], "UNKNOWN".toList, "M".toList, .str "1.5".toList, "d".toList⟩]) =
      some (["M 1".toList], ["M 1".toList]) := by
  decide +kernel

/-- … while a period AFTER the colon is harmless (description `a.b c..d`) -/
theorem C13_blank_period_after_colon :
    paramsBack optsU "2.0" (lasP true [⟨[], "UNKNOWN".toList, "M".toList, .str "x".toList, "a.b c..d".toList⟩]) =
      some ([[]], ["UNKNOWN".toList]) := by
  decide +kernel

/-- **a blank mnemonic that is not the empty string is altered by the round trip**: the original `"  "` comes back as `""`
(still blank, session name `UNKNOWN` again): `BlankConf.mnem_nil` cannot be weakened to "blank" in clause (a) -/
theorem C13_counterexample_whitespace_mnemonic :
    paramsBack optsU "2.0" (lasP true [⟨"  ".toList, "UNKNOWN".toList, "M".toList, .str "x".toList, "d".toList⟩]) =
      some ([[]], ["UNKNOWN".toList]) := by
  decide +kernel

/-- **the same `mnemonic_transforms` is needed**: a section built WITH transforms from `A`, `a` has the session names `A:1`, `a:2`;
re-read with `mnemonic_case="preserve"` (comparison without transforms) the names are `A`, `a` -/
theorem C13_counterexample_transforms_change :
    let las := lasP true [pItem "A" "A:1" "1", pItem "a" "a:2" "2"]
    BuiltByAppends true (itemsOf las .parameter) ∧
    paramsBack optsP "2.0" las = some (["A".toList, "a".toList], ["A".toList, "a".toList]) ∧
    paramsBack optsU "2.0" las = some (["A".toList, "A".toList], ["A:1".toList, "A:2".toList]) := by
  refine ⟨by unfold BuiltByAppends; decide, by decide +kernel, by decide +kernel⟩

/-! ## 4. non-vacuity -/

/-- ~Parameter holding the originals `A`, ``, `A`, ``, `B` (built by appends, with transforms) -/
def exParams : List WItem :=
  [pItem "A" "A:1" "1", pItem "" "UNKNOWN:1" "x", pItem "A" "A:2" "2", pItem "" "UNKNOWN:2" "y", pItem "B" "B" "3"]

theorem exParams_ok : ∀ it ∈ standardizeItems exParams, ItemOK "2.0" .parameter it := by
  intro it hit
  have : it = pItem "A" "A:1" "1" ∨ it = pItem "" "UNKNOWN:1" "x" ∨ it = pItem "A" "A:2" "2" ∨
      it = pItem "" "UNKNOWN:2" "y" ∨ it = pItem "B" "B" "3" := by
    simpa [exParams, standardizeItems, pItem, standardizeValue, WVal.str] using hit
  have hb : ∀ s v : String, strip v.toList = v.toList → (∀ c ∈ v.toList, c ≠ ':') → (∀ c ∈ v.toList, c ≠ '.') →
      ItemOK "2.0" .parameter (pItem "" s v) := by
    intro s v h1 h2 h3
    exact Or.inr ⟨.valueDescr, C03_order_v20 .parameter (by decide) _,
      ⟨rfl, (by decide : ∀ c ∈ "M".toList, isPySpace c = false), (by decide : ∀ c ∈ "M".toList, c ≠ '.'),
        Or.inr (by decide : ¬ allDigits "M".toList), (by decide : isBracketed "M".toList = false), h1, h2,
        (by decide : strip "d".toList = "d".toList), (by decide : ∀ c ∈ "d".toList, c ≠ ':'), h3⟩⟩
  rcases this with rfl | rfl | rfl | rfl | rfl
  · exact Or.inl ⟨conf_pItem _ _ _ _ (by decide) (by decide) (by decide) (by decide) (by decide) (by decide), by decide⟩
  · exact hb _ _ (by decide) (by decide) (by decide)
  · exact Or.inl ⟨conf_pItem _ _ _ _ (by decide) (by decide) (by decide) (by decide) (by decide) (by decide), by decide⟩
  · exact hb _ _ (by decide) (by decide) (by decide)
  · exact Or.inl ⟨conf_pItem _ _ _ _ (by decide) (by decide) (by decide) (by decide) (by decide) (by decide), by decide⟩

/-- **Non-vacuity.**  The object `lasP true exParams` — originals `A`, ``, `A`, ``, `B` in ~Parameter, session names
`A:1`, `UNKNOWN:1`, `A:2`, `UNKNOWN:2`, `B` — satisfies every hypothesis; by the theorems its header, read with the default
`mnemonic_case="upper"`, gives back the same originals and the same session names, pairwise distinct; the same result by running
the two models (`decide`); and with `mnemonic_case="preserve"` as well. -/
example :
    (itemsOf (lasP true exParams) .parameter).map (·.session) =
      ["A:1".toList, "UNKNOWN:1".toList, "A:2".toList, "UNKNOWN:2".toList, "B".toList] ∧
    (itemsOf (lasP true exParams) .parameter).map (·.orig) = ["A".toList, [], "A".toList, [], "B".toList] ∧
    FileConfB optsU "2.0" (some false) (lasP true exParams) ∧
    BuiltByAppends true (itemsOf (lasP true exParams) .parameter) ∧
    -- by the theorems
    (rereadItems optsU "2.0" (some false) (lasP true exParams) .parameter).map (·.orig) =
      ["A".toList, [], "A".toList, [], "B".toList] ∧
    Rd.sessionNames true (rereadItems optsU "2.0" (some false) (lasP true exParams) .parameter) =
      ["A:1".toList, "UNKNOWN:1".toList, "A:2".toList, "UNKNOWN:2".toList, "B".toList] ∧
    Distinct (sectionOfRead true (rereadItems optsU "2.0" (some false) (lasP true exParams) .parameter)) ∧
    -- by running the models
    paramsBack optsU "2.0" (lasP true exParams) = some (["A".toList, [], "A".toList, [], "B".toList],
      ["A:1".toList, "UNKNOWN:1".toList, "A:2".toList, "UNKNOWN:2".toList, "B".toList]) ∧
    paramsBack optsP "2.0" (lasP true exParams) = some (["A".toList, [], "A".toList, [], "B".toList],
      ["A:1".toList, "UNKNOWN:1".toList, "A:2".toList, "UNKNOWN:2".toList, "B".toList]) := by
  have hc : FileConfB optsU "2.0" (some false) (lasP true exParams) := fileConfB_lasP optsU true exParams exParams_ok
  have hb : BuiltByAppends true (itemsOf (lasP true exParams) .parameter) := by unfold BuiltByAppends; decide
  obtain ⟨lines, las', hl⟩ := headerLines_total "2.0" (some false) 20 (lasP true exParams) (Or.inr rfl) (fun h => nomatch h)
  obtain ⟨_, _, _, hall⟩ := C13_file_roundtrip optsU WVal.str "2.0" (some false) 20 _ las' lines hl hc
  obtain ⟨_, _, _, _, _, _, hd, _, _⟩ := hall .parameter (by decide)
  obtain ⟨h1, h2⟩ := C13_file_same_names_object optsU "2.0" (some false) (lasP true exParams) .parameter (by decide)
    (by decide) (by decide) hb
  exact ⟨by decide, by decide, hc, hb, h1, h2, hd, by decide +kernel, by decide +kernel⟩

#print axioms C13_read_is_sectionItems
#print axioms C13_read_is_run
#print axioms C13_read_inv
#print axioms C13_read_names
#print axioms C13_read_blank_unknown
#print axioms C13_read_noSuffixClash_iff
#print axioms C13_read_distinct
#print axioms C13_read_resolve
#print axioms C13_file_roundtrip
#print axioms C13_file_same_names
#print axioms C13_file_same_names_object
#print axioms C13_file_roundtrip_preserve
#print axioms C13_read_object_hyps
#print axioms fileConfB_lasP
#print axioms C13_counterexample_stale_suffix
#print axioms C13_counterexample_read_clash
#print axioms C13_counterexample_blank_period
#print axioms C13_blank_period_after_colon
#print axioms C13_counterexample_whitespace_mnemonic
#print axioms C13_counterexample_transforms_change
#print axioms exParams_ok
#print axioms Lasio.SF.sessionNames_eq_rebuild
#print axioms Lasio.C04_blank_all
#print axioms Lasio.Wr.section_read_back
#print axioms Lasio.Wr.file_read_back


end Lasio.C13File
