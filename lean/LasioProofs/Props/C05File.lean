import LasioProofs.Lemmas.PlantLemmas
/-
C05, last clause, WHOLE FILE: "… an item in one section never changes how another section or the data is interpreted: only
~Version's VERS, WRAP and DLM and ~Well's NULL steer parsing."

`Rd.steer` looks at the items of a section only through the mnemonics its TITLE consults (`consulted`: VERS, WRAP, DLM for a
title letter V; NULL for W; nothing otherwise — `C05_steering_only_V_W_title`, `C05_steering_fields`).  So an item line planted
in a section that does not consult its mnemonic — NULL in ~Version / ~Parameter / a custom section, VERS / WRAP / DLM in ~Well /
~Parameter / a custom section, any other mnemonic anywhere — is just an item:

* `C05_file_plant`          a readable document `pre ++ flat (s₁ ++ (t, l₁ ++ l₂) :: s₂)`, `t` a header-items section not stored
                            under "Curves", `x` a line every section parser reads as an item whose mnemonic `t` does not consult
                            (`plantSafe`, decidable): the document with `x` between `l₁` and `l₂` is readable with the SAME
                            steering values, the same data results on windows moved down by one line (same curves), the same
                            sections except that the value stored for `t` has the item of `x` inserted at its place (`JRel`).
                            No `ignore_header_errors` is needed (C19_file needs it because its line may be junk).
* `C05_file_plant_named`    the same from "the mnemonic, upper-cased, is `K`" and "`t` does not consult `K`".
* `C05_file_plant_general`  the general form (hypotheses on what the parsers of `t` make of `x`), which also covers C19's lines.
* tightness: `C05_file_null_in_well_steers`, `C05_file_wrap_in_version_steers` (in the section that consults the mnemonic the
  planted item DOES change the steering), `C05_file_curves_excluded` (an item planted in ~Curves leaves the steering alone but is
  one more declared curve: the data are assigned to `d + 1` curves — so "stored under Curves" is excluded).
* The pinned tree's defect (fixed upstream, recorded as R-finding in DESIGN.md): `las.py` used to look NULL up in every section
  whose title starts with `~P` as well, so `NULL. 3` in ~Parameter overrode ~Well's NULL; in the model (= the current code) the
  lookup is made under the title letter W only, which is what `consulted` states.
-/
namespace Lasio.Tf
open Lasio Lasio.Dt

/-- **C05, whole file, general form.** `x` is not a title line; the parsers of `t` do not find it unparsable (or header errors are
ignored); if they make an item of it, its mnemonic is none of those `t` consults. -/
theorem C05_file_plant_general (o : Opts) (nullOf : Option Str → Option Str) (ft : FloatTable) (htf : TildeNotFloat ft)
    (pre : List Str) (s₁ s₂ : List (Str × List Str)) (t : Str) (l₁ l₂ : List Str) (x : Str)
    (hpre : ∀ y ∈ pre, Rd.isTitle y = false) (hw : Rd.WellFormed (s₁ ++ (t, l₁ ++ l₂) :: s₂)) (hx : Rd.isTitle x = false)
    (hk : kindOf t = .items) (hcur : Rd.curvesTitle t = false)
    (hbad : o.hdr.ignoreHeaderErrors = true ∨ ∀ ver p, Rd.mkParser (Rd.lineStrip t) ver = .ok p → Rd.lineRes o.hdr p x ≠ .bad)
    (hsafe : ∀ ver p it, Rd.mkParser (Rd.lineStrip t) ver = .ok p → Rd.lineItem o.hdr p x = some it →
      ∀ k ∈ consulted (Rd.sline t), Rd.mcmp (trOf o.hdr) (Rd.U it) k = false)
    (r : FullRead) (hr : readFull o nullOf ft (pre ++ Rd.flat (s₁ ++ (t, l₁ ++ l₂) :: s₂)) = .ok r) :
    ∃ r' ver p k, readFull o nullOf ft (pre ++ Rd.flat (s₁ ++ (t, l₁ ++ x :: l₂) :: s₂)) = .ok r' ∧
      r'.steer = r.steer ∧
      r'.data = r.data.map (shiftData (pre.length + Rd.size s₁ + 1 + l₁.length)) ∧ r'.parsed.data = r.parsed.data ∧
      Rd.mkParser (Rd.lineStrip t) ver = .ok p ∧ k ≠ Rd.kCurves ∧
      JRel k (.items (Rd.bodyItems o.hdr p l₁ ++ Rd.bodyItems o.hdr p l₂))
             (.items (Rd.bodyItems o.hdr p l₁ ++ (Rd.lineItem o.hdr p x).toList ++ Rd.bodyItems o.hdr p l₂))
             r.sections r'.sections ∧
      ((∀ tb ∈ s₂, ∀ ver ver' k', Rd.secKey ver (t, ([] : List Str)) = some k' → Rd.secKey ver' tb ≠ some k') →
        r.sections.lookup k = some (.items (Rd.bodyItems o.hdr p l₁ ++ Rd.bodyItems o.hdr p l₂)) ∧
        r'.sections.lookup k =
          some (.items (Rd.bodyItems o.hdr p l₁ ++ (Rd.lineItem o.hdr p x).toList ++ Rd.bodyItems o.hdr p l₂))) := by
  obtain ⟨r', ver, p, k, h1, h2, h3, h4, h5, h6, h7⟩ :=
    readFull_plant o nullOf ft htf pre s₁ s₂ t l₁ l₂ x hpre hw hx hk hcur hbad hsafe r hr
  refine ⟨r', ver, p, k, h1, h2, h3, ?_, h4, h5, h6, h7⟩
  simp only [FullRead.parsed]
  rw [h3]
  exact shiftData_res (fun y => y.map Prod.snd) _ _

/-- **C05, whole file.** The decidable side condition `plantSafe`: whatever section name `read_header_line` is called with, `x`
parses, and the mnemonic it gets is none of those the title `t` consults. -/
theorem C05_file_plant (o : Opts) (nullOf : Option Str → Option Str) (ft : FloatTable) (htf : TildeNotFloat ft)
    (pre : List Str) (s₁ s₂ : List (Str × List Str)) (t : Str) (l₁ l₂ : List Str) (x : Str)
    (hpre : ∀ y ∈ pre, Rd.isTitle y = false) (hw : Rd.WellFormed (s₁ ++ (t, l₁ ++ l₂) :: s₂)) (hx : Rd.isTitle x = false)
    (hk : kindOf t = .items) (hcur : Rd.curvesTitle t = false) (hsafe : plantSafe o.hdr.mnemonicCase t x = true)
    (r : FullRead) (hr : readFull o nullOf ft (pre ++ Rd.flat (s₁ ++ (t, l₁ ++ l₂) :: s₂)) = .ok r) :
    ∃ r' ver p k, readFull o nullOf ft (pre ++ Rd.flat (s₁ ++ (t, l₁ ++ x :: l₂) :: s₂)) = .ok r' ∧
      r'.steer = r.steer ∧
      r'.data = r.data.map (shiftData (pre.length + Rd.size s₁ + 1 + l₁.length)) ∧ r'.parsed.data = r.parsed.data ∧
      Rd.mkParser (Rd.lineStrip t) ver = .ok p ∧ k ≠ Rd.kCurves ∧
      JRel k (.items (Rd.bodyItems o.hdr p l₁ ++ Rd.bodyItems o.hdr p l₂))
             (.items (Rd.bodyItems o.hdr p l₁ ++ (Rd.lineItem o.hdr p x).toList ++ Rd.bodyItems o.hdr p l₂))
             r.sections r'.sections ∧
      ((∀ tb ∈ s₂, ∀ ver ver' k', Rd.secKey ver (t, ([] : List Str)) = some k' → Rd.secKey ver' tb ≠ some k') →
        r.sections.lookup k = some (.items (Rd.bodyItems o.hdr p l₁ ++ Rd.bodyItems o.hdr p l₂)) ∧
        r'.sections.lookup k =
          some (.items (Rd.bodyItems o.hdr p l₁ ++ (Rd.lineItem o.hdr p x).toList ++ Rd.bodyItems o.hdr p l₂))) :=
  C05_file_plant_general o nullOf ft htf pre s₁ s₂ t l₁ l₂ x hpre hw hx hk hcur
    (Or.inr fun _ p _ => plantSafe_not_bad o.hdr p t x hsafe)
    (fun _ p it _ hit => plantSafe_item o.hdr p t x it hsafe hit) r hr

/-- the steering mnemonics a title consults, in words: a title letter other than V consults none of VERS, WRAP, DLM; a title
letter other than W does not consult NULL -/
theorem C05_consulted (T : Str) :
    (Rd.titleLetter T ≠ ['V'] → ∀ k ∈ consulted T, k ≠ "VERS".toList ∧ k ≠ "WRAP".toList ∧ k ≠ "DLM".toList) ∧
    (Rd.titleLetter T ≠ ['W'] → ∀ k ∈ consulted T, k ≠ "NULL".toList) := by
  unfold consulted
  constructor
  · intro h k hk
    have : (Rd.titleLetter T == ['V']) = false := by simpa using h
    simp only [this, Bool.false_eq_true, if_false] at hk
    split at hk
    · simp only [List.mem_singleton] at hk; subst hk; decide
    · cases hk
  · intro h k hk
    have : (Rd.titleLetter T == ['W']) = false := by simpa using h
    simp only [this, Bool.false_eq_true, if_false] at hk
    split at hk
    · simp only [List.mem_cons, List.not_mem_nil, or_false] at hk
      rcases hk with rfl | rfl | rfl <;> decide
    · cases hk

/-- **C05, whole file, named form.** Every section parser reads `x` as an item whose (non-blank) mnemonic, upper-cased, is `K`;
`K` is NULL and the title letter of `t` is not W, or `K` is VERS / WRAP / DLM and the title letter is not V. -/
theorem C05_file_plant_named (o : Opts) (nullOf : Option Str → Option Str) (ft : FloatTable) (htf : TildeNotFloat ft)
    (pre : List Str) (s₁ s₂ : List (Str × List Str)) (t : Str) (l₁ l₂ : List Str) (x : Str) (K : Str)
    (hpre : ∀ y ∈ pre, Rd.isTitle y = false) (hw : Rd.WellFormed (s₁ ++ (t, l₁ ++ l₂) :: s₂)) (hx : Rd.isTitle x = false)
    (hk : kindOf t = .items) (hcur : Rd.curvesTitle t = false)
    (hparse : ∀ sec ∈ Rd.allSecNames, ∃ f, parseHeaderLine sec (Rd.lineStrip x) = some f ∧
      upper (Rd.applyCase o.hdr.mnemonicCase f.name) = K ∧ (strip (Rd.applyCase o.hdr.mnemonicCase f.name)).isEmpty = false)
    (hK : (K = "NULL".toList ∧ Rd.titleLetter (Rd.sline t) ≠ ['W']) ∨
      ((K = "VERS".toList ∨ K = "WRAP".toList ∨ K = "DLM".toList) ∧ Rd.titleLetter (Rd.sline t) ≠ ['V']))
    (r : FullRead) (hr : readFull o nullOf ft (pre ++ Rd.flat (s₁ ++ (t, l₁ ++ l₂) :: s₂)) = .ok r) :
    ∃ r', readFull o nullOf ft (pre ++ Rd.flat (s₁ ++ (t, l₁ ++ x :: l₂) :: s₂)) = .ok r' ∧
      r'.steer = r.steer ∧ r'.parsed.data = r.parsed.data ∧
      r'.data = r.data.map (shiftData (pre.length + Rd.size s₁ + 1 + l₁.length)) := by
  have hsafe : plantSafe o.hdr.mnemonicCase t x = true := by
    apply plantSafe_of_name _ t x K hparse
    intro k hk'
    have hup : ∀ k' ∈ Rd.steerKeys, upper k' = k' := by decide
    rw [hup k (consulted_steerKeys _ k hk')]
    rcases hK with ⟨rfl, hl⟩ | ⟨hK, hl⟩
    · exact fun e => (C05_consulted _).2 hl k hk' e.symm
    · have := (C05_consulted _).1 hl k hk'
      rcases hK with rfl | rfl | rfl
      · exact fun e => this.1 e.symm
      · exact fun e => this.2.1 e.symm
      · exact fun e => this.2.2 e.symm
  obtain ⟨r', _, _, _, h1, h2, h3, h4, _⟩ :=
    C05_file_plant o nullOf ft htf pre s₁ s₂ t l₁ l₂ x hpre hw hx hk hcur hsafe r hr
  exact ⟨r', h1, h2, h4, h3⟩

/-! ## tightness, and the excluded case -/

def c05f (x : String) : Str := x.toList

def pfFt : FloatTable := [(c05f "1", c05f "a1"), (c05f "2", c05f "a2"), (c05f "3", c05f "a3"), (c05f "-999.25", c05f "neg"),
  (c05f "100.25", c05f "hun")]
/-- the numeric service for the NULL value: `float()` of the raw text -/
def pfNull : Option Str → Option Str := fun o => o.bind fun t => pfFt.lookup t
def pfOpts : Opts := ⟨⟨false, .preserve⟩, ⟨.normal, .strict⟩⟩

def pfV : Str × List Str := (c05f "~V\n", [c05f "VERS. 2.0 : v\n", c05f "WRAP. NO : w\n"])
def pfW : Str × List Str := (c05f "~W\n", [c05f "NULL. -999.25 : n\n", c05f "STRT.M 1 : s\n"])
def pfP : Str × List Str := (c05f "~P\n", [c05f "X. 5 : x\n"])
def pfC : Str × List Str := (c05f "~C\n", [c05f "A.M : a\n", c05f "B.M : b\n"])
def pfA : Str × List Str := (c05f "~A\n", [c05f "1 -999.25\n", c05f "2 100.25\n"])

/-- steering values and data results of a file (defaults when it is not readable) -/
def pfShow (d : Doc) : Rd.Steer × List (Except DErr (Engine × List (Slot × Column))) :=
  match readFull pfOpts pfNull pfFt d with
  | .ok r => (r.steer, r.data.map DataRead.res)
  | .error _ => (Rd.Steer.init, [])

/-- TIGHT (NULL): planted in ~Well — the section that consults NULL — the item DOES steer: the NULL value changes and other cells
become NaN -/
theorem C05_file_null_in_well_steers :
    plantSafe .preserve (c05f "~W\n") (c05f "NULL. 100.25 : planted\n") = false ∧
    pfShow ([] ++ Rd.flat ([pfV] ++ (c05f "~W\n", [c05f "STRT.M 1 : s\n"] ++ []) :: [pfP, pfC, pfA])) =
      (⟨some (c05f "2.0"), some (c05f "NO"), none, none⟩,
        [.ok (.normal, [(.declared 0, .floats [c05f "a1", c05f "a2"]), (.declared 1, .floats [c05f "neg", c05f "hun"])])]) ∧
    pfShow ([] ++ Rd.flat ([pfV] ++ (c05f "~W\n", [c05f "STRT.M 1 : s\n"] ++ c05f "NULL. 100.25 : planted\n" :: []) :: [pfP, pfC, pfA])) =
      (⟨some (c05f "2.0"), some (c05f "NO"), some (c05f "100.25"), none⟩,
        [.ok (.normal, [(.declared 0, .floats [c05f "a1", c05f "a2"]), (.declared 1, .floats [c05f "neg", nanTxt])])]) := by
  refine ⟨by decide, by rfl, by rfl⟩

/-- TIGHT (WRAP): planted in ~Version the item steers -/
theorem C05_file_wrap_in_version_steers :
    plantSafe .preserve (c05f "~V\n") (c05f "WRAP. YES : planted\n") = false ∧
    (pfShow ([] ++ Rd.flat ([] ++ (c05f "~V\n", [c05f "VERS. 2.0 : v\n"] ++ []) :: [pfW, pfP, pfC, pfA]))).1 =
      ⟨some (c05f "2.0"), none, some (c05f "-999.25"), none⟩ ∧
    (pfShow ([] ++ Rd.flat ([] ++ (c05f "~V\n", [c05f "VERS. 2.0 : v\n"] ++ c05f "WRAP. YES : planted\n" :: []) :: [pfW, pfP, pfC, pfA]))).1 =
      ⟨some (c05f "2.0"), some (c05f "YES"), some (c05f "-999.25"), none⟩ := by
  refine ⟨by decide, by rfl, by rfl⟩

/-- ~CURVES IS EXCLUDED: an item planted in ~Curves (here named NULL) leaves the steering values alone, but it is one more declared
curve, and the data section is assigned to three curves instead of two (the third: NaN) -/
theorem C05_file_curves_excluded :
    Rd.curvesTitle (c05f "~C\n") = true ∧ plantSafe .preserve (c05f "~C\n") (c05f "NULL. 5 : planted\n") = true ∧
    pfShow ([] ++ Rd.flat ([pfV, pfW, pfP] ++ (c05f "~C\n", [c05f "A.M : a\n"] ++ [c05f "B.M : b\n"]) :: [pfA])) =
      (⟨some (c05f "2.0"), some (c05f "NO"), some (c05f "-999.25"), none⟩,
        [.ok (.normal, [(.declared 0, .floats [c05f "a1", c05f "a2"]), (.declared 1, .floats [nanTxt, c05f "hun"])])]) ∧
    pfShow ([] ++ Rd.flat ([pfV, pfW, pfP] ++ (c05f "~C\n", [c05f "A.M : a\n"] ++ c05f "NULL. 5 : planted\n" :: [c05f "B.M : b\n"]) :: [pfA])) =
      (⟨some (c05f "2.0"), some (c05f "NO"), some (c05f "-999.25"), none⟩,
        [.ok (.normal, [(.declared 0, .floats [c05f "a1", c05f "a2"]), (.declared 1, .floats [nanTxt, c05f "hun"]),
          (.declared 2, .floats [nanTxt, nanTxt])])]) := by
  refine ⟨by decide, by decide, by rfl, by rfl⟩

/-! ## non-vacuity -/

theorem C05_file_example_tilde : TildeNotFloat pfFt := by
  intro t ht
  cases t with
  | nil => simp at ht
  | cons c cs =>
    simp only [List.head?_cons, Option.some.injEq] at ht
    subst ht
    rfl

def pfDoc : Doc := [] ++ Rd.flat ([pfV, pfW] ++ (c05f "~P\n", [c05f "X. 5 : x\n"] ++ []) :: [pfC, pfA])
def pfDocP : Doc := [] ++ Rd.flat ([pfV, pfW] ++ (c05f "~P\n", [c05f "X. 5 : x\n"] ++ c05f "NULL. 100.25 : planted\n" :: []) :: [pfC, pfA])
def pfDocW : Doc := [] ++ Rd.flat ([pfV] ++ (c05f "~W\n", [c05f "NULL. -999.25 : n\n"] ++ [c05f "STRT.M 1 : s\n"]) :: [pfP, pfC, pfA])
def pfDocW' : Doc := [] ++ Rd.flat ([pfV] ++
  (c05f "~W\n", [c05f "NULL. -999.25 : n\n"] ++ c05f "VERS. 1.2 : planted\n" :: [c05f "STRT.M 1 : s\n"]) :: [pfP, pfC, pfA])

def pfRead (d : Doc) : FullRead :=
  match readFull pfOpts pfNull pfFt d with
  | .ok r => r
  | .error _ => ⟨[], Rd.Steer.init, []⟩

/-- ~V, ~W (NULL -999.25), ~P, ~C, ~A: `NULL. 100.25 : planted` in ~Parameter (instance of `C05_file_plant`) and
`VERS. 1.2 : planted` in ~Well (instance of `C05_file_plant_named`) change neither the steering values nor the curves — which are,
by evaluation: VERS 2.0, WRAP NO, NULL -999.25; curve B = [NaN, 100.25] (the -999.25 cell nulled, the 100.25 cell kept). -/
example :
    (∃ r', readFull pfOpts pfNull pfFt pfDocP = .ok r' ∧ r'.steer = (pfRead pfDoc).steer ∧
      r'.parsed.data = (pfRead pfDoc).parsed.data) ∧
    (∃ r', readFull pfOpts pfNull pfFt pfDocW' = .ok r' ∧ r'.steer = (pfRead pfDocW).steer ∧
      r'.parsed.data = (pfRead pfDocW).parsed.data) ∧
    (pfRead pfDoc).steer = ⟨some (c05f "2.0"), some (c05f "NO"), some (c05f "-999.25"), none⟩ ∧
    (pfRead pfDoc).parsed.data =
      [.ok [(.declared 0, .floats [c05f "a1", c05f "a2"]), (.declared 1, .floats [nanTxt, c05f "hun"])]] ∧
    pfShow pfDocP = (⟨some (c05f "2.0"), some (c05f "NO"), some (c05f "-999.25"), none⟩,
      [.ok (.normal, [(.declared 0, .floats [c05f "a1", c05f "a2"]), (.declared 1, .floats [nanTxt, c05f "hun"])])]) ∧
    pfShow pfDocW' = (⟨some (c05f "2.0"), some (c05f "NO"), some (c05f "-999.25"), none⟩,
      [.ok (.normal, [(.declared 0, .floats [c05f "a1", c05f "a2"]), (.declared 1, .floats [nanTxt, c05f "hun"])])]) := by
  refine ⟨?_, ?_, by rfl, by rfl, by rfl, by rfl⟩
  · obtain ⟨r', _, _, _, h1, h2, _, h4, _⟩ := C05_file_plant pfOpts pfNull pfFt C05_file_example_tilde [] [pfV, pfW] [pfC, pfA]
      (c05f "~P\n") [c05f "X. 5 : x\n"] [] (c05f "NULL. 100.25 : planted\n") (by intro y hy; cases hy)
      (by unfold Rd.WellFormed; decide) (by decide) (by decide) (by decide) (by decide) (pfRead pfDoc) (by rfl)
    unfold pfDocP
    exact ⟨r', h1, h2, h4⟩
  · obtain ⟨r', h1, h2, h3, _⟩ := C05_file_plant_named pfOpts pfNull pfFt C05_file_example_tilde [] [pfV] [pfP, pfC, pfA]
      (c05f "~W\n") [c05f "NULL. -999.25 : n\n"] [c05f "STRT.M 1 : s\n"] (c05f "VERS. 1.2 : planted\n") (c05f "VERS")
      (by intro y hy; cases hy) (by unfold Rd.WellFormed; decide) (by decide) (by decide) (by decide) (by decide)
      (Or.inr ⟨Or.inl rfl, by decide⟩) (pfRead pfDocW) (by rfl)
    unfold pfDocW'
    exact ⟨r', h1, h2, h3⟩

end Lasio.Tf

#print axioms Lasio.Tf.C05_file_plant_general
#print axioms Lasio.Tf.C05_file_plant
#print axioms Lasio.Tf.C05_consulted
#print axioms Lasio.Tf.C05_file_plant_named
#print axioms Lasio.Tf.C05_file_null_in_well_steers
#print axioms Lasio.Tf.C05_file_wrap_in_version_steers
#print axioms Lasio.Tf.C05_file_curves_excluded
