import LasioProofs.Lemmas.RedelimLemmas
/-
C09, the part about DELIMITERS — "… changing the amount of blanks/tabs between fields …, or re-delimiting the data with the
declared delimiter (SPACE, TAB, COMMA, with or without padding blanks) all yield … equal curve data."

Models: `Tf.relayLine1 frm to seps` (cut a data line into cells with the delimiter `frm`, join them with separators made for the
delimiter `to` from the arguments `seps`), `Tf.relayBody` (every data line of a window), `Tf.redelim`, `Tf.repadLine` (`frm = to`,
one line), and the data-section reader `Lasio.Dt` (`lineTokens`, `sniffTwice`, `normalEngineLines`, `readData`).

The real code keeps padding blanks inside the cells of TAB / COMMA data (`C09_repad_delimited_keeps_padding`, finding
dlm-pad-text), so the statements are about NUMERIC cells and hold "up to `strip`" for the items and exactly for the columns:
`float()` strips.

HYPOTHESES (each shown necessary below)
* `NumCells frm l`   (decidable) `l` is a data line and every cell of it — cut with `frm` — is a plain decimal
                     `[+-]?(\d+\.?\d*|\.\d+)([eE][+-]?\d+)?`; `NumBody frm c body`: every line is a blank/comment line or a
                     `NumCells` line of `c` cells.
* `SepsOK to seps`   (decidable) only for `to = TAB`: no separator argument has a blank BETWEEN two TABs — `sot_regex.findall`
                     makes a cell of that blank (`C09_redelim_tab_blank_between_tabs`: true of the real reader, too).
* `SubsOK dlm sb`    with the COMMA delimiter the comma-decimal substitution is off (it is for the sets the reader uses).
* `FtStripOn ft toks`, `Converts ft toks`: `float()` ignores the blanks around the items met in the two documents, and the items
                     of the original document are numbers for it.  (The float service is a finite table: the unrestricted
                     `FtStrip ft` holds of the empty table only — `C09_redelim_FtStrip_only_empty` — hence the relative form.)

WHAT IS PROVED
1 line level     `C09_redelim_line` (items of the original and of the re-laid line = the cells, up to `strip`, for all
                 `frm to seps` and all admissible substitution sets), `C09_redelim_line_readSubs`, `C09_redelim_line_sniff`,
                 `C09_redelim_line_subs_irrelevant`, `C09_redelim_line_numpy`.
2 typed columns  `C09_redelim_typed_column`, `C09_redelim_engine_of_tokens`.
3 window level   `C09_redelim_tokens`, `C09_redelim_engine` (every `nColumns`), `C09_redelim_sniff`,
                 `C09_redelim_readData_normal` (normal engine in effect), `C09_redelim_readData_ws` (any engine, SPACE/TAB),
                 `C09_redelim_readData_comma` (any engine, COMMA → COMMA, through `C09_redelim_comma_numpy_raises`),
                 `C09_redelim_readData_agree` (any engine, any delimiters, engines agreeing on each window),
                 `C09_redelim_window` (the same on the document `redelim` produces).
4 frm = to       `C09_repad_delimited_line`, `C09_repad_delimited_readData`, `C09_repad_delimited_readData_ws`, and the WHOLE FILE:
                 `C09_repad_delimited_file` / `C09_repad_delimited_readModel` (conclusion of `C09_step`: readable, same steering
                 values, same parsed result, again a `Base`).
5 whole file, `.redelim` (PARTIAL)
                 `C09_redelim_header_body` (the header-level reader does not see the re-laid body) and
                 `C09_redelim_file_of_header` (GIVEN what `Rd.readLines` returns for the two documents — checked by evaluation in
                 `C09_redelim_example_header` — the files are readable and their data sections read alike).
NOT PROVED: that `Rd.readLines` of the document with the DLM item replaced / inserted returns the old sections but for that
item, the old steering values but for `dlm`, and the shifted window — for ALL documents (it needs: one ~V section routed to
"Version", no other DLM item, the parse of the line `DLM. <to> : delimiter` under the section's order table, and the
propagation of a state that differs in `steer.dlm` and the Version entry through the sections that follow).
-/
namespace Lasio.Tf
open Lasio Lasio.Dt

/-! ## the side conditions -/

/-- `l` is a data line whose cells — cut with the delimiter `frm` — are plain decimals -/
def NumCells (frm : Dlm) (l : Str) : Prop := numCells frm l = true

instance (frm : Dlm) (l : Str) : Decidable (NumCells frm l) := by unfold NumCells; infer_instance

/-- in words: not a blank/comment line, and every cell is non-empty and matches `numeric_literal_regex` -/
theorem C09_redelim_NumCells_iff (frm : Dlm) (l : Str) :
    NumCells frm l ↔ isSkip l = false ∧ ∀ c ∈ cellsOf frm (splitEol l).1, c ≠ [] ∧ isPlainDecimal c = true := by
  unfold NumCells numCells
  simp only [Bool.and_eq_true, Bool.not_eq_true', List.all_eq_true]
  constructor
  · rintro ⟨h1, h2⟩
    exact ⟨h1, fun c hc => ⟨by intro e; subst e; exact absurd (h2 [] hc) (by decide), h2 c hc⟩⟩
  · rintro ⟨h1, h2⟩
    exact ⟨h1, fun c hc => (h2 c hc).2⟩

/-- every line of the body is a blank/comment line or a `NumCells` line of `c` cells -/
def NumBody (frm : Dlm) (c : Nat) (body : List Str) : Prop := numBody frm c body = true

instance (frm : Dlm) (c : Nat) (body : List Str) : Decidable (NumBody frm c body) := by unfold NumBody; infer_instance

theorem C09_redelim_NumBody_iff (frm : Dlm) (c : Nat) (body : List Str) :
    NumBody frm c body ↔ ∀ l ∈ body, isSkip l = true ∨ (NumCells frm l ∧ (cellsOf frm (splitEol l).1).length = c) := by
  constructor
  · exact fun h => numBody_line h
  · intro h
    unfold NumBody numBody
    rw [List.all_eq_true]
    intro l hl
    rcases h l hl with h1 | ⟨h1, h2⟩
    · simp [h1]
    · have : numCells frm l = true := h1
      simp [this, h2]

/-- Python's `float()` ignores surrounding blanks — as a statement about ALL strings -/
def FtStrip (ft : FloatTable) : Prop := ∀ t, toFloat ft (strip t) = toFloat ft t

theorem C09_redelim_FtStrip_on (ft : FloatTable) (h : FtStrip ft) (toks : List Str) : FtStripOn ft toks :=
  fun t _ => (h t).symm

/-- … which a finite table cannot satisfy unless it is empty; the theorems therefore assume `FtStripOn ft toks` for the items
`toks` met in the two documents -/
theorem C09_redelim_FtStrip_only_empty (ft : FloatTable) (h : FtStrip ft) : ∀ t, toFloat ft t = none :=
  ftStrip_global_empty ft h

/-! ## 1. line level -/

/-- RE-DELIMITED LINE. For ALL delimiters `frm`, `to` and separator arguments `seps`: the items the normal engine takes from a
line with numeric cells, and from the line re-laid for the delimiter `to`, are its cells up to `strip` — so the two item lists
agree up to `strip` — whatever admissible substitution sets are active. -/
theorem C09_redelim_line (frm to : Dlm) (seps : List Str) (l : Str) (h : NumCells frm l) (hs : SepsOK to seps)
    (sb sb' : Subs) (hsb : SubsOK frm sb) (hsb' : SubsOK to sb') :
    (lineTokens sb' to (relayLine1 frm to seps l)).map strip = cellsOf frm (splitEol l).1 ∧
    (lineTokens sb frm l).map strip = cellsOf frm (splitEol l).1 :=
  ⟨drow_lineTokens hsb' (drow_relay frm to seps l h hs), drow_lineTokens hsb (drow_of_numCells frm l h)⟩

/-- … for the substitution sets the reader uses: `readSubs`, with or without the run-on(-) substitution (the only change the
sniffer's recommendation can make) -/
theorem C09_redelim_line_readSubs (frm to : Dlm) (seps : List Str) (l : Str) (h : NumCells frm l) (hs : SepsOK to seps) :
    (lineTokens (readSubs to) to (relayLine1 frm to seps l)).map strip = cellsOf frm (splitEol l).1 ∧
    (lineTokens (readSubs frm) frm l).map strip = cellsOf frm (splitEol l).1 ∧
    (lineTokens (readSubs to).dropHyphen to (relayLine1 frm to seps l)).map strip = cellsOf frm (splitEol l).1 ∧
    (lineTokens (readSubs frm).dropHyphen frm l).map strip = cellsOf frm (splitEol l).1 := by
  have a := C09_redelim_line frm to seps l h hs _ _ (subsOK_readSubs frm) (subsOK_readSubs to)
  have b := C09_redelim_line frm to seps l h hs _ _ (subsOK_dropHyphen (subsOK_readSubs frm)) (subsOK_dropHyphen (subsOK_readSubs to))
  exact ⟨a.1, a.2, b.1, b.2⟩

/-- the items do not depend on the (admissible) substitution set at all -/
theorem C09_redelim_line_subs_irrelevant (frm : Dlm) (l : Str) (h : NumCells frm l) (sb sb2 : Subs) (hsb : SubsOK frm sb)
    (hsb2 : SubsOK frm sb2) : lineTokens sb frm l = lineTokens sb2 frm l := by
  rw [drow_lineTokens_raw hsb (drow_of_numCells frm l h), drow_lineTokens_raw hsb2 (drow_of_numCells frm l h)]

/-- SNIFFER, per line: both lines are sampled, and each counts as many items as the line has cells, under every admissible
substitution set.  (The hyphen flag of the sample is not compared: whatever it is, the recommendation `sniffTwice` accepts only
switches the run-on(-) substitution off, and the items do not depend on that — `C09_redelim_line_subs_irrelevant`.) -/
theorem C09_redelim_line_sniff (frm to : Dlm) (seps : List Str) (l : Str) (h : NumCells frm l) (hs : SepsOK to seps) :
    sampleLine l = some (cleanLine l) ∧
    sampleLine (relayLine1 frm to seps l) = some (cleanLine (relayLine1 frm to seps l)) ∧
    (∀ sb, SubsOK frm sb → (splitLine frm (applySubs sb (cleanLine l))).length = (cellsOf frm (splitEol l).1).length) ∧
    (∀ sb, SubsOK to sb →
      (splitLine to (applySubs sb (cleanLine (relayLine1 frm to seps l)))).length = (cellsOf frm (splitEol l).1).length) := by
  have d1 := drow_of_numCells frm l h
  have d2 := drow_relay frm to seps l h hs
  obtain ⟨s1, e1, c1⟩ := drow_sample d1
  obtain ⟨s2, e2, c2⟩ := drow_sample d2
  have f1 : sampleLine l = some (cleanLine l) := by rw [sampleLine_eq, drow_not_skip d1]; rfl
  have f2 : sampleLine (relayLine1 frm to seps l) = some (cleanLine (relayLine1 frm to seps l)) := by
    rw [sampleLine_eq, drow_not_skip d2]; rfl
  have g1 : s1 = cleanLine l := by rw [f1] at e1; exact (Option.some.inj e1).symm
  have g2 : s2 = cleanLine (relayLine1 frm to seps l) := by rw [f2] at e2; exact (Option.some.inj e2).symm
  subst g1 g2
  exact ⟨f1, f2, c1, c2⟩

/-- genfromtxt, per line, SPACE / TAB on both sides (a TAB is white space for `str.split()`): the same tokens, the cells -/
theorem C09_redelim_line_numpy (frm to : Dlm) (seps : List Str) (l : Str) (h : NumCells frm l) (hs : SepsOK to seps)
    (hf : frm ≠ .comma) (ht : to ≠ .comma) :
    npTokens (relayLine1 frm to seps l) = cellsOf frm (splitEol l).1 ∧ npTokens l = cellsOf frm (splitEol l).1 :=
  ⟨drow_npTokens ht (drow_relay frm to seps l h hs), drow_npTokens hf (drow_of_numCells frm l h)⟩

/-! ### the hypotheses of the line level are needed -/

def c09r (s : String) : Str := s.toList

/-- `SepsOK` is needed — and this is the behaviour of the real reader: a separator with a blank between two TABs gives a
spurious cell `" "` (`sot_regex = ([^\t"']+)|…` takes the blank for an item), so "changing the amount of blanks/tabs between
fields" of TAB-delimited data is NOT presentation-only when a blank gets between two TABs -/
theorem C09_redelim_tab_blank_between_tabs :
    NumCells .space (c09r "1 2\n") ∧ ¬ SepsOK .tab [c09r "\t \t"] ∧
    relayLine1 .space .tab [c09r "\t \t"] (c09r "1 2\n") = c09r "1\t \t2\n" ∧
    lineTokens (readSubs .tab) .tab (c09r "1\t \t2\n") = [c09r "1", c09r " ", c09r "2"] ∧
    SepsOK .tab [c09r " \t\t "] ∧ lineTokens (readSubs .tab) .tab (c09r "1 \t\t 2\n") = [c09r "1 ", c09r " 2"] := by
  refine ⟨by decide, by decide, by decide, by decide, by decide, by decide⟩

/-- `SubsOK` is needed: with the comma-decimal substitution on, `1,2` is one item (the reader switches it off for DLM COMMA) -/
theorem C09_redelim_subsOK_needed :
    NumCells .comma (c09r "1,2\n") ∧ ¬ SubsOK .comma Subs.default ∧
    lineTokens Subs.default .comma (c09r "1,2\n") = [c09r "1.2"] ∧ cellsOf .comma (c09r "1,2") = [c09r "1", c09r "2"] := by
  refine ⟨by decide, ?_, by decide, by decide⟩
  intro h
  exact absurd (h rfl) (by decide)

/-- non-empty cells are needed: an empty COMMA cell disappears with the TAB (or SPACE) delimiter -/
theorem C09_redelim_empty_cell :
    ¬ NumCells .comma (c09r "1,,2\n") ∧ cellsOf .comma (c09r "1,,2") = [c09r "1", [], c09r "2"] ∧
    lineTokens (readSubs .tab) .tab (relayLine1 .comma .tab [] (c09r "1,,2\n")) = [c09r "1", c09r "2"] := by
  refine ⟨by decide, by decide, by decide⟩

/-- numeric cells are needed for "equal up to `strip`" to mean "equal curve data": a text cell keeps its padding (finding
dlm-pad-text; compare `C09_repad_delimited_keeps_padding`) -/
theorem C09_redelim_text_cell :
    ¬ NumCells .comma (c09r "1,abc\n") ∧
    lineTokens (readSubs .comma) .comma (relayLine1 .comma .comma [c09r " , "] (c09r "1,abc\n")) = [c09r "1 ", c09r " abc"] := by
  refine ⟨by decide, by decide⟩

/-! ## 2. typed columns -/

/-- ONE COLUMN. Two item lists that agree up to `strip`, `float()` ignoring the blanks around these items, the items of the
first all numbers: the same typed column (a float column). -/
theorem C09_redelim_typed_column (ft : FloatTable) (col col' : List Str) (he : col'.map strip = col.map strip)
    (h : FtStripOn ft col) (h' : FtStripOn ft col') (hc : Converts ft col) : typedColumn ft col' = typedColumn ft col :=
  typedColumn_congr ft col col' he h h' hc

/-- NORMAL ENGINE. Two bodies (any delimiters, any substitution sets) whose flat item lists agree up to `strip`: the same
result of `normalEngineLines` — columns or error — for EVERY `nColumns`. -/
theorem C09_redelim_engine_of_tokens (ft : FloatTable) (sb sb' : Subs) (dlm dlm' : Dlm) (b b' : List Str)
    (he : (normalTokens sb' dlm' b').map strip = (normalTokens sb dlm b).map strip)
    (h : FtStripOn ft (normalTokens sb dlm b)) (h' : FtStripOn ft (normalTokens sb' dlm' b'))
    (hc : Converts ft (normalTokens sb dlm b)) (n : Nat) :
    normalEngineLines ft sb' dlm' n b' = normalEngineLines ft sb dlm n b := by
  rw [normalEngineLines_eq, normalEngineLines_eq]
  exact engineToks_congr ft n _ _ he h h' hc


/-! ## 3. one data window -/

/-- FLAT ITEM LIST. A body all of whose data lines have `c` numeric cells (cut with `frm`), re-delimited for `to`: the flat item
lists of the normal engine agree up to `strip`, whatever admissible substitution sets are active. -/
theorem C09_redelim_tokens (frm to : Dlm) (c : Nat) (seps : List Str) (body : List Str) (hb : NumBody frm c body)
    (hs : SepsOK to seps) (sb sb' : Subs) (hsb : SubsOK frm sb) (hsb' : SubsOK to sb') :
    (normalTokens sb' to (relayBody frm to seps body)).map strip = (normalTokens sb frm body).map strip :=
  bodyRel_tokens hsb hsb' (bodyRel_relayBody frm to c seps body hb hs)

/-- NORMAL ENGINE. `float()` ignoring the blanks around the items of the two bodies, the items of the original body all numbers:
`normalEngineLines` returns the same columns (or the same error) for the re-delimited body read with `to` as for the body
read with `frm` — for every `nColumns` (the sniffed `c`, or the declared number of curves of a wrapped file) and every pair
of admissible substitution sets (`readSubs`, with or without the run-on(-) substitution). -/
theorem C09_redelim_engine (ft : FloatTable) (frm to : Dlm) (c : Nat) (seps : List Str) (body : List Str)
    (hb : NumBody frm c body) (hs : SepsOK to seps)
    (hS : FtStripOn ft (normalTokens (readSubs frm) frm body))
    (hS' : FtStripOn ft (normalTokens (readSubs to) to (relayBody frm to seps body)))
    (hC : Converts ft (normalTokens (readSubs frm) frm body))
    (sb sb' : Subs) (hsb : SubsOK frm sb) (hsb' : SubsOK to sb') (n : Nat) :
    normalEngineLines ft sb' to n (relayBody frm to seps body) = normalEngineLines ft sb frm n body := by
  have hrel := bodyRel_relayBody frm to c seps body hb hs
  have e1 : normalTokens sb frm body = normalTokens (readSubs frm) frm body :=
    numBodyD_tokens_indep hsb (subsOK_readSubs frm) (bodyRel_left hrel)
  have e2 : normalTokens sb' to (relayBody frm to seps body) = normalTokens (readSubs to) to (relayBody frm to seps body) :=
    numBodyD_tokens_indep hsb' (subsOK_readSubs to) (bodyRel_right hrel)
  apply C09_redelim_engine_of_tokens
  · rw [e1, e2]; exact bodyRel_tokens (subsOK_readSubs frm) (subsOK_readSubs to) hrel
  · rw [e1]; exact hS
  · rw [e2]; exact hS'
  · rw [e1]; exact hC

/-- SNIFFER. The sniffed column count (`inspect_data_section` run once or twice: 21-line sample, hyphen recommendation) of the
re-delimited window read with `to` equals that of the original window read with `frm`; it is `c` as soon as the window has a
data line.  The substitution sets the two runs end with may differ (run-on(-) on or off): both are admissible. -/
theorem C09_redelim_sniff (frm to : Dlm) (c : Nat) (seps : List Str) (body : List Str) (hb : NumBody frm c body)
    (hs : SepsOK to seps) (A A' : List Str) (t t' : Str) (after after' : List Str) :
    (sniffTwice (readSubs to) to (A' ++ t' :: (relayBody frm to seps body ++ after')) A'.length
        (A'.length + (relayBody frm to seps body).length)).2 =
      (sniffTwice (readSubs frm) frm (A ++ t :: (body ++ after)) A.length (A.length + body.length)).2 ∧
    ((∃ l ∈ body, isSkip l = false) →
      (sniffTwice (readSubs frm) frm (A ++ t :: (body ++ after)) A.length (A.length + body.length)).2 = some c) ∧
    SubsOK to (sniffTwice (readSubs to) to (A' ++ t' :: (relayBody frm to seps body ++ after')) A'.length
        (A'.length + (relayBody frm to seps body).length)).1 ∧
    SubsOK frm (sniffTwice (readSubs frm) frm (A ++ t :: (body ++ after)) A.length (A.length + body.length)).1 := by
  have hrel := bodyRel_relayBody frm to c seps body hb hs
  simp only [sniffTwice_body, bodyLines_at]
  rw [numBodyD_sniffTwiceB (subsOK_readSubs to) (bodyRel_right hrel), numBodyD_sniffTwiceB (subsOK_readSubs frm) (bodyRel_left hrel),
    bodyRel_dataCount hrel]
  exact ⟨rfl, fun h => consistent_replicate _ c (dataCount_pos body h), sniffTwiceB_subsOK (subsOK_readSubs to) _,
    sniffTwiceB_subsOK (subsOK_readSubs frm) _⟩

/-- `readData`, NORMAL ENGINE IN EFFECT (engine='normal', or a wrapped file, or a null policy other than strict). The window
`(first, last)` of the original document is read with the steering delimiter `frm`; the re-delimited window — wherever it
stands in the new document (`A'`, `t'`), whatever follows it — with the steering delimiter `to`, all other steering values
equal: the same result (engine, curves, or the same error). -/
theorem C09_redelim_readData_normal (o : DataOpts) (st : Steer) (d : Nat) (ft : FloatTable) (to : Dlm) (c : Nat)
    (seps : List Str) (body : List Str) (he : effectiveEngine o st = .normal)
    (hb : NumBody st.delimiter c body) (hs : SepsOK to seps)
    (hS : FtStripOn ft (normalTokens (readSubs st.delimiter) st.delimiter body))
    (hS' : FtStripOn ft (normalTokens (readSubs to) to (relayBody st.delimiter to seps body)))
    (hC : Converts ft (normalTokens (readSubs st.delimiter) st.delimiter body))
    (A A' : List Str) (t t' : Str) (after after' : List Str) :
    readData o (A' ++ t' :: (relayBody st.delimiter to seps body ++ after')) A'.length
        (A'.length + (relayBody st.delimiter to seps body).length) (withDlm st to) d ft =
      readData o (A ++ t :: (body ++ after)) A.length (A.length + body.length) st d ft := by
  rw [readData_window, readData_window]
  exact readBody_rel_normal o st to d ft after after' he (bodyRel_relayBody st.delimiter to c seps body hb hs) hS hS' hC

/-- `readData`, ANY ENGINE, SPACE / TAB on both sides. `genfromtxt` splits on white space, and a TAB is white space: it sees the
same tokens in the two windows, so — the lines after the window being the same — it gives the same answer or fails on both,
and then the normal engine gives the same answer: the same result from the same engine. -/
theorem C09_redelim_readData_ws (o : DataOpts) (st : Steer) (d : Nat) (ft : FloatTable) (to : Dlm) (c : Nat)
    (seps : List Str) (body : List Str) (hf : st.delimiter ≠ .comma) (ht : to ≠ .comma)
    (hb : NumBody st.delimiter c body) (hs : SepsOK to seps)
    (hS : FtStripOn ft (normalTokens (readSubs st.delimiter) st.delimiter body))
    (hS' : FtStripOn ft (normalTokens (readSubs to) to (relayBody st.delimiter to seps body)))
    (hC : Converts ft (normalTokens (readSubs st.delimiter) st.delimiter body))
    (A A' : List Str) (t t' : Str) (after : List Str) :
    readData o (A' ++ t' :: (relayBody st.delimiter to seps body ++ after)) A'.length
        (A'.length + (relayBody st.delimiter to seps body).length) (withDlm st to) d ft =
      readData o (A ++ t :: (body ++ after)) A.length (A.length + body.length) st d ft := by
  rw [readData_window, readData_window]
  exact readBody_rel_ws o st to d ft after hf ht (bodyRel_relayBody st.delimiter to c seps body hb hs) hS hS' hC

/-- `readData`, ANY ENGINE, ANY DELIMITERS. With the COMMA delimiter on one side `genfromtxt` does not see the cells (`1,2` is
one token for it), so nothing can be said about its answer in general; what is true: when on each of the two windows the
engines agree (`AgreeAlone`: reading the window as the last section of a file gives the curves the normal engine gives — trivial
when the normal engine is in effect, true of every window on which genfromtxt raises) and each window is followed by the end
of the file or a title line (`AfterOK`), the CURVES are the same; the engine that produced them may differ
(`C09_redelim_engine_may_change`). -/
theorem C09_redelim_readData_agree (o : DataOpts) (st : Steer) (d : Nat) (ft : FloatTable) (to : Dlm) (c : Nat)
    (seps : List Str) (body : List Str)
    (hb : NumBody st.delimiter c body) (hs : SepsOK to seps)
    (hS : FtStripOn ft (normalTokens (readSubs st.delimiter) st.delimiter body))
    (hS' : FtStripOn ft (normalTokens (readSubs to) to (relayBody st.delimiter to seps body)))
    (hC : Converts ft (normalTokens (readSubs st.delimiter) st.delimiter body))
    (A A' : List Str) (t t' : Str) (after after' : List Str) (ha : AfterOK ft after) (ha' : AfterOK ft after')
    (hag : AgreeAlone o st d ft body) (hag' : AgreeAlone o (withDlm st to) d ft (relayBody st.delimiter to seps body)) :
    (readData o (A' ++ t' :: (relayBody st.delimiter to seps body ++ after')) A'.length
        (A'.length + (relayBody st.delimiter to seps body).length) (withDlm st to) d ft).map Prod.snd =
      (readData o (A ++ t :: (body ++ after)) A.length (A.length + body.length) st d ft).map Prod.snd := by
  rw [readData_window, readData_window, readBody_alone o st d ft body after ha hag,
    readBody_alone o (withDlm st to) d ft _ after' ha' hag',
    normalRead_rel o st to d ft (bodyRel_relayBody st.delimiter to c seps body hb hs) hS hS' hC]

/-- … on the document `redelim` produces. The original document is `A ++ t :: (body ++ after)` (`t` the title line of the data
section); the DLM item of ~Version is line `vk` of `A` (`replace`) or a new item line is inserted before line `vk ≤ |A|`.
`redelim` changes `A` into `redelimHead vk replace to A` and the body into the re-laid body, nothing else; the data section
of the new document read with the steering delimiter `to` gives what the data section of the original gives with `frm`
(normal engine in effect; for the other engines see `C09_redelim_readData_ws`, `C09_redelim_readData_agree`). -/
theorem C09_redelim_window (o : DataOpts) (st : Steer) (d : Nat) (ft : FloatTable) (to : Dlm) (c : Nat)
    (seps : List Str) (body : List Str) (he : effectiveEngine o st = .normal)
    (hb : NumBody st.delimiter c body) (hs : SepsOK to seps)
    (hS : FtStripOn ft (normalTokens (readSubs st.delimiter) st.delimiter body))
    (hS' : FtStripOn ft (normalTokens (readSubs to) to (relayBody st.delimiter to seps body)))
    (hC : Converts ft (normalTokens (readSubs st.delimiter) st.delimiter body))
    (A : List Str) (t : Str) (after : List Str) (vk : Nat) (replace : Bool) (hvk : vk ≤ A.length)
    (hrep : replace = true → vk < A.length) :
    redelim A.length (A.length + body.length) vk replace st.delimiter to seps (A ++ t :: (body ++ after)) =
      redelimHead vk replace to A ++ t :: (relayBody st.delimiter to seps body ++ after) ∧
    readData o (redelim A.length (A.length + body.length) vk replace st.delimiter to seps (A ++ t :: (body ++ after)))
        (redelimHead vk replace to A).length ((redelimHead vk replace to A).length + body.length) (withDlm st to) d ft =
      readData o (A ++ t :: (body ++ after)) A.length (A.length + body.length) st d ft := by
  have e := redelim_window A t body after vk replace st.delimiter to seps hvk hrep
  refine ⟨e, ?_⟩
  rw [e]
  have := C09_redelim_readData_normal o st d ft to c seps body he hb hs hS hS' hC A (redelimHead vk replace to A) t t after after
  rw [relayBody_length] at this
  exact this

/-! ## 4. `frm = to`: re-padding TAB- and COMMA-delimited lines (`repadLine`) -/

/-- RE-PADDED LINE: new separators (blanks around the one TAB run / the comma) between the numeric cells of a line: the items
agree up to `strip` -/
theorem C09_repad_delimited_line (dlm : Dlm) (seps : List Str) (l : Str) (h : NumCells dlm l) (hs : SepsOK dlm seps)
    (sb sb' : Subs) (hsb : SubsOK dlm sb) (hsb' : SubsOK dlm sb') :
    (lineTokens sb' dlm (relayLine1 dlm dlm seps l)).map strip = (lineTokens sb dlm l).map strip := by
  obtain ⟨h1, h2⟩ := C09_redelim_line dlm dlm seps l h hs sb sb' hsb hsb'
  rw [h1, h2]

/-- `repadLine` on data line `j` of a window (normal engine in effect): the same result of `readData` -/
theorem C09_repad_delimited_readData (o : DataOpts) (st : Steer) (d : Nat) (ft : FloatTable) (c : Nat)
    (seps : List Str) (body : List Str) (j : Nat) (hj : j < body.length) (hdata : ∀ l, body[j]? = some l → isSkip l = false)
    (he : effectiveEngine o st = .normal) (hb : NumBody st.delimiter c body) (hs : SepsOK st.delimiter seps)
    (hS : FtStripOn ft (normalTokens (readSubs st.delimiter) st.delimiter body))
    (hS' : FtStripOn ft (normalTokens (readSubs st.delimiter) st.delimiter
      (mapAt j (relayLine1 st.delimiter st.delimiter seps) body)))
    (hC : Converts ft (normalTokens (readSubs st.delimiter) st.delimiter body))
    (A : List Str) (t : Str) (after : List Str) :
    readData o (repadLine (A.length + 1 + j) st.delimiter seps (A ++ t :: (body ++ after))) A.length (A.length + body.length) st d ft =
      readData o (A ++ t :: (body ++ after)) A.length (A.length + body.length) st d ft := by
  rw [repadLine_window A t body after j st.delimiter seps hj]
  have hl := mapAt_length j (relayLine1 st.delimiter st.delimiter seps) body
  conv => lhs; rw [← hl]
  rw [readData_window, readData_window]
  exact readBody_rel_normal o st st.delimiter d ft after after he (bodyRel_mapAt st.delimiter c seps body j hb hs hdata) hS hS' hC

/-- … any engine, TAB (or SPACE) delimiter -/
theorem C09_repad_delimited_readData_ws (o : DataOpts) (st : Steer) (d : Nat) (ft : FloatTable) (c : Nat)
    (seps : List Str) (body : List Str) (j : Nat) (hj : j < body.length) (hdata : ∀ l, body[j]? = some l → isSkip l = false)
    (hd : st.delimiter ≠ .comma) (hb : NumBody st.delimiter c body) (hs : SepsOK st.delimiter seps)
    (hS : FtStripOn ft (normalTokens (readSubs st.delimiter) st.delimiter body))
    (hS' : FtStripOn ft (normalTokens (readSubs st.delimiter) st.delimiter
      (mapAt j (relayLine1 st.delimiter st.delimiter seps) body)))
    (hC : Converts ft (normalTokens (readSubs st.delimiter) st.delimiter body))
    (A : List Str) (t : Str) (after : List Str) :
    readData o (repadLine (A.length + 1 + j) st.delimiter seps (A ++ t :: (body ++ after))) A.length (A.length + body.length) st d ft =
      readData o (A ++ t :: (body ++ after)) A.length (A.length + body.length) st d ft := by
  rw [repadLine_window A t body after j st.delimiter seps hj]
  have hl := mapAt_length j (relayLine1 st.delimiter st.delimiter seps) body
  conv => lhs; rw [← hl]
  rw [readData_window, readData_window]
  exact readBody_rel_ws o st st.delimiter d ft after hd hd (bodyRel_mapAt st.delimiter c seps body j hb hs hdata) hS hS' hC


/-- … the whole file: `repadLine` on data line `j` of a data section, ANY delimiter — numeric cells, `float()` ignoring the blanks
around the items met, the normal engine in effect or a delimiter other than COMMA.  The transformed document is readable with
the same steering values and the same parsed result, and is again a `Base`: this is the conclusion of `C09_step`, so the
transformation can be chained with the others (`C09_compose`). -/
theorem C09_repad_delimited_file (o : Opts) (nullOf : Option Str → Option Str) (ft : FloatTable) (htf : TildeNotFloat ft)
    (pre : List Str) (s₁ s₂ : List (Str × List Str)) (t : Str) (body : List Str) (j : Nat) (dlm : Dlm) (seps : List Str) (c : Nat)
    (r : FullRead) (hpre : ∀ x ∈ pre, Rd.isTitle x = false) (hw : Rd.WellFormed (s₁ ++ (t, body) :: s₂))
    (hk : isDataKind (kindOf t)) (hj : j < body.length) (hdata : ∀ l, body[j]? = some l → isSkip l = false)
    (hb : Base o nullOf ft (pre ++ Rd.flat (s₁ ++ (t, body) :: s₂)) r)
    (hdlm : (dtSteer nullOf r.steer).delimiter = dlm)
    (heng : effectiveEngine o.dat (dtSteer nullOf r.steer) = .normal ∨ dlm ≠ .comma)
    (hnb : NumBody dlm c body) (hs : SepsOK dlm seps)
    (hS : FtStripOn ft (normalTokens (readSubs dlm) dlm body))
    (hS' : FtStripOn ft (normalTokens (readSubs dlm) dlm (mapAt j (relayLine1 dlm dlm seps) body)))
    (hC : Converts ft (normalTokens (readSubs dlm) dlm body)) :
    ∃ r', Base o nullOf ft ((Transform.repadLine (pre.length + Rd.size s₁ + 1 + j) dlm seps).apply
        (pre ++ Rd.flat (s₁ ++ (t, body) :: s₂))) r' ∧ r'.steer = r.steer ∧ r'.parsed = r.parsed :=
  base_repad_delimited o nullOf ft htf pre s₁ s₂ t body j dlm seps c r hpre hw hk hj hdata hb hdlm heng hnb hs hS hS' hC

/-- … in terms of `readModel` -/
theorem C09_repad_delimited_readModel (o : Opts) (nullOf : Option Str → Option Str) (ft : FloatTable) (htf : TildeNotFloat ft)
    (pre : List Str) (s₁ s₂ : List (Str × List Str)) (t : Str) (body : List Str) (j : Nat) (dlm : Dlm) (seps : List Str) (c : Nat)
    (r : FullRead) (hpre : ∀ x ∈ pre, Rd.isTitle x = false) (hw : Rd.WellFormed (s₁ ++ (t, body) :: s₂))
    (hk : isDataKind (kindOf t)) (hj : j < body.length) (hdata : ∀ l, body[j]? = some l → isSkip l = false)
    (hb : Base o nullOf ft (pre ++ Rd.flat (s₁ ++ (t, body) :: s₂)) r)
    (hdlm : (dtSteer nullOf r.steer).delimiter = dlm)
    (heng : effectiveEngine o.dat (dtSteer nullOf r.steer) = .normal ∨ dlm ≠ .comma)
    (hnb : NumBody dlm c body) (hs : SepsOK dlm seps)
    (hS : FtStripOn ft (normalTokens (readSubs dlm) dlm body))
    (hS' : FtStripOn ft (normalTokens (readSubs dlm) dlm (mapAt j (relayLine1 dlm dlm seps) body)))
    (hC : Converts ft (normalTokens (readSubs dlm) dlm body)) :
    readModel o nullOf ft (repadLine (pre.length + Rd.size s₁ + 1 + j) dlm seps (pre ++ Rd.flat (s₁ ++ (t, body) :: s₂))) =
      readModel o nullOf ft (pre ++ Rd.flat (s₁ ++ (t, body) :: s₂)) := by
  obtain ⟨r', hb', _, hp⟩ :=
    C09_repad_delimited_file o nullOf ft htf pre s₁ s₂ t body j dlm seps c r hpre hw hk hj hdata hb hdlm heng hnb hs hS hS' hC
  unfold readModel
  have h1 := hb'.read
  simp only [Transform.apply] at h1
  rw [h1, hb.read]
  simp only [Except.map, hp]

/-! ### COMMA-delimited windows and genfromtxt -/

/-- GENFROMTXT RAISES on a COMMA window: `1,2` is one token for `str.split()` and — the hypothesis `CommaNotFloat ft`, true of
Python's `float()` — not a number.  So a window with a data line of two or more numeric cells is read by the normal engine
whatever engine is requested, and `AgreeAlone` (the hypothesis of `C09_redelim_readData_agree`) holds of it. -/
theorem C09_redelim_comma_numpy_raises (o : DataOpts) (st : Steer) (d : Nat) (ft : FloatTable) (hcf : CommaNotFloat ft) (c : Nat)
    (body : List Str) (hb : NumBody .comma c body) (hc : 2 ≤ c) (hd : ∃ l ∈ body, isSkip l = false) :
    (∀ after, numpyEngineLines ft body.length (body ++ after) = none) ∧
    (∀ after, readBody o st d ft body after = normalRead o st d ft body) ∧ AgreeAlone o st d ft body := by
  have hN := numBody_numBodyD hb
  refine ⟨numpy_raises_comma ft hcf hN hc hd, readBody_comma o st d ft hcf hN hc hd, ?_⟩
  unfold AgreeAlone
  rw [readBody_comma o st d ft hcf hN hc hd]

/-- COMMA → COMMA (re-padding every line, or `redelim` to the same delimiter), ANY engine: the same result (from the normal
engine on both sides) -/
theorem C09_redelim_readData_comma (o : DataOpts) (st : Steer) (d : Nat) (ft : FloatTable) (hcf : CommaNotFloat ft) (c : Nat)
    (seps : List Str) (body : List Str) (hdl : st.delimiter = .comma) (hc : 2 ≤ c) (hd : ∃ l ∈ body, isSkip l = false)
    (hb : NumBody st.delimiter c body)
    (hS : FtStripOn ft (normalTokens (readSubs st.delimiter) st.delimiter body))
    (hS' : FtStripOn ft (normalTokens (readSubs .comma) .comma (relayBody st.delimiter .comma seps body)))
    (hC : Converts ft (normalTokens (readSubs st.delimiter) st.delimiter body))
    (A A' : List Str) (t t' : Str) (after after' : List Str) :
    readData o (A' ++ t' :: (relayBody st.delimiter .comma seps body ++ after')) A'.length
        (A'.length + (relayBody st.delimiter .comma seps body).length) (withDlm st .comma) d ft =
      readData o (A ++ t :: (body ++ after)) A.length (A.length + body.length) st d ft := by
  have hrel := bodyRel_relayBody st.delimiter .comma c seps body hb trivial
  have hl := bodyRel_left hrel
  rw [hdl] at hl
  rw [readData_window, readData_window, readBody_comma o st d ft hcf hl hc hd,
    readBody_comma o (withDlm st .comma) d ft hcf (bodyRel_right hrel) hc (bodyRel_data hrel hd)]
  exact normalRead_rel o st .comma d ft hrel hS hS' hC

/-! ## 5. the whole file, given what the header-level reader returns -/

/-- HEADER LEVEL, the body: re-laying the body of a data section (numeric cells) is invisible to the header-level reader — the same
sections, steering values and data windows -/
theorem C09_redelim_header_body (o : Rd.ReadOpts) (pre : List Str) (s₁ s₂ : List (Str × List Str)) (t : Str) (body : List Str)
    (frm to : Dlm) (c : Nat) (seps : List Str) (hpre : ∀ x ∈ pre, Rd.isTitle x = false)
    (hw : Rd.WellFormed (s₁ ++ (t, body) :: s₂)) (hk : isDataKind (kindOf t)) (hb : NumBody frm c body) (hs : SepsOK to seps)
    (h : Rd.RHeader) (hr : Rd.readLines o (pre ++ Rd.flat (s₁ ++ (t, body) :: s₂)) = .ok h) :
    Rd.readLines o (pre ++ Rd.flat (s₁ ++ (t, relayBody frm to seps body) :: s₂)) = .ok h :=
  readLines_relayBody o pre s₁ s₂ t body frm to c seps hpre hw hk hb hs h hr

theorem dlmOf_dlmName (to : Dlm) : dlmOf (some (dlmName to)) = to := by
  cases to <;> decide

/-- WHOLE FILE, DATA PART. `readFull` = the header-level reader `Rd.readLines`, then `readData` on every data window it reports.
GIVEN what `Rd.readLines` returns for the original document and for the document `redelim` produces — one data window (the
re-delimited one) in each, the steering values equal but for the delimiter, now `to`, the same number of declared curves — the
two files are readable and their data sections read to the same result.  (That the header-level reader does return this for a
~Version section whose DLM item was replaced / inserted is NOT proved in general; it is checked by evaluation in the example.) -/
theorem C09_redelim_file_of_header (o : Opts) (nullOf : Option Str → Option Str) (ft : FloatTable) (to : Dlm) (c : Nat)
    (seps : List Str) (body : List Str) (A : List Str) (t : Str) (after : List Str) (vk : Nat) (replace : Bool)
    (hvk : vk ≤ A.length) (hrep : replace = true → vk < A.length) (h h' : Rd.RHeader) (ttl ttl' : Str)
    (hr : Rd.readLines o.hdr (A ++ t :: (body ++ after)) = .ok h)
    (hr' : Rd.readLines o.hdr
      (redelim A.length (A.length + body.length) vk replace (dlmOf h.steer.dlm) to seps (A ++ t :: (body ++ after))) = .ok h')
    (hdata : h.data = [(A.length, A.length + body.length, ttl)])
    (hdata' : h'.data = [((redelimHead vk replace to A).length, (redelimHead vk replace to A).length + body.length, ttl')])
    (hsteer : h'.steer = { h.steer with dlm := some (dlmName to) })
    (hdecl : declaredCount h'.sections = declaredCount h.sections)
    (he : effectiveEngine o.dat (dtSteer nullOf h.steer) = .normal)
    (hb : NumBody (dlmOf h.steer.dlm) c body) (hs : SepsOK to seps)
    (hS : FtStripOn ft (normalTokens (readSubs (dlmOf h.steer.dlm)) (dlmOf h.steer.dlm) body))
    (hS' : FtStripOn ft (normalTokens (readSubs to) to (relayBody (dlmOf h.steer.dlm) to seps body)))
    (hC : Converts ft (normalTokens (readSubs (dlmOf h.steer.dlm)) (dlmOf h.steer.dlm) body)) :
    ∃ r r', readFull o nullOf ft (A ++ t :: (body ++ after)) = .ok r ∧
      readFull o nullOf ft
        (redelim A.length (A.length + body.length) vk replace (dlmOf h.steer.dlm) to seps (A ++ t :: (body ++ after))) = .ok r' ∧
      r.sections = h.sections ∧ r'.sections = h'.sections ∧ r'.steer = { r.steer with dlm := some (dlmName to) } ∧
      r'.data.map (·.res) = r.data.map (·.res) := by
  have hst : dtSteer nullOf h'.steer = withDlm (dtSteer nullOf h.steer) to := by
    rw [hsteer]
    simp only [dtSteer, withDlm, dlmOf_dlmName]
  have hw := C09_redelim_window o.dat (dtSteer nullOf h.steer) (declaredCount h.sections) ft to c seps body he hb hs hS hS' hC
    A t after vk replace hvk hrep
  refine ⟨_, _, by unfold readFull; rw [hr], by unfold readFull; rw [hr'], rfl, rfl, hsteer, ?_⟩
  simp only [hdata, hdata', List.map_cons, List.map_nil, hst, hdecl]
  exact congrArg (fun x => [x]) hw.2

/-! ## the hypotheses of the window level are needed -/

def rdFtPad : FloatTable := [(c09r "1 ", c09r "x"), (c09r "1", c09r "a1"), (c09r "2", c09r "a2")]
def rdFtNo1 : FloatTable := [(c09r "2", c09r "a2")]

/-- `FtStripOn` is needed: a table that does not treat `"1 "` as `"1"` tells `1 ,2` from `1,2` (all items convert) -/
theorem C09_redelim_ftStrip_needed :
    NumBody .comma 2 [c09r "1 ,2\n"] ∧ Converts rdFtPad (normalTokens (readSubs .comma) .comma [c09r "1 ,2\n"]) ∧
    ¬ FtStripOn rdFtPad (normalTokens (readSubs .comma) .comma [c09r "1 ,2\n"]) ∧
    relayBody .comma .comma [] [c09r "1 ,2\n"] = [c09r "1,2\n"] ∧
    normalEngineLines rdFtPad (readSubs .comma) .comma 2 [c09r "1 ,2\n"] = .ok [.floats [c09r "x"], .floats [c09r "a2"]] ∧
    normalEngineLines rdFtPad (readSubs .comma) .comma 2 [c09r "1,2\n"] = .ok [.floats [c09r "a1"], .floats [c09r "a2"]] := by
  refine ⟨by decide, by unfold Converts; decide, by unfold FtStripOn; decide, by decide, by rfl, by rfl⟩

/-- `Converts` is needed: an item `float()` rejects makes a TEXT column, and a text column keeps the padding -/
theorem C09_redelim_converts_needed :
    FtStripOn rdFtNo1 (normalTokens (readSubs .comma) .comma [c09r "1 ,2\n"]) ∧
    FtStripOn rdFtNo1 (normalTokens (readSubs .comma) .comma [c09r "1,2\n"]) ∧
    ¬ Converts rdFtNo1 (normalTokens (readSubs .comma) .comma [c09r "1 ,2\n"]) ∧
    normalEngineLines rdFtNo1 (readSubs .comma) .comma 2 [c09r "1 ,2\n"] = .ok [.text [c09r "1 "], .floats [c09r "a2"]] ∧
    normalEngineLines rdFtNo1 (readSubs .comma) .comma 2 [c09r "1,2\n"] = .ok [.text [c09r "1"], .floats [c09r "a2"]] := by
  refine ⟨by unfold FtStripOn; decide, by unfold FtStripOn; decide, by unfold Converts; decide, by rfl, by rfl⟩

def rdFt14 : FloatTable := [(c09r "1", c09r "a1"), (c09r "2", c09r "a2"), (c09r "3", c09r "a3"), (c09r "4", c09r "a4")]
def rdStComma : Steer := ⟨true, c09r "NO", none, .comma⟩

/-- with the numpy engine requested, COMMA data are read by the normal engine (genfromtxt raises on `1,2`), the same data
re-delimited with blanks by genfromtxt: the curves are the same, the engine is not (`C09_redelim_readData_agree` speaks about
the curves) -/
theorem C09_redelim_engine_may_change :
    readData ⟨.numpy, .strict⟩ [c09r "~A\n", c09r "1,2\n", c09r "3,4\n"] 0 2 rdStComma 2 rdFt14 =
      .ok (.normal, [(.declared 0, .floats [c09r "a1", c09r "a3"]), (.declared 1, .floats [c09r "a2", c09r "a4"])]) ∧
    relayBody .comma .space [] [c09r "1,2\n", c09r "3,4\n"] = [c09r "1 2\n", c09r "3 4\n"] ∧
    readData ⟨.numpy, .strict⟩ [c09r "~A\n", c09r "1 2\n", c09r "3 4\n"] 0 2 (withDlm rdStComma .space) 2 rdFt14 =
      .ok (.numpy, [(.declared 0, .floats [c09r "a1", c09r "a3"]), (.declared 1, .floats [c09r "a2", c09r "a4"])]) :=
  ⟨by rfl, by decide, by rfl⟩

/-- the engines agree on a window on which genfromtxt raises (COMMA data of two or more columns, when `float()` rejects `1,2`) -/
theorem C09_redelim_agree_of_numpy_raises (o : DataOpts) (st : Steer) (d : Nat) (ft : FloatTable) (b : List Str)
    (h : numpyEngineLines ft b.length (b ++ []) = none) : AgreeAlone o st d ft b := by
  unfold AgreeAlone
  cases he : effectiveEngine o st with
  | normal => simp only [readBody, he]
  | numpy => rw [readBody_numpy_none o st d ft b [] he h]

/-! ## non-vacuity -/

def rdExBody : List Str := [c09r "1.5 , -2,3e5\n", c09r "# 2018-05-22 - note\n", c09r "4,5 ,6\r\n"]
def rdExHead : List Str := [c09r "~V\n", c09r "VERS. 2.0 : v\n", c09r "WRAP. NO : w\n", c09r "DLM. COMMA : d\n", c09r "~C\n", c09r "A.M : a\n",
  c09r "B.M : b\n", c09r "C.M : c\n"]
def rdExSeps : List Str := [c09r " \t", c09r "x\t\t"]
def rdExFt : FloatTable := [(c09r "1.5", c09r "v1"), (c09r "1.5 ", c09r "v1"), (c09r "-2", c09r "v2"), (c09r " -2", c09r "v2"), (c09r "3e5", c09r "v3"),
  (c09r "4", c09r "v4"), (c09r "4 ", c09r "v4"), (c09r "5", c09r "v5"), (c09r "5 ", c09r "v5"), (c09r "6", c09r "v6")]

/-- A COMMA-delimited data section (padding blanks, a comment line with hyphens, a CRLF line) re-delimited with TABs (padding
blanks before the TABs, a double TAB): all side conditions hold, the DLM item (line 3) is replaced, and — instance of
`C09_redelim_window` — the data section reads to the same three float curves. -/
example :
    NumBody .comma 3 rdExBody ∧ SepsOK .tab rdExSeps ∧
    FtStripOn rdExFt (normalTokens (readSubs .comma) .comma rdExBody) ∧
    FtStripOn rdExFt (normalTokens (readSubs .tab) .tab (relayBody .comma .tab rdExSeps rdExBody)) ∧
    Converts rdExFt (normalTokens (readSubs .comma) .comma rdExBody) ∧
    redelim 8 11 3 true .comma .tab rdExSeps (rdExHead ++ c09r "~A\n" :: (rdExBody ++ [])) =
      [c09r "~V\n", c09r "VERS. 2.0 : v\n", c09r "WRAP. NO : w\n", c09r "DLM. TAB : delimiter\n", c09r "~C\n", c09r "A.M : a\n",
        c09r "B.M : b\n", c09r "C.M : c\n", c09r "~A\n", c09r "1.5 \t-2\t\t3e5\n", c09r "# 2018-05-22 - note\n", c09r "4 \t5\t\t6\r\n"] ∧
    readData ⟨.normal, .strict⟩ (redelim 8 11 3 true .comma .tab rdExSeps (rdExHead ++ c09r "~A\n" :: (rdExBody ++ []))) 8 11
        (withDlm rdStComma .tab) 3 rdExFt =
      readData ⟨.normal, .strict⟩ (rdExHead ++ c09r "~A\n" :: (rdExBody ++ [])) 8 11 rdStComma 3 rdExFt ∧
    readData ⟨.normal, .strict⟩ (rdExHead ++ c09r "~A\n" :: (rdExBody ++ [])) 8 11 rdStComma 3 rdExFt =
      .ok (.normal, [(.declared 0, .floats [c09r "v1", c09r "v4"]), (.declared 1, .floats [c09r "v2", c09r "v5"]),
        (.declared 2, .floats [c09r "v3", c09r "v6"])]) := by
  have h1 : NumBody .comma 3 rdExBody := by decide
  have h2 : SepsOK .tab rdExSeps := by decide
  have h3 : FtStripOn rdExFt (normalTokens (readSubs .comma) .comma rdExBody) := by unfold FtStripOn; decide
  have h4 : FtStripOn rdExFt (normalTokens (readSubs .tab) .tab (relayBody .comma .tab rdExSeps rdExBody)) := by
    unfold FtStripOn; decide
  have h5 : Converts rdExFt (normalTokens (readSubs .comma) .comma rdExBody) := by unfold Converts; decide
  refine ⟨h1, h2, h3, h4, h5, by decide, ?_, by rfl⟩
  exact (C09_redelim_window ⟨.normal, .strict⟩ rdStComma 3 rdExFt .tab 3 rdExSeps rdExBody (by rfl) h1 h2 h3 h4 h5 rdExHead (c09r "~A\n") []
    3 true (by decide) (by decide)).2


def rdExDoc : Doc := rdExHead ++ c09r "~A\n" :: (rdExBody ++ [])
def rdExOpts : Opts := ⟨⟨false, .preserve⟩, ⟨.normal, .strict⟩⟩

def rdExHdr (d : Doc) : Rd.RHeader :=
  match Rd.readLines rdExOpts.hdr d with
  | .ok h => h
  | .error _ => ⟨[], Rd.Steer.init, []⟩

/-- the header-level facts `C09_redelim_file_of_header` asks for hold of the example (by evaluation): both documents are
readable, one data window each, the steering values differ in the delimiter only, three declared curves -/
theorem C09_redelim_example_header :
    Rd.readLines rdExOpts.hdr rdExDoc = .ok (rdExHdr rdExDoc) ∧
    Rd.readLines rdExOpts.hdr (redelim 8 11 3 true .comma .tab rdExSeps rdExDoc) = .ok (rdExHdr (redelim 8 11 3 true .comma .tab rdExSeps rdExDoc)) ∧
    (rdExHdr rdExDoc).data = [(8, 11, c09r "~A")] ∧ (rdExHdr (redelim 8 11 3 true .comma .tab rdExSeps rdExDoc)).data = [(8, 11, c09r "~A")] ∧
    (rdExHdr rdExDoc).steer.dlm = some (c09r "COMMA") ∧
    (rdExHdr (redelim 8 11 3 true .comma .tab rdExSeps rdExDoc)).steer = { (rdExHdr rdExDoc).steer with dlm := some (dlmName .tab) } ∧
    declaredCount (rdExHdr (redelim 8 11 3 true .comma .tab rdExSeps rdExDoc)).sections = declaredCount (rdExHdr rdExDoc).sections := by
  refine ⟨by rfl, by rfl, by rfl, by rfl, by rfl, by rfl, by rfl⟩

def rdExRead : FullRead :=
  match readFull rdExOpts (fun _ => none) rdExFt rdExDoc with
  | .ok r => r
  | .error _ => ⟨[], Rd.Steer.init, []⟩

theorem C09_redelim_example_tilde : TildeNotFloat rdExFt := by
  intro t ht
  cases t with
  | nil => simp at ht
  | cons c cs =>
    simp only [List.head?_cons, Option.some.injEq] at ht
    subst ht
    rfl

/-- whole file, `repadLine` on a COMMA-delimited data line (instance of `C09_repad_delimited_readModel`): the first data row
`1.5 , -2,3e5` re-padded to `1.5 ,-2,3e5` -/
example :
    repadLine 9 .comma [c09r " ,"] rdExDoc =
      rdExHead ++ [c09r "~A\n", c09r "1.5 ,-2,3e5\n", c09r "# 2018-05-22 - note\n", c09r "4,5 ,6\r\n"] ∧
    readModel rdExOpts (fun _ => none) rdExFt (repadLine 9 .comma [c09r " ,"] rdExDoc) = readModel rdExOpts (fun _ => none) rdExFt rdExDoc := by
  refine ⟨by decide, ?_⟩
  have hb : Base rdExOpts (fun _ => none) rdExFt rdExDoc rdExRead :=
    ⟨by rfl, fun tb _ _ => agreeAlone_of_normal _ _ _ _ _ (by rfl)⟩
  exact C09_repad_delimited_readModel rdExOpts (fun _ => none) rdExFt C09_redelim_example_tilde []
    [(c09r "~V\n", [c09r "VERS. 2.0 : v\n", c09r "WRAP. NO : w\n", c09r "DLM. COMMA : d\n"]),
     (c09r "~C\n", [c09r "A.M : a\n", c09r "B.M : b\n", c09r "C.M : c\n"])] [] (c09r "~A\n") rdExBody 0 .comma [c09r " ,"] 3 rdExRead
    (by intro x hx; cases hx) (by unfold Rd.WellFormed; decide) (by decide) (by decide) (by decide) hb (by rfl) (Or.inl (by rfl)) (by decide) trivial
    (by unfold FtStripOn; decide) (by unfold FtStripOn; decide) (by unfold Converts; decide)

end Lasio.Tf

#print axioms Lasio.Tf.C09_redelim_NumCells_iff
#print axioms Lasio.Tf.C09_redelim_NumBody_iff
#print axioms Lasio.Tf.C09_redelim_FtStrip_only_empty
#print axioms Lasio.Tf.C09_redelim_line
#print axioms Lasio.Tf.C09_redelim_line_readSubs
#print axioms Lasio.Tf.C09_redelim_line_subs_irrelevant
#print axioms Lasio.Tf.C09_redelim_line_sniff
#print axioms Lasio.Tf.C09_redelim_line_numpy
#print axioms Lasio.Tf.C09_redelim_tab_blank_between_tabs
#print axioms Lasio.Tf.C09_redelim_subsOK_needed
#print axioms Lasio.Tf.C09_redelim_empty_cell
#print axioms Lasio.Tf.C09_redelim_text_cell
#print axioms Lasio.Tf.C09_redelim_typed_column
#print axioms Lasio.Tf.C09_redelim_engine_of_tokens
#print axioms Lasio.Tf.C09_redelim_tokens
#print axioms Lasio.Tf.C09_redelim_engine
#print axioms Lasio.Tf.C09_redelim_sniff
#print axioms Lasio.Tf.C09_redelim_readData_normal
#print axioms Lasio.Tf.C09_redelim_readData_ws
#print axioms Lasio.Tf.C09_redelim_readData_agree
#print axioms Lasio.Tf.C09_redelim_window
#print axioms Lasio.Tf.C09_repad_delimited_line
#print axioms Lasio.Tf.C09_repad_delimited_readData
#print axioms Lasio.Tf.C09_repad_delimited_readData_ws
#print axioms Lasio.Tf.C09_repad_delimited_file
#print axioms Lasio.Tf.C09_repad_delimited_readModel
#print axioms Lasio.Tf.C09_redelim_comma_numpy_raises
#print axioms Lasio.Tf.C09_redelim_readData_comma
#print axioms Lasio.Tf.C09_redelim_header_body
#print axioms Lasio.Tf.C09_redelim_file_of_header
#print axioms Lasio.Tf.C09_redelim_example_header
#print axioms Lasio.Tf.C09_redelim_ftStrip_needed
#print axioms Lasio.Tf.C09_redelim_converts_needed
#print axioms Lasio.Tf.C09_redelim_engine_may_change
#print axioms Lasio.Tf.C09_redelim_agree_of_numpy_raises
