import LasioProofs.Lemmas.FileRoundTrip
import LasioProofs.Lemmas.CycleDataLemmas
/-
C01 + C03 at WHOLE-FILE level — the text of one `write` call, read back by the whole-file reader `Tf.readFull`
(`Rd.readLines` for the header, then `Dt.readData` on every data window with the steering values of that header).

THE DOCUMENT.  `Wo.writeObj` returns `hl.1 ++ dl`: the header lines `hl.1` of `Wr.headerLines v wrap header_width (toWLas o2)` (`o2` =
the object after `prepare`: refresh of STRT/STOP/STEP, units) followed by `dl = Dw.dataLines (dataCfg cfg) null mnemonics rows`
= the `~A` line `hdr` and the body lines, all without terminator; "each followed by a newline in the file".  So the document
`readFull` takes is `Fr.fileDoc hlines hdr body = (hlines ++ hdr :: body).map (· ++ "\n")`.  The theorems are stated at that level:
`las : Wr.WLas` is the header object (after `prepare`) with `hH : Wr.headerLines version wrap w las = .ok (hlines, las')`, and
`wd : Rt.Written cfg null mn rows c n hdr body` is the data section (a supported configuration `Dw.CfgOK`, a quiet NULL text,
`Dw.dataLines … = some (hdr :: body)`, a non-empty r × n matrix).  `C01_file_writeObj` connects them to `Wo.writeObj`: the text of a
successful `writeObj` IS such a pair (`Wo.writeObj_steps` / `Wo.writeObj_of_steps`).

HYPOTHESES.
  header   `hc : Cy.FileConf opts.hdr version wrap las` = the hypotheses of `C03_file` + no DLM item in ~Version (`C03_file` assumes
           it for `readLines`: the delimiter is then SPACE; a `DLM SPACE` item is NOT covered)
  data     `wd : Rt.Written …`;  `hn : null.head? ≠ some '~'` (a body line must not look like a title, `…_needs_null_no_tilde`);
           `hd : data_section_header = '~' :: a :: r` with `upperC a = 'A'` (the `~A` line must be a data title,
           `…_needs_data_title`; the default is `~ASCII`)
  the two halves fit:  WRAP = YES in the written header, or written with `wrap=False` and WRAP ≠ YES (`writeObj` guarantees one of
           the two); in the YES case the number of ~Curves items is the number of columns (`writeObj` refuses anything else);
           `nullOf` maps the text of the written NULL item to the float text `nv`.

THEOREMS.
  `C01_file`            (a) sections = `Cy.firstRead` (what `C03_file` states: the five sections, written items under `rdExpected`);
                        (b) steer = `Fr.fileSteer`: VERS = the version, WRAP / NULL = the value text of the single written WRAP /
                        NULL item (`Fr.steerVal`: `none` when there is none or several), DLM none;
                        (c) exactly one data window = (number of header lines, that + number of body lines), whose result is
                        `readData` on it with those steering values and `d` = number of written ~Curves items
  `C01_file_wrapYes`    … = `.ok (normal engine, assignCurves n (applyNull … (matrixColumns ft n (Rt.tokenRows c null rows))))`
  `C01_file_unwrapped`  … curves = `assignCurves d (applyNull … (matrixColumns ft n (Rt.tokenRows c null rows)))`, any engine
  `C01_file_samples`    in the words of the property: `n` curves, curve `j` is declared curve `j`, as many rows as the matrix,
                        cell (i, j) = `float()` of the printed token (`C01_value`: within half a unit of the last digit of the
                        sample), NaN iff the sample was NaN for j ≠ 0, the index column never NULL-ed
  `C01_file_writeObj`   the same for the text `Wo.writeObj` returns
NOT proved: `float()` itself (the table `ft`), `num()` on header values (the sections hold the value TEXTS), a DLM item,
~Other lines after the data section, text columns.
-/
namespace Lasio.Fr
open Lasio

/-- **Whole file, header + the data window.**  (a) the sections, (b) the steering values, (c) the one data window and what is
handed to `readData` for it. -/
theorem C01_file (opts : Tf.Opts) (nullOf : Option Str → Option Str) (ft : Dt.FloatTable)
    (version : String) (wrap : Option Bool) (w : Nat) (las las' : Wr.WLas)
    (hlines : List Str) (hH : Wr.headerLines version wrap w las = .ok (hlines, las'))
    (hc : Cy.FileConf opts.hdr version wrap las)
    {cfg : Dw.DataCfg} {null : Str} {mn : List Str} {rows : List (List Dw.F64)} {c : Dw.RowCfg} {n : Nat} {hdr : Str}
    {body : List Str} (wd : Rt.Written cfg null mn rows c n hdr body) (hn : null.head? ≠ some '~')
    (a : Char) (r : Str) (hd : cfg.dataSectionHeader = '~' :: a :: r) (ha : upperC a = 'A') :
    Tf.readFull opts nullOf ft (fileDoc hlines hdr body) = .ok
      ⟨Cy.firstRead opts.hdr version wrap las, fileSteer opts.hdr version wrap las,
       [⟨hlines.length, hlines.length + body.length,
         Dt.readData opts.dat (fileDoc hlines hdr body) hlines.length (hlines.length + body.length)
           (Tf.dtSteer nullOf (fileSteer opts.hdr version wrap las)) las.curves.length ft⟩]⟩ := by
  have hl := wd.lines
  unfold Dw.dataLines at hl
  rw [wd.rowCfg] at hl
  simp only at hl
  split at hl
  · rename_i h0 b0 hh hb
    simp only [Option.some.injEq, List.cons.injEq] at hl
    obtain ⟨rfl, rfl⟩ := hl
    obtain ⟨hT, hTd⟩ := dataTitle_ok c null _ _ _ _ _ _ hh a r hd ha
    exact readFull_file opts nullOf ft version wrap w las las' hlines hH hc _ _ hT hTd (body_notitle wd hn)
  · cases hl

/-- **WRAP = YES in the written header** (the file written with any `wrap`), as many ~Curves items as columns: the normal engine
returns the matrix of written tokens, column `j` assigned to curve `j`. -/
theorem C01_file_wrapYes (opts : Tf.Opts) (nullOf : Option Str → Option Str) (ft : Dt.FloatTable)
    (version : String) (wrap : Option Bool) (w : Nat) (las las' : Wr.WLas)
    (hlines : List Str) (hH : Wr.headerLines version wrap w las = .ok (hlines, las'))
    (hc : Cy.FileConf opts.hdr version wrap las)
    {cfg : Dw.DataCfg} {null : Str} {mn : List Str} {rows : List (List Dw.F64)} {c : Dw.RowCfg} {n : Nat} {hdr : Str}
    {body : List Str} (wd : Rt.Written cfg null mn rows c n hdr body) (hn : null.head? ≠ some '~')
    (a : Char) (r : Str) (hd : cfg.dataSectionHeader = '~' :: a :: r) (ha : upperC a = 'A')
    (hwy : steerVal opts.hdr "WRAP" (RH.versionCopy version wrap las) = some Dt.yesTxt)
    (hcur : las.curves.length = n) :
    Tf.readFull opts nullOf ft (fileDoc hlines hdr body) = .ok
      ⟨Cy.firstRead opts.hdr version wrap las, fileSteer opts.hdr version wrap las,
       [⟨hlines.length, hlines.length + body.length,
         .ok (.normal, Dt.assignCurves n (Dt.applyNull (opts.dat.nullPolicy == .strict)
           (nullOf (steerVal opts.hdr "NULL" (Wr.standardizeItems las.well)))
           (Dt.matrixColumns ft n (Rt.tokenRows c null rows))))⟩]⟩ := by
  rw [C01_file opts nullOf ft version wrap w las las' hlines hH hc wd hn a r hd ha, hcur]
  obtain ⟨h1, h2, h3⟩ := dtSteer_file nullOf opts.hdr version wrap las
  obtain ⟨h4, h5⟩ := h3 _ hwy
  obtain ⟨e, p⟩ := opts.dat
  rw [readData_file_wrapYes wd hlines e p _ ft h1 h4 h5, h2]

/-- **written with `wrap=False`, WRAP ≠ YES in the written header**: any engine, any NULL policy, any number of ~Curves items:
the curves are those of the matrix of written tokens. -/
theorem C01_file_unwrapped (opts : Tf.Opts) (nullOf : Option Str → Option Str) (ft : Dt.FloatTable)
    (version : String) (wrap : Option Bool) (w : Nat) (las las' : Wr.WLas)
    (hlines : List Str) (hH : Wr.headerLines version wrap w las = .ok (hlines, las'))
    (hc : Cy.FileConf opts.hdr version wrap las)
    {cfg : Dw.DataCfg} {null : Str} {mn : List Str} {rows : List (List Dw.F64)} {c : Dw.RowCfg} {n : Nat} {hdr : Str}
    {body : List Str} (wd : Rt.Written cfg null mn rows c n hdr body) (hn : null.head? ≠ some '~')
    (a : Char) (r : Str) (hd : cfg.dataSectionHeader = '~' :: a :: r) (ha : upperC a = 'A')
    (hwrap : cfg.wrap = false) (t : Str)
    (hwt : steerVal opts.hdr "WRAP" (RH.versionCopy version wrap las) = some t) (hne : t ≠ Dt.yesTxt) :
    ∃ res, Tf.readFull opts nullOf ft (fileDoc hlines hdr body) = .ok
      ⟨Cy.firstRead opts.hdr version wrap las, fileSteer opts.hdr version wrap las,
       [⟨hlines.length, hlines.length + body.length, res⟩]⟩ ∧
      res.map Prod.snd = .ok (Dt.assignCurves las.curves.length (Dt.applyNull (opts.dat.nullPolicy == .strict)
        (nullOf (steerVal opts.hdr "NULL" (Wr.standardizeItems las.well)))
        (Dt.matrixColumns ft n (Rt.tokenRows c null rows)))) := by
  refine ⟨_, C01_file opts nullOf ft version wrap w las las' hlines hH hc wd hn a r hd ha, ?_⟩
  obtain ⟨h1, h2, h3⟩ := dtSteer_file nullOf opts.hdr version wrap las
  obtain ⟨_, h5⟩ := h3 _ hwt
  obtain ⟨e, p⟩ := opts.dat
  rw [readData_file_unwrapped wd hwrap hlines e p _ _ ft h1 (by rw [h5]; exact hne), h2]

/-- **In the words of the property.**  `curves` = what the file-level theorems return under the strict NULL policy with the header
NULL `nv`, for `n` declared curves.  Same number of curves; curve `j` is declared curve `j` (its mnemonic is item `j` of the
re-read ~Curves section, the written one under the case map); every curve has as many samples as the matrix has rows; sample
(i, j) that is not NaN comes back as `float()` of its printed token `'%.Nf' % x` — whose decimal lies within half a unit of the
last digit of `x` (`C01_value`) —, for j ≠ 0 it comes back as NaN iff it was NaN (through the NULL marker), and the index column
is never NULL-ed (a NaN there comes back as the number NULL). -/
theorem C01_file_samples (ft : Dt.FloatTable) (null nv : Str) (c : Dw.RowCfg) (rows : List (List Dw.F64)) (n : Nat)
    (hrect : ∀ r ∈ rows, r.length = n) (htab : Rt.TableOK ft null nv c rows) (hclash : Rt.NoNullClash ft nv c rows)
    (curves : List (Dt.Slot × Dt.Column))
    (hcv : curves = Dt.assignCurves n (Dt.applyNull true (some nv) (Dt.matrixColumns ft n (Rt.tokenRows c null rows)))) :
    curves.length = n ∧
    (∀ j, j < n → ∃ col, curves[j]? = some (.declared j, col) ∧ col.length = rows.length) ∧
    ∀ i j row x, rows[i]? = some row → row[j]? = some x →
      (j ≠ 0 → (Dt.floatCell (curves.map Prod.snd) j i = some Dt.nanTxt ↔ x.isNaN = true)) ∧
      (j ≠ 0 → x.isNaN = false →
        Dt.floatCell (curves.map Prod.snd) j i = Dt.toFloat ft (Dw.fmtFixed (c.colFmt j).prec x)) ∧
      (j = 0 → Dt.floatCell (curves.map Prod.snd) j i = Dt.toFloat ft (Dw.cellToken null (c.colFmt 0) x)) ∧
      (∀ neg m e, x = .finite neg m e → ∃ q : Int, Dw.decOfTok (Dw.fmtFixed (c.colFmt j).prec x) = some (q, (c.colFmt j).prec) ∧
        2 * (q * 2 ^ (-e).toNat - Dw.sgn neg * m * 2 ^ e.toNat * 10 ^ (c.colFmt j).prec).natAbs ≤ 2 ^ (-e).toNat) := by
  have hlen : (Dt.applyNull true (some nv) (Dt.matrixColumns ft n (Rt.tokenRows c null rows))).length = n := by
    rw [Dt.applyNull_length, matrixColumns_length]
  obtain ⟨h1, h2, h3⟩ := assignCurves_square n _ hlen
  subst hcv
  refine ⟨h1, ?_, ?_⟩
  · intro j hj
    have hj' : j < (Dt.assignCurves n (Dt.applyNull true (some nv)
        (Dt.matrixColumns ft n (Rt.tokenRows c null rows)))).length := by rw [h1]; exact hj
    refine ⟨((Dt.assignCurves n (Dt.applyNull true (some nv)
        (Dt.matrixColumns ft n (Rt.tokenRows c null rows))))[j]).2, ?_, ?_⟩
    · have := h3 j hj
      rw [List.getElem?_eq_getElem hj'] at this ⊢
      simp only [Option.map_some, Option.some.injEq] at this
      rw [← this]
    · have hcol : (Dt.applyNull true (some nv) (Dt.matrixColumns ft n (Rt.tokenRows c null rows)))[j]? =
          some ((Dt.assignCurves n (Dt.applyNull true (some nv)
            (Dt.matrixColumns ft n (Rt.tokenRows c null rows))))[j]).2 := by
        conv => lhs; rw [← h2]
        rw [List.getElem?_map, List.getElem?_eq_getElem hj']; rfl
      have hs := Dt.C06_shape true (some nv) (Dt.matrixColumns ft n (Rt.tokenRows c null rows)) j
      rw [hcol] at hs
      cases hm : (Dt.matrixColumns ft n (Rt.tokenRows c null rows))[j]? with
      | none => rw [hm] at hs; cases hs
      | some col0 =>
        rw [hm] at hs
        simp only [Option.map_some, Option.some.injEq] at hs
        rw [hs, matrixColumns_col_length ft n _ j col0 hm]
        simp [Rt.tokenRows]
  · intro i j row x hi hx
    rw [h2]
    obtain ⟨m1, m2, m3⟩ := Dt.C06_roundtrip_mask ft null nv c rows n hrect htab hclash i j row x hi hx
    refine ⟨m1, m2, m3, ?_⟩
    intro neg m e hxe
    subst hxe
    exact Dw.C01_value _ neg m e

/-- **The text of `Wo.writeObj`.**  The steps of a successful `las.write(...)`: `v` the resolved version, `o2` the object after
`prepare`, `hl` the header lines of `toWLas o2`, `null` the NULL text, `hdr :: body` the data lines.  Then `writeObj` returns exactly
`hl.1 ++ hdr :: body`, and `readFull` of that text (each line followed by "\n") is what `C01_file` says for `las = toWLas o2`. -/
theorem C01_file_writeObj (opts : Tf.Opts) (nullOf : Option Str → Option Str) (ft : Dt.FloatTable)
    {wcfg : Wo.WriteCfg} {sd : Option Wo.F64} {o : Wo.WObj} {vsec : List Wo.OItem} {v : String} {o2 : Wo.WObj}
    {hl : List Str × Wr.WLas} {null : Str} {hdr : Str} {body : List Str}
    (hs : (o.data.length != o.curves.length || !Wo.sameLengths o.data) = false)
    (h1 : Wo.setWrap wcfg o = .ok vsec) (h2 : Wo.resolveVersion wcfg o.versionTr vsec = .ok v) (h3 : Wo.prepare sd o = .ok o2)
    (h4 : Wr.headerLines v wcfg.wrap wcfg.headerWidth (Wo.toWLas o2) = .ok hl)
    (h5 : Wo.nullText (Wo.afterHeader wcfg o2) = .ok null)
    (h6 : Dw.dataLines (Wo.dataCfg wcfg) null ((Wo.afterHeader wcfg o2).curves.map (·.session))
      (Wo.rowsOf (Wo.afterHeader wcfg o2).data) = some (hdr :: body))
    (hc : Cy.FileConf opts.hdr v wcfg.wrap (Wo.toWLas o2))
    {c : Dw.RowCfg} {n : Nat}
    (wd : Rt.Written (Wo.dataCfg wcfg) null ((Wo.afterHeader wcfg o2).curves.map (·.session))
      (Wo.rowsOf (Wo.afterHeader wcfg o2).data) c n hdr body)
    (hn : null.head? ≠ some '~')
    (a : Char) (r : Str) (hd : wcfg.dataSectionHeader = '~' :: a :: r) (ha : upperC a = 'A') :
    Wo.writeObj wcfg sd o = .ok (hl.1 ++ hdr :: body, Wo.afterHeader wcfg o2) ∧
    Tf.readFull opts nullOf ft (fileDoc hl.1 hdr body) = .ok
      ⟨Cy.firstRead opts.hdr v wcfg.wrap (Wo.toWLas o2), fileSteer opts.hdr v wcfg.wrap (Wo.toWLas o2),
       [⟨hl.1.length, hl.1.length + body.length,
         Dt.readData opts.dat (fileDoc hl.1 hdr body) hl.1.length (hl.1.length + body.length)
           (Tf.dtSteer nullOf (fileSteer opts.hdr v wcfg.wrap (Wo.toWLas o2))) (Wo.toWLas o2).curves.length ft⟩]⟩ :=
  ⟨Wo.writeObj_of_steps hs h1 h2 h3 h4 h5 h6,
   C01_file opts nullOf ft v wcfg.wrap wcfg.headerWidth (Wo.toWLas o2) hl.2 hl.1 h4 hc wd hn a r hd ha⟩

/-! ## non-vacuity: a small LASFile, written and read back -/

def fs (s : String) : Str := s.toList
def fVers : Wr.WItem := Wr.mkWItem (fs "VERS") [] (.num (fs "2.0") false) (fs "old")
def fNullIt : Wr.WItem := Wr.mkWItem (fs "Null") [] (.num (fs "-999.25") false) (fs "null value")
def fDept : Wr.WItem := Wr.mkWItem (fs "DEPT") (fs "M") (.str []) (fs "depth")
def fGr : Wr.WItem := Wr.mkWItem (fs "Gr") (fs "API") (.str []) (fs "gamma")
/-- STRT / STOP / STEP as `update_start_stop_step` leaves them (`'%.5f'` strings), unit as `update_units_from_index_curve` does -/
def fStrt : Wr.WItem := Wr.mkWItem (fs "STRT") (fs "M") (.str (fs "1.00000")) (fs "start")
def fStop : Wr.WItem := Wr.mkWItem (fs "STOP") (fs "M") (.str (fs "2.00000")) (fs "stop")
def fStep : Wr.WItem := Wr.mkWItem (fs "STEP") (fs "M") (.str (fs "1.00000")) (fs "step")
def fLas : Wr.WLas := ⟨[fVers, Wr.wrapItem true], true, [fStrt, fStop, fStep, fNullIt], [fDept, fGr], [], fs "note"⟩
/-- DEPT 1.0, 2.0; GR 0.123456 (binary64), NaN -/
def fRows : List (List Dw.F64) :=
  [[.finite false 1 0, .finite false 8895942329546431 (-56)], [.finite false 1 1, .nan]]
def fCfg : Dw.DataCfg := ⟨false, fs "%.2f", [], none, [' '], [' '], 80, 20, fs "~ASCII", false⟩
def fRowCfg : Dw.RowCfg := ⟨⟨none, 2⟩, [], 10, [' '], [' ']⟩
def fNull : Str := fs "-999.25"
def fHdr : Str := fs "~ASCII -------------"
def fBody : List Str := [fs "       1.00       0.12", fs "       2.00    -999.25"]
def fH1 : Str := fs "0x1.0000000000000p+0"
def fH2 : Str := fs "0x1.0000000000000p+1"
def fH012 : Str := fs "0x1.eb851eb851eb8p-4"
def fHNull : Str := fs "-0x1.f3a0000000000p+9"
def fFt : Dt.FloatTable := [(fs "1.00", fH1), (fs "2.00", fH2), (fs "0.12", fH012), (fs "-999.25", fHNull)]
def fNullOf (t : Option Str) : Option Str := if t = some (fs "-999.25") then some fHNull else none
def fOpts : Tf.Opts := ⟨⟨false, .upper⟩, ⟨.numpy, .strict⟩⟩

theorem fConf (kind : SecName) (it : Wr.WItem)
    (h : it = fVers ∨ it = fNullIt ∨ it = fDept ∨ it = fGr ∨ it = fStrt ∨ it = fStop ∨ it = fStep) :
    Wr.TextConf kind it := by
  rcases h with rfl | rfl | rfl | rfl | rfl | rfl | rfl <;>
  exact ⟨by decide, by decide, by decide, by decide, by decide, by decide, by decide, by decide, by decide,
    by decide, by decide, (fun _ => by decide), by decide, by decide⟩

theorem fFileConf : Cy.FileConf fOpts.hdr "2.0" (some false) fLas := by
  have hvc : ∀ it ∈ fLas.version, Wr.TextConf .version it := by
    intro it hit
    have : it = fVers ∨ it = Wr.wrapItem true := by simpa [fLas] using hit
    rcases this with rfl | rfl
    · exact fConf _ _ (Or.inl rfl)
    · exact Wr.conf_wrapItem true
  have hvm : ∀ it ∈ fLas.version, it.orig.head? ≠ some '#' ∧ it.orig.head? ≠ some '~' := by decide
  obtain ⟨hcv, hmv⟩ := Wr.C03_versionCopy_conf "2.0" (some false) fLas hvc hvm
  refine ⟨hcv, ?_, ?_, ?_, hmv, by decide, by decide, by decide, ?_,
    (show ∀ l ∈ Wr.splitlines fLas.other, (strip l).head? ≠ some '~' by decide +kernel), by decide +kernel⟩
  · intro it hit
    have : it = fStrt ∨ it = fStop ∨ it = fStep ∨ it = fNullIt := by
      simpa [fLas, Wr.standardizeItems, fNullIt, fStrt, fStop, fStep, fs, Wr.standardizeValue, Wr.mkWItem, Wr.WVal.num,
        Wr.WVal.str] using hit
    rcases this with h | h | h | h
    · exact fConf _ _ (Or.inr (Or.inr (Or.inr (Or.inr (Or.inl h)))))
    · exact fConf _ _ (Or.inr (Or.inr (Or.inr (Or.inr (Or.inr (Or.inl h))))))
    · exact fConf _ _ (Or.inr (Or.inr (Or.inr (Or.inr (Or.inr (Or.inr h))))))
    · exact fConf _ _ (Or.inr (Or.inl h))
  · intro it hit
    have : it = fDept ∨ it = fGr := by simpa [fLas] using hit
    rcases this with h | h
    · exact fConf _ _ (Or.inr (Or.inr (Or.inl h)))
    · exact fConf _ _ (Or.inr (Or.inr (Or.inr (Or.inl h))))
  · intro it hit
    simp [fLas, Wr.standardizeItems] at hit
  · exact ⟨Wr.mkWItem (fs "VERS") [] (.num (fs "2.0") false) (fs "CWLS log ASCII Standard -VERSION 2.0"),
      by decide +kernel, by decide⟩

theorem fWritten : Rt.Written fCfg fNull [fs "DEPT", fs "GR"] fRows fRowCfg 2 fHdr fBody :=
  ⟨by rfl, ⟨by decide, by decide, by decide, ⟨by decide, by decide⟩⟩, Rt.quietTok_of_check _ (by decide),
    by decide, by decide, by decide, by decide⟩

/-- **the explicit re-read of a concrete file**: version 2.0, `wrap=False`, `%.2f`, `mnemonic_case="upper"`, numpy engine.
The sections, the steering values (VERS 2.0, WRAP NO, NULL -999.25, no DLM), one data window, two curves of two samples:
DEPT = 1.0, 2.0 and GR = 0.12 (0.123456 within half a unit of the second decimal), NaN. -/
example (hlines : List Str) (las' : Wr.WLas) (hH : Wr.headerLines "2.0" (some false) 20 fLas = .ok (hlines, las')) :
    ∃ res, Tf.readFull fOpts fNullOf fFt (fileDoc hlines fHdr fBody) = .ok
        ⟨Cy.firstRead fOpts.hdr "2.0" (some false) fLas, fileSteer fOpts.hdr "2.0" (some false) fLas,
         [⟨hlines.length, hlines.length + 2, res⟩]⟩ ∧
      res.map Prod.snd = .ok [(.declared 0, .floats [fH1, fH2]), (.declared 1, .floats [fH012, Dt.nanTxt])] ∧
      fileSteer fOpts.hdr "2.0" (some false) fLas = ⟨some (fs "2.0"), some (fs "NO"), some (fs "-999.25"), none⟩ ∧
      Cy.secItems Rd.kCurves (Cy.firstRead fOpts.hdr "2.0" (some false) fLas) =
        [⟨fs "DEPT", fs "M", [], fs "depth"⟩, ⟨fs "GR", fs "API", [], fs "gamma"⟩] ∧
      Cy.secItems Rd.kWell (Cy.firstRead fOpts.hdr "2.0" (some false) fLas) =
        [⟨fs "STRT", fs "M", fs "1.00000", fs "start"⟩, ⟨fs "STOP", fs "M", fs "2.00000", fs "stop"⟩,
         ⟨fs "STEP", fs "M", fs "1.00000", fs "step"⟩, ⟨fs "NULL", [], fs "-999.25", fs "null value"⟩] := by
  obtain ⟨res, h1, h2⟩ := C01_file_unwrapped fOpts fNullOf fFt "2.0" (some false) 20 fLas las' hlines hH fFileConf fWritten
    (by decide) 'A' (fs "SCII") rfl (by decide) rfl (fs "NO") (by decide +kernel) (by decide)
  refine ⟨res, h1, ?_, by decide +kernel, by decide +kernel, by decide +kernel⟩
  rw [h2]
  decide +kernel

theorem fTokens : Rt.tokenRows fRowCfg fNull fRows = [[fs "1.00", fs "0.12"], [fs "2.00", fs "-999.25"]] := by decide

theorem fTable : Rt.TableOK fFt fNull fHNull fRowCfg fRows := by
  refine ⟨by decide, by decide, ?_, ?_⟩
  · rw [fTokens]; unfold Dt.Numeric; decide
  · intro N x _ h
    simp only [Dt.toFloat, fFt, List.lookup] at h
    repeat (split at h; (revert h; decide))
    cases h

theorem fNoClash : Rt.NoNullClash fFt fHNull fRowCfg fRows := by
  intro row hrow j x hj hx hnan v hv
  have hm := Cd.mem_cellsOf fRows row hrow j x hx
  simp only [Cd.cellsOf, Cd.idxFrom, fRows, List.flatMap_cons, List.flatMap_nil, List.append_nil, List.cons_append,
    List.nil_append, List.mem_cons, Prod.mk.injEq, List.not_mem_nil, or_false] at hm
  rcases hm with ⟨rfl, rfl⟩ | ⟨rfl, rfl⟩ | ⟨rfl, rfl⟩ | ⟨rfl, rfl⟩
  · exact absurd rfl hj
  · have : Dt.toFloat fFt (Dw.fmtFixed (fRowCfg.colFmt (0 + 1)).prec (.finite false 8895942329546431 (-56))) = some fH012 := by
      decide
    rw [this] at hv
    cases hv
    decide
  · exact absurd rfl hj
  · cases hnan

/-- the corollary applies to the example: two curves of two samples; GR sample 0 is `float("0.12")`, GR sample 1 is NaN -/
example :
    let curves := Dt.assignCurves 2 (Dt.applyNull true (some fHNull) (Dt.matrixColumns fFt 2 (Rt.tokenRows fRowCfg fNull fRows)))
    curves.length = 2 ∧ Dt.floatCell (curves.map Prod.snd) 1 0 = some fH012 ∧
    Dt.floatCell (curves.map Prod.snd) 1 1 = some Dt.nanTxt := by
  intro curves
  obtain ⟨h1, _, h3⟩ := C01_file_samples fFt fNull fHNull fRowCfg fRows 2 (by decide) fTable fNoClash curves rfl
  refine ⟨h1, ?_, ?_⟩
  · exact ((h3 0 1 _ _ rfl rfl).2.1 (by decide) rfl).trans (by decide)
  · exact ((h3 1 1 _ _ rfl rfl).1 (by decide)).mpr rfl

/-- the concrete document -/
def fDoc : Tf.Doc :=
  match Wr.headerLines "2.0" (some false) 20 fLas with
  | .ok (hl, _) => fileDoc hl fHdr fBody
  | .error _ => []

/-- the same by running the two models (no theorem involved) -/
example :
    ((Tf.readFull fOpts fNullOf fFt fDoc).toOption.map fun r => r.steer) =
      some ⟨some (fs "2.0"), some (fs "NO"), some (fs "-999.25"), none⟩ ∧
    ((Tf.readFull fOpts fNullOf fFt fDoc).toOption.map fun r => r.data.map fun d => (d.first, d.last)) = some [(14, 16)] ∧
    ((Tf.readFull fOpts fNullOf fFt fDoc).toOption.map fun r => r.data.map fun d => d.res.toOption.map Prod.snd) =
      some [some [(.declared 0, .floats [fH1, fH2]), (.declared 1, .floats [fH012, Dt.nanTxt])]] := by
  refine ⟨by decide +kernel, by decide +kernel, by decide +kernel⟩

/-! ## the hypotheses are needed -/

/-- `hn` is needed: with the NULL text `~9` a NaN in the index column is written as a line that starts with `~9` — a section title
for the reader (the data section then has no line, and the line opens a seventh section).  All of `Rt.Written` holds. -/
theorem C01_file_counterexample_needs_null_no_tilde :
    Rt.Written fCfg (fs "~9") [fs "DEPT", fs "GR"] [[.nan, .finite false 1 0]] fRowCfg 2 fHdr [fs "         ~9       1.00"] ∧
    Rd.isTitle (fs "         ~9       1.00") = true ∧
    (match Wr.headerLines "2.0" (some false) 20 fLas with
     | .ok (hl, _) => (Rd.findSections (fileDoc hl fHdr [fs "         ~9       1.00"])).map (·.2.2)
     | .error _ => []) =
      [fs "~Version -----------", fs "~Well --------------", fs "~Curve Information -", fs "~Params ------------",
       fs "~Other -------------", fs "~ASCII -------------", fs "~9       1.00"] := by
  refine ⟨⟨by rfl, ⟨by decide, by decide, by decide, ⟨by decide, by decide⟩⟩, Rt.quietTok_of_check _ (by decide),
    by decide, by decide, by decide, by decide⟩, by decide +kernel, by decide +kernel⟩

/-- the data-title hypothesis is needed: with `data_section_header="~B"` the `~B …` line is the title of a header-items section:
the reader reports NO data window and parses the data lines as header items -/
theorem C01_file_counterexample_needs_data_title :
    Dw.dataLines { fCfg with dataSectionHeader := fs "~B" } fNull [fs "DEPT", fs "GR"] fRows =
      some (fs "~B -----------------" :: fBody) ∧
    Rd.sectionType (Rd.sline (fs "~B -----------------")) = .items ∧
    (match Wr.headerLines "2.0" (some false) 20 fLas with
     | .ok (hl, _) =>
       (Tf.readFull fOpts fNullOf fFt (fileDoc hl (fs "~B -----------------") fBody)).toOption.map fun r =>
         (r.data.length, r.sections.map (·.1))
     | .error _ => none) =
      some (0, [Rd.kVersion, Rd.kWell, Rd.kCurves, Rd.kParameter, Rd.kOther, fs "B -----------------"]) := by
  refine ⟨by decide, by decide +kernel, by decide +kernel⟩

end Lasio.Fr

#print axioms Lasio.Fr.C01_file
#print axioms Lasio.Fr.C01_file_wrapYes
#print axioms Lasio.Fr.C01_file_unwrapped
#print axioms Lasio.Fr.C01_file_samples
#print axioms Lasio.Fr.C01_file_writeObj
#print axioms Lasio.Fr.fFileConf
#print axioms Lasio.Fr.fWritten
#print axioms Lasio.Fr.C01_file_counterexample_needs_null_no_tilde
#print axioms Lasio.Fr.C01_file_counterexample_needs_data_title
