import LasioModel.WriteObj
import LasioProofs.Lemmas.WriteObjLemmas
/-
C16 — `write()` is deterministic, leaves the data alone and states STRT/STOP/STEP truthfully.

Model: `Lasio.Wo.writeObj cfg stepDiff o = .ok (lines, o')` — one call of `las.write(f, **cfg)` (STRT/STOP/STEP left to
lasio) on the object `o`: the lines written and the object afterwards.  `stepDiff` is Python's `index[1] - index[0]`.

* `C16_closed_form`    the object afterwards, in closed form
* `C16_frame`          field-by-field frame condition (`WriteFrame`)
* `C16_frame_version`  with a unique WRAP item only that item of ~Version changes
* `C16_version_independent`, `C16_vers_untouched`   `version=` never reaches the object; the VERS item stays
* `C16_idempotent`     a second write with the same options: same lines, same object
* `C16_refresh_iff`    exactly when STRT/STOP/STEP are recomputed
* `C16_truth`, `C16_units`, `C16_no_refresh`   what the three items hold afterwards
-/
namespace Lasio.Wo
open Lasio

/-! ## closed form of the object afterwards -/

/-- the ~Version section after the call -/
def versionAfter (cfg : WriteCfg) (o : WObj) : List OItem :=
  match cfg.wrap with
  | none => o.version
  | some w => oSetItem o.versionTr sWRAP (wrapOItem w) o.version

/-- **Closed form.**  A successful `write` leaves: ~Version with the WRAP item (re)placed when `wrap=` was given; ~Well
transformed position by position by `wellItem` (`wellT`: the three values when the refresh was decided, the three units,
then `standardize_value` on every item); the first curve's unit; standardised ~Parameter values; everything else as it
was.  `d` is the refresh decision, `a b c` the positions of STRT / STOP / STEP, `u` the unit spread. -/
theorem C16_closed_form {cfg : WriteCfg} {sd : Option F64} {o : WObj} {t : List Str} {o' : WObj}
    (h : writeObj cfg sd o = .ok (t, o')) :
    ∃ d a b c s e p u, refreshDecision o = .ok d ∧
      keyIdx o.wellTr sSTRT o.well = some a ∧ keyIdx o.wellTr sSTOP o.well = some b ∧ keyIdx o.wellTr sSTEP o.well = some c ∧
      (d = true → sssValues sd o.index = some (s, e, p)) ∧ chosenUnit o = some u ∧
      o' = { o with version := versionAfter cfg o, well := wellT d s e p u a b c o.well,
                    curves := setFirstUnit u o.curves, params := o.params.map stdItem } := by
  obtain ⟨_, vsec, v, o2, hl, null, dl, _, _, h3, _, h5, _, _, _⟩ := writeObj_steps h
  obtain ⟨d, a, b, c, s, e, p, u, hd, ha, hb, hc, hv, hu, rfl⟩ := prepare_shape h3
  refine ⟨d, a, b, c, s, e, p, u, hd, ha, hb, hc, hv, hu, ?_⟩
  rw [h5]
  rfl

/-! ## the frame -/

/-- the item is one of STRT / STOP / STEP under the section's own comparison -/
def isSSS (tr : Bool) (x : OItem) : Bool :=
  cmpStr tr x.session sSTRT || cmpStr tr x.session sSTOP || cmpStr tr x.session sSTEP

/-- everything `write` may NOT touch, field by field -/
structure WriteFrame (cfg : WriteCfg) (o o' : WObj) : Prop where
  data : o'.data = o.data
  indexInitial : o'.indexInitial = o.indexInitial
  other : o'.other = o.other
  versionTr : o'.versionTr = o.versionTr
  wellTr : o'.wellTr = o.wellTr
  /-- without `wrap=` ~Version is untouched -/
  version_nowrap : cfg.wrap = none → o'.version = o.version
  /-- with `wrap=` ~Version is the result of `las.version["WRAP"] = HeaderItem(...)` and nothing else -/
  version_wrap : ∀ w, cfg.wrap = some w → o'.version = oSetItem o.versionTr sWRAP (wrapOItem w) o.version
  /-- curve order, mnemonics, values, descriptions: only the first curve's unit may change -/
  curves : ∃ u, o'.curves = setFirstUnit u o.curves
  /-- ~Parameter: only the normalisation of the values -/
  params : o'.params = o.params.map stdItem
  /-- ~Well: same items in the same order with the same original and session mnemonics and descriptions -/
  well_orig : o'.well.map (·.orig) = o.well.map (·.orig)
  well_session : o'.well.map (·.session) = o.well.map (·.session)
  well_descr : o'.well.map (·.descr) = o.well.map (·.descr)
  /-- ~Well items other than STRT / STOP / STEP: only the normalisation of the value -/
  well_other : ∀ (j : Nat) (x : OItem), o.well[j]? = some x → isSSS o.wellTr x = false → o'.well[j]? = some (stdItem x)

theorem setFirstUnit_fields (u : Str) (l : List OItem) :
    (setFirstUnit u l).map (·.orig) = l.map (·.orig) ∧ (setFirstUnit u l).map (·.session) = l.map (·.session) ∧
    (setFirstUnit u l).map (·.value) = l.map (·.value) ∧ (setFirstUnit u l).map (·.descr) = l.map (·.descr) ∧
    (setFirstUnit u l).tail = l.tail ∧ (setFirstUnit u l).length = l.length := by
  cases l <;> simp [setFirstUnit, setUnit]

theorem wellT_map_field {β} (f : OItem → β) (hf : ∀ d s e p u a b c j x, f (wellItem d s e p u a b c j x) = f x)
    (d : Bool) (s e p : PVal) (u : Str) (a b c : Nat) (l : List OItem) :
    (wellT d s e p u a b c l).map f = l.map f := by
  apply List.ext_getElem?
  intro j
  unfold wellT
  rw [List.getElem?_map, wellT_getElem?, List.getElem?_map]
  cases l[j]? with
  | none => rfl
  | some x => simp [hf]

/-- **Frame.**  After a successful `write` the object equals the object before except at: STRT/STOP/STEP value and unit,
`curves[0].unit`, the WRAP item when `wrap=` is given, and the standardised ~Well / ~Parameter values.  In particular the
curve data, `index_initial`, the curve order, every original and session mnemonic of ~Well, ~Curves, ~Parameter and every
description are untouched. -/
theorem C16_frame {cfg : WriteCfg} {sd : Option F64} {o : WObj} {t : List Str} {o' : WObj}
    (h : writeObj cfg sd o = .ok (t, o')) : WriteFrame cfg o o' := by
  obtain ⟨d, a, b, c, s, e, p, u, hd, ha, hb, hc, hv, hu, rfl⟩ := C16_closed_form h
  refine ⟨rfl, rfl, rfl, rfl, rfl, ?_, ?_, ⟨u, rfl⟩, rfl, ?_, ?_, ?_, ?_⟩
  · intro hw; simp [versionAfter, hw]
  · intro w hw; simp [versionAfter, hw]
  · exact wellT_map_field (·.orig) (fun d s e p u a b c j x => (wellItem_session d s e p u a b c j x).2.1) ..
  · exact wellT_sessions ..
  · exact wellT_map_field (·.descr) (fun d s e p u a b c j x => (wellItem_session d s e p u a b c j x).2.2) ..
  · intro j x hx hs
    simp only [wellT]
    rw [wellT_getElem?, hx]
    simp only [Option.map_some, Option.some.injEq]
    -- positions a, b, c hold items that ARE STRT / STOP / STEP
    have na : a ≠ j := by
      rintro rfl
      obtain ⟨y, hy, hpy, _⟩ := findFirst_some ha
      rw [hx] at hy; cases hy
      simp [isSSS, hpy] at hs
    have nb : b ≠ j := by
      rintro rfl
      obtain ⟨y, hy, hpy, _⟩ := findFirst_some hb
      rw [hx] at hy; cases hy
      simp [isSSS, hpy] at hs
    have nc : c ≠ j := by
      rintro rfl
      obtain ⟨y, hy, hpy, _⟩ := findFirst_some hc
      rw [hx] at hy; cases hy
      simp [isSSS, hpy] at hs
    simp [wellItem, na, nb, nc]

/-- **With a unique WRAP item, `wrap=` changes that item only**: every other item of ~Version stays at its position with
all its fields, session mnemonic included (no re-suffixing). -/
theorem C16_frame_version {cfg : WriteCfg} {sd : Option F64} {o : WObj} {t : List Str} {o' : WObj}
    (h : writeObj cfg sd o = .ok (t, o')) (hw : WrapOK o.versionTr o.version)
    (j : Nat) (x : OItem) (hx : o.version[j]? = some x) (hn : cmpStr o.versionTr sWRAP x.session = false) :
    o'.version[j]? = some x := by
  have fr := C16_frame h
  cases hcw : cfg.wrap with
  | none => rw [fr.version_nowrap hcw]; exact hx
  | some w =>
    rw [fr.version_wrap w hcw, oSetItem_wrap w hw]
    cases hf : findFirst (fun x => cmpStr o.versionTr sWRAP x.session) o.version with
    | none =>
      simp only []
      rw [List.getElem?_append_left (List.getElem?_eq_some_iff.mp hx).1]
      exact hx
    | some i =>
      simp only []
      obtain ⟨y, hy, hpy, _⟩ := findFirst_some hf
      have : i ≠ j := by
        rintro rfl
        rw [hx] at hy; cases hy
        rw [hn] at hpy; cases hpy
      rw [List.getElem?_set]
      simp [this, hx]

/-- the re-suffixing the hypothesis excludes: two WRAP items, `wrap=True`: the first keeps growing a list of WRAP items
(`['WRAP:1', 'WRAP:2']` -> `['WRAP:1', 'WRAP:2', 'WRAP:3']` -> ...) -/
theorem C16_counterexample_dup_wrap :
    let l : List OItem := [⟨sWRAP, "WRAP:1".toList, [], .str "NO".toList, []⟩, ⟨sWRAP, "WRAP:2".toList, [], .str "NO".toList, []⟩]
    (oSetItem false sWRAP (wrapOItem true) l).length = 3 ∧
    (oSetItem false sWRAP (wrapOItem true) (oSetItem false sWRAP (wrapOItem true) l)).length = 4 := by
  decide

/-! ## `version=` -/

theorem wellT_false (s e p s' e' p' : PVal) (u : Str) (a b c : Nat) (l : List OItem) :
    wellT false s e p u a b c l = wellT false s' e' p' u a b c l := by
  simp [wellT, wellVals]

/-- **`version=` never reaches the object**: two successful writes of the same object that differ in every option except
`wrap` leave the same object behind. -/
theorem C16_version_independent {c1 c2 : WriteCfg} {sd : Option F64} {o : WObj} {t1 t2 : List Str} {o1 o2 : WObj}
    (hw : c1.wrap = c2.wrap) (h1 : writeObj c1 sd o = .ok (t1, o1)) (h2 : writeObj c2 sd o = .ok (t2, o2)) : o1 = o2 := by
  obtain ⟨d, a, b, c, s, e, p, u, hd, ha, hb, hc, hv, hu, rfl⟩ := C16_closed_form h1
  obtain ⟨d', a', b', c', s', e', p', u', hd', ha', hb', hc', hv', hu', rfl⟩ := C16_closed_form h2
  rw [hd] at hd'; cases hd'
  rw [ha] at ha'; cases ha'
  rw [hb] at hb'; cases hb'
  rw [hc] at hc'; cases hc'
  rw [hu] at hu'; cases hu'
  have hver : versionAfter c1 o = versionAfter c2 o := by simp [versionAfter, hw]
  rw [hver]
  cases d with
  | false => rw [wellT_false s e p s' e' p']
  | true =>
    have := hv rfl
    rw [hv' rfl] at this
    cases this
    rfl

theorem cmpStr_symm (tr : Bool) (a b : Str) : cmpStr tr a b = cmpStr tr b a := by
  unfold cmpStr
  cases tr
  · simp only [Bool.false_eq_true, ↓reduceIte]
    rw [Bool.eq_iff_iff]
    simp only [beq_iff_eq]
    exact eq_comm
  · simp only [↓reduceIte]
    rw [Bool.eq_iff_iff]
    simp only [beq_iff_eq]
    exact eq_comm

theorem wrap_not_vers (tr : Bool) (s : Str) (h : cmpStr tr sWRAP s = true) : cmpStr tr s sVERS = false := by
  cases hv : cmpStr tr s sVERS with
  | false => rfl
  | true =>
    rw [cmpStr_symm] at h
    have := cmpStr_trans_left h hv
    have hne : cmpStr tr sWRAP sVERS = false := by cases tr <;> decide
    rw [hne] at this
    cases this

theorem find_set_irrelevant {α} (p : α → Bool) (l : List α) (i : Nat) (a x : α) (hx : l[i]? = some x) (hpx : p x = false)
    (hpa : p a = false) : (l.set i a).find? p = l.find? p := by
  induction l generalizing i with
  | nil => simp at hx
  | cons b l ih =>
    cases i with
    | zero =>
      simp at hx
      subst hx
      simp [hpx, hpa]
    | succ i =>
      simp at hx
      simp only [List.set_cons_succ, List.find?_cons]
      rw [ih i hx]

/-- **The in-memory VERS is untouched**: the item `las.version["VERS"]` is the same item with the same value before and
after the call, whatever `version=` is (for `wrap=` under the hypothesis that WRAP is unique and plainly named). -/
theorem C16_vers_untouched {cfg : WriteCfg} {sd : Option F64} {o : WObj} {t : List Str} {o' : WObj}
    (h : writeObj cfg sd o = .ok (t, o')) (hw : cfg.wrap = none ∨ WrapOK o.versionTr o.version) :
    lookup o'.versionTr sVERS o'.version = lookup o.versionTr sVERS o.version := by
  have fr := C16_frame h
  rw [fr.versionTr]
  cases hcw : cfg.wrap with
  | none => rw [fr.version_nowrap hcw]
  | some w =>
    rcases hw with hw | hw
    · rw [hcw] at hw; cases hw
    · rw [fr.version_wrap w hcw, oSetItem_wrap w hw]
      obtain ⟨_, hs, _⟩ := wrapOItem_fields w
      have hpa : cmpStr o.versionTr (wrapOItem w).session sVERS = false := by
        rw [hs]; exact wrap_not_vers _ _ (cmpStr_refl _ _)
      unfold lookup
      cases hf : findFirst (fun x => cmpStr o.versionTr sWRAP x.session) o.version with
      | none =>
        simp only []
        rw [List.find?_append]
        simp [hpa]
      | some i =>
        simp only []
        obtain ⟨y, hy, hpy, _⟩ := findFirst_some hf
        exact find_set_irrelevant _ _ i _ y hy (wrap_not_vers _ _ hpy) hpa

/-! ## when the refresh happens -/

/-- **Exactly when STRT/STOP/STEP are recomputed**: `index_initial` is absent (the object was not read from a file), or it
differs from the index (`np.array_equal`), or its last element `!=` the STOP value under Python's cross-type comparison
(`pyNe`: numeric against a number, always true against a `str` — e.g. the string a previous refresh stored — or `None`). -/
theorem C16_refresh_iff (o : WObj) (d : Bool) (h : refreshDecision o = .ok d) :
    d = true ↔
      (o.indexInitial = none ∨
       ∃ ii idx last stop, o.indexInitial = some ii ∧ o.index = some idx ∧ ii.getLast? = some last ∧
         lookup o.wellTr sSTOP o.well = some stop ∧ (arrayEqual ii idx = false ∨ pyNe last stop.value = true)) := by
  unfold refreshDecision at h
  cases hii : o.indexInitial with
  | none =>
    simp only [hii, Except.ok.injEq] at h
    simp [← h]
  | some ii =>
    simp only [hii] at h
    cases hidx : o.index with
    | none => simp [hidx] at h
    | some idx =>
      simp only [hidx] at h
      cases hl : ii.getLast? with
      | none => simp [hl] at h
      | some last =>
        simp only [hl] at h
        cases hs : lookup o.wellTr sSTOP o.well with
        | none => simp [hs] at h
        | some stop =>
          simp only [hs, Except.ok.injEq] at h
          subst h
          simp [hl]

/-! ## idempotence -/

theorem setFirstUnit_idem (u : Str) (l : List OItem) : setFirstUnit u (setFirstUnit u l) = setFirstUnit u l := by
  cases l <;> simp [setFirstUnit, setUnit]

theorem sssValues_stop {sd : Option F64} {x : F64} {xs : List F64} {s e p : PVal}
    (h : sssValues sd (some (x :: xs)) = some (s, e, p)) :
    s = .str (fmt5 x) ∧ e = .str (fmt5 (xs.getLastD x)) := by
  cases xs with
  | nil =>
    simp [sssValues] at h
    exact ⟨h.1.symm, by simpa using h.2.1.symm⟩
  | cons y ys =>
    cases sd with
    | none => simp [sssValues] at h
    | some d =>
      simp only [sssValues, Option.some.injEq, Prod.mk.injEq] at h
      exact ⟨h.1.symm, h.2.1.symm⟩

theorem arrayEqual_nonempty {ii idx : List F64} (h : arrayEqual ii idx = true) (hne : ii ≠ []) : idx ≠ [] := by
  cases ii with
  | nil => exact absurd rfl hne
  | cons a as => cases idx <;> simp_all [arrayEqual]

theorem wellItem_at_b {d : Bool} {s e p : PVal} {u : Str} {a b c : Nat} (x : OItem) (hbc : b ≠ c) :
    (wellItem d s e p u a b c b x).value = stdP (if d then e else x.value) u := by
  have hcb : (c == b) = false := by simp; omega
  unfold wellItem
  cases d <;> by_cases h1 : a = b <;> simp [h1, hcb, stdItem, setUnit, setValue]

theorem wellItem_unit_at {d : Bool} {s e p : PVal} {u : Str} {a b c j : Nat} (x : OItem) (hj : a = j ∨ b = j ∨ c = j) :
    (wellItem d s e p u a b c j x).unit = u := by
  unfold wellItem
  cases d <;> by_cases h1 : a = j <;> by_cases h2 : b = j <;> by_cases h3 : c = j <;>
    simp [h1, h2, h3, stdItem, setUnit, setValue] <;> omega

theorem lookup_wellT {tr : Bool} {k : Str} {d : Bool} {s e p : PVal} {u : Str} {a b c i : Nat} {l : List OItem}
    (hk : keyIdx tr k l = some i) :
    ∃ x, l[i]? = some x ∧ lookup tr k l = some x ∧
      lookup tr k (wellT d s e p u a b c l) = some (wellItem d s e p u a b c i x) := by
  obtain ⟨x, hx, _⟩ := findFirst_some hk
  refine ⟨x, hx, ?_, ?_⟩
  · rw [lookup_eq, hk]; simpa using hx
  · rw [lookup_eq, keyIdx_of_sessions (wellT_sessions d s e p u a b c l), hk]
    simp only [Option.bind_some, wellT]
    rw [wellT_getElem?, hx]
    rfl

/-- the decision is the same on the object afterwards -/
theorem refreshDecision_after {sd : Option F64} {o : WObj} {d : Bool} {a b c : Nat} {s e p : PVal} {u : Str}
    (vs : List OItem) (cs ps : List OItem)
    (hd : refreshDecision o = .ok d) (hb : keyIdx o.wellTr sSTOP o.well = some b) (hc : keyIdx o.wellTr sSTEP o.well = some c)
    (hv : d = true → sssValues sd o.index = some (s, e, p)) :
    refreshDecision { o with version := vs, well := wellT d s e p u a b c o.well, curves := cs, params := ps } = .ok d := by
  have hbc : b ≠ c := keyIdx_ne (keys_distinct o.wellTr).2.2 hb hc
  unfold refreshDecision at hd ⊢
  simp only [WObj.index] at hd ⊢
  cases hii : o.indexInitial with
  | none => simpa [hii] using hd
  | some ii =>
    simp only [hii] at hd ⊢
    cases hidx : o.data.head? with
    | none => simp [hidx] at hd
    | some idx =>
      simp only [hidx] at hd ⊢
      cases hl : ii.getLast? with
      | none => simp [hl] at hd
      | some last =>
        simp only [hl] at hd ⊢
        obtain ⟨x, hx, hlx, hlT⟩ := lookup_wellT (d := d) (s := s) (e := e) (p := p) (u := u) (a := a) (b := b) (c := c) hb
        rw [hlx] at hd
        rw [hlT]
        simp only [Except.ok.injEq] at hd ⊢
        rw [wellItem_at_b x hbc]
        cases d with
        | false =>
          simp only [Bool.false_eq_true, ↓reduceIte]
          simp only [Bool.or_eq_false_iff] at hd
          obtain ⟨h1, h2⟩ := hd
          rw [h1]
          cases hxv : x.value with
          | str t => rw [hxv] at h2; simp [pyNe] at h2
          | none => rw [hxv] at h2; simp [pyNe] at h2
          | num y t =>
            rw [stdP_num]
            rw [hxv] at h2
            simpa using h2
        | true =>
          simp only [↓reduceIte]
          cases hae : arrayEqual ii idx with
          | false => simp
          | true =>
            have hne : ii ≠ [] := by
              intro h0; rw [h0] at hl; simp at hl
            have hin := arrayEqual_nonempty hae hne
            cases idx with
            | nil => exact absurd rfl hin
            | cons y ys =>
              have hs := hv rfl
              simp only [WObj.index, hidx] at hs
              obtain ⟨_, he⟩ := sssValues_stop hs
              rw [he]
              unfold fmt5
              rw [stdP_str_ne _ _ (fmtFixed_ne_nil 5 _)]
              simp [pyNe]

/-- the unit spread is the same on the object afterwards -/
theorem chosenUnit_after {o : WObj} {d : Bool} {a b c : Nat} {s e p : PVal} {u : Str} (vs ps : List OItem)
    (ha : keyIdx o.wellTr sSTRT o.well = some a) :
    chosenUnit { o with version := vs, well := wellT d s e p u a b c o.well, curves := setFirstUnit u o.curves,
                        params := ps } = some u := by
  obtain ⟨x, hx, hlx, hlT⟩ := lookup_wellT (d := d) (s := s) (e := e) (p := p) (u := u) (a := a) (b := b) (c := c) ha
  have hunit : (lookup o.wellTr sSTRT (wellT d s e p u a b c o.well)).map (·.unit) = some u := by
    rw [hlT]
    simp [wellItem_unit_at x (Or.inl rfl)]
  unfold chosenUnit
  cases hc : o.curves with
  | nil =>
    simp only [setFirstUnit]
    exact hunit
  | cons c0 cs =>
    simp only [setFirstUnit, setUnit]
    by_cases hue : u.isEmpty = true
    · simp only [hue, Bool.not_true, Bool.false_eq_true, ↓reduceIte]
      exact hunit
    · simp [hue]

/-- **A second write with the same options writes byte-identical text and leaves the object as the first write left it.**
Hypothesis forced by the proof: when `wrap=True/False` is passed, ~Version holds at most one item whose original
mnemonic is WRAP and it is reachable under the plain name WRAP (`WrapOK`; otherwise every call appends one more WRAP item:
`C16_counterexample_dup_wrap`).  STRT / STOP / STEP being present is implied by the success of the first write. -/
theorem C16_idempotent {cfg : WriteCfg} {sd : Option F64} {o : WObj} {t1 : List Str} {o1 : WObj}
    (hwrap : ∀ w, cfg.wrap = some w → WrapOK o.versionTr o.version)
    (h : writeObj cfg sd o = .ok (t1, o1)) : writeObj cfg sd o1 = .ok (t1, o1) := by
  obtain ⟨hs, vsec, v, o2, hl, null, dl, h1, h2, h3, h4, h5, h6, h7, h8⟩ := writeObj_steps h
  obtain ⟨d, a, b, c, s, e, p, u, hd, ha, hb, hc, hv, hu, ho1⟩ := C16_closed_form h
  -- the ~Version section does not move any more
  have hver : versionAfter cfg o1 = o1.version ∧ vsec = o1.version := by
    subst ho1
    unfold versionAfter
    unfold setWrap at h1
    cases hcw : cfg.wrap with
    | none =>
      simp only [hcw] at h1 ⊢
      split at h1
      · simp only [Except.ok.injEq] at h1
        exact ⟨by first | rfl | trivial, h1.symm⟩
      · simp at h1
    | some w =>
      simp only [hcw, Except.ok.injEq] at h1 ⊢
      exact ⟨oSetItem_wrap_idem w (hwrap w hcw), h1.symm⟩
  have hs' : (o1.data.length != o1.curves.length || !sameLengths o1.data) = false := by
    subst ho1
    simpa [(setFirstUnit_fields u o.curves).2.2.2.2.2] using hs
  have h1' : setWrap cfg o1 = .ok vsec := by
    rw [hver.2]
    unfold setWrap
    cases hcw : cfg.wrap with
    | none =>
      have : keyIdx o1.versionTr sWRAP o1.version = keyIdx o.versionTr sWRAP o.version := by
        subst ho1; simp [versionAfter, hcw]
      unfold setWrap at h1
      simp only [hcw] at h1 ⊢
      rw [this]
      split at h1
      · simp
      · simp at h1
    | some w =>
      simp only [Except.ok.injEq]
      have := hver.1
      simp only [versionAfter, hcw] at this
      exact this
  have h2' : resolveVersion cfg o1.versionTr vsec = .ok v := by
    subst ho1; exact h2
  -- the preparation recomputes the same thing
  have hkeys : keyIdx o1.wellTr sSTRT o1.well = some a ∧ keyIdx o1.wellTr sSTOP o1.well = some b ∧
      keyIdx o1.wellTr sSTEP o1.well = some c := by
    subst ho1
    simp only [keyIdx_of_sessions (wellT_sessions d s e p u a b c o.well)]
    exact ⟨ha, hb, hc⟩
  have hd' : refreshDecision o1 = .ok d := by
    subst ho1; exact refreshDecision_after _ _ _ hd hb hc hv
  have hv' : d = true → sssValues sd o1.index = some (s, e, p) := by
    subst ho1; exact hv
  have hu' : chosenUnit o1 = some u := by
    subst ho1; exact chosenUnit_after _ _ ha
  have h3' := prepare_of_shape (sd := sd) hd' hkeys.1 hkeys.2.1 hkeys.2.2 hv' hu'
  -- ... and the object after the second header is the object after the first
  have hafter : afterHeader cfg { o1 with well := wellUnits u a b c (wellVals d s e p a b c o1.well),
                                          curves := setFirstUnit u o1.curves } = o1 := by
    have hv1 := hver.1
    subst ho1
    simp only [afterHeader]
    simp only [versionAfter] at hv1
    have hwell : (wellUnits u a b c (wellVals d s e p a b c (wellT d s e p u a b c o.well))).map stdItem =
        wellT d s e p u a b c o.well := wellT_idem d s e p u a b c o.well
    rw [hwell, setFirstUnit_idem]
    simp only [List.map_map]
    have hpar : (stdItem ∘ stdItem) = stdItem := by funext x; exact stdItem_idem x
    rw [hpar]
    congr 1
  have h4' : Wr.headerLines v cfg.wrap cfg.headerWidth
      (toWLas { o1 with well := wellUnits u a b c (wellVals d s e p a b c o1.well), curves := setFirstUnit u o1.curves }) = .ok hl := by
    rw [← h4]
    apply headerLines_congr
    rw [← toWLas_afterHeader, ← toWLas_afterHeader, hafter, ← h5]
  have := writeObj_of_steps (sd := sd) hs' h1' h2' h3' h4' (by rw [hafter]; exact h6) (by rw [hafter]; exact h7)
  rw [this, hafter, h8]

/-! ## truthfulness -/

theorem sssValues_step {sd : Option F64} {x : F64} {xs : List F64} {s e p : PVal}
    (h : sssValues sd (some (x :: xs)) = some (s, e, p)) :
    (xs ≠ [] → ∃ dlt, sd = some dlt ∧ p = .str (fmt5 dlt)) ∧ (xs = [] → p = .none) := by
  cases xs with
  | nil =>
    simp [sssValues] at h
    exact ⟨fun hne => absurd rfl hne, fun _ => h.2.2.symm⟩
  | cons y ys =>
    cases sd with
    | none => simp [sssValues] at h
    | some d =>
      simp only [sssValues, Option.some.injEq, Prod.mk.injEq] at h
      exact ⟨fun _ => ⟨d, rfl, h.2.2.symm⟩, fun hnil => by cases hnil⟩

theorem wellItem_at_a {s e p : PVal} {u : Str} {a b c : Nat} (x : OItem) (hab : a ≠ b) (hac : a ≠ c) :
    (wellItem true s e p u a b c a x).value = stdP s u := by
  have h1 : (b == a) = false := by simp; omega
  have h2 : (c == a) = false := by simp; omega
  simp [wellItem, h1, h2, stdItem, setUnit, setValue]

theorem wellItem_at_c {s e p : PVal} {u : Str} {a b c : Nat} (x : OItem) :
    (wellItem true s e p u a b c c x).value = stdP p u := by
  unfold wellItem
  by_cases h1 : a = c <;> by_cases h2 : b = c <;> simp [h1, h2, stdItem, setUnit, setValue]

/-- **Units.**  After every successful write the units of STRT, STOP and STEP and the unit of the first curve are one
and the same string: the first curve's unit when it has one, STRT's otherwise (`chosenUnit`). -/
theorem C16_units {cfg : WriteCfg} {sd : Option F64} {o : WObj} {t : List Str} {o' : WObj}
    (h : writeObj cfg sd o = .ok (t, o')) :
    ∃ u strt stop step, chosenUnit o = some u ∧
      lookup o'.wellTr sSTRT o'.well = some strt ∧ lookup o'.wellTr sSTOP o'.well = some stop ∧
      lookup o'.wellTr sSTEP o'.well = some step ∧ strt.unit = u ∧ stop.unit = u ∧ step.unit = u ∧
      ∀ c0, o'.curves.head? = some c0 → c0.unit = u := by
  obtain ⟨d, a, b, c, s, e, p, u, hd, ha, hb, hc, hv, hu, rfl⟩ := C16_closed_form h
  obtain ⟨x1, _, _, h1⟩ := lookup_wellT (d := d) (s := s) (e := e) (p := p) (u := u) (a := a) (b := b) (c := c) ha
  obtain ⟨x2, _, _, h2⟩ := lookup_wellT (d := d) (s := s) (e := e) (p := p) (u := u) (a := a) (b := b) (c := c) hb
  obtain ⟨x3, _, _, h3⟩ := lookup_wellT (d := d) (s := s) (e := e) (p := p) (u := u) (a := a) (b := b) (c := c) hc
  refine ⟨u, _, _, _, hu, h1, h2, h3, wellItem_unit_at x1 (Or.inl rfl), wellItem_unit_at x2 (Or.inr (Or.inl rfl)),
    wellItem_unit_at x3 (Or.inr (Or.inr rfl)), ?_⟩
  intro c0 hc0
  cases hcs : o.curves with
  | nil => simp [hcs, setFirstUnit] at hc0
  | cons y ys =>
    simp [hcs, setFirstUnit, setUnit] at hc0
    rw [← hc0]

/-- **Truth.**  Whenever the refresh is decided (`C16_refresh_iff`) and the index is not empty, the object written holds:
STRT = `'%.5f' % index[0]`, STOP = `'%.5f' % index[-1]` (as `str`), and STEP = `'%.5f' % (index[1] - index[0])` as soon as the
index has two samples — whatever the two printed ends look like (before the repair of las.py:600 an index whose last value
printed like its first lost its STEP: `C16_counterexample_old_step_guard`); for a single sample STEP is `None`, written as
`0` (unit present) or as the empty string. -/
theorem C16_truth {cfg : WriteCfg} {sd : Option F64} {o : WObj} {t : List Str} {o' : WObj}
    (h : writeObj cfg sd o = .ok (t, o')) (hd : refreshDecision o = .ok true)
    (x : F64) (xs : List F64) (hidx : o.index = some (x :: xs)) :
    ∃ strt stop step, lookup o'.wellTr sSTRT o'.well = some strt ∧ lookup o'.wellTr sSTOP o'.well = some stop ∧
      lookup o'.wellTr sSTEP o'.well = some step ∧
      strt.value = .str (fmt5 x) ∧ stop.value = .str (fmt5 (xs.getLastD x)) ∧
      (xs ≠ [] → ∃ dlt, sd = some dlt ∧ step.value = .str (fmt5 dlt)) ∧
      (xs = [] → step.value = stdP .none step.unit) := by
  obtain ⟨d, a, b, c, s, e, p, u, hd', ha, hb, hc, hv, hu, rfl⟩ := C16_closed_form h
  rw [hd] at hd'; cases hd'
  have hs := hv rfl
  rw [hidx] at hs
  obtain ⟨es, ee⟩ := sssValues_stop hs
  obtain ⟨hp1, hp2⟩ := sssValues_step hs
  have hab : a ≠ b := keyIdx_ne (keys_distinct o.wellTr).1 ha hb
  have hac : a ≠ c := keyIdx_ne (keys_distinct o.wellTr).2.1 ha hc
  have hbc : b ≠ c := keyIdx_ne (keys_distinct o.wellTr).2.2 hb hc
  obtain ⟨x1, _, _, h1⟩ := lookup_wellT (d := true) (s := s) (e := e) (p := p) (u := u) (a := a) (b := b) (c := c) ha
  obtain ⟨x2, _, _, h2⟩ := lookup_wellT (d := true) (s := s) (e := e) (p := p) (u := u) (a := a) (b := b) (c := c) hb
  obtain ⟨x3, _, _, h3⟩ := lookup_wellT (d := true) (s := s) (e := e) (p := p) (u := u) (a := a) (b := b) (c := c) hc
  refine ⟨_, _, _, h1, h2, h3, ?_, ?_, ?_, ?_⟩
  · rw [wellItem_at_a x1 hab hac, es]
    unfold fmt5
    exact stdP_str_ne _ _ (fmtFixed_ne_nil 5 _)
  · rw [wellItem_at_b x2 hbc, ee]
    unfold fmt5
    simp only [↓reduceIte]
    exact stdP_str_ne _ _ (fmtFixed_ne_nil 5 _)
  · intro hne
    obtain ⟨dlt, h1, h2⟩ := hp1 hne
    refine ⟨dlt, h1, ?_⟩
    rw [wellItem_at_c x3, h2]
    unfold fmt5
    exact stdP_str_ne _ _ (fmtFixed_ne_nil 5 _)
  · intro heq
    rw [wellItem_at_c x3, hp2 heq, wellItem_unit_at x3 (Or.inr (Or.inr rfl))]

/-- the printed STRT is the token of the first data cell under the default format (no re-rounding between header and data) -/
theorem C16_truth_token (null : Str) (x : F64) (hx : x.isNaN = false) : fmt5 x = Dw.cellValue null ⟨none, 5⟩ x := by
  simp [fmt5, Dw.cellValue, hx, Dw.fmtApply]

/-- **No refresh, no new values**: when the refresh is not decided every ~Well value — STRT / STOP / STEP included — is only
standardised (against the unit the item has afterwards). -/
theorem C16_no_refresh {cfg : WriteCfg} {sd : Option F64} {o : WObj} {t : List Str} {o' : WObj}
    (h : writeObj cfg sd o = .ok (t, o')) (hd : refreshDecision o = .ok false)
    (j : Nat) (x : OItem) (hx : o.well[j]? = some x) :
    ∃ y, o'.well[j]? = some y ∧ y.value = stdP x.value y.unit := by
  obtain ⟨d, a, b, c, s, e, p, u, hd', ha, hb, hc, hv, hu, rfl⟩ := C16_closed_form h
  rw [hd] at hd'; cases hd'
  refine ⟨wellItem false s e p u a b c j x, ?_, ?_⟩
  · simp only [wellT]
    rw [wellT_getElem?, hx]
    rfl
  · unfold wellItem
    by_cases h1 : a = j <;> by_cases h2 : b = j <;> by_cases h3 : c = j <;> simp [h1, h2, h3, stdItem, setUnit]

/-- the second clause of `WrapOK` is needed too: a single WRAP item left under the name `WRAP:1` (its twin was deleted) is
not found by `las.version["WRAP"]`, so every `write(wrap=True)` appends another one -/
theorem C16_counterexample_stale_suffix :
    let l : List OItem := [⟨sWRAP, "WRAP:1".toList, [], .str "NO".toList, []⟩]
    (oSetItem false sWRAP (wrapOItem true) l).length = 2 ∧
    (oSetItem false sWRAP (wrapOItem true) (oSetItem false sWRAP (wrapOItem true) l)).length = 3 := by
  decide

/-! ## non-vacuity: a LASFile built from scratch, written twice -/

def exCfg : WriteCfg := ⟨some "2.0", none, 20, "%.5f".toList, [], none, [' '], [' '], 79, "~A".toList, false⟩
def exOne : F64 := .finite false 1 0
def exObj : WObj :=
  { version := [mkOItem sVERS [] (.num (.finite false 2 0) "2.0".toList) [], mkOItem sWRAP [] (.str "NO".toList) []],
    versionTr := false,
    well := [mkOItem sSTRT ['m'] (.num .nan "nan".toList) [], mkOItem sSTOP ['m'] (.num .nan "nan".toList) [],
             mkOItem sSTEP ['m'] (.num .nan "nan".toList) [],
             mkOItem sNULL [] (.num (.finite true 39997 (-2)) "-9999.25".toList) [],
             mkOItem "COMP".toList ['K'] (.str []) []],
    wellTr := false,
    curves := [mkOItem "DEPT".toList ['f', 't'] (.str []) []], params := [], other := [],
    data := [[exOne, .finite false 2 0, .finite false 3 0]], indexInitial := none }

example :
    (writeObj exCfg (some exOne) exObj).toOption.map (fun r => (r.1, r.2.well.map (fun i => (i.unit, i.value)))) =
      some (["~Version -----------", "VERS. 2.0 : CWLS log ASCII Standard -VERSION 2.0", "WRAP.  NO : ", "~Well --------------",
             "STRT.ft 1.00000 : ", "STOP.ft 3.00000 : ", "STEP.ft 1.00000 : ", "NULL.  -9999.25 : ", "COMP.K        0 : ",
             "~Curve Information -", "DEPT.ft  : ", "~Params ------------", "~Other -------------", "~A -----------------",
             "    1.00000", "    2.00000", "    3.00000"].map String.toList,
            [("ft".toList, .str "1.00000".toList), ("ft".toList, .str "3.00000".toList), ("ft".toList, .str "1.00000".toList),
             ([], .num (.finite true 39997 (-2)) "-9999.25".toList), (['K'], PVal.intZero)]) := by
  decide

/-- the hypotheses of `C16_idempotent` hold for it, and the second write is the first -/
example : ∃ t o1, writeObj exCfg (some exOne) exObj = .ok (t, o1) ∧ writeObj exCfg (some exOne) o1 = .ok (t, o1) := by
  have hok : (writeObj exCfg (some exOne) exObj).toOption.isSome = true := by decide
  cases h : writeObj exCfg (some exOne) exObj with
  | error e => rw [h] at hok; simp [Except.toOption] at hok
  | ok r => exact ⟨r.1, r.2, rfl, C16_idempotent (by intro w hw; cases hw) h⟩

/-- the index that returns to its start keeps its STEP (the input of the repaired finding) -/
example :
    (writeObj exCfg (some exOne) { exObj with data := [[exOne, .finite false 2 0, exOne]] }).toOption.map
        (fun r => (r.2.well.map (·.value)).take 3) =
      some [.str "1.00000".toList, .str "1.00000".toList, .str "1.00000".toList] := by
  decide

/-- the guard before the repair (`if STOP != STRT` on the formatted strings) dropped the step of that index -/
theorem C16_counterexample_old_step_guard :
    sssValuesOld (some exOne) (some [exOne, .finite false 2 0, exOne]) =
      some (.str "1.00000".toList, .str "1.00000".toList, .none) ∧
    sssValues (some exOne) (some [exOne, .finite false 2 0, exOne]) =
      some (.str "1.00000".toList, .str "1.00000".toList, .str "1.00000".toList) := by
  decide

example : (refreshDecision exObj).toOption = some true := by decide

/-! ## the STRT / STOP / STEP keyword arguments (`writeObjK`) -/

/-- without STRT= / STOP= / STEP= the general call is the call the other theorems of this file are about -/
theorem C16_kwargs_default (cfg : WriteCfg) (sd : Option F64) (o : WObj) : writeObjK {} cfg sd o = writeObj cfg sd o := by
  simp only [writeObjK, writeObj, prepareK_default]

/-- **The keyword arguments are ignored when no refresh is decided** (index as read and STOP equal to its last value):
whatever is passed as STRT= / STOP= / STEP=, the lines written and the object afterwards are those of the plain call. -/
theorem C16_kwargs_ignored_without_refresh (k : SssArgs) (cfg : WriteCfg) (sd : Option F64) (o : WObj)
    (h : refreshDecision o = .ok false) : writeObjK k cfg sd o = writeObj cfg sd o := by
  simp only [writeObjK, writeObj, prepareK_no_refresh k sd o h]

/-- when the refresh is decided on a non-empty index, an argument that was given is stored as it is and one that was not
is computed from the index exactly as in the plain call -/
theorem C16_kwargs_values (k : SssArgs) (sd : Option F64) (x : F64) (xs : List F64) (s e p : PVal)
    (h : sssValuesK k sd (some (x :: xs)) = some (s, e, p)) :
    s = ov k.strt (.str (fmt5 x)) ∧ e = ov k.stop (.str (fmt5 (xs.getLastD x))) ∧
    (k.step ≠ .none → p = k.step) ∧
    (k.step = .none → ∃ s' e', sssValues sd (some (x :: xs)) = some (s', e', p)) := by
  unfold sssValuesK at h
  cases hk : k.step with
  | none =>
    simp only [hk] at h
    cases xs with
    | nil => simp at h; obtain ⟨rfl, rfl, rfl⟩ := h; simp [sssValues]
    | cons y ys =>
      cases sd with
      | none => simp at h
      | some d => simp at h; obtain ⟨rfl, rfl, rfl⟩ := h; simp [sssValues]
  | str t => simp only [hk] at h; simp at h; obtain ⟨rfl, rfl, rfl⟩ := h; simp
  | num a t => simp only [hk] at h; simp at h; obtain ⟨rfl, rfl, rfl⟩ := h; simp

/-- without a usable index every argument keeps what it was given (the IndexError is swallowed) -/
theorem C16_kwargs_no_index (k : SssArgs) (sd : Option F64) :
    sssValuesK k sd none = some (k.strt, k.stop, k.step) ∧ sssValuesK k sd (some []) = some (k.strt, k.stop, k.step) := ⟨rfl, rfl⟩

end Lasio.Wo

#print axioms Lasio.Wo.C16_closed_form
#print axioms Lasio.Wo.C16_frame
#print axioms Lasio.Wo.C16_frame_version
#print axioms Lasio.Wo.C16_version_independent
#print axioms Lasio.Wo.C16_vers_untouched
#print axioms Lasio.Wo.C16_refresh_iff
#print axioms Lasio.Wo.C16_idempotent
#print axioms Lasio.Wo.C16_units
#print axioms Lasio.Wo.C16_truth
#print axioms Lasio.Wo.C16_no_refresh
#print axioms Lasio.Wo.C16_kwargs_default
#print axioms Lasio.Wo.C16_kwargs_ignored_without_refresh
#print axioms Lasio.Wo.C16_kwargs_values
#print axioms Lasio.Wo.C16_kwargs_no_index
