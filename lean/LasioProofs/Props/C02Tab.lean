import LasioModel.Data
import LasioProofs.Lemmas.DataTabLemmas
/-
C02 for files that declare `DLM TAB` (`st.delimiter = .tab`) — the numpy engine and the normal engine give the same curves.

Domain (`TabPlainData`, Lemmas/DataTabLemmas.lean): as `PlainData` of Props/C02.lean, but the `c ≥ 1` quiet tokens of a data line
are separated by non-empty runs of TAB characters only (`TabCore`); the padding before the first and after the last token of the
physical line may be any Python whitespace (`cleanLine` strips it).  `TabPlainData … → PlainData …`
(`TabPlainData.toPlain`), so the facts about the numpy engine — which never looks at the delimiter — are those of Props/C02.lean.
`readSubs .tab = Subs.default` (`readSubs_tab`): a `DLM TAB` file starts the sniffer with the same substitutions as the default
delimiter.

* `C02_normal_value_tab`  : the normal engine's end result, explicitly;
* `C02_engines_agree_tab` : `readData` with engine numpy and with engine normal give the same curves;
* `C02_numpy_path_tab`    : numeric tokens, WRAP ≠ YES, strict policy, and (no blank/comment line in the body OR nothing after the
                            window) ⇒ the numpy engine itself produced the result;
* `C02_fallback_tab`      : a blank/comment line in the body AND a following section ⇒ genfromtxt raises, the normal engine answers;
* `C02_tab_separators_needed` : the separators must be TABs — with `DLM TAB` a blank-separated line is ONE item for the normal
                            engine (`sot_regex` does not split at blanks) and two columns for the numpy engine: the engines differ.
-/
namespace Lasio.Dt

/-! ### `readData` -/

/-- the normal engine's end result on TAB-separated plain data (WRAP ≠ YES) -/
theorem C02_normal_value_tab (ft : FloatTable) (e : Engine) (p : NullPolicy) (st : Steer) (d : Nat) (pre : List Str) (title : Str)
    {body after : List Str} {c : Nat} {rows : List (List Str)} (h : TabPlainData ft body after c rows)
    (hdlm : st.delimiter = .tab) (hw : st.wrapped ≠ yesTxt)
    (heng : effectiveEngine ⟨e, p⟩ st = .normal) :
    readData ⟨e, p⟩ (pre ++ title :: (body ++ after)) pre.length (pre.length + body.length) st d ft =
      .ok (.normal, plainResult ft p st d c rows) := by
  obtain ⟨sb', hs⟩ := sniffTwice_plain_tab (readSubs .tab) pre title (after := after) h.body h.rne
  unfold readData
  simp only [hdlm, hs, heng, readerColumns_plain st d c hw]
  unfold normalEngine
  rw [(window_plain pre title body after).1, normal_plain_tab ft sb' h.body h.cpos h.rne]
  rfl

/-- **Engines agree** on TAB-separated plain data of a `DLM TAB` file (ANY quiet tokens, numeric or not, any NULL, any number of
declared curves, both null policies, any WRAP value). -/
theorem C02_engines_agree_tab (ft : FloatTable) (p : NullPolicy) (st : Steer) (d : Nat) (pre : List Str) (title : Str)
    {body after : List Str} {c : Nat} {rows : List (List Str)} (h : TabPlainData ft body after c rows)
    (hdlm : st.delimiter = .tab) :
    (readData ⟨.numpy, p⟩ (pre ++ title :: (body ++ after)) pre.length (pre.length + body.length) st d ft).map Prod.snd =
    (readData ⟨.normal, p⟩ (pre ++ title :: (body ++ after)) pre.length (pre.length + body.length) st d ft).map Prod.snd := by
  by_cases heff : effectiveEngine ⟨.numpy, p⟩ st = .normal
  · -- wrapped file or non-strict policy: the same engine runs in both cases
    have heff2 : effectiveEngine ⟨.normal, p⟩ st = .normal := by
      unfold effectiveEngine; split <;> rfl
    unfold readData
    simp only [heff, heff2]
  · have hnp : effectiveEngine ⟨.numpy, p⟩ st = .numpy := by
      cases hh : effectiveEngine ⟨.numpy, p⟩ st with
      | numpy => rfl
      | normal => exact absurd hh heff
    have hw : st.wrapped ≠ yesTxt := by
      intro e
      apply heff
      unfold effectiveEngine
      simp [e]
    have hn : effectiveEngine ⟨.normal, p⟩ st = .normal := by
      unfold effectiveEngine; split <;> rfl
    rw [C02_normal_value_tab ft .normal p st d pre title h hdlm hw hn]
    obtain ⟨sb', hs⟩ := sniffTwice_plain_tab (readSubs .tab) pre title (after := after) h.body h.rne
    unfold readData
    simp only [hdlm, hs, hnp, readerColumns_plain st d c hw]
    unfold numpyEngine normalEngine
    obtain ⟨hw1, hw2, hw3⟩ := window_plain pre title body after
    rw [hw1, hw2, hw3, normal_plain_tab ft sb' h.body h.cpos h.rne]
    rcases numpy_plain h.toPlain with hnpy | hnpy <;> rw [hnpy] <;> rfl

/-- **No silent fallback**: numeric TAB-separated plain data, WRAP ≠ YES, strict policy, and no blank/comment line in the body or
nothing after the window ⇒ the numpy engine itself produced the curves. -/
theorem C02_numpy_path_tab (ft : FloatTable) (st : Steer) (d : Nat) (pre : List Str) (title : Str)
    {body after : List Str} {c : Nat} {rows : List (List Str)} (h : TabPlainData ft body after c rows) (hnum : Numeric ft rows)
    (hdlm : st.delimiter = .tab) (hw : st.wrapped ≠ yesTxt)
    (hpath : body.length = rows.length ∨ after = []) :
    readData ⟨.numpy, .strict⟩ (pre ++ title :: (body ++ after)) pre.length (pre.length + body.length) st d ft =
      .ok (.numpy, plainResult ft .strict st d c rows) := by
  have hnp : effectiveEngine ⟨.numpy, .strict⟩ st = .numpy := by
    have : (st.wrapped == yesTxt) = false := by simpa using hw
    simp [effectiveEngine, this]
  obtain ⟨sb', hs⟩ := sniffTwice_plain_tab (readSubs .tab) pre title (after := after) h.body h.rne
  unfold readData
  simp only [hdlm, hs, hnp]
  unfold numpyEngine
  obtain ⟨_, hw2, hw3⟩ := window_plain pre title body after
  rw [hw2, hw3, numpy_plain_ok h.toPlain hnum hpath]
  rfl

/-- **Fallback**: a blank/comment line inside the body and a following section ⇒ genfromtxt runs into the next title line and
raises; the normal engine (splitting at TABs) produces the (same) curves. -/
theorem C02_fallback_tab (ft : FloatTable) (st : Steer) (d : Nat) (pre : List Str) (title : Str)
    {body after : List Str} {c : Nat} {rows : List (List Str)} (h : TabPlainData ft body after c rows)
    (hdlm : st.delimiter = .tab) (hw : st.wrapped ≠ yesTxt)
    (hskip : rows.length < body.length) (hafter : after ≠ []) :
    numpyEngine ft (pre ++ title :: (body ++ after)) pre.length (pre.length + body.length) = none ∧
    readData ⟨.numpy, .strict⟩ (pre ++ title :: (body ++ after)) pre.length (pre.length + body.length) st d ft =
      .ok (.normal, plainResult ft .strict st d c rows) := by
  obtain ⟨hw1, hw2, hw3⟩ := window_plain pre title body after
  have hraise : numpyEngine ft (pre ++ title :: (body ++ after)) pre.length (pre.length + body.length) = none := by
    unfold numpyEngine
    rw [hw2, hw3]
    exact numpy_plain_raises h.toPlain hskip hafter
  refine ⟨hraise, ?_⟩
  have hnp : effectiveEngine ⟨.numpy, .strict⟩ st = .numpy := by
    have : (st.wrapped == yesTxt) = false := by simpa using hw
    simp [effectiveEngine, this]
  obtain ⟨sb', hs⟩ := sniffTwice_plain_tab (readSubs .tab) pre title (after := after) h.body h.rne
  unfold readData
  simp only [hdlm, hs, hnp, hraise, readerColumns_plain st d c hw]
  unfold normalEngine
  rw [hw1, normal_plain_tab ft sb' h.body h.cpos h.rne]
  rfl

/-! ### non-vacuity and necessity of the TAB separators -/

def c02t (s : String) : Str := s.toList

def ftTab : FloatTable := [(c02t "1", c02t "a1"), (c02t "2", c02t "a2"), (c02t "3", c02t "a3"), (c02t "4", c02t "a4")]

/-- WRAP NO declared, no numeric NULL, `DLM TAB` -/
def stTab : Steer := ⟨true, c02t "NO", none, .tab⟩

/-- `"1\t2\n"`, a blank line, `" 3\t\t4 \r\n"` (two TABs between the tokens, blank padding, CRLF): a TAB body with rows [1,2],[3,4] -/
theorem C02_tab_example_body :
    TabBody 2 [c02t "1\t2\n", c02t "\n", c02t " 3\t\t4 \r\n"] [[c02t "1", c02t "2"], [c02t "3", c02t "4"]] := by
  apply TabBody.row (toks := [c02t "1", c02t "2"])
  · exact ⟨[], c02t "1\t2", c02t "\n", allWs_dec _ (by decide), allWs_dec _ (by decide),
      TabCore.cons (t := c02t "1") (sep := c02t "\t") (quiet_digit "1" (by decide)) (by decide) (by decide)
        (TabCore.one (quiet_digit "2" (by decide))), rfl⟩
  · rfl
  apply TabBody.skip
  · exact Or.inl (allWs_dec _ (by decide))
  apply TabBody.row (toks := [c02t "3", c02t "4"])
  · exact ⟨c02t " ", c02t "3\t\t4", c02t " \r\n", allWs_dec _ (by decide), allWs_dec _ (by decide),
      TabCore.cons (t := c02t "3") (sep := c02t "\t\t") (quiet_digit "3" (by decide)) (by decide) (by decide)
        (TabCore.one (quiet_digit "4" (by decide))), rfl⟩
  · rfl
  exact TabBody.nil

/-- the domain is inhabited: the body above as the last section of the file … -/
theorem C02_tab_example_last :
    TabPlainData ftTab [c02t "1\t2\n", c02t "\n", c02t " 3\t\t4 \r\n"] [] 2 [[c02t "1", c02t "2"], [c02t "3", c02t "4"]] :=
  ⟨C02_tab_example_body, by decide, by decide, Or.inl rfl⟩

/-- … and followed by a ~P section -/
theorem C02_tab_example_inner :
    TabPlainData ftTab [c02t "1\t2\n", c02t "\n", c02t " 3\t\t4 \r\n"] [c02t "~P\n", c02t "X. 5 : d\n"] 2
      [[c02t "1", c02t "2"], [c02t "3", c02t "4"]] :=
  ⟨C02_tab_example_body, by decide, by decide, Or.inr ⟨c02t "~P\n", [c02t "X. 5 : d\n"], c02t "~P", [], rfl, by rfl, by rfl⟩⟩

/-- last section with a blank line: the numpy engine itself answers (instance of `C02_numpy_path_tab`), and the conclusion
computes to the expected curves -/
theorem C02_tab_example_numpy :
    readData ⟨.numpy, .strict⟩ ([c02t "~V\n"] ++ c02t "~A\n" :: ([c02t "1\t2\n", c02t "\n", c02t " 3\t\t4 \r\n"] ++ [])) 1 (1 + 3)
      stTab 2 ftTab =
    .ok (.numpy, [(.declared 0, .floats [c02t "a1", c02t "a3"]), (.declared 1, .floats [c02t "a2", c02t "a4"])]) :=
  C02_numpy_path_tab ftTab stTab 2 [c02t "~V\n"] (c02t "~A\n") C02_tab_example_last (by unfold Numeric; decide) rfl (by decide)
    (Or.inr rfl)

/-- the normal engine on the same document (instance of `C02_normal_value_tab`): the same curves -/
theorem C02_tab_example_normal :
    readData ⟨.normal, .strict⟩ ([c02t "~V\n"] ++ c02t "~A\n" :: ([c02t "1\t2\n", c02t "\n", c02t " 3\t\t4 \r\n"] ++ [])) 1 (1 + 3)
      stTab 2 ftTab =
    .ok (.normal, [(.declared 0, .floats [c02t "a1", c02t "a3"]), (.declared 1, .floats [c02t "a2", c02t "a4"])]) :=
  C02_normal_value_tab ftTab .normal .strict stTab 2 [c02t "~V\n"] (c02t "~A\n") C02_tab_example_last rfl (by decide) (by rfl)

/-- the same body followed by ~P: genfromtxt raises, the normal engine answers (instance of `C02_fallback_tab`) -/
theorem C02_tab_example_fallback :
    readData ⟨.numpy, .strict⟩
      ([c02t "~V\n"] ++ c02t "~A\n" :: ([c02t "1\t2\n", c02t "\n", c02t " 3\t\t4 \r\n"] ++ [c02t "~P\n", c02t "X. 5 : d\n"]))
      1 (1 + 3) stTab 2 ftTab =
    .ok (.normal, [(.declared 0, .floats [c02t "a1", c02t "a3"]), (.declared 1, .floats [c02t "a2", c02t "a4"])]) :=
  (C02_fallback_tab ftTab stTab 2 [c02t "~V\n"] (c02t "~A\n") C02_tab_example_inner rfl (by decide) (by decide) (by decide)).2

/-- **The separators must be TABs.**  With `DLM TAB` the line `"1 2\n"` (a blank between the numbers: a `RowLine`, not a
`TabRowLine`) is ONE text cell `"1 2"` under the normal engine — `sot_regex` does not split at a blank, the sniffer counts one
column, the second declared curve is filled with NaN — and two float columns under the numpy engine (`genfromtxt` splits at any
whitespace and never sees the delimiter): the engines differ.  (`float("1 2")` raises, so `"1 2"` is absent from the table.) -/
theorem C02_tab_separators_needed :
    readData ⟨.numpy, .strict⟩ [c02t "~A\n", c02t "1 2\n"] 0 1 stTab 2 ftTab =
      .ok (.numpy, [(.declared 0, .floats [c02t "a1"]), (.declared 1, .floats [c02t "a2"])]) ∧
    readData ⟨.normal, .strict⟩ [c02t "~A\n", c02t "1 2\n"] 0 1 stTab 2 ftTab =
      .ok (.normal, [(.declared 0, .text [c02t "1 2"]), (.declared 1, .floats [nanTxt])]) ∧
    (readData ⟨.numpy, .strict⟩ [c02t "~A\n", c02t "1 2\n"] 0 1 stTab 2 ftTab).map Prod.snd ≠
      (readData ⟨.normal, .strict⟩ [c02t "~A\n", c02t "1 2\n"] 0 1 stTab 2 ftTab).map Prod.snd := by
  have h1 : readData ⟨.numpy, .strict⟩ [c02t "~A\n", c02t "1 2\n"] 0 1 stTab 2 ftTab =
      .ok (.numpy, [(.declared 0, .floats [c02t "a1"]), (.declared 1, .floats [c02t "a2"])]) := by rfl
  have h2 : readData ⟨.normal, .strict⟩ [c02t "~A\n", c02t "1 2\n"] 0 1 stTab 2 ftTab =
      .ok (.normal, [(.declared 0, .text [c02t "1 2"]), (.declared 1, .floats [nanTxt])]) := by rfl
  refine ⟨h1, h2, ?_⟩
  rw [h1, h2]
  intro h
  exact absurd (Except.ok.inj h) (by decide)

/-- the same line is in the default-delimiter domain (`RowLine`) but its cleaned form is not split by `splitTab` -/
theorem C02_tab_blank_is_no_separator :
    splitTab (c02t "1 2") = [c02t "1 2"] ∧ splitWs (c02t "1 2") = [c02t "1", c02t "2"] ∧
    splitTab (c02t "1\t2") = [c02t "1", c02t "2"] := ⟨by rfl, by rfl, by rfl⟩

end Lasio.Dt

#print axioms Lasio.Dt.TabCore.toCore
#print axioms Lasio.Dt.TabBody.toBody
#print axioms Lasio.Dt.TabPlainData.toPlain
#print axioms Lasio.Dt.splitTab_tabCore
#print axioms Lasio.Dt.lineTokens_tabRow
#print axioms Lasio.Dt.sampleLine_tabRow
#print axioms Lasio.Dt.sniff_plain_tab
#print axioms Lasio.Dt.sniffTwice_plain_tab
#print axioms Lasio.Dt.tabBody_normalTokens
#print axioms Lasio.Dt.normal_plain_tab
#print axioms Lasio.Dt.C02_normal_value_tab
#print axioms Lasio.Dt.C02_engines_agree_tab
#print axioms Lasio.Dt.C02_numpy_path_tab
#print axioms Lasio.Dt.C02_fallback_tab
#print axioms Lasio.Dt.C02_tab_example_body
#print axioms Lasio.Dt.C02_tab_example_last
#print axioms Lasio.Dt.C02_tab_example_inner
#print axioms Lasio.Dt.C02_tab_example_numpy
#print axioms Lasio.Dt.C02_tab_example_normal
#print axioms Lasio.Dt.C02_tab_example_fallback
#print axioms Lasio.Dt.C02_tab_separators_needed
#print axioms Lasio.Dt.C02_tab_blank_is_no_separator
