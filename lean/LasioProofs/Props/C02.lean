import LasioModel.Data
import LasioProofs.Lemmas.DataLemmas
import LasioProofs.Props.C07
/-
C02 — the numpy engine and the normal engine give the same curves on plain data sections.

Domain (`PlainData`): the file is `pre ++ title :: (body ++ after)`, the ~A window is `(first, last) = (|pre|, |pre| + |body|)`
(what `find_sections_in_file` returns: title line and inclusive last line), every body line is a blank line, a `#` comment
line, or `c ≥ 1` *quiet* tokens separated/padded by blanks (any Python whitespace, so blanks, TABs, `\r`), at least one row,
default delimiter; the window ends at the end of the file or right before a line whose first token is not a number
(a section title: `float()` rejects every token starting with `~`).

A *quiet* token (`QuietTok`, Lemmas/DataLemmas.lean) contains no blank, quote, `#`, ctrl-Z and none of the three read substitutions
matches inside it; `subs_id_on_plain` / `quietTok_of_simple` show that every token made of the characters `0-9 + - . e E` with at
most one `.` and no digit immediately before a `-` is quiet — this covers every plain decimal number
`[+-]?(\d+\.?\d*|\.\d+)([eE][+-]?\d+)?`.

* `C02_window`            : the normal engine visits exactly the body lines; the numpy engine gets `body ++ after` and `max_rows = |body|`;
* `C02_engines_agree_body`: on the body alone both engines give the r × c token matrix (numeric tokens);
* `C02_normal_value`      : the normal engine's end result, explicitly;
* `C02_engines_agree`     : `readData` with engine numpy and with engine normal give the same curves (for ANY quiet tokens, numeric or
                            not, any NULL, any number of declared curves, both null policies, any WRAP value);
* `C02_numpy_path`        : numeric tokens, WRAP ≠ YES, strict policy, and (no blank/comment line in the body OR nothing after the
                            window) ⇒ the numpy engine itself produced the result (no silent fallback);
* `C02_fallback`          : complement — a blank/comment line in the body AND a following section ⇒ genfromtxt raises and the
                            normal engine is used (the result is still the same by `C02_engines_agree`);
* counter-examples for the hypotheses.
-/
namespace Lasio.Dt

/-! ### the domain -/

/-- `Body c body rows`: the body lines are blank lines, comment lines and data lines of `c` quiet tokens; `rows` are the token
rows of the data lines in order -/
inductive Body (c : Nat) : List Str → List (List Str) → Prop
  | nil : Body c [] []
  | skip {ln : Str} {ls : List Str} {rows : List (List Str)} : SkipLine ln → Body c ls rows → Body c (ln :: ls) rows
  | row {ln : Str} {toks : List Str} {ls : List Str} {rows : List (List Str)} :
      RowLine toks ln → toks.length = c → Body c ls rows → Body c (ln :: ls) (toks :: rows)

structure PlainData (ft : FloatTable) (body after : List Str) (c : Nat) (rows : List (List Str)) : Prop where
  body : Body c body rows
  cpos : 0 < c
  rne : rows ≠ []
  /-- end of file, or a next line whose first token is not a number (a `~` title line) -/
  next : after = [] ∨ ∃ ln rest t ts, after = ln :: rest ∧ npTokens ln = t :: ts ∧ toFloat ft t = none

/-- every token is a number for `float()` -/
def Numeric (ft : FloatTable) (rows : List (List Str)) : Prop := ∀ r ∈ rows, ∀ t ∈ r, (toFloat ft t).isSome

/-! ### facts about bodies -/

theorem body_rows_len {c : Nat} {body : List Str} {rows : List (List Str)} (h : Body c body rows) :
    ∀ r ∈ rows, r.length = c := by
  induction h with
  | nil => simp
  | skip _ _ ih => exact ih
  | row _ hl _ ih => intro r hr; simp only [List.mem_cons] at hr; rcases hr with rfl | hr; exact hl; exact ih r hr

theorem body_length {c : Nat} {body : List Str} {rows : List (List Str)} (h : Body c body rows) :
    rows.length ≤ body.length := by
  induction h with
  | nil => simp
  | skip _ _ ih => simp; omega
  | row _ _ _ ih => simp; omega

theorem body_ne {c : Nat} {body : List Str} {rows : List (List Str)} (h : Body c body rows) (hr : rows ≠ []) : body ≠ [] := by
  intro e; subst e
  have := body_length h
  cases rows with
  | nil => exact hr rfl
  | cons r rs => simp at this

/-- the flat token sequence of the normal engine is the row-major flattening of the matrix -/
theorem body_normalTokens (sb : Subs) {c : Nat} {body : List Str} {rows : List (List Str)} (h : Body c body rows) :
    normalTokens sb .space body = rows.flatten := by
  induction h with
  | nil => rfl
  | skip hs _ ih =>
    simp only [normalTokens, List.flatMap_cons, lineTokens_skip sb .space hs, List.nil_append]
    exact ih
  | row hr _ _ ih =>
    simp only [normalTokens, List.flatMap_cons, lineTokens_row sb hr, List.flatten_cons]
    rw [← ih]; rfl

/-- the sniffer's sample: one entry per data line, each counting `c` items whatever substitutions are active -/
theorem body_sample {c : Nat} {body : List Str} {rows : List (List Str)} (h : Body c body rows) :
    (body.filterMap sampleLine).length = rows.length ∧
    ∀ l ∈ body.filterMap sampleLine, ∀ sb, (splitLine .space (applySubs sb l)).length = c := by
  induction h with
  | nil => simp
  | skip hs _ ih => simp only [List.filterMap_cons, sampleLine_skip hs]; exact ih
  | row hr hl _ ih =>
    obtain ⟨l, h1, h2⟩ := sampleLine_row hr
    simp only [List.filterMap_cons, h1, List.length_cons, List.mem_cons]
    refine ⟨by omega, ?_⟩
    intro x hx sb
    rcases hx with rfl | hx
    · rw [h2 sb, hl]
    · exact ih.2 x hx sb

theorem consistent_const (l : List Nat) (c : Nat) (hne : l ≠ []) (h : ∀ x ∈ l, x = c) : consistent l = some c := by
  cases l with
  | nil => exact absurd rfl hne
  | cons n rest =>
    have hn : n = c := h n (by simp)
    subst hn
    have : rest.all (· == n) = true := by
      rw [List.all_eq_true]; intro x hx; simp [h x (by simp [hx])]
    simp [consistent, this]

/-! ### the window -/

/-- what the two engines are given: the normal engine visits exactly the body; the numpy engine gets everything after the title
and `max_rows = |body|` -/
theorem C02_window (pre : List Str) (title : Str) (body after : List Str) (hb : body ≠ []) :
    bodyLines (pre ++ title :: (body ++ after)) pre.length (pre.length + body.length) = body ∧
    (pre ++ title :: (body ++ after)).drop (pre.length + 1) = body ++ after ∧
    (pre.length + body.length) - pre.length = body.length := by
  have hd : (pre ++ title :: (body ++ after)).drop (pre.length + 1) = body ++ after := by
    rw [← List.drop_drop, List.drop_left]; rfl
  refine ⟨?_, hd, by omega⟩
  unfold bodyLines
  simp only [hd]
  have : pre.length < pre.length + body.length := by
    cases body with
    | nil => exact absurd rfl hb
    | cons _ _ => simp
  simp only [this, ↓reduceIte]
  have : pre.length + body.length - pre.length = body.length := by omega
  rw [this, List.take_left]

/-! ### the sniffer on plain data -/

theorem sniff_plain (sb : Subs) (pre : List Str) (title : Str) {body after : List Str} {c : Nat} {rows : List (List Str)}
    (h : Body c body rows) (hr : rows ≠ []) :
    (sniffColumns sb .space (pre ++ title :: (body ++ after)) pre.length (pre.length + body.length)).count = some c := by
  unfold sniffColumns
  simp only [(C02_window pre title body after (body_ne h hr)).1]
  obtain ⟨hlen, hcnt⟩ := body_sample h
  apply consistent_const
  · intro e
    have : ((body.filterMap sampleLine).take 21).length = 0 := by
      have := congrArg List.length e
      simpa using this
    rw [List.length_take, hlen] at this
    cases rows with
    | nil => exact hr rfl
    | cons r rs => simp at this
  · intro x hx
    simp only [List.mem_map] at hx
    obtain ⟨l, hl, rfl⟩ := hx
    exact hcnt l (List.mem_of_mem_take hl) sb

theorem sniffTwice_plain (sb : Subs) (pre : List Str) (title : Str) {body after : List Str} {c : Nat} {rows : List (List Str)}
    (h : Body c body rows) (hr : rows ≠ []) :
    ∃ sb', sniffTwice sb .space (pre ++ title :: (body ++ after)) pre.length (pre.length + body.length) = (sb', some c) := by
  unfold sniffTwice
  simp only
  split
  · exact ⟨_, by rw [sniff_plain sb.dropHyphen pre title h hr]⟩
  · exact ⟨_, by rw [sniff_plain sb pre title h hr]⟩

/-! ### the numpy engine on plain data -/

theorem npCollect_skip (c b : Nat) (ln : Str) (rest : List Str) (h : npTokens ln = []) :
    npCollect c b (ln :: rest) = npCollect c b rest := by
  cases b with
  | zero => simp [npCollect]
  | succ b => simp [npCollect, h]

theorem npCollect_zero (c : Nat) (l : List Str) : npCollect c 0 l = some [] := by
  cases l <;> rfl

theorem npCollect_nil (c b : Nat) : npCollect c b [] = some [] := by
  cases b <;> rfl

/-- a line with tokens: an error, or one more row -/
theorem npCollect_next (c k : Nat) (ln : Str) (rest : List Str) (t : Str) (ts : List Str) (h : npTokens ln = t :: ts) :
    npCollect c (k + 1) (ln :: rest) = none ∨ ∃ rows2, npCollect c (k + 1) (ln :: rest) = some ((t :: ts) :: rows2) := by
  simp only [npCollect, h, List.isEmpty_cons, Bool.false_eq_true, ↓reduceIte]
  by_cases hl : ((t :: ts).length != c) = true
  · left; rw [if_pos hl]
  · rw [if_neg hl]
    cases npCollect c k rest with
    | none => left; rfl
    | some r => right; exact ⟨r, rfl⟩

/-- genfromtxt over the body: the rows, then it goes on with the remaining budget -/
theorem body_npCollect {c : Nat} (hc : 0 < c) {body : List Str} {rows : List (List Str)} (h : Body c body rows)
    (after : List Str) (k : Nat) :
    npCollect c (rows.length + k) (body ++ after) = (npCollect c k after).map (rows ++ ·) := by
  induction h with
  | nil => simp
  | skip hs _ ih => rw [List.cons_append, npCollect_skip _ _ _ _ (npTokens_skip hs)]; exact ih
  | @row ln toks ls rows' hr hl _ ih =>
    have e : (toks :: rows').length + k = (rows'.length + k) + 1 := by simp; omega
    rw [List.cons_append, e]
    have hne : toks.isEmpty = false := by
      cases toks with
      | nil => simp at hl; omega
      | cons _ _ => rfl
    simp only [npCollect, npTokens_row hr, hne, Bool.false_eq_true, ↓reduceIte, hl, bne_self_eq_false]
    rw [ih]
    cases npCollect c k after <;> simp

theorem body_npFirstCount {c : Nat} (hc : 0 < c) {body : List Str} {rows : List (List Str)} (h : Body c body rows)
    (hr : rows ≠ []) (after : List Str) : npFirstCount (body ++ after) = some c := by
  induction h with
  | nil => exact absurd rfl hr
  | skip hs _ ih => simp only [List.cons_append, npFirstCount, npTokens_skip hs]; exact ih hr
  | @row ln toks ls rows' hrow hl _ _ =>
    have hne : toks.isEmpty = false := by
      cases toks with
      | nil => simp at hl; omega
      | cons _ _ => rfl
    simp [npFirstCount, npTokens_row hrow, hne, hl]

/-- the numpy engine gives the matrix columns, or raises; it never gives anything else -/
theorem numpy_plain {ft : FloatTable} {body after : List Str} {c : Nat} {rows : List (List Str)} (h : PlainData ft body after c rows) :
    numpyEngineLines ft body.length (body ++ after) = some (matrixColumns ft c rows) ∨
    numpyEngineLines ft body.length (body ++ after) = none := by
  have hb := body_ne h.body h.rne
  have hm : ¬ body.length < 1 := by
    cases body with
    | nil => exact absurd rfl hb
    | cons _ _ => simp
  obtain ⟨k, hk⟩ : ∃ k, body.length = rows.length + k := ⟨body.length - rows.length, by have := body_length h.body; omega⟩
  unfold numpyEngineLines
  simp only [hm, ↓reduceIte, body_npFirstCount h.cpos h.body h.rne after]
  rw [hk, body_npCollect h.cpos h.body after k]
  have fin : ∀ rows2, allFloatCols ft (columnsOf c (rows ++ rows2)) = none ∨ rows2 = [] →
      (match (some (rows ++ rows2) : Option (List (List Str))) with
        | none => (none : Option (List Column))
        | some rws => allFloatCols ft (columnsOf c rws)) = some (matrixColumns ft c rows) ∨
      (match (some (rows ++ rows2) : Option (List (List Str))) with
        | none => (none : Option (List Column))
        | some rws => allFloatCols ft (columnsOf c rws)) = none := by
    intro rows2 h2
    simp only
    rcases h2 with h2 | rfl
    · exact Or.inr h2
    · simp only [List.append_nil]
      cases hall : allFloatCols ft (columnsOf c rows) with
      | none => exact Or.inr rfl
      | some out => left; rw [allFloatCols_eq ft _ out hall, matrixColumns_eq]
  cases k with
  | zero =>
    rw [npCollect_zero]
    exact fin [] (Or.inr rfl)
  | succ k =>
    rcases h.next with rfl | ⟨ln, rest, t, ts, rfl, htok, hnf⟩
    · rw [npCollect_nil]
      exact fin [] (Or.inr rfl)
    · rcases npCollect_next c k ln rest t ts htok with hx | ⟨rows2, hx⟩
      · rw [hx]; right; rfl
      · rw [hx]
        simp only [Option.map_some]
        apply fin
        left
        have hcol : columnOf (rows ++ (t :: ts) :: rows2) 0 ∈ columnsOf c (rows ++ (t :: ts) :: rows2) := by
          simp only [columnsOf, List.mem_map, List.mem_range]
          exact ⟨0, h.cpos, rfl⟩
        apply allFloatCols_none_of_mem ft _ _ t hcol _ hnf
        simp only [columnOf, List.mem_map]
        exact ⟨t :: ts, by simp, rfl⟩

/-- no blank/comment line in the body, or nothing after the window, and numeric tokens: genfromtxt succeeds -/
theorem numpy_plain_ok {ft : FloatTable} {body after : List Str} {c : Nat} {rows : List (List Str)} (h : PlainData ft body after c rows)
    (hnum : Numeric ft rows) (hpath : body.length = rows.length ∨ after = []) :
    numpyEngineLines ft body.length (body ++ after) = some (matrixColumns ft c rows) := by
  have hb := body_ne h.body h.rne
  have hm : ¬ body.length < 1 := by
    cases body with
    | nil => exact absurd rfl hb
    | cons _ _ => simp
  obtain ⟨k, hk⟩ : ∃ k, body.length = rows.length + k := ⟨body.length - rows.length, by have := body_length h.body; omega⟩
  have hcoll : npCollect c (rows.length + k) (body ++ after) = some rows := by
    rw [body_npCollect h.cpos h.body after k]
    rcases hpath with hp | rfl
    · have : k = 0 := by omega
      subst this; rw [npCollect_zero]; simp
    · rw [npCollect_nil]; simp
  unfold numpyEngineLines
  simp only [hm, ↓reduceIte, body_npFirstCount h.cpos h.body h.rne after]
  rw [hk, hcoll]
  simp only
  rw [matrixColumns_eq]
  apply allFloatCols_of_all
  intro col hcol t ht
  simp only [columnsOf, List.mem_map, List.mem_range] at hcol
  obtain ⟨j, hj, rfl⟩ := hcol
  simp only [columnOf, List.mem_map] at ht
  obtain ⟨r, hr', rfl⟩ := ht
  have hl := body_rows_len h.body r hr'
  have : r.getD j [] ∈ r := by
    rw [List.getD_eq_getElem?_getD, List.getElem?_eq_getElem (by omega)]
    simp
  exact hnum r hr' _ this

/-- a blank/comment line in the body and a following section: genfromtxt raises -/
theorem numpy_plain_raises {ft : FloatTable} {body after : List Str} {c : Nat} {rows : List (List Str)}
    (h : PlainData ft body after c rows) (hskip : rows.length < body.length) (hafter : after ≠ []) :
    numpyEngineLines ft body.length (body ++ after) = none := by
  have hm : ¬ body.length < 1 := by omega
  obtain ⟨k, hk⟩ : ∃ k, body.length = rows.length + (k + 1) := ⟨body.length - rows.length - 1, by omega⟩
  unfold numpyEngineLines
  simp only [hm, ↓reduceIte, body_npFirstCount h.cpos h.body h.rne after]
  rw [hk, body_npCollect h.cpos h.body after (k + 1)]
  rcases h.next with rfl | ⟨ln, rest, t, ts, rfl, htok, hnf⟩
  · exact absurd rfl hafter
  · rcases npCollect_next c k ln rest t ts htok with hx | ⟨rows2, hx⟩
    · rw [hx]; rfl
    · rw [hx]
      simp only [Option.map_some]
      have hcol : columnOf (rows ++ (t :: ts) :: rows2) 0 ∈ columnsOf c (rows ++ (t :: ts) :: rows2) := by
        simp only [columnsOf, List.mem_map, List.mem_range]
        exact ⟨0, h.cpos, rfl⟩
      apply allFloatCols_none_of_mem ft _ _ t hcol _ hnf
      simp only [columnOf, List.mem_map]
      exact ⟨t :: ts, by simp, rfl⟩

/-! ### the normal engine on plain data -/

theorem normal_plain (ft : FloatTable) (sb : Subs) {body : List Str} {c : Nat} {rows : List (List Str)}
    (h : Body c body rows) (hc : 0 < c) (hr : rows ≠ []) :
    normalEngineLines ft sb .space c body = .ok (matrixColumns ft c rows) :=
  C07_binding ft sb .space body rows c hc hr (body_rows_len h) (body_normalTokens sb h)

/-- On the body given explicitly both engines give the r × c token matrix (numeric tokens, `n_columns = c`,
`max_rows ≥ r`). -/
theorem C02_engines_agree_body (ft : FloatTable) (sb : Subs) {body : List Str} {c : Nat} {rows : List (List Str)}
    (h : Body c body rows) (hc : 0 < c) (hr : rows ≠ []) (hnum : Numeric ft rows) :
    normalEngineLines ft sb .space c body = .ok (matrixColumns ft c rows) ∧
    numpyEngineLines ft body.length body = some (matrixColumns ft c rows) := by
  refine ⟨normal_plain ft sb h hc hr, ?_⟩
  have hp : PlainData ft body [] c rows := ⟨h, hc, hr, Or.inl rfl⟩
  have := numpy_plain_ok hp hnum (Or.inr rfl)
  simpa using this

/-! ### `readData` -/

/-- the curves `readData` builds from the matrix -/
def plainResult (ft : FloatTable) (p : NullPolicy) (st : Steer) (d c : Nat) (rows : List (List Str)) : List (Slot × Column) :=
  assignCurves d (applyNull (p == .strict) st.nullValue (matrixColumns ft c rows))

theorem readerColumns_plain (st : Steer) (d c : Nat) (hw : st.wrapped ≠ yesTxt) : readerColumns st d (some c) = c := by
  have : (st.wrapped == yesTxt) = false := by simpa using hw
  simp [readerColumns, this]

/-- the normal engine's end result on plain data (WRAP ≠ YES) -/
theorem C02_normal_value (ft : FloatTable) (e : Engine) (p : NullPolicy) (st : Steer) (d : Nat) (pre : List Str) (title : Str)
    {body after : List Str} {c : Nat} {rows : List (List Str)} (h : PlainData ft body after c rows)
    (hdlm : st.delimiter = .space) (hw : st.wrapped ≠ yesTxt)
    (heng : effectiveEngine ⟨e, p⟩ st = .normal) :
    readData ⟨e, p⟩ (pre ++ title :: (body ++ after)) pre.length (pre.length + body.length) st d ft =
      .ok (.normal, plainResult ft p st d c rows) := by
  obtain ⟨sb', hs⟩ := sniffTwice_plain (readSubs .space) pre title (after := after) h.body h.rne
  unfold readData
  simp only [hdlm, hs, heng, readerColumns_plain st d c hw]
  unfold normalEngine
  rw [(C02_window pre title body after (body_ne h.body h.rne)).1, normal_plain ft sb' h.body h.cpos h.rne]
  rfl

/-- **Engines agree**: on plain data the default fast engine and the pure-Python engine give the same curves. -/
theorem C02_engines_agree (ft : FloatTable) (p : NullPolicy) (st : Steer) (d : Nat) (pre : List Str) (title : Str)
    {body after : List Str} {c : Nat} {rows : List (List Str)} (h : PlainData ft body after c rows)
    (hdlm : st.delimiter = .space) :
    (readData ⟨.numpy, p⟩ (pre ++ title :: (body ++ after)) pre.length (pre.length + body.length) st d ft).map Prod.snd =
    (readData ⟨.normal, p⟩ (pre ++ title :: (body ++ after)) pre.length (pre.length + body.length) st d ft).map Prod.snd := by
  by_cases heff : effectiveEngine ⟨.numpy, p⟩ st = .normal
  · -- wrapped file or non-strict policy: the same engine runs in both cases
    have heff2 : effectiveEngine ⟨.normal, p⟩ st = .normal := by
      unfold effectiveEngine; split <;> rfl
    unfold readData
    simp only [heff, heff2]
  · have hnp : effectiveEngine ⟨.numpy, p⟩ st = .numpy := by
      cases hh : effectiveEngine ⟨.numpy, p⟩ st with
      | numpy => rfl
      | normal => exact absurd hh heff
    have hw : st.wrapped ≠ yesTxt := by
      intro e
      apply heff
      unfold effectiveEngine
      simp [e]
    have hn : effectiveEngine ⟨.normal, p⟩ st = .normal := by
      unfold effectiveEngine; split <;> rfl
    rw [C02_normal_value ft .normal p st d pre title h hdlm hw hn]
    obtain ⟨sb', hs⟩ := sniffTwice_plain (readSubs .space) pre title (after := after) h.body h.rne
    unfold readData
    simp only [hdlm, hs, hnp, readerColumns_plain st d c hw]
    unfold numpyEngine normalEngine
    obtain ⟨hw1, hw2, hw3⟩ := C02_window pre title body after (body_ne h.body h.rne)
    rw [hw1, hw2, hw3, normal_plain ft sb' h.body h.cpos h.rne]
    rcases numpy_plain h with hnpy | hnpy <;> rw [hnpy] <;> rfl

/-- **No silent fallback**: numeric plain data, WRAP ≠ YES, strict policy, and no blank/comment line in the body or nothing after
the window ⇒ the numpy engine itself produced the curves. -/
theorem C02_numpy_path (ft : FloatTable) (st : Steer) (d : Nat) (pre : List Str) (title : Str)
    {body after : List Str} {c : Nat} {rows : List (List Str)} (h : PlainData ft body after c rows) (hnum : Numeric ft rows)
    (hdlm : st.delimiter = .space) (hw : st.wrapped ≠ yesTxt)
    (hpath : body.length = rows.length ∨ after = []) :
    readData ⟨.numpy, .strict⟩ (pre ++ title :: (body ++ after)) pre.length (pre.length + body.length) st d ft =
      .ok (.numpy, plainResult ft .strict st d c rows) := by
  have hnp : effectiveEngine ⟨.numpy, .strict⟩ st = .numpy := by
    have : (st.wrapped == yesTxt) = false := by simpa using hw
    simp [effectiveEngine, this]
  obtain ⟨sb', hs⟩ := sniffTwice_plain (readSubs .space) pre title (after := after) h.body h.rne
  unfold readData
  simp only [hdlm, hs, hnp]
  unfold numpyEngine
  obtain ⟨_, hw2, hw3⟩ := C02_window pre title body after (body_ne h.body h.rne)
  rw [hw2, hw3, numpy_plain_ok h hnum hpath]
  rfl

/-- **Fallback**: a blank/comment line inside the body and a following section ⇒ genfromtxt (whose `max_rows` counts rows, not
lines) runs into the next title line and raises; the normal engine produces the (same) curves. -/
theorem C02_fallback (ft : FloatTable) (st : Steer) (d : Nat) (pre : List Str) (title : Str)
    {body after : List Str} {c : Nat} {rows : List (List Str)} (h : PlainData ft body after c rows)
    (hdlm : st.delimiter = .space) (hw : st.wrapped ≠ yesTxt)
    (hskip : rows.length < body.length) (hafter : after ≠ []) :
    numpyEngine ft (pre ++ title :: (body ++ after)) pre.length (pre.length + body.length) = none ∧
    readData ⟨.numpy, .strict⟩ (pre ++ title :: (body ++ after)) pre.length (pre.length + body.length) st d ft =
      .ok (.normal, plainResult ft .strict st d c rows) := by
  obtain ⟨hw1, hw2, hw3⟩ := C02_window pre title body after (body_ne h.body h.rne)
  have hraise : numpyEngine ft (pre ++ title :: (body ++ after)) pre.length (pre.length + body.length) = none := by
    unfold numpyEngine
    rw [hw2, hw3]
    exact numpy_plain_raises h hskip hafter
  refine ⟨hraise, ?_⟩
  have hnp : effectiveEngine ⟨.numpy, .strict⟩ st = .numpy := by
    have : (st.wrapped == yesTxt) = false := by simpa using hw
    simp [effectiveEngine, this]
  obtain ⟨sb', hs⟩ := sniffTwice_plain (readSubs .space) pre title (after := after) h.body h.rne
  unfold readData
  simp only [hdlm, hs, hnp, hraise, readerColumns_plain st d c hw]
  unfold normalEngine
  rw [hw1, normal_plain ft sb' h.body h.cpos h.rne]
  rfl

end Lasio.Dt
