import LasioModel.Data
import LasioProofs.Lemmas.DataLemmas
/-
C02 — the numpy engine and the normal engine give the same curves on plain data sections.

Domain (`PlainData`): the file is `pre ++ title :: (body ++ after)`, the ~A window is `(first, last) = (|pre|, |pre| + |body|)`
(what `find_sections_in_file` returns: title line and inclusive last line), every body line is a blank line, a `#` comment
line, or `c ≥ 1` *quiet* tokens separated/padded by blanks (any Python whitespace, so blanks, TABs, `\r`), at least one row,
default delimiter; the window ends at the end of the file or right before a line whose first token is not a number
(a section title: `float()` rejects every token starting with `~`).

A *quiet* token (`QuietTok`, Lemmas/DataLemmas.lean) contains no blank, quote, `#`, ctrl-Z and none of the three read substitutions
matches inside it; `subs_id_on_plain` / `quietTok_of_simple` show that every token made of the characters `0-9 + - . e E` with at
most one `.` and no digit immediately before a `-` is quiet — this covers every plain decimal number
`[+-]?(\d+\.?\d*|\.\d+)([eE][+-]?\d+)?`.

* `C02_window`            : the normal engine visits exactly the body lines; the numpy engine gets `body ++ after` and `max_rows = |body|`;
* `C02_engines_agree_body`: on the body alone both engines give the r × c token matrix (numeric tokens);
* `C02_normal_value`      : the normal engine's end result, explicitly;
* `C02_engines_agree`     : `readData` with engine numpy and with engine normal give the same curves (for ANY quiet tokens, numeric or
                            not, any NULL, any number of declared curves, both null policies, any WRAP value);
* `C02_numpy_path`        : numeric tokens, WRAP ≠ YES, strict policy, and (no blank/comment line in the body OR nothing after the
                            window) ⇒ the numpy engine itself produced the result (no silent fallback);
* `C02_fallback`          : complement — a blank/comment line in the body AND a following section ⇒ genfromtxt raises and the
                            normal engine is used (the result is still the same by `C02_engines_agree`);
* counter-examples for the hypotheses.
-/
namespace Lasio.Dt

/-! ### the window -/

/-- what the two engines are given: the normal engine visits exactly the body; the numpy engine gets everything after the title
and `max_rows = |body|` (`Body`, `PlainData`, `Numeric` are defined in Lemmas/DataLemmas.lean) -/
theorem C02_window (pre : List Str) (title : Str) (body after : List Str) :
    bodyLines (pre ++ title :: (body ++ after)) pre.length (pre.length + body.length) = body ∧
    (pre ++ title :: (body ++ after)).drop (pre.length + 1) = body ++ after ∧
    (pre.length + body.length) - pre.length = body.length :=
  window_plain pre title body after

/-- On the body given explicitly both engines give the r × c token matrix (numeric tokens, `n_columns = c`,
`max_rows ≥ r`). -/
theorem C02_engines_agree_body (ft : FloatTable) (sb : Subs) {body : List Str} {c : Nat} {rows : List (List Str)}
    (h : Body c body rows) (hc : 0 < c) (hr : rows ≠ []) (hnum : Numeric ft rows) :
    normalEngineLines ft sb .space c body = .ok (matrixColumns ft c rows) ∧
    numpyEngineLines ft body.length body = some (matrixColumns ft c rows) := by
  refine ⟨normal_plain ft sb h hc hr, ?_⟩
  have hp : PlainData ft body [] c rows := ⟨h, hc, hr, Or.inl rfl⟩
  have := numpy_plain_ok hp hnum (Or.inr rfl)
  simpa using this

/-! ### `readData` -/

/-- the normal engine's end result on plain data (WRAP ≠ YES) -/
theorem C02_normal_value (ft : FloatTable) (e : Engine) (p : NullPolicy) (st : Steer) (d : Nat) (pre : List Str) (title : Str)
    {body after : List Str} {c : Nat} {rows : List (List Str)} (h : PlainData ft body after c rows)
    (hdlm : st.delimiter = .space) (hw : st.wrapped ≠ yesTxt)
    (heng : effectiveEngine ⟨e, p⟩ st = .normal) :
    readData ⟨e, p⟩ (pre ++ title :: (body ++ after)) pre.length (pre.length + body.length) st d ft =
      .ok (.normal, plainResult ft p st d c rows) := by
  obtain ⟨sb', hs⟩ := sniffTwice_plain (readSubs .space) pre title (after := after) h.body h.rne
  unfold readData
  simp only [hdlm, hs, heng, readerColumns_plain st d c hw]
  unfold normalEngine
  rw [(window_plain pre title body after).1, normal_plain ft sb' h.body h.cpos h.rne]
  rfl

/-- **Engines agree**: on plain data the default fast engine and the pure-Python engine give the same curves. -/
theorem C02_engines_agree (ft : FloatTable) (p : NullPolicy) (st : Steer) (d : Nat) (pre : List Str) (title : Str)
    {body after : List Str} {c : Nat} {rows : List (List Str)} (h : PlainData ft body after c rows)
    (hdlm : st.delimiter = .space) :
    (readData ⟨.numpy, p⟩ (pre ++ title :: (body ++ after)) pre.length (pre.length + body.length) st d ft).map Prod.snd =
    (readData ⟨.normal, p⟩ (pre ++ title :: (body ++ after)) pre.length (pre.length + body.length) st d ft).map Prod.snd := by
  by_cases heff : effectiveEngine ⟨.numpy, p⟩ st = .normal
  · -- wrapped file or non-strict policy: the same engine runs in both cases
    have heff2 : effectiveEngine ⟨.normal, p⟩ st = .normal := by
      unfold effectiveEngine; split <;> rfl
    unfold readData
    simp only [heff, heff2]
  · have hnp : effectiveEngine ⟨.numpy, p⟩ st = .numpy := by
      cases hh : effectiveEngine ⟨.numpy, p⟩ st with
      | numpy => rfl
      | normal => exact absurd hh heff
    have hw : st.wrapped ≠ yesTxt := by
      intro e
      apply heff
      unfold effectiveEngine
      simp [e]
    have hn : effectiveEngine ⟨.normal, p⟩ st = .normal := by
      unfold effectiveEngine; split <;> rfl
    rw [C02_normal_value ft .normal p st d pre title h hdlm hw hn]
    obtain ⟨sb', hs⟩ := sniffTwice_plain (readSubs .space) pre title (after := after) h.body h.rne
    unfold readData
    simp only [hdlm, hs, hnp, readerColumns_plain st d c hw]
    unfold numpyEngine normalEngine
    obtain ⟨hw1, hw2, hw3⟩ := window_plain pre title body after
    rw [hw1, hw2, hw3, normal_plain ft sb' h.body h.cpos h.rne]
    rcases numpy_plain h with hnpy | hnpy <;> rw [hnpy] <;> rfl

/-- **No silent fallback**: numeric plain data, WRAP ≠ YES, strict policy, and no blank/comment line in the body or nothing after
the window ⇒ the numpy engine itself produced the curves. -/
theorem C02_numpy_path (ft : FloatTable) (st : Steer) (d : Nat) (pre : List Str) (title : Str)
    {body after : List Str} {c : Nat} {rows : List (List Str)} (h : PlainData ft body after c rows) (hnum : Numeric ft rows)
    (hdlm : st.delimiter = .space) (hw : st.wrapped ≠ yesTxt)
    (hpath : body.length = rows.length ∨ after = []) :
    readData ⟨.numpy, .strict⟩ (pre ++ title :: (body ++ after)) pre.length (pre.length + body.length) st d ft =
      .ok (.numpy, plainResult ft .strict st d c rows) := by
  have hnp : effectiveEngine ⟨.numpy, .strict⟩ st = .numpy := by
    have : (st.wrapped == yesTxt) = false := by simpa using hw
    simp [effectiveEngine, this]
  obtain ⟨sb', hs⟩ := sniffTwice_plain (readSubs .space) pre title (after := after) h.body h.rne
  unfold readData
  simp only [hdlm, hs, hnp]
  unfold numpyEngine
  obtain ⟨_, hw2, hw3⟩ := window_plain pre title body after
  rw [hw2, hw3, numpy_plain_ok h hnum hpath]
  rfl

/-- **Fallback**: a blank/comment line inside the body and a following section ⇒ genfromtxt (whose `max_rows` counts rows, not
lines) runs into the next title line and raises; the normal engine produces the (same) curves. -/
theorem C02_fallback (ft : FloatTable) (st : Steer) (d : Nat) (pre : List Str) (title : Str)
    {body after : List Str} {c : Nat} {rows : List (List Str)} (h : PlainData ft body after c rows)
    (hdlm : st.delimiter = .space) (hw : st.wrapped ≠ yesTxt)
    (hskip : rows.length < body.length) (hafter : after ≠ []) :
    numpyEngine ft (pre ++ title :: (body ++ after)) pre.length (pre.length + body.length) = none ∧
    readData ⟨.numpy, .strict⟩ (pre ++ title :: (body ++ after)) pre.length (pre.length + body.length) st d ft =
      .ok (.normal, plainResult ft .strict st d c rows) := by
  obtain ⟨hw1, hw2, hw3⟩ := window_plain pre title body after
  have hraise : numpyEngine ft (pre ++ title :: (body ++ after)) pre.length (pre.length + body.length) = none := by
    unfold numpyEngine
    rw [hw2, hw3]
    exact numpy_plain_raises h hskip hafter
  refine ⟨hraise, ?_⟩
  have hnp : effectiveEngine ⟨.numpy, .strict⟩ st = .numpy := by
    have : (st.wrapped == yesTxt) = false := by simpa using hw
    simp [effectiveEngine, this]
  obtain ⟨sb', hs⟩ := sniffTwice_plain (readSubs .space) pre title (after := after) h.body h.rne
  unfold readData
  simp only [hdlm, hs, hnp, hraise, readerColumns_plain st d c hw]
  unfold normalEngine
  rw [hw1, normal_plain ft sb' h.body h.cpos h.rne]
  rfl

/-! ### plain decimal numbers are in the domain -/

/-- The read substitutions (any subset of them) are the identity on a plain decimal token: characters `0-9 + - . e E`, at most
one `.`, no digit immediately before a `-`. -/
theorem subs_id_on_plain (sb : Subs) (t : Str) (h : simplePlain t = true) : applySubs sb t = t :=
  applySubs_core sb (Core.one (quietTok_of_simple t h))

/-- every plain decimal number `[+-]?(\d+\.?\d*|\.\d+)([eE][+-]?\d+)?` (recognised by the automaton `isPlainDecimal`, which the
harness compares with lasio's `numeric_literal_regex.fullmatch`) is a quiet token: the read substitutions leave it alone -/
theorem C02_plain_decimal_quiet (t : Str) (h : isPlainDecimal t = true) : QuietTok t ∧ ∀ sb, applySubs sb t = t :=
  ⟨quietTok_of_simple t (simplePlain_of_grammar t h), fun sb => subs_id_on_plain sb t (simplePlain_of_grammar t h)⟩

/-- the spellings the property text lists, and some more -/
example : ∀ t ∈ ["5", "5.", ".5", "+3", "-4e2", "1E+2", "-999.25", "-9.9925E2", "007", "1e-3", "-.5", "6.02e+23"].map String.toList,
    simplePlain t = true := by decide

/-- dates and run-on numbers are outside the domain: a substitution fires -/
example : simplePlain "2018-05-22".toList = false ∧ simplePlain "1.5-2.5".toList = false ∧ simplePlain "1.2.3".toList = false := by
  decide

/-! ### non-vacuity and necessity of the hypotheses -/

def c02s (s : String) : Str := s.toList

def ft4 : FloatTable := [(c02s "1", c02s "a1"), (c02s "2", c02s "a2"), (c02s "3", c02s "a3"), (c02s "4", c02s "a4")]

/-- `"1 2\n"`, a blank line, `" 3\t4 \r\n"`: a plain body with rows [1,2],[3,4] -/
theorem C02_example_body : Body 2 [c02s "1 2\n", c02s "\n", c02s " 3\t4 \r\n"] [[c02s "1", c02s "2"], [c02s "3", c02s "4"]] := by
  apply Body.row (toks := [c02s "1", c02s "2"])
  · exact ⟨[], c02s "1 2", c02s "\n", allWs_dec _ (by decide), allWs_dec _ (by decide),
      Core.cons (t := c02s "1") (sep := c02s " ") (quiet_digit "1" (by decide)) (by decide) (allWs_dec _ (by decide))
        (Core.one (quiet_digit "2" (by decide))), rfl⟩
  · rfl
  apply Body.skip
  · exact Or.inl (allWs_dec _ (by decide))
  apply Body.row (toks := [c02s "3", c02s "4"])
  · exact ⟨c02s " ", c02s "3\t4", c02s " \r\n", allWs_dec _ (by decide), allWs_dec _ (by decide),
      Core.cons (t := c02s "3") (sep := c02s "\t") (quiet_digit "3" (by decide)) (by decide) (allWs_dec _ (by decide))
        (Core.one (quiet_digit "4" (by decide))), rfl⟩
  · rfl
  exact Body.nil

/-- the domain is inhabited: the body above as the last section of the file … -/
theorem C02_example_last : PlainData ft4 [c02s "1 2\n", c02s "\n", c02s " 3\t4 \r\n"] [] 2 [[c02s "1", c02s "2"], [c02s "3", c02s "4"]] :=
  ⟨C02_example_body, by decide, by decide, Or.inl rfl⟩

/-- … and followed by a ~P section -/
theorem C02_example_inner :
    PlainData ft4 [c02s "1 2\n", c02s "\n", c02s " 3\t4 \r\n"] [c02s "~P\n", c02s "X. 5 : d\n"] 2 [[c02s "1", c02s "2"], [c02s "3", c02s "4"]] :=
  ⟨C02_example_body, by decide, by decide, Or.inr ⟨c02s "~P\n", [c02s "X. 5 : d\n"], c02s "~P", [], rfl, by rfl, by rfl⟩⟩

def stNo : Steer := ⟨true, c02s "NO", none, .space⟩

/-- last section with a blank line: the numpy engine itself answers (instance of `C02_numpy_path`) -/
example : readData ⟨.numpy, .strict⟩ ([c02s "~V\n"] ++ c02s "~A\n" :: ([c02s "1 2\n", c02s "\n", c02s " 3\t4 \r\n"] ++ [])) 1 (1 + 3) stNo 2 ft4 =
    .ok (.numpy, [(.declared 0, .floats [c02s "a1", c02s "a3"]), (.declared 1, .floats [c02s "a2", c02s "a4"])]) :=
  C02_numpy_path ft4 stNo 2 [c02s "~V\n"] (c02s "~A\n") C02_example_last (by unfold Numeric; decide) rfl (by decide) (Or.inr rfl)

/-- the same body followed by ~P: genfromtxt raises, the normal engine answers — the silent fallback inside the domain
(instance of `C02_fallback`; so `body.length = rows.length ∨ after = []` is necessary in `C02_numpy_path`) -/
theorem C02_numpy_path_needs_hypothesis :
    readData ⟨.numpy, .strict⟩ ([c02s "~V\n"] ++ c02s "~A\n" :: ([c02s "1 2\n", c02s "\n", c02s " 3\t4 \r\n"] ++ [c02s "~P\n", c02s "X. 5 : d\n"]))
      1 (1 + 3) stNo 2 ft4 =
    .ok (.normal, [(.declared 0, .floats [c02s "a1", c02s "a3"]), (.declared 1, .floats [c02s "a2", c02s "a4"])]) :=
  (C02_fallback ft4 stNo 2 [c02s "~V\n"] (c02s "~A\n") C02_example_inner rfl (by decide) (by decide) (by decide)).2

/-- `Numeric` is necessary in `C02_numpy_path`: a text cell makes genfromtxt raise (the curves still agree) -/
theorem C02_numeric_needed :
    readData ⟨.numpy, .strict⟩ [c02s "~A\n", c02s "1 abc\n"] 0 1 stNo 2 ft4 =
      .ok (.normal, [(.declared 0, .floats [c02s "a1"]), (.declared 1, .text [c02s "abc"])]) := by rfl

/-- `PlainData.next` is necessary in `C02_engines_agree`: if the line after the window were one more numeric row (impossible for a
window computed by `find_sections_in_file`, which ends right before a `~` line) genfromtxt would read it after a blank line -/
theorem C02_next_needed :
    readData ⟨.numpy, .strict⟩ [c02s "~A\n", c02s "1 2\n", c02s "\n", c02s "3 4\n"] 0 2 stNo 2 ft4 =
      .ok (.numpy, [(.declared 0, .floats [c02s "a1", c02s "a3"]), (.declared 1, .floats [c02s "a2", c02s "a4"])]) ∧
    readData ⟨.normal, .strict⟩ [c02s "~A\n", c02s "1 2\n", c02s "\n", c02s "3 4\n"] 0 2 stNo 2 ft4 =
      .ok (.normal, [(.declared 0, .floats [c02s "a1"]), (.declared 1, .floats [c02s "a2"])]) := ⟨by rfl, by rfl⟩

/-- Zero data rows (`PlainData.rne` fails): the engines agree here as well — a section of blank/comment lines only gives no
columns with either engine (since lasio 627c42f the numpy engine reshapes an empty genfromtxt result to (0, 0); before, it gave
one empty column and an extra unnamed curve when no curve was declared). -/
theorem C02_engines_agree_empty (ft : FloatTable) (p : NullPolicy) (st : Steer) (d : Nat) (pre : List Str) (title : Str)
    (body after : List Str) (hskips : ∀ ln ∈ body, SkipLine ln)
    (next : after = [] ∨ ∃ ln rest t ts, after = ln :: rest ∧ npTokens ln = t :: ts ∧ toFloat ft t = none)
    (hdlm : st.delimiter = .space) :
    (readData ⟨.numpy, p⟩ (pre ++ title :: (body ++ after)) pre.length (pre.length + body.length) st d ft).map Prod.snd =
    (readData ⟨.normal, p⟩ (pre ++ title :: (body ++ after)) pre.length (pre.length + body.length) st d ft).map Prod.snd := by
  obtain ⟨hw1, hw2, hw3⟩ := window_plain pre title body after
  have hn : effectiveEngine ⟨.normal, p⟩ st = .normal := by
    unfold effectiveEngine; split <;> rfl
  unfold readData
  simp only [hdlm, hn]
  generalize sniffTwice (readSubs Dlm.space) Dlm.space (pre ++ title :: (body ++ after)) pre.length (pre.length + body.length) = sn
  obtain ⟨sb', cnt⟩ := sn
  simp only
  unfold normalEngine numpyEngine
  rw [hw1, hw2, hw3, normal_empty ft sb' _ body hskips]
  cases effectiveEngine ⟨.numpy, p⟩ st with
  | normal => rfl
  | numpy =>
    simp only
    rcases numpy_empty ft body after hskips next with h | h <;> rw [h] <;> rfl

/-- concrete instance: blank line only, no declared curve — both engines return no curve at all -/
theorem C02_rows_needed :
    readData ⟨.numpy, .strict⟩ [c02s "~A\n", c02s "\n"] 0 1 stNo 0 ft4 = .ok (.numpy, []) ∧
    readData ⟨.normal, .strict⟩ [c02s "~A\n", c02s "\n"] 0 1 stNo 0 ft4 = .ok (.normal, []) := ⟨by rfl, by rfl⟩

end Lasio.Dt

#print axioms Lasio.Dt.C02_window
#print axioms Lasio.Dt.C02_engines_agree_body
#print axioms Lasio.Dt.C02_normal_value
#print axioms Lasio.Dt.C02_engines_agree
#print axioms Lasio.Dt.C02_numpy_path
#print axioms Lasio.Dt.C02_fallback
#print axioms Lasio.Dt.subs_id_on_plain
#print axioms Lasio.Dt.C02_plain_decimal_quiet
#print axioms Lasio.Dt.C02_numpy_path_needs_hypothesis
#print axioms Lasio.Dt.C02_numeric_needed
#print axioms Lasio.Dt.C02_next_needed
#print axioms Lasio.Dt.C02_engines_agree_empty
#print axioms Lasio.Dt.C02_rows_needed
