import LasioProofs.Lemmas.TransformSim
import LasioProofs.Props.C02
import LasioProofs.Props.C04
import LasioProofs.Props.C05
/-
C09 — reading is invariant under presentation-only changes of the text.

Models: the transformations `LasioModel/Transform.lean` (`Lasio.Tf`: total functions on the list of physical lines; the harness
applies the same functions to the input of the real reader), the header-level reader `Lasio.Rd`, the data-section reader
`Lasio.Dt`, glued by `Tf.readFull` / `Tf.readModel` (header items of every section, ~Other text, curves of every data section).

WHAT IS PROVED
* line level   `C09_crlf_line`, `C09_lf_line`, `C09_padding_line`, `C09_final_newline_line`: the line functions keep `strip()`,
               hence (`C09_strip_is_all`) every reader sees the same line; `C09_repad_data`: a quote-free data line re-padded is
               the same line for the data reader with the whitespace splitter (items for every set of substitutions, sniffer
               sample, genfromtxt tokens); `C09_header_padding`: two layouts of conformant fields parse to the same fields (C04).
* window level `C09_blank_data`, `C09_comment_data` (via `C09_skip_data`): flat item sequence, sniffer (21-line sample, hyphen
               rule) and `readData` unchanged, the engine possibly changing from numpy to normal; `C09_rewrap`: any
               re-partition of the words of a WRAP=YES section over physical lines; `C09_blank_header`/`C09_comment_header`.
* whole file   `C09_step`: every transformation of the list below, applied to a readable document satisfying its explicit side
               condition `OK`, leaves `readModel` unchanged; `C09_compose`: so does every finite composition whose side
               conditions hold along the way (induction on the list — the step no finite test matrix supplies).
  Covered by `OK`: insBlank, insComment, padLine (title lines included), repadLine for the SPACE delimiter, relayout of a header
  item line (through C04: `Conf`, `PadOK`), crlf, lf, dropFinalNewline, addFinalNewline, rewrap.  NOT covered by `OK` in THIS
  file (`OK = False`): repadLine for TAB / COMMA (for text cells the padding stays inside the cell text: known finding
  dlm-pad-text) and redelim.  For NUMERIC cells both are proved in `Props/C09Redelim.lean`: line, typed-column and window level
  for every pair of delimiters (`C09_redelim_*`), the whole-file statement for repadLine with TAB / COMMA
  (`C09_repad_delimited_file`, the conclusion of `C09_step`); the whole-file statement for redelim is in
  `Props/C09RedelimFile.lean` (`C09_redelim_file_replace`, `C09_redelim_file_insert`: ~Version first, one data section).
* hypotheses   `TildeNotFloat ft` (float() rejects tokens starting with '~'), base readable, and — only when the numpy engine is
               in effect — the two engines agree on every data section of the base (`AgreeAlone`; `C09_agree_of_plain`: true of
               every PlainData section, C02).  Counter-examples: `C09_agree_needed` (mid-line '#'), `C09_quote_needed`,
               `C09_crlf_needs_physical_line`, `C09_rewrap_needs_hyphen_neutral`, `C09_other_is_content`.
-/
namespace Lasio.Tf
open Lasio Lasio.Dt

/-! ## 1. line level -/

/-- everything the readers compute from a physical line is computed from its `strip()` -/
theorem C09_strip_is_all (dlm : Dlm) (a b : Str) (h : strip a = strip b) :
    Rd.isTitle a = Rd.isTitle b ∧ Rd.sline a = Rd.sline b ∧ Rd.lineStrip a = Rd.lineStrip b ∧
    (∀ o p, Rd.lineRes o p a = Rd.lineRes o p b) ∧ DataEq dlm a b :=
  ⟨isTitle_strip_congr h, sline_strip_congr h, lineStrip_strip_congr h, fun o p => lineRes_of_strip o p h, dataEq_of_strip dlm h⟩

/-- LF → CRLF on a physical line (`\n` only at its end): `'\r'` is a blank for `strip()` -/
theorem C09_crlf_line (l : Str) (h : NoInnerNl l) : strip (crlf1 l) = strip l := crlf1_strip l h

/-- the hypothesis is needed: a line feed INSIDE a string is not a line end for the model's `strip` -/
theorem C09_crlf_needs_physical_line : strip (crlf1 "a\nb".toList) ≠ strip "a\nb".toList := by decide

theorem C09_lf_line (l : Str) : strip (lf1 l) = strip l := lf1_strip l

/-- new blanks/TABs around a line (title lines included) -/
theorem C09_padding_line (lead trail l : Str) : strip (padLine1 lead trail l) = strip l := padLine1_strip lead trail l

/-- omitting / adding the final newline: the line without its terminator, the line with one -/
theorem C09_final_newline_line (l : Str) : strip (splitEol l).1 = strip l ∧ strip (termLine l) = strip l :=
  ⟨strip_splitEol l, termLine_strip l⟩

/-- REPAD (SPACE delimiter): every run of blanks between the words of a quote-free data line replaced by another non-empty
run, leading and trailing runs removed: the same items for the normal engine under every set of read substitutions, the same
sample for the sniffer, the same tokens for genfromtxt. -/
theorem C09_repad_data (seps : List Str) (l : Str) (hq : QuoteFree l) : DataEq .space l (relayLine1 .space .space seps l) :=
  relay_space_dataEq seps l hq

/-- more generally: two quote-free lines with the same words -/
theorem C09_repad_data_words (a b : Str) (ha : QuoteFree a) (hb : QuoteFree b) (h : pySplit a = pySplit b) : DataEq .space a b :=
  dataEq_of_words a b ha hb h

/-- quote-free is needed: blanks inside a quoted cell are content -/
theorem C09_quote_needed :
    lineTokens Subs.default .space "\"a  b\" 2".toList ≠
      lineTokens Subs.default .space (relayLine1 .space .space [] "\"a  b\" 2".toList) := by decide

/-- TAB / COMMA: padding blanks stay inside the cell text (numeric cells are unaffected because `float()` strips; text cells
differ: known finding dlm-pad-text) -/
theorem C09_repad_delimited_keeps_padding :
    lineTokens Subs.commaDelimiter .comma (relayLine1 .comma .comma [" , ".toList] "1,abc".toList) = ["1 ".toList, " abc".toList] ∧
    lineTokens Subs.commaDelimiter .comma "1,abc".toList = ["1".toList, "abc".toList] := by decide

/-- HEADER LINE LAYOUT (corollary of `C04_main_all`): two layouts of the same conformant fields, each with admissible
paddings, parse to the same fields -/
theorem C09_header_padding (sec : SecName) (f : Fields) (p0 p1 p2 p3 p4 p5 q0 q1 q2 q3 q4 q5 : Str)
    (hc : Conf sec f) (hp : PadOK sec f p0 p1 p2 p3 p4 p5) (hq : PadOK sec f q0 q1 q2 q3 q4 q5) :
    parseHeaderLine sec (layoutFields f p0 p1 p2 p3 p4 p5) = parseHeaderLine sec (layoutFields f q0 q1 q2 q3 q4 q5) := by
  have e : ∀ a0 a1 a2 a3 a4 a5, layoutFields f a0 a1 a2 a3 a4 a5 = layout f a0 a1 a2 a3 a4 a5 := fun _ _ _ _ _ _ => rfl
  rw [e, e, C04_main_all sec f p0 p1 p2 p3 p4 p5 hc hp, C04_main_all sec f q0 q1 q2 q3 q4 q5 hc hq]

/-- … and at the level of the reader's line loop: a header item line laid out again (`relayoutLine1`: parse, then
`p0 name p1 . unit p2 value p3 : p4 descr p5` with new blanks/TABs) gives the same item, for every parser whose section name is
`sec`; side condition `RelayOK` = the parsed fields are conformant (C04 `Conf`), the paddings met after `strip()` are admissible
(C04 `PadOK`), neither the line nor the mnemonic starts with `#` or `~` -/
theorem C09_header_relayout (o : Rd.ReadOpts) (p : Rd.Parser) (sec : SecName) (hsec : p.sec = sec) (p0 p1 p2 p3 p4 p5 a : Str)
    (f : Fields) (h : RelayOK sec p1 p2 p3 p4 a f) :
    Rd.lineRes o p a = Rd.lineRes o p (relayoutLine1 sec p0 p1 p2 p3 p4 p5 a) :=
  (relayout_lineRes o p sec hsec p0 p1 p2 p3 p4 p5 a f h).1

/-! ## 2. one data window -/

/-- BLANK / COMMENT LINE IN THE DATA SECTION. The window `(first, last)` has the body `b₁ ++ b₂`; a blank or `#` comment line `s`
is inserted anywhere in it — before the first line, between two lines, after the last one — and the window end moves by
one.  For every delimiter and every set of substitutions the flat item sequence of the normal engine and the sniffer's
result (its sample of 21 DATA lines, the hyphen rule) are unchanged; `readData` returns the same curves.  The engine that
produced them may change from numpy to normal (genfromtxt's `max_rows` counts rows, so it runs into the next title line):
this is why, with the numpy engine in effect, the two engines must agree on the base window (`AgreeAlone`). -/
theorem C09_skip_data (o : DataOpts) (st : Steer) (d : Nat) (ft : FloatTable) (A A' : List Str) (t t' : Str)
    (b₁ b₂ after after' : List Str) (s : Str) (hs : SkipLine s)
    (ha : AfterOK ft after) (ha' : AfterOK ft after') (hagree : AgreeAlone o st d ft (b₁ ++ b₂)) :
    (∀ sb dlm, normalTokens sb dlm (b₁ ++ s :: b₂) = normalTokens sb dlm (b₁ ++ b₂)) ∧
    (∀ sb dlm, sniffB sb dlm (b₁ ++ s :: b₂) = sniffB sb dlm (b₁ ++ b₂)) ∧
    (readData o (A' ++ t' :: ((b₁ ++ s :: b₂) ++ after')) A'.length (A'.length + (b₁ ++ s :: b₂).length) st d ft).map Prod.snd =
      (readData o (A ++ t :: ((b₁ ++ b₂) ++ after)) A.length (A.length + (b₁ ++ b₂).length) st d ft).map Prod.snd := by
  have hsim : ∀ dlm, BodySim dlm (b₁ ++ b₂) (b₁ ++ s :: b₂) := fun dlm => bodySim_insert dlm b₁ b₂ s hs
  refine ⟨fun sb dlm => (bodySim_tokens dlm sb (hsim dlm)).symm, fun sb dlm => (bodySim_sniffB dlm sb (hsim dlm)).symm, ?_⟩
  rw [readData_window, readData_window]
  exact (readBody_sim o st d ft (hsim st.delimiter) ha ha' hagree).symm

theorem C09_blank_data (o : DataOpts) (st : Steer) (d : Nat) (ft : FloatTable) (A : List Str) (t : Str)
    (b₁ b₂ after : List Str) (ws : Str) (ha : AfterOK ft after) (hagree : AgreeAlone o st d ft (b₁ ++ b₂)) :
    (readData o (A ++ t :: ((b₁ ++ (blanksOf ws ++ nl) :: b₂) ++ after)) A.length (A.length + (b₁ ++ (blanksOf ws ++ nl) :: b₂).length) st d ft).map Prod.snd =
      (readData o (A ++ t :: ((b₁ ++ b₂) ++ after)) A.length (A.length + (b₁ ++ b₂).length) st d ft).map Prod.snd :=
  (C09_skip_data o st d ft A A t t b₁ b₂ after after _ (blank_skip ws) ha ha hagree).2.2

theorem C09_comment_data (o : DataOpts) (st : Steer) (d : Nat) (ft : FloatTable) (A : List Str) (t : Str)
    (b₁ b₂ after : List Str) (indent text : Str) (ha : AfterOK ft after) (hagree : AgreeAlone o st d ft (b₁ ++ b₂)) :
    (readData o (A ++ t :: ((b₁ ++ (commentLine indent text ++ nl) :: b₂) ++ after)) A.length
        (A.length + (b₁ ++ (commentLine indent text ++ nl) :: b₂).length) st d ft).map Prod.snd =
      (readData o (A ++ t :: ((b₁ ++ b₂) ++ after)) A.length (A.length + (b₁ ++ b₂).length) st d ft).map Prod.snd :=
  (C09_skip_data o st d ft A A t t b₁ b₂ after after _ (comment_skip indent text) ha ha hagree).2.2

/-- with the normal engine in effect (engine='normal', a wrapped file, or a non-strict null policy) nothing is assumed -/
theorem C09_agree_trivial (o : DataOpts) (st : Steer) (d : Nat) (ft : FloatTable) (b : List Str)
    (h : effectiveEngine o st = .normal) : AgreeAlone o st d ft b := agreeAlone_of_normal o st d ft b h

/-- on PlainData (C02's domain: blank lines, comment lines, rows of `c` quiet tokens) the engines agree -/
theorem C09_agree_of_plain (o : DataOpts) (st : Steer) (d : Nat) (ft : FloatTable) {body : List Str} {c : Nat} {rows : List (List Str)}
    (h : PlainData ft body [] c rows) (hdlm : st.delimiter = .space) : AgreeAlone o st d ft body := by
  obtain ⟨e, p⟩ := o
  have h2 := C02_engines_agree ft p st d [] [] h hdlm
  simp only [List.nil_append, List.length_nil, Nat.zero_add] at h2
  have w1 := readData_window ⟨.numpy, p⟩ [] [] body [] st d ft
  have w2 := readData_window ⟨.normal, p⟩ [] [] body [] st d ft
  simp only [List.nil_append, List.length_nil, Nat.zero_add] at w1 w2
  rw [w1, w2] at h2
  have hn : readBody ⟨.normal, p⟩ st d ft body [] = normalRead ⟨.normal, p⟩ st d ft body := by
    have : effectiveEngine ⟨.normal, p⟩ st = .normal := by unfold effectiveEngine; split <;> rfl
    simp only [readBody, this]
  cases e with
  | normal => unfold AgreeAlone; rw [hn]
  | numpy => unfold AgreeAlone; rw [h2, hn]; rfl

def c09s (s : String) : Str := s.toList
def ftH : FloatTable := [(c09s "1", c09s "a1"), (c09s "2", c09s "a2"), (c09s "3", c09s "a3"), (c09s "4", c09s "a4")]
def stH : Steer := ⟨true, c09s "NO", none, .space⟩

/-- `AgreeAlone` is needed (known finding numpy-midline-hash): on `1 2 # t` / `3 4 # u` genfromtxt cuts the lines at '#', the
normal engine does not; a blank line inserted before the second row makes genfromtxt run into `~O`, and the normal engine
answers with four columns -/
theorem C09_agree_needed :
    readData ⟨.numpy, .strict⟩ [c09s "~A\n", c09s "1 2 # t\n", c09s "3 4 # u\n", c09s "~O\n", c09s "x\n"] 0 2 stH 0 ftH =
      .ok (.numpy, [(.extra, .floats [c09s "a1", c09s "a3"]), (.extra, .floats [c09s "a2", c09s "a4"])]) ∧
    readData ⟨.numpy, .strict⟩ [c09s "~A\n", c09s "1 2 # t\n", c09s "\n", c09s "3 4 # u\n", c09s "~O\n", c09s "x\n"] 0 3 stH 0 ftH =
      .ok (.normal, [(.extra, .floats [c09s "a1", c09s "a3"]), (.extra, .floats [c09s "a2", c09s "a4"]),
                     (.extra, .text [c09s "#", c09s "#"]), (.extra, .text [c09s "t", c09s "u"])]) := ⟨by rfl, by rfl⟩

/-- the engine may change while the curves do not: base read by numpy, with the blank line by the normal engine -/
theorem C09_engine_may_change :
    readData ⟨.numpy, .strict⟩ [c09s "~A\n", c09s "1 2\n", c09s "3 4\n", c09s "~O\n"] 0 2 stH 2 ftH =
      .ok (.numpy, [(.declared 0, .floats [c09s "a1", c09s "a3"]), (.declared 1, .floats [c09s "a2", c09s "a4"])]) ∧
    readData ⟨.numpy, .strict⟩ [c09s "~A\n", c09s "1 2\n", c09s "\n", c09s "3 4\n", c09s "~O\n"] 0 3 stH 2 ftH =
      .ok (.normal, [(.declared 0, .floats [c09s "a1", c09s "a3"]), (.declared 1, .floats [c09s "a2", c09s "a4"])]) :=
  ⟨by rfl, by rfl⟩

/-- REWRAP. WRAP declared YES, `d ≥ 1` declared curves, default delimiter; the body satisfies `WrapOK` (quote-free; no token
starts with `#` or `~`; the run-on(-) substitution is neutral on every token).  Laying the words of the data lines out again —
`dcl` words per depth step, each step cut into lines of ANY widths, blank/comment lines moved to the front — gives the same
flat item sequence, hence (`C07_binding` is stated on the flat sequence) the same curves. -/
theorem C09_rewrap (o : DataOpts) (st : Steer) (d : Nat) (ft : FloatTable) (dcl : Nat) (widths : List Nat)
    (A A' : List Str) (t t' : Str) (body after after' : List Str) (hs : WrapSteer st d) (h : WrapOK body) :
    (∀ sb, normalTokens sb .space (rewrapBody dcl widths body) = normalTokens sb .space body) ∧
    readData o (A' ++ t' :: (rewrapBody dcl widths body ++ after')) A'.length (A'.length + (rewrapBody dcl widths body).length) st d ft =
      readData o (A ++ t :: (body ++ after)) A.length (A.length + body.length) st d ft := by
  refine ⟨fun sb => by rw [normalTokens_rewrap sb dcl widths body h, normalTokens_words sb body h.qf], ?_⟩
  rw [readData_window, readData_window]
  exact readBody_rewrap o st d ft dcl widths body after after' hs h

def stW : Steer := ⟨true, c09s "YES", none, .space⟩
def ftD : FloatTable := [(c09s "5", c09s "a5"), (c09s "6", c09s "a6"), (c09s "2018", c09s "b2018"), (c09s "-05", c09s "b-5"),
  (c09s "-22", c09s "b-22"), (c09s "-23", c09s "b-23")]

/-- hyphen-neutrality is needed (known finding rewrap-hyphen-rule): with dates in every row the hyphen rule fires and the dates
survive; one token per line, it does not fire and `2018-05-22` becomes `2018 -05 -22` -/
theorem C09_rewrap_needs_hyphen_neutral :
    readData ⟨.normal, .strict⟩ [c09s "~A\n", c09s "2018-05-22 5\n", c09s "2018-05-23 6\n"] 0 2 stW 2 ftD =
      .ok (.normal, [(.declared 0, .text [c09s "2018-05-22", c09s "2018-05-23"]), (.declared 1, .floats [c09s "a5", c09s "a6"])]) ∧
    rewrapBody 2 [1, 1] [c09s "2018-05-22 5\n", c09s "2018-05-23 6\n"] = [c09s "2018-05-22\n", c09s "5\n", c09s "2018-05-23\n", c09s "6\n"] ∧
    readData ⟨.normal, .strict⟩ [c09s "~A\n", c09s "2018-05-22\n", c09s "5\n", c09s "2018-05-23\n", c09s "6\n"] 0 4 stW 2 ftD =
      .ok (.normal, [(.declared 0, .floats [c09s "b2018", c09s "b-22", c09s "b2018", c09s "b-23"]),
                     (.declared 1, .floats [c09s "b-5", c09s "a5", c09s "b-5", c09s "a6"])]) := ⟨by rfl, by rfl, by rfl⟩

/-- the side conditions are decidable; a wrapped body with numbers, words and a negative value satisfies them, a body with a
date does not (instance of `C09_rewrap` on the first: seven tokens per depth step over lines of 3+4 ↦ one token per line) -/
theorem C09_rewrap_example :
    WrapOK [c09s "1 -2.5 abc\n", c09s "4 5e-3 6 7\n"] ∧ ¬ WrapOK [c09s "2018-05-22 5\n"] ∧ WrapSteer stW 7 ∧
    rewrapBody 7 [1, 1, 1, 1, 1, 1, 1] [c09s "1 -2.5 abc\n", c09s "4 5e-3 6 7\n"] =
      [c09s "1\n", c09s "-2.5\n", c09s "abc\n", c09s "4\n", c09s "5e-3\n", c09s "6\n", c09s "7\n"] := by
  refine ⟨by decide, by decide, by decide, by decide⟩

/-! ## 3. one header section -/

/-- BLANK / COMMENT LINE IN A HEADER SECTION: the section body `l₁ ++ l₂` (no title line inside; `rest` = the rest of the file,
empty or starting with the next title) gets a blank or comment line `s` anywhere, the window end moves by one: the items
loop returns the same items. -/
theorem C09_skip_header (o : Rd.ReadOpts) (p : Rd.Parser) (l₁ l₂ rest : List Str) (first : Nat) (s : Str) (hs : SkipLine s)
    (h₁ : ∀ b ∈ l₁, Rd.isTitle b = false) (h₂ : ∀ b ∈ l₂, Rd.isTitle b = false)
    (hrest : rest = [] ∨ ∃ t r, rest = t :: r ∧ Rd.isTitle t = true) (items : List Rd.RItem)
    (h : Rd.itemsLoop o p (first + (l₁ ++ l₂).length) ((l₁ ++ l₂) ++ rest) first = .ok items) :
    Rd.itemsLoop o p (first + (l₁ ++ s :: l₂).length) ((l₁ ++ s :: l₂) ++ rest) first = .ok items := by
  have hb : ∀ b ∈ l₁ ++ l₂, Rd.isTitle b = false := fun b hb => by
    rcases List.mem_append.mp hb with h | h
    · exact h₁ b h
    · exact h₂ b h
  have hb' : ∀ b ∈ l₁ ++ s :: l₂, Rd.isTitle b = false := fun b hb => by
    rcases List.mem_append.mp hb with h | h
    · exact h₁ b h
    · rcases List.mem_cons.mp h with rfl | h
      · exact skip_not_title hs
      · exact h₂ b h
  rw [(Rd.C05_header_loop o p (l₁ ++ l₂) rest first hb (fun _ => hrest)).1] at h
  rw [(Rd.C05_header_loop o p (l₁ ++ s :: l₂) rest first hb' (fun e => by simp at e)).1]
  exact bodyRun_insert o p l₁ l₂ s hs first first items h

theorem C09_blank_header (o : Rd.ReadOpts) (p : Rd.Parser) (l₁ l₂ rest : List Str) (first : Nat) (ws : Str)
    (h₁ : ∀ b ∈ l₁, Rd.isTitle b = false) (h₂ : ∀ b ∈ l₂, Rd.isTitle b = false)
    (hrest : rest = [] ∨ ∃ t r, rest = t :: r ∧ Rd.isTitle t = true) (items : List Rd.RItem)
    (h : Rd.itemsLoop o p (first + (l₁ ++ l₂).length) ((l₁ ++ l₂) ++ rest) first = .ok items) :
    Rd.itemsLoop o p (first + (l₁ ++ (blanksOf ws ++ nl) :: l₂).length) ((l₁ ++ (blanksOf ws ++ nl) :: l₂) ++ rest) first = .ok items :=
  C09_skip_header o p l₁ l₂ rest first _ (blank_skip ws) h₁ h₂ hrest items h

theorem C09_comment_header (o : Rd.ReadOpts) (p : Rd.Parser) (l₁ l₂ rest : List Str) (first : Nat) (indent text : Str)
    (h₁ : ∀ b ∈ l₁, Rd.isTitle b = false) (h₂ : ∀ b ∈ l₂, Rd.isTitle b = false)
    (hrest : rest = [] ∨ ∃ t r, rest = t :: r ∧ Rd.isTitle t = true) (items : List Rd.RItem)
    (h : Rd.itemsLoop o p (first + (l₁ ++ l₂).length) ((l₁ ++ l₂) ++ rest) first = .ok items) :
    Rd.itemsLoop o p (first + (l₁ ++ (commentLine indent text ++ nl) :: l₂).length)
      ((l₁ ++ (commentLine indent text ++ nl) :: l₂) ++ rest) first = .ok items :=
  C09_skip_header o p l₁ l₂ rest first _ (comment_skip indent text) h₁ h₂ hrest items h

/-- the text of ~Other is content: a blank line inserted there is part of the result (hence `Insertable`) -/
theorem C09_other_is_content :
    Rd.readOther [c09s "~O\n", c09s "a\n", c09s "b\n"] 0 2 = c09s "a\nb" ∧
    Rd.readOther [c09s "~O\n", c09s "a\n", c09s "\n", c09s "b\n"] 0 3 = c09s "a\n\nb" := ⟨by rfl, by rfl⟩

/-! ## 4. the whole file: single steps and compositions -/

/-- The side condition of a transformation on a document `d`; `st`, `dc` are the steering values and the number of declared
curves the (base) file was read with.  `False`: not covered by the whole-file theorem (see the header of this file). -/
def OK (st : Steer) (dc : Nat) : Transform → Doc → Prop
  | .insBlank k _, d => Insertable (ctxAt .pre d k)
  | .insComment k _ _, d => Insertable (ctxAt .pre d k)
  | .padLine _ _ _, _ => True
  | .repadLine k dlm _, d =>
    dlm = .space ∧ st.delimiter = .space ∧
      ∀ a, d[k]? = some a → Rd.isTitle a = false ∧ QuoteFree a ∧ ∃ t, ctxAt .pre d k = .sec t ∧ isDataKind (kindOf t)
  | .relayout k sec _ p1 p2 p3 p4 _, d => RelayoutOK d k sec p1 p2 p3 p4
  | .crlf, d => ∀ l ∈ d, NoInnerNl l
  | .lf, _ => True
  | .dropFinalNewline, d => ∀ l, d.getLast? = some l → (splitEol l).1 = [] → Insertable (ctxAt .pre d (d.length - 1))
  | .addFinalNewline, _ => True
  | .rewrap first last _ _, d =>
    ∃ pre s₁ t body s₂, d = pre ++ Rd.flat (s₁ ++ (t, body) :: s₂) ∧ (∀ x ∈ pre, Rd.isTitle x = false) ∧
      Rd.WellFormed (s₁ ++ (t, body) :: s₂) ∧ first = pre.length + Rd.size s₁ ∧ last = pre.length + Rd.size s₁ + body.length ∧
      isDataKind (kindOf t) ∧ WrapOK body ∧ WrapSteer st dc
  | .redelim _ _ _ _ _ _ _, _ => False

/-- SINGLE STEP. A readable document (`Base`: `readFull d = .ok r`, engines agreeing on its data sections) and one
transformation whose side condition holds: the transformed document is readable with the same steering values and the same
parsed result — header items of all sections, ~Other text, curves of all data sections — and is again a `Base`. -/
theorem C09_step (o : Opts) (nullOf : Option Str → Option Str) (ft : FloatTable) (htf : TildeNotFloat ft)
    (t : Transform) (d : Doc) (r : FullRead) (hb : Base o nullOf ft d r)
    (hok : OK (dtSteer nullOf r.steer) (declaredCount r.sections) t d) :
    ∃ r', Base o nullOf ft (t.apply d) r' ∧ r'.steer = r.steer ∧ r'.parsed = r.parsed := by
  cases t with
  | insBlank k ws => exact base_sim o nullOf ft htf _ d _ r (sim_insBlank _ d k ws hok) hb rfl
  | insComment k i tx => exact base_sim o nullOf ft htf _ d _ r (sim_insComment _ d k i tx hok) hb rfl
  | padLine k a b => exact base_sim o nullOf ft htf _ d _ r (sim_padLine _ d k a b) hb rfl
  | repadLine k dlm seps =>
    obtain ⟨rfl, hd, h⟩ := hok
    exact base_sim o nullOf ft htf .space d _ r (sim_repadLine_space d k seps h) hb hd
  | relayout k sec p0 p1 p2 p3 p4 p5 => exact base_sim o nullOf ft htf _ d _ r (sim_relayout _ d k sec p0 p1 p2 p3 p4 p5 hok) hb rfl
  | crlf => exact base_sim o nullOf ft htf _ d _ r (sim_crlf _ d hok) hb rfl
  | lf => exact base_sim o nullOf ft htf _ d _ r (sim_lf _ d) hb rfl
  | dropFinalNewline => exact base_sim o nullOf ft htf _ d _ r (sim_dropFinalNewline _ d hok) hb rfl
  | addFinalNewline => exact base_sim o nullOf ft htf _ d _ r (sim_addFinalNewline _ d) hb rfl
  | rewrap first last dcl widths =>
    obtain ⟨pre, s₁, t, body, s₂, rfl, hpre, hw, rfl, rfl, hk, hwo, hst⟩ := hok
    exact base_rewrap o nullOf ft htf pre s₁ s₂ t body dcl widths r hpre hw hk hwo hb hst
  | redelim f l vk rp a b seps => exact absurd hok (by simp [OK])

theorem C09_step_readModel (o : Opts) (nullOf : Option Str → Option Str) (ft : FloatTable) (htf : TildeNotFloat ft)
    (t : Transform) (d : Doc) (r : FullRead) (hb : Base o nullOf ft d r)
    (hok : OK (dtSteer nullOf r.steer) (declaredCount r.sections) t d) :
    readModel o nullOf ft (t.apply d) = readModel o nullOf ft d := by
  obtain ⟨r', hb', _, hp⟩ := C09_step o nullOf ft htf t d r hb hok
  unfold readModel
  rw [hb'.read, hb.read]
  simp only [Except.map, hp]

/-- LF → CRLF, whole file: for a TEXT (split into lines as `io.StringIO` does) there is no side condition at all -/
theorem C09_crlf (o : Opts) (nullOf : Option Str → Option Str) (ft : FloatTable) (htf : TildeNotFloat ft) (text : Str) (r : FullRead)
    (hb : Base o nullOf ft (Rd.splitLines text) r) :
    readModel o nullOf ft (crlf (Rd.splitLines text)) = readModel o nullOf ft (Rd.splitLines text) ∧
    readModel o nullOf ft (lf (Rd.splitLines text)) = readModel o nullOf ft (Rd.splitLines text) :=
  ⟨C09_step_readModel o nullOf ft htf .crlf _ r hb (splitLines_physical text),
   C09_step_readModel o nullOf ft htf .lf _ r hb trivial⟩

/-- the final newline, whole file: adding it is always harmless; omitting it is, unless the last line is nothing but its
terminator and stands in a ~Other section (then a line of the ~Other text disappears) -/
theorem C09_final_newline (o : Opts) (nullOf : Option Str → Option Str) (ft : FloatTable) (htf : TildeNotFloat ft) (d : Doc) (r : FullRead)
    (hb : Base o nullOf ft d r)
    (h : ∀ l, d.getLast? = some l → (splitEol l).1 = [] → Insertable (ctxAt .pre d (d.length - 1))) :
    readModel o nullOf ft (dropFinalNewline d) = readModel o nullOf ft d ∧
    readModel o nullOf ft (addFinalNewline d) = readModel o nullOf ft d :=
  ⟨C09_step_readModel o nullOf ft htf .dropFinalNewline d r hb h, C09_step_readModel o nullOf ft htf .addFinalNewline d r hb trivial⟩

/-- a blank line or a '#' comment line (indented or not, whatever its text — hyphens, '~', digits) before ANY line of the file,
or after the last one, provided the place is not inside a ~Other section -/
theorem C09_blank_comment_anywhere (o : Opts) (nullOf : Option Str → Option Str) (ft : FloatTable) (htf : TildeNotFloat ft) (d : Doc)
    (r : FullRead) (hb : Base o nullOf ft d r) (k : Nat) (ws indent text : Str) (hi : Insertable (ctxAt .pre d k)) :
    readModel o nullOf ft (insBlank k ws d) = readModel o nullOf ft d ∧
    readModel o nullOf ft (insComment k indent text d) = readModel o nullOf ft d :=
  ⟨C09_step_readModel o nullOf ft htf (.insBlank k ws) d r hb hi, C09_step_readModel o nullOf ft htf (.insComment k indent text) d r hb hi⟩

/-- new blanks/TABs around any line — header item, title, data, comment, ~Other text -/
theorem C09_padding (o : Opts) (nullOf : Option Str → Option Str) (ft : FloatTable) (htf : TildeNotFloat ft) (d : Doc)
    (r : FullRead) (hb : Base o nullOf ft d r) (k : Nat) (lead trail : Str) :
    readModel o nullOf ft (padLine k lead trail d) = readModel o nullOf ft d :=
  C09_step_readModel o nullOf ft htf (.padLine k lead trail) d r hb trivial

/-- the side conditions hold along the way -/
def Chain (st : Steer) (dc : Nat) : List Transform → Doc → Prop
  | [], _ => True
  | t :: ts, d => OK st dc t d ∧ Chain st dc ts (t.apply d)

/-- COMPOSITION. Any finite list of transformations whose side conditions hold along the way leaves the parsed result of a
readable document unchanged. -/
theorem C09_compose (o : Opts) (nullOf : Option Str → Option Str) (ft : FloatTable) (htf : TildeNotFloat ft)
    (ts : List Transform) (d : Doc) (r : FullRead) (hb : Base o nullOf ft d r)
    (hc : Chain (dtSteer nullOf r.steer) (declaredCount r.sections) ts d) :
    ∃ r', Base o nullOf ft (applyAll ts d) r' ∧ r'.steer = r.steer ∧ r'.parsed = r.parsed := by
  induction ts generalizing d r with
  | nil => exact ⟨r, hb, rfl, rfl⟩
  | cons t ts ih =>
    obtain ⟨hok, hrest⟩ := hc
    obtain ⟨r1, hb1, hs1, hp1⟩ := C09_step o nullOf ft htf t d r hb hok
    have hsec : r1.sections = r.sections := congrArg Parsed.sections hp1
    rw [← hs1, ← hsec] at hrest
    obtain ⟨r2, hb2, hs2, hp2⟩ := ih (t.apply d) r1 hb1 hrest
    exact ⟨r2, hb2, hs2.trans hs1, hp2.trans hp1⟩

/-- … in terms of `readModel` -/
theorem C09_compose_readModel (o : Opts) (nullOf : Option Str → Option Str) (ft : FloatTable) (htf : TildeNotFloat ft)
    (ts : List Transform) (d : Doc) (r : FullRead) (hb : Base o nullOf ft d r)
    (hc : Chain (dtSteer nullOf r.steer) (declaredCount r.sections) ts d) :
    readModel o nullOf ft (applyAll ts d) = readModel o nullOf ft d := by
  obtain ⟨r', hb', _, hp⟩ := C09_compose o nullOf ft htf ts d r hb hc
  unfold readModel
  rw [hb'.read, hb.read]
  simp only [Except.map, hp]

/-- the same on texts (`lasio.read(text)`: `io.StringIO` lines) -/
theorem C09_compose_text (o : Opts) (nullOf : Option Str → Option Str) (ft : FloatTable) (htf : TildeNotFloat ft)
    (ts : List Transform) (text : Str) (r : FullRead) (hb : Base o nullOf ft (Rd.splitLines text) r)
    (hc : Chain (dtSteer nullOf r.steer) (declaredCount r.sections) ts (Rd.splitLines text)) :
    readModel o nullOf ft (applyAll ts (Rd.splitLines text)) = readModel o nullOf ft (Rd.splitLines text) :=
  C09_compose_readModel o nullOf ft htf ts _ r hb hc

/-! ## 5. non-vacuity -/

def exDoc : Doc := [c09s "~V\n", c09s "VERS. 2.0 : v\n", c09s "WRAP. NO : w\n", c09s "~C\n", c09s "A.M : a\n", c09s "B.M : b\n",
  c09s "~A\n", c09s "1 2\n", c09s "3 4\n"]
def exOpts : Opts := ⟨⟨false, .preserve⟩, ⟨.normal, .strict⟩⟩
def exTs : List Transform :=
  [.insBlank 8 (c09s " "), .insComment 1 [] (c09s " 2018-05-22 - note"), .crlf, .padLine 0 (c09s "  ") (c09s "\t"),
   .repadLine 10 .space [c09s "\t\t"], .dropFinalNewline]

/-- what the example file reads to -/
def exRead : FullRead :=
  match readFull exOpts (fun _ => none) ftH exDoc with
  | .ok r => r
  | .error _ => ⟨[], Rd.Steer.init, []⟩

/-- the example file is readable (one data section), so it is a `Base` (engine='normal': nothing to assume) -/
theorem C09_example_base : Base exOpts (fun _ => none) ftH exDoc exRead ∧ exRead.data.length = 1 ∧
    dtSteer (fun _ => none) exRead.steer = stH ∧ declaredCount exRead.sections = 2 := by
  refine ⟨⟨by rfl, fun tb _ _ => agreeAlone_of_normal _ _ _ _ _ (by rfl)⟩, by rfl, by rfl, by rfl⟩

theorem C09_example_tilde : TildeNotFloat ftH := by
  intro t ht
  cases t with
  | nil => simp at ht
  | cons c cs =>
    simp only [List.head?_cons, Option.some.injEq] at ht
    subst ht
    rfl

def exD1 : Doc := (Transform.insBlank 8 (c09s " ")).apply exDoc
def exD2 : Doc := (Transform.insComment 1 [] (c09s " 2018-05-22 - note")).apply exD1
def exD3 : Doc := Transform.crlf.apply exD2
def exD4 : Doc := (Transform.padLine 0 (c09s "  ") (c09s "\t")).apply exD3
def exD5 : Doc := (Transform.repadLine 10 .space [c09s "\t\t"]).apply exD4

/-- the side conditions of six transformations hold along the way: a blank line before the last data row, a comment (with
hyphens) as first line of ~V, CRLF, padding around the ~V title line, new separators in the last data row, no final newline -/
theorem C09_example_chain : Chain stH 2 exTs exDoc := by
  show OK stH 2 _ exDoc ∧ OK stH 2 _ exD1 ∧ OK stH 2 _ exD2 ∧ OK stH 2 _ exD3 ∧ OK stH 2 _ exD4 ∧ OK stH 2 _ exD5 ∧ True
  refine ⟨?_, ?_, ?_, trivial, ?_, ?_, trivial⟩
  · show Insertable (ctxAt .pre exDoc 8); decide
  · show Insertable (ctxAt .pre exD1 1); decide
  · show ∀ l ∈ exD2, NoInnerNl l; decide
  · refine ⟨rfl, rfl, ?_⟩
    intro a ha
    have h2 : exD4[10]? = some (c09s "3 4\r\n") := by decide
    rw [h2] at ha
    have := (Option.some.inj ha).symm
    subst this
    exact ⟨by decide, by decide, c09s "~A\r\n", by decide, by decide⟩
  · intro l hl he
    have h2 : exD5.getLast? = some (c09s "3\t\t4\r\n") := by decide
    rw [h2] at hl
    have := (Option.some.inj hl).symm
    subst this
    exact absurd he (by decide)

/-- … hence (instance of `C09_compose_readModel`) the transformed text reads like the original -/
theorem C09_example :
    applyAll exTs exDoc = [c09s "  ~V\t\r\n", c09s "# 2018-05-22 - note\r\n", c09s "VERS. 2.0 : v\r\n", c09s "WRAP. NO : w\r\n",
      c09s "~C\r\n", c09s "A.M : a\r\n", c09s "B.M : b\r\n", c09s "~A\r\n", c09s "1 2\r\n", c09s " \r\n", c09s "3\t\t4"] ∧
    readModel exOpts (fun _ => none) ftH (applyAll exTs exDoc) = readModel exOpts (fun _ => none) ftH exDoc := by
  obtain ⟨hb, _, hst, hdc⟩ := C09_example_base
  refine ⟨by decide, C09_compose_readModel exOpts _ ftH C09_example_tilde exTs exDoc exRead hb ?_⟩
  rw [hst, hdc]
  exact C09_example_chain

end Lasio.Tf

#print axioms Lasio.Tf.C09_strip_is_all
#print axioms Lasio.Tf.C09_crlf_line
#print axioms Lasio.Tf.C09_repad_data
#print axioms Lasio.Tf.C09_header_padding
#print axioms Lasio.Tf.C09_header_relayout
#print axioms Lasio.Tf.C09_skip_data
#print axioms Lasio.Tf.C09_agree_of_plain
#print axioms Lasio.Tf.C09_rewrap
#print axioms Lasio.Tf.C09_skip_header
#print axioms Lasio.Tf.C09_step
#print axioms Lasio.Tf.C09_crlf
#print axioms Lasio.Tf.C09_final_newline
#print axioms Lasio.Tf.C09_blank_comment_anywhere
#print axioms Lasio.Tf.C09_padding
#print axioms Lasio.Tf.C09_compose
#print axioms Lasio.Tf.C09_compose_readModel
#print axioms Lasio.Tf.C09_example
#print axioms Lasio.Tf.C09_rewrap_example
