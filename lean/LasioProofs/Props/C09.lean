import LasioModel.Transform
/- C09 — placeholder while the harness is brought up (replaced by the proofs) -/
namespace Lasio.Tf

theorem C09_applyAll_nil (d : Doc) : applyAll [] d = d := rfl

end Lasio.Tf
