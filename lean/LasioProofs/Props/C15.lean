import LasioModel.Section
/-
C15 — Section lookup by key, attribute, membership and get() always agree.
Stated for EVERY section value `s` (not only reachable ones), every key, both settings of
`mnemonic_transforms`; pure case analysis on the accessor loops of `SectionItems`.
-/
namespace Lasio

/-- `section.<key>` for keys that are not class attributes: `if key in self: return self[key]`, else AttributeError -/
def Section.getattr (s : Section) (k : Str) : Except Err Nat :=
  if s.contains (.str k) then s.getitem (.str k) else .error .other

theorem findFirst_some_iff {α} (p : α → Bool) (l : List α) (i : Nat) :
    findFirst p l = some i ↔ (∃ a, l[i]? = some a ∧ p a = true) ∧ ∀ j b, j < i → l[j]? = some b → p b = false := by
  induction l generalizing i with
  | nil => simp [findFirst]
  | cons a as ih =>
    unfold findFirst
    by_cases hp : p a = true
    · simp only [hp, if_true]
      constructor
      · intro h; cases h; exact ⟨⟨a, by simp, hp⟩, by intro j b hj; omega⟩
      · rintro ⟨⟨x, hx, hpx⟩, hall⟩
        cases i with
        | zero => rfl
        | succ i =>
          have := hall 0 a (by omega) (by simp)
          simp [hp] at this
    · have hp' : p a = false := by simpa using hp
      simp only [hp', Bool.false_eq_true, if_false]
      cases i with
      | zero =>
        constructor
        · intro h
          cases hf : findFirst p as <;> simp [hf] at h
        · rintro ⟨⟨x, hx, hpx⟩, _⟩
          simp at hx; subst hx; simp [hp'] at hpx
      | succ i =>
        constructor
        · intro h
          have h' : findFirst p as = some i := by
            cases hf : findFirst p as with
            | none => simp [hf] at h
            | some k => simp [hf] at h; subst h; rfl
          obtain ⟨⟨x, hx, hpx⟩, hall⟩ := (ih i).mp h'
          refine ⟨⟨x, by simpa using hx, hpx⟩, ?_⟩
          intro j b hj hb
          cases j with
          | zero => simp at hb; subst hb; exact hp'
          | succ j => exact hall j b (by omega) (by simpa using hb)
        · rintro ⟨⟨x, hx, hpx⟩, hall⟩
          have : findFirst p as = some i := (ih i).mpr
            ⟨⟨x, by simpa using hx, hpx⟩, fun j b hj hb => hall (j + 1) b (by omega) (by simpa using hb)⟩
          simp [this]

theorem findFirst_none_iff {α} (p : α → Bool) (l : List α) :
    findFirst p l = none ↔ ∀ a ∈ l, p a = false := by
  induction l with
  | nil => simp [findFirst]
  | cons a as ih =>
    unfold findFirst
    by_cases hp : p a = true
    · simp [hp]
    · have hp' : p a = false := by simpa using hp
      simp [hp', ih]

theorem findFirst_lt {α} (p : α → Bool) (l : List α) (i : Nat) (h : findFirst p l = some i) : i < l.length := by
  obtain ⟨⟨a, ha, _⟩, _⟩ := (findFirst_some_iff p l i).mp h
  exact (List.getElem?_eq_some_iff.mp ha).1

/-- `k in s` is true exactly when `s[k]` succeeds (string keys) -/
theorem C15_contains_iff_getitem (s : Section) (k : Str) :
    s.contains (.str k) = true ↔ ∃ i, s.getitem (.str k) = .ok i := by
  unfold Section.contains Section.getitem
  cases h : s.find (.str k) with
  | none => simp
  | some i => simp

/-- `s[k]` returns the FIRST item whose session mnemonic equals `k` (ignoring case when transforms are on) -/
theorem C15_first_match (s : Section) (k : Str) (i : Nat) (h : s.getitem (.str k) = .ok i) :
    (∃ it, s.items[i]? = some it ∧ cmpStr s.tr it.session k = true) ∧
    ∀ j it, j < i → s.items[j]? = some it → cmpStr s.tr it.session k = false := by
  unfold Section.getitem at h
  cases hf : s.find (.str k) with
  | none => simp [hf] at h
  | some i' =>
    simp [hf] at h; subst h
    unfold Section.find at hf
    have := (findFirst_some_iff _ _ _).mp hf
    simpa [cmpKey] using this

/-- attribute access returns the same item as item access -/
theorem C15_getattr_eq_getitem (s : Section) (k : Str) (h : s.contains (.str k) = true) :
    s.getattr k = s.getitem (.str k) := by
  simp [Section.getattr, h]

/-- a missing key raises KeyError from item access and from deletion, and leaves nothing changed -/
theorem C15_missing_keyerror (s : Section) (k : Str) (h : s.contains (.str k) = false) :
    s.getitem (.str k) = .error .keyError ∧ s.delitem (.str k) = .error .keyError := by
  unfold Section.contains at h
  have hf : s.find (.str k) = none := by
    cases hf : s.find (.str k) <;> simp [hf] at h ⊢
  simp [Section.getitem, Section.delitem, hf]

/-- get() without add=True never changes the section -/
theorem C15_get_pure (s : Section) (m d : Str) : (s.get m d false).2 = s := by
  unfold Section.get
  cases s.find (.str m) <;> simp

/-- get(add=True) on a present key changes nothing; on a missing key it appends exactly one item, whose
original mnemonic is the key, after all the existing items (whose originals and order are kept) -/
theorem C15_get_add (s : Section) (m d : Str) :
    (s.contains (.str m) = true → (s.get m d true).2 = s) ∧
    (s.contains (.str m) = false → (s.get m d true).2.origs = s.origs ++ [m]) := by
  unfold Section.get Section.contains
  cases hf : s.find (.str m) with
  | some i => simp
  | none =>
    simp only [Option.isSome_none, Bool.false_eq_true, false_implies, true_and, if_true]
    intro _
    have key : ∀ (tr : Bool) (t : Str) (l : List Item) (n : Nat),
        (renumber tr t l n).map (·.orig) = l.map (·.orig) := by
      intro tr t l
      induction l with
      | nil => intro n; rfl
      | cons a as ih =>
        intro n
        unfold renumber
        split <;> simp [ih]
    unfold Section.append Section.assignSuffixes Section.origs
    split
    · simp [key, mkItem]
    · simp [mkItem]

/-- assigning a plain value to a key changes only that item's value -/
theorem C15_set_value_frame (s s' : Section) (k : Key) (v : Str) (h : s.setValue k v = .ok s') :
    ∃ i, s.getitem k = .ok i ∧ s'.tr = s.tr ∧ s'.items.length = s.items.length ∧
      (∀ j, j ≠ i → s'.items[j]? = s.items[j]?) ∧
      (∀ it, s.items[i]? = some it → s'.items[i]? = some { it with value := v }) := by
  unfold Section.setValue at h
  cases hg : s.getitem k with
  | error e => simp [hg] at h
  | ok i =>
    simp [hg] at h; subst h
    refine ⟨i, rfl, rfl, by simp, ?_, ?_⟩
    · intro j hj
      simp [Ne.symm hj]
    · intro it hit
      simp [hit]

/-- deleting by key or index removes exactly the addressed item and preserves the order of the rest -/
theorem C15_delete_exact (s s' : Section) (k : Key) (h : s.delitem k = .ok s') :
    ∃ i, s.getitem k = .ok i ∧ i < s.items.length ∧ s'.tr = s.tr ∧
      s'.items = s.items.take i ++ s.items.drop (i + 1) := by
  unfold Section.delitem at h
  cases hg : s.getitem k with
  | error e => simp [hg] at h
  | ok i =>
    simp [hg] at h; subst h
    refine ⟨i, rfl, ?_, rfl, by simp [List.eraseIdx_eq_take_drop_succ]⟩
    unfold Section.getitem at hg
    cases hf : s.find k with
    | some i' =>
      simp [hf] at hg; subst hg
      exact findFirst_lt _ _ _ hf
    | none =>
      simp only [hf] at hg
      cases k with
      | str _ => simp at hg
      | int n =>
        simp only [] at hg
        cases hp : pyIndex s.items.length n with
        | none => simp [hp] at hg
        | some j =>
          simp [hp] at hg; subst hg
          unfold pyIndex at hp
          split at hp
          · split at hp <;> simp at hp; omega
          · split at hp <;> simp at hp; omega

/-- integer keys address positions exactly as in a Python list, for every section: an `int` never equals a
session mnemonic -/
theorem C15_int_as_list (s : Section) (n : Int) :
    s.find (.int n) = none ∧
    s.getitem (.int n) = (match pyIndex s.items.length n with
      | some j => .ok j | none => .error .indexError) := by
  have hf : s.find (.int n) = none := by
    unfold Section.find
    exact (findFirst_none_iff _ _).mpr (by intro a _; rfl)
  refine ⟨hf, ?_⟩
  unfold Section.getitem
  rw [hf]
  cases hp : pyIndex s.items.length n <;> simp [hp]

/-- `pyIndex` is Python's rule: non-negative `i` is position `i`, negative `i` is `len + i`, otherwise out of range -/
theorem C15_pyIndex_spec (len : Nat) (i : Int) :
    (0 ≤ i → i < len → pyIndex len i = some i.toNat) ∧
    (i < 0 → -(len : Int) ≤ i → ∃ j, pyIndex len i = some j ∧ (j : Int) = len + i) ∧
    ((len : Int) ≤ i ∨ i < -(len : Int) → pyIndex len i = none) := by
  unfold pyIndex
  refine ⟨?_, ?_, ?_⟩
  · intro h0 h1
    have : i.toNat < len := by omega
    simp [h0, this]
  · intro h0 h1
    have hn : ¬ (0 ≤ i) := by omega
    have : (-i).toNat ≤ len := by omega
    simp only [hn, if_false, this, if_true]
    exact ⟨_, rfl, by omega⟩
  · intro h
    rcases h with h | h
    · have h0 : 0 ≤ i := by omega
      have : ¬ (i.toNat < len) := by omega
      simp [h0, this]
    · have hn : ¬ (0 ≤ i) := by omega
      have : ¬ ((-i).toNat ≤ len) := by omega
      simp [hn, this]

/-! ### slices -/

private theorem sliceBound_pos (len : Nat) (d : Int) (hd : 0 ≤ d ∧ d ≤ len) (v : Option Int) :
    0 ≤ sliceBound len false d v ∧ sliceBound len false d v ≤ len := by
  cases v with
  | none => simpa [sliceBound] using hd
  | some v =>
    simp only [sliceBound, Bool.false_eq_true, if_false]
    by_cases h1 : v < 0
    · by_cases h2 : v + (len : Int) < 0 <;> simp [h1, h2] <;> omega
    · by_cases h2 : v ≥ (len : Int) <;> simp [h1, h2] <;> omega

private theorem sliceBound_neg (len : Nat) (d : Int) (hd : -1 ≤ d ∧ d ≤ (len : Int) - 1) (v : Option Int) :
    -1 ≤ sliceBound len true d v ∧ sliceBound len true d v ≤ (len : Int) - 1 := by
  cases v with
  | none => simpa [sliceBound] using hd
  | some v =>
    simp only [sliceBound, if_true]
    by_cases h1 : v < 0
    · by_cases h2 : v + (len : Int) < 0 <;> simp [h1, h2] <;> omega
    · by_cases h2 : v ≥ (len : Int) <;> simp [h1, h2] <;> omega

/-- **Slices address positions exactly as in a list**: every selected position is a position of the section (no padding, no
wrap-around), for every start / stop / step, negative ones included.  `Section.getSlice` returns positions only: taking a slice
is a read, the section value is not part of the result (the real call builds a new list of the same item objects). -/
theorem C15_slice_in_range (len : Nat) (a b : Option Int) (c : Int) (l : List Nat)
    (h : pySlice len a b c = some l) : ∀ p ∈ l, p < len := by
  unfold pySlice at h
  split at h
  · cases h
  · rename_i hc0
    have hc0' : c ≠ 0 := by simpa using hc0
    split at h
    · rename_i hpos
      simp only [Option.some.injEq] at h
      subst h
      intro p hp
      simp only [List.mem_map, List.mem_range] at hp
      obtain ⟨k, hk, rfl⟩ := hp
      have ha := sliceBound_pos len 0 (by omega) a
      have hb := sliceBound_pos len len (by omega) b
      generalize sliceBound len false 0 a = A at *
      generalize sliceBound len false (len : Int) b = B at *
      split at hk
      · rename_i hab
        have hk' : (k : Int) < (B - A - 1) / c + 1 := by omega
        have : (k : Int) * c ≤ B - A - 1 := by
          have h1 : (k : Int) ≤ (B - A - 1) / c := by omega
          calc (k : Int) * c ≤ ((B - A - 1) / c) * c := Int.mul_le_mul_of_nonneg_right h1 (by omega)
            _ ≤ B - A - 1 := Int.ediv_mul_le _ (by omega)
        omega
      · simp at hk
    · rename_i hpos
      have hneg : c < 0 := by omega
      simp only [Option.some.injEq] at h
      subst h
      intro p hp
      simp only [List.mem_map, List.mem_range] at hp
      obtain ⟨k, hk, rfl⟩ := hp
      have ha := sliceBound_neg len ((len : Int) - 1) (by omega) a
      have hb := sliceBound_neg len (-1) (by omega) b
      generalize sliceBound len true ((len : Int) - 1) a = A at *
      generalize sliceBound len true (-1) b = B at *
      split at hk
      · rename_i hab
        have h1 : (k : Int) ≤ (A - B - 1) / (-c) := by omega
        have : (k : Int) * (-c) ≤ A - B - 1 := by
          calc (k : Int) * (-c) ≤ ((A - B - 1) / (-c)) * (-c) := Int.mul_le_mul_of_nonneg_right h1 (by omega)
            _ ≤ A - B - 1 := Int.ediv_mul_le _ (by omega)
        have h2 : (k : Int) * c = -((k : Int) * (-c)) := by rw [Int.mul_neg, Int.neg_neg]
        have h3 : 0 ≤ (k : Int) * (-c) := Int.mul_nonneg (by omega) (by omega)
        omega
      · simp at hk

private theorem sliceBound_nat (len v : Nat) (d : Int) (h : v ≤ len) : sliceBound len false d (some (v : Int)) = v := by
  simp only [sliceBound, Bool.false_eq_true, if_false]
  have h0 : ¬ ((v : Int) < 0) := by omega
  by_cases h2 : (v : Int) ≥ (len : Int)
  · simp [h0, h2]; omega
  · simp [h0, h2]

/-- positions of a forward slice with unit step between two resolved bounds -/
private theorem pySlice_step1 (len : Nat) (a b : Option Int) :
    pySlice len a b 1 = some ((List.range (sliceBound len false len b - sliceBound len false 0 a).toNat).map
      fun (k : Nat) => (sliceBound len false 0 a + (k : Int)).toNat) := by
  simp only [pySlice]
  generalize sliceBound len false 0 a = A
  generalize sliceBound len false (len : Int) b = B
  have h1 : ((1 : Int) == 0) = false := by decide
  simp only [h1, Bool.false_eq_true, if_false, Int.mul_one, Int.ediv_one]
  have h2 : (1 : Int) > 0 := by decide
  simp only [h2, if_true]
  by_cases hab : A < B
  · simp only [hab, if_true]
    have : (B - A - 1 + 1).toNat = (B - A).toNat := by congr 1; omega
    rw [this]
  · simp only [hab, if_false]
    have : (B - A).toNat = 0 := by omega
    rw [this]

/-- `s[:]` : every position, in order -/
theorem C15_slice_full (len : Nat) : pySlice len none none 1 = some (List.range len) := by
  rw [pySlice_step1]
  simp only [sliceBound]
  congr 1
  apply List.ext_getElem
  · simp
  · intro i h1 h2; simp

/-- `s[a:b]` with `0 ≤ a ≤ b ≤ len` : the positions `a, a+1, …, b-1` -/
theorem C15_slice_contiguous (len a b : Nat) (hab : a ≤ b) (hb : b ≤ len) :
    pySlice len (some (a : Int)) (some (b : Int)) 1 = some ((List.range (b - a)).map (· + a)) := by
  rw [pySlice_step1, sliceBound_nat len a 0 (by omega), sliceBound_nat len b len hb]
  congr 1
  have : ((b : Int) - (a : Int)).toNat = b - a := by omega
  rw [this]
  apply List.map_congr_left
  intro k _
  omega

/-- `s[::-1]` : every position, last first -/
theorem C15_slice_reverse (len : Nat) : pySlice len none none (-1) = some ((List.range len).map fun k => len - 1 - k) := by
  simp only [pySlice, sliceBound]
  have h1 : ((-1 : Int) == 0) = false := by decide
  have h2 : ¬ ((-1 : Int) > 0) := by decide
  simp only [h1, Bool.false_eq_true, if_false, h2, Int.neg_neg, Int.ediv_one]
  by_cases h : (-1 : Int) < (len : Int) - 1
  · simp only [h, if_true]
    have : ((len : Int) - 1 - -1 - 1 + 1).toNat = len := by omega
    rw [this]
    congr 1
    apply List.map_congr_left
    intro k hk
    have := List.mem_range.mp hk
    omega
  · have : len = 0 := by omega
    subst this; simp

/-- the section-level form of the three closed forms -/
theorem C15_slice_section (s : Section) :
    s.getSlice none none 1 = some (List.range s.items.length) ∧
    s.getSlice none none (-1) = some ((List.range s.items.length).map fun k => s.items.length - 1 - k) ∧
    (∀ a b : Nat, a ≤ b → b ≤ s.items.length →
      s.getSlice (some (a : Int)) (some (b : Int)) 1 = some ((List.range (b - a)).map (· + a))) ∧
    s.getSlice none none 0 = none :=
  ⟨C15_slice_full _, C15_slice_reverse _, fun a b h1 h2 => C15_slice_contiguous _ a b h1 h2, by simp [Section.getSlice, pySlice]⟩

example : pySlice 5 (some (-2)) none 1 = some [3, 4] ∧ pySlice 5 (some 5) (some 1) (-2) = some [4, 2] ∧
    pySlice 4 (some 1) (some 4) 2 = some [1, 3] := by decide

/-- non-vacuity: a concrete section with duplicates and case variants exercises the statements -/
def exSec : Section := ⟨[mkItem ['A'] [] [] [], mkItem ['a'] [] [] []], true⟩
example : exSec.contains (.str ['a']) = true ∧ exSec.getitem (.str ['a']) = .ok 0 ∧
    exSec.getitem (.int (-1)) = .ok 1 ∧ exSec.getitem (.str ['b']) = .error .keyError :=
  ⟨by decide, by rfl, by rfl, by rfl⟩

end Lasio
