import LasioProofs.Props.C11EndToEnd
import LasioProofs.Lemmas.HeaderCongr
/-
C11 — THE TEXT IS A FIXED POINT: write, read the whole file back, write again: `t2 = t1`, header lines included.

`C11_cycle_end_to_end_partial` showed the data lines of the second write to be those of the first and its header lines to READ BACK like the
first ones.  With the congruence of the header writer in the item texts (`Lemmas/HeaderCongr.lean`) the header lines are THE SAME TEXT under three
more conditions:
  `hcase  : Hc.CaseStable opts.hdr (Cy.writtenItems v wrap (toWLas o2))`   every written mnemonic is fixed by the case map of the read option
            (always true for `mnemonic_case="preserve"`: `C11_cycle_text_fixed_point_preserve`; for "upper": the mnemonics are upper case)
  `hcase1 : Hc.CaseStable opts.hdr (Cy.writtenItems v wrap las1)`, `las1 = Cy.lasOfRead (rvNum env.py) opts.hdr (Cy.firstRead … (toWLas o2))` the
            re-read header: its mnemonics are case-mapped already, so this only says that the `VERS` / `WRAP` items `write` substitutes are fixed
            by the case map — false for "lower" (where `write` re-introduces upper-case `VERS`), trivial for "preserve"
  `hoth   : Hc.OtherStripped o2.other`                                      the ~Other lines carry no surrounding white space (the reader strips them)
and `SpeltConf (rvNum env.py)` (already a hypothesis of the partial theorem) — every value text the first write printed is what `str()` prints for
its re-read: this is where `1.00000 -> 1.0` is excluded.

  `C11_cycle_text_fixed_point`           `writeObj wcfg sd' o2r = .ok (t1, afterHeader wcfg o2r)` with `t1 = hl.1 ++ hdr :: body` the first output
  `C11_cycle_text_fixed_point_preserve`  the same with `mnemonic_case = preserve` instead of the two `CaseStable` hypotheses
  `C11_cycle_text_fixed_point_notlower`  `hcase1` derived (`Hc.caseStable_reread`) from `mnemonic_case ≠ lower`: only `hcase` (the written mnemonics) remains
  `C11_cycle_text_iterate`               `cycleTextN … k t1 = some t1` for EVERY number `k` of further read/write cycles (`cycleText` = read the text
                                         with `readObjFullLines`, write the object with the step `stepOf o`)
Tightness (evaluated, `decide +kernel`): `C11_text_counterexample_case` (`mnemonic_case="upper"`, a curve `gr`: `t2 ≠ t1` — the `gr` line only — and
`t3 = t2`), `C11_text_counterexample_respelt` (a refreshing first write prints `1.00000`, the second `1.0`: `t2 ≠ t1`, `t3 = t2`).  Both are one-step
effects on the examples.  In general: for the HEADER lines the case effect (and the stripping of ~Other lines) is proved to be one-step
(`Hc.header_text_fixed_after_one_cycle`: header of the second re-read = header of the first, read option not "lower"); the whole-text /
object-level "after one more cycle" statement is NOT proved (it needs `LinkOK` / `UnitsAligned` / no-refresh / NULL text for the SECOND-generation
object derived from hypotheses on `o`), and the re-spelling case is not covered in general (`SpeltConf` is assumed for the first write).
Non-vacuity: the theorem applied to the file of `Cr.rRead` (last `example`), and `C11_text_iterate_example` (3 cycles evaluated).
Still hypotheses, as in the partial theorem: `LinkOK`, no refresh (`hd`), units aligned (`hu`), the NULL text (`h5'`) for the object read back; the
runtime services `env`; unwrapped / no mnemonics header / strict NULL policy / numeric columns / no NaN in the index column.
-/
namespace Lasio.Ro
open Lasio Lasio.Wo

/-- **The whole text is a fixed point.** -/
theorem C11_cycle_text_fixed_point (env : Env) (opts : Tf.Opts) (wcfg : WriteCfg) (v : String)
    (hv : wcfg.version = some v) (hwr : wcfg.wrap = some false) (hmh : wcfg.mnemonicsHeader = false)
    (hstrict : opts.dat.nullPolicy = .strict)
    {sd : Option F64} {o : WObj} {vsec : List OItem} {o2 : WObj} {hl : List Str × Wr.WLas} {null : Str} {hdr : Str} {body : List Str}
    (hs1 : (o.data.length != o.curves.length || !sameLengths o.data) = false)
    (h1 : setWrap wcfg o = .ok vsec) (h2 : resolveVersion wcfg o.versionTr vsec = .ok v) (h3 : prepare sd o = .ok o2)
    (h4 : Wr.headerLines v wcfg.wrap wcfg.headerWidth (toWLas o2) = .ok hl)
    (h5 : nullText (afterHeader wcfg o2) = .ok null)
    (h6 : Dw.dataLines (dataCfg wcfg) null ((afterHeader wcfg o2).curves.map (·.session)) (rowsOf (afterHeader wcfg o2).data)
      = some (hdr :: body))
    (hc : Fd.FileConfD opts.hdr v wcfg.wrap (toWLas o2)) (hx : Cy.CycleConf opts.hdr v wcfg.wrap (toWLas o2))
    {c : Dw.RowCfg} {n : Nat}
    (wd : Rt.Written (dataCfg wcfg) null ((afterHeader wcfg o2).curves.map (·.session)) (rowsOf (afterHeader wcfg o2).data) c n hdr body)
    (hn : null.head? ≠ some '~') (a : Char) (r : Str) (hdA : wcfg.dataSectionHeader = '~' :: a :: r) (ha : upperC a = 'A')
    (hcur : (toWLas o2).curves.length = n)
    (t : Str) (hwt : Fr.steerVal opts.hdr "WRAP" (RH.versionCopy v wcfg.wrap (toWLas o2)) = some t) (hne : t ≠ Dt.yesTxt)
    (hsp : Cy.SpeltConf (rvNum env.py) v wcfg.wrap (toWLas o2))
    (nv : Str) (hnull : env.nullOf (Fr.steerVal opts.hdr "NULL" (Wr.standardizeItems (toWLas o2).well)) = some nv)
    (hrd : Cd.ReadOK env.ft env.val null nv) (hst : Cd.StrtodClose env.ft env.val c (rowsOf (afterHeader wcfg o2).data))
    (hcl : Rt.NoNullClash env.ft nv c (rowsOf (afterHeader wcfg o2).data))
    (hfree : Cd.IndexNaNFree (rowsOf (afterHeader wcfg o2).data))
    -- the three conditions of the TEXTUAL fixed point
    (hcase : Hc.CaseStable opts.hdr (Cy.writtenItems v wcfg.wrap (toWLas o2)))
    (hcase1 : Hc.CaseStable opts.hdr (Cy.writtenItems v wcfg.wrap
      (Cy.lasOfRead (rvNum env.py) opts.hdr (Cy.firstRead opts.hdr v wcfg.wrap (toWLas o2)))))
    (hoth : Hc.OtherStripped o2.other) :
    writeObj wcfg sd o = .ok (hl.1 ++ hdr :: body, afterHeader wcfg o2) ∧
    ∃ th o2r,
      readObjLines opts.hdr ((hl.1 ++ hdr :: body).map (· ++ Tf.nl)) = .ok th ∧
      readObjFullLines env opts ((hl.1 ++ hdr :: body).map (· ++ Tf.nl)) = .ok o2r ∧
      (LinkOK env.py th → ∀ (sd' : Option F64) (u : Str) (a' b' c' : Nat),
        refreshDecision o2r = .ok false → Cr.UnitsAligned o2r u a' b' c' →
        nullText (afterHeader wcfg o2r) = .ok null →
        writeObj wcfg sd' o2r = .ok (hl.1 ++ hdr :: body, afterHeader wcfg o2r)) := by
  obtain ⟨hw, th, o2r, hth, hobj, hsec, ho2r, _, _, _, _, _, himp⟩ :=
    C11_cycle_end_to_end_partial env opts wcfg v hv hwr hmh hstrict hs1 h1 h2 h3 h4 h5 h6 hc hx wd hn a r hdA ha hcur t hwt hne hsp nv hnull
      hrd hst hcl hfree
  refine ⟨hw, th, o2r, hth, hobj, ?_⟩
  intro hlink sd' u a' b' c' hd hu h5'
  obtain ⟨lines2, las2', hh, hw2, _⟩ := himp hlink sd' u a' b' c' hd hu h5'
  have e : toWLas o2r = Cy.lasOfRead (rvNum env.py) opts.hdr (Cy.firstRead opts.hdr v wcfg.wrap (toWLas o2)) := by
    have e0 := congrArg toWLas ho2r
    rw [toWLas_withData, toWLas_headerObj env.py opts.hdr th hlink, hsec] at e0
    exact e0
  obtain ⟨las2'', hfix⟩ := Hc.header_text_fixed opts.hdr (rvNum_retype env.py) v wcfg.wrap wcfg.headerWidth (toWLas o2) hl.2 hl.1 h4 hc hx hsp
    hcase hcase1 hoth
  rw [e, hfix] at hh
  simp only [Except.ok.injEq, Prod.mk.injEq] at hh
  rw [← hh.1] at hw2
  exact hw2

/-- … with `mnemonic_case="preserve"` nothing is asked of the mnemonics -/
theorem C11_cycle_text_fixed_point_preserve (env : Env) (opts : Tf.Opts) (wcfg : WriteCfg) (v : String)
    (hv : wcfg.version = some v) (hwr : wcfg.wrap = some false) (hmh : wcfg.mnemonicsHeader = false)
    (hstrict : opts.dat.nullPolicy = .strict) (hpres : opts.hdr.mnemonicCase = .preserve)
    {sd : Option F64} {o : WObj} {vsec : List OItem} {o2 : WObj} {hl : List Str × Wr.WLas} {null : Str} {hdr : Str} {body : List Str}
    (hs1 : (o.data.length != o.curves.length || !sameLengths o.data) = false)
    (h1 : setWrap wcfg o = .ok vsec) (h2 : resolveVersion wcfg o.versionTr vsec = .ok v) (h3 : prepare sd o = .ok o2)
    (h4 : Wr.headerLines v wcfg.wrap wcfg.headerWidth (toWLas o2) = .ok hl)
    (h5 : nullText (afterHeader wcfg o2) = .ok null)
    (h6 : Dw.dataLines (dataCfg wcfg) null ((afterHeader wcfg o2).curves.map (·.session)) (rowsOf (afterHeader wcfg o2).data)
      = some (hdr :: body))
    (hc : Fd.FileConfD opts.hdr v wcfg.wrap (toWLas o2)) (hx : Cy.CycleConf opts.hdr v wcfg.wrap (toWLas o2))
    {c : Dw.RowCfg} {n : Nat}
    (wd : Rt.Written (dataCfg wcfg) null ((afterHeader wcfg o2).curves.map (·.session)) (rowsOf (afterHeader wcfg o2).data) c n hdr body)
    (hn : null.head? ≠ some '~') (a : Char) (r : Str) (hdA : wcfg.dataSectionHeader = '~' :: a :: r) (ha : upperC a = 'A')
    (hcur : (toWLas o2).curves.length = n)
    (t : Str) (hwt : Fr.steerVal opts.hdr "WRAP" (RH.versionCopy v wcfg.wrap (toWLas o2)) = some t) (hne : t ≠ Dt.yesTxt)
    (hsp : Cy.SpeltConf (rvNum env.py) v wcfg.wrap (toWLas o2))
    (nv : Str) (hnull : env.nullOf (Fr.steerVal opts.hdr "NULL" (Wr.standardizeItems (toWLas o2).well)) = some nv)
    (hrd : Cd.ReadOK env.ft env.val null nv) (hst : Cd.StrtodClose env.ft env.val c (rowsOf (afterHeader wcfg o2).data))
    (hcl : Rt.NoNullClash env.ft nv c (rowsOf (afterHeader wcfg o2).data))
    (hfree : Cd.IndexNaNFree (rowsOf (afterHeader wcfg o2).data))
    (hoth : Hc.OtherStripped o2.other) :
    writeObj wcfg sd o = .ok (hl.1 ++ hdr :: body, afterHeader wcfg o2) ∧
    ∃ th o2r,
      readObjLines opts.hdr ((hl.1 ++ hdr :: body).map (· ++ Tf.nl)) = .ok th ∧
      readObjFullLines env opts ((hl.1 ++ hdr :: body).map (· ++ Tf.nl)) = .ok o2r ∧
      (LinkOK env.py th → ∀ (sd' : Option F64) (u : Str) (a' b' c' : Nat),
        refreshDecision o2r = .ok false → Cr.UnitsAligned o2r u a' b' c' →
        nullText (afterHeader wcfg o2r) = .ok null →
        writeObj wcfg sd' o2r = .ok (hl.1 ++ hdr :: body, afterHeader wcfg o2r)) :=
  C11_cycle_text_fixed_point env opts wcfg v hv hwr hmh hstrict hs1 h1 h2 h3 h4 h5 h6 hc hx wd hn a r hdA ha hcur t hwt hne hsp nv hnull hrd hst
    hcl hfree (Hc.caseStable_preserve opts.hdr hpres _) (Hc.caseStable_preserve opts.hdr hpres _) hoth

/-- … the re-read side is case-stable by itself unless the read option is "lower" (`Hc.caseStable_reread`): only the WRITTEN mnemonics are asked to be in
the case the read option produces (for "upper": upper-case mnemonics) -/
theorem C11_cycle_text_fixed_point_notlower (env : Env) (opts : Tf.Opts) (wcfg : WriteCfg) (v : String)
    (hv : wcfg.version = some v) (hwr : wcfg.wrap = some false) (hmh : wcfg.mnemonicsHeader = false)
    (hstrict : opts.dat.nullPolicy = .strict) (hlow : opts.hdr.mnemonicCase ≠ .lower)
    {sd : Option F64} {o : WObj} {vsec : List OItem} {o2 : WObj} {hl : List Str × Wr.WLas} {null : Str} {hdr : Str} {body : List Str}
    (hs1 : (o.data.length != o.curves.length || !sameLengths o.data) = false)
    (h1 : setWrap wcfg o = .ok vsec) (h2 : resolveVersion wcfg o.versionTr vsec = .ok v) (h3 : prepare sd o = .ok o2)
    (h4 : Wr.headerLines v wcfg.wrap wcfg.headerWidth (toWLas o2) = .ok hl)
    (h5 : nullText (afterHeader wcfg o2) = .ok null)
    (h6 : Dw.dataLines (dataCfg wcfg) null ((afterHeader wcfg o2).curves.map (·.session)) (rowsOf (afterHeader wcfg o2).data)
      = some (hdr :: body))
    (hc : Fd.FileConfD opts.hdr v wcfg.wrap (toWLas o2)) (hx : Cy.CycleConf opts.hdr v wcfg.wrap (toWLas o2))
    {c : Dw.RowCfg} {n : Nat}
    (wd : Rt.Written (dataCfg wcfg) null ((afterHeader wcfg o2).curves.map (·.session)) (rowsOf (afterHeader wcfg o2).data) c n hdr body)
    (hn : null.head? ≠ some '~') (a : Char) (r : Str) (hdA : wcfg.dataSectionHeader = '~' :: a :: r) (ha : upperC a = 'A')
    (hcur : (toWLas o2).curves.length = n)
    (t : Str) (hwt : Fr.steerVal opts.hdr "WRAP" (RH.versionCopy v wcfg.wrap (toWLas o2)) = some t) (hne : t ≠ Dt.yesTxt)
    (hsp : Cy.SpeltConf (rvNum env.py) v wcfg.wrap (toWLas o2))
    (nv : Str) (hnull : env.nullOf (Fr.steerVal opts.hdr "NULL" (Wr.standardizeItems (toWLas o2).well)) = some nv)
    (hrd : Cd.ReadOK env.ft env.val null nv) (hst : Cd.StrtodClose env.ft env.val c (rowsOf (afterHeader wcfg o2).data))
    (hcl : Rt.NoNullClash env.ft nv c (rowsOf (afterHeader wcfg o2).data))
    (hfree : Cd.IndexNaNFree (rowsOf (afterHeader wcfg o2).data))
    (hcase : Hc.CaseStable opts.hdr (Cy.writtenItems v wcfg.wrap (toWLas o2)))
    (hoth : Hc.OtherStripped o2.other) :
    writeObj wcfg sd o = .ok (hl.1 ++ hdr :: body, afterHeader wcfg o2) ∧
    ∃ th o2r,
      readObjLines opts.hdr ((hl.1 ++ hdr :: body).map (· ++ Tf.nl)) = .ok th ∧
      readObjFullLines env opts ((hl.1 ++ hdr :: body).map (· ++ Tf.nl)) = .ok o2r ∧
      (LinkOK env.py th → ∀ (sd' : Option F64) (u : Str) (a' b' c' : Nat),
        refreshDecision o2r = .ok false → Cr.UnitsAligned o2r u a' b' c' →
        nullText (afterHeader wcfg o2r) = .ok null →
        writeObj wcfg sd' o2r = .ok (hl.1 ++ hdr :: body, afterHeader wcfg o2r)) :=
  C11_cycle_text_fixed_point env opts wcfg v hv hwr hmh hstrict hs1 h1 h2 h3 h4 h5 h6 hc hx wd hn a r hdA ha hcur t hwt hne hsp nv hnull hrd hst
    hcl hfree hcase (Hc.caseStable_reread opts.hdr (rvNum env.py) v wcfg.wrap (toWLas o2) hlow) hoth

/-! ## any number of further cycles -/

/-- one load/save cycle on a text (the list of lines `write` returns): read the whole file, write the object; `stepOf o` is the step
`index[1] - index[0]` handed to the writer -/
def cycleText (env : Env) (opts : Tf.Opts) (wcfg : WriteCfg) (stepOf : WObj → Option F64) (t : List Str) : Option (List Str) :=
  match readObjFullLines env opts (t.map (· ++ Tf.nl)) with
  | .ok o =>
    match writeObj wcfg (stepOf o) o with
    | .ok (t', _) => some t'
    | .error _ => none
  | .error _ => none

def cycleTextN (env : Env) (opts : Tf.Opts) (wcfg : WriteCfg) (stepOf : WObj → Option F64) : Nat → List Str → Option (List Str)
  | 0, t => some t
  | k + 1, t => (cycleText env opts wcfg stepOf t).bind (cycleTextN env opts wcfg stepOf k)

theorem cycleTextN_fixed (env : Env) (opts : Tf.Opts) (wcfg : WriteCfg) (stepOf : WObj → Option F64) (t : List Str)
    (h : cycleText env opts wcfg stepOf t = some t) : ∀ k, cycleTextN env opts wcfg stepOf k t = some t := by
  intro k
  induction k with
  | zero => rfl
  | succ k ih => simp only [cycleTextN, h, Option.bind_some, ih]

/-- **Nothing changes any more**: the text `t1` of the first write is returned by every number of further read/write cycles.  The hypotheses on
the object read back (`LinkOK`, no refresh, units aligned, NULL text) are asked of WHATEVER `readObjLines` / `readObjFullLines` return for `t1`. -/
theorem C11_cycle_text_iterate (env : Env) (opts : Tf.Opts) (wcfg : WriteCfg) (v : String)
    (hv : wcfg.version = some v) (hwr : wcfg.wrap = some false) (hmh : wcfg.mnemonicsHeader = false)
    (hstrict : opts.dat.nullPolicy = .strict)
    {sd : Option F64} {o : WObj} {vsec : List OItem} {o2 : WObj} {hl : List Str × Wr.WLas} {null : Str} {hdr : Str} {body : List Str}
    (hs1 : (o.data.length != o.curves.length || !sameLengths o.data) = false)
    (h1 : setWrap wcfg o = .ok vsec) (h2 : resolveVersion wcfg o.versionTr vsec = .ok v) (h3 : prepare sd o = .ok o2)
    (h4 : Wr.headerLines v wcfg.wrap wcfg.headerWidth (toWLas o2) = .ok hl)
    (h5 : nullText (afterHeader wcfg o2) = .ok null)
    (h6 : Dw.dataLines (dataCfg wcfg) null ((afterHeader wcfg o2).curves.map (·.session)) (rowsOf (afterHeader wcfg o2).data)
      = some (hdr :: body))
    (hc : Fd.FileConfD opts.hdr v wcfg.wrap (toWLas o2)) (hx : Cy.CycleConf opts.hdr v wcfg.wrap (toWLas o2))
    {c : Dw.RowCfg} {n : Nat}
    (wd : Rt.Written (dataCfg wcfg) null ((afterHeader wcfg o2).curves.map (·.session)) (rowsOf (afterHeader wcfg o2).data) c n hdr body)
    (hn : null.head? ≠ some '~') (a : Char) (r : Str) (hdA : wcfg.dataSectionHeader = '~' :: a :: r) (ha : upperC a = 'A')
    (hcur : (toWLas o2).curves.length = n)
    (t : Str) (hwt : Fr.steerVal opts.hdr "WRAP" (RH.versionCopy v wcfg.wrap (toWLas o2)) = some t) (hne : t ≠ Dt.yesTxt)
    (hsp : Cy.SpeltConf (rvNum env.py) v wcfg.wrap (toWLas o2))
    (nv : Str) (hnull : env.nullOf (Fr.steerVal opts.hdr "NULL" (Wr.standardizeItems (toWLas o2).well)) = some nv)
    (hrd : Cd.ReadOK env.ft env.val null nv) (hst : Cd.StrtodClose env.ft env.val c (rowsOf (afterHeader wcfg o2).data))
    (hcl : Rt.NoNullClash env.ft nv c (rowsOf (afterHeader wcfg o2).data))
    (hfree : Cd.IndexNaNFree (rowsOf (afterHeader wcfg o2).data))
    (hcase : Hc.CaseStable opts.hdr (Cy.writtenItems v wcfg.wrap (toWLas o2)))
    (hcase1 : Hc.CaseStable opts.hdr (Cy.writtenItems v wcfg.wrap
      (Cy.lasOfRead (rvNum env.py) opts.hdr (Cy.firstRead opts.hdr v wcfg.wrap (toWLas o2)))))
    (hoth : Hc.OtherStripped o2.other)
    -- the object read back
    (hlink : ∀ th, readObjLines opts.hdr ((hl.1 ++ hdr :: body).map (· ++ Tf.nl)) = .ok th → LinkOK env.py th)
    (hback : ∀ o2r, readObjFullLines env opts ((hl.1 ++ hdr :: body).map (· ++ Tf.nl)) = .ok o2r →
      refreshDecision o2r = .ok false ∧ (∃ u a' b' c', Cr.UnitsAligned o2r u a' b' c') ∧ nullText (afterHeader wcfg o2r) = .ok null)
    (stepOf : WObj → Option F64) :
    writeObj wcfg sd o = .ok (hl.1 ++ hdr :: body, afterHeader wcfg o2) ∧
    ∀ k, cycleTextN env opts wcfg stepOf k (hl.1 ++ hdr :: body) = some (hl.1 ++ hdr :: body) := by
  obtain ⟨hw, th, o2r, hth, hobj, himp⟩ :=
    C11_cycle_text_fixed_point env opts wcfg v hv hwr hmh hstrict hs1 h1 h2 h3 h4 h5 h6 hc hx wd hn a r hdA ha hcur t hwt hne hsp nv hnull
      hrd hst hcl hfree hcase hcase1 hoth
  refine ⟨hw, cycleTextN_fixed env opts wcfg stepOf _ ?_⟩
  obtain ⟨hd, ⟨u, a', b', c', hu⟩, h5'⟩ := hback o2r hobj
  have := himp (hlink th hth) (stepOf o2r) u a' b' c' hd hu h5'
  unfold cycleText
  simp only [hobj, this]

/-! ## tightness, by evaluation -/

/-- the lines that differ, position by position -/
def diffLines (a b : List Str) : List (Str × Str) := (a.zip b).filter fun p => p.1 != p.2

def noStep : WObj → Option F64 := fun _ => none

/-- `Cr.rRead` with a lower-case curve mnemonic -/
def rReadLc : WObj :=
  { Cr.rRead with curves := [mkOItem (Cr.rs "DEPT") (Cr.rs "M") (.str []) (Cr.rs "depth"),
                             mkOItem (Cr.rs "gr") (Cr.rs "API") (.str []) (Cr.rs "gamma")] }

/-- **COUNTER-EXAMPLE (`CaseStable` is needed)**: `mnemonic_case="upper"` and a curve called `gr`: the second text differs from the first in that
one line (`gr` -> `GR`), and is itself a fixed point (`t3 = t2`) -/
theorem C11_text_counterexample_case :
    (match writeObj (Cr.rCfg "%.5f") none rReadLc with
     | .ok (t1, _) =>
       match cycleText exEnv exFOpts (Cr.rCfg "%.5f") noStep t1 with
       | some t2 => some (decide (t2.length = t1.length), decide (diffLines t1 t2 = [(Cr.rs "gr  .API  : gamma", Cr.rs "GR  .API  : gamma")]),
           decide (cycleText exEnv exFOpts (Cr.rCfg "%.5f") noStep t2 = some t2))
       | none => none
     | .error _ => none) = some (true, true, true) := by
  decide +kernel

/-- `str()` of the example re-spells the `'%.5f'` strings of a refreshing write (`1.00000` -> `1.0`) -/
def rsPy : PyFloat :=
  ⟨fun t => if t = Cr.rs "2.0" then Cr.rf false 2 0 else if t = Cr.rs "3.00000" ∨ t = Cr.rs "3.0" then Cr.rf false 3 0
            else if t = Cr.rs "-999.25" then Cr.rf true 3997 (-2) else Cr.rf false 1 0,
   fun t => if t = Cr.rs "1.00000" then Cr.rs "1.0" else if t = Cr.rs "3.00000" then Cr.rs "3.0" else t⟩
def rsEnv : Env := ⟨rsPy, exFt, exVal, exNullOf⟩

/-- **COUNTER-EXAMPLE (`SpeltConf` is needed)**: `Cr.rFresh` (built from scratch) is written with a refresh (`STRT 1.00000`); its re-read holds the
numbers, which `str()` prints `1.0`: the second text differs in the ~Well lines (the NULL line is re-aligned with them), and is itself a fixed
point (`t3 = t2`) -/
theorem C11_text_counterexample_respelt :
    (match writeObj (Cr.rCfg "%.5f") (some (Cr.rf false 1 0)) Cr.rFresh with
     | .ok (t1, _) =>
       match cycleText rsEnv exFOpts (Cr.rCfg "%.5f") noStep t1 with
       | some t2 => some (decide (t2.length = t1.length),
           decide (diffLines t1 t2 = [(Cr.rs "STRT.M 1.00000 : start", Cr.rs "STRT.M    1.0 : start"),
             (Cr.rs "STOP.M 3.00000 : stop", Cr.rs "STOP.M    3.0 : stop"), (Cr.rs "STEP.M 1.00000 : step", Cr.rs "STEP.M    1.0 : step"),
             (Cr.rs "NULL.  -999.25 : null", Cr.rs "NULL. -999.25 : null")]),
           decide (cycleText rsEnv exFOpts (Cr.rCfg "%.5f") noStep t2 = some t2))
       | none => none
     | .error _ => none) = some (true, true, true) := by
  decide +kernel

/-- three further cycles on the file of `Cr.rRead`, evaluated -/
theorem C11_text_iterate_example :
    (match writeObj (Cr.rCfg "%.5f") none Cr.rRead with
     | .ok (t1, _) => some (decide (cycleTextN exEnv exFOpts (Cr.rCfg "%.5f") noStep 3 t1 = some t1))
     | .error _ => none) = some true := by
  decide +kernel

/-! ## non-vacuity: the theorem applies to the file of `Cr.rRead` -/

/-- whatever the typed reads return for the text written for `Cr.rRead`: `LinkOK` holds and the object IS `Cr.rRead` (evaluated) -/
theorem exKeyFull :
    (match Wr.headerLines "2.0" (some false) 20 (toWLas Cr.rRead) with
     | .ok (l, _) =>
       (match readObjLines Cr.rOpts ((l ++ Cr.rs "~ASCII -------------" :: exBody5).map (· ++ Tf.nl)),
              readObjFullLines exEnv exFOpts ((l ++ Cr.rs "~ASCII -------------" :: exBody5).map (· ++ Tf.nl)) with
        | .ok th, .ok o2r => some (linkOKB exPy th && decide (o2r = Cr.rRead))
        | _, _ => none)
     | .error _ => none) = some true := by
  decide +kernel

example (hl : List Str × Wr.WLas) (h4 : Wr.headerLines "2.0" (some false) 20 (toWLas Cr.rRead) = .ok hl) :
    writeObj (Cr.rCfg "%.5f") none Cr.rRead = .ok (hl.1 ++ Cr.rs "~ASCII -------------" :: exBody5, afterHeader (Cr.rCfg "%.5f") Cr.rRead) ∧
    ∀ k, cycleTextN exEnv exFOpts (Cr.rCfg "%.5f") noStep k (hl.1 ++ Cr.rs "~ASCII -------------" :: exBody5) =
      some (hl.1 ++ Cr.rs "~ASCII -------------" :: exBody5) := by
  have hprep : prepare none Cr.rRead = .ok Cr.rRead := by decide
  have key := exKeyFull
  rw [h4] at key
  simp only at key
  have hd : refreshDecision Cr.rRead = .ok false :=
    ((Cr.C11_refresh_stable Cr.rRead _ rfl rfl (by decide) (Cr.rf false 3 0) rfl
      (mkOItem sSTOP (Cr.rs "M") (Cr.rNum 3 0 "3.0") (Cr.rs "stop")) (by decide)).1 (Cr.rf false 3 0) (Cr.rs "3.0") rfl).mpr (by decide)
  refine C11_cycle_text_iterate exEnv exFOpts (Cr.rCfg "%.5f") "2.0" rfl rfl rfl rfl (sd := none) (o := Cr.rRead) (o2 := Cr.rRead)
      (hl := hl) (null := Cr.rs "-999.25") (hdr := Cr.rs "~ASCII -------------") (body := exBody5)
      (by decide) rfl (by decide) hprep h4 (by decide) (by decide) Cr.rFileConf Cr.rCycleConf exWritten (by decide) 'A' (Cr.rs "SCII") rfl
      (by decide) rfl (Cr.rs "NO") (by decide +kernel) (by decide) exSpelt eHn (by decide +kernel) exReadOK
      (by rw [exRows5_eq]; exact exStrtod) (by rw [exRows5_eq]; exact exNoClash) (by rw [exRows5_eq]; exact exIndexFree)
      (by unfold Hc.CaseStable; decide +kernel) (by unfold Hc.CaseStable; decide +kernel) (by decide) ?_ ?_ noStep
  · intro th hth
    have hth' : readObjLines Cr.rOpts ((hl.1 ++ Cr.rs "~ASCII -------------" :: exBody5).map (· ++ Tf.nl)) = .ok th := hth
    rw [hth'] at key
    show LinkOK exPy th
    apply linkOKB_sound
    cases hf : readObjFullLines exEnv exFOpts ((hl.1 ++ Cr.rs "~ASCII -------------" :: exBody5).map (· ++ Tf.nl)) with
    | error e => rw [hf] at key; cases key
    | ok o2r =>
      rw [hf] at key
      simp only [Option.some.injEq, Bool.and_eq_true, decide_eq_true_eq] at key
      exact key.1
  · intro o2r hf
    rw [hf] at key
    cases hth : readObjLines Cr.rOpts ((hl.1 ++ Cr.rs "~ASCII -------------" :: exBody5).map (· ++ Tf.nl)) with
    | error e => rw [hth] at key; cases key
    | ok th =>
      rw [hth] at key
      simp only [Option.some.injEq, Bool.and_eq_true, decide_eq_true_eq] at key
      rw [key.2]
      exact ⟨hd, ⟨Cr.rs "M", 0, 1, 2, Cr.rUnits⟩, by decide⟩
end Lasio.Ro

#print axioms Lasio.Ro.C11_cycle_text_fixed_point
#print axioms Lasio.Ro.C11_cycle_text_fixed_point_preserve
#print axioms Lasio.Ro.C11_cycle_text_fixed_point_notlower
#print axioms Lasio.Ro.C11_cycle_text_iterate
#print axioms Lasio.Ro.C11_text_counterexample_case
#print axioms Lasio.Ro.C11_text_counterexample_respelt
#print axioms Lasio.Ro.C11_text_iterate_example
#print axioms Lasio.Ro.exKeyFull
