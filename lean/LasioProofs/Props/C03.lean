import LasioModel.Writer
import LasioProofs.Lemmas.WriterLemmas
/-
C03 — header round trip: what `write` lays out (version 1.2 / 2.0) the reader parses back to the same items.
Property theorems only; helper lemmas live in LasioProofs/Lemmas/WriterLemmas.lean; the header-line grammar
round trip is C04 (`C04_main_all`).
-/
namespace Lasio.Wr

/-! ## widths -/

/-- **Padding lemma.**  With the widths computed from the items that are formatted (for ~Well / ~Parameter:
the NORMALISED items, see `headerLines`), every item gets at least one blank between the unit and the
right-hand field, and the mnemonic column is at least as wide as every mnemonic.  Arbitrary item lists, arbitrary
order function (so in particular the one keyed by the original mnemonic). -/
theorem C03_pad_ge_one (ord : Str → Order) (items : List WItem) (it : WItem) (h : it ∈ items) :
    1 ≤ (sectionWidths ord items).middle - it.unit.length - (rhsOf (ord it.orig) it).length ∧
    it.orig.length ≤ (sectionWidths ord items).left := by
  have := sectionWidths_middle ord items it h
  exact ⟨by omega, sectionWidths_left ord items it h⟩

/-- the same statement for the lines `write` emits for ~Well / ~Parameter: the widths are those of the
standardised items -/
theorem C03_pad_ge_one_standardized (ord : Str → Order) (items : List WItem) (it : WItem)
    (h : it ∈ standardizeItems items) :
    1 ≤ (sectionWidths ord (standardizeItems items)).middle - it.unit.length -
      (rhsOf (ord it.orig) it).length :=
  (C03_pad_ge_one ord (standardizeItems items) it h).1

/-- why the order of the two steps matters (the repaired defect R8): widths measured BEFORE the
empty-with-unit → 0 normalisation leave no blank, `P1.LONGUNIT0 : d` -/
theorem C03_counterexample_widths_before_normalise :
    let raw : WItem := ⟨"P1".toList, "P1".toList, "LONGUNIT".toList, .str [], "d".toList⟩
    formatItem .valueDescr (sectionWidths (fun _ => .valueDescr) [raw])
      { raw with value := standardizeValue raw.value raw.unit } = "P1.LONGUNIT0 : d".toList := by
  decide

/-! ## the order tables (generated obligation: re-proved against `Generated.orderDefinitions` on every run) -/

/-- For every version string, every mnemonic:
* reader-side lookup (`SectionParser.__init__` + `metadata`) = writer-side lookup
  (`get_section_order_function`) for the four section kinds;
* in ~Curves and ~Parameter — where the reader never swaps — the writer never swaps either;
* a version present in the table has a usable order for each of the four sections. -/
theorem C03_order_tables (v : String) (m : Str) :
    (∀ kind, kind ≠ .other → readerOrderOf v kind m = orderOf v (secKey kind) m) ∧
    (∀ o, orderOf v "Curves" m = .ok o → o = .valueDescr) ∧
    (∀ o, orderOf v "Parameter" m = .ok o → o = .valueDescr) ∧
    (versionPresent v = true →
      ∀ s ∈ ["Version", "Well", "Curves", "Parameter"], ∃ o, orderOf v s m = .ok o) :=
  ⟨fun kind hk => readerOrderOf_eq v kind hk m,
   fun o h => orderOf_fixed v "Curves" (Or.inl rfl) m o h,
   fun o h => orderOf_fixed v "Parameter" (Or.inr rfl) m o h,
   fun hv s hs => orderOf_total v hv s hs m⟩

/-- the two versions `write` accepts are in the table -/
theorem C03_versions_present : versionPresent "1.2" = true ∧ versionPresent "2.0" = true := by decide

/-- version 2.0: "value:descr" everywhere -/
theorem C03_order_v20 (kind : SecName) (hk : kind ≠ .other) (m : Str) :
    orderOf "2.0" (secKey kind) m = .ok .valueDescr := by
  have h1 : sectionOrders "2.0" "Version" = some ("value:descr", []) := by decide
  have h2 : sectionOrders "2.0" "Well" = some ("value:descr", []) := by decide
  have h3 : sectionOrders "2.0" "Curves" = some ("value:descr", []) := by decide
  have h4 : sectionOrders "2.0" "Parameter" = some ("value:descr", []) := by decide
  have hp : parseOrder "value:descr" = some .valueDescr := by decide
  cases kind <;> simp_all [orderOf, secKey, ordersGet2, ordersGet]

/-- the mnemonics written value-first in a 1.2 ~Well section: STRT/STOP/STEP/NULL in any mixture of cases
(the table lists the all-upper and all-lower spellings; a mnemonic is looked up as it is and then upper-cased) -/
def wellValueFirst (m : Str) : Bool :=
  ["STRT", "STOP", "STEP", "NULL", "strt", "stop", "step", "null"].any fun x => x.toList == upper m

/-- version 1.2 ~Well: `MNEM.UNIT VALUE : DESCR` for STRT/STOP/STEP/NULL (any case),
`MNEM.UNIT DESCR : VALUE` for every other mnemonic -/
theorem C03_order_v12_well (m : Str) :
    orderOf "1.2" "Well" m = .ok (if wellValueFirst m then .valueDescr else .descrValue) := by
  have h : sectionOrders "1.2" "Well" = some ("descr:value",
      [("value:descr", ["STRT", "STOP", "STEP", "NULL", "strt", "stop", "step", "null"])]) := by decide
  have hp : parseOrder "value:descr" = some .valueDescr := by decide
  have hq : parseOrder "descr:value" = some .descrValue := by decide
  have hcl := List.all_eq_true.mp table_upper_closed _ (sectionOrders_mem h)
  have hg : ordersGet [("value:descr", ["STRT", "STOP", "STEP", "NULL", "strt", "stop", "step", "null"])] (upper m) =
      if wellValueFirst m = true then some "value:descr" else none := by
    simp [ordersGet, wellValueFirst]
  unfold orderOf
  simp only [h, ordersGet2_eq_upper _ hcl, hg]
  cases hwv : wellValueFirst m <;> simp [hp, hq]

/-! ## conformant items -/

/-- the property's field conditions on an item of a section of kind `kind` -/
structure TextConf (kind : SecName) (it : WItem) : Prop where
  mnem_ne : it.orig ≠ []
  mnem_strip : strip it.orig = it.orig
  mnem_chars : ∀ c ∈ it.orig, c ≠ '.' ∧ c ≠ ':'
  unit_nosp : ∀ c ∈ it.unit, isPySpace c = false
  unit_nodd : ¬ hasDotDot it.unit
  unit_notnum : it.unit = [] ∨ ¬ allDigits it.unit
  unit_nobr : isBracketed it.unit = false
  unit_first : it.unit.head? ≠ some '.'
  unit_last : it.unit.getLast? ≠ some '.'
  value_strip : strip it.value.text = it.value.text
  value_nocolon : ∀ c ∈ it.value.text, c ≠ ':'
  value_nodd : kind = .curves → ¬ hasDotDot it.value.text
  descr_strip : strip it.descr = it.descr
  descr_nocolon : ∀ c ∈ it.descr, c ≠ ':'

/-- the conditions of the property text give C04's `Conf` for the fields in the order they are written
(in a 1.2 ~Well line the description stands in the value slot and vice versa) -/
theorem C03_conf_of_text (kind : SecName) (o : Order) (it : WItem) (h : TextConf kind it)
    (ho : o = .descrValue → kind ≠ .curves) : Conf kind (lineFields o it) := by
  cases o with
  | valueDescr =>
    exact ⟨h.mnem_ne, h.mnem_strip, h.mnem_chars, h.unit_nosp, h.unit_nodd, h.unit_first, h.unit_last,
      h.value_strip, Or.inl h.value_nocolon, h.value_nodd, h.descr_strip, fun _ => h.descr_nocolon⟩
  | descrValue =>
    exact ⟨h.mnem_ne, h.mnem_strip, h.mnem_chars, h.unit_nosp, h.unit_nodd, h.unit_first, h.unit_last,
      h.descr_strip, Or.inl h.descr_nocolon, fun hk => absurd hk (ho rfl), h.value_strip,
      fun _ => h.value_nocolon⟩

/-- **Item round trip, general form**: the fields as laid out satisfy C04's `Conf` (so in ~Parameter clock-time
values and colons in the description are covered), the unit is neither purely numeric nor bracketed, and at
least one blank separates unit and right-hand field.  No hypothesis on the case map is needed any more: reader and
writer look the order up case-insensitively (`C03_case_stable`; before the repair see
`C03_counterexample_case_variant`). -/
theorem C03_item_general (v : String) (kind : SecName) (c : MCase) (o : Order) (W : Widths) (it : WItem)
    (hkind : kind ≠ .other)
    (hw : orderOf v (secKey kind) it.orig = .ok o)
    (hconf : Conf kind (lineFields o it))
    (hnum : it.unit = [] ∨ ¬ allDigits it.unit) (hbr : isBracketed it.unit = false)
    (hpad : rhsOf o it ≠ [] → 1 ≤ W.middle - it.unit.length - (rhsOf o it).length) :
    readItem v kind c (formatItem o W it) = some (expected c it) := by
  rw [formatItem_layout]
  exact readItem_layout v kind c o it _ _ [' '] hkind hw hconf hnum hbr
    (blank_replicate _) (blank_replicate _) blank_one
    (by
      intro h1 h2
      have := hpad h1
      have hl := congrArg List.length h2
      simp at hl
      omega)
    (by intro _; simp)

/-- **Item round trip** for a conformant item (`TextConf` = the property text): reading the written line
returns the original mnemonic under the case map, the unit, the value text and the description.
`o` is the order the writer used (looked up by the original mnemonic), `W` any widths that leave a blank
(`C03_pad_ge_one`). -/
theorem C03_item (v : String) (kind : SecName) (c : MCase) (o : Order) (W : Widths) (it : WItem)
    (hkind : kind ≠ .other)
    (hw : orderOf v (secKey kind) it.orig = .ok o)
    (hconf : TextConf kind it)
    (hpad : 1 ≤ W.middle - it.unit.length - (rhsOf o it).length) :
    readItem v kind c (formatItem o W it) = some (expected c it) := by
  have ho : o = .descrValue → kind ≠ .curves := by
    rintro rfl rfl
    exact absurd (orderOf_fixed v "Curves" (Or.inl rfl) _ _ hw) (by decide)
  exact C03_item_general v kind c o W it hkind hw (C03_conf_of_text kind o it hconf ho)
    hconf.unit_notnum hconf.unit_nobr (fun _ => hpad)

/-- **Reader and writer agree under every `mnemonic_case`** (every version, every section, every mnemonic):
the order found under the case-mapped name is the order found under the original one.  Rests on
`upper (upper m) = upper m` and `upper (lower m) = upper m` for every string, and on the generated table being
closed under `upper` (`table_upper_closed`). -/
theorem C03_case_stable (v s : String) (c : MCase) (m : Str) :
    orderOf v s (caseMap c m) = orderOf v s m := orderOf_caseMap v s c m

/-- **The repaired defect** (lasio 4979e47), documented on the OLD exact-key lookup `orderOfOld`: `Null` in a
1.2 ~Well section was written description-first (the writer looked up `Null`), while with
`mnemonic_case='upper'` the reader looked up `NULL` and took the description for the value.  With the
two-step lookup both sides say value-first, and the written line reads back under every case map. -/
theorem C03_counterexample_case_variant :
    orderOfOld "1.2" "Well" "Null".toList = .ok .descrValue ∧
    orderOfOld "1.2" "Well" (caseMap .upper "Null".toList) = .ok .valueDescr ∧
    orderOf "1.2" "Well" "Null".toList = .ok .valueDescr ∧
    orderOf "1.2" "Well" (caseMap .upper "Null".toList) = .ok .valueDescr ∧
    formatItem .valueDescr ⟨4, 10⟩ ⟨"Null".toList, "Null".toList, [], .str "the value".toList, "the descr".toList⟩ =
      "Null. the value : the descr".toList ∧
    readItem "1.2" .well .upper "Null. the value : the descr".toList =
      some ⟨"NULL".toList, [], "the value".toList, "the descr".toList⟩ := by
  decide

/-! ## sections -/

/-- **Section round trip**: reading back the lines `write` emits for one section gives the items in the same
order, duplicates included.  `hmark` is forced: a line starting with '#' is a comment and one starting with
'~' a section title (`C03_counterexample_comment_mnemonic`). -/
theorem C03_section (v : String) (kind : SecName) (c : MCase) (items : List WItem) (lines : List Str)
    (hkind : kind ≠ .other)
    (hw : writeSection v (secKey kind) items = .ok lines)
    (hconf : ∀ it ∈ items, TextConf kind it)
    (hmark : ∀ it ∈ items, it.orig.head? ≠ some '#' ∧ it.orig.head? ≠ some '~') :
    readSection v kind c lines = some (items.map (expected c)) := by
  unfold writeSection at hw
  rcases hso : sectionOrders v (secKey kind) with _ | tbl
  · simp [hso] at hw
  · simp only [hso] at hw
    split at hw
    · rename_i hall
      simp only [Except.ok.injEq] at hw
      subst hw
      generalize hord : (fun m => match orderOf v (secKey kind) m with
        | .ok o => o | .error _ => Order.valueDescr) = ord
      have hok : ∀ it ∈ items, orderOf v (secKey kind) it.orig = .ok (ord it.orig) := by
        intro it hit
        have := List.all_eq_true.mp hall it hit
        subst hord
        rcases h : orderOf v (secKey kind) it.orig with e | o
        · simp [h] at this
        · simp [h]
      unfold sectionLines
      -- only membership in `items` is used below; induct on a sublist
      have gen : ∀ l : List WItem, (∀ it ∈ l, it ∈ items) →
          readSection v kind c (l.map fun it => formatItem (ord it.orig) (sectionWidths ord items) it) =
            some (l.map (expected c)) := by
        intro l
        induction l with
        | nil => intro _; rfl
        | cons it l ih =>
          intro hl
          have hit : it ∈ items := hl it (by simp)
          have hwo := hok it hit
          have ho : ord it.orig = .descrValue → kind ≠ .curves := by
            intro h1 h2
            subst h2
            rw [h1] at hwo
            exact absurd (orderOf_fixed v "Curves" (Or.inl rfl) _ _ hwo) (by decide)
          have hline := readLine_formatItem v kind c (ord it.orig) (sectionWidths ord items) it hkind hwo
            (C03_conf_of_text kind _ it (hconf it hit) ho) (hconf it hit).unit_notnum
            (hconf it hit).unit_nobr (fun _ => (C03_pad_ge_one ord items it hit).1) (hmark it hit)
          simp only [List.map_cons, readSection, hline, ih (fun x hx => hl x (by simp [hx])), Option.map_some]
      exact gen items (fun _ h => h)
    · simp at hw

/-- for the two versions `write` accepts the section writer never fails -/
theorem C03_writeSection_total (v : String) (hv : v = "1.2" ∨ v = "2.0") (kind : SecName)
    (hkind : kind ≠ .other) (items : List WItem) : ∃ lines, writeSection v (secKey kind) items = .ok lines := by
  have hp : versionPresent v = true := by rcases hv with rfl | rfl <;> decide
  have hs : secKey kind ∈ ["Version", "Well", "Curves", "Parameter"] := by
    cases kind <;> simp_all [secKey]
  have htot := fun m => orderOf_total v hp (secKey kind) hs m
  unfold writeSection
  rcases hso : sectionOrders v (secKey kind) with _ | tbl
  · obtain ⟨o, ho⟩ := htot []
    simp [orderOf, hso] at ho
  · simp only []
    split
    · exact ⟨_, rfl⟩
    · rename_i hn
      exfalso
      apply hn
      apply List.all_eq_true.mpr
      intro it _
      obtain ⟨o, ho⟩ := htot it.orig
      simp [ho]

/-- `hmark` is needed: an item named `#A` is written as a comment line and disappears -/
theorem C03_counterexample_comment_mnemonic :
    let it : WItem := ⟨"#A".toList, "#A".toList, "M".toList, .str "1".toList, "d".toList⟩
    writeSection "2.0" "Well" [it] = .ok ["#A.M 1 : d".toList] ∧
    readSection "2.0" .well .preserve ["#A.M 1 : d".toList] = some [] := by
  dsimp only
  decide

/-! ## value normalisation -/

/-- **`standardize_value` is idempotent** (so a second `write` of the same object changes nothing) for
values whose flags are consistent (`None` is falsy and not zero) -/
theorem C03_standardize_idem (v : WVal) (u : Str) (hwf : v.WF) :
    standardizeValue (standardizeValue v u) u = standardizeValue v u := by
  obtain ⟨t, f, z, n⟩ := v
  unfold WVal.WF at hwf
  simp only at hwf
  cases hu : u.isEmpty <;> cases f <;> cases z <;> cases n <;>
    first
    | (simp at hwf; done)
    | simp [standardizeValue, hu, WVal.intZero, WVal.str]

/-- the well-formedness hypothesis is needed (flags no Python object has) -/
theorem C03_counterexample_standardize_flags :
    let v : WVal := ⟨[], false, false, true⟩
    standardizeValue (standardizeValue v ['M']) ['M'] ≠ standardizeValue v ['M'] := by
  dsimp only
  decide

/-- the documented difference: an empty (or `None`) value on an item that has a unit is written as 0;
`None` without unit is written as the empty string; everything else is written as it is -/
theorem C03_standardize_cases (v : WVal) (u : Str) (hwf : v.WF) :
    (u ≠ [] → v.falsy = true → v.isZero = false → standardizeValue v u = WVal.intZero) ∧
    (u = [] → v.isNone = true → standardizeValue v u = WVal.str []) ∧
    ((u = [] ∨ v.falsy = false ∨ v.isZero = true) → v.isNone = false → standardizeValue v u = v) := by
  obtain ⟨t, f, z, n⟩ := v
  unfold WVal.WF at hwf
  simp only at hwf
  refine ⟨?_, ?_, ?_⟩
  · intro h1 h2 h3
    simp only at h2 h3
    subst h2 h3
    have : u.isEmpty = false := by cases u <;> simp_all
    simp [standardizeValue, this, WVal.intZero]
  · intro h1 h2
    simp only at h2
    subst h1 h2
    simp [standardizeValue]
  · intro h1 h2
    simp only at h1 h2
    subst h2
    cases hu : u.isEmpty <;> cases f <;> cases z <;> simp_all [standardizeValue]

/-! ## ~Other -/

/-- normal form of the ~Other text: the only line break character is '\n' and the text does not end with one
(`str.splitlines` drops a final break; `\r`, `\x0b`, `\x0c`, `\x1c`–`\x1e`, `\x85`, U+2028/9 also break lines) -/
def OtherNF (t : Str) : Prop := (∀ c ∈ t, isLineBreak c = true → c = '\n') ∧ t.getLast? ≠ some '\n'

/-- **~Other**: the lines written for the ~Other text, joined with '\n' (what the reader stores, given that
each line is already stripped), are the text itself when it is in normal form -/
theorem C03_other (t : Str) (h : OtherNF t) : joinWith ['\n'] (splitlines t) = t := by
  have := splitlinesAux_join t [] h.1 (by simpa using h.2)
  simpa [splitlines] using this

/-- the normal form is needed: a final newline is not written -/
theorem C03_counterexample_other_trailing_newline :
    joinWith ['\n'] (splitlines "a\n".toList) = "a".toList := by decide

/-! ## Non-vacuity -/

/-- a conformant item of every section kind -/
theorem C03_example_conf (kind : SecName) :
    TextConf kind ⟨"DEPT".toList, "DEPT".toList, "M".toList, .str "1670.0".toList, "start (depth) \"x\"".toList⟩ where
  mnem_ne := by decide
  mnem_strip := by decide
  mnem_chars := by decide
  unit_nosp := by decide
  unit_nodd := by decide
  unit_notnum := Or.inr (by decide)
  unit_nobr := by decide
  unit_first := by decide
  unit_last := by decide
  value_strip := by decide
  value_nocolon := by decide
  value_nodd := fun _ => by decide
  descr_strip := by decide
  descr_nocolon := by decide

/-- a 1.2 ~Well item is written description-first and read back with value and description in place,
under every case map -/
example (c : MCase) :
    readItem "1.2" .well c (formatItem .descrValue ⟨6, 25⟩
      ⟨"DEPT".toList, "DEPT".toList, "M".toList, .str "1670.0".toList, "start (depth) \"x\"".toList⟩) =
      some ⟨caseMap c "DEPT".toList, "M".toList, "1670.0".toList, "start (depth) \"x\"".toList⟩ :=
  C03_item "1.2" .well c .descrValue ⟨6, 25⟩ _ (by decide) (by decide) (C03_example_conf .well) (by decide)

example : formatItem .descrValue ⟨6, 25⟩
    ⟨"DEPT".toList, "DEPT".toList, "M".toList, .str "1670.0".toList, "start (depth) \"x\"".toList⟩ =
    "DEPT  .M       start (depth) \"x\" : 1670.0".toList := by decide

#print axioms C03_pad_ge_one
#print axioms C03_pad_ge_one_standardized
#print axioms C03_counterexample_widths_before_normalise
#print axioms C03_order_tables
#print axioms C03_versions_present
#print axioms C03_order_v20
#print axioms C03_order_v12_well
#print axioms C03_conf_of_text
#print axioms C03_item_general
#print axioms C03_item
#print axioms C03_case_stable
#print axioms C03_counterexample_case_variant
#print axioms C03_section
#print axioms C03_writeSection_total
#print axioms C03_counterexample_comment_mnemonic
#print axioms C03_standardize_idem
#print axioms C03_counterexample_standardize_flags
#print axioms C03_standardize_cases
#print axioms C03_other
#print axioms C03_counterexample_other_trailing_newline
#print axioms C03_example_conf

end Lasio.Wr
