import LasioModel.Writer
import LasioProofs.Lemmas.WriterLemmas
import LasioProofs.Lemmas.RoundTripHeader
/-
C03 — header round trip: what `write` lays out (version 1.2 / 2.0) the reader parses back to the same items.
Property theorems only; helper lemmas live in LasioProofs/Lemmas/WriterLemmas.lean; the header-line grammar
round trip is C04 (`C04_main_all`).
-/
namespace Lasio.Wr

/-! ## widths -/

/-- **Padding lemma.**  With the widths computed from the items that are formatted (for ~Well / ~Parameter:
the NORMALISED items, see `headerLines`), every item gets at least one blank between the unit and the
right-hand field, and the mnemonic column is at least as wide as every mnemonic.  Arbitrary item lists, arbitrary
order function (so in particular the one keyed by the original mnemonic). -/
theorem C03_pad_ge_one (ord : Str → Order) (items : List WItem) (it : WItem) (h : it ∈ items) :
    1 ≤ (sectionWidths ord items).middle - it.unit.length - (rhsOf (ord it.orig) it).length ∧
    it.orig.length ≤ (sectionWidths ord items).left := by
  have := sectionWidths_middle ord items it h
  exact ⟨by omega, sectionWidths_left ord items it h⟩

/-- the same statement for the lines `write` emits for ~Well / ~Parameter: the widths are those of the
standardised items -/
theorem C03_pad_ge_one_standardized (ord : Str → Order) (items : List WItem) (it : WItem)
    (h : it ∈ standardizeItems items) :
    1 ≤ (sectionWidths ord (standardizeItems items)).middle - it.unit.length -
      (rhsOf (ord it.orig) it).length :=
  (C03_pad_ge_one ord (standardizeItems items) it h).1

/-- why the order of the two steps matters (the repaired defect R8): widths measured BEFORE the
empty-with-unit → 0 normalisation leave no blank, `P1.LONGUNIT0 : d` -/
theorem C03_counterexample_widths_before_normalise :
    let raw : WItem := ⟨"P1".toList, "P1".toList, "LONGUNIT".toList, .str [], "d".toList⟩
    formatItem .valueDescr (sectionWidths (fun _ => .valueDescr) [raw])
      { raw with value := standardizeValue raw.value raw.unit } = "P1.LONGUNIT0 : d".toList := by
  decide

/-! ## the order tables (generated obligation: re-proved against `Generated.orderDefinitions` on every run) -/

/-- For every version string, every mnemonic:
* reader-side lookup (`SectionParser.__init__` + `metadata`) = writer-side lookup
  (`get_section_order_function`) for the four section kinds;
* in ~Curves and ~Parameter — where the reader never swaps — the writer never swaps either;
* a version present in the table has a usable order for each of the four sections. -/
theorem C03_order_tables (v : String) (m : Str) :
    (∀ kind, kind ≠ .other → readerOrderOf v kind m = orderOf v (secKey kind) m) ∧
    (∀ o, orderOf v "Curves" m = .ok o → o = .valueDescr) ∧
    (∀ o, orderOf v "Parameter" m = .ok o → o = .valueDescr) ∧
    (versionPresent v = true →
      ∀ s ∈ ["Version", "Well", "Curves", "Parameter"], ∃ o, orderOf v s m = .ok o) :=
  ⟨fun kind hk => readerOrderOf_eq v kind hk m,
   fun o h => orderOf_fixed v "Curves" (Or.inl rfl) m o h,
   fun o h => orderOf_fixed v "Parameter" (Or.inr rfl) m o h,
   fun hv s hs => orderOf_total v hv s hs m⟩

/-- the two versions `write` accepts are in the table -/
theorem C03_versions_present : versionPresent "1.2" = true ∧ versionPresent "2.0" = true := by decide

/-- version 2.0: "value:descr" everywhere -/
theorem C03_order_v20 (kind : SecName) (hk : kind ≠ .other) (m : Str) :
    orderOf "2.0" (secKey kind) m = .ok .valueDescr := by
  have h1 : sectionOrders "2.0" "Version" = some ("value:descr", []) := by decide
  have h2 : sectionOrders "2.0" "Well" = some ("value:descr", []) := by decide
  have h3 : sectionOrders "2.0" "Curves" = some ("value:descr", []) := by decide
  have h4 : sectionOrders "2.0" "Parameter" = some ("value:descr", []) := by decide
  have hp : parseOrder "value:descr" = some .valueDescr := by decide
  cases kind <;> simp_all [orderOf, secKey, ordersGet2, ordersGet]

/-- the mnemonics written value-first in a 1.2 ~Well section: STRT/STOP/STEP/NULL in any mixture of cases
(the table lists the all-upper and all-lower spellings; a mnemonic is looked up as it is and then upper-cased) -/
def wellValueFirst (m : Str) : Bool :=
  ["STRT", "STOP", "STEP", "NULL", "strt", "stop", "step", "null"].any fun x => x.toList == upper m

/-- version 1.2 ~Well: `MNEM.UNIT VALUE : DESCR` for STRT/STOP/STEP/NULL (any case),
`MNEM.UNIT DESCR : VALUE` for every other mnemonic -/
theorem C03_order_v12_well (m : Str) :
    orderOf "1.2" "Well" m = .ok (if wellValueFirst m then .valueDescr else .descrValue) := by
  have h : sectionOrders "1.2" "Well" = some ("descr:value",
      [("value:descr", ["STRT", "STOP", "STEP", "NULL", "strt", "stop", "step", "null"])]) := by decide
  have hp : parseOrder "value:descr" = some .valueDescr := by decide
  have hq : parseOrder "descr:value" = some .descrValue := by decide
  have hcl := List.all_eq_true.mp table_upper_closed _ (sectionOrders_mem h)
  have hg : ordersGet [("value:descr", ["STRT", "STOP", "STEP", "NULL", "strt", "stop", "step", "null"])] (upper m) =
      if wellValueFirst m = true then some "value:descr" else none := by
    simp [ordersGet, wellValueFirst]
  unfold orderOf
  simp only [h, ordersGet2_eq_upper _ hcl, hg]
  cases hwv : wellValueFirst m <;> simp [hp, hq]

/-! ## conformant items -/

/-- the property's field conditions on an item of a section of kind `kind` -/
structure TextConf (kind : SecName) (it : WItem) : Prop where
  mnem_ne : it.orig ≠ []
  mnem_strip : strip it.orig = it.orig
  mnem_chars : ∀ c ∈ it.orig, c ≠ '.' ∧ c ≠ ':'
  unit_nosp : ∀ c ∈ it.unit, isPySpace c = false
  unit_nodd : ¬ hasDotDot it.unit
  unit_notnum : it.unit = [] ∨ ¬ allDigits it.unit
  unit_nobr : isBracketed it.unit = false
  unit_first : it.unit.head? ≠ some '.'
  unit_last : it.unit.getLast? ≠ some '.'
  value_strip : strip it.value.text = it.value.text
  value_nocolon : ∀ c ∈ it.value.text, c ≠ ':'
  value_nodd : kind = .curves → ¬ hasDotDot it.value.text
  descr_strip : strip it.descr = it.descr
  descr_nocolon : ∀ c ∈ it.descr, c ≠ ':'

/-- the conditions of the property text give C04's `Conf` for the fields in the order they are written
(in a 1.2 ~Well line the description stands in the value slot and vice versa) -/
theorem C03_conf_of_text (kind : SecName) (o : Order) (it : WItem) (h : TextConf kind it)
    (ho : o = .descrValue → kind ≠ .curves) : Conf kind (lineFields o it) := by
  cases o with
  | valueDescr =>
    exact ⟨h.mnem_ne, h.mnem_strip, h.mnem_chars, h.unit_nosp, h.unit_nodd, h.unit_first, h.unit_last,
      h.value_strip, Or.inl h.value_nocolon, h.value_nodd, h.descr_strip, fun _ => h.descr_nocolon⟩
  | descrValue =>
    exact ⟨h.mnem_ne, h.mnem_strip, h.mnem_chars, h.unit_nosp, h.unit_nodd, h.unit_first, h.unit_last,
      h.descr_strip, Or.inl h.descr_nocolon, fun hk => absurd hk (ho rfl), h.value_strip,
      fun _ => h.value_nocolon⟩

/-- **Item round trip, general form**: the fields as laid out satisfy C04's `Conf` (so in ~Parameter clock-time
values and colons in the description are covered), the unit is neither purely numeric nor bracketed, and at
least one blank separates unit and right-hand field.  No hypothesis on the case map is needed any more: reader and
writer look the order up case-insensitively (`C03_case_stable`; before the repair see
`C03_counterexample_case_variant`). -/
theorem C03_item_general (v : String) (kind : SecName) (c : MCase) (o : Order) (W : Widths) (it : WItem)
    (hkind : kind ≠ .other)
    (hw : orderOf v (secKey kind) it.orig = .ok o)
    (hconf : Conf kind (lineFields o it))
    (hnum : it.unit = [] ∨ ¬ allDigits it.unit) (hbr : isBracketed it.unit = false)
    (hpad : rhsOf o it ≠ [] → 1 ≤ W.middle - it.unit.length - (rhsOf o it).length) :
    readItem v kind c (formatItem o W it) = some (expected c it) := by
  rw [formatItem_layout]
  exact readItem_layout v kind c o it _ _ [' '] hkind hw hconf hnum hbr
    (blank_replicate _) (blank_replicate _) blank_one
    (by
      intro h1 h2
      have := hpad h1
      have hl := congrArg List.length h2
      simp at hl
      omega)
    (by intro _; simp)

/-- **Item round trip** for a conformant item (`TextConf` = the property text): reading the written line
returns the original mnemonic under the case map, the unit, the value text and the description.
`o` is the order the writer used (looked up by the original mnemonic), `W` any widths that leave a blank
(`C03_pad_ge_one`). -/
theorem C03_item (v : String) (kind : SecName) (c : MCase) (o : Order) (W : Widths) (it : WItem)
    (hkind : kind ≠ .other)
    (hw : orderOf v (secKey kind) it.orig = .ok o)
    (hconf : TextConf kind it)
    (hpad : 1 ≤ W.middle - it.unit.length - (rhsOf o it).length) :
    readItem v kind c (formatItem o W it) = some (expected c it) := by
  have ho : o = .descrValue → kind ≠ .curves := by
    rintro rfl rfl
    exact absurd (orderOf_fixed v "Curves" (Or.inl rfl) _ _ hw) (by decide)
  exact C03_item_general v kind c o W it hkind hw (C03_conf_of_text kind o it hconf ho)
    hconf.unit_notnum hconf.unit_nobr (fun _ => hpad)

/-- **Reader and writer agree under every `mnemonic_case`** (every version, every section, every mnemonic):
the order found under the case-mapped name is the order found under the original one.  Rests on
`upper (upper m) = upper m` and `upper (lower m) = upper m` for every string, and on the generated table being
closed under `upper` (`table_upper_closed`). -/
theorem C03_case_stable (v s : String) (c : MCase) (m : Str) :
    orderOf v s (caseMap c m) = orderOf v s m := orderOf_caseMap v s c m

/-- **The repaired defect** (lasio 4979e47), documented on the OLD exact-key lookup `orderOfOld`: `Null` in a
1.2 ~Well section was written description-first (the writer looked up `Null`), while with
`mnemonic_case='upper'` the reader looked up `NULL` and took the description for the value.  With the
two-step lookup both sides say value-first, and the written line reads back under every case map. -/
theorem C03_counterexample_case_variant :
    orderOfOld "1.2" "Well" "Null".toList = .ok .descrValue ∧
    orderOfOld "1.2" "Well" (caseMap .upper "Null".toList) = .ok .valueDescr ∧
    orderOf "1.2" "Well" "Null".toList = .ok .valueDescr ∧
    orderOf "1.2" "Well" (caseMap .upper "Null".toList) = .ok .valueDescr ∧
    formatItem .valueDescr ⟨4, 10⟩ ⟨"Null".toList, "Null".toList, [], .str "the value".toList, "the descr".toList⟩ =
      "Null. the value : the descr".toList ∧
    readItem "1.2" .well .upper "Null. the value : the descr".toList =
      some ⟨"NULL".toList, [], "the value".toList, "the descr".toList⟩ := by
  decide

/-! ## sections -/

/-- **Section round trip**: reading back the lines `write` emits for one section gives the items in the same
order, duplicates included.  `hmark` is forced: a line starting with '#' is a comment and one starting with
'~' a section title (`C03_counterexample_comment_mnemonic`). -/
theorem C03_section (v : String) (kind : SecName) (c : MCase) (items : List WItem) (lines : List Str)
    (hkind : kind ≠ .other)
    (hw : writeSection v (secKey kind) items = .ok lines)
    (hconf : ∀ it ∈ items, TextConf kind it)
    (hmark : ∀ it ∈ items, it.orig.head? ≠ some '#' ∧ it.orig.head? ≠ some '~') :
    readSection v kind c lines = some (items.map (expected c)) := by
  unfold writeSection at hw
  rcases hso : sectionOrders v (secKey kind) with _ | tbl
  · simp [hso] at hw
  · simp only [hso] at hw
    split at hw
    · rename_i hall
      simp only [Except.ok.injEq] at hw
      subst hw
      generalize hord : (fun m => match orderOf v (secKey kind) m with
        | .ok o => o | .error _ => Order.valueDescr) = ord
      have hok : ∀ it ∈ items, orderOf v (secKey kind) it.orig = .ok (ord it.orig) := by
        intro it hit
        have := List.all_eq_true.mp hall it hit
        subst hord
        rcases h : orderOf v (secKey kind) it.orig with e | o
        · simp [h] at this
        · simp [h]
      unfold sectionLines
      -- only membership in `items` is used below; induct on a sublist
      have gen : ∀ l : List WItem, (∀ it ∈ l, it ∈ items) →
          readSection v kind c (l.map fun it => formatItem (ord it.orig) (sectionWidths ord items) it) =
            some (l.map (expected c)) := by
        intro l
        induction l with
        | nil => intro _; rfl
        | cons it l ih =>
          intro hl
          have hit : it ∈ items := hl it (by simp)
          have hwo := hok it hit
          have ho : ord it.orig = .descrValue → kind ≠ .curves := by
            intro h1 h2
            subst h2
            rw [h1] at hwo
            exact absurd (orderOf_fixed v "Curves" (Or.inl rfl) _ _ hwo) (by decide)
          have hline := readLine_formatItem v kind c (ord it.orig) (sectionWidths ord items) it hkind hwo
            (C03_conf_of_text kind _ it (hconf it hit) ho) (hconf it hit).unit_notnum
            (hconf it hit).unit_nobr (fun _ => (C03_pad_ge_one ord items it hit).1) (hmark it hit)
          simp only [List.map_cons, readSection, hline, ih (fun x hx => hl x (by simp [hx])), Option.map_some]
      exact gen items (fun _ h => h)
    · simp at hw

/-- for the two versions `write` accepts the section writer never fails -/
theorem C03_writeSection_total (v : String) (hv : v = "1.2" ∨ v = "2.0") (kind : SecName)
    (hkind : kind ≠ .other) (items : List WItem) : ∃ lines, writeSection v (secKey kind) items = .ok lines := by
  have hp : versionPresent v = true := by rcases hv with rfl | rfl <;> decide
  have hs : secKey kind ∈ ["Version", "Well", "Curves", "Parameter"] := by
    cases kind <;> simp_all [secKey]
  have htot := fun m => orderOf_total v hp (secKey kind) hs m
  unfold writeSection
  rcases hso : sectionOrders v (secKey kind) with _ | tbl
  · obtain ⟨o, ho⟩ := htot []
    simp [orderOf, hso] at ho
  · simp only []
    split
    · exact ⟨_, rfl⟩
    · rename_i hn
      exfalso
      apply hn
      apply List.all_eq_true.mpr
      intro it _
      obtain ⟨o, ho⟩ := htot it.orig
      simp [ho]

/-- `hmark` is needed: an item named `#A` is written as a comment line and disappears -/
theorem C03_counterexample_comment_mnemonic :
    let it : WItem := ⟨"#A".toList, "#A".toList, "M".toList, .str "1".toList, "d".toList⟩
    writeSection "2.0" "Well" [it] = .ok ["#A.M 1 : d".toList] ∧
    readSection "2.0" .well .preserve ["#A.M 1 : d".toList] = some [] := by
  dsimp only
  decide

/-! ## value normalisation -/

/-- **`standardize_value` is idempotent** (so a second `write` of the same object changes nothing) for
values whose flags are consistent (`None` is falsy and not zero) -/
theorem C03_standardize_idem (v : WVal) (u : Str) (hwf : v.WF) :
    standardizeValue (standardizeValue v u) u = standardizeValue v u := by
  obtain ⟨t, f, z, n⟩ := v
  unfold WVal.WF at hwf
  simp only at hwf
  cases hu : u.isEmpty <;> cases f <;> cases z <;> cases n <;>
    first
    | (simp at hwf; done)
    | simp [standardizeValue, hu, WVal.intZero, WVal.str]

/-- the well-formedness hypothesis is needed (flags no Python object has) -/
theorem C03_counterexample_standardize_flags :
    let v : WVal := ⟨[], false, false, true⟩
    standardizeValue (standardizeValue v ['M']) ['M'] ≠ standardizeValue v ['M'] := by
  dsimp only
  decide

/-- the documented difference: an empty (or `None`) value on an item that has a unit is written as 0;
`None` without unit is written as the empty string; everything else is written as it is -/
theorem C03_standardize_cases (v : WVal) (u : Str) (hwf : v.WF) :
    (u ≠ [] → v.falsy = true → v.isZero = false → standardizeValue v u = WVal.intZero) ∧
    (u = [] → v.isNone = true → standardizeValue v u = WVal.str []) ∧
    ((u = [] ∨ v.falsy = false ∨ v.isZero = true) → v.isNone = false → standardizeValue v u = v) := by
  obtain ⟨t, f, z, n⟩ := v
  unfold WVal.WF at hwf
  simp only at hwf
  refine ⟨?_, ?_, ?_⟩
  · intro h1 h2 h3
    simp only at h2 h3
    subst h2 h3
    have : u.isEmpty = false := by cases u <;> simp_all
    simp [standardizeValue, this, WVal.intZero]
  · intro h1 h2
    simp only at h2
    subst h1 h2
    simp [standardizeValue]
  · intro h1 h2
    simp only at h1 h2
    subst h2
    cases hu : u.isEmpty <;> cases f <;> cases z <;> simp_all [standardizeValue]

/-! ## ~Other -/

/-- normal form of the ~Other text: the only line break character is '\n' and the text does not end with one
(`str.splitlines` drops a final break; `\r`, `\x0b`, `\x0c`, `\x1c`–`\x1e`, `\x85`, U+2028/9 also break lines) -/
def OtherNF (t : Str) : Prop := (∀ c ∈ t, isLineBreak c = true → c = '\n') ∧ t.getLast? ≠ some '\n'

/-- **~Other**: the lines written for the ~Other text, joined with '\n' (what the reader stores, given that
each line is already stripped), are the text itself when it is in normal form -/
theorem C03_other (t : Str) (h : OtherNF t) : joinWith ['\n'] (splitlines t) = t := by
  have := splitlinesAux_join t [] h.1 (by simpa using h.2)
  simpa [splitlines] using this

/-- the normal form is needed: a final newline is not written -/
theorem C03_counterexample_other_trailing_newline :
    joinWith ['\n'] (splitlines "a\n".toList) = "a".toList := by decide

/-! ## Non-vacuity -/

/-- a conformant item of every section kind -/
theorem C03_example_conf (kind : SecName) :
    TextConf kind ⟨"DEPT".toList, "DEPT".toList, "M".toList, .str "1670.0".toList, "start (depth) \"x\"".toList⟩ where
  mnem_ne := by decide
  mnem_strip := by decide
  mnem_chars := by decide
  unit_nosp := by decide
  unit_nodd := by decide
  unit_notnum := Or.inr (by decide)
  unit_nobr := by decide
  unit_first := by decide
  unit_last := by decide
  value_strip := by decide
  value_nocolon := by decide
  value_nodd := fun _ => by decide
  descr_strip := by decide
  descr_nocolon := by decide

/-- a 1.2 ~Well item is written description-first and read back with value and description in place,
under every case map -/
example (c : MCase) :
    readItem "1.2" .well c (formatItem .descrValue ⟨6, 25⟩
      ⟨"DEPT".toList, "DEPT".toList, "M".toList, .str "1670.0".toList, "start (depth) \"x\"".toList⟩) =
      some ⟨caseMap c "DEPT".toList, "M".toList, "1670.0".toList, "start (depth) \"x\"".toList⟩ :=
  C03_item "1.2" .well c .descrValue ⟨6, 25⟩ _ (by decide) (by decide) (C03_example_conf .well) (by decide)

example : formatItem .descrValue ⟨6, 25⟩
    ⟨"DEPT".toList, "DEPT".toList, "M".toList, .str "1670.0".toList, "start (depth) \"x\"".toList⟩ =
    "DEPT  .M       start (depth) \"x\" : 1670.0".toList := by decide

#print axioms C03_pad_ge_one
#print axioms C03_pad_ge_one_standardized
#print axioms C03_counterexample_widths_before_normalise
#print axioms C03_order_tables
#print axioms C03_versions_present
#print axioms C03_order_v20
#print axioms C03_order_v12_well
#print axioms C03_conf_of_text
#print axioms C03_item_general
#print axioms C03_item
#print axioms C03_case_stable
#print axioms C03_counterexample_case_variant
#print axioms C03_section
#print axioms C03_writeSection_total
#print axioms C03_counterexample_comment_mnemonic
#print axioms C03_standardize_idem
#print axioms C03_counterexample_standardize_flags
#print axioms C03_standardize_cases
#print axioms C03_other
#print axioms C03_counterexample_other_trailing_newline
#print axioms C03_example_conf

end Lasio.Wr

namespace Lasio.Wr

/-! ## the file-level clause: the whole-file reader model (`Lasio.Rd`) inverts the header writer model -/

/-- no ~Other line may look like a section title (`line.strip().startswith("~")`) -/
def OtherOK (t : Str) : Prop := ∀ l ∈ splitlines t, (strip l).head? ≠ some '~'

/-- every ~Other line is stripped already (the reader stores `line.strip()`) -/
def OtherStripped (t : Str) : Prop := ∀ l ∈ splitlines t, strip l = l

/-- the part of `hmark`/`TextConf` that keeps an item line from being taken for a title -/
def NoTitleMnem (it : WItem) : Prop := it.orig ≠ [] ∧ strip it.orig = it.orig ∧ it.orig.head? ≠ some '~'

theorem NoTitleMnem.of_conf {kind : SecName} {it : WItem} (h : TextConf kind it)
    (hm : it.orig.head? ≠ some '#' ∧ it.orig.head? ≠ some '~') : NoTitleMnem it :=
  ⟨h.mnem_ne, h.mnem_strip, hm.2⟩

theorem standardizeItems_orig (items : List WItem) (P : Str → Prop) (h : ∀ it ∈ items, P it.orig) :
    ∀ it ∈ standardizeItems items, P it.orig := by
  intro it hit
  obtain ⟨y, hy, rfl⟩ := List.mem_map.mp hit
  exact h y hy

/-- **The written header is a well-formed document of the reader model**: `headerLines` is the five written
sections laid flat (title line `title.ljust(width, "-")`, then the body), every title line is recognised as a title by
the reader's title scan and no body line is — so `C05_windows` / `C05_read_rendered` apply.  Item lines: the mnemonic
is non-empty, stripped and does not start with '~' (`NoTitleMnem`, a part of `TextConf` + `hmark`); ~Other lines:
`OtherOK`. -/
theorem C03_written_document_wellformed (version : String) (wrap : Option Bool) (w : Nat) (las las' : WLas)
    (lines : List Str) (h : headerLines version wrap w las = .ok (lines, las'))
    (hmv : ∀ it ∈ RH.versionCopy version wrap las, NoTitleMnem it)
    (hmw : ∀ it ∈ las.well, NoTitleMnem it) (hmc : ∀ it ∈ las.curves, NoTitleMnem it)
    (hmp : ∀ it ∈ las.params, NoTitleMnem it) (ho : OtherOK las.other) :
    ∃ secs, headerSections version wrap las = .ok (secs, las') ∧
      lines = Rd.flat (RH.written w secs) ∧ Rd.WellFormed (RH.written w secs) ∧
      Rd.findSections lines = Rd.docWindows (RH.written w secs) 0 := by
  unfold headerLines at h
  cases hs : headerSections version wrap las with
  | error e => rw [hs] at h; cases h
  | ok r =>
    obtain ⟨secs, l2⟩ := r
    rw [hs] at h
    simp only [Except.ok.injEq, Prod.mk.injEq] at h
    obtain ⟨h1, h2⟩ := h
    subst h2
    obtain ⟨_, lv, lw, lc, lp, wv, ww, wc, wp, rfl, _⟩ := RH.headerSections_ok version wrap las l2 secs hs
    have hw : Rd.WellFormed (RH.written w [("~Version ", lv), ("~Well ", lw), ("~Curve Information ", lc),
        ("~Params ", lp), ("~Other ", splitlines las.other)]) := by
      apply RH.wellFormed_written
      · exact RH.writeSection_notitle _ _ _ _ wv hmv
      · exact RH.writeSection_notitle _ _ _ _ ww (standardizeItems_orig las.well
          (fun o => o ≠ [] ∧ strip o = o ∧ o.head? ≠ some '~') hmw)
      · exact RH.writeSection_notitle _ _ _ _ wc hmc
      · exact RH.writeSection_notitle _ _ _ _ wp (standardizeItems_orig las.params
          (fun o => o ≠ [] ∧ strip o = o ∧ o.head? ≠ some '~') hmp)
      · intro b hb
        rw [Rd.isTitle_eq, RH.startsTilde_false_iff]
        exact ho b hb
    have hl : lines = Rd.flat (RH.written w [("~Version ", lv), ("~Well ", lw), ("~Curve Information ", lc),
        ("~Params ", lp), ("~Other ", splitlines las.other)]) := by
      rw [← h1, RH.flat_written]
    refine ⟨_, rfl, hl, hw, ?_⟩
    have := Rd.C05_windows [] _ (by simp) hw
    simpa [hl] using this


/-- **Per line, the whole-file reader computes what `readLine`/`readItem` compute.**  `kind` one of the four item
sections, `v` a version whose table has that section (1.2 and 2.0 do).  The reader derives from the written title
`~Version ---…` / `~Well ---…` / `~Curve Information ---…` / `~Params ---…` (any header width `w`): section type
"Header items", the key "Version" / "Well" / "Curves" / "Parameter", and the parser object `p` (`metadata` over the
version's order table for ~V/~W, `curves`, `params`); with that parser `Rd.lineRes` on ANY line is `Wr.readLine`
(skip ↦ skip, stop ↦ title, error ↦ bad, item ↦ the same name, unit, raw value, description): both are
`read_header_line` + the case map + the two-step order lookup + `strip_brackets`. -/
theorem C03_rd_item_eq_wr_item (o : Rd.ReadOpts) (v : String) (kind : SecName) (hk : kind ≠ .other)
    (hso : (sectionOrders v (secKey kind)).isSome = true) (ver : Rd.VerVal) (w : Nat) :
    Rd.sectionType (Rd.sline (titleLine (RH.titleOf kind) w)) = .items ∧
    Rd.routeKey (Rd.sline (titleLine (RH.titleOf kind) w)) ver = .ok (RH.keyOf kind) ∧
    ∃ p, Rd.mkParser (Rd.lineStrip (titleLine (RH.titleOf kind) w)) (.known v.toList) = .ok p ∧
      ∀ line, Rd.lineRes o p line = RH.cvtRes (readLine v kind (RH.cvtCase o.mnemonicCase) line) := by
  obtain ⟨h1, h2, h3⟩ := RH.written_title_dispatch kind hk v ver w
  exact ⟨h1, h2, _, h3, fun line => RH.lineRes_eq o v kind hk hso line⟩

/-- on a written item line the whole-file reader's per-line function returns the item: original mnemonic under the
case map, unit, value text, description -/
theorem C03_rd_written_line (o : Rd.ReadOpts) (v : String) (kind : SecName) (ord : Order) (W : Widths) (it : WItem)
    (hk : kind ≠ .other) (hw : orderOf v (secKey kind) it.orig = .ok ord) (hconf : TextConf kind it)
    (hpad : 1 ≤ W.middle - it.unit.length - (rhsOf ord it).length)
    (hmark : it.orig.head? ≠ some '#' ∧ it.orig.head? ≠ some '~') :
    Rd.lineRes o (RH.parserOf v kind) (formatItem ord W it) =
      .item ⟨caseMap (RH.cvtCase o.mnemonicCase) it.orig, it.unit, it.value.text, it.descr⟩ := by
  have hso : (sectionOrders v (secKey kind)).isSome = true := by
    unfold orderOf at hw
    cases h : sectionOrders v (secKey kind) with
    | none => rw [h] at hw; cases hw
    | some x => rfl
  have ho : ord = .descrValue → kind ≠ .curves := by
    rintro rfl rfl
    exact absurd (orderOf_fixed v "Curves" (Or.inl rfl) _ _ hw) (by decide)
  rw [RH.lineRes_eq o v kind hk hso,
    readLine_formatItem v kind (RH.cvtCase o.mnemonicCase) ord W it hk hw (C03_conf_of_text kind ord it hconf ho)
      hconf.unit_notnum hconf.unit_nobr (fun _ => hpad) hmark]
  rfl

/-- what the reader returns for a written item -/
def rdExpected (o : Rd.ReadOpts) (it : WItem) : Rd.RItem :=
  ⟨caseMap (RH.cvtCase o.mnemonicCase) it.orig, it.unit, it.value.text, it.descr⟩

/-- the reader finds the VERS item of the written ~Version section: exactly one item of that section has the
(case-mapped, useful) mnemonic VERS in the sense of `SectionItems.__contains__`, and its value is the version -/
def VersOK (o : Rd.ReadOpts) (version : String) (vcopy : List WItem) : Prop :=
  ∃ x, vcopy.filter (fun it => Rd.mcmp (o.mnemonicCase != .preserve)
      (Rd.usefulMn (caseMap (RH.cvtCase o.mnemonicCase) it.orig)) "VERS".toList) = [x] ∧
    x.value.text = version.toList

/-- **File-level round trip (header).**  The lines `write` emits before the data section, read by the whole-file
reader (`find_sections_in_file` + the section loop of `LASFile.read`): every section is found, read with the parser of
its kind under the version its VERS item announces, and stored under "Version", "Well", "Curves", "Parameter" with
exactly the written items in order (original mnemonic under the case map, unit, value text, description), and the
stripped ~Other lines joined by '\n' under "Other".  The written items are: the ~Version copy with WRAP and VERS
substituted (`RH.versionCopy`), the standardised ~Well and ~Parameter items, the ~Curves items. -/
theorem C03_file (o : Rd.ReadOpts) (version : String) (wrap : Option Bool) (w : Nat) (las las' : WLas)
    (lines : List Str) (h : headerLines version wrap w las = .ok (lines, las'))
    (hcv : ∀ it ∈ RH.versionCopy version wrap las, TextConf .version it)
    (hcw : ∀ it ∈ standardizeItems las.well, TextConf .well it)
    (hcc : ∀ it ∈ las.curves, TextConf .curves it)
    (hcp : ∀ it ∈ standardizeItems las.params, TextConf .parameter it)
    (hmv : ∀ it ∈ RH.versionCopy version wrap las, it.orig.head? ≠ some '#' ∧ it.orig.head? ≠ some '~')
    (hmw : ∀ it ∈ las.well, it.orig.head? ≠ some '#' ∧ it.orig.head? ≠ some '~')
    (hmc : ∀ it ∈ las.curves, it.orig.head? ≠ some '#' ∧ it.orig.head? ≠ some '~')
    (hmp : ∀ it ∈ las.params, it.orig.head? ≠ some '#' ∧ it.orig.head? ≠ some '~')
    (hvers : VersOK o version (RH.versionCopy version wrap las))
    (ho : OtherOK las.other) :
    ∃ st, Rd.processSections o lines (Rd.findSections lines) Rd.RState.init = .ok st ∧
      st.sections =
        [(Rd.kVersion, some (.items ((RH.versionCopy version wrap las).map (rdExpected o)))),
         (Rd.kWell, some (.items ((standardizeItems las.well).map (rdExpected o)))),
         (Rd.kCurves, some (.items (las.curves.map (rdExpected o)))),
         (Rd.kParameter, some (.items ((standardizeItems las.params).map (rdExpected o)))),
         (Rd.kOther, some (.text (joinWith ['\n'] ((splitlines las.other).map strip))))] ∧
      st.steer.vers = some version.toList ∧
      ((∀ it ∈ RH.versionCopy version wrap las, upper it.orig ≠ "DLM".toList) →
        ∃ steer, Rd.readLines o lines = .ok
          ⟨[(Rd.kVersion, .items ((RH.versionCopy version wrap las).map (rdExpected o))),
            (Rd.kWell, .items ((standardizeItems las.well).map (rdExpected o))),
            (Rd.kCurves, .items (las.curves.map (rdExpected o))),
            (Rd.kParameter, .items ((standardizeItems las.params).map (rdExpected o))),
            (Rd.kOther, .text (joinWith ['\n'] ((splitlines las.other).map strip)))], steer, []⟩ ∧
          steer.vers = some version.toList) := by
  unfold headerLines at h
  cases hs : headerSections version wrap las with
  | error e => rw [hs] at h; cases h
  | ok r =>
    obtain ⟨secs, l2⟩ := r
    rw [hs] at h
    simp only [Except.ok.injEq, Prod.mk.injEq] at h
    obtain ⟨h1, h2⟩ := h
    subst h2
    obtain ⟨hver, lv, lw, lc, lp, wv, ww, wc, wp, rfl, _⟩ := RH.headerSections_ok version wrap las l2 secs hs
    -- each section read back on its own (`C03_section`)
    have hmw' := standardizeItems_orig las.well (fun o => o.head? ≠ some '#' ∧ o.head? ≠ some '~') hmw
    have hmp' := standardizeItems_orig las.params (fun o => o.head? ≠ some '#' ∧ o.head? ≠ some '~') hmp
    have rv := C03_section version .version (RH.cvtCase o.mnemonicCase) _ lv (by decide) wv hcv hmv
    rw [← RH.readSection_version_prov version hver] at rv
    have rw' := C03_section version .well (RH.cvtCase o.mnemonicCase) _ lw (by decide) ww hcw hmw'
    have rc := C03_section version .curves (RH.cvtCase o.mnemonicCase) _ lc (by decide) wc hcc hmc
    have rp := C03_section version .parameter (RH.cvtCase o.mnemonicCase) _ lp (by decide) wp hcp hmp'
    -- no body line is a title
    have nv := RH.writeSection_notitle _ _ _ _ wv (fun it hit => NoTitleMnem.of_conf (hcv it hit) (hmv it hit))
    have nw := RH.writeSection_notitle _ _ _ _ ww (fun it hit => NoTitleMnem.of_conf (hcw it hit) (hmw' it hit))
    have nc := RH.writeSection_notitle _ _ _ _ wc (fun it hit => NoTitleMnem.of_conf (hcc it hit) (hmc it hit))
    have np := RH.writeSection_notitle _ _ _ _ wp (fun it hit => NoTitleMnem.of_conf (hcp it hit) (hmp' it hit))
    have no : ∀ b ∈ splitlines las.other, Rd.isTitle b = false := by
      intro b hb
      rw [Rd.isTitle_eq, RH.startsTilde_false_iff]
      exact ho b hb
    -- the steering lookup finds the VERS item
    obtain ⟨x, hx, hxv⟩ := hvers
    have hlv : (Rd.lookupItem (o.mnemonicCase != .preserve)
        (((RH.versionCopy version wrap las).map (expected (RH.cvtCase o.mnemonicCase))).map RH.toRd)
        "VERS".toList).map (·.value) = some version.toList := by
      rw [RH.lookup_written _ _ _ (Rd.steerKey_nocolon _ _ (by simp [Rd.steerKeys])), hx]
      simp [Rd.uniq, RH.toRd, expected, hxv]
    have key := RH.readLines_written o version w lv lw lc lp (splitlines las.other) _ _ _ _ version.toList
      (RH.sectionOrders_some version hver) nv nw nc np no rv rw' rc rp hlv (RH.classifyVer_written version hver)
      lines h1.symm
    have hmm : ∀ items : List WItem, (items.map (expected (RH.cvtCase o.mnemonicCase))).map RH.toRd =
        items.map (rdExpected o) := by
      intro items; rw [List.map_map]; rfl
    simp only [hmm] at key
    obtain ⟨⟨st, hst, hsec, hvv⟩, hrl⟩ := key
    refine ⟨st, hst, hsec, hvv, ?_⟩
    intro hdlm
    apply hrl
    intro d hd
    exfalso
    rw [← hmm, RH.lookup_written _ _ _ (Rd.steerKey_nocolon _ _ (by simp [Rd.steerKeys]))] at hd
    have : (RH.versionCopy version wrap las).filter (fun it => Rd.mcmp (o.mnemonicCase != .preserve)
        (Rd.usefulMn (caseMap (RH.cvtCase o.mnemonicCase) it.orig)) "DLM".toList) = [] := by
      apply List.filter_eq_nil_iff.mpr
      intro it hit
      rw [RH.mcmp_dlm_false o it.orig (hdlm it hit)]
      simp
    rw [this] at hd
    simp [Rd.uniq] at hd


/-- the per-section form: under each of the four keys the reader returns exactly the read-back of that section's
own items, in order -/
theorem C03_file_section (o : Rd.ReadOpts) (version : String) (wrap : Option Bool) (w : Nat) (las las' : WLas)
    (lines : List Str) (h : headerLines version wrap w las = .ok (lines, las'))
    (hcv : ∀ it ∈ RH.versionCopy version wrap las, TextConf .version it)
    (hcw : ∀ it ∈ standardizeItems las.well, TextConf .well it)
    (hcc : ∀ it ∈ las.curves, TextConf .curves it)
    (hcp : ∀ it ∈ standardizeItems las.params, TextConf .parameter it)
    (hmv : ∀ it ∈ RH.versionCopy version wrap las, it.orig.head? ≠ some '#' ∧ it.orig.head? ≠ some '~')
    (hmw : ∀ it ∈ las.well, it.orig.head? ≠ some '#' ∧ it.orig.head? ≠ some '~')
    (hmc : ∀ it ∈ las.curves, it.orig.head? ≠ some '#' ∧ it.orig.head? ≠ some '~')
    (hmp : ∀ it ∈ las.params, it.orig.head? ≠ some '#' ∧ it.orig.head? ≠ some '~')
    (hvers : VersOK o version (RH.versionCopy version wrap las))
    (ho : OtherOK las.other) :
    ∃ st, Rd.processSections o lines (Rd.findSections lines) Rd.RState.init = .ok st ∧
      Rd.lookupSec Rd.kVersion st.sections = some (.items ((RH.versionCopy version wrap las).map (rdExpected o))) ∧
      Rd.lookupSec Rd.kWell st.sections = some (.items ((standardizeItems las.well).map (rdExpected o))) ∧
      Rd.lookupSec Rd.kCurves st.sections = some (.items (las.curves.map (rdExpected o))) ∧
      Rd.lookupSec Rd.kParameter st.sections = some (.items ((standardizeItems las.params).map (rdExpected o))) ∧
      Rd.lookupSec Rd.kOther st.sections = some (.text (joinWith ['\n'] ((splitlines las.other).map strip))) := by
  obtain ⟨st, hst, hsec, _, _⟩ := C03_file o version wrap w las las' lines h hcv hcw hcc hcp hmv hmw hmc hmp hvers ho
  refine ⟨st, hst, ?_, ?_, ?_, ?_, ?_⟩ <;> rw [hsec] <;> rfl

/-- the stored ~Other text is the original text when that is in normal form and its lines are stripped -/
theorem C03_file_other_text (t : Str) (hnf : OtherNF t) (hs : OtherStripped t) :
    joinWith ['\n'] ((splitlines t).map strip) = t := by
  have : (splitlines t).map strip = splitlines t := by
    conv => rhs; rw [← List.map_id (splitlines t)]
    apply List.map_congr_left
    intro l hl; exact hs l hl
  rw [this, C03_other t hnf]

/-! ### the hypotheses on the written ~Version section from hypotheses on `las.version` -/

theorem TextConf.of_text {kind : SecName} {a b : WItem} (h : RH.textOf a = RH.textOf b) (hb : TextConf kind b) :
    TextConf kind a := by
  obtain ⟨a1, a2, a3, a4, a5⟩ := a
  obtain ⟨b1, b2, b3, b4, b5⟩ := b
  simp only [RH.textOf, Prod.mk.injEq] at h
  obtain ⟨rfl, rfl, rfl, rfl⟩ := h
  exact ⟨hb.1, hb.2, hb.3, hb.4, hb.5, hb.6, hb.7, hb.8, hb.9, hb.10, hb.11, hb.12, hb.13, hb.14⟩

theorem conf_wrapItem (b : Bool) : TextConf .version (wrapItem b) := by
  cases b <;>
  exact ⟨by decide, by decide, by decide, by decide, by decide, Or.inl rfl, by decide, by decide, by decide,
    by decide, by decide, (fun h => nomatch h), by decide, by decide⟩

theorem conf_versItem (v : String) (it : WItem) (h : versItem v = some it) : TextConf .version it := by
  unfold versItem at h
  split at h
  · cases h
    exact ⟨by decide, by decide, by decide, by decide, by decide, Or.inl rfl, by decide, by decide, by decide,
      by decide, by decide, (fun h => nomatch h), by decide, by decide⟩
  · split at h
    · cases h
      exact ⟨by decide, by decide, by decide, by decide, by decide, Or.inl rfl, by decide, by decide, by decide,
        by decide, by decide, (fun h => nomatch h), by decide, by decide⟩
    · cases h

/-- WRAP and VERS are conformant items, and `set_item` changes session mnemonics only: the conditions on the written
~Version section follow from the same conditions on `las.version` -/
theorem C03_versionCopy_conf (version : String) (wrap : Option Bool) (las : WLas)
    (hc : ∀ it ∈ las.version, TextConf .version it)
    (hm : ∀ it ∈ las.version, it.orig.head? ≠ some '#' ∧ it.orig.head? ≠ some '~') :
    (∀ it ∈ RH.versionCopy version wrap las, TextConf .version it) ∧
    (∀ it ∈ RH.versionCopy version wrap las, it.orig.head? ≠ some '#' ∧ it.orig.head? ≠ some '~') := by
  constructor
  · intro it hit
    obtain ⟨y, hy, hye⟩ := RH.versionCopy_mem version wrap las it hit
    apply TextConf.of_text hye
    rcases hy with h | ⟨b, rfl⟩ | h
    · exact hc y h
    · exact conf_wrapItem b
    · exact conf_versItem version y h
  · intro it hit
    obtain ⟨y, hy, hye⟩ := RH.versionCopy_mem version wrap las it hit
    have ho : it.orig = y.orig := congrArg (·.1) hye
    rw [ho]
    rcases hy with h | ⟨b, rfl⟩ | h
    · exact hm y h
    · cases b <;> decide
    · unfold versItem at h
      split at h
      · cases h; decide
      · split at h
        · cases h; decide
        · cases h


/-! ### the hypotheses are needed; non-vacuity -/

def exDept : WItem :=
  ⟨"DEPT".toList, "DEPT".toList, "M".toList, .str "1670.0".toList, "start (depth) \"x\"".toList⟩
def exVers : WItem := mkWItem "VERS".toList [] (.num "1.2".toList false) "old".toList

/-- `VersOK` is needed: a ~Version section with duplicate VERS items (session mnemonics VERS:1, VERS:2, so
`version["VERS"] = …` appends a third) is written as three VERS lines; the reader's `"VERS" in section` is then
False, the provisional version stays 2.0, and the 1.2 ~Well line (description first) is read value-first: value and
description come back swapped -/
theorem C03_counterexample_duplicate_vers :
    let las : WLas := ⟨[{ exVers with session := "VERS:1".toList }, { exVers with session := "VERS:2".toList },
      wrapItem true], true, [exDept], [], [], []⟩
    (headerLines "1.2" (some false) 20 las).toOption.map (fun r =>
      (Rd.readLines ⟨false, .upper⟩ r.1).toOption.map (fun hd =>
        (hd.steer.vers, Rd.lookupSec Rd.kWell (hd.sections.map fun kv => (kv.1, some kv.2))))) =
    some (some (none, some (.items
      [⟨"DEPT".toList, "M".toList, "start (depth) \"x\"".toList, "1670.0".toList⟩]))) := by
  decide +kernel

/-- `OtherOK` is needed: an ~Other line that starts with '~' is a section title for the reader -/
theorem C03_counterexample_other_title :
    let las : WLas := ⟨[exVers, wrapItem true], true, [], [], [], "a\n~b\nc".toList⟩
    (headerLines "2.0" (some false) 20 las).toOption.map (fun r =>
      (Rd.processSections ⟨true, .upper⟩ r.1 (Rd.findSections r.1) Rd.RState.init).toOption.map (fun st =>
        Rd.lookupSec Rd.kOther st.sections)) = some (some (some (.text "a".toList))) := by
  decide +kernel

/-- the '~' half of `hmark` is needed at file level too: the line of an item named `~X` starts a new section -/
theorem C03_counterexample_tilde_mnemonic :
    let it : WItem := ⟨"~X".toList, "~X".toList, "M".toList, .str "1".toList, "d".toList⟩
    let las : WLas := ⟨[exVers, wrapItem true], true, [exDept, it], [], [], []⟩
    (headerLines "2.0" (some false) 20 las).toOption.map (fun r =>
      (Rd.findSections r.1).map (·.2.2)) =
    some ["~Version -----------".toList, "~Well --------------".toList, "~X  .M      1 : d".toList,
      "~Curve Information -".toList, "~Params ------------".toList, "~Other -------------".toList] := by
  decide +kernel

/-- a LASFile header that satisfies every hypothesis of `C03_file`, written as version 1.2 (description-first ~Well
lines) and read back with `mnemonic_case="upper"` -/
example :
    let las : WLas := ⟨[exVers, wrapItem true], true, [exDept], [exDept], [exDept], "hello\nworld".toList⟩
    ∃ lines las', headerLines "1.2" (some false) 20 las = .ok (lines, las') ∧
      ∃ steer, Rd.readLines ⟨false, .upper⟩ lines = .ok
        ⟨[(Rd.kVersion, .items ((RH.versionCopy "1.2" (some false) las).map (rdExpected ⟨false, .upper⟩))),
          (Rd.kWell, .items [⟨"DEPT".toList, "M".toList, "1670.0".toList, "start (depth) \"x\"".toList⟩]),
          (Rd.kCurves, .items [⟨"DEPT".toList, "M".toList, "1670.0".toList, "start (depth) \"x\"".toList⟩]),
          (Rd.kParameter, .items [⟨"DEPT".toList, "M".toList, "1670.0".toList, "start (depth) \"x\"".toList⟩]),
          (Rd.kOther, .text "hello\nworld".toList)], steer, []⟩ ∧ steer.vers = some "1.2".toList := by
  intro las
  have hc : ∀ kind, ∀ it ∈ [exDept], TextConf kind it := by
    intro kind it hit
    have : it = exDept := by simpa using hit
    subst this; exact C03_example_conf kind
  have hm : ∀ it ∈ [exDept], it.orig.head? ≠ some '#' ∧ it.orig.head? ≠ some '~' := by
    intro it hit
    have : it = exDept := by simpa using hit
    subst this; decide
  have hvc : ∀ it ∈ las.version, TextConf .version it := by
    intro it hit
    have : it = exVers ∨ it = wrapItem true := by simpa [las] using hit
    rcases this with rfl | rfl
    · exact ⟨by decide, by decide, by decide, by decide, by decide, Or.inl rfl, by decide, by decide, by decide,
        by decide, by decide, (fun h => nomatch h), by decide, by decide⟩
    · exact conf_wrapItem true
  have hvm : ∀ it ∈ las.version, it.orig.head? ≠ some '#' ∧ it.orig.head? ≠ some '~' := by
    intro it hit
    have : it = exVers ∨ it = wrapItem true := by simpa [las] using hit
    rcases this with rfl | rfl <;> decide
  obtain ⟨hcv, hmv⟩ := C03_versionCopy_conf "1.2" (some false) las hvc hvm
  have hsome : (headerLines "1.2" (some false) 20 las).toOption.isSome = true := by decide +kernel
  cases hl : headerLines "1.2" (some false) 20 las with
  | error e => rw [hl] at hsome; cases hsome
  | ok r =>
  obtain ⟨lines, las'⟩ := r
  obtain ⟨st, _, _, _, hr⟩ := C03_file ⟨false, .upper⟩ "1.2" (some false) 20 las las' lines hl hcv
    (hc .well) (hc .curves) (hc .parameter) hmv hm hm hm
    ⟨mkWItem "VERS".toList [] (.num "1.2".toList false) "CWLS LOG ASCII STANDARD - VERSION 1.2".toList,
      by decide +kernel, by decide⟩
    (show ∀ l ∈ splitlines las.other, (strip l).head? ≠ some '~' by decide +kernel)
  obtain ⟨steer, h1, h2⟩ := hr (by decide +kernel)
  exact ⟨lines, las', rfl, steer, h1, h2⟩

#print axioms NoTitleMnem.of_conf
#print axioms standardizeItems_orig
#print axioms C03_written_document_wellformed
#print axioms C03_rd_item_eq_wr_item
#print axioms C03_rd_written_line
#print axioms C03_file
#print axioms C03_file_section
#print axioms C03_file_other_text
#print axioms TextConf.of_text
#print axioms conf_wrapItem
#print axioms conf_versItem
#print axioms C03_versionCopy_conf
#print axioms C03_counterexample_duplicate_vers
#print axioms C03_counterexample_other_title
#print axioms C03_counterexample_tilde_mnemonic

end Lasio.Wr
