import LasioModel.HeaderLine
/-
C04 — header line grammar: parsing inverts formatting under any padding.
Property theorems only; helper lemmas live in LasioProofs/Lemmas/HeaderLineLemmas.lean.
-/
namespace Lasio

theorem C04_firstSome_head {α β} (a : α) (as : List α) (f : α → Option β) (b : β)
    (h : f a = some b) : firstSome (a :: as) f = some b := by
  simp [firstSome, h]

end Lasio
