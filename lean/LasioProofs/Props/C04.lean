import LasioModel.HeaderLine
import LasioProofs.Lemmas.HeaderLineLemmas
/-
C04 — header line grammar: parsing inverts formatting under any padding.
Property theorems only; helper lemmas live in LasioProofs/Lemmas/HeaderLineLemmas.lean.
-/
namespace Lasio

theorem C04_firstSome_head {α β} (a : α) (as : List α) (f : α → Option β) (b : β)
    (h : f a = some b) : firstSome (a :: as) f = some b := by
  simp [firstSome, h]

/-- padding: blanks and TABs only -/
def Blank (p : Str) : Prop := ∀ c ∈ p, c = ' ' ∨ c = '\t'
/-- ".." occurs in `s` -/
def hasDotDot (s : Str) : Prop := (findDotDot s).isSome
def allDigits (s : Str) : Prop := ∀ c ∈ s, isAsciiDigit c = true

/-- the laid-out line  `p0 name p1 . unit p2 value p3 : p4 descr p5` -/
def layout (f : Fields) (p0 p1 p2 p3 p4 p5 : Str) : Str :=
  p0 ++ f.name ++ p1 ++ '.' :: (f.unit ++ p2 ++ f.value ++ p3 ++ ':' :: (p4 ++ f.descr ++ p5))

/-- conformant field contents (the property's field conditions) -/
structure Conf (sec : SecName) (f : Fields) : Prop where
  name_ne : f.name ≠ []
  name_strip : strip f.name = f.name
  name_chars : ∀ c ∈ f.name, c ≠ '.' ∧ c ≠ ':'
  unit_nosp : ∀ c ∈ f.unit, isPySpace c = false
  unit_nodd : ¬ hasDotDot f.unit
  unit_first : f.unit.head? ≠ some '.'
  unit_last : f.unit.getLast? ≠ some '.'
  value_strip : strip f.value = f.value
  value_nocolon : ∀ c ∈ f.value, c ≠ ':'
  value_nodd : sec = .curves → ¬ hasDotDot f.value
  descr_strip : strip f.descr = f.descr
  descr_nocolon : sec ≠ .parameter → ∀ c ∈ f.descr, c ≠ ':'

/-- padding conditions forced by the grammar -/
structure PadOK (sec : SecName) (f : Fields) (p0 p1 p2 p3 p4 p5 : Str) : Prop where
  blanks : Blank p0 ∧ Blank p1 ∧ Blank p2 ∧ Blank p3 ∧ Blank p4 ∧ Blank p5
  /-- otherwise the value is glued to the unit -/
  value_sep : f.value ≠ [] → p2 ≠ []
  /-- a single blank is the documented `1000 lbf` form -/
  digit_unit : f.unit ≠ [] → allDigits f.unit → f.value ≠ [] → 2 ≤ p2.length

/-- **C04, sections other than ~Parameter**: parsing the laid-out line gives the fields back,
whatever the padding. -/
theorem C04_main (sec : SecName) (hsec : sec ≠ .parameter) (f : Fields) (p0 p1 p2 p3 p4 p5 : Str)
    (hc : Conf sec f) (hp : PadOK sec f p0 p1 p2 p3 p4 p5) :
    parseHeaderLine sec (layout f p0 p1 p2 p3 p4 p5) = some f := by
  obtain ⟨b0, b1, b2, b3, b4, b5⟩ := hp.blanks
  have sp : ∀ {p : Str}, Blank p → ∀ c ∈ p, isPySpace c = true :=
    fun h c hc => IsBlank.space (h c hc)
  have nd : ∀ {p : Str}, Blank p → ∀ c ∈ p, c ≠ '.' := fun h c hc => IsBlank.ne_dot (h c hc)
  have nc : ∀ {p : Str}, Blank p → ∀ c ∈ p, c ≠ ':' := fun h c hc => IsBlank.ne_colon (h c hc)
  have hline : layout f p0 p1 p2 p3 p4 p5 =
      (p0 ++ f.name ++ p1) ++ '.' :: (f.unit ++ (p2 ++ f.value ++ p3) ++ ':' :: (p4 ++ f.descr ++ p5)) := by
    simp [layout]
  have key := parse_layout_ok sec hsec (p0 ++ f.name ++ p1) f.unit (p2 ++ f.value ++ p3)
    (p4 ++ f.descr ++ p5)
    (by have := hc.name_ne; simp [this])
    (forall_mem_append3 _ _ _ (nd b0) (fun c h => (hc.name_chars c h).1) (nd b1))
    (forall_mem_append3 _ _ _ (nc b0) (fun c h => (hc.name_chars c h).2) (nc b1))
    hc.unit_nosp hc.unit_last
    (head?_pad (fun c => isPySpace c = true) _ _ _ (sp b2) (sp b3) hp.value_sep)
    (fun hne hd => second_pad (fun c => isPySpace c = true) _ _ _ (sp b2) (sp b3)
      (hp.digit_unit hne hd))
    (forall_mem_append3 _ _ _ (nc b4) (hc.descr_nocolon hsec) (nc b5))
    (by
      intro hcv
      refine ⟨hc.unit_first, ?_, ?_⟩
      · have := hc.unit_nodd
        simpa [hasDotDot] using this
      · apply findDotDot_pad _ _ _ (nd b2) (nd b3)
        have := hc.value_nodd hcv
        simpa [hasDotDot] using this)
  rw [hline, key, strip_pad _ _ _ (sp b0) (sp b1), strip_pad _ _ _ (sp b2) (sp b3),
    strip_pad _ _ _ (sp b4) (sp b5), hc.name_strip, hc.value_strip, hc.descr_strip]

#print axioms C04_main

end Lasio
