import LasioModel.HeaderLine
import LasioProofs.Lemmas.HeaderLineLemmas
/-
C04 — header line grammar: parsing inverts formatting under any padding.
Property theorems only; helper lemmas live in LasioProofs/Lemmas/HeaderLineLemmas.lean.
-/
namespace Lasio

theorem C04_firstSome_head {α β} (a : α) (as : List α) (f : α → Option β) (b : β)
    (h : f a = some b) : firstSome (a :: as) f = some b := by
  simp [firstSome, h]

/-- padding: blanks and TABs only -/
def Blank (p : Str) : Prop := ∀ c ∈ p, c = ' ' ∨ c = '\t'
/-- ".." occurs in `s` -/
def hasDotDot (s : Str) : Prop := (findDotDot s).isSome
def allDigits (s : Str) : Prop := ∀ c ∈ s, isAsciiDigit c = true

instance (p : Str) : Decidable (Blank p) := by unfold Blank; infer_instance
instance (s : Str) : Decidable (hasDotDot s) := by unfold hasDotDot; infer_instance
instance (s : Str) : Decidable (allDigits s) := by unfold allDigits; infer_instance

/-- every colon of `v` is a clock colon: it is followed, inside `v`, by `[0-5][0-9]`, `mm` or `MM`
(`clockAhead` is the look-ahead of the model's `sepOk`, see `sepOk_of_clockAhead`) -/
def TimeLike (v : Str) : Prop := ∀ a b, v = a ++ ':' :: b → clockAhead b = true

/-- the laid-out line  `p0 name p1 . unit p2 value p3 : p4 descr p5` -/
def layout (f : Fields) (p0 p1 p2 p3 p4 p5 : Str) : Str :=
  p0 ++ f.name ++ p1 ++ '.' :: (f.unit ++ p2 ++ f.value ++ p3 ++ ':' :: (p4 ++ f.descr ++ p5))

/-- conformant field contents (the property's field conditions) -/
structure Conf (sec : SecName) (f : Fields) : Prop where
  name_ne : f.name ≠ []
  name_strip : strip f.name = f.name
  name_chars : ∀ c ∈ f.name, c ≠ '.' ∧ c ≠ ':'
  unit_nosp : ∀ c ∈ f.unit, isPySpace c = false
  unit_nodd : ¬ hasDotDot f.unit
  unit_first : f.unit.head? ≠ some '.'
  unit_last : f.unit.getLast? ≠ some '.'
  value_strip : strip f.value = f.value
  /-- no colon in the value, unless — in ~Parameter — every colon of the value is a clock colon -/
  value_nocolon : (∀ c ∈ f.value, c ≠ ':') ∨ (sec = .parameter ∧ TimeLike f.value)
  value_nodd : sec = .curves → ¬ hasDotDot f.value
  descr_strip : strip f.descr = f.descr
  descr_nocolon : sec ≠ .parameter → ∀ c ∈ f.descr, c ≠ ':'

/-- padding conditions forced by the grammar -/
structure PadOK (sec : SecName) (f : Fields) (p0 p1 p2 p3 p4 p5 : Str) : Prop where
  blanks : Blank p0 ∧ Blank p1 ∧ Blank p2 ∧ Blank p3 ∧ Blank p4 ∧ Blank p5
  /-- otherwise the value is glued to the unit -/
  value_sep : f.value ≠ [] → p2 ≠ []
  /-- a single blank is the documented `1000 lbf` form -/
  digit_unit : f.unit ≠ [] → allDigits f.unit → f.value ≠ [] → 2 ≤ p2.length
  /-- ~Parameter: a description containing a colon must be set off by a blank on both sides of the
  delimiter colon -/
  param_descr_colon : sec = .parameter → (∃ c ∈ f.descr, c = ':') → p3 ≠ [] ∧ p4 ≠ []
  /-- ~Parameter, forced by the proof (defect R19): when the unit contains a colon, the delimiter colon
  must pass the clock-time look-around -/
  param_unit_colon : sec = .parameter → (∃ c ∈ f.unit, c = ':') →
    sepOk ((p0 ++ f.name ++ p1 ++ '.' :: (f.unit ++ p2 ++ f.value ++ p3)).reverse)
      (p4 ++ f.descr ++ p5) = true
  /-- ~Parameter, forced by the proof: an all-digit unit before an empty value and a description
  containing a colon needs two blanks before the delimiter colon (else `N.100 : d:e` gives unit `100 :`) -/
  param_digit_unit : sec = .parameter → f.unit ≠ [] → allDigits f.unit → (∃ c ∈ f.descr, c = ':') →
    2 ≤ p2.length + p3.length

/-- **C04, sections other than ~Parameter**: parsing the laid-out line gives the fields back,
whatever the padding. -/
theorem C04_main (sec : SecName) (hsec : sec ≠ .parameter) (f : Fields) (p0 p1 p2 p3 p4 p5 : Str)
    (hc : Conf sec f) (hp : PadOK sec f p0 p1 p2 p3 p4 p5) :
    parseHeaderLine sec (layout f p0 p1 p2 p3 p4 p5) = some f := by
  obtain ⟨b0, b1, b2, b3, b4, b5⟩ := hp.blanks
  have sp : ∀ {p : Str}, Blank p → ∀ c ∈ p, isPySpace c = true :=
    fun h c hc => IsBlank.space (h c hc)
  have nd : ∀ {p : Str}, Blank p → ∀ c ∈ p, c ≠ '.' := fun h c hc => IsBlank.ne_dot (h c hc)
  have nc : ∀ {p : Str}, Blank p → ∀ c ∈ p, c ≠ ':' := fun h c hc => IsBlank.ne_colon (h c hc)
  have hline : layout f p0 p1 p2 p3 p4 p5 =
      (p0 ++ f.name ++ p1) ++ '.' :: (f.unit ++ (p2 ++ f.value ++ p3) ++ ':' :: (p4 ++ f.descr ++ p5)) := by
    simp [layout]
  have key := parse_layout_ok sec hsec (p0 ++ f.name ++ p1) f.unit (p2 ++ f.value ++ p3)
    (p4 ++ f.descr ++ p5)
    (by have := hc.name_ne; simp [this])
    (forall_mem_append3 _ _ _ (nd b0) (fun c h => (hc.name_chars c h).1) (nd b1))
    (forall_mem_append3 _ _ _ (nc b0) (fun c h => (hc.name_chars c h).2) (nc b1))
    hc.unit_nosp hc.unit_last
    (head?_pad (fun c => isPySpace c = true) _ _ _ (sp b2) (sp b3) hp.value_sep)
    (fun hne hd => second_pad (fun c => isPySpace c = true) _ _ _ (sp b2) (sp b3)
      (hp.digit_unit hne hd))
    (forall_mem_append3 _ _ _ (nc b4) (hc.descr_nocolon hsec) (nc b5))
    (by
      intro hcv
      refine ⟨hc.unit_first, ?_, ?_⟩
      · have := hc.unit_nodd
        simpa [hasDotDot] using this
      · apply findDotDot_pad _ _ _ (nd b2) (nd b3)
        have := hc.value_nodd hcv
        simpa [hasDotDot] using this)
  rw [hline, key, strip_pad _ _ _ (sp b0) (sp b1), strip_pad _ _ _ (sp b2) (sp b3),
    strip_pad _ _ _ (sp b4) (sp b5), hc.name_strip, hc.value_strip, hc.descr_strip]

/-- **C04, ~Parameter**: two patterns are tried (clock-time value first, then the default one); under
the additional ~Parameter clauses of `PadOK` the first that matches gives the fields back. -/
theorem C04_main_parameter (f : Fields) (p0 p1 p2 p3 p4 p5 : Str)
    (hc : Conf .parameter f) (hp : PadOK .parameter f p0 p1 p2 p3 p4 p5) :
    parseHeaderLine .parameter (layout f p0 p1 p2 p3 p4 p5) = some f := by
  obtain ⟨b0, b1, b2, b3, b4, b5⟩ := hp.blanks
  have sp : ∀ {p : Str}, Blank p → ∀ c ∈ p, isPySpace c = true :=
    fun h c hc => IsBlank.space (h c hc)
  have nd : ∀ {p : Str}, Blank p → ∀ c ∈ p, c ≠ '.' := fun h c hc => IsBlank.ne_dot (h c hc)
  have nc : ∀ {p : Str}, Blank p → ∀ c ∈ p, c ≠ ':' := fun h c hc => IsBlank.ne_colon (h c hc)
  have hline : layout f p0 p1 p2 p3 p4 p5 =
      (p0 ++ f.name ++ p1) ++ '.' :: (f.unit ++ (p2 ++ f.value ++ p3) ++ ':' :: (p4 ++ f.descr ++ p5)) := by
    simp [layout]
  have hdc : (∃ c ∈ p4 ++ f.descr ++ p5, c = ':') → ∃ c ∈ f.descr, c = ':' := by
    intro ⟨c, hcm, hce⟩
    rcases List.mem_append.mp hcm with h | h
    · rcases List.mem_append.mp h with h | h
      · exact absurd hce (nc b4 c h)
      · exact ⟨c, h, hce⟩
    · exact absurd hce (nc b5 c h)
  have key := parse_layout_param_ok (p0 ++ f.name ++ p1) f.unit (p2 ++ f.value ++ p3)
    (p4 ++ f.descr ++ p5)
    (by have := hc.name_ne; simp [this])
    (forall_mem_append3 _ _ _ (nd b0) (fun c h => (hc.name_chars c h).1) (nd b1))
    (forall_mem_append3 _ _ _ (nc b0) (fun c h => (hc.name_chars c h).2) (nc b1))
    hc.unit_nosp hc.unit_last
    (head?_pad (fun c => isPySpace c = true) _ _ _ (sp b2) (sp b3) hp.value_sep)
    (by
      rcases hc.value_nocolon with h | ⟨_, h⟩
      · exact timeLikeB_of_nocolon _ (forall_mem_append3 _ _ _ (nc b2) h (nc b3))
      · exact timeLikeB_append_right _ _
          (timeLikeB_append_left _ _ (nc b2) (timeLikeB_of_split _ h)) (nc b3))
    (fun hne hd => second_pad (fun c => isPySpace c = true) _ _ _ (sp b2) (sp b3)
      (hp.digit_unit hne hd))
    (by
      intro hex
      have := (hp.param_descr_colon rfl (hdc hex)).1
      simp [this])
    (by
      intro hex hne hd
      have := hp.param_digit_unit rfl hne hd (hdc hex)
      simp only [List.length_append]; omega)
    (by
      rintro (hex | hex)
      · obtain ⟨h3, h4⟩ := hp.param_descr_colon rfl (hdc hex)
        have := sepOk_blank_pads ((p0 ++ f.name ++ p1) ++ '.' :: (f.unit ++ p2 ++ f.value)) p3 p4
          (f.descr ++ p5) h3 h4 b3 b4
        simpa [List.append_assoc] using this
      · have := hp.param_unit_colon rfl hex
        simpa [List.append_assoc] using this)
  rw [hline, key, strip_pad _ _ _ (sp b0) (sp b1), strip_pad _ _ _ (sp b2) (sp b3),
    strip_pad _ _ _ (sp b4) (sp b5), hc.name_strip, hc.value_strip, hc.descr_strip]

/-- the forced clause `param_unit_colon` holds whenever the delimiter colon is set off by a blank on both
sides -/
theorem C04_param_unit_colon_of_blanks (f : Fields) (p0 p1 p2 p3 p4 p5 : Str)
    (h3 : p3 ≠ []) (h4 : p4 ≠ []) (b3 : Blank p3) (b4 : Blank p4) :
    sepOk ((p0 ++ f.name ++ p1 ++ '.' :: (f.unit ++ p2 ++ f.value ++ p3)).reverse)
      (p4 ++ f.descr ++ p5) = true := by
  have := sepOk_blank_pads (p0 ++ f.name ++ p1 ++ '.' :: (f.unit ++ p2 ++ f.value)) p3 p4
    (f.descr ++ p5) h3 h4 b3 b4
  simpa [List.append_assoc] using this

/-- **C04, every section kind**. -/
theorem C04_main_all (sec : SecName) (f : Fields) (p0 p1 p2 p3 p4 p5 : Str)
    (hc : Conf sec f) (hp : PadOK sec f p0 p1 p2 p3 p4 p5) :
    parseHeaderLine sec (layout f p0 p1 p2 p3 p4 p5) = some f := by
  by_cases hsec : sec = .parameter
  · subst hsec; exact C04_main_parameter f p0 p1 p2 p3 p4 p5 hc hp
  · exact C04_main sec hsec f p0 p1 p2 p3 p4 p5 hc hp

/-! ## Special forms -/

/-- **Last colon** — outside ~Parameter the LAST colon of the line separates value from description:
the text `v` between unit and that colon may itself contain colons (`12:30:15`).  `v` is empty or starts
with white space (otherwise it is glued to the unit). -/
theorem C04_last_colon (sec : SecName) (hsec : sec ≠ .parameter) (name unit v d : Str)
    (hn_ne : name ≠ []) (hn : ∀ c ∈ name, c ≠ '.' ∧ c ≠ ':')
    (hu : ∀ c ∈ unit, isPySpace c = false) (hulast : unit.getLast? ≠ some '.')
    (hv : ∀ c, v.head? = some c → isPySpace c = true)
    (hdig : unit ≠ [] → allDigits unit →
      ∀ b1 v', v = b1 :: v' → ∀ c, v'.head? = some c → isPySpace c = true)
    (hd : ∀ c ∈ d, c ≠ ':')
    (hcurves : sec = .curves → unit.head? ≠ some '.' ∧ ¬ hasDotDot unit ∧ ¬ hasDotDot v) :
    parseHeaderLine sec (name ++ '.' :: (unit ++ v ++ ':' :: d)) =
      some ⟨strip name, unit, strip v, strip d⟩ := by
  apply parse_layout_ok sec hsec name unit v d hn_ne (fun c h => (hn c h).1) (fun c h => (hn c h).2)
    hu hulast hv hdig hd
  intro hcv
  obtain ⟨h1, h2, h3⟩ := hcurves hcv
  exact ⟨h1, by simpa [hasDotDot] using h2, by simpa [hasDotDot] using h3⟩

/-- **No period** — `NAME : VALUE` (no period before the first colon), any section: the first colon
separates, there is neither unit nor description.  In ~Curves a ".." in the value must not be followed
by a further colon. -/
theorem C04_no_period (sec : SecName) (name value : Str)
    (hn : ∀ c ∈ name, c ≠ '.' ∧ c ≠ ':')
    (hcurves : sec = .curves → ¬ hasDotDot value ∨ ∀ c ∈ value, c ≠ ':') :
    parseHeaderLine sec (name ++ ':' :: value) = some ⟨strip name, [], strip value, []⟩ := by
  apply parse_missing_ok sec name value hn
  intro hcv
  rcases hcurves hcv with h | h
  · exact Or.inl (by simpa [hasDotDot] using h)
  · exact Or.inr h

/-- **Numeric unit, single blank** — the documented `1000 lbf` form: digits, ONE white-space character,
a non-empty run of non-space characters; the whole `digits␣suffix` is the unit.  Name, value, description
and paddings as in `C04_main` (stated through `Conf`/`PadOK` of the record with the unit left empty). -/
theorem C04_numeric_unit_single_blank (sec : SecName) (hsec : sec ≠ .parameter)
    (name ds : Str) (b : Char) (sfx value descr p0 p1 p2 p3 p4 p5 : Str)
    (hc : Conf sec ⟨name, [], value, descr⟩) (hp : PadOK sec ⟨name, [], value, descr⟩ p0 p1 p2 p3 p4 p5)
    (hds : ds ≠ []) (hdd : allDigits ds) (hb : isPySpace b = true)
    (hsfx_ne : sfx ≠ []) (hsfx : ∀ c ∈ sfx, isPySpace c = false)
    (hsfx_last : sfx.getLast? ≠ some '.') (hsfx_dd : sec = .curves → ¬ hasDotDot sfx) :
    parseHeaderLine sec (layout ⟨name, ds ++ b :: sfx, value, descr⟩ p0 p1 p2 p3 p4 p5) =
      some ⟨name, ds ++ b :: sfx, value, descr⟩ := by
  obtain ⟨b0, b1, b2, b3, b4, b5⟩ := hp.blanks
  have sp : ∀ {p : Str}, Blank p → ∀ c ∈ p, isPySpace c = true :=
    fun h c hc => IsBlank.space (h c hc)
  have nd : ∀ {p : Str}, Blank p → ∀ c ∈ p, c ≠ '.' := fun h c hc => IsBlank.ne_dot (h c hc)
  have nc : ∀ {p : Str}, Blank p → ∀ c ∈ p, c ≠ ':' := fun h c hc => IsBlank.ne_colon (h c hc)
  have hline : layout ⟨name, ds ++ b :: sfx, value, descr⟩ p0 p1 p2 p3 p4 p5 =
      (p0 ++ name ++ p1) ++ '.' :: ((ds ++ b :: sfx) ++ (p2 ++ value ++ p3) ++ ':' :: (p4 ++ descr ++ p5)) := by
    simp [layout]
  have key := parse_numeric_unit_ok sec hsec (p0 ++ name ++ p1) ds b sfx (p2 ++ value ++ p3)
    (p4 ++ descr ++ p5)
    (by have := hc.name_ne; simp only at this; simp [this])
    (forall_mem_append3 _ _ _ (nd b0) (fun c h => (hc.name_chars c h).1) (nd b1))
    (forall_mem_append3 _ _ _ (nc b0) (fun c h => (hc.name_chars c h).2) (nc b1))
    hds hdd hb hsfx_ne hsfx hsfx_last
    (head?_pad (fun c => isPySpace c = true) _ _ _ (sp b2) (sp b3) hp.value_sep)
    (forall_mem_append3 _ _ _ (nc b4) (hc.descr_nocolon hsec) (nc b5))
    (by
      intro hcv
      refine ⟨by simpa [hasDotDot] using hsfx_dd hcv, ?_⟩
      apply findDotDot_pad _ _ _ (nd b2) (nd b3)
      have := hc.value_nodd hcv
      simpa [hasDotDot] using this)
  have h1 := hc.name_strip
  have h2 := hc.value_strip
  have h3 := hc.descr_strip
  simp only at h1 h2 h3
  rw [hline, key, strip_pad _ _ _ (sp b0) (sp b1), strip_pad _ _ _ (sp b2) (sp b3),
    strip_pad _ _ _ (sp b4) (sp b5), h1, h2, h3]

/-- **Unit with a trailing period** — outside ~Parameter a unit written `unit.` loses the period
(`postProcess` strips periods from a unit that ends with one).  In ~Curves the unit must be non-empty
(otherwise the line reads `NAME..`). -/
theorem C04_unit_trailing_dot (sec : SecName) (hsec : sec ≠ .parameter) (f : Fields)
    (p0 p1 p2 p3 p4 p5 : Str) (hc : Conf sec f) (hp : PadOK sec f p0 p1 p2 p3 p4 p5)
    (hcv : sec = .curves → f.unit ≠ []) :
    parseHeaderLine sec (layout ⟨f.name, f.unit ++ ['.'], f.value, f.descr⟩ p0 p1 p2 p3 p4 p5) =
      some f := by
  obtain ⟨b0, b1, b2, b3, b4, b5⟩ := hp.blanks
  have sp : ∀ {p : Str}, Blank p → ∀ c ∈ p, isPySpace c = true :=
    fun h c hc => IsBlank.space (h c hc)
  have nd : ∀ {p : Str}, Blank p → ∀ c ∈ p, c ≠ '.' := fun h c hc => IsBlank.ne_dot (h c hc)
  have nc : ∀ {p : Str}, Blank p → ∀ c ∈ p, c ≠ ':' := fun h c hc => IsBlank.ne_colon (h c hc)
  have hline : layout ⟨f.name, f.unit ++ ['.'], f.value, f.descr⟩ p0 p1 p2 p3 p4 p5 =
      (p0 ++ f.name ++ p1) ++
        '.' :: ((f.unit ++ ['.']) ++ (p2 ++ f.value ++ p3) ++ ':' :: (p4 ++ f.descr ++ p5)) := by
    simp [layout]
  have key := parse_trailing_dot_ok sec hsec (p0 ++ f.name ++ p1) f.unit (p2 ++ f.value ++ p3)
    (p4 ++ f.descr ++ p5)
    (by have := hc.name_ne; simp [this])
    (forall_mem_append3 _ _ _ (nd b0) (fun c h => (hc.name_chars c h).1) (nd b1))
    (forall_mem_append3 _ _ _ (nc b0) (fun c h => (hc.name_chars c h).2) (nc b1))
    hc.unit_nosp hc.unit_first hc.unit_last
    (head?_pad (fun c => isPySpace c = true) _ _ _ (sp b2) (sp b3) hp.value_sep)
    (forall_mem_append3 _ _ _ (nc b4) (hc.descr_nocolon hsec) (nc b5))
    (by
      intro h
      refine ⟨hcv h, ?_, ?_⟩
      · have := hc.unit_nodd
        simpa [hasDotDot] using this
      · apply findDotDot_pad _ _ _ (nd b2) (nd b3)
        have := hc.value_nodd h
        simpa [hasDotDot] using this)
  rw [hline, key, strip_pad _ _ _ (sp b0) (sp b1), strip_pad _ _ _ (sp b2) (sp b3),
    strip_pad _ _ _ (sp b4) (sp b5), hc.name_strip, hc.value_strip, hc.descr_strip]

/-- **Clock times in ~Parameter** — `date HH:MM:SS` (minutes and seconds below 60, `date` without colon)
is `TimeLike`, so by `C04_main_parameter` such a value is kept whole, and the description may contain
colons (see the example at the end of the file). -/
theorem C04_timeLike_hms (date : Str) (h1 h2 m1 m2 s1 s2 : Char) (hdate : ∀ c ∈ date, c ≠ ':')
    (hh1 : isAsciiDigit h1 = true) (hh2 : isAsciiDigit h2 = true)
    (hm1 : ('0' ≤ m1 && m1 ≤ '5') = true) (hm2 : isAsciiDigit m2 = true)
    (hs1 : ('0' ≤ s1 && s1 ≤ '5') = true) (hs2 : isAsciiDigit s2 = true) :
    TimeLike (date ++ [h1, h2, ':', m1, m2, ':', s1, s2]) :=
  fun a b h => timeLikeB_split _ a b
    (timeLikeB_append_left _ _ hdate (timeLikeB_hms h1 h2 m1 m2 s1 s2 hh1 hh2 hm1 hm2 hs1 hs2)) h

/-- a value without colon is `TimeLike` -/
theorem C04_timeLike_of_nocolon (v : Str) (h : ∀ c ∈ v, c ≠ ':') : TimeLike v :=
  fun a b hv => absurd rfl (h ':' (by rw [hv]; simp))

/-! ## Counter-examples: every clause of `PadOK` is needed -/

/-- `value_sep`: without a blank after the unit the value is glued to it (`A.M1:d`) -/
theorem C04_counterexample_value_glued :
    parseHeaderLine .well (layout ⟨"A".toList, "M".toList, "1".toList, "d".toList⟩ [] [] [] [] [] []) =
      some ⟨"A".toList, "M1".toList, [], "d".toList⟩ := by decide

/-- `digit_unit`: an all-digit unit followed by a single blank swallows the value (`A.100 5:d`), this is
the `1000 lbf` form -/
theorem C04_counterexample_digit_unit_single_blank :
    parseHeaderLine .well
        (layout ⟨"A".toList, "100".toList, "5".toList, "d".toList⟩ [] [] [' '] [] [] []) =
      some ⟨"A".toList, "100 5".toList, [], "d".toList⟩ := by decide

/-- `param_descr_colon`: in ~Parameter a description with a colon, not set off by blanks, after a
clock-like delimiter: `A.M x 12:30 y: z` splits at the later colon -/
theorem C04_counterexample_param_descr_colon :
    parseHeaderLine .parameter
        (layout ⟨"A".toList, "M".toList, "x 12".toList, "30 y: z".toList⟩ [] [] [' '] [] [] []) =
      some ⟨"A".toList, "M".toList, "x 12:30 y".toList, "z".toList⟩ := by decide

/-- `param_unit_colon` — the known defect R19: the clock-time look-behind rejects the real delimiter and
the unit backtracks onto its own interior colon -/
theorem C04_counterexample_param_unit_colon :
    parseHeaderLine .parameter "Q.U:S x 12: d".toList =
      some ⟨"Q".toList, "U".toList, [], "S x 12: d".toList⟩ := by decide

/-- the R19 line is the layout of a conformant record satisfying every other clause of `PadOK` -/
theorem C04_counterexample_param_unit_colon_layout :
    "Q.U:S x 12: d".toList =
      layout ⟨"Q".toList, "U:S".toList, "x 12".toList, "d".toList⟩ [] [] [' '] [] [' '] [] := by decide

/-- the R19 record is conformant -/
theorem C04_counterexample_param_unit_colon_conf :
    Conf .parameter ⟨"Q".toList, "U:S".toList, "x 12".toList, "d".toList⟩ :=
  ⟨by decide, by decide, by decide, by decide, by decide, by decide, by decide, by decide,
    Or.inl (by decide), fun h => by decide, by decide, fun h => absurd rfl h⟩

/-- `param_digit_unit`: in ~Parameter an all-digit unit, an empty value, one blank and a description
with a colon: `N.100 : d:e` gives unit `100 :` -/
theorem C04_counterexample_param_digit_unit :
    parseHeaderLine .parameter
        (layout ⟨"N".toList, "100".toList, [], "d:e".toList⟩ [] [] [] [' '] [' '] []) =
      some ⟨"N".toList, "100 :".toList, "d".toList, "e".toList⟩ := by decide

/-- the record of `C04_counterexample_param_digit_unit` is conformant, and its paddings satisfy
`param_descr_colon` (a blank on both sides of the delimiter colon) -/
theorem C04_counterexample_param_digit_unit_conf :
    Conf .parameter ⟨"N".toList, "100".toList, [], "d:e".toList⟩ :=
  ⟨by decide, by decide, by decide, by decide, by decide, by decide, by decide, by decide,
    Or.inl (by decide), fun h => by decide, by decide, fun h => absurd rfl h⟩

/-- `Conf.value_nodd`: in ~Curves a ".." in the value before the delimiter colon moves the name -/
theorem C04_counterexample_curves_value_dotdot :
    parseHeaderLine .curves
        (layout ⟨"N".toList, "M".toList, "1..2".toList, "d".toList⟩ [] [] [' ', ' '] [' '] [' '] []) =
      some ⟨"N.M  1.".toList, "2".toList, [], "d".toList⟩ := by decide

/-- `C04_no_period`, ~Curves side condition: `A:x..y:z` -/
theorem C04_counterexample_no_period_curves :
    parseHeaderLine .curves ("A".toList ++ ':' :: "x..y:z".toList) =
      some ⟨"A:x.".toList, [], "y:z".toList, []⟩ := by decide

/-! ## Non-vacuity -/

/-- a conformant record for every section kind -/
theorem C04_example_conf (sec : SecName) :
    Conf sec ⟨"DEPT".toList, "M".toList, "1670.0".toList, "start depth".toList⟩ where
  name_ne := by decide
  name_strip := by decide
  name_chars := by decide
  unit_nosp := by decide
  unit_nodd := by decide
  unit_first := by decide
  unit_last := by decide
  value_strip := by decide
  value_nocolon := Or.inl (by decide)
  value_nodd := fun _ => by decide
  descr_strip := by decide
  descr_nocolon := fun _ => by decide

/-- mixed blank/TAB paddings satisfying `PadOK` for every section kind -/
theorem C04_example_pad (sec : SecName) :
    PadOK sec ⟨"DEPT".toList, "M".toList, "1670.0".toList, "start depth".toList⟩
      [' '] ['\t', ' '] [' ', '\t', ' '] [' ', ' '] ['\t'] [' '] where
  blanks := by decide
  value_sep := by decide
  digit_unit := by decide
  param_descr_colon := fun _ => by decide
  param_unit_colon := fun _ => by decide
  param_digit_unit := fun _ => by decide

example (sec : SecName) :
    parseHeaderLine sec " DEPT\t .M \t 1670.0  :\tstart depth ".toList =
      some ⟨"DEPT".toList, "M".toList, "1670.0".toList, "start depth".toList⟩ :=
  C04_main_all sec _ _ _ _ _ _ _ (C04_example_conf sec) (C04_example_pad sec)

/-- ~Parameter: unit with a colon, description with a colon, delimiter set off by blanks -/
example :
    parseHeaderLine .parameter "RUN .h:m  12 : hh:mm of run".toList =
      some ⟨"RUN".toList, "h:m".toList, "12".toList, "hh:mm of run".toList⟩ :=
  C04_main_parameter ⟨"RUN".toList, "h:m".toList, "12".toList, "hh:mm of run".toList⟩
    [] [' '] [' ', ' '] [' '] [' '] []
    ⟨by decide, by decide, by decide, by decide, by decide, by decide, by decide, by decide,
      Or.inl (by decide),
      fun h => by decide, by decide, fun h => absurd rfl h⟩
    ⟨by decide, by decide, by decide, fun _ _ => by decide, fun _ _ => by decide,
      fun _ => by decide⟩

/-- ~Parameter: a clock time with a date as value is kept whole, the description contains colons -/
example :
    parseHeaderLine .parameter "STRT .  13-JAN-2020 12:30:15 : start time (hh:mm:ss)".toList =
      some ⟨"STRT".toList, [], "13-JAN-2020 12:30:15".toList, "start time (hh:mm:ss)".toList⟩ :=
  C04_main_parameter
    ⟨"STRT".toList, [], "13-JAN-2020 12:30:15".toList, "start time (hh:mm:ss)".toList⟩
    [] [' '] [' ', ' '] [' '] [' '] []
    ⟨by decide, by decide, by decide, by decide, by decide, by decide, by decide, by decide,
      Or.inr ⟨rfl, C04_timeLike_hms "13-JAN-2020 ".toList '1' '2' '3' '0' '1' '5' (by decide) (by decide)
        (by decide) (by decide) (by decide) (by decide) (by decide)⟩,
      fun h => by decide, by decide, fun h => absurd rfl h⟩
    ⟨by decide, by decide, by decide, fun _ _ => by decide, fun _ _ => by decide,
      fun _ => by decide⟩

/-- `unit.` -/
example :
    parseHeaderLine .curves " DEPT\t .M. \t 1670.0  :\tstart depth ".toList =
      some ⟨"DEPT".toList, "M".toList, "1670.0".toList, "start depth".toList⟩ :=
  C04_unit_trailing_dot .curves (by decide) _ _ _ _ _ _ _ (C04_example_conf .curves)
    (C04_example_pad .curves) (fun _ => by decide)

/-- the last colon separates: a clock time as value in ~Well -/
example :
    parseHeaderLine .well "TIME.  12:30:15 : clock".toList =
      some ⟨"TIME".toList, [], "12:30:15".toList, "clock".toList⟩ :=
  C04_last_colon .well (by decide) "TIME".toList [] "  12:30:15 ".toList " clock".toList
    (by decide) (by decide) (by decide) (by decide) (by decide) (fun h => absurd rfl h) (by decide)
    (by decide)

example :
    parseHeaderLine .other "NAME : some value".toList =
      some ⟨"NAME".toList, [], "some value".toList, []⟩ :=
  C04_no_period .other "NAME ".toList " some value".toList (by decide) (by decide)

/-- `1000 lbf` -/
example :
    parseHeaderLine .well "WGT .1000 lbf  12.5 : weight".toList =
      some ⟨"WGT".toList, "1000 lbf".toList, "12.5".toList, "weight".toList⟩ :=
  C04_numeric_unit_single_blank .well (by decide) "WGT".toList "1000".toList ' ' "lbf".toList
    "12.5".toList "weight".toList [] [' '] [' ', ' '] [' '] [' '] []
    ⟨by decide, by decide, by decide, by decide, by decide, by decide, by decide, by decide,
      Or.inl (by decide),
      fun h => by decide, by decide, fun _ => by decide⟩
    ⟨by decide, by decide, by decide, fun h => by decide, fun h => by decide, fun h => by decide⟩
    (by decide) (by decide) (by decide) (by decide) (by decide) (by decide) (by decide)

#print axioms C04_main
#print axioms C04_main_parameter
#print axioms C04_main_all
#print axioms C04_param_unit_colon_of_blanks
#print axioms C04_last_colon
#print axioms C04_no_period
#print axioms C04_numeric_unit_single_blank
#print axioms C04_unit_trailing_dot
#print axioms C04_timeLike_hms
#print axioms C04_counterexample_value_glued
#print axioms C04_counterexample_digit_unit_single_blank
#print axioms C04_counterexample_param_descr_colon
#print axioms C04_counterexample_param_unit_colon
#print axioms C04_counterexample_param_digit_unit
#print axioms C04_counterexample_curves_value_dotdot
#print axioms C04_counterexample_no_period_curves
#print axioms C04_example_conf
#print axioms C04_example_pad

end Lasio
