import LasioModel.Data
import LasioProofs.Lemmas.DataLemmas
/-
C07 — rectangular result, cell (i, j) of the data is element i of curve j, declared curves keep their order,
surplus columns become extra curves after them, curves without a column are NaN of the common length.

* `C07_rect`            : after ANY successful `readData` (every engine, every option, every input) all curves have one length;
* `C07_binding`         : a uniform r × c token matrix read by the normal engine with `n_columns = c` gives, as column j, the j-th
                          entries of the rows (`reshape`/transpose: `reshape_flatten` in Lemmas/DataLemmas.lean).  The hypothesis is on
                          the FLAT token sequence, so it covers wrapped layouts (any partition of the depth steps over lines);
* `C07_binding_lines`   : the same when line i of the body tokenises to row i (unwrapped layout);
* `C07_binding_numpy`   : the numpy engine (genfromtxt specification) on the same matrix;
* `C07_assign_*`        : `assignCurves` keeps declared order, never shifts/merges/reorders columns, appends `c − d` extra curves,
                          fills `d − c` declared curves with NaN^r.
-/
namespace Lasio.Dt

/-! ### 1. rectangular -/

/-- After any successful read all curves have the same length. -/
theorem C07_rect (o : DataOpts) (lines : List Str) (first last : Nat) (st : Steer) (d : Nat) (ft : FloatTable)
    (e : Engine) (curves : List (Slot × Column))
    (h : readData o lines first last st d ft = .ok (e, curves)) :
    ∃ L, ∀ sc ∈ curves, sc.2.length = L := by
  have key : ∀ cols, Rect cols → ∀ u null, ∀ sc ∈ assignCurves d (applyNull u null cols),
      sc.2.length = curveLength (applyNull u null cols) := by
    intro cols hr u null
    apply assignCurves_rect
    obtain ⟨L, hL⟩ := hr
    exact ⟨L, applyNull_mem_length u null cols L hL⟩
  have hnormal : ∀ sb n, (normalEngine ft sb st.delimiter n lines first last).map
        (fun cols => (Engine.normal, assignCurves d (applyNull (o.nullPolicy == .strict) st.nullValue cols))) = .ok (e, curves) →
      ∃ L, ∀ sc ∈ curves, sc.2.length = L := by
    intro sb n hn
    cases hne : normalEngine ft sb st.delimiter n lines first last with
    | error err => simp [hne, Except.map] at hn
    | ok cols =>
      simp only [hne, Except.map, Except.ok.injEq, Prod.mk.injEq] at hn
      obtain ⟨_, rfl⟩ := hn
      exact ⟨_, key cols (normalEngineLines_rect _ _ _ _ _ _ hne) _ _⟩
  unfold readData at h
  simp only at h
  split at h
  · split at h
    · rename_i cols hnp
      simp only [Except.ok.injEq, Prod.mk.injEq] at h
      obtain ⟨_, rfl⟩ := h
      exact ⟨_, key cols (numpyEngineLines_rect _ _ _ _ hnp) _ _⟩
    · exact hnormal _ _ h
  · exact hnormal _ _ h

/-! ### 2. binding of cells to curves -/

/-- Normal engine, `n_columns = c`, flat token sequence = the row-major flattening of an r × c matrix (r ≥ 1, c ≥ 1):
the result is the c columns of the matrix, column j = the j-th entries of the rows (`matrixColumns`, Lemmas/DataLemmas.lean). -/
theorem C07_binding (ft : FloatTable) (sb : Subs) (dlm : Dlm) (body : List Str) (rows : List (List Str)) (c : Nat)
    (hc : 0 < c) (hr : rows ≠ []) (hrows : ∀ r ∈ rows, r.length = c)
    (htoks : normalTokens sb dlm body = rows.flatten) :
    normalEngineLines ft sb dlm c body = .ok (matrixColumns ft c rows) :=
  normalEngineLines_matrix ft sb dlm body rows c hc hr hrows htoks

/-- unwrapped layout: body line i tokenises to row i -/
theorem C07_binding_lines (ft : FloatTable) (sb : Subs) (dlm : Dlm) (body : List Str) (rows : List (List Str)) (c : Nat)
    (hc : 0 < c) (hr : rows ≠ []) (hrows : ∀ r ∈ rows, r.length = c)
    (hlines : body.map (lineTokens sb dlm) = rows) :
    normalEngineLines ft sb dlm c body = .ok (matrixColumns ft c rows) := by
  apply C07_binding ft sb dlm body rows c hc hr hrows
  rw [← hlines, normalTokens, List.flatMap_def]

/-- the cell statement: in the result of `C07_binding`, element i of column j is token (i, j) (as a float when the whole
column is numeric, as text otherwise) -/
theorem C07_cell (ft : FloatTable) (c : Nat) (rows : List (List Str)) (i j : Nat) (hj : j < c) (row : List Str)
    (hi : rows[i]? = some row) :
    (∃ vs, (matrixColumns ft c rows)[j]? = some (.floats vs) ∧ vs[i]? = toFloat ft (row.getD j [])) ∨
    (∃ ts, (matrixColumns ft c rows)[j]? = some (.text ts) ∧ ts[i]? = some (row.getD j [])) := by
  have hcol : (matrixColumns ft c rows)[j]? = some (typedColumn ft (rows.map fun r => r.getD j [])) := by
    simp [matrixColumns, hj]
  rw [hcol]
  unfold typedColumn
  split
  · rename_i vs hvs
    left
    refine ⟨vs, rfl, ?_⟩
    have : ∀ (toks vs : List Str), floatCells ft toks = some vs → ∀ (i : Nat) (t : Str), toks[i]? = some t → vs[i]? = toFloat ft t := by
      intro toks
      induction toks with
      | nil => intro vs _ i t ht; simp at ht
      | cons a ts ih =>
        intro vs h i t ht
        simp only [floatCells] at h
        split at h
        · rename_i v vs' h1 h2
          simp at h; subst h
          cases i with
          | zero => simp at ht; subst ht; simp [h1]
          | succ i => simp at ht; simpa using ih vs' h2 i t ht
        · simp at h
    exact this _ vs hvs i _ (by simp [hi])
  · right
    exact ⟨_, rfl, by simp [hi]⟩

/-- numpy engine (genfromtxt specification) on lines that tokenise to the rows of a numeric r × c matrix, r ≤ max_rows:
the same columns -/
theorem C07_binding_numpy (ft : FloatTable) (rest : List Str) (rows : List (List Str)) (c maxRows : Nat)
    (hc : 0 < c) (hr : rows ≠ []) (hrows : ∀ r ∈ rows, r.length = c)
    (hlines : rest.map npTokens = rows) (hmax : rows.length ≤ maxRows)
    (hnum : ∀ r ∈ rows, ∀ t ∈ r, (toFloat ft t).isSome) :
    numpyEngineLines ft maxRows rest = some (matrixColumns ft c rows) := by
  have hfirst : npFirstCount rest = some c := by
    cases rest with
    | nil => simp at hlines; exact absurd hlines hr
    | cons ln ls =>
      simp only [List.map_cons] at hlines
      cases rows with
      | nil => simp at hlines
      | cons r rs =>
        simp only [List.cons.injEq] at hlines
        have hl : r.length = c := hrows r (by simp)
        simp only [npFirstCount, hlines.1]
        have : r.isEmpty = false := by cases r with
          | nil => simp at hl; omega
          | cons a t => rfl
        simp [this, hl]
  have hcollect : ∀ (rest : List Str) (rows : List (List Str)) (b : Nat), (∀ r ∈ rows, r.length = c) →
      rest.map npTokens = rows → rows.length ≤ b → npCollect c b rest = some rows := by
    intro rest
    induction rest with
    | nil => intro rows b _ hl _; simp at hl; subst hl; cases b <;> rfl
    | cons ln ls ih =>
      intro rows b hrw hl hb
      cases rows with
      | nil => simp at hl
      | cons r rs =>
        simp only [List.map_cons, List.cons.injEq] at hl
        cases b with
        | zero => simp at hb
        | succ b =>
          have hlen : r.length = c := hrw r (by simp)
          have : r.isEmpty = false := by cases r with
            | nil => simp at hlen; omega
            | cons a t => rfl
          simp only [npCollect, hl.1, this, Bool.false_eq_true, ↓reduceIte, hlen, bne_self_eq_false]
          rw [ih rs b (fun r' h' => hrw r' (by simp [h'])) hl.2 (by simp at hb; omega)]
          rfl
  unfold numpyEngineLines
  have hm : ¬ maxRows < 1 := by
    cases rows with
    | nil => exact absurd rfl hr
    | cons r rs => simp at hmax; omega
  simp only [hm, ↓reduceIte, hfirst, hcollect rest rows maxRows hrows hlines hmax]
  rw [matrixColumns_eq]
  apply allFloatCols_of_all
  intro col hcol t ht
  simp only [columnsOf, List.mem_map, List.mem_range] at hcol
  obtain ⟨j, hj, rfl⟩ := hcol
  simp only [columnOf, List.mem_map] at ht
  obtain ⟨r, hr', rfl⟩ := ht
  have hl := hrows r hr'
  have : r.getD j [] ∈ r := by
    rw [List.getD_eq_getElem?_getD, List.getElem?_eq_getElem (by omega)]
    simp
  exact hnum r hr' _ this

/-! ### 3. assignment to curves: order kept, nothing shifted, surplus appended, missing filled -/

theorem C07_assign_length (d : Nat) (cols : List Column) : (assignCurves d cols).length = max d cols.length := by
  simp [assignCurves, assignFrom_length]; omega

/-- column j lands in curve j, unchanged: declared curve j when j < d, a new unnamed curve otherwise -/
theorem C07_assign_column (d : Nat) (cols : List Column) (j : Nat) (col : Column) (h : cols[j]? = some col) :
    (assignCurves d cols)[j]? = some ((if j < d then Slot.declared j else Slot.extra), col) := by
  have hj : j < cols.length := by
    rcases Nat.lt_or_ge j cols.length with h' | h'
    · exact h'
    · rw [List.getElem?_eq_none h'] at h; simp at h
  simp only [assignCurves]
  rw [List.getElem?_append_left (by rw [assignFrom_length]; exact hj), assignFrom_getElem?, h]
  simp

/-- a declared curve without a column is NaN of the common length -/
theorem C07_assign_missing (d : Nat) (cols : List Column) (j : Nat) (h1 : cols.length ≤ j) (h2 : j < d) :
    (assignCurves d cols)[j]? = some (Slot.declared j, nanColumn (curveLength cols)) := by
  simp only [assignCurves]
  rw [List.getElem?_append_right (by rw [assignFrom_length]; exact h1), assignFrom_length]
  simp only [List.getElem?_map]
  rw [List.getElem?_range' (by omega)]
  simp
  omega

/-- the first d curves are the declared ones in their declared order, everything after them is unnamed -/
theorem C07_assign_slots (d : Nat) (cols : List Column) :
    (assignCurves d cols).map Prod.fst =
      (List.range d).map Slot.declared ++ List.replicate (cols.length - d) Slot.extra := by
  apply List.ext_getElem?
  intro j
  simp only [List.getElem?_map]
  rcases Nat.lt_or_ge j cols.length with hj | hj
  · rw [C07_assign_column d cols j cols[j] (by simp [hj])]
    by_cases hd : j < d
    · rw [List.getElem?_append_left (by simp [hd])]
      simp [hd]
    · rw [List.getElem?_append_right (by simp; omega)]
      simp only [hd, ↓reduceIte, Option.map_some, List.length_map, List.length_range]
      rw [List.getElem?_replicate]
      have : j - d < cols.length - d := by omega
      simp [this]
  · by_cases hd : j < d
    · rw [C07_assign_missing d cols j hj hd, List.getElem?_append_left (by simp [hd])]
      simp [hd]
    · have : (assignCurves d cols).length ≤ j := by rw [C07_assign_length]; omega
      rw [List.getElem?_eq_none this, List.getElem?_eq_none (by simp; omega)]
      rfl

/-- the data columns are never merged or reordered: dropping the NaN fill, the curves' data are exactly the columns -/
theorem C07_assign_columns_kept (d : Nat) (cols : List Column) :
    ((assignCurves d cols).take cols.length).map Prod.snd = cols := by
  simp only [assignCurves]
  rw [List.take_left' (assignFrom_length d 0 cols), assignFrom_snd]

/-- end to end for one data section read by the normal engine (what `readData` computes after the engine): the r × c matrix
with d declared curves -/
theorem C07_binding_assigned (ft : FloatTable) (sb : Subs) (dlm : Dlm) (body : List Str) (rows : List (List Str)) (c d : Nat)
    (u : Bool) (null : Option Str)
    (hc : 0 < c) (hr : rows ≠ []) (hrows : ∀ r ∈ rows, r.length = c)
    (htoks : normalTokens sb dlm body = rows.flatten) :
    ∃ cols, normalEngineLines ft sb dlm c body = .ok cols ∧ cols.length = c ∧
      (∀ col ∈ cols, col.length = rows.length) ∧
      (assignCurves d (applyNull u null cols)).length = max d c ∧
      (∀ j, j < c → ∃ col, cols[j]? = some col ∧
        (assignCurves d (applyNull u null cols))[j]? =
          some ((if j < d then Slot.declared j else Slot.extra), applyNullCol u null j col)) ∧
      (∀ j, c ≤ j → j < d → (assignCurves d (applyNull u null cols))[j]? = some (Slot.declared j, nanColumn rows.length)) := by
  refine ⟨matrixColumns ft c rows, C07_binding ft sb dlm body rows c hc hr hrows htoks, ?_, ?_, ?_, ?_, ?_⟩
  · simp [matrixColumns]
  · intro col hcol
    rw [matrixColumns_eq] at hcol
    simp only [List.mem_map] at hcol
    obtain ⟨x, hx, rfl⟩ := hcol
    rw [typedColumn_length]; exact mem_columnsOf_length _ _ x hx
  · rw [C07_assign_length, applyNull_length]; simp [matrixColumns]
  · intro j hj
    have hlen : (matrixColumns ft c rows).length = c := by simp [matrixColumns]
    refine ⟨(matrixColumns ft c rows)[j], by simp [hlen, hj], ?_⟩
    apply C07_assign_column
    rw [applyNull_getElem?]
    simp [hlen, hj]
  · intro j h1 h2
    have hlen : (matrixColumns ft c rows).length = c := by simp [matrixColumns]
    rw [C07_assign_missing d _ j (by rw [applyNull_length, hlen]; exact h1) h2, curveLength_applyNull]
    congr 3
    cases hm : matrixColumns ft c rows with
    | nil => rw [hm] at hlen; simp at hlen; omega
    | cons col cs =>
      simp only [curveLength]
      have : col ∈ matrixColumns ft c rows := by rw [hm]; simp
      rw [matrixColumns_eq] at this
      simp only [List.mem_map] at this
      obtain ⟨x, hx, rfl⟩ := this
      rw [typedColumn_length]; exact mem_columnsOf_length _ _ x hx

/-! ### hypotheses are necessary, non-vacuity -/

def c07s (s : String) : Str := s.toList

def ft6 : FloatTable := [(c07s "0", c07s "a0"), (c07s "1", c07s "a1"), (c07s "2", c07s "a2"), (c07s "1000", c07s "b0"), (c07s "1001", c07s "b1"), (c07s "1002", c07s "b2")]

/-- 2 × 3 matrix with cells 1000·i + j, two declared curves: the third column becomes an extra curve -/
example : readData ⟨.normal, .strict⟩ [c07s "~A\n", c07s "0 1 2\n", c07s " 1000\t1001  1002 \n"] 0 2 ⟨true, c07s "NO", none, .space⟩ 2 ft6
    = .ok (.normal, [(.declared 0, .floats [c07s "a0", c07s "b0"]), (.declared 1, .floats [c07s "a1", c07s "b1"]),
                     (.extra, .floats [c07s "a2", c07s "b2"])]) := by rfl

/-- the same through the numpy engine -/
example : readData ⟨.numpy, .strict⟩ [c07s "~A\n", c07s "0 1 2\n", c07s " 1000\t1001  1002 \n"] 0 2 ⟨true, c07s "NO", none, .space⟩ 2 ft6
    = .ok (.numpy, [(.declared 0, .floats [c07s "a0", c07s "b0"]), (.declared 1, .floats [c07s "a1", c07s "b1"]),
                    (.extra, .floats [c07s "a2", c07s "b2"])]) := by rfl

/-- four declared curves, three columns: the fourth curve is NaN of the common length -/
example : readData ⟨.normal, .strict⟩ [c07s "~A\n", c07s "0 1 2\n", c07s "1000 1001 1002\n"] 0 2 ⟨true, c07s "NO", none, .space⟩ 4 ft6
    = .ok (.normal, [(.declared 0, .floats [c07s "a0", c07s "b0"]), (.declared 1, .floats [c07s "a1", c07s "b1"]),
                     (.declared 2, .floats [c07s "a2", c07s "b2"]), (.declared 3, .floats [nanTxt, nanTxt])]) := by rfl

/-- wrapped layout: the depth steps re-partitioned over physical lines, three declared curves -/
example : readData ⟨.numpy, .strict⟩ [c07s "~A\n", c07s "0\n", c07s "1 2\n", c07s "1000 1001\n", c07s "1002\n"] 0 4 ⟨true, c07s "YES", none, .space⟩ 3 ft6
    = .ok (.normal, [(.declared 0, .floats [c07s "a0", c07s "b0"]), (.declared 1, .floats [c07s "a1", c07s "b1"]),
                     (.declared 2, .floats [c07s "a2", c07s "b2"])]) := by rfl

/-- `n_columns = c` is necessary in `C07_binding`: when the sniffer cannot tell (ragged sample) the DECLARED count is used, and a
6-token section with 2 declared curves is cut into 3 rows of 2 — columns are then not the columns of the file -/
theorem C07_ncolumns_needed :
    readData ⟨.normal, .strict⟩ [c07s "~A\n", c07s "0 1 2 1000\n", c07s "1001 1002\n"] 0 2 ⟨true, c07s "NO", none, .space⟩ 2 ft6
    = .ok (.normal, [(.declared 0, .floats [c07s "a0", c07s "a2", c07s "b1"]), (.declared 1, .floats [c07s "a1", c07s "b0", c07s "b2"])]) := by
  rfl

end Lasio.Dt

#print axioms Lasio.Dt.C07_rect
#print axioms Lasio.Dt.C07_binding
#print axioms Lasio.Dt.C07_binding_lines
#print axioms Lasio.Dt.C07_cell
#print axioms Lasio.Dt.C07_binding_numpy
#print axioms Lasio.Dt.C07_assign_length
#print axioms Lasio.Dt.C07_assign_column
#print axioms Lasio.Dt.C07_assign_missing
#print axioms Lasio.Dt.C07_assign_slots
#print axioms Lasio.Dt.C07_assign_columns_kept
#print axioms Lasio.Dt.C07_binding_assigned
#print axioms Lasio.Dt.C07_ncolumns_needed
