import LasioProofs.Lemmas.FileEngines
/-
C02 and C07 lifted to WHOLE FILES (`Tf.readFull` / `Tf.readModel`: the header-level reader, then the data reader on every data
window it reports).

C02  "For every file whose data section is made of blank- or tab-separated plain decimal numbers with one depth step per line,
      reading with the default fast engine and with the pure-Python engine gives the same curves … and the same header sections
      … wherever the data section sits relative to the other sections."
  * `C02_file`            documents `pre ++ flat secs` (well formed) every data section of which is `PlainSec` (rows of `c ≥ 1` quiet
                          tokens, or no data line), steering delimiter SPACE, `float()` rejecting `~…` tokens:
                          `readModel` with engine numpy = `readModel` with engine normal — header sections, ~Other text, the
                          curves of EVERY data section, both null policies, unreadable files included (the same error).
  * `C02_file_plain`      the same from the decidable condition `plainBody` (blank lines, comment lines, lines of plain decimals).
  * `C02_file_tab`        DLM TAB (C02Tab's domain `TabBody`, at least one row per data section).
  * `C02_file_readFull`   the `readFull` form: same sections, steering values, windows; the curves of every record agree.
  * `C02_file_records`, `C02_file_numpy_path`, `C02_file_fallback`: which engine is reported for which data section.
  Hypotheses shown necessary: `C02_file_midline_hash` (PlainSec), `C02_file_delimiter_needed`, `C02_file_tilde_needed`.

C07  "After any successful read all curves have the same length, and when every data line carries the same number of values,
      value j of data line i is element i of curve j.  Curves declared in ~Curves keep their declared order …; surplus data
      columns become additional unnamed curves after them, and declared curves that have no column are filled with NaN …"
  * `C07_file_rect`       EVERY document, every option record: every successful data record has curves of one length.
  * `C07_file_curves`     … they are the columns `cols` of an engine assigned to the curves: `max d |cols|` curves, the first `d`
                          slots the declared ones in order, the rest unnamed; the columns are kept in order; declared curves
                          without a column are NaN of the common length.
  * `C07_file_binding`    a window whose flat item list is an `r × c` matrix, read by the normal engine with `n_columns = c`:
                          the curves are the columns of the matrix (`C07_file_column`, `C07_cell`: element i of column j is
                          item (i, j)).
  * `C07_file_binding_plain`  on a `PlainSec` data section (WRAP ≠ YES) BOTH engines give the columns of the token matrix.
  Hypothesis shown necessary: `C07_file_ncolumns_needed`.
-/
namespace Lasio.Tf
open Lasio Lasio.Dt

/-! ## C02 -/

/-- whole-file form of "the engines agree on every window" -/
theorem readModel_engines (o : Rd.ReadOpts) (p : NullPolicy) (nullOf : Option Str → Option Str) (ft : FloatTable) (doc : Doc)
    (hwin : ∀ hd, Rd.readLines o doc = .ok hd → ∀ w ∈ hd.data,
      (readData ⟨.numpy, p⟩ doc w.1 w.2.1 (dtSteer nullOf hd.steer) (declaredCount hd.sections) ft).map Prod.snd =
      (readData ⟨.normal, p⟩ doc w.1 w.2.1 (dtSteer nullOf hd.steer) (declaredCount hd.sections) ft).map Prod.snd) :
    readModel ⟨o, ⟨.numpy, p⟩⟩ nullOf ft doc = readModel ⟨o, ⟨.normal, p⟩⟩ nullOf ft doc := by
  unfold readModel
  cases hh : Rd.readLines o doc with
  | error e => unfold readFull; simp only [hh]
  | ok hd =>
    rw [readFull_of_header ⟨o, ⟨.numpy, p⟩⟩ nullOf ft doc hd hh, readFull_of_header ⟨o, ⟨.normal, p⟩⟩ nullOf ft doc hd hh]
    simp only [Except.map, FullRead.parsed, List.map_map]
    congr 2
    apply List.map_congr_left
    intro w hw
    exact hwin hd hh w hw

/-- one window of a document given by its structure: the engines agree when its body is `PlainSec` -/
theorem engines_agree_window (ft : FloatTable) (htf : TildeNotFloat ft) (p : NullPolicy) (st : Steer) (d : Nat)
    (pre : List Str) (A C : List (Str × List Str)) (t : Str) (b : List Str) (hw : Rd.WellFormed (A ++ (t, b) :: C))
    (hb : PlainSec b) (hdlm : st.delimiter = .space) :
    (readData ⟨.numpy, p⟩ (pre ++ Rd.flat (A ++ (t, b) :: C)) (pre.length + Rd.size A) (pre.length + Rd.size A + b.length) st d ft).map Prod.snd =
    (readData ⟨.normal, p⟩ (pre ++ Rd.flat (A ++ (t, b) :: C)) (pre.length + Rd.size A) (pre.length + Rd.size A + b.length) st d ft).map Prod.snd := by
  obtain ⟨e1, e2⟩ := doc_split pre A C t b
  have hnext := after_next ft htf A C t b hw
  rw [e1, ← e2]
  rcases hb with ⟨c, rows, hbody, hc, hr⟩ | hskip
  · exact C02_engines_agree ft p st d _ t ⟨hbody, hc, hr, hnext⟩ hdlm
  · exact C02_engines_agree_empty ft p st d _ t b _ hskip hnext hdlm

/-- **C02, whole file.** Every data section plain, steering delimiter SPACE: the parsed result — header sections, ~Other text, the
curves of every data section — does not depend on the engine that is asked for. -/
theorem C02_file (o : Rd.ReadOpts) (p : NullPolicy) (nullOf : Option Str → Option Str) (ft : FloatTable) (htf : TildeNotFloat ft)
    (pre : List Str) (secs : List (Str × List Str)) (hpre : ∀ x ∈ pre, Rd.isTitle x = false) (hw : Rd.WellFormed secs)
    (hplain : ∀ tb ∈ secs, isDataKind (kindOf tb.1) → PlainSec tb.2)
    (hdlm : ∀ hd, Rd.readLines o (pre ++ Rd.flat secs) = .ok hd → (dtSteer nullOf hd.steer).delimiter = .space) :
    readModel ⟨o, ⟨.numpy, p⟩⟩ nullOf ft (pre ++ Rd.flat secs) = readModel ⟨o, ⟨.normal, p⟩⟩ nullOf ft (pre ++ Rd.flat secs) := by
  apply readModel_engines
  intro hd hh w hwm
  rw [readLines_data o pre secs hpre hw hd hh] at hwm
  obtain ⟨A, t, b, C, rfl, hk, rfl⟩ := mem_docData secs pre.length w hwm
  exact engines_agree_window ft htf p _ _ pre A C t b hw (hplain (t, b) (by simp) hk) (hdlm hd hh)

/-- … from the DECIDABLE condition on the text: every line of every data section is a blank line, a `#` comment line, or a line
of blank/TAB-separated plain decimals `[+-]?(\d+\.?\d*|\.\d+)([eE][+-]?\d+)?`, as many as on the first data line -/
theorem C02_file_plain (o : Rd.ReadOpts) (p : NullPolicy) (nullOf : Option Str → Option Str) (ft : FloatTable) (htf : TildeNotFloat ft)
    (pre : List Str) (secs : List (Str × List Str)) (hpre : ∀ x ∈ pre, Rd.isTitle x = false) (hw : Rd.WellFormed secs)
    (hplain : ∀ tb ∈ secs, isDataKind (kindOf tb.1) → plainBody tb.2 = true)
    (hdlm : ∀ hd, Rd.readLines o (pre ++ Rd.flat secs) = .ok hd → (dtSteer nullOf hd.steer).delimiter = .space) :
    readModel ⟨o, ⟨.numpy, p⟩⟩ nullOf ft (pre ++ Rd.flat secs) = readModel ⟨o, ⟨.normal, p⟩⟩ nullOf ft (pre ++ Rd.flat secs) :=
  C02_file o p nullOf ft htf pre secs hpre hw (fun tb htb hk => plainSec_of_plainBody tb.2 (hplain tb htb hk)) hdlm

/-- **C02, whole file, DLM TAB** (C02Tab's domain: tokens separated by TABs, at least one row in every data section) -/
theorem C02_file_tab (o : Rd.ReadOpts) (p : NullPolicy) (nullOf : Option Str → Option Str) (ft : FloatTable) (htf : TildeNotFloat ft)
    (pre : List Str) (secs : List (Str × List Str)) (hpre : ∀ x ∈ pre, Rd.isTitle x = false) (hw : Rd.WellFormed secs)
    (hplain : ∀ tb ∈ secs, isDataKind (kindOf tb.1) → ∃ c rows, TabBody c tb.2 rows ∧ 0 < c ∧ rows ≠ [])
    (hdlm : ∀ hd, Rd.readLines o (pre ++ Rd.flat secs) = .ok hd → (dtSteer nullOf hd.steer).delimiter = .tab) :
    readModel ⟨o, ⟨.numpy, p⟩⟩ nullOf ft (pre ++ Rd.flat secs) = readModel ⟨o, ⟨.normal, p⟩⟩ nullOf ft (pre ++ Rd.flat secs) := by
  apply readModel_engines
  intro hd hh w hwm
  rw [readLines_data o pre secs hpre hw hd hh] at hwm
  obtain ⟨A, t, b, C, rfl, hk, rfl⟩ := mem_docData secs pre.length w hwm
  obtain ⟨c, rows, hbody, hc, hr⟩ := hplain (t, b) (by simp) hk
  obtain ⟨e1, e2⟩ := doc_split pre A C t b
  simp only
  rw [e1, ← e2]
  exact C02_engines_agree_tab ft p _ _ _ t ⟨hbody, hc, hr, after_next ft htf A C t b hw⟩ (hdlm hd hh)

/-- the `readFull` form: whichever engine is asked for, the file is readable or not alike; the sections, the steering values and
the windows are the same, and so are the curves of every record (the engine recorded may differ: `C02_file_numpy_path`,
`C02_file_fallback`) -/
theorem C02_file_readFull (o : Rd.ReadOpts) (p : NullPolicy) (nullOf : Option Str → Option Str) (ft : FloatTable)
    (htf : TildeNotFloat ft) (pre : List Str) (secs : List (Str × List Str)) (hpre : ∀ x ∈ pre, Rd.isTitle x = false)
    (hw : Rd.WellFormed secs) (hplain : ∀ tb ∈ secs, isDataKind (kindOf tb.1) → PlainSec tb.2)
    (hdlm : ∀ hd, Rd.readLines o (pre ++ Rd.flat secs) = .ok hd → (dtSteer nullOf hd.steer).delimiter = .space)
    (r₁ : FullRead) (h₁ : readFull ⟨o, ⟨.numpy, p⟩⟩ nullOf ft (pre ++ Rd.flat secs) = .ok r₁) :
    ∃ r₂, readFull ⟨o, ⟨.normal, p⟩⟩ nullOf ft (pre ++ Rd.flat secs) = .ok r₂ ∧ r₂.sections = r₁.sections ∧ r₂.steer = r₁.steer ∧
      r₂.data.map (fun x => (x.first, x.last)) = r₁.data.map (fun x => (x.first, x.last)) ∧
      r₂.data.map (fun x => x.res.map Prod.snd) = r₁.data.map (fun x => x.res.map Prod.snd) := by
  obtain ⟨hd, hh, e1, e2, e3⟩ := readFull_data _ nullOf ft _ r₁ h₁
  refine ⟨_, readFull_of_header ⟨o, ⟨.normal, p⟩⟩ nullOf ft _ hd hh, e1.symm, e2.symm, ?_, ?_⟩
  · rw [e3]; simp only [List.map_map]; rfl
  · rw [e3]
    simp only [List.map_map]
    apply List.map_congr_left
    intro w hwm
    rw [readLines_data o pre secs hpre hw hd hh] at hwm
    obtain ⟨A, t, b, C, rfl, hk, rfl⟩ := mem_docData secs pre.length w hwm
    exact (engines_agree_window ft htf p _ _ pre A C t b hw (hplain (t, b) (by simp) hk) (hdlm hd hh)).symm

/-- every data record of a read comes from a data section of the document: its window, and `readData` on it -/
theorem C02_file_records (o : Opts) (nullOf : Option Str → Option Str) (ft : FloatTable) (pre : List Str)
    (secs : List (Str × List Str)) (hpre : ∀ x ∈ pre, Rd.isTitle x = false) (hw : Rd.WellFormed secs) (r : FullRead)
    (h : readFull o nullOf ft (pre ++ Rd.flat secs) = .ok r) :
    ∀ x ∈ r.data, ∃ A t b C, secs = A ++ (t, b) :: C ∧ isDataKind (kindOf t) ∧ x.first = pre.length + Rd.size A ∧
      x.last = pre.length + Rd.size A + b.length ∧
      x.res = readData o.dat (pre ++ Rd.flat secs) x.first x.last (dtSteer nullOf r.steer) (declaredCount r.sections) ft := by
  obtain ⟨hd, hh, e1, e2, e3⟩ := readFull_data o nullOf ft _ r h
  intro x hx
  rw [e3] at hx
  obtain ⟨w, hwm, rfl⟩ := List.mem_map.mp hx
  rw [readLines_data o.hdr pre secs hpre hw hd hh] at hwm
  obtain ⟨A, t, b, C, e, hk, rfl⟩ := mem_docData secs pre.length w hwm
  exact ⟨A, t, b, C, e, hk, rfl, rfl, by rw [e1, e2]⟩

/-- NO SILENT FALLBACK, in the file: a data section of numeric plain rows without blank/comment line, or the last section of the
file (WRAP ≠ YES, strict policy): the numpy engine itself produced its curves -/
theorem C02_file_numpy_path (ft : FloatTable) (htf : TildeNotFloat ft) (st : Steer) (d : Nat) (pre : List Str)
    (A C : List (Str × List Str)) (t : Str) (b : List Str) (c : Nat) (rows : List (List Str))
    (hw : Rd.WellFormed (A ++ (t, b) :: C)) (hb : Body c b rows) (hc : 0 < c) (hr : rows ≠ []) (hnum : Numeric ft rows)
    (hdlm : st.delimiter = .space) (hwr : st.wrapped ≠ yesTxt) (hpath : b.length = rows.length ∨ C = []) :
    readData ⟨.numpy, .strict⟩ (pre ++ Rd.flat (A ++ (t, b) :: C)) (pre.length + Rd.size A) (pre.length + Rd.size A + b.length) st d ft =
      .ok (.numpy, plainResult ft .strict st d c rows) := by
  obtain ⟨e1, e2⟩ := doc_split pre A C t b
  rw [e1, ← e2]
  apply C02_numpy_path ft st d _ t ⟨hb, hc, hr, after_next ft htf A C t b hw⟩ hnum hdlm hwr
  rcases hpath with h | h
  · exact Or.inl h
  · right; rw [h]; rfl

/-- FALLBACK, in the file: a blank/comment line in the body and a section after it: genfromtxt raises, the normal engine is
recorded (the curves are the same by `C02_file`) -/
theorem C02_file_fallback (ft : FloatTable) (htf : TildeNotFloat ft) (st : Steer) (d : Nat) (pre : List Str)
    (A C : List (Str × List Str)) (t : Str) (b : List Str) (c : Nat) (rows : List (List Str))
    (hw : Rd.WellFormed (A ++ (t, b) :: C)) (hb : Body c b rows) (hc : 0 < c) (hr : rows ≠ [])
    (hdlm : st.delimiter = .space) (hwr : st.wrapped ≠ yesTxt) (hskip : rows.length < b.length) (hC : C ≠ []) :
    readData ⟨.numpy, .strict⟩ (pre ++ Rd.flat (A ++ (t, b) :: C)) (pre.length + Rd.size A) (pre.length + Rd.size A + b.length) st d ft =
      .ok (.normal, plainResult ft .strict st d c rows) := by
  obtain ⟨e1, e2⟩ := doc_split pre A C t b
  rw [e1, ← e2]
  refine (C02_fallback ft st d _ t ⟨hb, hc, hr, after_next ft htf A C t b hw⟩ hdlm hwr hskip ?_).2
  cases C with
  | nil => exact absurd rfl hC
  | cons x rest => obtain ⟨tx, bx⟩ := x; simp [Rd.flat]

/-! ## C07 -/

/-- **C07, rectangular, whole file**: EVERY document, every option record — in every data record that was read successfully all
curves have the same length -/
theorem C07_file_rect (o : Opts) (nullOf : Option Str → Option Str) (ft : FloatTable) (doc : Doc) (r : FullRead)
    (h : readFull o nullOf ft doc = .ok r) :
    ∀ x ∈ r.data, ∀ e curves, x.res = .ok (e, curves) → ∃ L, ∀ sc ∈ curves, sc.2.length = L := by
  obtain ⟨hd, _, _, _, e3⟩ := readFull_data o nullOf ft doc r h
  intro x hx e curves hres
  rw [e3] at hx
  obtain ⟨w, _, rfl⟩ := List.mem_map.mp hx
  exact C07_rect o.dat doc w.1 w.2.1 _ _ ft e curves hres

/-- **C07, assignment to curves, whole file**: the curves of a successful data record are the columns `cols` of the engine
(NULL applied) assigned to the `d` declared curves: `max d |cols|` curves; the first `d` slots are the declared curves in their
order, the others unnamed; column j is the data of curve j, unchanged; a declared curve without a column is NaN of the common
length -/
theorem C07_file_curves (o : Opts) (nullOf : Option Str → Option Str) (ft : FloatTable) (doc : Doc) (r : FullRead)
    (h : readFull o nullOf ft doc = .ok r) :
    ∀ x ∈ r.data, ∀ e curves, x.res = .ok (e, curves) →
      ∃ cols : List Column, (∃ L, ∀ col ∈ cols, col.length = L) ∧
        curves.length = max (declaredCount r.sections) cols.length ∧
        curves.map Prod.fst = (List.range (declaredCount r.sections)).map Slot.declared ++
          List.replicate (cols.length - declaredCount r.sections) Slot.extra ∧
        (curves.take cols.length).map Prod.snd = cols ∧
        (∀ j, cols.length ≤ j → j < declaredCount r.sections →
          curves[j]? = some (Slot.declared j, nanColumn (curveLength cols))) := by
  obtain ⟨hd, _, e1, e2, e3⟩ := readFull_data o nullOf ft doc r h
  intro x hx e curves hres
  rw [e3] at hx
  obtain ⟨w, _, rfl⟩ := List.mem_map.mp hx
  obtain ⟨cols, ⟨L, hL⟩, rfl, _, _⟩ := readData_ok_cols o.dat doc w.1 w.2.1 _ _ ft e curves hres
  rw [e1]
  refine ⟨applyNull (o.dat.nullPolicy == .strict) (dtSteer nullOf hd.steer).nullValue cols,
    ⟨L, applyNull_mem_length _ _ cols L hL⟩, C07_assign_length _ _, C07_assign_slots _ _, C07_assign_columns_kept _ _, ?_⟩
  intro j h1 h2
  exact C07_assign_missing _ _ j h1 h2

/-- **C07, binding, whole file**: a data record produced by the normal engine on a window whose flat item list (under the
substitution sets the reader may end with) is the row-major list of an `r × c` matrix, with `n_columns = c` (the sniffed count,
or the declared one for a wrapped file): the curves are the columns of the matrix — value j of row i is element i of curve j
(`C07_file_column`, `C07_cell`) -/
theorem C07_file_binding (o : Opts) (nullOf : Option Str → Option Str) (ft : FloatTable) (doc : Doc) (r : FullRead)
    (h : readFull o nullOf ft doc = .ok r) (x : DataRead) (hx : x ∈ r.data) (curves : List (Slot × Column))
    (hres : x.res = .ok (.normal, curves)) (rows : List (List Str)) (c : Nat) (hc : 0 < c) (hr : rows ≠ [])
    (hrows : ∀ row ∈ rows, row.length = c)
    (hT : ∀ sb, sb = readSubs (dtSteer nullOf r.steer).delimiter ∨ sb = (readSubs (dtSteer nullOf r.steer).delimiter).dropHyphen →
      normalTokens sb (dtSteer nullOf r.steer).delimiter (bodyLines doc x.first x.last) = rows.flatten)
    (hN : readerColumns (dtSteer nullOf r.steer) (declaredCount r.sections)
      (sniffTwice (readSubs (dtSteer nullOf r.steer).delimiter) (dtSteer nullOf r.steer).delimiter doc x.first x.last).2 = c) :
    curves = assignCurves (declaredCount r.sections)
      (applyNull (o.dat.nullPolicy == .strict) (dtSteer nullOf r.steer).nullValue (matrixColumns ft c rows)) := by
  obtain ⟨hd, _, e1, e2, e3⟩ := readFull_data o nullOf ft doc r h
  rw [e3] at hx
  obtain ⟨w, _, rfl⟩ := List.mem_map.mp hx
  rw [e2] at hT
  rw [e1, e2] at hN ⊢
  simp only at hres hT hN
  obtain ⟨cols, _, rfl, _, hn⟩ := readData_ok_cols o.dat doc w.1 w.2.1 _ _ ft .normal curves hres
  obtain ⟨sb, n, hsb, rfl, hne⟩ := hn rfl
  rw [hN] at hne
  unfold normalEngine at hne
  rw [C07_binding ft sb _ _ rows c hc hr hrows (hT sb hsb)] at hne
  cases hne
  rfl

/-- the columns of the matrix as curves: curve j (declared when `j < d`, unnamed otherwise) is column j of the matrix — the j-th
entries of the rows, as floats when they all convert, as text otherwise — with NULL applied -/
theorem C07_file_column (ft : FloatTable) (d c : Nat) (u : Bool) (null : Option Str) (rows : List (List Str)) (j : Nat) (hj : j < c) :
    (assignCurves d (applyNull u null (matrixColumns ft c rows)))[j]? =
      some ((if j < d then Slot.declared j else Slot.extra),
        applyNullCol u null j (typedColumn ft (rows.map fun row => row.getD j []))) := by
  apply C07_assign_column
  rw [applyNull_getElem?]
  simp [matrixColumns, hj]

/-- **C07 + C02, whole file**: on a plain data section (rows of `c` quiet tokens, WRAP ≠ YES, delimiter SPACE) the curves are the
columns of the token matrix WHICHEVER engine is asked for -/
theorem C07_file_binding_plain (e : Engine) (p : NullPolicy) (ft : FloatTable) (htf : TildeNotFloat ft) (st : Steer) (d : Nat)
    (pre : List Str) (A C : List (Str × List Str)) (t : Str) (b : List Str) (c : Nat) (rows : List (List Str))
    (hw : Rd.WellFormed (A ++ (t, b) :: C)) (hb : Body c b rows) (hc : 0 < c) (hr : rows ≠ [])
    (hdlm : st.delimiter = .space) (hwr : st.wrapped ≠ yesTxt) :
    (readData ⟨e, p⟩ (pre ++ Rd.flat (A ++ (t, b) :: C)) (pre.length + Rd.size A) (pre.length + Rd.size A + b.length) st d ft).map Prod.snd =
      .ok (assignCurves d (applyNull (p == .strict) st.nullValue (matrixColumns ft c rows))) := by
  have hn : effectiveEngine ⟨.normal, p⟩ st = .normal := by unfold effectiveEngine; split <;> rfl
  have hpd : PlainData ft b (Rd.flat C) c rows := ⟨hb, hc, hr, after_next ft htf A C t b hw⟩
  obtain ⟨e1, e2⟩ := doc_split pre A C t b
  have hnorm := C02_normal_value ft .normal p st d (pre ++ Rd.flat A) t hpd hdlm hwr hn
  cases e with
  | normal => rw [e1, ← e2, hnorm]; rfl
  | numpy => rw [e1, ← e2, C02_engines_agree ft p st d _ t hpd hdlm, hnorm]; rfl


/-! ## the hypotheses are needed -/

def c02f (x : String) : Str := x.toList

def cfFt : FloatTable := [(c02f "1", c02f "a1"), (c02f "2", c02f "a2"), (c02f "3", c02f "a3"), (c02f "4", c02f "a4"),
  (c02f "5", c02f "a5"), (c02f "6", c02f "a6")]
def cfNumpy : Opts := ⟨⟨false, .preserve⟩, ⟨.numpy, .strict⟩⟩
def cfNormal : Opts := ⟨⟨false, .preserve⟩, ⟨.normal, .strict⟩⟩

/-- the results of the data sections of a file (nothing when the file is not readable) -/
def cfData (o : Opts) (ft : FloatTable) (d : Doc) : List (Except DErr (Engine × List (Slot × Column))) :=
  match readFull o (fun _ => none) ft d with
  | .ok r => r.data.map DataRead.res
  | .error _ => []

def cfHead : Doc := [c02f "~V\n", c02f "VERS. 2.0 : v\n", c02f "WRAP. NO : w\n", c02f "~C\n", c02f "A.M : a\n", c02f "B.M : b\n"]

/-- `PlainSec` is needed (finding numpy-midline-hash): genfromtxt cuts a data line at `#`, the normal engine does not -/
theorem C02_file_midline_hash :
    plainBody [c02f "1 2 # t\n", c02f "3 4 # u\n"] = false ∧
    cfData cfNumpy cfFt (cfHead ++ [c02f "~A\n", c02f "1 2 # t\n", c02f "3 4 # u\n"]) =
      [.ok (.numpy, [(.declared 0, .floats [c02f "a1", c02f "a3"]), (.declared 1, .floats [c02f "a2", c02f "a4"])])] ∧
    cfData cfNormal cfFt (cfHead ++ [c02f "~A\n", c02f "1 2 # t\n", c02f "3 4 # u\n"]) =
      [.ok (.normal, [(.declared 0, .floats [c02f "a1", c02f "a3"]), (.declared 1, .floats [c02f "a2", c02f "a4"]),
        (.extra, .text [c02f "#", c02f "#"]), (.extra, .text [c02f "t", c02f "u"])])] := by
  refine ⟨by decide, by rfl, by rfl⟩

/-- the steering delimiter SPACE is needed: blank-separated numbers in a file that declares DLM COMMA are two columns for
genfromtxt and one text cell for the normal engine -/
theorem C02_file_delimiter_needed :
    cfData cfNumpy cfFt [c02f "~V\n", c02f "VERS. 2.0 : v\n", c02f "WRAP. NO : w\n", c02f "DLM. COMMA : d\n", c02f "~C\n",
        c02f "A.M : a\n", c02f "B.M : b\n", c02f "~A\n", c02f "1 2\n"] =
      [.ok (.numpy, [(.declared 0, .floats [c02f "a1"]), (.declared 1, .floats [c02f "a2"])])] ∧
    cfData cfNormal cfFt [c02f "~V\n", c02f "VERS. 2.0 : v\n", c02f "WRAP. NO : w\n", c02f "DLM. COMMA : d\n", c02f "~C\n",
        c02f "A.M : a\n", c02f "B.M : b\n", c02f "~A\n", c02f "1 2\n"] =
      [.ok (.normal, [(.declared 0, .text [c02f "1 2"]), (.declared 1, .floats [nanTxt])])] := ⟨by rfl, by rfl⟩

/-- `TildeNotFloat` is needed (it replaces C02's hypothesis on the line after the window: in a file that line is a title line):
were `~O` a number for `float()`, genfromtxt — whose `max_rows` counts rows, not lines — would read the next title as a row -/
theorem C02_file_tilde_needed :
    ¬ TildeNotFloat (cfFt ++ [(c02f "~O", c02f "b")]) ∧
    cfData cfNumpy (cfFt ++ [(c02f "~O", c02f "b")]) [c02f "~V\n", c02f "VERS. 2.0 : v\n", c02f "WRAP. NO : w\n", c02f "~C\n",
        c02f "A.M : a\n", c02f "~A\n", c02f "1\n", c02f "\n", c02f "~O\n", c02f "x\n"] =
      [.ok (.numpy, [(.declared 0, .floats [c02f "a1", c02f "b"])])] ∧
    cfData cfNormal (cfFt ++ [(c02f "~O", c02f "b")]) [c02f "~V\n", c02f "VERS. 2.0 : v\n", c02f "WRAP. NO : w\n", c02f "~C\n",
        c02f "A.M : a\n", c02f "~A\n", c02f "1\n", c02f "\n", c02f "~O\n", c02f "x\n"] =
      [.ok (.normal, [(.declared 0, .floats [c02f "a1"])])] := by
  refine ⟨?_, by rfl, by rfl⟩
  intro h
  have := h (c02f "~O") (by rfl)
  revert this
  decide

def cfFt6 : FloatTable := [(c02f "0", c02f "a0"), (c02f "1", c02f "a1"), (c02f "2", c02f "a2"), (c02f "1000", c02f "b0"),
  (c02f "1001", c02f "b1"), (c02f "1002", c02f "b2")]

/-- `n_columns = c` is needed in `C07_file_binding` (`C07_ncolumns_needed` in a file): a ragged sample makes the reader fall back
on the declared number of curves, and six items are cut into three rows of two -/
theorem C07_file_ncolumns_needed :
    cfData cfNormal cfFt6 (cfHead ++ [c02f "~A\n", c02f "0 1 2 1000\n", c02f "1001 1002\n"]) =
      [.ok (.normal, [(.declared 0, .floats [c02f "a0", c02f "a2", c02f "b1"]),
        (.declared 1, .floats [c02f "a1", c02f "b0", c02f "b2"])])] := by rfl

/-! ## non-vacuity -/

/-- ~V, ~C (two curves), a data section (a blank line, TAB and CRLF), ~O, a second data section (a comment line, no final
newline) -/
def cfSecs : List (Str × List Str) :=
  [(c02f "~V\n", [c02f "VERS. 2.0 : v\n", c02f "WRAP. NO : w\n"]), (c02f "~C\n", [c02f "A.M : a\n", c02f "B.M : b\n"]),
   (c02f "~A\n", [c02f "1 2\n", c02f "\n", c02f " 3\t4 \r\n"]), (c02f "~O\n", [c02f "note\n"]),
   (c02f "~A\n", [c02f "# c\n", c02f "5 6"])]

def cfHdr : Rd.RHeader :=
  match Rd.readLines cfNumpy.hdr ([] ++ Rd.flat cfSecs) with
  | .ok h => h
  | .error _ => ⟨[], Rd.Steer.init, []⟩

theorem C02_file_example_tilde : TildeNotFloat cfFt := by
  intro t ht
  cases t with
  | nil => simp at ht
  | cons c cs =>
    simp only [List.head?_cons, Option.some.injEq] at ht
    subst ht
    rfl

/-- A file with TWO data sections and a ~Other section between them: the side conditions hold (by evaluation); instance of
`C02_file_plain`: the parsed results agree; and — by evaluation — the first data section (a blank line inside, a section after
it) is answered by the normal engine after genfromtxt raised, the second (the last section) by genfromtxt itself. -/
example :
    Rd.WellFormed cfSecs ∧ (∀ tb ∈ cfSecs, isDataKind (kindOf tb.1) → plainBody tb.2 = true) ∧
    readModel cfNumpy (fun _ => none) cfFt ([] ++ Rd.flat cfSecs) = readModel cfNormal (fun _ => none) cfFt ([] ++ Rd.flat cfSecs) ∧
    cfData cfNumpy cfFt ([] ++ Rd.flat cfSecs) =
      [.ok (.normal, [(.declared 0, .floats [c02f "a1", c02f "a3"]), (.declared 1, .floats [c02f "a2", c02f "a4"])]),
       .ok (.numpy, [(.declared 0, .floats [c02f "a5"]), (.declared 1, .floats [c02f "a6"])])] ∧
    cfData cfNormal cfFt ([] ++ Rd.flat cfSecs) =
      [.ok (.normal, [(.declared 0, .floats [c02f "a1", c02f "a3"]), (.declared 1, .floats [c02f "a2", c02f "a4"])]),
       .ok (.normal, [(.declared 0, .floats [c02f "a5"]), (.declared 1, .floats [c02f "a6"])])] := by
  have hw : Rd.WellFormed cfSecs := by unfold Rd.WellFormed; decide
  have hp : ∀ tb ∈ cfSecs, isDataKind (kindOf tb.1) → plainBody tb.2 = true := by decide
  refine ⟨hw, hp, ?_, by rfl, by rfl⟩
  apply C02_file_plain cfNumpy.hdr .strict (fun _ => none) cfFt C02_file_example_tilde [] cfSecs (by intro x hx; cases hx) hw hp
  intro hd hh
  have e : Rd.readLines cfNumpy.hdr ([] ++ Rd.flat cfSecs) = .ok cfHdr := by rfl
  rw [e] at hh
  cases hh
  rfl

/-- instance of `C07_file_rect` / `C07_file_curves` on the same file, read with the default engine: in both data records the two
curves have one length, two declared slots, no extra curve -/
example (r : FullRead) (h : readFull cfNumpy (fun _ => none) cfFt ([] ++ Rd.flat cfSecs) = .ok r) :
    r.data.length = 2 ∧ declaredCount r.sections = 2 ∧
    ∀ x ∈ r.data, ∀ e curves, x.res = .ok (e, curves) →
      (∃ L, ∀ sc ∈ curves, sc.2.length = L) ∧ ∃ c, curves.length = max 2 c := by
  have hd : declaredCount r.sections = 2 := by
    have e : readFull cfNumpy (fun _ => none) cfFt ([] ++ Rd.flat cfSecs) =
        .ok (match readFull cfNumpy (fun _ => none) cfFt ([] ++ Rd.flat cfSecs) with | .ok r => r | .error _ => ⟨[], Rd.Steer.init, []⟩) := by rfl
    rw [e] at h
    cases h
    rfl
  have hl : r.data.length = 2 := by
    have e : readFull cfNumpy (fun _ => none) cfFt ([] ++ Rd.flat cfSecs) =
        .ok (match readFull cfNumpy (fun _ => none) cfFt ([] ++ Rd.flat cfSecs) with | .ok r => r | .error _ => ⟨[], Rd.Steer.init, []⟩) := by rfl
    rw [e] at h
    cases h
    rfl
  refine ⟨hl, hd, ?_⟩
  intro x hx e curves hres
  refine ⟨C07_file_rect _ _ _ _ r h x hx e curves hres, ?_⟩
  obtain ⟨cols, _, hlen, _⟩ := C07_file_curves _ _ _ _ r h x hx e curves hres
  exact ⟨cols.length, by rw [hlen, hd]⟩

end Lasio.Tf

#print axioms Lasio.Tf.C02_file
#print axioms Lasio.Tf.C02_file_plain
#print axioms Lasio.Tf.C02_file_tab
#print axioms Lasio.Tf.C02_file_readFull
#print axioms Lasio.Tf.C02_file_records
#print axioms Lasio.Tf.C02_file_numpy_path
#print axioms Lasio.Tf.C02_file_fallback
#print axioms Lasio.Tf.C07_file_rect
#print axioms Lasio.Tf.C07_file_curves
#print axioms Lasio.Tf.C07_file_binding
#print axioms Lasio.Tf.C07_file_column
#print axioms Lasio.Tf.C07_file_binding_plain
#print axioms Lasio.Tf.C02_file_midline_hash
#print axioms Lasio.Tf.C02_file_delimiter_needed
#print axioms Lasio.Tf.C02_file_tilde_needed
#print axioms Lasio.Tf.C07_file_ncolumns_needed
