import LasioProofs.Props.C15
/-
C15 (continued) — assigning a value through any key form leaves EVERY lookup of EVERY key unchanged:
`k' in s`, `s[k']`, `s.k'` and the key lists answer after `s[k] = v` exactly as before, for every section,
every pair of keys and both settings of `mnemonic_transforms`.
-/
namespace Lasio

theorem findFirst_modify_session (q : Str → Bool) (f : Item → Item) (hf : ∀ it, (f it).session = it.session)
    (l : List Item) (i : Nat) :
    findFirst (fun it => q it.session) (l.modify i f) = findFirst (fun it => q it.session) l := by
  induction l generalizing i with
  | nil => simp
  | cons a as ih =>
    cases i with
    | zero => simp [findFirst, hf]
    | succ n => simp [findFirst, ih]

theorem map_modify_same {β} (g : Item → β) (f : Item → Item) (hf : ∀ it, g (f it) = g it)
    (l : List Item) (i : Nat) : (l.modify i f).map g = l.map g := by
  induction l generalizing i with
  | nil => simp
  | cons a as ih =>
    cases i with
    | zero => simp [hf]
    | succ n => simp [ih]

/-- after `s[k] = v` (any key form) every lookup of every key answers as before: same position found, same
membership, same `s[k']` / `s.k'` result, same session and original key lists -/
theorem C15_set_value_lookups (s s' : Section) (k : Key) (v : Str) (h : s.setValue k v = .ok s') :
    (∀ k', s'.find k' = s.find k') ∧ (∀ k', s'.contains k' = s.contains k') ∧
    (∀ k', s'.getitem k' = s.getitem k') ∧ (∀ a, s'.getattr a = s.getattr a) ∧
    s'.keys = s.keys ∧ s'.origs = s.origs := by
  unfold Section.setValue at h
  cases hg : s.getitem k with
  | error e => simp [hg] at h
  | ok i =>
    simp [hg] at h; subst h
    have hfind : ∀ k', Section.find { s with items := s.items.modify i (fun it => { it with value := v }) } k'
        = s.find k' := by
      intro k'
      unfold Section.find
      exact findFirst_modify_session (fun m => cmpKey s.tr m k') (fun it => { it with value := v }) (fun _ => rfl) s.items i
    have hget : ∀ k', Section.getitem { s with items := s.items.modify i (fun it => { it with value := v }) } k'
        = s.getitem k' := by
      intro k'; unfold Section.getitem; rw [hfind]; simp
    have hcont : ∀ k', Section.contains { s with items := s.items.modify i (fun it => { it with value := v }) } k'
        = s.contains k' := by
      intro k'; unfold Section.contains; rw [hfind]
    refine ⟨hfind, hcont, hget, ?_, ?_, ?_⟩
    · intro a; unfold Section.getattr; rw [hcont, hget]
    · unfold Section.keys; exact map_modify_same (·.session) (fun it => { it with value := v }) (fun _ => rfl) s.items i
    · unfold Section.origs; exact map_modify_same (·.orig) (fun it => { it with value := v }) (fun _ => rfl) s.items i

/-- non-vacuity: a value assignment through a lower-case key on a transforming section succeeds and keeps the lookups -/
example : ∃ s', exSec.setValue (.str ['a']) ['9'] = .ok s' ∧ s'.find (.str ['A']) = some 0 := by
  refine ⟨_, rfl, ?_⟩; decide

/-- `s.pop(i)` (used by `delete_curve(ix=...)`) and `del s[i]` are the same operation for every integer, in or out of range,
with the same error: an integer key never matches a session mnemonic -/
theorem C15_pop_eq_del_int (s : Section) (n : Int) : s.pop n = s.delitem (.int n) := by
  unfold Section.pop Section.delitem
  rw [(C15_int_as_list s n).2]
  cases hp : pyIndex s.items.length n <;> simp

/-- deleting removes exactly one entry from the key lists (session names and originals) at the addressed position and
keeps all the others in order -/
theorem C15_delete_keys (s s' : Section) (k : Key) (h : s.delitem k = .ok s') :
    ∃ i, s.getitem k = .ok i ∧ s'.keys = s.keys.eraseIdx i ∧ s'.origs = s.origs.eraseIdx i ∧
      s'.items.length + 1 = s.items.length := by
  obtain ⟨i, hg, hi, _, hitems⟩ := C15_delete_exact s s' k h
  refine ⟨i, hg, ?_, ?_, ?_⟩
  · unfold Section.keys; rw [hitems, List.eraseIdx_eq_take_drop_succ]; simp [List.map_take, List.map_drop]
  · unfold Section.origs; rw [hitems, List.eraseIdx_eq_take_drop_succ]; simp [List.map_take, List.map_drop]
  · rw [hitems]; simp; omega

example : exSec.pop (-1) = exSec.delitem (.int (-1)) ∧ (∃ s', exSec.pop (-1) = .ok s' ∧ s'.items.length = 1) := by
  refine ⟨C15_pop_eq_del_int _ _, _, rfl, by decide⟩

end Lasio

#print axioms Lasio.C15_set_value_lookups
#print axioms Lasio.C15_pop_eq_del_int
#print axioms Lasio.C15_delete_keys
