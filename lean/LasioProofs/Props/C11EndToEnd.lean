import LasioProofs.Lemmas.ReadObjFullLemmas
/-
C11 END TO END — write, read the WHOLE file back into an object, write again.

`Cr.C11_cycle_fixed_point(_typed)` starts from an object `o1` about which `hW` / `ho1` (its header is the re-read of the previous output)
and nothing at all about `data` / `index_initial` was known.  Here `o1` is DERIVED: it is what `Ro.readObjFullLines` (LasioModel/ReadObjFull.lean:
typed header of `Ro.readObjLines` + `Dt.readData` on the data window + `index_initial = column 0`) returns for the text of ONE successful
`Wo.writeObj`.

  `C11_cycle_end_to_end_partial`
     first write, by its steps (the style of `C01_file_writeObj`: `setWrap`, `resolveVersion`, `prepare`, `headerLines`, `nullText`, `dataLines`
     — `Wo.writeObj_steps` produces exactly these from `writeObj wcfg sd o = .ok (t1, _)`), `t1 = hl.1 ++ hdr :: body`;
     then   (1) `writeObj wcfg sd o = .ok (t1, afterHeader wcfg o2)`;
            (2) the typed read of the file `Fr.fileDoc hl.1 hdr body` (every line of `t1` followed by "\n") SUCCEEDS: `readObjLines … = .ok th`,
                `readObjFullLines … = .ok o2r`, its raw sections are `Cy.firstRead …` (C03), its header is `headerObj env.py opts.hdr th`;
            (3) DATA: `rowsOf o2r.data = Cd.reRows ft val null nv c rows` (`rows` = the matrix the first write printed) — sample by sample the
                binary64 of `float()` of the printed token, NULL-ed outside the index — as many columns as curves, all of equal length,
                and `o2r.indexInitial = o2r.index = some (column 0)`;
            (4) SECOND WRITE: if `LinkOK env.py th` (C11Typed), no refresh is decided for `o2r`, its units are aligned and its NULL text is the
                one of the first write, then for EVERY `sd'` (the step `index[1] - index[0]`: irrelevant, nothing is refreshed)
                `writeObj wcfg sd' o2r = .ok (lines2 ++ hdr :: body, afterHeader wcfg o2r)`: the DATA LINES (the `~A` line and every body line)
                ARE THOSE OF `t1`, and the header lines `lines2` read back to the sections and steering values `hl.1` read back to.
  `C11_end_to_end_refresh`   for the object read back, `index_initial = index`: by `C11_refresh_decision` the refresh decision is
                `index[-1] != STOP.value` — `hd` of (4) is a statement about two numbers of the object.
SCOPE (`_partial`): unwrapped (`wrap = some false`), `mnemonics_header = False`, strict NULL policy, a numeric NULL value, no NaN in the index column,
every column a float column, as many ~Curves items as columns.
WHAT IS MISSING for the full statement "`t2 = t1`":
  * the HEADER lines of `t2` are shown to READ BACK like those of `t1`, not to be the same text.  They are not the same text in general: with
    `mnemonic_case="upper"` lower-case mnemonics come back upper-cased, and after a refreshing first write `STRT 1.00000` comes back `1.0`
    (`Cr.C11_refresh_respelt`; `SpeltConf` excludes the latter, nothing excludes the former).  A congruence lemma for `Wr.headerLines` in the item
    TEXTS (`RH.textOf`) under `mnemonic_case = preserve` + `SpeltConf` would close it; the evaluated example below shows `t2 = t1` on a file.
  * `hd` (no refresh), `hu` (units aligned), `h5'` (the NULL text) and `LinkOK` are hypotheses about the DETERMINED object `o2r` / `th` — they are
    no longer free (the example discharges them by evaluation) but they are not derived from hypotheses on `o`.
  * runtime services stay parameters: `env.ft` / `env.val` (`float()`: `ReadOK`, `StrtodClose`, `NoNullClash`), `env.py` (`SpeltConf`), `env.nullOf`.
  * the document is the list of lines `fileDoc …`, not a text split by `Rd.splitLines` (as in `C01_file`).
-/
namespace Lasio.Ro
open Lasio Lasio.Wo

/-- with `mnemonics_header = False` the data lines do not depend on the curve mnemonics -/
theorem dataLines_mnemonics (cfg : Dw.DataCfg) (null : Str) (mn mn' : List Str) (rows : List (List F64))
    (h : cfg.mnemonicsHeader = false) : Dw.dataLines cfg null mn rows = Dw.dataLines cfg null mn' rows := by
  unfold Dw.dataLines Dw.dataHeaderLine
  simp [h]

theorem oItems_length (py : PyFloat) (tr : Bool) (k : Rd.PKind) (l : List Rd.RItem) : (oItems py tr k l).length = l.length := by
  simp [oItems, List.length_zipWith, Cy.sessionNames_length]

theorem sameLengths_of (cols : List (List F64)) (r : Nat) (h : ∀ c ∈ cols, c.length = r) : sameLengths cols = true := by
  cases cols with
  | nil => rfl
  | cons c cs =>
    simp only [sameLengths, List.all_eq_true, beq_iff_eq]
    intro d hd
    rw [h d (by simp [hd]), h c (by simp)]

theorem secItems_firstRead_curves (o : Rd.ReadOpts) (v : String) (wrap : Option Bool) (las : Wr.WLas) :
    secItems Rd.kCurves (Cy.firstRead o v wrap las) = las.curves.map (Wr.rdExpected o) := by
  have h1 : (Rd.kCurves == Rd.kVersion) = false := by decide
  have h2 : (Rd.kCurves == Rd.kWell) = false := by decide
  have h3 : (Rd.kCurves == Rd.kCurves) = true := by decide
  simp only [secItems, Cy.firstRead, List.lookup, h1, h2, h3]

/-- **End to end (partial: unwrapped, no mnemonics header, strict NULL policy, numeric columns).** -/
theorem C11_cycle_end_to_end_partial (env : Env) (opts : Tf.Opts) (wcfg : WriteCfg) (v : String)
    (hv : wcfg.version = some v) (hwr : wcfg.wrap = some false) (hmh : wcfg.mnemonicsHeader = false)
    (hstrict : opts.dat.nullPolicy = .strict)
    -- the first write, by its steps
    {sd : Option F64} {o : WObj} {vsec : List OItem} {o2 : WObj} {hl : List Str × Wr.WLas} {null : Str} {hdr : Str} {body : List Str}
    (hs1 : (o.data.length != o.curves.length || !sameLengths o.data) = false)
    (h1 : setWrap wcfg o = .ok vsec) (h2 : resolveVersion wcfg o.versionTr vsec = .ok v) (h3 : prepare sd o = .ok o2)
    (h4 : Wr.headerLines v wcfg.wrap wcfg.headerWidth (toWLas o2) = .ok hl)
    (h5 : nullText (afterHeader wcfg o2) = .ok null)
    (h6 : Dw.dataLines (dataCfg wcfg) null ((afterHeader wcfg o2).curves.map (·.session)) (rowsOf (afterHeader wcfg o2).data)
      = some (hdr :: body))
    -- configuration well-formedness (C03 / C01 / C11)
    (hc : Fd.FileConfD opts.hdr v wcfg.wrap (toWLas o2)) (hx : Cy.CycleConf opts.hdr v wcfg.wrap (toWLas o2))
    {c : Dw.RowCfg} {n : Nat}
    (wd : Rt.Written (dataCfg wcfg) null ((afterHeader wcfg o2).curves.map (·.session)) (rowsOf (afterHeader wcfg o2).data) c n hdr body)
    (hn : null.head? ≠ some '~') (a : Char) (r : Str) (hdA : wcfg.dataSectionHeader = '~' :: a :: r) (ha : upperC a = 'A')
    (hcur : (toWLas o2).curves.length = n)
    (t : Str) (hwt : Fr.steerVal opts.hdr "WRAP" (RH.versionCopy v wcfg.wrap (toWLas o2)) = some t) (hne : t ≠ Dt.yesTxt)
    -- runtime services
    (hsp : Cy.SpeltConf (rvNum env.py) v wcfg.wrap (toWLas o2))
    (nv : Str) (hnull : env.nullOf (Fr.steerVal opts.hdr "NULL" (Wr.standardizeItems (toWLas o2).well)) = some nv)
    (hrd : Cd.ReadOK env.ft env.val null nv) (hst : Cd.StrtodClose env.ft env.val c (rowsOf (afterHeader wcfg o2).data))
    (hcl : Rt.NoNullClash env.ft nv c (rowsOf (afterHeader wcfg o2).data))
    (hfree : Cd.IndexNaNFree (rowsOf (afterHeader wcfg o2).data)) :
    writeObj wcfg sd o = .ok (hl.1 ++ hdr :: body, afterHeader wcfg o2) ∧
    ∃ th o2r,
      readObjLines opts.hdr (Fr.fileDoc hl.1 hdr body) = .ok th ∧
      readObjFullLines env opts (Fr.fileDoc hl.1 hdr body) = .ok o2r ∧
      th.raw.sections = Cy.firstRead opts.hdr v wcfg.wrap (toWLas o2) ∧
      o2r = withData (headerObj env.py opts.hdr th) o2r.data o2r.indexInitial ∧
      rowsOf o2r.data = Cd.reRows env.ft env.val null nv c (rowsOf (afterHeader wcfg o2).data) ∧
      o2r.data.length = o2r.curves.length ∧ sameLengths o2r.data = true ∧
      o2r.indexInitial = o2r.index ∧ o2r.index = o2r.data.head? ∧
      (LinkOK env.py th → ∀ (sd' : Option F64) (u : Str) (a' b' c' : Nat),
        refreshDecision o2r = .ok false → Cr.UnitsAligned o2r u a' b' c' →
        nullText (afterHeader wcfg o2r) = .ok null →
        ∃ lines2 las2', Wr.headerLines v wcfg.wrap wcfg.headerWidth (toWLas o2r) = .ok (lines2, las2') ∧
          writeObj wcfg sd' o2r = .ok (lines2 ++ hdr :: body, afterHeader wcfg o2r) ∧
          Rd.readLines opts.hdr hl.1 =
            .ok ⟨Cy.firstRead opts.hdr v wcfg.wrap (toWLas o2), Fd.fileSteerD opts.hdr v wcfg.wrap (toWLas o2), []⟩ ∧
          Rd.readLines opts.hdr lines2 =
            .ok ⟨Cy.firstRead opts.hdr v wcfg.wrap (toWLas o2), Fd.fileSteerD opts.hdr v wcfg.wrap (toWLas o2), []⟩ ∧
          (afterHeader wcfg o2r).data = o2r.data ∧ (afterHeader wcfg o2r).indexInitial = o2r.indexInitial) := by
  refine ⟨writeObj_of_steps hs1 h1 h2 h3 h4 h5 h6, ?_⟩
  -- the whole-file read of the written text
  have hwrapF : (dataCfg wcfg).wrap = false := by simp [dataCfg, hwr]
  obtain ⟨res, hfull, hres⟩ := Fd.C01_file_dlm_unwrapped opts env.nullOf env.ft v wcfg.wrap wcfg.headerWidth (toWLas o2) hl.2 hl.1 h4 hc
    wd hn a r hdA ha hwrapF t hwt hne
  have hst' : (opts.dat.nullPolicy == Dt.NullPolicy.strict) = true := by rw [hstrict]; rfl
  rw [hst', hnull, hcur] at hres
  obtain ⟨hnumc, hDlen, hDcol, hDrows⟩ := dataOf_written env.ft env.val null nv c (rowsOf (afterHeader wcfg o2).data) n wd.npos wd.rect
    (Cd.numeric_of hrd hst)
  obtain ⟨th, hth, hsec, _, hobj⟩ := readObjFullLines_of_readFull env opts _ _ _ _ _ res _ hfull hres hnumc
  generalize hD : dataOf env.val (Dt.assignCurves n (Dt.applyNull true (some nv)
    (Dt.matrixColumns env.ft n (Rt.tokenRows c null (rowsOf (afterHeader wcfg o2).data))))) = D at hDlen hDcol hDrows hobj
  refine ⟨th, _, hth, hobj, hsec, rfl, hDrows, ?_, sameLengths_of _ _ hDcol, rfl, rfl, ?_⟩
  · -- as many columns as curves
    show D.length = (objItems env.py opts.hdr th Rd.kCurves).length
    rw [hDlen, objItems, oItems_length, hsec, ← hcur, secItems_firstRead_curves]
    simp
  · intro hlink sd' u a' b' c' hd hu h5'
    have hW : toWLas (withData (headerObj env.py opts.hdr th) D D.head?) =
        Cy.lasOfRead (rvNum env.py) opts.hdr (Cy.firstRead opts.hdr v wcfg.wrap (toWLas o2)) := by
      rw [toWLas_withData, toWLas_headerObj env.py opts.hdr th hlink, hsec]
    have hs2 : ((withData (headerObj env.py opts.hdr th) D D.head?).data.length !=
        (withData (headerObj env.py opts.hdr th) D D.head?).curves.length ||
        !sameLengths (withData (headerObj env.py opts.hdr th) D D.head?).data) = false := by
      have e1 : D.length = (objItems env.py opts.hdr th Rd.kCurves).length := by
        rw [hDlen, objItems, oItems_length, hsec, ← hcur, secItems_firstRead_curves]
        simp
      show (D.length != (objItems env.py opts.hdr th Rd.kCurves).length || !sameLengths D) = false
      rw [e1, sameLengths_of _ _ hDcol]
      simp
    have h6' : Dw.dataLines (dataCfg wcfg) null
        ((afterHeader wcfg (withData (headerObj env.py opts.hdr th) D D.head?)).curves.map (·.session))
        (rowsOf (afterHeader wcfg (withData (headerObj env.py opts.hdr th) D D.head?)).data) =
        some (hdr :: body) := by
      show Dw.dataLines (dataCfg wcfg) null _ (rowsOf D) = _
      rw [hDrows, Cd.dataLines_reRows (dataCfg wcfg) _ wd.rowCfg hrd hst hfree hcl,
        dataLines_mnemonics (dataCfg wcfg) null _ ((afterHeader wcfg o2).curves.map (·.session)) _ (by simp [dataCfg, hmh])]
      exact wd.lines
    obtain ⟨lines2, las2', hh, hw, r1, r2, _, e1, e2⟩ := Cr.C11_cycle_fixed_point opts.hdr (rvNum env.py) (rvNum_retype env.py) v wcfg hv
      wcfg.headerWidth (toWLas o2) hl.2 hl.1 h4 hc hx hsp _ hW sd' u a' b' c' hd hu hs2 _ (by unfold setWrap; rw [hwr]) null hdr body h5' h6'
    exact ⟨lines2, las2', hh, hw, r1, r2, e1, e2⟩

/-- **The refresh decision of the object read back** is a comparison of two of its numbers: `index_initial` IS the index, so (index free of
NaN) the decision is `index[-1] != STOP.value` (`Cr.C11_refresh_decision`) -/
theorem C11_end_to_end_refresh (env : Env) (opts : Tf.Opts) (lines : Tf.Doc) (o2r : WObj)
    (h : readObjFullLines env opts lines = .ok o2r) (idx : List F64) (hidx : o2r.index = some idx)
    (hnan : ∀ x ∈ idx, x.isNaN = false) (last : F64) (hl : idx.getLast? = some last) (stop : OItem)
    (hs : lookup o2r.wellTr sSTOP o2r.well = some stop) :
    refreshDecision o2r = .ok (pyNe last stop.value) :=
  Cr.C11_refresh_decision o2r idx (by rw [readObjFullLines_index env opts lines o2r h, hidx]) hidx hnan last hl stop hs

/-! ## non-vacuity: `Cr.rRead` written, the whole file read back, written again -/

def eH1 : Str := Cr.rs "0x1.0000000000000p+0"
def eH2 : Str := Cr.rs "0x1.0000000000000p+1"
def eH3 : Str := Cr.rs "0x1.8000000000000p+1"
def eHg : Str := Cr.rs "0x1.f9add3c0c6597p-4"
def eHh : Str := Cr.rs "0x1.0000000000000p-1"
def eHn : Str := Cr.rs "-0x1.f3a0000000000p+9"
/-- `float()` on the six tokens of the example -/
def exFt : Dt.FloatTable :=
  [(Cr.rs "1.00000", eH1), (Cr.rs "2.00000", eH2), (Cr.rs "3.00000", eH3), (Cr.rs "0.12346", eHg), (Cr.rs "0.50000", eHh),
   (Cr.rs "-999.25", eHn)]
/-- the binary64 the canonical float texts denote -/
def exVal (s : Str) : Option F64 :=
  ([(eH1, Cr.rf false 1 0), (eH2, Cr.rf false 2 0), (eH3, Cr.rf false 3 0), (eHg, Cr.rf false 8896230559922583 (-56)),
    (eHh, Cr.rf false 1 (-1)), (eHn, Cr.rf true 3997 (-2)), (Dt.nanTxt, .nan)] : List (Str × F64)).lookup s
def exNullOf (t : Option Str) : Option Str := if t = some (Cr.rs "-999.25") then some eHn else none
def exEnv : Env := ⟨exPy, exFt, exVal, exNullOf⟩
def exFOpts : Tf.Opts := ⟨Cr.rOpts, ⟨.numpy, .strict⟩⟩

/-- **write → read the whole file → write, evaluated**: the object read back from the text of `write` on `Cr.rRead` IS `Cr.rRead` (header values,
data, `index_initial`), and writing it gives the SAME TEXT, line by line -/
theorem C11_end_to_end_example :
    (match writeObj (Cr.rCfg "%.5f") none Cr.rRead with
     | .ok (t1, _) =>
       match readObjFullLines exEnv exFOpts (t1.map (· ++ Tf.nl)) with
       | .ok o2r =>
         (match writeObj (Cr.rCfg "%.5f") none o2r with
          | .ok (t2, _) => some (decide (t2 = t1), decide (o2r = Cr.rRead), t1.length)
          | .error _ => none)
       | .error _ => none
     | .error _ => none) = some (true, true, 18) := by
  decide +kernel

/-! ### the theorem applies to the example -/

def exRows5 : List (List F64) :=
  [[Cr.rf false 1 0, Cr.rf false 8896230559922583 (-56)], [Cr.rf false 2 0, .nan], [Cr.rf false 3 0, Cr.rf false 1 (-1)]]
def exRowCfg5 : Dw.RowCfg := ⟨⟨none, 5⟩, [], 10, [' '], [' ']⟩
def exBody5 : List Str := [Cr.rs "    1.00000    0.12346", Cr.rs "    2.00000    -999.25", Cr.rs "    3.00000    0.50000"]

theorem exRows5_eq : rowsOf (afterHeader (Cr.rCfg "%.5f") Cr.rRead).data = exRows5 := by decide

theorem exWritten : Rt.Written (dataCfg (Cr.rCfg "%.5f")) (Cr.rs "-999.25")
    ((afterHeader (Cr.rCfg "%.5f") Cr.rRead).curves.map (·.session)) (rowsOf (afterHeader (Cr.rCfg "%.5f") Cr.rRead).data)
    exRowCfg5 2 (Cr.rs "~ASCII -------------") exBody5 :=
  ⟨by rfl, ⟨by decide, by decide, by decide, ⟨by decide, by decide⟩⟩, Rt.quietTok_of_check _ (by decide),
    by decide, by decide, by decide, by decide⟩

theorem exReadOK : Cd.ReadOK exFt exVal (Cr.rs "-999.25") eHn := ⟨by decide, by decide, by decide⟩

theorem exStrtod : Cd.StrtodClose exFt exVal exRowCfg5 exRows5 := by
  intro row hrow j x hx hnan
  have hm := Cd.mem_cellsOf exRows5 row hrow j x hx
  simp only [Cd.cellsOf, Cd.idxFrom, exRows5, List.flatMap_cons, List.flatMap_nil, List.append_nil, List.cons_append,
    List.nil_append, List.mem_cons, Prod.mk.injEq, List.not_mem_nil, or_false] at hm
  rcases hm with ⟨rfl, rfl⟩ | ⟨rfl, rfl⟩ | ⟨rfl, rfl⟩ | ⟨rfl, rfl⟩ | ⟨rfl, rfl⟩ | ⟨rfl, rfl⟩
  · exact ⟨eH1, _, by decide, by decide, Or.inl rfl⟩
  · exact ⟨eHg, _, by decide, by decide, Or.inl rfl⟩
  · exact ⟨eH2, _, by decide, by decide, Or.inl rfl⟩
  · cases hnan
  · exact ⟨eH3, _, by decide, by decide, Or.inl rfl⟩
  · exact ⟨eHh, _, by decide, by decide, Or.inl rfl⟩

theorem exNoClash : Rt.NoNullClash exFt eHn exRowCfg5 exRows5 := by
  intro row hrow j x hj hx hnan v hv
  have hm := Cd.mem_cellsOf exRows5 row hrow j x hx
  simp only [Cd.cellsOf, Cd.idxFrom, exRows5, List.flatMap_cons, List.flatMap_nil, List.append_nil, List.cons_append,
    List.nil_append, List.mem_cons, Prod.mk.injEq, List.not_mem_nil, or_false] at hm
  rcases hm with ⟨rfl, rfl⟩ | ⟨rfl, rfl⟩ | ⟨rfl, rfl⟩ | ⟨rfl, rfl⟩ | ⟨rfl, rfl⟩ | ⟨rfl, rfl⟩
  · exact absurd rfl hj
  · have : Dt.toFloat exFt (Dw.fmtFixed (exRowCfg5.colFmt (0 + 1)).prec (Cr.rf false 8896230559922583 (-56))) = some eHg := by decide
    rw [this] at hv; cases hv; decide
  · exact absurd rfl hj
  · cases hnan
  · exact absurd rfl hj
  · have : Dt.toFloat exFt (Dw.fmtFixed (exRowCfg5.colFmt (0 + 1)).prec (Cr.rf false 1 (-1))) = some eHh := by decide
    rw [this] at hv; cases hv; decide

theorem exIndexFree : Cd.IndexNaNFree exRows5 := by
  intro row hrow x hx
  have hm := Cd.mem_cellsOf exRows5 row hrow 0 x hx
  simp only [Cd.cellsOf, Cd.idxFrom, exRows5, List.flatMap_cons, List.flatMap_nil, List.append_nil, List.cons_append,
    List.nil_append, List.mem_cons, Prod.mk.injEq, List.not_mem_nil, or_false] at hm
  rcases hm with ⟨_, rfl⟩ | ⟨h, _⟩ | ⟨_, rfl⟩ | ⟨h, _⟩ | ⟨_, rfl⟩ | ⟨h, _⟩
  · rfl
  · cases h
  · rfl
  · cases h
  · rfl
  · cases h

/-- **non-vacuity of `C11_cycle_end_to_end_partial`**: every hypothesis holds for `write` on `Cr.rRead` (`fmt="%.5f"`, version 2.0, unwrapped):
the file reads back to an object `o2r` whose data are the re-read matrix, and (first part of the conclusion) the first write is the expected text -/
example (hl : List Str × Wr.WLas) (h4 : Wr.headerLines "2.0" (some false) 20 (toWLas Cr.rRead) = .ok hl) :
    writeObj (Cr.rCfg "%.5f") none Cr.rRead = .ok (hl.1 ++ Cr.rs "~ASCII -------------" :: exBody5, afterHeader (Cr.rCfg "%.5f") Cr.rRead) ∧
    ∃ th o2r, readObjLines Cr.rOpts (Fr.fileDoc hl.1 (Cr.rs "~ASCII -------------") exBody5) = .ok th ∧
      readObjFullLines exEnv exFOpts (Fr.fileDoc hl.1 (Cr.rs "~ASCII -------------") exBody5) = .ok o2r ∧
      rowsOf o2r.data = Cd.reRows exFt exVal (Cr.rs "-999.25") eHn exRowCfg5 exRows5 ∧ o2r.indexInitial = o2r.index := by
  have hprep : prepare none Cr.rRead = .ok Cr.rRead := by decide
  obtain ⟨hw, th, o2r, hth, hobj, _, _, hrows, _, _, hii, _, _⟩ :=
    C11_cycle_end_to_end_partial exEnv exFOpts (Cr.rCfg "%.5f") "2.0" rfl rfl rfl rfl (sd := none) (o := Cr.rRead) (o2 := Cr.rRead)
      (hl := hl) (null := Cr.rs "-999.25") (hdr := Cr.rs "~ASCII -------------") (body := exBody5)
      (by decide) rfl (by decide) hprep h4 (by decide) (by decide) Cr.rFileConf Cr.rCycleConf exWritten (by decide) 'A' (Cr.rs "SCII") rfl
      (by decide) rfl (Cr.rs "NO") (by decide +kernel) (by decide) exSpelt eHn (by decide +kernel) exReadOK
      (by rw [exRows5_eq]; exact exStrtod) (by rw [exRows5_eq]; exact exNoClash) (by rw [exRows5_eq]; exact exIndexFree)
  rw [exRows5_eq] at hrows
  exact ⟨hw, th, o2r, hth, hobj, hrows, hii⟩


/-! ## counter-examples -/

/-- the float services of the `%.0f` example of C11Refresh.lean (`Cr.rFreshL`) -/
def cH0 : Str := Cr.rs "0x0.0p+0"
def cFt : Dt.FloatTable :=
  [(Cr.rs "0", cH0), (Cr.rs "1", Cr.rs "0x1.0000000000000p+0"), (Cr.rs "2", Cr.rs "0x1.0000000000000p+1"),
   (Cr.rs "3", Cr.rs "0x1.8000000000000p+1"), (Cr.rs "-999.25", Cr.rs "-0x1.f3a0000000000p+9")]
def cVal (s : Str) : Option F64 :=
  ([(cH0, Cr.rf false 0 0), (Cr.rs "0x1.0000000000000p+0", Cr.rf false 1 0), (Cr.rs "0x1.0000000000000p+1", Cr.rf false 2 0),
    (Cr.rs "0x1.8000000000000p+1", Cr.rf false 3 0), (Dt.nanTxt, .nan)] : List (Str × F64)).lookup s
def cPy : PyFloat :=
  ⟨fun t => if t = Cr.rs "2.0" then Cr.rf false 2 0 else if t = Cr.rs "0.50000" then Cr.rf false 1 (-1)
            else if t = Cr.rs "1.50000" then Cr.rf false 3 (-1) else if t = Cr.rs "-999.25" then Cr.rf true 3997 (-2) else Cr.rf false 1 0,
   fun t => if t = Cr.rs "0.50000" then Cr.rs "0.5" else if t = Cr.rs "1.50000" then Cr.rs "1.5" else t⟩
def cEnv : Env := ⟨cPy, cFt, cVal, fun t => if t = some (Cr.rs "-999.25") then some (Cr.rs "-0x1.f3a0000000000p+9") else none⟩

/-- **COUNTER-EXAMPLE (`hd` is needed; the known finding `sss-shift-after-lossy-index-format`, end to end).**  `Cr.rFreshL` (index 0.5, 1, 1.5) written
with `fmt="%.0f"`; the whole file read back IS the object `Cr.rReadL1` of C11Refresh.lean (index 0, 1, 2; STOP the number 1.5); the refresh is
decided for it (`2.0 != 1.5`), and the second write differs from the first: the data lines are the same, the ~Well lines are not. -/
theorem C11_end_to_end_counterexample_refresh :
    (match writeObj (Cr.rCfg "%.0f") (some (Cr.rf false 1 (-1))) Cr.rFreshL with
     | .ok (t1, _) =>
       match readObjFullLines cEnv ⟨Cr.rOpts, ⟨.numpy, .strict⟩⟩ (t1.map (· ++ Tf.nl)) with
       | .ok o2r =>
         (match writeObj (Cr.rCfg "%.0f") (some (Cr.rf false 1 0)) o2r with
          | .ok (t2, _) => some (decide (o2r = Cr.rReadL1), decide ((refreshDecision o2r).toOption = some true), decide (t2 = t1),
              decide (t2.drop 15 = t1.drop 15),
              decide (Cr.wellLines t1 = [Cr.rs "STRT.M 0.50000 : start", Cr.rs "STOP.M 1.50000 : stop", Cr.rs "STEP.M 0.50000 : step"]),
              decide (Cr.wellLines t2 = [Cr.rs "STRT.M 0.00000 : start", Cr.rs "STOP.M 2.00000 : stop", Cr.rs "STEP.M 1.00000 : step"]))
          | .error _ => none)
       | .error _ => none
     | .error _ => none) = some (true, true, false, true, true, true) := by
  decide +kernel

/-- **DOMAIN: a text column is refused** — a data token `float()` rejects makes the column a `str` column; `readObjFullLines` answers
`unmodelled` (a `WObj` holds binary64 data only) -/
theorem C11_end_to_end_text_column_unmodelled :
    (match readObjFullLines exEnv exFOpts
        [Cr.rs "~V\n", Cr.rs "VERS. 2.0 : v\n", Cr.rs "WRAP. NO : w\n", Cr.rs "~C\n", Cr.rs "D.M : d\n", Cr.rs "~A\n", Cr.rs "abc\n"] with
     | .error .unmodelled => true
     | _ => false) = true := by
  decide +kernel

end Lasio.Ro

#print axioms Lasio.Ro.rowsOf_transpose
#print axioms Lasio.Ro.dataOf_written
#print axioms Lasio.Ro.readObjFullLines_of_readFull
#print axioms Lasio.Ro.C11_cycle_end_to_end_partial
#print axioms Lasio.Ro.C11_end_to_end_refresh
#print axioms Lasio.Ro.C11_end_to_end_example
#print axioms Lasio.Ro.C11_end_to_end_counterexample_refresh
#print axioms Lasio.Ro.C11_end_to_end_text_column_unmodelled
#print axioms Lasio.Ro.exWritten
#print axioms Lasio.Ro.exStrtod
