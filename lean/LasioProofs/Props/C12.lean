import LasioModel.Writer
import LasioProofs.Lemmas.WriterLemmas
import LasioProofs.Props.C03
import LasioProofs.Lemmas.RoundTripData
/-
C12 — the content recovered from a written file does not depend on how it was written (header part).
The data-section half of the property (numeric formats of equal precision, wrap, widths, spacers) is about the
data writer/reader models and is covered for the header only through `C12_header_independent`.
-/
namespace Lasio.Wr

/-- a writer configuration (all keyword arguments of `LASFile.write` that are not STRT/STOP/STEP) -/
structure WriteCfg where
  version : String
  wrap : Option Bool
  headerWidth : Nat
  fmt : Str
  columnFmt : List (Nat × Str)
  lenNumericField : Option Int
  lhsSpacer : Str
  spacer : Str
  dataWidth : Nat
  dataSectionHeader : Str
  mnemonicsHeader : Bool

/-- the header text of a configuration -/
def headerOf (cfg : WriteCfg) (las : WLas) : Except Err (List Str × WLas) :=
  headerLines cfg.version cfg.wrap cfg.headerWidth las

/-- **The header depends on the configuration only through `version`, `wrap` (the WRAP item) and
`header_width`**: fmt, column_fmt, len_numeric_field, spacers, data_width, data-section header style never
reach it (by construction of `headerLines`; stated for the record). -/
theorem C12_header_independent (c1 c2 : WriteCfg) (las : WLas)
    (hv : c1.version = c2.version) (hw : c1.wrap = c2.wrap) (hh : c1.headerWidth = c2.headerWidth) :
    headerOf c1 las = headerOf c2 las := by
  unfold headerOf
  rw [hv, hw, hh]

/-- **`header_width` only reaches the five title lines**: the item lines of every section, the ~Other lines
and the object after the call are those of `headerSections`, which does not take the width. -/
theorem C12_header_width_titles_only (v : String) (w : Option Bool) (hw : Nat) (las : WLas) :
    headerLines v w hw las =
      (match headerSections v w las with
       | .error e => .error e
       | .ok (secs, las') => .ok (secs.flatMap (fun tl => ljust hw '-' tl.1.toList :: tl.2), las')) := rfl

/-- **Version swap, one item.**  For a conformant item (in particular: no ':' in the VALUE text — the forced
clause `hconf.value_nocolon`, see `C12_counterexample_colon_value`) the line written for target version 1.2
and the line written for target version 2.0 read back — each under its own version — as the same item,
whatever the widths of the two layouts.  In ~Well the two lines differ on disk (description and value
swapped) unless the mnemonic is STRT/STOP/STEP/NULL. -/
theorem C12_version_swap (kind : SecName) (c : MCase) (o12 : Order) (W12 W20 : Widths) (it : WItem)
    (hkind : kind ≠ .other)
    (hw12 : orderOf "1.2" (secKey kind) it.orig = .ok o12)
    (hconf : TextConf kind it)
    (hpad12 : 1 ≤ W12.middle - it.unit.length - (rhsOf o12 it).length)
    (hpad20 : 1 ≤ W20.middle - it.unit.length - (rhsOf .valueDescr it).length) :
    readItem "1.2" kind c (formatItem o12 W12 it) = readItem "2.0" kind c (formatItem .valueDescr W20 it) := by
  rw [C03_item "1.2" kind c o12 W12 it hkind hw12 hconf hpad12,
    C03_item "2.0" kind c .valueDescr W20 it hkind (C03_order_v20 kind hkind _) hconf hpad20]

/-- **Version swap, one section**: the lines `write` emits for a section under target version 1.2 and under
2.0 read back to the same item list. -/
theorem C12_section_version_swap (kind : SecName) (c : MCase) (items : List WItem) (l12 l20 : List Str)
    (hkind : kind ≠ .other)
    (h12 : writeSection "1.2" (secKey kind) items = .ok l12)
    (h20 : writeSection "2.0" (secKey kind) items = .ok l20)
    (hconf : ∀ it ∈ items, TextConf kind it)
    (hmark : ∀ it ∈ items, it.orig.head? ≠ some '#' ∧ it.orig.head? ≠ some '~') :
    readSection "1.2" kind c l12 = readSection "2.0" kind c l20 := by
  rw [C03_section "1.2" kind c items l12 hkind h12 hconf hmark,
    C03_section "2.0" kind c items l20 hkind h20 hconf hmark]

/-- **Known finding `well-colon-value-1.2`**: the ~Well item `TIME. 12:30 : start time`.  Written for 2.0 it
reads back unchanged; written for 1.2 (`TIME.  start time : 12:30`) the reader splits at the LAST colon and
returns value `30`, description `start time : 12`.  So `value_nocolon` cannot be dropped from
`C12_version_swap`. -/
theorem C12_counterexample_colon_value :
    writeSection "2.0" "Well" [⟨"TIME".toList, "TIME".toList, [], .str "12:30".toList, "start time".toList⟩] =
      .ok ["TIME. 12:30 : start time".toList] ∧
    writeSection "1.2" "Well" [⟨"TIME".toList, "TIME".toList, [], .str "12:30".toList, "start time".toList⟩] =
      .ok ["TIME. start time : 12:30".toList] ∧
    readSection "2.0" .well .preserve ["TIME. 12:30 : start time".toList] =
      some [⟨"TIME".toList, [], "12:30".toList, "start time".toList⟩] ∧
    readSection "1.2" .well .preserve ["TIME. start time : 12:30".toList] =
      some [⟨"TIME".toList, [], "30".toList, "start time : 12".toList⟩] := by
  decide

/-- **Mirror image** (found by the check, same root cause: the reader splits at the LAST colon): a ~Well
DESCRIPTION containing ':' — `LOC. A : location: site` — written for 2.0 re-reads with value `A : location` and
description `site`; written for 1.2 (`LOC. location: site : A`) it reads back unchanged.  So `descr_nocolon`
cannot be dropped from `C12_version_swap` either. -/
theorem C12_counterexample_colon_descr :
    writeSection "2.0" "Well" [⟨"LOC".toList, "LOC".toList, [], .str "A".toList, "location: site".toList⟩] =
      .ok ["LOC. A : location: site".toList] ∧
    writeSection "1.2" "Well" [⟨"LOC".toList, "LOC".toList, [], .str "A".toList, "location: site".toList⟩] =
      .ok ["LOC. location: site : A".toList] ∧
    readSection "2.0" .well .preserve ["LOC. A : location: site".toList] =
      some [⟨"LOC".toList, [], "A : location".toList, "site".toList⟩] ∧
    readSection "1.2" .well .preserve ["LOC. location: site : A".toList] =
      some [⟨"LOC".toList, [], "A".toList, "location: site".toList⟩] := by
  decide

/-- **Blank mnemonic with a further period** (found by the check): `HeaderItem('', '', 'x', 'a.b')` in ~Well.
Written for 1.2 (`. a.b : x`) the name pattern `\.?([^.]*)\.` skips the delimiter period and reads mnemonic
`a`, unit `b`; written for 2.0 (`. x : a.b`) the item reads back unchanged.  So `mnem_ne` cannot be dropped from
`C12_version_swap` (C03's property text restricts blank mnemonics to lines with no further period). -/
theorem C12_counterexample_blank_mnemonic_period :
    writeSection "1.2" "Well" [⟨[], "UNKNOWN".toList, [], .str "x".toList, "a.b".toList⟩] =
      .ok [". a.b : x".toList] ∧
    writeSection "2.0" "Well" [⟨[], "UNKNOWN".toList, [], .str "x".toList, "a.b".toList⟩] =
      .ok [". x : a.b".toList] ∧
    readSection "1.2" .well .preserve [". a.b : x".toList] =
      some [⟨"a".toList, "b".toList, "x".toList, []⟩] ∧
    readSection "2.0" .well .preserve [". x : a.b".toList] =
      some [⟨[], [], "x".toList, "a.b".toList⟩] := by
  decide

/-- the item of the counter-example satisfies every clause of `TextConf` except `value_nocolon` -/
theorem C12_counterexample_colon_value_conf :
    let it : WItem := ⟨"TIME".toList, "TIME".toList, [], .str "12:30".toList, "start time".toList⟩
    it.orig ≠ [] ∧ strip it.orig = it.orig ∧ (∀ c ∈ it.orig, c ≠ '.' ∧ c ≠ ':') ∧
    (∀ c ∈ it.unit, isPySpace c = false) ∧ ¬ hasDotDot it.unit ∧ it.unit = [] ∧ isBracketed it.unit = false ∧
    strip it.value.text = it.value.text ∧ strip it.descr = it.descr ∧ (∀ c ∈ it.descr, c ≠ ':') := by
  dsimp only
  decide

/-! ## Non-vacuity -/

/-- a conformant ~Well item: on disk the two versions differ, the items read back are equal -/
example (c : MCase) :
    formatItem .descrValue ⟨6, 25⟩
      ⟨"DEPT".toList, "DEPT".toList, "M".toList, .str "1670.0".toList, "start (depth) \"x\"".toList⟩ ≠
    formatItem .valueDescr ⟨6, 25⟩
      ⟨"DEPT".toList, "DEPT".toList, "M".toList, .str "1670.0".toList, "start (depth) \"x\"".toList⟩ ∧
    readItem "1.2" .well c (formatItem .descrValue ⟨6, 25⟩
      ⟨"DEPT".toList, "DEPT".toList, "M".toList, .str "1670.0".toList, "start (depth) \"x\"".toList⟩) =
    readItem "2.0" .well c (formatItem .valueDescr ⟨6, 25⟩
      ⟨"DEPT".toList, "DEPT".toList, "M".toList, .str "1670.0".toList, "start (depth) \"x\"".toList⟩) :=
  ⟨by decide, C12_version_swap .well c .descrValue ⟨6, 25⟩ ⟨6, 25⟩ _ (by decide) (by decide)
    (C03_example_conf .well) (by decide) (by decide)⟩

/-! ## Data section: writer options change the presentation only

Writer model `Dw` (`LasioModel/DataWrite.lean`), reader model `Dt` (`LasioModel/Data.lean`), bridge `Rt`
(`Lemmas/RoundTripData.lean`); `Rt.Written cfg null mn rows c n hdr body` = `cfg` parses to the row configuration `c`,
`Dw.CfgOK c null`, the NULL text is a quiet token, `Dw.dataLines cfg null mn rows = some (hdr :: body)`, `rows` is a
non-empty r × n matrix (built by `C01_written`, Props/C01.lean).  `Rt.SamePrec c1 c2 n`: column j < n is printed with the same
number of decimals by both. -/

/-- **The token matrix depends on the options only through the precision of each column** — not on the field width of the
format (`%10.3f` vs `%.3f`), `len_numeric_field`, `lhs_spacer`, `spacer`, `wrap`, `data_width`, `header_width`,
`data_section_header`, `mnemonics_header`, nor on the mnemonics. -/
theorem C12_data_tokens_independent (c1 c2 : Dw.RowCfg) (null : Str) (rows : List (List Dw.F64)) (n : Nat)
    (hrect : ∀ r ∈ rows, r.length = n) (hp : Rt.SamePrec c1 c2 n) :
    rows.map (Dw.rowTokens c1 null) = rows.map (Dw.rowTokens c2 null) :=
  Rt.tokenRows_samePrec c1 c2 null rows n hrect hp

/-- **What is read does not depend on how it was written**: two supported option records with the same precision per column
and otherwise arbitrary presentation options (wrap or not, widths, spacers, header style, line ends) — the recovered token
matrices are equal and so are the results of the normal engine on the two bodies (under any active substitutions). -/
theorem C12_data_independent {cfg1 cfg2 : Dw.DataCfg} {null : Str} {mn1 mn2 : List Str} {rows : List (List Dw.F64)}
    {c1 c2 : Dw.RowCfg} {n : Nat} {hdr1 hdr2 : Str} {body1 body2 : List Str}
    (w1 : Rt.Written cfg1 null mn1 rows c1 n hdr1 body1) (w2 : Rt.Written cfg2 null mn2 rows c2 n hdr2 body2)
    (hp : Rt.SamePrec c1 c2 n) (ft : Dt.FloatTable) (sb1 sb2 : Dt.Subs) (eol1 eol2 : Str)
    (h1 : Dt.AllWs eol1) (h2 : Dt.AllWs eol2) :
    rows.map (Dw.rowTokens c1 null) = rows.map (Dw.rowTokens c2 null) ∧
    Dt.normalEngineLines ft sb1 .space n (body1.map (· ++ eol1)) =
      Dt.normalEngineLines ft sb2 .space n (body2.map (· ++ eol2)) ∧
    Dt.normalEngineLines ft sb1 .space n (body1.map (· ++ eol1)) =
      .ok (Dt.matrixColumns ft n (rows.map (Dw.rowTokens c1 null))) :=
  ⟨(Rt.presentation_independent w1 w2 hp ft sb1 sb2 eol1 eol2 h1 h2).1,
   (Rt.presentation_independent w1 w2 hp ft sb1 sb2 eol1 eol2 h1 h2).2,
   Rt.roundtrip_normal w1 ft sb1 eol1 h1⟩

/-- **Through `readData`, wrapped vs unwrapped**: the file written with options 1 (any `wrap`) and read with WRAP = YES
declared, and the file written with options 2 (`wrap=False`) and read with WRAP ≠ YES (after its section: nothing, or a
line whose first token is not a number), `n` declared curves, the same header NULL, the same null policy, any requested
engines: the same curves. -/
theorem C12_data_read_independent {cfg1 cfg2 : Dw.DataCfg} {null : Str} {mn1 mn2 : List Str} {rows : List (List Dw.F64)}
    {c1 c2 : Dw.RowCfg} {n : Nat} {hdr1 hdr2 : Str} {body1 body2 : List Str}
    (w1 : Rt.Written cfg1 null mn1 rows c1 n hdr1 body1) (w2 : Rt.Written cfg2 null mn2 rows c2 n hdr2 body2)
    (hp : Rt.SamePrec c1 c2 n) (hwrap2 : cfg2.wrap = false)
    (e1 e2 : Dt.Engine) (p : Dt.NullPolicy) (st1 st2 : Dt.Steer) (ft : Dt.FloatTable)
    (eol1 eol2 : Str) (h1 : Dt.AllWs eol1) (h2 : Dt.AllWs eol2)
    (pre1 pre2 : List Str) (title1 title2 : Str) (after1 after2 : List Str)
    (hd1 : st1.delimiter = .space) (hd2 : st2.delimiter = .space)
    (hwd1 : st1.wrapDeclared = true) (hwy1 : st1.wrapped = Dt.yesTxt) (hw2 : st2.wrapped ≠ Dt.yesTxt)
    (hnull : st1.nullValue = st2.nullValue)
    (hnext : after2 = [] ∨ ∃ ln rest t ts, after2 = ln :: rest ∧ Dt.npTokens ln = t :: ts ∧ Dt.toFloat ft t = none) :
    (Dt.readData ⟨e1, p⟩ (pre1 ++ title1 :: (body1.map (· ++ eol1) ++ after1)) pre1.length
        (pre1.length + (body1.map (· ++ eol1)).length) st1 n ft).map Prod.snd =
    (Dt.readData ⟨e2, p⟩ (pre2 ++ title2 :: (body2.map (· ++ eol2) ++ after2)) pre2.length
        (pre2.length + (body2.map (· ++ eol2)).length) st2 n ft).map Prod.snd :=
  Rt.read_independent w1 w2 hp hwrap2 e1 e2 p st1 st2 ft eol1 eol2 h1 h2 pre1 pre2 title1 title2 after1 after2
    hd1 hd2 hwd1 hwy1 hw2 hnull hnext

/-- the precision is content, not presentation: 0.25 written with `%.1f` and with `%.2f` -/
theorem C12_data_precision_matters (null : Str) :
    Dw.cellToken null ⟨none, 1⟩ (.finite false 1 (-2)) = "0.2".toList ∧
    Dw.cellToken null ⟨none, 2⟩ (.finite false 1 (-2)) = "0.25".toList :=
  Rt.precision_matters null

/-- non-vacuity: the same 2 × 2 matrix written wrapped with `%.1f`, field 10, and unwrapped with `%8.1f`, no field, TAB
spacer and a mnemonics header: two different texts, both satisfy `Rt.Written`, same precision -/
theorem C12_data_example :
    Rt.Written ⟨true, "%.1f".toList, [], none, [' '], [' '], 12, 20, "~A".toList, false⟩ "-999.25".toList
      ["DEPT".toList, "A".toList] [[.finite false 1 0, .nan], [.finite false 1 1, .finite false 1 0]]
      ⟨⟨none, 1⟩, [], 10, [' '], [' ']⟩ 2
      "~A -----------------".toList ["        1.0".toList, "-999.25".toList, "        2.0".toList, "1.0".toList] ∧
    Rt.Written ⟨false, "%8.1f".toList, [], some (-1), [], ['\t'], 80, 60, "~ASCII".toList, true⟩ "-999.25".toList
      ["DEPT".toList, "A".toList] [[.finite false 1 0, .nan], [.finite false 1 1, .finite false 1 0]]
      ⟨⟨some 8, 1⟩, [], -1, [], ['\t']⟩ 2
      "~ASCII DEPT       A".toList ["     1.0\t-999.25".toList, "     2.0\t     1.0".toList] ∧
    Rt.SamePrec ⟨⟨none, 1⟩, [], 10, [' '], [' ']⟩ ⟨⟨some 8, 1⟩, [], -1, [], ['\t']⟩ 2 := by
  refine ⟨⟨by rfl, ⟨by decide, by decide, by decide, ⟨by decide, by decide⟩⟩, Rt.quietTok_of_check _ (by decide),
    by decide, by decide, by decide, by decide⟩,
    ⟨by rfl, ⟨by decide, by decide, by decide, ⟨by decide, by decide⟩⟩, Rt.quietTok_of_check _ (by decide),
    by decide, by decide, by decide, by decide⟩, fun j _ => ?_⟩
  simp [Dw.RowCfg.colFmt]

#print axioms C12_header_independent
#print axioms C12_header_width_titles_only
#print axioms C12_version_swap
#print axioms C12_section_version_swap
#print axioms C12_counterexample_colon_value
#print axioms C12_counterexample_colon_descr
#print axioms C12_counterexample_blank_mnemonic_period
#print axioms C12_counterexample_colon_value_conf
#print axioms C12_data_tokens_independent
#print axioms C12_data_independent
#print axioms C12_data_read_independent
#print axioms C12_data_precision_matters
#print axioms C12_data_example

end Lasio.Wr
