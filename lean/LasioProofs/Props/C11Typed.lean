import LasioProofs.Lemmas.ReadObjLemmas
import LasioProofs.Props.C11Refresh
/-
C11 — the TYPED link of the load/save cycle.

`Cr.C11_cycle_fixed_point` (Props/C11Refresh.lean) assumes `hW : toWLas o1 = Cy.lasOfRead rv o (Cy.firstRead … las)` — "the object `o1` that
`write` starts from is the re-read of the previous output" — with the value conversion `rv : Str → WVal` a parameter.  Here `hW` is DERIVED
from "`o1` is the typed object (`Ro.headerObj`, LasioModel/ReadObj.lean) of reading the previous output with `Ro.readObjLines`", for the
concrete `rvNum py` built from NumLit's `num`:

    rvNum py t = (toPVal py t (num t)).toW      -- `str` stays the text; an int is exact; a float is `py.f64 lit` with `str()` = `py.str lit`

  `rvNum_retype`                `Cy.Retype (rvNum py)` holds for EVERY `py` (no hypothesis on `float()` / `str()`)
  `typeP_toW`                   the typed value of a stored item, seen by the header writer, is `rvNum py v` — except for the EXEMPT items
                                (every item of a curves-kind section; API / UWI of a metadata-kind section), whose value is the `str` `v`
  `toWLas_headerObj`            `toWLas (headerObj py o th) = Cy.lasOfRead (rvNum py) o th.raw.sections` provided `LinkOK py th`: for every exempt
                                item of the four standard sections `rvNum py v = WVal.str v` — i.e. the writer cannot tell the number from the
                                text (true when `v` is not a numeric literal: `exemptAgree_of_text`; also true when `v` is a non-zero literal
                                that `str()` prints as it is spelt: `exemptAgree_of_spelt`)
  `C11_link_gap_zero`           the gap is real: a ~Curves value `0` is the truthy `str` "0" in lasio but the falsy number 0 under ANY single `rv`
                                that types ~Parameter values (`lasOfRead` uses one `rv` for all four sections): `LinkOK` cannot be dropped
  `C11_cycle_fixed_point_typed` `Cr.C11_cycle_fixed_point` with `rv := rvNum py`, `hrv` proved, and `hW` replaced by
                                   `hr  : Ro.readObjLines o lines1 = .ok th`           (the typed read of the previous output)
                                   `ho1 : o1 = withData (headerObj py o th) data ii`   (`o1` is that typed header + some data matrix)
                                   `hlink : LinkOK py th`
Non-vacuity: the example of C11Refresh.lean (`Cr.rRead`, `Cr.rLas`) — the typed read of the written header, evaluated (`exKey`), IS `Cr.rRead`, `LinkOK`
holds, `SpeltConf (rvNum exPy)` holds (`exSpelt`), and the theorem is applied (last `example`).
What REMAINS ASSUMED (as in the original): `hsp : Cy.SpeltConf (rvNum py) …` — `str(float(t)) = t` for the value texts the previous write
printed (a statement about `py.str` and about integer spelling: `+5`, `007` are not printed by `str()`); `hd` / `hu` (no refresh, units
aligned); `h1`, `h5`, `h6`; that `py` IS numpy's `float64()` / `str()`; and that the data half of `o1` (`data`, `ii`) is what the data reader
builds (C11Data).  Ints are carried exactly: for |i| ≥ 2^53 numpy compares an int64 with a float64 after rounding, the model exactly (the
convention of harness/props/c16.py `pval`, which puts such a STOP / VERS value outside the domain).
-/
namespace Lasio.Ro
open Lasio Lasio.Rd Lasio.Wo

/-! ## the concrete `rv` -/

/-- `num()` as the header writer sees its result -/
def rvNum (py : PyFloat) (t : Str) : Wr.WVal := (toPVal py t (num t)).toW

/-- a `str` result of `num` is the argument (re-proved here: NumLitLemmas cannot be imported next to the C04 lemmas) -/
theorem num_str_eq (s u : Str) (h : num s = .str u) : u = s := by
  unfold num at h
  simp only at h
  split at h
  · cases h; rfl
  · split at h
    · cases h; rfl
    · split at h
      · cases h
      · split at h
        · cases h
        · cases h; rfl

theorem rvNum_retype (py : PyFloat) : Cy.Retype (rvNum py) where
  notNone := fun t => by
    unfold rvNum
    cases num t <;> rfl
  falsy := fun t h hz => by
    unfold rvNum at h hz
    cases hn : num t with
    | str u =>
      rw [hn] at h
      have hu := num_str_eq t u hn
      subst hu
      simpa [toPVal, PVal.toW, Wr.WVal.str] using h
    | int i =>
      rw [hn] at h hz
      simp only [toPVal, PVal.toW, Wr.WVal.num] at h hz
      rw [h] at hz; cases hz
    | flt n m e =>
      rw [hn] at h hz
      simp only [toPVal, PVal.toW, Wr.WVal.num] at h hz
      rw [h] at hz; cases hz

/-! ## typed value vs `rvNum` -/

/-- the items whose value the section parser never converts: every item of a curves-kind section, API / UWI of a metadata-kind section -/
def Exempt (kind : PKind) (r : RItem) : Bool :=
  kind == .curves || (kind == .metadata && isNumberString r.orig)

theorem typeP_toW (py : PyFloat) (kind : PKind) (r : RItem) :
    (typeP py kind r.orig r.value).toW = if Exempt kind r = true then Wr.WVal.str r.value else rvNum py r.value := by
  unfold typeP Exempt rvNum
  cases kind with
  | curves => rfl
  | params => rfl
  | metadata =>
    simp only [typeValue, metadataValue]
    cases isNumberString r.orig <;> rfl

/-- on the exempt items of `l` the writer cannot tell `num(v)` from the text `v` -/
def ExemptAgree (py : PyFloat) (kind : PKind) (l : List RItem) : Prop :=
  ∀ r ∈ l, Exempt kind r = true → rvNum py r.value = Wr.WVal.str r.value

/-- … true when no exempt item holds a numeric literal -/
theorem exemptAgree_of_text (py : PyFloat) (kind : PKind) (l : List RItem)
    (h : ∀ r ∈ l, Exempt kind r = true → num r.value = .str r.value) : ExemptAgree py kind l := by
  intro r hr he
  unfold rvNum
  rw [h r hr he]
  rfl

theorem num_nil : num [] = .str [] := by decide

/-- … and when every exempt numeric literal is non-zero and printed by `str()` as it is spelt -/
theorem exemptAgree_of_spelt (py : PyFloat) (kind : PKind) (l : List RItem)
    (h : ∀ r ∈ l, Exempt kind r = true → Cy.Spelt (rvNum py) r.value ∧ (rvNum py r.value).isZero = false) :
    ExemptAgree py kind l := by
  intro r hr he
  obtain ⟨hs, hz⟩ := h r hr he
  unfold Cy.Spelt at hs
  unfold rvNum at hs hz ⊢
  cases hn : num r.value with
  | str u => rw [num_str_eq _ _ hn]; rfl
  | int i =>
    rw [hn] at hs hz
    simp only [toPVal, PVal.toW, Wr.WVal.num] at hs hz ⊢
    have hne : r.value ≠ [] := by
      intro e; rw [e, num_nil] at hn; cases hn
    simp only [Wr.WVal.str, hs, hz, Wr.WVal.mk.injEq, true_and, and_true]
    cases hv : r.value with
    | nil => exact absurd hv hne
    | cons _ _ => rfl
  | flt n m e =>
    rw [hn] at hs hz
    simp only [toPVal, PVal.toW, Wr.WVal.num] at hs hz ⊢
    have hne : r.value ≠ [] := by
      intro e'; rw [e', num_nil] at hn; cases hn
    simp only [Wr.WVal.str, hs, hz, Wr.WVal.mk.injEq, true_and, and_true]
    cases hv : r.value with
    | nil => exact absurd hv hne
    | cons _ _ => rfl

theorem zipWith_congr_mem {α β γ} (f g : α → β → γ) : ∀ (as : List α) (bs : List β),
    (∀ a, ∀ b ∈ bs, f a b = g a b) → List.zipWith f as bs = List.zipWith g as bs := by
  intro as
  induction as with
  | nil => intro bs _; simp
  | cons a as ih =>
    intro bs h
    cases bs with
    | nil => simp
    | cons b bs =>
      simp only [List.zipWith_cons_cons, List.cons.injEq]
      exact ⟨h a b (by simp), ih bs (fun a' b' hb' => h a' b' (by simp [hb']))⟩

theorem oItems_toW (py : PyFloat) (tr : Bool) (kind : PKind) (l : List RItem) (h : ExemptAgree py kind l) :
    (oItems py tr kind l).map OItem.toW = Cy.itemsOfRead (rvNum py) tr l := by
  unfold oItems Cy.itemsOfRead
  rw [List.map_zipWith]
  apply zipWith_congr_mem
  intro s r hr
  simp only [mkO, OItem.toW, Cy.mkRead, Wr.WItem.mk.injEq, true_and, and_true]
  rw [typeP_toW]
  split
  · rename_i he; exact (h r hr he).symm
  · rfl

/-- the exempt items of the four standard sections are indistinguishable from their `num()` for the writer -/
structure LinkOK (py : PyFloat) (th : THeader) : Prop where
  version : ExemptAgree py (kindAt th.kinds kVersion) (secItems kVersion th.raw.sections)
  well : ExemptAgree py (kindAt th.kinds kWell) (secItems kWell th.raw.sections)
  curves : ExemptAgree py (kindAt th.kinds kCurves) (secItems kCurves th.raw.sections)
  params : ExemptAgree py (kindAt th.kinds kParameter) (secItems kParameter th.raw.sections)

/-- **The typed link.**  The header of the object `read()` builds, as the header writer sees it, IS `Cy.lasOfRead (rvNum py)` of the sections
`Rd` read. -/
theorem toWLas_headerObj (py : PyFloat) (o : ReadOpts) (th : THeader) (h : LinkOK py th) :
    toWLas (headerObj py o th) = Cy.lasOfRead (rvNum py) o th.raw.sections := by
  unfold toWLas headerObj Cy.lasOfRead objItems
  simp only [oItems_toW py _ _ _ h.version, oItems_toW py _ _ _ h.well, oItems_toW py _ _ _ h.curves,
    oItems_toW py _ _ _ h.params]
  rfl

theorem toWLas_withData (h : WObj) (data : List (List F64)) (ii : Option (List F64)) : toWLas (withData h data ii) = toWLas h := rfl

/-! ## the gap is real -/

/-- **COUNTER-EXAMPLE (why `LinkOK` is needed).**  A ~Curves line `DEPT.M 0 : d` gives the item value the `str` "0" (truthy), whereas an
`rv` that turns the ~Parameter text `0` into the number 0 gives a falsy value: no single `rv` serves both sections.  (`lasOfRead` applies one
`rv` to all four sections.) -/
theorem C11_link_gap_zero (py : PyFloat) :
    (typeP py .curves "DEPT".toList ['0']).toW = Wr.WVal.str ['0'] ∧
    (typeP py .params "DEPT".toList ['0']).toW = rvNum py ['0'] ∧
    rvNum py ['0'] ≠ Wr.WVal.str ['0'] := by
  have hn : num ['0'] = .int 0 := by decide
  refine ⟨rfl, rfl, ?_⟩
  unfold rvNum
  rw [hn]
  show Wr.WVal.num (intToStr 0) (fIsZero (intF64 0)) ≠ Wr.WVal.str ['0']
  decide

/-- … while a non-zero integer code that `str()` prints as it is spelt is harmless -/
theorem C11_link_nonzero_ok (py : PyFloat) : rvNum py "45".toList = Wr.WVal.str "45".toList := by
  have hn : num "45".toList = .int 45 := by decide
  unfold rvNum
  rw [hn]
  show Wr.WVal.num (intToStr 45) (fIsZero (intF64 45)) = Wr.WVal.str "45".toList
  decide

/-! ## the composed cycle with the typed object -/

/-- **The composed cycle is a fixed point — typed.**  `las` is the header object a cycle wrote (`lines1` its header lines); `th` is the typed
read of `lines1`; `o1` is the object with that typed header (`headerObj`) and some data; `LinkOK`; no refresh is decided for `o1` and its units
are aligned; `setWrap`, `nullText` and `dataLines` succeed.  Then the conclusions of `Cr.C11_cycle_fixed_point` hold with `rv := rvNum py`. -/
theorem C11_cycle_fixed_point_typed (o : ReadOpts) (py : PyFloat) (v : String) (wcfg : WriteCfg)
    (hv : wcfg.version = some v) (w1 : Nat) (las las' : Wr.WLas) (lines1 : List Str)
    (hH : Wr.headerLines v wcfg.wrap w1 las = .ok (lines1, las'))
    (hc : Fd.FileConfD o v wcfg.wrap las) (hx : Cy.CycleConf o v wcfg.wrap las) (hsp : Cy.SpeltConf (rvNum py) v wcfg.wrap las)
    (th : THeader) (hr : readObjLines o lines1 = .ok th) (hlink : LinkOK py th)
    (o1 : WObj) (data : List (List F64)) (ii : Option (List F64)) (ho1 : o1 = withData (headerObj py o th) data ii)
    (sd : Option F64) (u : Str) (a b c : Nat) (hd : refreshDecision o1 = .ok false) (hu : Cr.UnitsAligned o1 u a b c)
    (hs : (o1.data.length != o1.curves.length || !sameLengths o1.data) = false)
    (vsec : List OItem) (h1 : setWrap wcfg o1 = .ok vsec)
    (null2 hdr2 : Str) (body2 : List Str) (h5 : nullText (afterHeader wcfg o1) = .ok null2)
    (h6 : Dw.dataLines (dataCfg wcfg) null2 ((afterHeader wcfg o1).curves.map (·.session))
      (rowsOf (afterHeader wcfg o1).data) = some (hdr2 :: body2)) :
    th.raw = ⟨Cy.firstRead o v wcfg.wrap las, Fd.fileSteerD o v wcfg.wrap las, []⟩ ∧
    toWLas o1 = Cy.lasOfRead (rvNum py) o (Cy.firstRead o v wcfg.wrap las) ∧
    ∃ lines2 las2', Wr.headerLines v wcfg.wrap wcfg.headerWidth (toWLas o1) = .ok (lines2, las2') ∧
      writeObj wcfg sd o1 = .ok (lines2 ++ hdr2 :: body2, afterHeader wcfg o1) ∧
      Rd.readLines o lines1 = .ok ⟨Cy.firstRead o v wcfg.wrap las, Fd.fileSteerD o v wcfg.wrap las, []⟩ ∧
      Rd.readLines o lines2 = .ok ⟨Cy.firstRead o v wcfg.wrap las, Fd.fileSteerD o v wcfg.wrap las, []⟩ ∧
      (∀ (j : Nat) (x : OItem), o1.well[j]? = some x → ∃ y : OItem, (afterHeader wcfg o1).well[j]? = some y ∧
        y.value = stdP x.value x.unit ∧
        y.unit = x.unit ∧ ∀ f t, x.value = .num f t → y.value = x.value) ∧
      (afterHeader wcfg o1).data = o1.data ∧ (afterHeader wcfg o1).indexInitial = o1.indexInitial := by
  have hraw : th.raw = ⟨Cy.firstRead o v wcfg.wrap las, Fd.fileSteerD o v wcfg.wrap las, []⟩ := by
    have h1' := readObjLines_ok o lines1 th hr
    rw [Fd.readLines_header_dlm o v wcfg.wrap w1 las las' lines1 hH hc] at h1'
    injection h1' with h1'
    exact h1'.symm
  have hW : toWLas o1 = Cy.lasOfRead (rvNum py) o (Cy.firstRead o v wcfg.wrap las) := by
    rw [ho1, toWLas_withData, toWLas_headerObj py o th hlink, hraw]
  exact ⟨hraw, hW, Cr.C11_cycle_fixed_point o (rvNum py) (rvNum_retype py) v wcfg hv w1 las las' lines1 hH hc hx hsp o1 hW sd u a b c hd hu hs
    vsec h1 null2 hdr2 body2 h5 h6⟩

/-! ## non-vacuity: the example of C11Refresh.lean, typed -/

/-- `float64()` / `str()` on the four literals of the example (`str` prints them as they are spelt) -/
def exPy : PyFloat :=
  ⟨fun t => if t = Cr.rs "2.0" then Cr.rf false 2 0 else if t = Cr.rs "3.0" then Cr.rf false 3 0
            else if t = Cr.rs "-999.25" then Cr.rf true 3997 (-2) else Cr.rf false 1 0,
   fun t => t⟩

def exemptAgreeB (py : PyFloat) (kind : PKind) (l : List RItem) : Bool :=
  l.all fun r => !Exempt kind r || decide (rvNum py r.value = Wr.WVal.str r.value)

theorem exemptAgreeB_sound (py : PyFloat) (kind : PKind) (l : List RItem) (h : exemptAgreeB py kind l = true) : ExemptAgree py kind l := by
  intro r hr he
  have := List.all_eq_true.mp h r hr
  simpa [he] using this

def linkOKB (py : PyFloat) (th : THeader) : Bool :=
  exemptAgreeB py (kindAt th.kinds kVersion) (secItems kVersion th.raw.sections) &&
  exemptAgreeB py (kindAt th.kinds kWell) (secItems kWell th.raw.sections) &&
  exemptAgreeB py (kindAt th.kinds kCurves) (secItems kCurves th.raw.sections) &&
  exemptAgreeB py (kindAt th.kinds kParameter) (secItems kParameter th.raw.sections)

theorem linkOKB_sound (py : PyFloat) (th : THeader) (h : linkOKB py th = true) : LinkOK py th := by
  simp only [linkOKB, Bool.and_eq_true] at h
  exact ⟨exemptAgreeB_sound _ _ _ h.1.1.1, exemptAgreeB_sound _ _ _ h.1.1.2, exemptAgreeB_sound _ _ _ h.1.2, exemptAgreeB_sound _ _ _ h.2⟩

/-- the typed read of the header written for `Cr.rLas`, evaluated: it IS `Cr.rRead` (with its data), and the link condition holds -/
theorem exKey :
    (match Wr.headerLines "2.0" (some false) 60 Cr.rLas with
     | .ok (l, _) => (readObjLines Cr.rOpts l).toOption.map fun th =>
         (decide (withData (headerObj exPy Cr.rOpts th) Cr.rRead.data Cr.rRead.indexInitial = Cr.rRead) && linkOKB exPy th)
     | .error _ => none) = some true := by
  decide +kernel

theorem exSpelt : Cy.SpeltConf (rvNum exPy) "2.0" (some false) Cr.rLas := by
  have : ∀ it ∈ Cy.writtenItems "2.0" (some false) Cr.rLas, (rvNum exPy it.value.text).text = it.value.text := by decide +kernel
  exact this

/-- **non-vacuity of `C11_cycle_fixed_point_typed`**: for the header lines written for `Cr.rLas`, the typed read succeeds, the object it builds
(with the data of the example) IS `Cr.rRead`, `LinkOK` holds, and the theorem gives the next output and its re-read -/
example (lines1 : List Str) (las' : Wr.WLas) (hH : Wr.headerLines "2.0" (some false) 60 Cr.rLas = .ok (lines1, las')) :
    ∃ th, readObjLines Cr.rOpts lines1 = .ok th ∧
      Cr.rRead = withData (headerObj exPy Cr.rOpts th) Cr.rRead.data Cr.rRead.indexInitial ∧ LinkOK exPy th ∧
      ∃ lines2 las2', Wr.headerLines "2.0" (some false) 20 (toWLas Cr.rRead) = .ok (lines2, las2') ∧
        writeObj (Cr.rCfg "%.5f") none Cr.rRead = .ok
          (lines2 ++ Cr.rs "~ASCII -------------" ::
            [Cr.rs "    1.00000    0.12346", Cr.rs "    2.00000    -999.25", Cr.rs "    3.00000    0.50000"],
           afterHeader (Cr.rCfg "%.5f") Cr.rRead) ∧
        Rd.readLines Cr.rOpts lines2 = .ok ⟨Cy.firstRead Cr.rOpts "2.0" (some false) Cr.rLas, Fd.fileSteerD Cr.rOpts "2.0" (some false) Cr.rLas, []⟩ := by
  have key := exKey
  rw [hH] at key
  simp only at key
  cases hr : readObjLines Cr.rOpts lines1 with
  | error e => rw [hr] at key; cases key
  | ok th =>
    rw [hr] at key
    simp only [Except.toOption, Option.map_some, Option.some.injEq, Bool.and_eq_true, decide_eq_true_eq] at key
    obtain ⟨ho1, hl⟩ := key
    have hd : refreshDecision Cr.rRead = .ok false :=
      ((Cr.C11_refresh_stable Cr.rRead _ rfl rfl (by decide) (Cr.rf false 3 0) rfl
        (mkOItem sSTOP (Cr.rs "M") (Cr.rNum 3 0 "3.0") (Cr.rs "stop")) (by decide)).1 (Cr.rf false 3 0) (Cr.rs "3.0") rfl).mpr
        (by decide)
    obtain ⟨_, _, lines2, las2', h4, hw, _, r2, _⟩ := C11_cycle_fixed_point_typed Cr.rOpts exPy "2.0" (Cr.rCfg "%.5f") rfl 60 Cr.rLas las'
      lines1 hH Cr.rFileConf Cr.rCycleConf exSpelt th hr (linkOKB_sound _ _ hl) Cr.rRead _ _ ho1.symm none (Cr.rs "M") 0 1 2 hd Cr.rUnits
      (by decide) _ rfl (Cr.rs "-999.25") (Cr.rs "~ASCII -------------")
      [Cr.rs "    1.00000    0.12346", Cr.rs "    2.00000    -999.25", Cr.rs "    3.00000    0.50000"] (by decide) (by decide)
    exact ⟨th, rfl, ho1.symm, linkOKB_sound _ _ hl, lines2, las2', h4, hw, r2⟩

end Lasio.Ro

#print axioms Lasio.Ro.rvNum_retype
#print axioms Lasio.Ro.typeP_toW
#print axioms Lasio.Ro.exemptAgree_of_text
#print axioms Lasio.Ro.exemptAgree_of_spelt
#print axioms Lasio.Ro.toWLas_headerObj
#print axioms Lasio.Ro.C11_link_gap_zero
#print axioms Lasio.Ro.C11_link_nonzero_ok
#print axioms Lasio.Ro.C11_cycle_fixed_point_typed
#print axioms Lasio.Ro.exKey
#print axioms Lasio.Ro.exSpelt
#print axioms Lasio.Ro.linkOKB_sound
