import LasioProofs.Lemmas.DfLemmas
/-
C18 (DataFrame clause) — "df() has the first curve as index and the other curves as columns with equal values, and
set_data_from_df(df()) restores the same curve names and values."

pandas is trusted runtime; what lasio adds is: `df()` labels the frame with the SESSION mnemonics of the curves (`dfNames`) over
the 2-D view of the arrays (`dfRows` = C14's `dataView`), and `set_data_from_df(df)` = `set_data(values incl. index column,
names = [index name] + column labels)`, i.e. the model step `.setData (dfRows L) (some (dfNames L)) false` of LasioModel/Curves.lean.

`C18_df_roundtrip_names` (well-formed state, ≥ 1 curve, all arrays of one length r > 0):
  the call succeeds, and
  (a) the number of curves is unchanged;
  (c) the ORIGINAL mnemonics become the old SESSION names — a stale or generated suffix such as `GR:1` becomes part of the
      original mnemonic (this is what the code does; `original_mnemonic` is "restored" only where it equalled the session name);
  (d) the arrays are the old arrays, units / values / descriptions are untouched, `mnemonic_transforms` is untouched;
  (b) the session names are `assign_duplicate_suffixes()` of the useful forms of the old session names (closed form), and they
      ARE the old session names (`keys()` restored) when
        `hnb` no session name is blank (true of every name the suffix machinery produces: `C18_df_nonblank_of_inv`) and
        `hd`  the session names are pairwise distinct under the section's comparison (C13's `Distinct`).
  Both are needed: `C18_df_counterexample_case_duplicates` (`A`, `a` with transforms -> `A:1`, `a:2`),
  `C18_df_counterexample_blank_session`.  `C18_df_counterexample_no_rows`: unequal array lengths, no `dfRows`.
-/
namespace Lasio

/-- **`set_data_from_df(df())`**. -/
theorem C18_df_roundtrip_names (L : LasCurves) (hwf : L.WF) (hn : 0 < L.sec.items.length) (r : Nat) (hr : 0 < r)
    (hlen : ∀ d ∈ L.data, d.length = r) :
    ∃ rows, dfRows L = some rows ∧ rows.length = r ∧ (∀ row ∈ rows, row.length = L.sec.items.length) ∧
      (L.step (.setData rows (some (dfNames L)) false)).2 = .ok ∧
      -- (a)
      (L.step (.setData rows (some (dfNames L)) false)).1.sec.items.length = L.sec.items.length ∧
      (L.step (.setData rows (some (dfNames L)) false)).1.WF ∧
      -- (c)
      (L.step (.setData rows (some (dfNames L)) false)).1.sec.origs = dfNames L ∧
      -- (d)
      (L.step (.setData rows (some (dfNames L)) false)).1.data = L.data ∧
      (L.step (.setData rows (some (dfNames L)) false)).1.sec.items.map (fun it => (it.unit, it.value, it.descr)) =
        L.sec.items.map (fun it => (it.unit, it.value, it.descr)) ∧
      (L.step (.setData rows (some (dfNames L)) false)).1.sec.tr = L.sec.tr ∧
      dfRows (L.step (.setData rows (some (dfNames L)) false)).1 = some rows ∧
      -- (b), general form
      (L.step (.setData rows (some (dfNames L)) false)).1.sec =
        Section.assignAll { L.sec with items := L.sec.items.map renameToSession } ∧
      -- (b)
      ((∀ k ∈ dfNames L, strip k ≠ []) → Distinct L.sec →
        dfNames (L.step (.setData rows (some (dfNames L)) false)).1 = dfNames L) := by
  -- the 2-D view exists
  have hview : ∃ rows, L.dataView = .ok rows := by
    cases hv : L.dataView with
    | ok rows => exact ⟨rows, rfl⟩
    | error e =>
      exfalso
      obtain ⟨a, ha, b, hb, hne⟩ := (C14_data_error L).mp ⟨e, hv⟩
      exact hne ((hlen a ha).trans (hlen b hb).symm)
  obtain ⟨rows, hrows⟩ := hview
  have hdf : dfRows L = some rows := by unfold dfRows; rw [hrows]
  obtain ⟨_, hrowlen, hdl⟩ := C14_data_column L rows hrows
  have hstep : L.step (.setData rows (some (dfNames L)) false) =
      (⟨Section.assignAll { L.sec with items := L.sec.items.map renameToSession }, L.data⟩, .ok) :=
    setData_df L hwf hn r hr hlen rows hrows
  have hdn : L.data.length = L.sec.items.length := hwf.symm
  obtain ⟨d0, hd0⟩ : ∃ d0, d0 ∈ L.data := by
    cases hd : L.data with
    | nil => rw [hd] at hdn; simp at hdn; omega
    | cons d ds => exact ⟨d, by simp⟩
  refine ⟨rows, hdf, by rw [← hdl d0 hd0, hlen d0 hd0], fun row h => by rw [hrowlen row h, hdn], ?_⟩
  rw [hstep]
  simp only []
  have hcore := assignAll_core { L.sec with items := L.sec.items.map renameToSession }
  have hl : (Section.assignAll { L.sec with items := L.sec.items.map renameToSession }).items.length =
      L.sec.items.length := by
    rw [assignAll_length]; simp
  refine ⟨trivial, hl, ?_, ?_, trivial, ?_, ?_, ?_, trivial, ?_⟩
  · unfold LasCurves.WF; rw [hl]; exact hwf
  · rw [origs_eq_core, hcore]
    simp [List.map_map, Function.comp_def, Item.core, renameToSession, renameItem, dfNames, Section.keys]
  · have := congrArg (List.map (fun c : Str × Str × Str × Str => c.2)) hcore
    simpa [List.map_map, Function.comp_def, Item.core, renameToSession, renameItem] using this
  · unfold Section.assignAll; rw [assignMany_tr]
  · unfold dfRows LasCurves.dataView at hdf ⊢
    exact hdf
  · intro hnb hd
    have hu : ∀ it ∈ L.sec.items, useful it.session = it.session := by
      intro it hit
      exact useful_of_nonblank _ (hnb it.session (List.mem_map.mpr ⟨it, hit, rfl⟩))
    have hp : (L.sec.items.map renameToSession).Pairwise
        (fun a b => cmpStr L.sec.tr (useful a.orig) (useful b.orig) = false) := by
      rw [List.pairwise_map]
      refine List.Pairwise.imp_of_mem ?_ hd
      intro a b ha hb hab
      show cmpStr L.sec.tr (useful a.session) (useful b.session) = false
      rw [hu a ha, hu b hb]
      exact hab
    rw [assignAll_of_pairwise _ hp]
    simp only [dfNames, Section.keys, List.map_map]
    apply List.map_congr_left
    intro it hit
    exact hu it hit

/-- every session name is non-blank in a section all of whose items carry a session name of the form the suffix machinery
produces (`SuffixForm`: useful original, bare or with `:k`) — in particular under C13's invariant `Inv` -/
theorem C18_df_nonblank_of_inv (L : LasCurves) (h : ∀ it ∈ L.sec.items, SuffixForm it) :
    ∀ k ∈ dfNames L, strip k ≠ [] := by
  intro k hk
  obtain ⟨it, hit, rfl⟩ := List.mem_map.mp hk
  exact session_nonblank_of_suffixForm it (h it hit)

/-- the user-visible form: under C13's `Inv` and `Distinct`, `keys()` and the arrays are restored -/
theorem C18_df_roundtrip_keys (L : LasCurves) (hwf : L.WF) (hn : 0 < L.sec.items.length) (r : Nat) (hr : 0 < r)
    (hlen : ∀ d ∈ L.data, d.length = r) (hinv : Inv L.sec) (hd : Distinct L.sec) :
    ∃ rows, dfRows L = some rows ∧ (L.step (.setData rows (some (dfNames L)) false)).2 = .ok ∧
      (L.step (.setData rows (some (dfNames L)) false)).1.keys = L.keys ∧
      (L.step (.setData rows (some (dfNames L)) false)).1.values = L.values ∧
      (L.step (.setData rows (some (dfNames L)) false)).1.sec.origs = L.keys := by
  obtain ⟨rows, h1, _, _, h2, _, _, h3, h4, _, _, _, _, h5⟩ := C18_df_roundtrip_names L hwf hn r hr hlen
  exact ⟨rows, h1, h2, h5 (C18_df_nonblank_of_inv L hinv.1) hd, h4, h3⟩

/-! ## the hypotheses are needed -/

def cvItem (orig session : String) : Item := ⟨orig.toList, session.toList, [], [], []⟩

/-- **`Distinct` is needed**: with `mnemonic_transforms` on, two curves whose session names are `A` and `a` (not distinct under
the case-insensitive comparison) come back as `A:1`, `a:2` -/
theorem C18_df_counterexample_case_duplicates :
    let L : LasCurves := ⟨⟨[cvItem "A" "A", cvItem "a" "a"], true⟩, [["1".toList], ["2".toList]]⟩
    dfRows L = some [["1".toList, "2".toList]] ∧ ¬ Distinct L.sec ∧
    (L.step (.setData [["1".toList, "2".toList]] (some (dfNames L)) false)).2 = .ok ∧
    dfNames (L.step (.setData [["1".toList, "2".toList]] (some (dfNames L)) false)).1 = ["A:1".toList, "a:2".toList] := by
  refine ⟨by decide, ?_, by decide, by decide⟩
  unfold Distinct
  decide

/-- **non-blank session names are needed** (a state no lasio method produces): a blank session name comes back as `UNKNOWN` -/
theorem C18_df_counterexample_blank_session :
    let L : LasCurves := ⟨⟨[cvItem "X" " "], false⟩, [["1".toList]]⟩
    Distinct L.sec ∧
    dfNames (L.step (.setData [["1".toList]] (some (dfNames L)) false)).1 = ["UNKNOWN".toList] := by
  refine ⟨?_, by decide⟩
  unfold Distinct
  decide

/-- unequal array lengths: `df()` has no values (`np.vstack` raises) -/
theorem C18_df_counterexample_no_rows :
    dfRows ⟨⟨[cvItem "A" "A", cvItem "B" "B"], false⟩, [["1".toList], ["2".toList, "3".toList]]⟩ = none := by
  decide

/-- **zero rows** (every curve empty), or no column at all: `set_data` with an EMPTY array renames nothing and re-numbers
nothing — the whole curve collection, stale suffixes included, is what it was (lasio `fix:` 17e170b; before it the code called
`assign_duplicate_suffixes()` here too and `X1:3` became `X1:2`). -/
theorem C18_df_roundtrip_empty (L : LasCurves) (rows : List (List Cell)) (names : Option (List Str))
    (h : rows.length * cvRowsWidth rows = 0) :
    L.setData rows names false = (L, .ok) := by
  unfold LasCurves.setData setDataRows
  simp [h]

/-- the state of the sweep's failing input: DEPT, X1, X1, a, X1 with the second X1 deleted, no rows -/
def exDfStale : LasCurves :=
  (LasCurves.run ⟨⟨[], true⟩, []⟩
    [.appendCurve "DEPT".toList [] [] [] [], .appendCurve "X1".toList [] [] [] [], .appendCurve "X1".toList [] [] [] [],
     .appendCurve "a".toList [] [] [] [], .appendCurve "X1".toList [] [] [] [], .deleteIx 2])

example : dfNames exDfStale = ["DEPT".toList, "X1:1".toList, "a".toList, "X1:3".toList] ∧ dfRows exDfStale = some [] ∧
    (exDfStale.setData [] (some (dfNames exDfStale)) false).1.sec.keys
      = ["DEPT".toList, "X1:1".toList, "a".toList, "X1:3".toList] := by
  decide

/-! ## non-vacuity -/

/-- the curves of a file with the lines DEPT, GR, GR (as `read` builds them: appended one by one, transforms on) -/
def exDf : LasCurves :=
  (LasCurves.run ⟨⟨[], true⟩, []⟩
    [.appendCurve "DEPT".toList "M".toList [] [] ["1".toList, "2".toList],
     .appendCurve "GR".toList "API".toList [] [] ["10".toList, "20".toList],
     .appendCurve "GR".toList "API".toList [] [] ["11".toList, "21".toList]])

/-- sessions DEPT, GR:1, GR:2 over the originals DEPT, GR, GR; after `set_data_from_df(df())` the sessions are DEPT, GR:1, GR:2
again, the ORIGINALS are now DEPT, GR:1, GR:2, the arrays and units are the same — by the theorem, and by running the model -/
example :
    dfNames exDf = ["DEPT".toList, "GR:1".toList, "GR:2".toList] ∧
    exDf.sec.origs = ["DEPT".toList, "GR".toList, "GR".toList] ∧
    dfRows exDf = some [["1".toList, "10".toList, "11".toList], ["2".toList, "20".toList, "21".toList]] ∧
    (∃ rows, dfRows exDf = some rows ∧ (exDf.step (.setData rows (some (dfNames exDf)) false)).2 = .ok ∧
      (exDf.step (.setData rows (some (dfNames exDf)) false)).1.keys = exDf.keys ∧
      (exDf.step (.setData rows (some (dfNames exDf)) false)).1.values = exDf.values ∧
      (exDf.step (.setData rows (some (dfNames exDf)) false)).1.sec.origs = exDf.keys) ∧
    (let L' := (exDf.step (.setData [["1".toList, "10".toList, "11".toList], ["2".toList, "20".toList, "21".toList]]
        (some (dfNames exDf)) false)).1
     dfNames L' = ["DEPT".toList, "GR:1".toList, "GR:2".toList] ∧
     L'.sec.origs = ["DEPT".toList, "GR:1".toList, "GR:2".toList] ∧
     L'.data = exDf.data ∧ L'.sec.items.map (·.unit) = ["M".toList, "API".toList, "API".toList]) := by
  have hd : Distinct exDf.sec := by unfold Distinct; decide
  obtain ⟨rows, h1, _, _, h2, _, _, h3, h4, _, _, _, _, h5⟩ :=
    C18_df_roundtrip_names exDf (by decide) (by decide) 2 (by decide) (by decide)
  exact ⟨by decide, by decide, by decide, ⟨rows, h1, h2, h5 (by decide) hd, h4, h3⟩, by decide, by decide, by decide,
    by decide⟩

/-- the same state satisfies the hypotheses of `C18_df_roundtrip_keys` (C13's `Inv`: the section is a run of appends) -/
example : Inv exDf.sec ∧ Distinct exDf.sec ∧
    ∃ rows, dfRows exDf = some rows ∧ (exDf.step (.setData rows (some (dfNames exDf)) false)).2 = .ok ∧
      (exDf.step (.setData rows (some (dfNames exDf)) false)).1.keys = exDf.keys ∧
      (exDf.step (.setData rows (some (dfNames exDf)) false)).1.values = exDf.values ∧
      (exDf.step (.setData rows (some (dfNames exDf)) false)).1.sec.origs = exDf.keys := by
  have e : exDf.sec = Section.run ⟨[], true⟩ [.append "DEPT".toList "M".toList [] [], .append "GR".toList "API".toList [] [],
      .append "GR".toList "API".toList [] []] := by decide
  have hinv : Inv exDf.sec := by rw [e]; exact C13_inv_run _ _
  have hd : Distinct exDf.sec := by unfold Distinct; decide
  exact ⟨hinv, hd, C18_df_roundtrip_keys exDf (by decide) (by decide) 2 (by decide) (by decide) hinv hd⟩

#print axioms C18_df_roundtrip_names
#print axioms C18_df_nonblank_of_inv
#print axioms C18_df_roundtrip_keys
#print axioms C18_df_counterexample_case_duplicates
#print axioms C18_df_counterexample_blank_session
#print axioms C18_df_counterexample_no_rows
#print axioms C18_df_roundtrip_empty
#print axioms setData_df

end Lasio
