import LasioProofs.Lemmas.ReadObjLemmas
import LasioProofs.Props.C08
/-
C08 at FILE level — the typed object `read()` builds (model: `LasioModel/ReadObj.lean`, `Lasio.Ro`).

C08.lean decides item by item which text becomes a number (`num`, `metadataValue`, `paramsValue`, `curvesValue`).  Here: WHICH rule is
applied to WHICH stored item of a whole document.

  `C08_file`            for every list of lines / option record and every successful `readObjLines`: the `Rd` read succeeds with the raw
                        header `th.raw`, the typed sections have the keys of the raw ones in the same order, ~Other-like sections keep their
                        text, and every item of a stored items section has the mnemonic / unit / descr that `Rd` stored and the value
                        `.str v` (kind curves) / `num v` (kind params) / `metadataValue name v` (kind metadata) of the field text `v` that `Rd`
                        stored — where the kind is the one the section's TITLE selects (`Selects`: the stored items are the parse of one
                        "Header items" window `w` of `find_sections_in_file`, `kind = parserKind w.title v`, `v` the provisional version when
                        the loop reached `w`, and the window was routed to this key)
  `C08_file_text`       the same for `readObjHeader o text` (`lasio.read(text, ignore_data=True, …)`)
  `C08_file_total`      the typed read succeeds exactly when the `Rd` read does (same errors)
  `C08_file_kind_plain` for a title that is not LAS-3 like (no `_DATA` / `_PARAMETER` / `_DEFINITION`), the kind depends on the letter only:
                        `~C…` curves, `~P…` params, everything else metadata, whatever the version
  `C08_file_kind_las3`  under version 3.0 a LAS-3 like title is read by the metadata rule whatever its letter
  `C08_file_number_iff` an item's typed value is a number iff its section is not a curves section, it is not an API / UWI item of a metadata
                        section, and the stored text is a finite plain decimal literal with acceptable padding (`C08_number_iff`)
  `C08_file_verbatim`   CONVERSE: a stored text that is not a numeric literal stays that text, verbatim, whatever the section
  `C08_file_str_verbatim` a typed value that is a `str` at all is the stored text
Tightness (by evaluation of the model on documents; the same documents were read with the real lasio): `API` in ~Well stays text while `API` in
~Parameter becomes the int 12; a ~Curves value never becomes a number; a custom section (`~Tops`) follows the METADATA rule (API / UWI exempt —
not the ~Parameter rule), unless its title starts with `~C` / `~P` (`~Cement`, `~Perfs`: it IS a curves / params section and replaces
"Curves" / "Parameter"); under VERS 3.0 `~Perf_Parameter` follows the metadata rule (API kept) whereas under 2.0 — or when ~Version comes
after it — it is a params section; the comma decimal mark.
NOT proved here: nothing about `float()` — a float is the exact decimal of the literal (`NumVal.flt`, C08_denote_exact).
-/
namespace Lasio.Ro
open Lasio Lasio.Rd

/-- the typed item `t` is the raw item `r` with its value typed by the rule of a `kind` section -/
def TypedAs (kind : PKind) (t : TItem) (r : RItem) : Prop :=
  t.orig = r.orig ∧ t.unit = r.unit ∧ t.descr = r.descr ∧
  t.value = (match kind with
    | .curves => NumVal.str r.value
    | .params => num r.value
    | .metadata => metadataValue r.orig r.value)

/-- **the kind the title selects**: `items` is the parse of a "Header items" window `w` of the file (title `w.2.2`), read when the
provisional version was `v` (the state `stB` reached after the windows before `w`), `kind` is `SectionParser(title, v).func`, and the
window was stored under the key `k` -/
def Selects (o : ReadOpts) (lines : List Str) (k : RKey) (kind : PKind) (items : List RItem) : Prop :=
  ∃ (a : List Win) (w : Win) (b : List Win) (stB : RState) (v : Str),
    findSections lines = a ++ w :: b ∧ processSections o lines a RState.init = .ok stB ∧
    sectionType w.2.2 = .items ∧ classifyVer stB.steer.vers = .known v ∧
    kind = parserKind w.2.2 v ∧
    parseItemsSection o (.known v) (lines.drop w.1) w.1 w.2.1 = .ok items ∧
    routeKey w.2.2 (classifyVer (steer o w.2.2 items stB.steer).vers) = .ok k

theorem typedAs_typeItem (kind : PKind) (r : RItem) : TypedAs kind (typeItem kind r) r := by
  refine ⟨rfl, rfl, rfl, ?_⟩
  cases kind <;> rfl

theorem forall₂_typeItem (kind : PKind) (items : List RItem) :
    List.Forall₂ (TypedAs kind) (items.map (typeItem kind)) items := by
  induction items with
  | nil => exact .nil
  | cons r rest ih => exact .cons (typedAs_typeItem kind r) ih

theorem selects_of_prov (o : ReadOpts) (lines : List Str) (km : Kinds) (k : RKey) (items : List RItem)
    (h : Prov o lines (findSections lines) km k items) : Selects o lines k (kindAt km k) items := by
  obtain ⟨a, w, b, stB, tl, rest, p, e, h1, h2, h3, h4, h5, h6, h7⟩ := h
  obtain ⟨tl', rest', e', ht⟩ := findSections_line lines w (by rw [e]; simp)
  rw [h3] at e'
  injection e' with e1 e2
  subst e1 e2
  have htitle : lineStrip tl = w.2.2 := by rw [ht, lineStrip_eq_strip, sline_eq_strip]
  cases hv : classifyVer stB.steer.vers with
  | undecided => rw [hv] at h4; simp [mkParser] at h4
  | bad => rw [hv] at h4; simp [mkParser] at h4
  | known v =>
    rw [hv] at h4
    refine ⟨a, w, b, stB, v, e, h1, h2, hv, ?_, ?_, h6⟩
    · rw [h7, mkParser_kind _ _ _ h4, htitle]
    · rw [h3]
      unfold parseItemsSection
      simp only [h4, h5]

/-- **C08 at file level.** -/
theorem C08_file (o : ReadOpts) (lines : List Str) (th : THeader) (h : readObjLines o lines = .ok th) :
    readLines o lines = .ok th.raw ∧
    th.sections.map Prod.fst = th.raw.sections.map Prod.fst ∧
    ∀ k sv, (k, sv) ∈ th.sections →
      match sv with
      | .text s => (k, SecVal.text s) ∈ th.raw.sections
      | .items kind tl =>
        ∃ items, (k, SecVal.items items) ∈ th.raw.sections ∧ List.Forall₂ (TypedAs kind) tl items ∧ Selects o lines k kind items := by
  refine ⟨readObjLines_ok o lines th h, ?_, ?_⟩
  · simp [THeader.sections]
  · intro k sv hm
    unfold THeader.sections at hm
    obtain ⟨kv, hkv, e⟩ := List.mem_map.mp hm
    obtain ⟨k', v'⟩ := kv
    simp only [Prod.mk.injEq] at e
    obtain ⟨e1, e2⟩ := e
    subst e1 e2
    cases v' with
    | text s => exact hkv
    | items items =>
      exact ⟨items, hkv, forall₂_typeItem _ items,
        selects_of_prov o lines th.kinds k' items (readObjLines_prov o lines th h k' items hkv)⟩

/-- … for a document given as text: `lasio.read(text, ignore_data=True, ignore_header_errors=…, mnemonic_case=…)` -/
theorem C08_file_text (o : ReadOpts) (text : Str) (th : THeader) (h : readObjHeader o text = .ok th) :
    readHeader o text = .ok th.raw ∧
    ∀ k sv, (k, sv) ∈ th.sections →
      match sv with
      | .text s => (k, SecVal.text s) ∈ th.raw.sections
      | .items kind tl =>
        ∃ items, (k, SecVal.items items) ∈ th.raw.sections ∧ List.Forall₂ (TypedAs kind) tl items ∧
          Selects o (splitLines text) k kind items := by
  unfold readObjHeader at h
  unfold readHeader
  split at h
  · cases h
  · rename_i hc
    rw [if_neg hc]
    obtain ⟨h1, _, h3⟩ := C08_file o _ th h
    exact ⟨h1, h3⟩

/-- the typed read fails exactly when the `Rd` read fails, with the same error -/
theorem C08_file_total (o : ReadOpts) (text : Str) :
    (readObjHeader o text).map THeader.raw = readHeader o text := readObjHeader_raw o text

/-! ## which kind a title selects -/

/-- a title without `_DATA` / `_PARAMETER` / `_DEFINITION`: the first letter decides, whatever the version -/
theorem C08_file_kind_plain (title v : Str) (h : isLas3Like title = false) :
    parserKind title v =
      if startsWith "~C".toList (upper title) then .curves
      else if startsWith "~P".toList (upper title) then .params else .metadata := by
  unfold parserKind
  simp [h]

/-- under version 3.0 a LAS-3 like title is read by the metadata rule, whatever its letter -/
theorem C08_file_kind_las3 (title : Str) (h : isLas3Like title = true) : parserKind title "3.0".toList = .metadata := by
  unfold parserKind
  simp [h]

/-- … and under any other version it is read by its letter -/
theorem C08_file_kind_not3 (title v : Str) (h : v ≠ "3.0".toList) :
    parserKind title v =
      if startsWith "~C".toList (upper title) then .curves
      else if startsWith "~P".toList (upper title) then .params else .metadata := by
  unfold parserKind
  have : (v == "3.0".toList) = false := by simpa using h
  rw [this]
  simp

/-! ## what the typed value is, in the vocabulary of C08 -/

/-- the mnemonic is exempt from conversion in a metadata section -/
def IsNumberString (name : Str) : Prop := upper name ∈ Generated.numberStrings.map String.toList

/-- **number iff**: the typed value of a stored item is a number (`int` / `float`) exactly when the section is a ~Parameter-kind section or
a metadata-kind section and the mnemonic is not API / UWI, and the stored text is a plain decimal literal (after the comma substitution
and `strip`) whose padding `int()` / `float()` accept and whose value is finite in binary64 -/
theorem C08_file_number_iff (kind : PKind) (t : TItem) (r : RItem) (h : TypedAs kind t r) :
    (∀ u, t.value ≠ .str u) ↔
      (kind = .params ∨ (kind = .metadata ∧ ¬ IsNumberString r.orig)) ∧
      ∃ l : Lit, l.WF ∧ l.render = litText r.value ∧ PadOK r.value ∧ FiniteDec l.denote.2.1 l.denote.2.2 := by
  obtain ⟨_, _, _, hv⟩ := h
  rw [hv]
  cases kind with
  | curves =>
    simp only [reduceCtorEq, false_and, or_self, false_and, iff_false, not_forall, not_not]
    exact ⟨r.value, rfl⟩
  | params =>
    simp only [true_or, true_and]
    exact C08_number_iff r.value
  | metadata =>
    by_cases hn : IsNumberString r.orig
    · simp only [C08_api_uwi r.orig r.value hn, reduceCtorEq, true_and, hn, not_true_eq_false, or_self, false_and, iff_false,
        not_forall, not_not]
      exact ⟨r.value, rfl⟩
    · simp only [C08_metadata_other r.orig r.value hn, reduceCtorEq, false_or, true_and, hn, not_false_eq_true]
      exact C08_number_iff r.value

/-- **converse**: a stored text that is NOT a numeric literal stays that text, verbatim — in every kind of section -/
theorem C08_file_verbatim (kind : PKind) (t : TItem) (r : RItem) (h : TypedAs kind t r) (hp : ¬ PlainDec (litText r.value)) :
    t.value = .str r.value := by
  obtain ⟨_, _, _, hv⟩ := h
  rw [hv]
  cases kind with
  | curves => rfl
  | params => exact C08_verbatim r.value hp
  | metadata =>
    show metadataValue r.orig r.value = _
    unfold metadataValue
    split
    · rfl
    · exact C08_verbatim r.value hp

/-- a typed value that is a `str` is the text `Rd` stored (the stripped field of the line), unchanged -/
theorem C08_file_str_verbatim (kind : PKind) (t : TItem) (r : RItem) (h : TypedAs kind t r) (u : Str) (hu : t.value = .str u) :
    u = r.value := by
  obtain ⟨_, _, _, hv⟩ := h
  rw [hv] at hu
  cases kind with
  | curves => cases hu; rfl
  | params => exact C08_str_is_verbatim r.value u hu
  | metadata =>
    change metadataValue r.orig r.value = _ at hu
    unfold metadataValue at hu
    split at hu
    · cases hu; rfl
    · exact C08_str_is_verbatim r.value u hu

/-- ~Curves-kind sections never hold a number; API / UWI of a metadata-kind section never become one -/
theorem C08_file_exempt (kind : PKind) (t : TItem) (r : RItem) (h : TypedAs kind t r)
    (he : kind = .curves ∨ (kind = .metadata ∧ IsNumberString r.orig)) : t.value = .str r.value := by
  obtain ⟨_, _, _, hv⟩ := h
  rw [hv]
  rcases he with rfl | ⟨rfl, hn⟩
  · rfl
  · exact C08_api_uwi r.orig r.value hn

/-! ## tightness, by evaluation -/

def ex (s : String) : Str := s.toList
def exOpts : ReadOpts := ⟨false, .preserve⟩

/-- the typed sections of a read, `none` when it fails -/
def typedOf (text : String) : Option (List (RKey × TSecVal)) := (readObjHeader exOpts (ex text)).toOption.map THeader.sections

def exDoc : String :=
  "~Version\nVERS. 2.0 : v\nWRAP. NO : w\n~Well\nAPI. 12 : a\nuwi. 7 : u\nX. 12 : b\n~Curve\nDEPT.M 12 : d\n~Parameter\nAPI. 12 : a\nY. 1,5 : c\n~Tops\nAPI. 12 : t\nZ. 12 : z\n"

/-- **`API` in ~Well stays text, `API` in ~Parameter becomes a number; a ~Curves value never becomes a number; a custom section follows the
METADATA rule (API exempt, other mnemonics converted); `1,5` is 1.5** -/
theorem C08_file_example :
    typedOf exDoc = some [
      (ex "Version", .items .metadata [⟨ex "VERS", [], .flt false 20 (-1), ex "v"⟩, ⟨ex "WRAP", [], .str (ex "NO"), ex "w"⟩]),
      (ex "Well", .items .metadata [⟨ex "API", [], .str (ex "12"), ex "a"⟩, ⟨ex "uwi", [], .str (ex "7"), ex "u"⟩,
                                   ⟨ex "X", [], .int 12, ex "b"⟩]),
      (ex "Curves", .items .curves [⟨ex "DEPT", ex "M", .str (ex "12"), ex "d"⟩]),
      (ex "Parameter", .items .params [⟨ex "API", [], .int 12, ex "a"⟩, ⟨ex "Y", [], .flt false 15 (-1), ex "c"⟩]),
      (ex "Tops", .items .metadata [⟨ex "API", [], .str (ex "12"), ex "t"⟩, ⟨ex "Z", [], .int 12, ex "z"⟩])] := by
  decide +kernel

/-- **a custom title starting with `~C` / `~P` IS a curves / params section** (parsed by that rule AND stored under "Curves" / "Parameter") -/
theorem C08_file_example_custom_cp :
    typedOf "~V\nVERS. 2.0 : v\n~Cement\nQ. 12 : q\n~Perfs\nAPI. 12 : p\n" = some [
      (ex "Version", .items .metadata [⟨ex "VERS", [], .flt false 20 (-1), ex "v"⟩]),
      (ex "Curves", .items .curves [⟨ex "Q", [], .str (ex "12"), ex "q"⟩]),
      (ex "Parameter", .items .params [⟨ex "API", [], .int 12, ex "p"⟩])] := by
  decide +kernel

/-- **the version matters for LAS-3 like titles only**: `~Perf_Parameter` is a params section under 2.0 (API converted) and a metadata
section under 3.0 (API kept) -/
theorem C08_file_example_las3 :
    typedOf "~V\nVERS. 2.0 : v\n~Perf_Parameter\nAPI. 12 : a\n" = some [
      (ex "Version", .items .metadata [⟨ex "VERS", [], .flt false 20 (-1), ex "v"⟩]),
      (ex "Perf_Parameter", .items .params [⟨ex "API", [], .int 12, ex "a"⟩])] ∧
    typedOf "~V\nVERS. 3.0 : v\n~Perf_Parameter\nAPI. 12 : a\n" = some [
      (ex "Version", .items .metadata [⟨ex "VERS", [], .flt false 30 (-1), ex "v"⟩]),
      (ex "Perf_Parameter", .items .metadata [⟨ex "API", [], .str (ex "12"), ex "a"⟩])] := by
  decide +kernel

/-- **the version is the provisional one at THAT moment**: a ~Version section after `~Perf_Parameter` comes too late (the section was read
under the default 2.0) -/
theorem C08_file_example_order :
    typedOf "~Perf_Parameter\nAPI. 12 : a\n~V\nVERS. 3.0 : v\n" = some [
      (ex "Version", .items .metadata [⟨ex "VERS", [], .flt false 30 (-1), ex "v"⟩]),
      (ex "Perf_Parameter", .items .params [⟨ex "API", [], .int 12, ex "a"⟩])] := by
  decide +kernel

/-- non-vacuity of `C08_file`: the example document is read successfully, so the theorem speaks about it -/
example : ∃ th, readObjLines exOpts (splitLines (ex exDoc)) = .ok th ∧ th.sections.length = 5 := by
  have h : (readObjLines exOpts (splitLines (ex exDoc))).toOption.map (fun th => th.sections.length) = some 5 := by decide +kernel
  cases hr : readObjLines exOpts (splitLines (ex exDoc)) with
  | error e => rw [hr] at h; cases h
  | ok th =>
    rw [hr] at h
    exact ⟨th, rfl, by simpa [Except.toOption] using h⟩

end Lasio.Ro

#print axioms Lasio.Ro.C08_file
#print axioms Lasio.Ro.C08_file_text
#print axioms Lasio.Ro.C08_file_total
#print axioms Lasio.Ro.C08_file_kind_plain
#print axioms Lasio.Ro.C08_file_kind_las3
#print axioms Lasio.Ro.C08_file_kind_not3
#print axioms Lasio.Ro.C08_file_number_iff
#print axioms Lasio.Ro.C08_file_verbatim
#print axioms Lasio.Ro.C08_file_str_verbatim
#print axioms Lasio.Ro.C08_file_exempt
#print axioms Lasio.Ro.C08_file_example
#print axioms Lasio.Ro.C08_file_example_custom_cp
#print axioms Lasio.Ro.C08_file_example_las3
#print axioms Lasio.Ro.C08_file_example_order
#print axioms Lasio.Ro.readObjLines_prov
#print axioms Lasio.Ro.mkParser_kind
