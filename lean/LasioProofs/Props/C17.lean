import LasioModel.Copy
import LasioProofs.Lemmas.CopyLemmas
/-
C17 — a pickle round trip (protocols 0..5) or `copy.deepcopy` of an item, a section or a LASFile reproduces it:
same original and session mnemonics (stale or odd ones included), unit, value, description, data.

Model: `LasioModel/Copy.lean` (the call patterns of the CPython runtime were determined experimentally and are
re-checked by harness/props/c17.py on every run).  Two defects were found by this property and repaired in lasio;
their old behaviour is kept here as `reduceItemOld` / `rebuildSectionOld` with counter-example theorems.
Independence of the copy (no shared mutable state) is a statement about object identity, which a functional model
cannot express; it is covered by the oracle of the harness (mutate the copy, re-dump the original).
-/
namespace Lasio

/-! ### 1. items -/

/-- header fields of EVERY item survive, whatever its session mnemonic looks like (the state dict restores it
verbatim, bypassing `__setattr__`) -/
theorem C17_item_fields (it : Item) : copyItem it = it := copyItem_id it

/-- an item object (fields + data + class) is reproduced; for a `CurveItem` the `data` attribute must not be `None`
(`CurveItem.__init__` turns `None` into an empty array) -/
theorem C17_item (o : PyItem) (h : o.isCurve = true → o.data ≠ none) : rebuildItem (reduceItem o) = o := by
  obtain ⟨it, data, isCurve⟩ := o
  cases it
  cases isCurve with
  | false => rfl
  | true =>
    cases data with
    | none => exact absurd rfl (h rfl)
    | some d => rfl

/-- the hypothesis of `C17_item` is needed -/
theorem C17_counterexample_curve_data_none :
    rebuildItem (reduceItem ⟨mkItem "A".toList [] [] [], none, true⟩) =
      ⟨mkItem "A".toList [] [] [], some emptyArrayTag, true⟩ := by
  rfl

theorem C17_items (l : List PyItem) (h : ∀ o ∈ l, o.isCurve = true → o.data ≠ none) : rebuildObjs l = l := by
  unfold rebuildObjs
  induction l with
  | nil => rfl
  | cons a as ih =>
    rw [List.map_cons, C17_item a (h a (by simp)), ih (fun o ho => h o (by simp [ho]))]

/-- the ORIGINAL defect (R12): `__reduce__` passed the session mnemonic to the constructor, so the second of two
curves named `A` (session `A:2`) came back with the ORIGINAL mnemonic `A:2` -/
theorem C17_counterexample_session_reduce :
    (rebuildItem (reduceItemOld ⟨⟨"A".toList, "A:2".toList, [], [], []⟩, none, false⟩)).it =
      ⟨"A:2".toList, "A:2".toList, [], [], []⟩ ∧
    (rebuildItem (reduceItem ⟨⟨"A".toList, "A:2".toList, [], [], []⟩, none, false⟩)).it =
      ⟨"A".toList, "A:2".toList, [], [], []⟩ := by
  constructor <;> rfl

/-- … while an item whose session mnemonic equals its original one was not affected (the only case the test suite
sampled) -/
theorem C17_old_reduce_ok_without_suffix (o : PyItem) (h : o.it.session = o.it.orig) (hu : useful o.it.orig = o.it.orig)
    (hd : o.isCurve = true → o.data ≠ none) : rebuildItem (reduceItemOld o) = o := by
  obtain ⟨it, data, isCurve⟩ := o
  obtain ⟨orig, session, unit, value, descr⟩ := it
  simp only [] at h hu
  subst h
  have e : rebuildItem (reduceItemOld ⟨⟨session, session, unit, value, descr⟩, data, isCurve⟩) =
      ⟨⟨session, useful session, unit, value, descr⟩,
        if isCurve then some (data.getD emptyArrayTag) else data, isCurve⟩ := rfl
  rw [e, hu]
  cases isCurve with
  | false => rfl
  | true =>
    cases data with
    | none => exact absurd rfl (hd rfl)
    | some d => rfl

/-! ### 2. sections: every rebuild path, no hypothesis -/

theorem C17_section_path (p : RebuildPath) (s : Section) : rebuildSection p s = s := by
  cases s
  cases p <;> simp [rebuildSection, cpSetState, cpListExtend, cpNewObj, cpClassCall, map_copyItem]

/-- in particular a section with stale suffixes (after a deletion) keeps them -/
def staleSec : Section :=
  Section.run ⟨[], false⟩
    [.append "A".toList [] [] [], .append "A".toList [] [] [], .append "A".toList [] [] [], .pop 0]

theorem C17_section_stale :
    staleSec.keys = ["A:2".toList, "A:3".toList] ∧ ∀ p, (rebuildSection p staleSec).keys = staleSec.keys :=
  ⟨by decide, fun p => by rw [C17_section_path]⟩

/-- the whole LASFile: every section is reproduced, plain attributes are copied as they are -/
theorem C17_las (p : RebuildPath) (l : CopyLas) : rebuildLas p l = l := by
  obtain ⟨secs, other, attrs⟩ := l
  unfold rebuildLas
  simp only []
  congr 1
  induction secs with
  | nil => rfl
  | cons a as ih =>
    rw [List.map_cons, ih, C17_section_path]

/-! ### 3. the old `copy.deepcopy` path (before `SectionItems.__deepcopy__` was added) -/

/-- the defect found by this property: `copy._reconstruct` rebuilt the list with lasio's `append`, which re-assigned
the suffixes of the copy: session names `A:2`, `A:3` became `A:1`, `A:2` -/
theorem C17_counterexample_deepcopy_old :
    staleSec.keys = ["A:2".toList, "A:3".toList] ∧
    (rebuildSectionOld staleSec).keys = ["A:1".toList, "A:2".toList] ∧
    (rebuildSectionOld staleSec).origs = staleSec.origs ∧
    ¬ Canonical staleSec := by
  refine ⟨by decide, by decide, by decide, ?_⟩
  intro h
  have := h "A".toList
  revert this
  decide

/-- the old path was the identity exactly on the hypothesis `Canonical` (re-running `assign_duplicate_suffixes` for
any mnemonic changes nothing) -/
theorem C17_deepcopy_old_canonical (s : Section) (h : Canonical s) : rebuildSectionOld s = s := by
  obtain ⟨l, tr⟩ := s
  unfold rebuildSectionOld cpSetState cpNewObj
  simp only [map_copyItem]
  exact foldl_append_canonical tr l h

/-- `Canonical` is inherited by prefixes (the sections `append` sees while the copy is rebuilt) -/
theorem C17_canonical_prefix (tr : Bool) (l1 l2 : List Item) (h : Canonical ⟨l1 ++ l2, tr⟩) : Canonical ⟨l1, tr⟩ :=
  canonical_prefix tr l1 l2 h

/-- `Canonical` holds for the empty section and is preserved by `append` and `insert` of ANY item (so it holds for
every section the reader builds and after every history of additions); deletions break it
(`C17_counterexample_deepcopy_old`: `staleSec` is three appends and one `pop`) -/
theorem C17_canonical_empty (tr : Bool) : Canonical ⟨[], tr⟩ := by
  intro t
  unfold Section.assignSuffixes
  simp [countGroup]

theorem C17_canonical_append (s : Section) (it : Item) (h : Canonical s) : Canonical (s.append it) := by
  obtain ⟨l, tr⟩ := s
  have := canonical_insert_assign tr l [] it (by simpa using h)
  unfold Section.append
  simpa using this

theorem C17_canonical_insert (s : Section) (i : Int) (it : Item) (h : Canonical s) : Canonical (s.insert i it) := by
  obtain ⟨l, tr⟩ := s
  unfold Section.insert insertAt
  exact canonical_insert_assign tr _ _ it (by simpa using h)

/-- a section built by appending items one after the other (what the reader does) is canonical, hence even the old
`deepcopy` path reproduced it -/
theorem C17_canonical_build (tr : Bool) (l : List Item) : Canonical (l.foldl Section.append ⟨[], tr⟩) := by
  have : ∀ s : Section, Canonical s → Canonical (l.foldl Section.append s) := by
    induction l with
    | nil => exact fun s h => h
    | cons a as ih => exact fun s h => ih _ (C17_canonical_append s a h)
  exact this _ (C17_canonical_empty tr)

/-! ### 4. non-vacuity -/

def exDup : Section := Section.run ⟨[], true⟩
  [.append "A".toList "u".toList "1".toList "d".toList, .append "a".toList [] [] [], .append [] [] [] []]

example :
    exDup.keys = ["A:1".toList, "a:2".toList, "UNKNOWN".toList] ∧
    (∀ p, rebuildSection p exDup = exDup) ∧
    rebuildSectionOld exDup = exDup ∧
    rebuildItem (reduceItem ⟨⟨"A".toList, "zz:9".toList, [], [], []⟩, some "f8:[1,2]".toList, true⟩) =
      ⟨⟨"A".toList, "zz:9".toList, [], [], []⟩, some "f8:[1,2]".toList, true⟩ := by
  refine ⟨by decide, fun p => C17_section_path p _, by decide, by rfl⟩

#print axioms C17_item_fields
#print axioms C17_item
#print axioms C17_counterexample_curve_data_none
#print axioms C17_items
#print axioms C17_counterexample_session_reduce
#print axioms C17_old_reduce_ok_without_suffix
#print axioms C17_section_path
#print axioms C17_section_stale
#print axioms C17_las
#print axioms C17_counterexample_deepcopy_old
#print axioms C17_deepcopy_old_canonical
#print axioms C17_canonical_prefix
#print axioms C17_canonical_empty
#print axioms C17_canonical_append
#print axioms C17_canonical_insert
#print axioms C17_canonical_build

end Lasio
