import LasioProofs.Lemmas.FileDlm
import LasioProofs.Props.C11File
import LasioProofs.Props.C12File
/-
The whole-file theorems WITH a DLM item in the written ~Version section.

`C03_file` (readLines form), `C01_file*`, `C11_file_*`, `C12_file` assume `hdlm`: NO item of the written ~Version section is called DLM.
But `defaults.get_default_items()` gives every `lasio.LASFile()` the items VERS, WRAP and `DLM . SPACE : Column Data Section Delimiter`,
so every file written from such an object carries that line.  Here `hdlm` is replaced by

  `Fd.DlmOK o version wrap las`   when exactly one item of the written ~Version section is DLM for the reader, its value text is SPACE.

(Several DLM items make `"DLM" in section` False for the reader, whose session mnemonics are `DLM:1`, `DLM:2`: they are ignored like
none — `C01_file_dlm_two_items_ignored`; `Fd.dlmOK_of_single` is the form "at most one, of value SPACE"; "no DLM item" is the special
case `Fd.dlmOK_of_none` / `Fd.FileConf.toD`, so every theorem below contains its `hdlm` original.)  `Fd.FileConfD` = `Cy.FileConf`
with `DlmOK` for `hdlm`.  `Rd.finishRead` accepts the names SPACE / COMMA / TAB only, and `Tf.dlmOf (some "SPACE") = .space`: the
delimiter handed to `Dt.readData` is `.space` with and without the item, so the data-window theorems of C01 apply unchanged.

  `C03_file_dlm`            the five sections as `C03_file` states them, through `processSections` and through `readLines`, and the
                            steering values in full: `dlm = some "SPACE"` when the item is there (`Fr.steerVal … "DLM"`), `none` otherwise
  `C01_file_dlm`, `C01_file_dlm_wrapYes`, `C01_file_dlm_unwrapped`   = `C01_file*` (`C01_file_samples` needs no restating: it does
                            not mention the header)
  `C11_file_fixed_point_dlm`, `C11_file_iterate_dlm`   second re-read = first re-read (sections AND all four steering values), any
                            number of cycles; `lasOfRead` keeps the DLM item with the value text that was read
  `C12_file_dlm`            two configurations of one object: same sections apart from VERS / WRAP, same curves
Forced: `C01_file_dlm_counterexample_comma` (DLM COMMA over blank-separated data: the normal engine splits at commas — the known
finding `dlm-not-space`), `C01_file_dlm_counterexample_name` (a value that is no delimiter name: `read` raises KeyError).
NOT proved: files whose data ARE comma- or TAB-separated (lasio's writer never produces them).
-/
namespace Lasio.Fd
open Lasio Lasio.Wr Lasio.Cy

/-! ## C03 -/

/-- **`C03_file` with a DLM item.**  The header lines `write` emits, read by the whole-file reader: every section as `C03_file` says
(`firstRead`), and the steering values VERS = the version, WRAP / NULL / DLM = the value text of the single written item of that
name — so `dlm = some "SPACE"` for an object with the default DLM item. -/
theorem C03_file_dlm (o : Rd.ReadOpts) (version : String) (wrap : Option Bool) (w : Nat) (las las' : WLas)
    (lines : List Str) (h : headerLines version wrap w las = .ok (lines, las')) (hc : FileConfD o version wrap las) :
    (∃ st, Rd.processSections o lines (Rd.findSections lines) Rd.RState.init = .ok st ∧
      st.sections.filterMap (fun kv => kv.2.map fun v => (kv.1, v)) = firstRead o version wrap las ∧
      st.steer = fileSteerD o version wrap las) ∧
    Rd.readLines o lines = .ok ⟨firstRead o version wrap las, fileSteerD o version wrap las, []⟩ ∧
    (fileSteerD o version wrap las).vers = some version.toList ∧
    (∀ x, (RH.versionCopy version wrap las).filter (Cy.inGroup o "DLM".toList) = [x] →
      (fileSteerD o version wrap las).dlm = some "SPACE".toList) ∧
    ((∀ it ∈ RH.versionCopy version wrap las, upper it.orig ≠ "DLM".toList) → (fileSteerD o version wrap las).dlm = none) := by
  refine ⟨?_, readLines_header_dlm o version wrap w las las' lines h hc, rfl, ?_, ?_⟩
  · obtain ⟨secs5, st, hl, hw, _, hst, hsec, _, _, _, hsteer⟩ := header_state o version wrap w las las' lines h hc
    have := Rd.C05_read_rendered o [] secs5 Rd.RState.init (by simp) hw
    simp only [List.nil_append, List.length_nil] at this
    exact ⟨st, by rw [hl, this, hst], hsec, hsteer⟩
  · intro x hx
    have hv : Fr.steerVal o "DLM" (RH.versionCopy version wrap las) = some x.value.text := by
      unfold Fr.steerVal; rw [hx]
    show Fr.steerVal o "DLM" (RH.versionCopy version wrap las) = _
    rw [hv, hc.hdlm _ hv]
  · intro hn
    exact Fr.steerVal_dlm_none o _ hn

/-! ## C01 -/

/-- **`C01_file` with a DLM item** -/
theorem C01_file_dlm (opts : Tf.Opts) (nullOf : Option Str → Option Str) (ft : Dt.FloatTable)
    (version : String) (wrap : Option Bool) (w : Nat) (las las' : WLas)
    (hlines : List Str) (hH : headerLines version wrap w las = .ok (hlines, las'))
    (hc : FileConfD opts.hdr version wrap las)
    {cfg : Dw.DataCfg} {null : Str} {mn : List Str} {rows : List (List Dw.F64)} {c : Dw.RowCfg} {n : Nat} {hdr : Str}
    {body : List Str} (wd : Rt.Written cfg null mn rows c n hdr body) (hn : null.head? ≠ some '~')
    (a : Char) (r : Str) (hd : cfg.dataSectionHeader = '~' :: a :: r) (ha : upperC a = 'A') :
    Tf.readFull opts nullOf ft (Fr.fileDoc hlines hdr body) = .ok
      ⟨firstRead opts.hdr version wrap las, fileSteerD opts.hdr version wrap las,
       [⟨hlines.length, hlines.length + body.length,
         Dt.readData opts.dat (Fr.fileDoc hlines hdr body) hlines.length (hlines.length + body.length)
           (Tf.dtSteer nullOf (fileSteerD opts.hdr version wrap las)) las.curves.length ft⟩]⟩ ∧
    (Tf.dtSteer nullOf (fileSteerD opts.hdr version wrap las)).delimiter = .space := by
  have hl := wd.lines
  unfold Dw.dataLines at hl
  rw [wd.rowCfg] at hl
  simp only at hl
  split at hl
  · rename_i h0 b0 hh hb
    simp only [Option.some.injEq, List.cons.injEq] at hl
    obtain ⟨rfl, rfl⟩ := hl
    obtain ⟨hT, hTd⟩ := Fr.dataTitle_ok c null _ _ _ _ _ _ hh a r hd ha
    exact ⟨readFull_file_dlm opts nullOf ft version wrap w las las' hlines hH hc _ _ hT hTd (Fr.body_notitle wd hn),
      (dtSteer_file_dlm nullOf opts.hdr version wrap las hc.hdlm).1⟩
  · cases hl

theorem C01_file_dlm_wrapYes (opts : Tf.Opts) (nullOf : Option Str → Option Str) (ft : Dt.FloatTable)
    (version : String) (wrap : Option Bool) (w : Nat) (las las' : WLas)
    (hlines : List Str) (hH : headerLines version wrap w las = .ok (hlines, las'))
    (hc : FileConfD opts.hdr version wrap las)
    {cfg : Dw.DataCfg} {null : Str} {mn : List Str} {rows : List (List Dw.F64)} {c : Dw.RowCfg} {n : Nat} {hdr : Str}
    {body : List Str} (wd : Rt.Written cfg null mn rows c n hdr body) (hn : null.head? ≠ some '~')
    (a : Char) (r : Str) (hd : cfg.dataSectionHeader = '~' :: a :: r) (ha : upperC a = 'A')
    (hwy : Fr.steerVal opts.hdr "WRAP" (RH.versionCopy version wrap las) = some Dt.yesTxt)
    (hcur : las.curves.length = n) :
    Tf.readFull opts nullOf ft (Fr.fileDoc hlines hdr body) = .ok
      ⟨firstRead opts.hdr version wrap las, fileSteerD opts.hdr version wrap las,
       [⟨hlines.length, hlines.length + body.length,
         .ok (.normal, Dt.assignCurves n (Dt.applyNull (opts.dat.nullPolicy == .strict)
           (nullOf (Fr.steerVal opts.hdr "NULL" (standardizeItems las.well)))
           (Dt.matrixColumns ft n (Rt.tokenRows c null rows))))⟩]⟩ := by
  rw [(C01_file_dlm opts nullOf ft version wrap w las las' hlines hH hc wd hn a r hd ha).1, hcur]
  obtain ⟨h1, h2, h3⟩ := dtSteer_file_dlm nullOf opts.hdr version wrap las hc.hdlm
  obtain ⟨h4, h5⟩ := h3 _ hwy
  obtain ⟨e, p⟩ := opts.dat
  rw [Fr.readData_file_wrapYes wd hlines e p _ ft h1 h4 h5, h2]

theorem C01_file_dlm_unwrapped (opts : Tf.Opts) (nullOf : Option Str → Option Str) (ft : Dt.FloatTable)
    (version : String) (wrap : Option Bool) (w : Nat) (las las' : WLas)
    (hlines : List Str) (hH : headerLines version wrap w las = .ok (hlines, las'))
    (hc : FileConfD opts.hdr version wrap las)
    {cfg : Dw.DataCfg} {null : Str} {mn : List Str} {rows : List (List Dw.F64)} {c : Dw.RowCfg} {n : Nat} {hdr : Str}
    {body : List Str} (wd : Rt.Written cfg null mn rows c n hdr body) (hn : null.head? ≠ some '~')
    (a : Char) (r : Str) (hd : cfg.dataSectionHeader = '~' :: a :: r) (ha : upperC a = 'A')
    (hwrap : cfg.wrap = false) (t : Str)
    (hwt : Fr.steerVal opts.hdr "WRAP" (RH.versionCopy version wrap las) = some t) (hne : t ≠ Dt.yesTxt) :
    ∃ res, Tf.readFull opts nullOf ft (Fr.fileDoc hlines hdr body) = .ok
      ⟨firstRead opts.hdr version wrap las, fileSteerD opts.hdr version wrap las,
       [⟨hlines.length, hlines.length + body.length, res⟩]⟩ ∧
      res.map Prod.snd = .ok (Dt.assignCurves las.curves.length (Dt.applyNull (opts.dat.nullPolicy == .strict)
        (nullOf (Fr.steerVal opts.hdr "NULL" (standardizeItems las.well)))
        (Dt.matrixColumns ft n (Rt.tokenRows c null rows)))) := by
  refine ⟨_, (C01_file_dlm opts nullOf ft version wrap w las las' hlines hH hc wd hn a r hd ha).1, ?_⟩
  obtain ⟨h1, h2, h3⟩ := dtSteer_file_dlm nullOf opts.hdr version wrap las hc.hdlm
  obtain ⟨_, h5⟩ := h3 _ hwt
  obtain ⟨e, p⟩ := opts.dat
  rw [Fr.readData_file_unwrapped wd hwrap hlines e p _ _ ft h1 (by rw [h5]; exact hne), h2]

/-! ## C11 -/

theorem fileSteerD_of_firstRead (o : Rd.ReadOpts) (version : String) (wrap : Option Bool) (las1 las : WLas)
    (h : firstRead o version wrap las1 = firstRead o version wrap las) :
    fileSteerD o version wrap las1 = fileSteerD o version wrap las := by
  simp only [firstRead, List.cons.injEq, Prod.mk.injEq, Rd.SecVal.items.injEq, true_and] at h
  unfold fileSteerD
  rw [steerVal_of_map o "WRAP" _ _ h.1, steerVal_of_map o "DLM" _ _ h.1, steerVal_of_map o "NULL" _ _ h.2.1]

/-- **`C11_file_fixed_point` with a DLM item**: second re-read = first re-read — the sections and ALL FOUR steering values -/
theorem C11_file_fixed_point_dlm (o : Rd.ReadOpts) (rv : Str → WVal) (hrv : Retype rv) (version : String)
    (wrap : Option Bool) (w w2 : Nat) (las las' : WLas) (lines : List Str)
    (h : headerLines version wrap w las = .ok (lines, las'))
    (hc : FileConfD o version wrap las) (hx : CycleConf o version wrap las) (hsp : SpeltConf rv version wrap las) :
    ∃ hd, Rd.readLines o lines = .ok hd ∧ hd.sections = firstRead o version wrap las ∧
      ∃ lines2 las2', headerLines version wrap w2 (lasOfRead rv o hd.sections) = .ok (lines2, las2') ∧
        ∃ hd2, Rd.readLines o lines2 = .ok hd2 ∧ hd2.sections = hd.sections ∧ hd2.steer = hd.steer ∧ hd2.data = hd.data := by
  have hver := headerLines_version version wrap w las las' lines h
  have hr := readLines_header_dlm o version wrap w las las' lines h hc
  obtain ⟨hc1, _, _, hfix, htot⟩ := cycle_core_dlm o hrv version wrap las hver hc hx hsp
  obtain ⟨lines2, las2', h2⟩ := htot w2
  have hr2 := readLines_header_dlm o version wrap w2 _ las2' lines2 h2 hc1
  exact ⟨_, hr, rfl, lines2, las2', h2, _, hr2, hfix, fileSteerD_of_firstRead o version wrap _ las hfix, rfl⟩

/-- **`C11_file_iterate` with a DLM item** -/
theorem C11_file_iterate_dlm (o : Rd.ReadOpts) (rv : Str → WVal) (hrv : Retype rv) (version : String)
    (wrap : Option Bool) (las : WLas) (hver : version = "1.2" ∨ version = "2.0")
    (hc : FileConfD o version wrap las) (hx : CycleConf o version wrap las) (hsp : SpeltConf rv version wrap las)
    (ws : List Nat) :
    C11.recycleAll rv o version wrap ws (firstRead o version wrap las) = some (firstRead o version wrap las) := by
  have hstep : ∀ w2, C11.recycle rv o version wrap w2 (firstRead o version wrap las) = some (firstRead o version wrap las) := by
    intro w2
    obtain ⟨hc1, _, _, hfix, htot⟩ := cycle_core_dlm o hrv version wrap las hver hc hx hsp
    obtain ⟨lines2, las2', h2⟩ := htot w2
    have hr2 := readLines_header_dlm o version wrap w2 _ las2' lines2 h2 hc1
    unfold C11.recycle C11.reread
    rw [h2]
    simp only [hr2, hfix]
  induction ws with
  | nil => rfl
  | cons w ws ih => simp only [C11.recycleAll, hstep w, Option.bind_some, ih]

/-! ## C12 -/

/-- everything `C01_file_dlm` asks of one configuration -/
structure FileWrittenD (opts : Tf.Opts) (las : WLas) (null : Str) (rows : List (List Dw.F64)) (n : Nat)
    (version : String) (wrap : Option Bool) (w : Nat) (cfg : Dw.DataCfg) (mn : List Str) (c : Dw.RowCfg)
    (hlines : List Str) (hdr : Str) (body : List Str) : Prop where
  header : ∃ las', headerLines version wrap w las = .ok (hlines, las')
  conf : FileConfD opts.hdr version wrap las
  data : Rt.Written cfg null mn rows c n hdr body
  title : ∃ a r, cfg.dataSectionHeader = '~' :: a :: r ∧ upperC a = 'A'
  fit : Fc.Fit opts.hdr version wrap las cfg

/-- **`C12_file` with a DLM item** -/
theorem C12_file_dlm (opts : Tf.Opts) (nullOf : Option Str → Option Str) (ft : Dt.FloatTable)
    (las : WLas) (null : Str) (rows : List (List Dw.F64)) (n : Nat)
    {v1 v2 : String} {wr1 wr2 : Option Bool} {w1 w2 : Nat} {cfg1 cfg2 : Dw.DataCfg} {mn1 mn2 : List Str} {c1 c2 : Dw.RowCfg}
    {hl1 hl2 : List Str} {hdr1 hdr2 : Str} {body1 body2 : List Str}
    (F1 : FileWrittenD opts las null rows n v1 wr1 w1 cfg1 mn1 c1 hl1 hdr1 body1)
    (F2 : FileWrittenD opts las null rows n v2 wr2 w2 cfg2 mn2 c2 hl2 hdr2 body2)
    (hp : Rt.SamePrec c1 c2 n) (hn : null.head? ≠ some '~') (hcur : las.curves.length = n)
    (hs : Fc.SessionsSane opts.hdr las) :
    ∃ res1 res2,
      Tf.readFull opts nullOf ft (Fr.fileDoc hl1 hdr1 body1) = .ok
        ⟨(Rd.kVersion, .items ((RH.versionCopy v1 wr1 las).map (rdExpected opts.hdr))) :: Fc.commonSections opts.hdr las,
         fileSteerD opts.hdr v1 wr1 las, [⟨hl1.length, hl1.length + body1.length, res1⟩]⟩ ∧
      Tf.readFull opts nullOf ft (Fr.fileDoc hl2 hdr2 body2) = .ok
        ⟨(Rd.kVersion, .items ((RH.versionCopy v2 wr2 las).map (rdExpected opts.hdr))) :: Fc.commonSections opts.hdr las,
         fileSteerD opts.hdr v2 wr2 las, [⟨hl2.length, hl2.length + body2.length, res2⟩]⟩ ∧
      ((RH.versionCopy v1 wr1 las).map (rdExpected opts.hdr)).filter (Fc.notVW opts.hdr) =
        ((RH.versionCopy v2 wr2 las).map (rdExpected opts.hdr)).filter (Fc.notVW opts.hdr) ∧
      res1.map Prod.snd = res2.map Prod.snd ∧
      res1.map Prod.snd = .ok (Dt.assignCurves n (Dt.applyNull (opts.dat.nullPolicy == .strict)
        (nullOf (Fr.steerVal opts.hdr "NULL" (standardizeItems las.well)))
        (Dt.matrixColumns ft n (Rt.tokenRows c1 null rows)))) := by
  have one : ∀ {v : String} {wr : Option Bool} {w : Nat} {cfg : Dw.DataCfg} {mn : List Str} {c : Dw.RowCfg} {hl : List Str}
      {hdr : Str} {body : List Str} (F : FileWrittenD opts las null rows n v wr w cfg mn c hl hdr body),
      ∃ res, Tf.readFull opts nullOf ft (Fr.fileDoc hl hdr body) = .ok
        ⟨firstRead opts.hdr v wr las, fileSteerD opts.hdr v wr las, [⟨hl.length, hl.length + body.length, res⟩]⟩ ∧
        res.map Prod.snd = .ok (Dt.assignCurves n (Dt.applyNull (opts.dat.nullPolicy == .strict)
          (nullOf (Fr.steerVal opts.hdr "NULL" (standardizeItems las.well)))
          (Dt.matrixColumns ft n (Rt.tokenRows c null rows)))) := by
    intro v wr w cfg mn c hl hdr body F
    obtain ⟨las', hH⟩ := F.header
    obtain ⟨a, r, hd, ha⟩ := F.title
    rcases F.fit with hy | ⟨hwrap, t, ht, hne⟩
    · exact ⟨_, C01_file_dlm_wrapYes opts nullOf ft v wr w las las' hl hH F.conf F.data hn a r hd ha hy hcur, rfl⟩
    · obtain ⟨res, h1, h2⟩ := C01_file_dlm_unwrapped opts nullOf ft v wr w las las' hl hH F.conf F.data hn a r hd ha
        hwrap t ht hne
      exact ⟨res, h1, by rw [h2, hcur]⟩
  obtain ⟨res1, e1, q1⟩ := one F1
  obtain ⟨res2, e2, q2⟩ := one F2
  refine ⟨res1, res2, e1, e2, Fc.version_items_independent opts.hdr v1 v2 wr1 wr2 las hs, ?_, q1⟩
  rw [q1, q2, Rt.tokenRows_samePrec c1 c2 null rows n F1.data.rect hp]

/-! ## non-vacuity: the DEFAULT ~Version section of `lasio.LASFile()` (VERS, WRAP, DLM = SPACE) with the data of C01File -/

open Fr in
def dVers : WItem := mkWItem (fs "VERS") [] (.num (fs "2.0") false) (fs "CWLS log ASCII Standard -VERSION 2.0")
open Fr in
def dWrap : WItem := mkWItem (fs "WRAP") [] (.str (fs "NO")) (fs "One line per depth step")
open Fr in
def dDlm (v : String) : WItem := mkWItem (fs "DLM") [] (.str (fs v)) (fs "Column Data Section Delimiter")
open Fr in
/-- `defaults.get_default_items()["Version"]` (+ the DLM items `dl` instead of the default one), `mnemonic_transforms = False` -/
def dLasOf (dl : List WItem) : WLas := ⟨[dVers, dWrap] ++ dl, false, [fStrt, fStop, fStep, fNullIt], [fDept, fGr], [], []⟩
def dLas : WLas := dLasOf [dDlm "SPACE"]

theorem dConfV (it : WItem) (h : it = dVers ∨ it = dWrap ∨ it = dDlm "SPACE") : TextConf .version it := by
  rcases h with rfl | rfl | rfl <;>
  exact ⟨by decide, by decide, by decide, by decide, by decide, by decide, by decide, by decide, by decide,
    by decide, by decide, (fun h => nomatch h), by decide, by decide⟩

open Fr in
theorem dFileConf : FileConfD fOpts.hdr "2.0" (some false) dLas := by
  have hvc : ∀ it ∈ dLas.version, TextConf .version it := by
    intro it hit
    have : it = dVers ∨ it = dWrap ∨ it = dDlm "SPACE" := by simpa [dLas, dLasOf] using hit
    exact dConfV it this
  have hvm : ∀ it ∈ dLas.version, it.orig.head? ≠ some '#' ∧ it.orig.head? ≠ some '~' := by decide
  obtain ⟨hcv, hmv⟩ := C03_versionCopy_conf "2.0" (some false) dLas hvc hvm
  refine ⟨hcv, ?_, ?_, ?_, hmv, by decide, by decide, by decide, ?_,
    (show ∀ l ∈ splitlines dLas.other, (strip l).head? ≠ some '~' by decide +kernel), ?_⟩
  · intro it hit
    have : it = fStrt ∨ it = fStop ∨ it = fStep ∨ it = fNullIt := by
      simpa [dLas, dLasOf, standardizeItems, fNullIt, fStrt, fStop, fStep, fs, standardizeValue, mkWItem, WVal.num,
        WVal.str] using hit
    rcases this with h | h | h | h
    · exact fConf _ _ (Or.inr (Or.inr (Or.inr (Or.inr (Or.inl h)))))
    · exact fConf _ _ (Or.inr (Or.inr (Or.inr (Or.inr (Or.inr (Or.inl h))))))
    · exact fConf _ _ (Or.inr (Or.inr (Or.inr (Or.inr (Or.inr (Or.inr h))))))
    · exact fConf _ _ (Or.inr (Or.inl h))
  · intro it hit
    have : it = fDept ∨ it = fGr := by simpa [dLas, dLasOf] using hit
    rcases this with h | h
    · exact fConf _ _ (Or.inr (Or.inr (Or.inl h)))
    · exact fConf _ _ (Or.inr (Or.inr (Or.inr (Or.inl h))))
  · intro it hit
    simp [dLas, dLasOf, standardizeItems] at hit
  · exact ⟨dVers, by decide +kernel, by decide⟩
  · apply dlmOK_of_single
    intro x hx
    have : (RH.versionCopy "2.0" (some false) dLas).filter (Cy.inGroup fOpts.hdr "DLM".toList) = [dDlm "SPACE"] := by
      decide +kernel
    rw [this] at hx
    cases hx
    rfl

open Fr in
theorem dCycleConf : CycleConf fOpts.hdr "2.0" (some false) dLas :=
  ⟨⟨wrapItem false, by decide +kernel⟩, by decide, by decide, by decide⟩

open Fr in
/-- **the default header, written and read back**: VERS 2.0, WRAP NO, `DLM . SPACE`; the re-read has the three ~Version items,
`steer.dlm = some "SPACE"`, and the curves of C01File; two further load/save cycles return the same sections -/
example (hlines : List Str) (las' : WLas) (hH : headerLines "2.0" (some false) 20 dLas = .ok (hlines, las')) :
    ∃ res, Tf.readFull fOpts fNullOf fFt (fileDoc hlines fHdr fBody) = .ok
        ⟨firstRead fOpts.hdr "2.0" (some false) dLas, fileSteerD fOpts.hdr "2.0" (some false) dLas,
         [⟨hlines.length, hlines.length + 2, res⟩]⟩ ∧
      res.map Prod.snd = .ok [(.declared 0, .floats [fH1, fH2]), (.declared 1, .floats [fH012, Dt.nanTxt])] ∧
      fileSteerD fOpts.hdr "2.0" (some false) dLas =
        ⟨some (fs "2.0"), some (fs "NO"), some (fs "-999.25"), some (fs "SPACE")⟩ ∧
      Cy.secItems Rd.kVersion (firstRead fOpts.hdr "2.0" (some false) dLas) =
        [⟨fs "VERS", [], fs "2.0", fs "CWLS log ASCII Standard -VERSION 2.0"⟩,
         ⟨fs "WRAP", [], fs "NO", fs "One line per depth step"⟩,
         ⟨fs "DLM", [], fs "SPACE", fs "Column Data Section Delimiter"⟩] ∧
      C11.recycleAll WVal.str fOpts.hdr "2.0" (some false) [60, 5] (firstRead fOpts.hdr "2.0" (some false) dLas) =
        some (firstRead fOpts.hdr "2.0" (some false) dLas) := by
  obtain ⟨res, h1, h2⟩ := C01_file_dlm_unwrapped fOpts fNullOf fFt "2.0" (some false) 20 dLas las' hlines hH dFileConf fWritten
    (by decide) 'A' (fs "SCII") rfl (by decide) rfl (fs "NO") (by decide +kernel) (by decide)
  refine ⟨res, h1, ?_, by decide +kernel, by decide +kernel,
    C11_file_iterate_dlm fOpts.hdr WVal.str retype_str "2.0" (some false) dLas (Or.inr rfl) dFileConf dCycleConf
      (speltConf_str _ _ _) _⟩
  rw [h2]
  decide +kernel

open Fr in
/-- the document written for the header with the DLM items `dl` -/
def dDoc (dl : List WItem) : Tf.Doc :=
  match headerLines "2.0" (some false) 20 (dLasOf dl) with
  | .ok (hl, _) => fileDoc hl fHdr fBody
  | .error _ => []

open Fr in
/-- the same by running the models: the DLM line as written, the steering values, the window -/
example :
    (dDoc [dDlm "SPACE"])[3]? = some (fs "DLM . SPACE : Column Data Section Delimiter\n") ∧
    ((Tf.readFull fOpts fNullOf fFt (dDoc [dDlm "SPACE"])).toOption.map fun r => r.steer) =
      some ⟨some (fs "2.0"), some (fs "NO"), some (fs "-999.25"), some (fs "SPACE")⟩ ∧
    ((Tf.readFull fOpts fNullOf fFt (dDoc [dDlm "SPACE"])).toOption.map fun r =>
        r.data.map fun d => d.res.toOption.map Prod.snd) =
      some [some [(.declared 0, .floats [fH1, fH2]), (.declared 1, .floats [fH012, Dt.nanTxt])]] := by
  refine ⟨by decide +kernel, by decide +kernel, by decide +kernel⟩

/-! ## the hypothesis is needed -/

open Fr in
/-- `DlmOK` is needed (the known finding `dlm-not-space`): an object whose DLM item says COMMA is written blank-separated all the
same; the normal engine then splits the data lines at commas: one text cell per line (`1.00       0.12`), the second curve all NaN -/
theorem C01_file_dlm_counterexample_comma :
    ((Tf.readFull ⟨⟨false, .upper⟩, ⟨.normal, .strict⟩⟩ fNullOf fFt (dDoc [dDlm "COMMA"])).toOption.map fun r => r.steer.dlm) =
      some (some (fs "COMMA")) ∧
    ((Tf.readFull ⟨⟨false, .upper⟩, ⟨.normal, .strict⟩⟩ fNullOf fFt (dDoc [dDlm "COMMA"])).toOption.map fun r =>
        r.data.map fun d => d.res.toOption.map Prod.snd) =
      some [some [(.declared 0, .text [fs "1.00       0.12", fs "2.00    -999.25"]),
                  (.declared 1, .floats [Dt.nanTxt, Dt.nanTxt])]] := by
  refine ⟨by decide +kernel, by decide +kernel⟩

open Fr in
/-- … and a DLM value that is no delimiter name makes `read` raise KeyError (`define_line_splitter`) -/
theorem C01_file_dlm_counterexample_name :
    (match Tf.readFull fOpts fNullOf fFt (dDoc [dDlm "FOO"]) with
     | .error e => some e
     | .ok _ => none) = some Rd.RErr.keyError := by
  decide +kernel

open Fr in
/-- two DLM items (whatever their values) are NOT a counter-example: `"DLM" in section` is False for the reader, the delimiter
stays SPACE, `DlmOK` holds and the file reads as usual -/
theorem C01_file_dlm_two_items_ignored :
    DlmOK fOpts.hdr "2.0" (some false) (dLasOf [dDlm "COMMA", dDlm "TAB"]) ∧
    ((Tf.readFull fOpts fNullOf fFt (dDoc [dDlm "COMMA", dDlm "TAB"])).toOption.map fun r => r.steer.dlm) = some none ∧
    ((Tf.readFull fOpts fNullOf fFt (dDoc [dDlm "COMMA", dDlm "TAB"])).toOption.map fun r =>
        r.data.map fun d => d.res.toOption.map Prod.snd) =
      some [some [(.declared 0, .floats [fH1, fH2]), (.declared 1, .floats [fH012, Dt.nanTxt])]] := by
  refine ⟨?_, by decide +kernel, by decide +kernel⟩
  intro d hd
  have : Fr.steerVal fOpts.hdr "DLM" (RH.versionCopy "2.0" (some false) (dLasOf [dDlm "COMMA", dDlm "TAB"])) = none := by
    decide +kernel
  rw [this] at hd
  cases hd

end Lasio.Fd

#print axioms Lasio.Fd.C03_file_dlm
#print axioms Lasio.Fd.C01_file_dlm
#print axioms Lasio.Fd.C01_file_dlm_wrapYes
#print axioms Lasio.Fd.C01_file_dlm_unwrapped
#print axioms Lasio.Fd.C11_file_fixed_point_dlm
#print axioms Lasio.Fd.C11_file_iterate_dlm
#print axioms Lasio.Fd.C12_file_dlm
#print axioms Lasio.Fd.dFileConf
#print axioms Lasio.Fd.C01_file_dlm_counterexample_comma
#print axioms Lasio.Fd.C01_file_dlm_counterexample_name
#print axioms Lasio.Fd.C01_file_dlm_two_items_ignored
