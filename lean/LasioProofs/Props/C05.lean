import LasioModel.Reader
import LasioProofs.Lemmas.ReaderLemmas
/-
C05 — every line belongs to the section whose title precedes it.

Model: `LasioModel/Reader.lean` (`findSections`, `sectionType`, `itemsLoop`, `otherLoop`, `mkParser`, `routeKey`,
`steer`, `processSections`, `readLines`).

A DOCUMENT is `pre ++ flat secs`: lines before the first title, then sections `(title line, body lines)`.
`WellFormed secs`: title lines are title lines (their `strip()` starts with '~'), body lines are not.
Titles may be indented (every loop recognises title lines after stripping).
`docSection` / `docSections` (Lemmas/ReaderLemmas.lean) read a section from its own (title, body) alone — parser from
the title and the provisional version, `bodyRun` = every body line on its own, `finishItems`/`finishOther` of the model.

* `C05_kind_letter`         type, routing key and parser depend only on the upper-cased letter after '~'
* `C05_custom_kept`         any other letter: stored under `title[1:]`
* `C05_windows`             `findSections` of a rendered document = the windows of its sections
* `C05_header_loop`         the items loop, started at a section, reads exactly that section's body
* `C05_other_loop`          the ~Other loop returns exactly that section's body lines (stripped)
* `C05_read_rendered`       hence reading the file = reading its sections one by one, each from its own lines
* `C05_steering_only_V_W`   steering values come from ~V and ~W header sections only (and which fields)
* `C05_routing_perm`        sections after ~V in any order: same steering, same content under every key
-/
namespace Lasio.Rd

/-! ### kind / routing / parser from the title letter -/

/-- The title is `~`, one character `c`, then anything (`r`); it is stripped (as every title `findSections` returns is,
`C05_titles_stripped`) and contains no underscore.  Everything the reader derives from the title — section type,
key of `las.sections`, item class and section name handed to the line parser — is determined by the UPPER-CASED
character `upperC c` alone, whatever the case of `c` and whatever follows it. -/
theorem C05_kind_letter (c : Char) (r : Str) (ver : VerVal) (v : Str)
    (hs : sline ('~' :: c :: r) = '~' :: c :: r) (hu : '_' ∉ upper ('~' :: c :: r)) :
    sectionType ('~' :: c :: r) = (if upperC c == 'A' then .data else if upperC c == 'O' then .other else .items) ∧
    routeKeyOther ('~' :: c :: r) = (if upperC c == 'O' then kOther else c :: r) ∧
    routeKey ('~' :: c :: r) ver =
      (if upperC c == 'C' then .ok kCurves else if upperC c == 'P' then .ok kParameter
       else if upperC c == 'V' then .ok kVersion else if upperC c == 'W' then .ok kWell else .ok (c :: r)) ∧
    ∃ d os, mkParser ('~' :: c :: r) (.known v) =
      .ok ⟨(letterParser (upperC c)).1, (letterParser (upperC c)).2, d, os⟩ := by
  refine ⟨sectionType_letter c r hs (underscore_upper _ hu), ?_, routeKey_letter c r ver hu, mkParser_letter c r v hu⟩
  simp [routeKeyOther, titleLetter, upper]

/-- two spellings with the same upper-cased letter are treated alike (same type, same key when the letter is one of
V W C P O, same parser class) -/
theorem C05_kind_letter_spellings (c₁ c₂ : Char) (r₁ r₂ : Str) (ver : VerVal) (v : Str)
    (hs₁ : sline ('~' :: c₁ :: r₁) = '~' :: c₁ :: r₁) (hs₂ : sline ('~' :: c₂ :: r₂) = '~' :: c₂ :: r₂)
    (hu₁ : '_' ∉ upper ('~' :: c₁ :: r₁)) (hu₂ : '_' ∉ upper ('~' :: c₂ :: r₂))
    (hc : upperC c₁ = upperC c₂) (hstd : upperC c₁ ∈ ['V', 'W', 'C', 'P', 'O', 'A']) :
    sectionType ('~' :: c₁ :: r₁) = sectionType ('~' :: c₂ :: r₂) ∧
    (upperC c₁ ≠ 'A' → upperC c₁ ≠ 'O' → routeKey ('~' :: c₁ :: r₁) ver = routeKey ('~' :: c₂ :: r₂) ver) ∧
    (upperC c₁ = 'O' → routeKeyOther ('~' :: c₁ :: r₁) = routeKeyOther ('~' :: c₂ :: r₂)) ∧
    ∃ d₁ os₁ d₂ os₂ k s, mkParser ('~' :: c₁ :: r₁) (.known v) = .ok ⟨k, s, d₁, os₁⟩ ∧
      mkParser ('~' :: c₂ :: r₂) (.known v) = .ok ⟨k, s, d₂, os₂⟩ := by
  obtain ⟨a₁, b₁, c₁', d₁, os₁, e₁⟩ := C05_kind_letter c₁ r₁ ver v hs₁ hu₁
  obtain ⟨a₂, b₂, c₂', d₂, os₂, e₂⟩ := C05_kind_letter c₂ r₂ ver v hs₂ hu₂
  refine ⟨by rw [a₁, a₂, hc], ?_, ?_, d₁, os₁, d₂, os₂, _, _, e₁, hc ▸ e₂⟩
  · intro hA hO
    rw [c₁', c₂', ← hc]
    simp only [List.mem_cons, List.not_mem_nil, or_false] at hstd
    rcases hstd with h | h | h | h | h | h <;> simp [h] at hA hO ⊢
  · intro hO
    rw [b₁, b₂, ← hc]; simp [hO]

/-- non-standard sections are kept under their own title: `sections[title[1:]]` -/
theorem C05_custom_kept (c : Char) (r : Str) (ver : VerVal) (hu : '_' ∉ upper ('~' :: c :: r))
    (hC : upperC c ≠ 'C') (hP : upperC c ≠ 'P') (hV : upperC c ≠ 'V') (hW : upperC c ≠ 'W') :
    routeKey ('~' :: c :: r) ver = .ok (c :: r) := by
  rw [routeKey_letter c r ver hu]; simp [hC, hP, hV, hW]

/-- every title returned by the title scan is a stripped line (so `C05_kind_letter` applies to it) -/
theorem C05_titles_stripped (secs : List (Str × List Str)) (n : Nat) :
    ∀ w ∈ docWindows secs n, sline w.2.2 = w.2.2 := by
  induction secs generalizing n with
  | nil => intro w hw; cases hw
  | cons tb rest ih =>
    obtain ⟨t, b⟩ := tb
    intro w hw
    simp only [docWindows, List.mem_cons] at hw
    rcases hw with rfl | hw
    · exact sline_idem t
    · exact ih _ w hw

/-! ### windows -/

/-- The title scan of a rendered document finds exactly its sections: section `j` gets the window
(number of its title line, number of its last body line — inclusive —, its stripped title). -/
theorem C05_windows (pre : List Str) (secs : List (Str × List Str))
    (hpre : ∀ x ∈ pre, isTitle x = false) (h : WellFormed secs) :
    findSections (pre ++ flat secs) = docWindows secs pre.length :=
  findSections_render pre secs hpre h

/-! ### the two line loops consume exactly their section -/

/-- HEADER LOOP. Started after the title line of a section whose body is `body` (no title line inside; `rest` = the rest
of the file; when the body is empty the rest is empty or starts with the next title), with `last` = the window's
inclusive end, the loop returns `bodyRun body`: each body line on its own, nothing else.  With
`ignore_header_errors` this is `body.filterMap parse`; without, additionally the error of the first unparsable line. -/
theorem C05_header_loop (o : ReadOpts) (p : Parser) (body rest : List Str) (first : Nat)
    (hb : ∀ b ∈ body, isTitle b = false)
    (hrest : body = [] → rest = [] ∨ ∃ t r, rest = t :: r ∧ isTitle t = true) :
    itemsLoop o p (first + body.length) (body ++ rest) first = bodyRun o p body first ∧
    (o.ignoreHeaderErrors = true → bodyRun o p body first = .ok (body.filterMap (lineItem o p))) := by
  refine ⟨?_, fun hi => bodyRun_ignore o p body first hi⟩
  by_cases hbe : body = []
  · subst hbe
    simp only [List.length_nil, Nat.add_zero, List.nil_append, bodyRun]
    apply itemsLoop_empty
    rcases hrest rfl with h | ⟨t, r, h, ht⟩
    · left; exact h
    · right; exact ⟨t, r, h, (lineRes_title_iff o p t).mpr ht⟩
  · exact itemsLoop_body o p body rest first _ (no_title o p body hb) hbe rfl

/-- the loop stops at the inclusive end even when the following lines are NOT a title (here: more item lines) — the
`line_no == line_nos[1]` test, not the '~' test, ends a non-empty section -/
example : (itemsLoop ⟨false, .upper⟩ ⟨.metadata, .well, valueDescr, []⟩ 1
    ["A.M 1 : a\n".toList, "B.M 2 : b\n".toList] 0).toOption
    = some [⟨"A".toList, "M".toList, "1".toList, "a".toList⟩] := by decide +kernel

/-- OTHER LOOP. Started AT the title line (indented or not) of a ~Other section with body `body`, the loop returns the
stripped body lines, all of them, once each, and nothing from the following sections. -/
theorem C05_other_loop (t : Str) (body rest : List Str) (first : Nat)
    (ht : isTitle t = true) (hb : ∀ b ∈ body, isTitle b = false) :
    readOther (t :: body ++ rest) first (first + body.length) = joinWith ['\n'] (body.map lineStrip) := by
  unfold readOther
  rw [otherLoop_section t body rest first ht hb]

/-- an indented title (fixed finding: the loop used to test the raw line, stored the title as text and dropped the
last line) -/
theorem C05_other_loop_indented :
    readOther [" ~O\n".toList, "a\n".toList, "b\n".toList, "~W\n".toList] 0 2 = "a\nb".toList := by decide +kernel

/-! ### reading a rendered document = reading its sections one by one -/

/-- For a well-formed document the section loop of `read` is `docSections`: every section is read from
its own title and body lines only — no line is dropped, duplicated or read as part of a neighbouring section. -/
theorem C05_read_rendered (o : ReadOpts) (pre : List Str) (secs : List (Str × List Str)) (st : RState)
    (hpre : ∀ x ∈ pre, isTitle x = false) (hw : WellFormed secs) :
    processSections o (pre ++ flat secs) (findSections (pre ++ flat secs)) st = docSections o secs pre.length st := by
  rw [C05_windows pre secs hpre hw]
  exact processSections_doc o (pre ++ flat secs) secs pre.length st (by simp) hw

theorem C05_read_rendered_lines (o : ReadOpts) (pre : List Str) (secs : List (Str × List Str))
    (hpre : ∀ x ∈ pre, isTitle x = false) (hw : WellFormed secs) (hne : secs ≠ []) :
    readLines o (pre ++ flat secs) =
      match docSections o secs pre.length RState.init with
      | .error e => .error e
      | .ok st => finishRead st := by
  unfold readLines
  have := C05_read_rendered o pre secs RState.init hpre hw
  rw [C05_windows pre secs hpre hw] at this ⊢
  cases secs with
  | nil => exact absurd rfl hne
  | cons tb rest =>
    obtain ⟨t, b⟩ := tb
    simp only [docWindows] at this ⊢
    rw [this]
    cases docSections o ((t, b) :: rest) pre.length RState.init <;> rfl

/-! ### steering -/

/-- Only ~V and ~W titles steer: for any other title letter the steering values are untouched, whatever the items are
(so an item named VERS / WRAP / DLM / NULL in ~C, ~P or a custom section is just an item). -/
theorem C05_steering_only_V_W_title (o : ReadOpts) (title : Str) (items : List RItem) (s : Steer)
    (hV : titleLetter title ≠ ['V']) (hW : titleLetter title ≠ ['W']) : steer o title items s = s :=
  steer_other_letter o title items s (by simpa using hV) (by simpa using hW)

/-- ~V changes only VERS, WRAP, DLM — never NULL; ~W changes only NULL. -/
theorem C05_steering_fields (o : ReadOpts) (title : Str) (items : List RItem) (s : Steer) :
    (titleLetter title = ['V'] → (steer o title items s).null = s.null) ∧
    (titleLetter title = ['W'] → (steer o title items s).vers = s.vers ∧ (steer o title items s).wrap = s.wrap ∧
        (steer o title items s).dlm = s.dlm) := by
  constructor
  · intro h; unfold steer; simp [h]
  · intro h; unfold steer; simp [h]

/-- inside ~V / ~W only the items found under the four steering mnemonics are consulted -/
theorem C05_steering_lookups (o : ReadOpts) (title : Str) (i₁ i₂ : List RItem) (s : Steer)
    (h : ∀ k ∈ steerKeys, lookupItem (o.mnemonicCase != .preserve) i₁ k = lookupItem (o.mnemonicCase != .preserve) i₂ k) :
    steer o title i₁ s = steer o title i₂ s := steer_congr o title i₁ i₂ s h

/-- STEERING COMES FROM ~V AND ~W ONLY, document level: the steering values after reading the sections `secs` are those
obtained from its ~V and ~W header sections alone (all other sections deleted — with whatever items they contained). -/
theorem C05_steering_only_V_W (o : ReadOpts) (secs : List (Str × List Str)) (n n₂ : Nat) (st r : RState)
    (h : docSections o secs n st = .ok r) :
    ∃ r₂, docSections o (secs.filter fun tb => isV tb || isW tb) n₂ st = .ok r₂ ∧ r₂.steer = r.steer :=
  docSections_steer_filter o secs n n₂ st st r rfl h

/-! ### permutation of the sections after ~V -/

/-- Sections none of which is a ~V header section, with pairwise distinct keys of `las.sections` and at most one ~W
header section: read in any order (and at any place in the file) from the same state, they all read successfully
alike and give the same steering values and the same content under EVERY key of `las.sections`. -/
theorem C05_routing_perm (o : ReadOpts) (secs₁ secs₂ : List (Str × List Str)) (n₁ n₂ : Nat) (st r₁ : RState)
    (hp : secs₁.Perm secs₂) (hV : ∀ tb ∈ secs₁, isV tb = false)
    (hW : ∀ x ∈ secs₁, ∀ y ∈ secs₁, isW x = true → isW y = true → x = y)
    (hK : (secs₁.filterMap (secKey (classifyVer st.steer.vers))).Nodup)
    (h₁ : docSections o secs₁ n₁ st = .ok r₁) :
    ∃ r₂, docSections o secs₂ n₂ st = .ok r₂ ∧ r₂.steer = r₁.steer ∧ r₂.curvesPlain = r₁.curvesPlain ∧
      ∀ k, lookupSec k r₂.sections = lookupSec k r₁.sections :=
  docSections_perm o secs₁ secs₂ n₁ n₂ st r₁ hp hV hW hK h₁

/-- … for whole files: the document `pre ++ [~V section] ++ secs₁` and the one with the sections after ~V permuted. -/
theorem C05_routing_perm_file (o : ReadOpts) (pre : List Str) (v : Str × List Str) (secs₁ secs₂ : List (Str × List Str))
    (stv r₁ : RState)
    (hpre : ∀ x ∈ pre, isTitle x = false) (hw : WellFormed (v :: secs₁))
    (hp : secs₁.Perm secs₂) (hV : ∀ tb ∈ secs₁, isV tb = false)
    (hW : ∀ x ∈ secs₁, ∀ y ∈ secs₁, isW x = true → isW y = true → x = y)
    (hv : docSection o pre.length v RState.init = .ok stv)
    (hK : (secs₁.filterMap (secKey (classifyVer stv.steer.vers))).Nodup)
    (h₁ : processSections o (pre ++ flat (v :: secs₁)) (findSections (pre ++ flat (v :: secs₁))) RState.init = .ok r₁) :
    ∃ r₂, processSections o (pre ++ flat (v :: secs₂)) (findSections (pre ++ flat (v :: secs₂))) RState.init = .ok r₂ ∧
      r₂.steer = r₁.steer ∧ r₂.curvesPlain = r₁.curvesPlain ∧ ∀ k, lookupSec k r₂.sections = lookupSec k r₁.sections := by
  have hw₂ : WellFormed (v :: secs₂) := by
    intro x hx
    rcases List.mem_cons.mp hx with rfl | hx
    · exact hw _ List.mem_cons_self
    · exact hw x (List.mem_cons_of_mem _ (hp.mem_iff.mpr hx))
  rw [C05_read_rendered o pre (v :: secs₁) RState.init hpre hw] at h₁
  rw [C05_read_rendered o pre (v :: secs₂) RState.init hpre hw₂]
  simp only [docSections, hv] at h₁ ⊢
  exact C05_routing_perm o secs₁ secs₂ _ _ stv r₁ hp hV hW hK h₁

/-- the key hypothesis is needed: two sections stored under the same key — the later one wins, so order matters -/
theorem C05_routing_perm_needs_distinct_keys :
    (match docSections ⟨false, .upper⟩ [("~W\n".toList, ["A. 1 : a\n".toList]), ("~Well\n".toList, ["B. 2 : b\n".toList])] 0 RState.init with
      | .ok r => lookupSec kWell r.sections | .error _ => none)
    ≠ (match docSections ⟨false, .upper⟩ [("~Well\n".toList, ["B. 2 : b\n".toList]), ("~W\n".toList, ["A. 1 : a\n".toList])] 0 RState.init with
      | .ok r => lookupSec kWell r.sections | .error _ => none) := by
  decide +kernel

/-! ### non-vacuity: a concrete document, its windows and its reading -/

def exDoc : List (Str × List Str) :=
  [("~V\n".toList, ["VERS. 2.0 : v\n".toList, "WRAP. NO : w\n".toList]),
   ("~p\n".toList, ["NULL. 5 : planted\n".toList]),
   ("~Tops\n".toList, []),
   ("  ~other\n".toList, ["  free text \n".toList]),
   ("~w\n".toList, ["# c\n".toList, "NULL. -999.25 : n\n".toList])]

example : WellFormed exDoc := by
  intro tb htb
  simp only [exDoc, List.mem_cons, List.not_mem_nil, or_false] at htb
  rcases htb with rfl | rfl | rfl | rfl | rfl <;> decide +kernel


example : findSections (flat exDoc) =
    [(0, 2, "~V".toList), (3, 4, "~p".toList), (5, 5, "~Tops".toList), (6, 7, "~other".toList), (8, 10, "~w".toList)] := by
  decide +kernel

example : (match readLines ⟨false, .upper⟩ (flat exDoc) with
    | .ok h => some (h.sections.map (·.1), h.steer) | .error _ => none)
    = some (["Version".toList, "Well".toList, "Parameter".toList, "Other".toList, "Tops".toList],
            ⟨some "2.0".toList, some "NO".toList, some "-999.25".toList, none⟩) := by
  decide +kernel

end Lasio.Rd

#print axioms Lasio.Rd.C05_kind_letter
#print axioms Lasio.Rd.C05_kind_letter_spellings
#print axioms Lasio.Rd.C05_custom_kept
#print axioms Lasio.Rd.C05_titles_stripped
#print axioms Lasio.Rd.C05_windows
#print axioms Lasio.Rd.C05_header_loop
#print axioms Lasio.Rd.C05_other_loop
#print axioms Lasio.Rd.C05_other_loop_indented
#print axioms Lasio.Rd.C05_read_rendered
#print axioms Lasio.Rd.C05_read_rendered_lines
#print axioms Lasio.Rd.C05_steering_only_V_W_title
#print axioms Lasio.Rd.C05_steering_fields
#print axioms Lasio.Rd.C05_steering_lookups
#print axioms Lasio.Rd.C05_steering_only_V_W
#print axioms Lasio.Rd.C05_routing_perm
#print axioms Lasio.Rd.C05_routing_perm_file
#print axioms Lasio.Rd.C05_routing_perm_needs_distinct_keys
