import LasioProofs.Lemmas.JunkLemmas
/-
C19, WHOLE-FILE FORM — with `ignore_header_errors=True` a junk line inside a header-items section cannot make `read()`
raise a header error, never changes the genuine items of any section, never drops or reorders them, never changes the
steering values (version, WRAP, NULL, delimiter) and never alters the curve data.

Model: `Lasio.Tf.readFull o nullOf ft lines` (LasioModel/Transform.lean) = `Rd.readLines` (find_sections_in_file, the section
loop of `LASFile.read`, `finishRead`) followed by `Dt.readData` on every data window.  A document is the list of its physical
lines.  The section-level facts are in LasioProofs/Props/C19.lean (`C19_total`, `C19_local`, `C19_steer`); the helpers of
this file are in LasioProofs/Lemmas/JunkLemmas.lean.

The document is split as `l₁ ++ l₂`; the junk line `j` goes between the two parts.
  `ctxEnd .pre l₁ = .sec t`   the nearest title line before the split point is `t` (the split point lies in the section `t`)
  `tailBody l₁`, `headBody l₂` the lines of that section before / after the split point
  `JRel k old new s s'`        `s` and `s'` have, entry by entry, the same keys in the same order and the same values, except
                               that an entry under the key `k` may hold `old` in `s` and `new` in `s'`
  `shiftData n`                the record of a data section whose window starts at or after line `n` moved down by one line

* `C19_file`              the main theorem: (a) steering, (b) data, (c) sections
* `C19_file_sections`     what `JRel` says in terms of keys and look-ups
* `C19_file_item_list`    the new item list = the old one with what `j` alone parses to (≤ 1 item) at its place
* `C19_file_unparsable`   a line no header parser can read, in ANY header-items section (~Curves included): same sections
* `C19_file_readModel`    in terms of the parsed result `readModel`
* `C19_file_total`        with the flag, `readFull` of ANY document never fails with a header error (`C19_file_total_insert`:
                          in particular not the document with the junk line, whatever the line is)
* `C19_file_needs_steer`  the steering hypothesis is needed: `NULL. 5 : x` inserted in ~Well turns a cell 5 into NaN
* `C19_file_needs_not_curves`  the ~Curves exclusion is needed: a parsable line there declares a curve
* `C19_file_example`      non-vacuity: a concrete file with a parsable junk line in ~Well (`C19_file_example_last`: the side
                          condition of (c') holds for it; `C19_file_example_unparsable`: an unparsable junk line)
-/
namespace Lasio.Tf
open Lasio Lasio.Dt

/-- WHOLE FILE. Let the document `l₁ ++ l₂` be readable with `ignore_header_errors=True` (`hi`, `hr`), and let `j` be a line
that is not a title line (`hj`) inserted at a split point that lies in the body of a header-items section: the nearest title
line before it is `t` (`hctx`) and `t` opens a "Header items" section (`hk`: not ~Other, not a data section).  Assume
  `hcur`  the section is not one `read` stores under "Curves" (`~C…`/`~Log_Definition`, where a parsable line legitimately
          declares a curve) — or `j` parses to nothing under the section's parser, whatever the provisional version;
  `hst`   what `j` parses to under the section's parser is nothing, or an item whose upper-cased mnemonic is none of
          VERS, WRAP, DLM, NULL;
  `htf`   the float table rejects tokens that start with `~` (as Python's `float()` does): `genfromtxt` stops at a title.
Then the document with `j` is readable and
  (a) the steering values are the same;
  (b) every data section has the same result (same engine, same curves); its window is moved down by one line when it
      stands behind `j` — so the parsed data are the same;
  (c) the sections are `JRel`-related: same keys, same order, same values, except that the value stored for the section `t`
      (under the key `k`, by the parser `p` of `t` for the provisional version `ver` in force there) is the old item list
      `items (tailBody l₁) ++ items (headBody l₂)` in the one and the old list with what `j` alone parses to (`lineItem`:
      nothing or one item) inserted at its place in the other;
  (c') and when no later section is stored under the same key (`secKey`), these two values are what `sections[k]` holds. -/
theorem C19_file (o : Opts) (nullOf : Option Str → Option Str) (ft : FloatTable) (htf : TildeNotFloat ft)
    (l₁ l₂ : List Str) (t j : Str)
    (hctx : ctxEnd .pre l₁ = .sec t) (hk : kindOf t = .items) (hj : Rd.isTitle j = false)
    (hi : o.hdr.ignoreHeaderErrors = true)
    (hcur : Rd.curvesTitle t = false ∨ ∀ ver p, Rd.mkParser (Rd.lineStrip t) ver = .ok p → Rd.lineItem o.hdr p j = none)
    (hst : ∀ ver p x, Rd.mkParser (Rd.lineStrip t) ver = .ok p → Rd.lineItem o.hdr p j = some x → upper x.orig ∉ Rd.steerKeys)
    (r : FullRead) (hr : readFull o nullOf ft (l₁ ++ l₂) = .ok r) :
    ∃ r' ver p k, readFull o nullOf ft (l₁ ++ j :: l₂) = .ok r' ∧
      r'.steer = r.steer ∧
      r'.data = r.data.map (shiftData l₁.length) ∧ r'.parsed.data = r.parsed.data ∧
      Rd.mkParser (Rd.lineStrip t) ver = .ok p ∧
      JRel k (.items (Rd.bodyItems o.hdr p (tailBody l₁) ++ Rd.bodyItems o.hdr p (headBody l₂)))
             (.items (Rd.bodyItems o.hdr p (tailBody l₁) ++ (Rd.lineItem o.hdr p j).toList ++ Rd.bodyItems o.hdr p (headBody l₂)))
             r.sections r'.sections ∧
      ((∀ tb ∈ (parse l₂).2, ∀ ver ver' k', Rd.secKey ver (t, ([] : List Str)) = some k' → Rd.secKey ver' tb ≠ some k') →
        r.sections.lookup k = some (.items (Rd.bodyItems o.hdr p (tailBody l₁) ++ Rd.bodyItems o.hdr p (headBody l₂))) ∧
        r'.sections.lookup k = some (.items (Rd.bodyItems o.hdr p (tailBody l₁) ++ (Rd.lineItem o.hdr p j).toList ++
          Rd.bodyItems o.hdr p (headBody l₂)))) := by
  obtain ⟨pre, A, hpre, hw, hlen, e1, e2⟩ := split_doc l₁ l₂ t j hctx
  rw [e1] at hr
  obtain ⟨r', ver, p, k, h1, h2, h3, h4, h5, h6⟩ :=
    readFull_junk o nullOf ft htf pre A _ t _ _ j hpre hw hj hi hk hcur hst r hr
  rw [← e2] at h1
  rw [← hlen] at h3
  refine ⟨r', ver, p, k, h1, h2, h3, ?_, h4, h5, h6⟩
  simp only [FullRead.parsed]
  rw [h3]
  exact shiftData_res (fun x => x.map Prod.snd) _ _

/-- (c) in terms of keys and look-ups: the two section maps have the same keys in the same order; every key other than `k`
has the same value; the key `k` has the same value, or the old and the new one. -/
theorem C19_file_sections (k : Rd.RKey) (old new : Rd.SecVal) (s s' : List (Rd.RKey × Rd.SecVal)) (h : JRel k old new s s') :
    s'.map Prod.fst = s.map Prod.fst ∧
    (∀ k2, k2 ≠ k → s'.lookup k2 = s.lookup k2) ∧
    (s'.lookup k = s.lookup k ∨ (s.lookup k = some old ∧ s'.lookup k = some new)) := by
  refine ⟨jrel_keys k old new s s' h, fun k2 hne => jrel_lookup_other k old new s s' h k2 hne, ?_⟩
  rcases jrel_lookup k old new s s' h k with h | ⟨_, h1, h2⟩
  · exact Or.inl h
  · exact Or.inr ⟨h1, h2⟩

/-- the inserted line contributes at most one item, between the items of the lines before and those of the lines after it
(`C19_local` read at file level: the genuine items keep their fields and their order) -/
theorem C19_file_item_list (o : Rd.ReadOpts) (p : Rd.Parser) (b₁ b₂ : List Str) (j : Str) :
    Rd.bodyItems o p (b₁ ++ j :: b₂) = Rd.bodyItems o p b₁ ++ (Rd.lineItem o p j).toList ++ Rd.bodyItems o p b₂ ∧
    Rd.bodyItems o p (b₁ ++ b₂) = Rd.bodyItems o p b₁ ++ Rd.bodyItems o p b₂ ∧ (Rd.lineItem o p j).toList.length ≤ 1 :=
  ⟨bodyItems_insert o p b₁ b₂ j, Rd.bodyItems_append o p b₁ b₂, Rd.C19_junk_at_most_one o p j⟩

/-- A LINE NO HEADER PARSER CAN READ (`read_header_line` fails whatever the section name — e.g. a line without period and
colon), in any header-items section, ~Curves included: the document with the line reads to exactly the same sections and
steering values, and the same data on windows moved down by one. -/
theorem C19_file_unparsable (o : Opts) (nullOf : Option Str → Option Str) (ft : FloatTable) (htf : TildeNotFloat ft)
    (l₁ l₂ : List Str) (t j : Str)
    (hctx : ctxEnd .pre l₁ = .sec t) (hk : kindOf t = .items) (hj : Rd.isTitle j = false)
    (hi : o.hdr.ignoreHeaderErrors = true) (hu : Rd.unparsableLine j = true)
    (r : FullRead) (hr : readFull o nullOf ft (l₁ ++ l₂) = .ok r) :
    readFull o nullOf ft (l₁ ++ j :: l₂) = .ok ⟨r.sections, r.steer, r.data.map (shiftData l₁.length)⟩ := by
  obtain ⟨r', ver, p, k, h1, h2, h3, _, _, h5, _⟩ := C19_file o nullOf ft htf l₁ l₂ t j hctx hk hj hi
    (Or.inr fun _ p _ => Rd.unparsableLine_spec o.hdr p j hu)
    (fun _ p x _ hx => by rw [Rd.unparsableLine_spec o.hdr p j hu] at hx; cases hx) r hr
  rw [Rd.unparsableLine_spec o.hdr p j hu] at h5
  simp only [Option.toList_none, List.append_nil] at h5
  have h6 := jrel_same k _ _ _ h5
  rw [h1]
  obtain ⟨s, st, d⟩ := r'
  simp only at h2 h3 h6
  rw [h2, h3, h6]

/-- in terms of the parsed result (`readModel`: header items of every section, ~Other text, curves of every data section) -/
theorem C19_file_readModel (o : Opts) (nullOf : Option Str → Option Str) (ft : FloatTable) (htf : TildeNotFloat ft)
    (l₁ l₂ : List Str) (t j : Str)
    (hctx : ctxEnd .pre l₁ = .sec t) (hk : kindOf t = .items) (hj : Rd.isTitle j = false)
    (hi : o.hdr.ignoreHeaderErrors = true)
    (hcur : Rd.curvesTitle t = false ∨ ∀ ver p, Rd.mkParser (Rd.lineStrip t) ver = .ok p → Rd.lineItem o.hdr p j = none)
    (hst : ∀ ver p x, Rd.mkParser (Rd.lineStrip t) ver = .ok p → Rd.lineItem o.hdr p j = some x → upper x.orig ∉ Rd.steerKeys)
    (m : Parsed) (hm : readModel o nullOf ft (l₁ ++ l₂) = .ok m) :
    ∃ m' ver p k, readModel o nullOf ft (l₁ ++ j :: l₂) = .ok m' ∧ m'.data = m.data ∧
      Rd.mkParser (Rd.lineStrip t) ver = .ok p ∧
      JRel k (.items (Rd.bodyItems o.hdr p (tailBody l₁) ++ Rd.bodyItems o.hdr p (headBody l₂)))
             (.items (Rd.bodyItems o.hdr p (tailBody l₁) ++ (Rd.lineItem o.hdr p j).toList ++ Rd.bodyItems o.hdr p (headBody l₂)))
             m.sections m'.sections := by
  unfold readModel at hm ⊢
  cases hr : readFull o nullOf ft (l₁ ++ l₂) with
  | error e => rw [hr] at hm; cases hm
  | ok r =>
    rw [hr] at hm
    simp only [Except.map, Except.ok.injEq] at hm
    subst hm
    obtain ⟨r', ver, p, k, h1, _, _, h3, h4, h5, _⟩ := C19_file o nullOf ft htf l₁ l₂ t j hctx hk hj hi hcur hst r hr
    exact ⟨r'.parsed, ver, p, k, by rw [h1]; rfl, h3, h4, h5⟩

/-- TOTALITY AT FILE LEVEL. With `ignore_header_errors=True` `read()` of ANY list of lines never fails with a header error
(`LASHeaderError`): if it fails at all, then because there is no section, by the `KeyError` of an unknown version or
delimiter, the `IndexError` of the title "~", the `AttributeError` of plain items under "Curves" — or in a case the model
leaves undecided (`unmodelled`: a version text it cannot classify). -/
theorem C19_file_total (o : Opts) (nullOf : Option Str → Option Str) (ft : FloatTable) (lines : List Str) (e : Rd.RErr)
    (hi : o.hdr.ignoreHeaderErrors = true) (h : readFull o nullOf ft lines = .error e) :
    (∀ n, e ≠ .headerError n) ∧
      (e = .noSections ∨ e = .keyError ∨ e = .unmodelled ∨ e = .indexError ∨ e = .attributeError) := by
  have he : e = .noSections ∨ e = .keyError ∨ e = .unmodelled ∨ e = .indexError ∨ e = .attributeError := by
    unfold readFull at h
    cases hh : Rd.readLines o.hdr lines with
    | error e' =>
      rw [hh] at h
      cases h
      exact Rd.readLines_error o.hdr lines e hi hh
    | ok hd => rw [hh] at h; cases h
  refine ⟨?_, he⟩
  intro n hn
  subst hn
  rcases he with h | h | h | h | h <;> cases h

/-- … in particular the document with the junk line cannot fail with a header error — whatever `j` is and wherever it is
inserted (no hypothesis on `j` at all) -/
theorem C19_file_total_insert (o : Opts) (nullOf : Option Str → Option Str) (ft : FloatTable) (l₁ l₂ : List Str) (j : Str)
    (hi : o.hdr.ignoreHeaderErrors = true) (n : Nat) : readFull o nullOf ft (l₁ ++ j :: l₂) ≠ .error (.headerError n) :=
  fun h => (C19_file_total o nullOf ft _ _ hi h).1 n rfl

/-! ## a concrete file -/

def c19s (s : String) : Str := s.toList

/-- `~V`, `~W` up to its first item … -/
def exL₁ : List Str := [c19s "~V\n", c19s "VERS. 2.0 : v\n", c19s "WRAP. NO : w\n", c19s "~W\n", c19s "STRT.M 1 : s\n"]
/-- … the rest of `~W`, `~C`, `~A` -/
def exL₂ : List Str := [c19s "STOP.M 2 : e\n", c19s "~C\n", c19s "A.M : a\n", c19s "B.M : b\n", c19s "~A\n", c19s "1 5\n", c19s "2 6\n"]

def exO : Opts := ⟨⟨true, .upper⟩, ⟨.normal, .strict⟩⟩
def exFt : FloatTable := [(c19s "1", c19s "a1"), (c19s "2", c19s "a2"), (c19s "5", c19s "a5"), (c19s "6", c19s "a6")]
/-- the NULL value as a float, through the same table -/
def exNull (v : Option Str) : Option Str := v.bind (toFloat exFt)

def jBad : Str := c19s "no period here\n"
def jItem : Str := c19s "junk.x 5 : parsable junk\n"
def jNull : Str := c19s "NULL. 5 : x\n"

def getRead (x : Except Rd.RErr FullRead) : FullRead :=
  match x with
  | .ok r => r
  | .error _ => ⟨[], Rd.Steer.init, []⟩

def exBase : FullRead := getRead (readFull exO exNull exFt (exL₁ ++ exL₂))

/-- the cell of the second curve in the first row of the only data section -/
def cell10 (d : List (Except DErr (List (Slot × Column)))) : Option Str :=
  match d with
  | [.ok (_ :: (_, .floats (c :: _)) :: _)] => some c
  | _ => none

theorem exFt_tilde : TildeNotFloat exFt := by
  intro t ht
  cases t with
  | nil => simp at ht
  | cons c cs =>
    simp only [List.head?_cons, Option.some.injEq] at ht
    subst ht
    rfl

theorem exBase_ok : readFull exO exNull exFt (exL₁ ++ exL₂) = .ok exBase := by rfl

/-- NON-VACUITY. The hypotheses of `C19_file` hold for the concrete file and the parsable junk line
`junk.x 5 : parsable junk` inserted in ~Well between STRT and STOP (so its conclusion holds), and the conclusion computes:
the file with the junk line reads to the same steering values, the same curves, the same keys; ~Well holds STRT, JUNK,
STOP in this order, the genuine items unchanged. -/
theorem C19_file_example :
    (∃ r' ver p k, readFull exO exNull exFt (exL₁ ++ jItem :: exL₂) = .ok r' ∧ r'.steer = exBase.steer ∧
      r'.data = exBase.data.map (shiftData exL₁.length) ∧ r'.parsed.data = exBase.parsed.data ∧
      Rd.mkParser (Rd.lineStrip (c19s "~W\n")) ver = .ok p ∧
      JRel k (.items (Rd.bodyItems exO.hdr p (tailBody exL₁) ++ Rd.bodyItems exO.hdr p (headBody exL₂)))
        (.items (Rd.bodyItems exO.hdr p (tailBody exL₁) ++ (Rd.lineItem exO.hdr p jItem).toList ++
          Rd.bodyItems exO.hdr p (headBody exL₂))) exBase.sections r'.sections) ∧
    exBase.sections.lookup Rd.kWell =
      some (.items [⟨c19s "STRT", c19s "M", c19s "1", c19s "s"⟩, ⟨c19s "STOP", c19s "M", c19s "2", c19s "e"⟩]) ∧
    (getRead (readFull exO exNull exFt (exL₁ ++ jItem :: exL₂))).sections.lookup Rd.kWell =
      some (.items [⟨c19s "STRT", c19s "M", c19s "1", c19s "s"⟩, ⟨c19s "JUNK", c19s "x", c19s "5", c19s "parsable junk"⟩,
        ⟨c19s "STOP", c19s "M", c19s "2", c19s "e"⟩]) ∧
    cell10 exBase.parsed.data = some (c19s "a5") ∧
    cell10 (getRead (readFull exO exNull exFt (exL₁ ++ jItem :: exL₂))).parsed.data = some (c19s "a5") ∧
    exBase.data.map (fun x => (x.first, x.last)) = [(9, 11)] ∧
    (getRead (readFull exO exNull exFt (exL₁ ++ jItem :: exL₂))).data.map (fun x => (x.first, x.last)) = [(10, 12)] := by
  refine ⟨?_, by rfl, by rfl, by rfl, by rfl, by rfl, by rfl⟩
  obtain ⟨r', ver, p, k, h1, h2, h3, h4, h5, h6, _⟩ :=
    C19_file exO exNull exFt exFt_tilde exL₁ exL₂ (c19s "~W\n") jItem (by decide) (by decide) (by decide) rfl
      (Or.inl (by decide))
      (fun _ p x _ hx => Rd.harmlessLine_spec exO.hdr p jItem x (by decide +kernel) hx) exBase exBase_ok
  exact ⟨r', ver, p, k, h1, h2, h3, h4, h5, h6⟩

/-- … and the side condition of (c') holds for it: neither ~C nor ~A, the sections behind ~W, is stored under the key of ~W -/
theorem C19_file_example_last :
    ∀ tb ∈ (parse exL₂).2, ∀ ver ver' k', Rd.secKey ver (c19s "~W\n", ([] : List Str)) = some k' → Rd.secKey ver' tb ≠ some k' := by
  intro tb htb ver ver' k' hk'
  have hW : Rd.secKey ver (c19s "~W\n", ([] : List Str)) = some Rd.kWell := by rfl
  rw [hW] at hk'
  cases hk'
  have hp : (parse exL₂).2 = [(c19s "~C\n", [c19s "A.M : a\n", c19s "B.M : b\n"]), (c19s "~A\n", [c19s "1 5\n", c19s "2 6\n"])] := by
    decide
  rw [hp] at htb
  simp only [List.mem_cons, List.not_mem_nil, or_false] at htb
  rcases htb with rfl | rfl
  · have : Rd.secKey ver' (c19s "~C\n", [c19s "A.M : a\n", c19s "B.M : b\n"]) = some Rd.kCurves := by rfl
    rw [this]
    decide
  · have : Rd.secKey ver' (c19s "~A\n", [c19s "1 5\n", c19s "2 6\n"]) = none := by rfl
    rw [this]
    exact fun h => by cases h

/-- the unparsable junk line `no period here`: the hypothesis of `C19_file_unparsable` holds, the whole header is the same -/
theorem C19_file_example_unparsable :
    readFull exO exNull exFt (exL₁ ++ jBad :: exL₂) = .ok ⟨exBase.sections, exBase.steer, exBase.data.map (shiftData 5)⟩ :=
  C19_file_unparsable exO exNull exFt exFt_tilde exL₁ exL₂ (c19s "~W\n") jBad (by decide) (by decide) (by decide) rfl
    (by decide +kernel) exBase exBase_ok

/-- THE STEERING HYPOTHESIS IS NEEDED AT FILE LEVEL. `NULL. 5 : x` inserted in ~Well satisfies every other hypothesis of
`C19_file` (not a title line, inside a header-items section that is not ~Curves, the flag set, the base file readable) and
the file is still readable — but the curves change: the cell `5` of curve B (float `a5`) becomes NaN. -/
theorem C19_file_needs_steer :
    ctxEnd .pre exL₁ = .sec (c19s "~W\n") ∧ kindOf (c19s "~W\n") = .items ∧ Rd.isTitle jNull = false ∧
    exO.hdr.ignoreHeaderErrors = true ∧ Rd.curvesTitle (c19s "~W\n") = false ∧
    Rd.harmlessLine exO.hdr.mnemonicCase jNull = false ∧
    cell10 exBase.parsed.data = some (c19s "a5") ∧
    (∃ r', readFull exO exNull exFt (exL₁ ++ jNull :: exL₂) = .ok r' ∧ cell10 r'.parsed.data = some nanTxt ∧
      r'.parsed.data ≠ exBase.parsed.data ∧ r'.steer ≠ exBase.steer) := by
  refine ⟨by decide, by decide, by decide, rfl, by decide, by decide +kernel, by rfl, ?_⟩
  refine ⟨getRead (readFull exO exNull exFt (exL₁ ++ jNull :: exL₂)), by rfl, by rfl, ?_, by decide +kernel⟩
  intro h
  have h2 := congrArg cell10 h
  have e1 : cell10 (getRead (readFull exO exNull exFt (exL₁ ++ jNull :: exL₂))).parsed.data = some nanTxt := by rfl
  have e2 : cell10 exBase.parsed.data = some (c19s "a5") := by rfl
  rw [e1, e2] at h2
  exact absurd h2 (by decide)

/-- THE ~CURVES EXCLUSION IS NEEDED. The same parsable junk line inserted in ~Curves (after `A.M : a`) is harmless for the
steering values, but it declares a curve: three declared curves instead of two, and the data gain an all-NaN curve. -/
theorem C19_file_needs_not_curves :
    Rd.curvesTitle (c19s "~C\n") = true ∧ Rd.harmlessLine exO.hdr.mnemonicCase jItem = true ∧
    declaredCount exBase.sections = 2 ∧
    (∃ r', readFull exO exNull exFt ((exL₁ ++ exL₂.take 3) ++ jItem :: exL₂.drop 3) = .ok r' ∧
      declaredCount r'.sections = 3 ∧ (r'.parsed.data.map fun x => x.toOption.map List.length) = [some 3] ∧
      (exBase.parsed.data.map fun x => x.toOption.map List.length) = [some 2]) := by
  refine ⟨by decide, by decide +kernel, by rfl, ?_⟩
  exact ⟨getRead (readFull exO exNull exFt ((exL₁ ++ exL₂.take 3) ++ jItem :: exL₂.drop 3)), by rfl, by rfl, by rfl, by rfl⟩

end Lasio.Tf

#print axioms Lasio.Tf.C19_file
#print axioms Lasio.Tf.C19_file_sections
#print axioms Lasio.Tf.C19_file_item_list
#print axioms Lasio.Tf.C19_file_unparsable
#print axioms Lasio.Tf.C19_file_readModel
#print axioms Lasio.Tf.C19_file_total
#print axioms Lasio.Tf.C19_file_total_insert
#print axioms Lasio.Tf.C19_file_example
#print axioms Lasio.Tf.C19_file_example_last
#print axioms Lasio.Tf.C19_file_example_unparsable
#print axioms Lasio.Tf.C19_file_needs_steer
#print axioms Lasio.Tf.C19_file_needs_not_curves
