import LasioProofs.Lemmas.RedelimHeaderLemmas
import LasioProofs.Props.C09Redelim
/-
C09, WHOLE FILE for `Transform.redelim`: "re-delimiting the data with the declared delimiter … yields equal curve data".

The document is given by its structure
    `pre ++ flat ((tV, bV) :: M ++ (t, body) :: s₂)`
— lines `pre` before the first title; the ~Version section `(tV, bV)` is the FIRST section; `(t, body)` is the ONLY data section;
no section of `M`, `s₂` is a ~V section (`OtherSecsOK`).  `redelim first last vk replace frm to seps` with
`first = |pre| + size ((tV, bV) :: M)`, `last = first + |body|`, `vk = |pre| + 1 + |l₁|`:
  * `replace = true`:  `bV = l₁ ++ x :: l₂`, `x` the DLM item line — the only line of the ~Version body whose item answers to DLM under
                       the reader's mnemonic comparison (`isDlmLine`); it becomes `DLM. <to> : delimiter` with the terminator of `x`;
  * `replace = false`: `bV = l₁ ++ l₂`, no line of it is a DLM item; the line `DLM. <to> : delimiter\n` is inserted between `l₁`, `l₂`.

WHAT IS PROVED (`C09_redelim_file_replace`, `C09_redelim_file_insert`): for a readable document (`Base o nullOf ft d r`) whose
declared delimiter is `frm` (SPACE when there is no DLM item), with `NumBody frm c body`, `SepsOK to seps`, the float-table
hypotheses of C09Redelim and the engines agreeing on the re-laid window (`AgreeAlone`; discharged from the document by
`C09_redelim_agree_relaid`), the transformed document is readable (again a `Base`) with
  * `steer` equal except `dlm := some (dlmName to)`;
  * the same sections except the value stored under "Version" (`JRel Rd.kVersion old new`), which is the item list of the
    ~Version body with the one item replaced / inserted at the position the line has among the item lines
    (`I₁ ++ (item of x) :: I₂ ↦ I₁ ++ dlmItem :: I₂`, resp. `I₁ ++ I₂ ↦ I₁ ++ dlmItem :: I₂`, `Iᵢ` = the items of `lᵢ`),
    and that value is what `sections.lookup "Version"` returns in both reads;
  * the same curves for every data section (the engine may change).
The header step on its own: `C09_redelim_header` (`Rd.readLines` of the document with the DLM item replaced / inserted).

HYPOTHESES shown necessary: no second DLM item (`C09_redelim_file_second_dlm`), no second ~V section
(`C09_redelim_file_second_version`), one data section (`C09_redelim_file_two_data_sections`).
RESTRICTIONS of the statement that are NOT forced (the proof uses them, no counter-example exists or is claimed): the ~Version
section is the first section (the proof computes its parser from the provisional version 2.0); its title has no underscore
(`vTitle`); for `replace = false` the line before the insertion point ends with a line feed (otherwise `insLine` adds one).
-/
namespace Lasio.Tf
open Lasio Lasio.Dt

/-- the sections other than ~Version and the data section: no ~V section, no data section -/
def OtherSecsOK (secs : List (Str × List Str)) : Prop := ∀ tb ∈ secs, Rd.isV tb = false ∧ ¬ isDataKind (kindOf tb.1)

instance (secs : List (Str × List Str)) : Decidable (OtherSecsOK secs) := by unfold OtherSecsOK; infer_instance

/-! ## the header step -/

/-- HEADER LEVEL. The ~Version section is the first section, its body is `l₁ ++ ox.toList ++ l₂` (`ox = some x`: the DLM item
line; `ox = none`: nothing there), no other line of it is a DLM item, no other section is a ~V section.  With the line
`DLM. <to> : delimiter` (any terminator `eol`) in that place `Rd.readLines` returns the steering values with `dlm` changed, the
sections related by `JRel` (only the "Version" value differs: the item lists below), the data windows of the new document. -/
theorem C09_redelim_header (o : Rd.ReadOpts) (pre : List Str) (tV : Str) (l₁ l₂ : List Str) (ox : Option Str) (eol : Str) (to : Dlm)
    (B : List (Str × List Str)) (hpre : ∀ x ∈ pre, Rd.isTitle x = false)
    (hw : Rd.WellFormed ((tV, l₁ ++ ox.toList ++ l₂) :: B)) (hV : vTitle tV = true) (he : AllWs eol)
    (hB : ∀ tb ∈ B, Rd.isV tb = false)
    (hx : ∀ x ∈ ox, isDlmLine o x = true) (huniq : ∀ l ∈ l₁ ++ l₂, isDlmLine o l = false)
    (h : Rd.RHeader) (hr : Rd.readLines o (pre ++ Rd.flat ((tV, l₁ ++ ox.toList ++ l₂) :: B)) = .ok h) :
    ∃ secs',
      Rd.readLines o (pre ++ Rd.flat ((tV, l₁ ++ (dlmItemLine to ++ eol) :: l₂) :: B)) =
        .ok ⟨secs', { h.steer with dlm := some (dlmName to) },
              docData ((tV, l₁ ++ (dlmItemLine to ++ eol) :: l₂) :: B) pre.length⟩ ∧
      h.data = docData ((tV, l₁ ++ ox.toList ++ l₂) :: B) pre.length ∧
      JRel Rd.kVersion
        (.items (Rd.bodyItems o vParser l₁ ++ (ox.bind (Rd.lineItem o vParser)).toList ++ Rd.bodyItems o vParser l₂))
        (.items (Rd.bodyItems o vParser l₁ ++ dlmItem o.mnemonicCase to :: Rd.bodyItems o vParser l₂)) h.sections secs' ∧
      h.sections.lookup Rd.kVersion =
        some (.items (Rd.bodyItems o vParser l₁ ++ (ox.bind (Rd.lineItem o vParser)).toList ++ Rd.bodyItems o vParser l₂)) ∧
      secs'.lookup Rd.kVersion =
        some (.items (Rd.bodyItems o vParser l₁ ++ dlmItem o.mnemonicCase to :: Rd.bodyItems o vParser l₂)) :=
  readLines_dlm o pre tV l₁ l₂ ox eol to B hpre hw hV he hB hx huniq h hr

/-- what the new line is for the ~Version parser: the item `DLM`, no unit, value `<to>`, description `delimiter` (the mnemonic in
the case the reader was asked for) -/
theorem C09_redelim_header_item (o : Rd.ReadOpts) (to : Dlm) (eol : Str) (he : AllWs eol) :
    Rd.lineItem o vParser (dlmItemLine to ++ eol) = some (dlmItem o.mnemonicCase to) ∧
    isDlmItem o (dlmItem o.mnemonicCase to) = true ∧ Rd.delimiters.contains (dlmName to) = true ∧
    dlmOf (some (dlmName to)) = to :=
  ⟨lineItem_dlmLine o to eol he, dlmItem_isDlm o to, delimiters_dlmName to, dlmOf_dlmName' to⟩

/-! ## the engines on the re-laid window -/

/-- `AgreeAlone` on the re-laid window (the hypothesis of the whole-file theorems) from the document: the normal engine is in
effect; or SPACE / TAB on both sides and the engines agree on the original window; or the new delimiter is COMMA, `float()`
rejects tokens with a comma, and the window has a data line of two or more cells (genfromtxt raises) -/
theorem C09_redelim_agree_relaid (o : DataOpts) (st : Steer) (d : Nat) (ft : FloatTable) (to : Dlm) (c : Nat)
    (seps : List Str) (body : List Str) (hnb : NumBody st.delimiter c body) (hs : SepsOK to seps)
    (hS : FtStripOn ft (normalTokens (readSubs st.delimiter) st.delimiter body))
    (hS' : FtStripOn ft (normalTokens (readSubs to) to (relayBody st.delimiter to seps body)))
    (hC : Converts ft (normalTokens (readSubs st.delimiter) st.delimiter body))
    (hcase : effectiveEngine o st = .normal ∨
      (st.delimiter ≠ .comma ∧ to ≠ .comma ∧ AgreeAlone o st d ft body) ∨
      (to = .comma ∧ CommaNotFloat ft ∧ 2 ≤ c ∧ ∃ l ∈ body, isSkip l = false)) :
    AgreeAlone o (withDlm st to) d ft (relayBody st.delimiter to seps body) := by
  have hrel := bodyRel_relayBody st.delimiter to c seps body hnb hs
  rcases hcase with h1 | ⟨hf, ht, hag⟩ | ⟨rfl, hcf, hc2, hd⟩
  · exact agreeAlone_of_normal o _ d ft _ h1
  · unfold AgreeAlone at hag ⊢
    rw [readBody_rel_ws o st to d ft [] hf ht hrel hS hS' hC, normalRead_rel o st to d ft hrel hS hS' hC]
    exact hag
  · unfold AgreeAlone
    rw [readBody_comma o (withDlm st .comma) d ft hcf (bodyRel_right hrel) hc2 (bodyRel_data hrel hd)]

/-! ## the whole file -/

/-- WHOLE FILE, `replace = true`: the DLM item line `x` of ~Version is replaced, the data section re-delimited. -/
theorem C09_redelim_file_replace (o : Opts) (nullOf : Option Str → Option Str) (ft : FloatTable) (htf : TildeNotFloat ft)
    (pre : List Str) (tV : Str) (l₁ l₂ : List Str) (x : Str) (M s₂ : List (Str × List Str)) (t : Str) (body : List Str)
    (frm to : Dlm) (c : Nat) (seps : List Str) (r : FullRead)
    (hpre : ∀ y ∈ pre, Rd.isTitle y = false)
    (hw : Rd.WellFormed ((tV, l₁ ++ x :: l₂) :: M ++ (t, body) :: s₂)) (hV : vTitle tV = true)
    (hM : OtherSecsOK (M ++ s₂)) (hk : isDataKind (kindOf t))
    (hx : isDlmLine o.hdr x = true) (huniq : ∀ l ∈ l₁ ++ l₂, isDlmLine o.hdr l = false)
    (hb : Base o nullOf ft (pre ++ Rd.flat ((tV, l₁ ++ x :: l₂) :: M ++ (t, body) :: s₂)) r)
    (hfrm : (dtSteer nullOf r.steer).delimiter = frm)
    (hnb : NumBody frm c body) (hs : SepsOK to seps)
    (hS : FtStripOn ft (normalTokens (readSubs frm) frm body))
    (hS' : FtStripOn ft (normalTokens (readSubs to) to (relayBody frm to seps body)))
    (hC : Converts ft (normalTokens (readSubs frm) frm body))
    (hag' : AgreeAlone o.dat (withDlm (dtSteer nullOf r.steer) to) (declaredCount r.sections) ft (relayBody frm to seps body)) :
    ∃ r', Base o nullOf ft
        ((Transform.redelim (pre.length + Rd.size ((tV, l₁ ++ x :: l₂) :: M))
            (pre.length + Rd.size ((tV, l₁ ++ x :: l₂) :: M) + body.length) (pre.length + 1 + l₁.length) true frm to seps).apply
          (pre ++ Rd.flat ((tV, l₁ ++ x :: l₂) :: M ++ (t, body) :: s₂))) r' ∧
      r'.steer = { r.steer with dlm := some (dlmName to) } ∧
      JRel Rd.kVersion
        (.items (Rd.bodyItems o.hdr vParser l₁ ++ (Rd.lineItem o.hdr vParser x).toList ++ Rd.bodyItems o.hdr vParser l₂))
        (.items (Rd.bodyItems o.hdr vParser l₁ ++ dlmItem o.hdr.mnemonicCase to :: Rd.bodyItems o.hdr vParser l₂))
        r.sections r'.sections ∧
      r.sections.lookup Rd.kVersion =
        some (.items (Rd.bodyItems o.hdr vParser l₁ ++ (Rd.lineItem o.hdr vParser x).toList ++ Rd.bodyItems o.hdr vParser l₂)) ∧
      r'.sections.lookup Rd.kVersion =
        some (.items (Rd.bodyItems o.hdr vParser l₁ ++ dlmItem o.hdr.mnemonicCase to :: Rd.bodyItems o.hdr vParser l₂)) ∧
      r'.data.map (fun y => y.res.map Prod.snd) = r.data.map (fun y => y.res.map Prod.snd) := by
  have e : l₁ ++ (some x).toList ++ l₂ = l₁ ++ x :: l₂ := by simp
  have core := readFull_redelim_core o nullOf ft htf pre tV l₁ l₂ (some x) (splitEol x).2 frm to c seps M s₂ t body r hpre
    (by rw [e]; exact hw) hV (splitEol_allWs x) hM hk (fun y hy => by cases hy; exact hx) huniq (by rw [e]; exact hb) hfrm hnb hs
    hS hS' hC hag'
  simp only [Transform.apply]
  rw [redelim_struct_replace]
  simpa using core

/-- WHOLE FILE, `replace = false`: the document declares no delimiter (no line of ~Version is a DLM item; so `frm` is SPACE); the
line `DLM. <to> : delimiter` is inserted between `l₁` and `l₂` of the ~Version body, the data section re-delimited. -/
theorem C09_redelim_file_insert (o : Opts) (nullOf : Option Str → Option Str) (ft : FloatTable) (htf : TildeNotFloat ft)
    (pre : List Str) (tV : Str) (l₁ l₂ : List Str) (M s₂ : List (Str × List Str)) (t : Str) (body : List Str)
    (frm to : Dlm) (c : Nat) (seps : List Str) (r : FullRead)
    (hpre : ∀ y ∈ pre, Rd.isTitle y = false)
    (hw : Rd.WellFormed ((tV, l₁ ++ l₂) :: M ++ (t, body) :: s₂)) (hV : vTitle tV = true)
    (hterm : ∀ y, (tV :: l₁).getLast? = some y → y.getLast? = some '\n')
    (hM : OtherSecsOK (M ++ s₂)) (hk : isDataKind (kindOf t))
    (huniq : ∀ l ∈ l₁ ++ l₂, isDlmLine o.hdr l = false)
    (hb : Base o nullOf ft (pre ++ Rd.flat ((tV, l₁ ++ l₂) :: M ++ (t, body) :: s₂)) r)
    (hfrm : (dtSteer nullOf r.steer).delimiter = frm)
    (hnb : NumBody frm c body) (hs : SepsOK to seps)
    (hS : FtStripOn ft (normalTokens (readSubs frm) frm body))
    (hS' : FtStripOn ft (normalTokens (readSubs to) to (relayBody frm to seps body)))
    (hC : Converts ft (normalTokens (readSubs frm) frm body))
    (hag' : AgreeAlone o.dat (withDlm (dtSteer nullOf r.steer) to) (declaredCount r.sections) ft (relayBody frm to seps body)) :
    ∃ r', Base o nullOf ft
        ((Transform.redelim (pre.length + Rd.size ((tV, l₁ ++ l₂) :: M))
            (pre.length + Rd.size ((tV, l₁ ++ l₂) :: M) + body.length) (pre.length + 1 + l₁.length) false frm to seps).apply
          (pre ++ Rd.flat ((tV, l₁ ++ l₂) :: M ++ (t, body) :: s₂))) r' ∧
      r'.steer = { r.steer with dlm := some (dlmName to) } ∧
      JRel Rd.kVersion
        (.items (Rd.bodyItems o.hdr vParser l₁ ++ Rd.bodyItems o.hdr vParser l₂))
        (.items (Rd.bodyItems o.hdr vParser l₁ ++ dlmItem o.hdr.mnemonicCase to :: Rd.bodyItems o.hdr vParser l₂))
        r.sections r'.sections ∧
      r.sections.lookup Rd.kVersion = some (.items (Rd.bodyItems o.hdr vParser l₁ ++ Rd.bodyItems o.hdr vParser l₂)) ∧
      r'.sections.lookup Rd.kVersion =
        some (.items (Rd.bodyItems o.hdr vParser l₁ ++ dlmItem o.hdr.mnemonicCase to :: Rd.bodyItems o.hdr vParser l₂)) ∧
      r'.data.map (fun y => y.res.map Prod.snd) = r.data.map (fun y => y.res.map Prod.snd) := by
  have e : l₁ ++ (none : Option Str).toList ++ l₂ = l₁ ++ l₂ := by simp
  have core := readFull_redelim_core o nullOf ft htf pre tV l₁ l₂ none nl frm to c seps M s₂ t body r hpre
    (by rw [e]; exact hw) hV allWs_nl hM hk (fun y hy => by cases hy) huniq (by rw [e]; exact hb) hfrm hnb hs hS hS' hC hag'
  simp only [Transform.apply]
  rw [redelim_struct_insert pre tV l₁ l₂ M s₂ t body frm to seps hterm]
  simpa using core

/-- the declared delimiter of a document without DLM item in ~Version is SPACE: `frm = .space` in `C09_redelim_file_insert` -/
theorem C09_redelim_file_insert_frm (o : Opts) (nullOf : Option Str → Option Str) (ft : FloatTable)
    (pre : List Str) (tV : Str) (l₁ l₂ : List Str) (B : List (Str × List Str)) (r : FullRead)
    (hpre : ∀ y ∈ pre, Rd.isTitle y = false) (hw : Rd.WellFormed ((tV, l₁ ++ l₂) :: B)) (hV : vTitle tV = true)
    (hB : ∀ tb ∈ B, Rd.isV tb = false) (huniq : ∀ l ∈ l₁ ++ l₂, isDlmLine o.hdr l = false)
    (hr : readFull o nullOf ft (pre ++ Rd.flat ((tV, l₁ ++ l₂) :: B)) = .ok r) :
    r.steer.dlm = none ∧ (dtSteer nullOf r.steer).delimiter = .space := by
  unfold readFull at hr
  cases hh : Rd.readLines o.hdr (pre ++ Rd.flat ((tV, l₁ ++ l₂) :: B)) with
  | error e => rw [hh] at hr; cases hr
  | ok h =>
    rw [hh] at hr
    cases hr
    -- insert a DLM line, then compare: the steering of the new document is the old one with `dlm` overwritten; the old `dlm`
    -- itself is read off the ~Version section directly
    have e : l₁ ++ (none : Option Str).toList ++ l₂ = l₁ ++ l₂ := by simp
    have hdlm : h.steer.dlm = none := by
      rw [readLines_struct o.hdr pre _ hpre hw (by simp)] at hh
      cases hd : Rd.docSections o.hdr ((tV, l₁ ++ l₂) :: B) pre.length Rd.RState.init with
      | error e => rw [hd] at hh; cases hh
      | ok st =>
        rw [hd] at hh
        simp only at hh
        simp only [Rd.docSections] at hd
        cases hT : Rd.docSection o.hdr pre.length (tV, l₁ ++ l₂) Rd.RState.init with
        | error e => rw [hT] at hd; cases hd
        | ok s2 =>
          rw [hT] at hd
          simp only at hd
          -- after ~Version
          have hk : Rd.sectionType (Rd.sline tV) = .items := vTitle_kind hV
          have hp : Rd.mkParser (Rd.lineStrip tV) (Rd.classifyVer Rd.RState.init.steer.vers) = .ok vParser := vTitle_parser hV
          unfold Rd.docSection at hT
          simp only [hk, hp] at hT
          cases hbr : Rd.bodyRun o.hdr vParser (l₁ ++ l₂) pre.length with
          | error e => simp only [hbr] at hT; cases hT
          | ok items =>
            simp only [hbr] at hT
            obtain ⟨_, hie⟩ := (bodyRun_ok_iff o.hdr vParser _ _ _).mp hbr
            obtain ⟨k, _, _, hs2⟩ := Rd.finishItems_ok o.hdr _ items Rd.RState.init s2 hT
            have hs2d : s2.steer.dlm = none := by
              rw [hs2]
              simp only
              unfold Rd.steer
              simp only [vTitle_letter hV, beq_self_eq_true, if_true]
              have hks : dlmKey ∈ Rd.steerKeys := by simp [Rd.steerKeys, dlmKey]
              have hl : Rd.lookupItem (trOf o.hdr) items dlmKey = none := by
                rw [Rd.lookupItem_eq _ dlmKey (Rd.steerKey_nocolon _ dlmKey hks)]
                have : items.filter (fun it => Rd.mcmp (trOf o.hdr) (Rd.U it) dlmKey) = [] := by
                  rw [List.filter_eq_nil_iff]
                  intro it hit
                  rw [hie] at hit
                  obtain ⟨l, hl, hli⟩ := mem_bodyItems o.hdr vParser _ it hit
                  have := huniq l hl
                  unfold isDlmLine at this
                  rw [hli] at this
                  unfold isDlmItem at this
                  simp [this]
                rw [this]; rfl
              simp only [trOf, dlmKey] at hl
              rw [hl]
              rfl
            -- the sections after ~Version leave `dlm` alone
            have hkeep : ∀ (secs : List (Str × List Str)) (n : Nat) (a b : Rd.RState), (∀ tb ∈ secs, Rd.isV tb = false) →
                Rd.docSections o.hdr secs n a = .ok b → b.steer.dlm = a.steer.dlm := by
              intro secs
              induction secs with
              | nil => intro n a b _ hab; simp only [Rd.docSections] at hab; cases hab; rfl
              | cons tb rest ih =>
                intro n a b hv hab
                simp only [Rd.docSections] at hab
                cases hd1 : Rd.docSection o.hdr n tb a with
                | error e => rw [hd1] at hab; cases hab
                | ok a1 =>
                  rw [hd1] at hab
                  simp only at hab
                  obtain ⟨a1', h1, h2, _, _⟩ := docSection_D a.steer.dlm (fun _ => True) (fun _ _ => True)
                    (fun _ _ _ _ _ _ => trivial) o.hdr n n tb a a a1 (hv tb List.mem_cons_self) (fun _ _ _ => trivial) rfl rfl trivial hd1
                  rw [hd1] at h1
                  cases h1
                  have e1 : a1.steer.dlm = a.steer.dlm := by rw [h2]
                  rw [ih _ a1 b (fun y hy => hv y (List.mem_cons_of_mem _ hy)) hab, e1]
            have hst := hkeep B _ s2 st hB hd
            obtain ⟨f1, _⟩ := finishRead_same st st h rfl rfl hh
            rw [f1]
            simp only
            rw [hst, hs2d]
    refine ⟨hdlm, ?_⟩
    simp only [dtSteer, hdlm, dlmOf]


/-! ## the hypotheses are needed -/

def rfDocA : Doc := [c09r "~V\n", c09r "VERS. 2.0 : v\n", c09r "WRAP. NO : w\n", c09r "DLM. COMMA : d\n", c09r "DLM. COMMA : e\n",
  c09r "~C\n", c09r "A.M : a\n", c09r "B.M : b\n", c09r "~A\n", c09r "1,2\n", c09r "3,4\n"]

/-- `huniq` (no second DLM item) is needed: with two items named DLM the session mnemonics are `DLM:1`, `DLM:2`, `"DLM" in section`
is false, and replacing one of them leaves the steering delimiter undeclared (SPACE) — while the data are now TAB-delimited -/
theorem C09_redelim_file_second_dlm :
    isDlmLine rdExOpts.hdr (c09r "DLM. COMMA : e\n") = true ∧
    (rdExHdr rfDocA).steer.dlm = none ∧
    (rdExHdr (redelim 8 10 3 true .comma .tab [] rfDocA)).steer.dlm = none ∧
    (redelim 8 10 3 true .comma .tab [] rfDocA)[3]? = some (c09r "DLM. TAB : delimiter\n") := by
  refine ⟨by decide, by rfl, by rfl, by decide⟩

def rfDocB : Doc := [c09r "~V\n", c09r "VERS. 2.0 : v\n", c09r "WRAP. NO : w\n", c09r "DLM. COMMA : d\n", c09r "~C\n", c09r "A.M : a\n",
  c09r "B.M : b\n", c09r "~V2\n", c09r "DLM. COMMA : z\n", c09r "~A\n", c09r "1,2\n", c09r "3,4\n"]

/-- `OtherSecsOK` (no second ~V section) is needed: a later ~V section with a DLM item overrides the new one -/
theorem C09_redelim_file_second_version :
    ¬ OtherSecsOK [(c09r "~C\n", [c09r "A.M : a\n", c09r "B.M : b\n"]), (c09r "~V2\n", [c09r "DLM. COMMA : z\n"])] ∧
    (rdExHdr (redelim 9 11 3 true .comma .tab [] rfDocB)).steer.dlm = some (c09r "COMMA") ∧
    (redelim 9 11 3 true .comma .tab [] rfDocB)[3]? = some (c09r "DLM. TAB : delimiter\n") ∧
    (redelim 9 11 3 true .comma .tab [] rfDocB)[10]? = some (c09r "1\t2\n") := by
  refine ⟨by decide, by rfl, by decide, by decide⟩

def rfDocC : Doc := [c09r "~V\n", c09r "VERS. 2.0 : v\n", c09r "WRAP. NO : w\n", c09r "DLM. COMMA : d\n", c09r "~C\n", c09r "A.M : a\n",
  c09r "B.M : b\n", c09r "~A\n", c09r "1,2\n", c09r "~A\n", c09r "3,4\n"]

/-- ONE data section is needed: `redelim` re-lays one window, the new delimiter steers the reading of all of them -/
theorem C09_redelim_file_two_data_sections :
    (rdExHdr rfDocC).data = [(7, 8, c09r "~A"), (9, 10, c09r "~A")] ∧
    (rdExHdr (redelim 7 8 3 true .comma .tab [] rfDocC)).data = [(7, 8, c09r "~A"), (9, 10, c09r "~A")] ∧
    readData ⟨.normal, .strict⟩ rfDocC 9 10 rdStComma 2 rdFt14 =
      .ok (.normal, [(.declared 0, .floats [c09r "a3"]), (.declared 1, .floats [c09r "a4"])]) ∧
    readData ⟨.normal, .strict⟩ (redelim 7 8 3 true .comma .tab [] rfDocC) 9 10 (withDlm rdStComma .tab) 2 rdFt14 =
      .ok (.normal, [(.declared 0, .text [c09r "3.4"]), (.declared 1, .floats [c09r "nan"])]) := by
  refine ⟨by rfl, by rfl, by rfl, by rfl⟩

/-! ## non-vacuity -/

def rfC : Str × List Str := (c09r "~C\n", [c09r "A.M : a\n", c09r "B.M : b\n", c09r "C.M : c\n"])
def rfDoc : Doc := [] ++ Rd.flat ((c09r "~V\n", [c09r "VERS. 2.0 : v\n", c09r "WRAP. NO : w\n"] ++ c09r "DLM. COMMA : d\n" :: []) ::
  [rfC] ++ (c09r "~A\n", rdExBody) :: [])

def rfRead (d : Doc) (ft : FloatTable) : FullRead :=
  match readFull rdExOpts (fun _ => none) ft d with
  | .ok r => r
  | .error _ => ⟨[], Rd.Steer.init, []⟩

/-- REPLACE: the example of C09Redelim (COMMA-delimited data with padding blanks, a comment line, a CRLF line; the DLM item is
line 3) re-delimited with TABs — all side conditions hold (by evaluation), and, instance of `C09_redelim_file_replace`, the
transformed file is readable with `dlm = TAB`, the "Version" items `VERS, WRAP, DLM=TAB`, and the same curves. -/
example :
    (Transform.redelim 8 11 3 true .comma .tab rdExSeps).apply rfDoc =
      [c09r "~V\n", c09r "VERS. 2.0 : v\n", c09r "WRAP. NO : w\n", c09r "DLM. TAB : delimiter\n", c09r "~C\n", c09r "A.M : a\n",
        c09r "B.M : b\n", c09r "C.M : c\n", c09r "~A\n", c09r "1.5 \t-2\t\t3e5\n", c09r "# 2018-05-22 - note\n", c09r "4 \t5\t\t6\r\n"] ∧
    ∃ r', Base rdExOpts (fun _ => none) rdExFt ((Transform.redelim 8 11 3 true .comma .tab rdExSeps).apply rfDoc) r' ∧
      r'.steer = { (rfRead rfDoc rdExFt).steer with dlm := some (c09r "TAB") } ∧
      r'.sections.lookup Rd.kVersion = some (.items [⟨c09r "VERS", [], c09r "2.0", c09r "v"⟩, ⟨c09r "WRAP", [], c09r "NO", c09r "w"⟩,
        ⟨c09r "DLM", [], c09r "TAB", c09r "delimiter"⟩]) ∧
      r'.data.map (fun y => y.res.map Prod.snd) = (rfRead rfDoc rdExFt).data.map (fun y => y.res.map Prod.snd) := by
  refine ⟨by decide, ?_⟩
  have hb : Base rdExOpts (fun _ => none) rdExFt rfDoc (rfRead rfDoc rdExFt) :=
    ⟨by rfl, fun tb _ _ => agreeAlone_of_normal _ _ _ _ _ (by rfl)⟩
  obtain ⟨r', h1, h2, _, _, h5, h6⟩ := C09_redelim_file_replace rdExOpts (fun _ => none) rdExFt C09_redelim_example_tilde []
    (c09r "~V\n") [c09r "VERS. 2.0 : v\n", c09r "WRAP. NO : w\n"] [] (c09r "DLM. COMMA : d\n") [rfC] [] (c09r "~A\n") rdExBody
    .comma .tab 3 rdExSeps (rfRead rfDoc rdExFt) (by intro y hy; cases hy) (by unfold Rd.WellFormed; decide) (by decide) (by decide)
    (by decide) (by decide) (by decide) hb (by rfl) (by decide) (by decide) (by unfold FtStripOn; decide)
    (by unfold FtStripOn; decide) (by unfold Converts; decide) (agreeAlone_of_normal _ _ _ _ _ (by rfl))
  exact ⟨r', h1, h2, h5, h6⟩

def rfDoc2 : Doc := [] ++ Rd.flat ((c09r "~V\n", [c09r "VERS. 2.0 : v\n", c09r "WRAP. NO : w\n"] ++ []) ::
  [(c09r "~C\n", [c09r "A.M : a\n", c09r "B.M : b\n"])] ++ (c09r "~A\n", [c09r "1 2\n", c09r "3  4\n"]) :: [])

theorem C09_redelim_example_tilde14 : TildeNotFloat rdFt14 := by
  intro t ht
  cases t with
  | nil => simp at ht
  | cons c cs =>
    simp only [List.head?_cons, Option.some.injEq] at ht
    subst ht
    rfl

/-- INSERT: a file that declares no delimiter, blank-delimited data; a DLM item is inserted at the end of ~Version and the data
are re-delimited with commas (instance of `C09_redelim_file_insert`) -/
example :
    (Transform.redelim 6 8 3 false .space .comma []).apply rfDoc2 =
      [c09r "~V\n", c09r "VERS. 2.0 : v\n", c09r "WRAP. NO : w\n", c09r "DLM. COMMA : delimiter\n", c09r "~C\n", c09r "A.M : a\n",
        c09r "B.M : b\n", c09r "~A\n", c09r "1,2\n", c09r "3,4\n"] ∧
    ∃ r', Base rdExOpts (fun _ => none) rdFt14 ((Transform.redelim 6 8 3 false .space .comma []).apply rfDoc2) r' ∧
      r'.steer = { (rfRead rfDoc2 rdFt14).steer with dlm := some (c09r "COMMA") } ∧
      r'.sections.lookup Rd.kVersion = some (.items [⟨c09r "VERS", [], c09r "2.0", c09r "v"⟩, ⟨c09r "WRAP", [], c09r "NO", c09r "w"⟩,
        ⟨c09r "DLM", [], c09r "COMMA", c09r "delimiter"⟩]) ∧
      r'.data.map (fun y => y.res.map Prod.snd) = (rfRead rfDoc2 rdFt14).data.map (fun y => y.res.map Prod.snd) := by
  refine ⟨by decide, ?_⟩
  have hb : Base rdExOpts (fun _ => none) rdFt14 rfDoc2 (rfRead rfDoc2 rdFt14) :=
    ⟨by rfl, fun tb _ _ => agreeAlone_of_normal _ _ _ _ _ (by rfl)⟩
  obtain ⟨r', h1, h2, _, _, h5, h6⟩ := C09_redelim_file_insert rdExOpts (fun _ => none) rdFt14 C09_redelim_example_tilde14 []
    (c09r "~V\n") [c09r "VERS. 2.0 : v\n", c09r "WRAP. NO : w\n"] [] [(c09r "~C\n", [c09r "A.M : a\n", c09r "B.M : b\n"])] []
    (c09r "~A\n") [c09r "1 2\n", c09r "3  4\n"] .space .comma 2 [] (rfRead rfDoc2 rdFt14) (by intro y hy; cases hy)
    (by unfold Rd.WellFormed; decide) (by decide) (by decide) (by decide) (by decide) (by decide) hb (by rfl) (by decide) trivial
    (by unfold FtStripOn; decide) (by unfold FtStripOn; decide) (by unfold Converts; decide)
    (agreeAlone_of_normal _ _ _ _ _ (by rfl))
  exact ⟨r', h1, h2, h5, h6⟩

end Lasio.Tf

#print axioms Lasio.Tf.C09_redelim_header
#print axioms Lasio.Tf.C09_redelim_header_item
#print axioms Lasio.Tf.C09_redelim_agree_relaid
#print axioms Lasio.Tf.C09_redelim_file_replace
#print axioms Lasio.Tf.C09_redelim_file_insert
#print axioms Lasio.Tf.C09_redelim_file_insert_frm
#print axioms Lasio.Tf.C09_redelim_file_second_dlm
#print axioms Lasio.Tf.C09_redelim_file_second_version
#print axioms Lasio.Tf.C09_redelim_file_two_data_sections
