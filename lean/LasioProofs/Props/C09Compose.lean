import LasioProofs.Lemmas.ComposeAll
/-
C09, COMPOSITION including the delimiter transformations.

`Props/C09.lean` proves `C09_step` / `C09_compose` for the side condition `OK` (which excludes `repadLine` on TAB / COMMA data and
`.redelim`).  Here:

1  `OK'` (Lemmas/ComposeAll.lean) = `OK`, or `repadLine k dlm seps` on numeric cells for ANY delimiter (`RepadOK`: line `k` is a data
   line of a data section whose body is `NumBody`, `SepsOK`, the float-table conditions, normal engine in effect or `dlm ≠ COMMA`).
   `C09_step'`, `C09_compose'`, `C09_compose_readModel'`: the conclusions of `C09_step` / `C09_compose` for `OK'`.
2  `ParsedUpToDlm` (an equivalence: `C09_parsedUpToDlm_equiv`): the same sections but for the DLM items of the "Version" item list,
   the same curves of every data section.  `C09_redelim_step`: a `.redelim` step under `RedelimOK` (the document hypotheses of
   `C09_redelim_file_replace` / `_insert`) keeps `Base`, changes `steer` in `dlm` only, and the parsed result up to the DLM item.
   `C09_compose_all`: ANY finite list mixing the old transformations, TAB/COMMA `repadLine` and `.redelim` steps, each side
   condition holding for the document and the steering values reached (`ChainAll`): the final document is readable, its parsed
   result is `ParsedUpToDlm` the base's, its steering delimiter is the one of the last `.redelim`.
   `C09_compose_all_no_redelim`: without `.redelim` the chain condition is `Chain'` and `C09_compose'` gives equality.
3  a concrete chain: insBlank, crlf, repadLine on COMMA data, redelim COMMA→TAB.
-/
namespace Lasio.Tf
open Lasio Lasio.Dt

/-! ## 1. `OK'`: single step and composition -/

/-- SINGLE STEP for the extended side condition: the conclusion of `C09_step` -/
theorem C09_step' (o : Opts) (nullOf : Option Str → Option Str) (ft : FloatTable) (htf : TildeNotFloat ft)
    (t : Transform) (d : Doc) (r : FullRead) (hb : Base o nullOf ft d r)
    (hok : OK' o.dat ft (dtSteer nullOf r.steer) (declaredCount r.sections) t d) :
    ∃ r', Base o nullOf ft (t.apply d) r' ∧ r'.steer = r.steer ∧ r'.parsed = r.parsed := by
  rcases hok with hok | hok
  · exact C09_step o nullOf ft htf t d r hb hok
  · cases t with
    | repadLine k dlm seps =>
      obtain ⟨pre, s₁, s₂, tt, body, j, c, rfl, hpre, hw, rfl, hk, hj, hdata, hdlm, heng, hnb, hs, hS, hS', hC⟩ := hok
      exact C09_repad_delimited_file o nullOf ft htf pre s₁ s₂ tt body j dlm seps c r hpre hw hk hj hdata hb hdlm heng hnb hs hS hS' hC
    | _ => exact absurd hok (by simp [NumOK])

theorem C09_step_readModel' (o : Opts) (nullOf : Option Str → Option Str) (ft : FloatTable) (htf : TildeNotFloat ft)
    (t : Transform) (d : Doc) (r : FullRead) (hb : Base o nullOf ft d r)
    (hok : OK' o.dat ft (dtSteer nullOf r.steer) (declaredCount r.sections) t d) :
    readModel o nullOf ft (t.apply d) = readModel o nullOf ft d := by
  obtain ⟨r', hb', _, hp⟩ := C09_step' o nullOf ft htf t d r hb hok
  unfold readModel
  rw [hb'.read, hb.read]
  simp only [Except.map, hp]

/-- COMPOSITION for the extended side condition: any finite list of transformations (no `.redelim`) whose side conditions `OK'`
hold along the way leaves the steering values and the parsed result of a readable document unchanged -/
theorem C09_compose' (o : Opts) (nullOf : Option Str → Option Str) (ft : FloatTable) (htf : TildeNotFloat ft)
    (ts : List Transform) (d : Doc) (r : FullRead) (hb : Base o nullOf ft d r)
    (hc : Chain' o.dat ft (dtSteer nullOf r.steer) (declaredCount r.sections) ts d) :
    ∃ r', Base o nullOf ft (applyAll ts d) r' ∧ r'.steer = r.steer ∧ r'.parsed = r.parsed := by
  induction ts generalizing d r with
  | nil => exact ⟨r, hb, rfl, rfl⟩
  | cons t ts ih =>
    obtain ⟨hok, hrest⟩ := hc
    obtain ⟨r1, hb1, hs1, hp1⟩ := C09_step' o nullOf ft htf t d r hb hok
    have hsec : r1.sections = r.sections := congrArg Parsed.sections hp1
    rw [← hs1, ← hsec] at hrest
    obtain ⟨r2, hb2, hs2, hp2⟩ := ih (t.apply d) r1 hb1 hrest
    exact ⟨r2, hb2, hs2.trans hs1, hp2.trans hp1⟩

theorem C09_compose_readModel' (o : Opts) (nullOf : Option Str → Option Str) (ft : FloatTable) (htf : TildeNotFloat ft)
    (ts : List Transform) (d : Doc) (r : FullRead) (hb : Base o nullOf ft d r)
    (hc : Chain' o.dat ft (dtSteer nullOf r.steer) (declaredCount r.sections) ts d) :
    readModel o nullOf ft (applyAll ts d) = readModel o nullOf ft d := by
  obtain ⟨r', hb', _, hp⟩ := C09_compose' o nullOf ft htf ts d r hb hc
  unfold readModel
  rw [hb'.read, hb.read]
  simp only [Except.map, hp]

/-- the chains of `C09_compose` are chains of `C09_compose'` -/
theorem C09_chain'_of_chain (o : DataOpts) (ft : FloatTable) (st : Steer) (dc : Nat) (ts : List Transform) (d : Doc)
    (h : Chain st dc ts d) : Chain' o ft st dc ts d := by
  induction ts generalizing d with
  | nil => trivial
  | cons t ts ih => exact ⟨Or.inl h.1, ih _ h.2⟩

/-! ## 2. `.redelim` steps: equal up to the DLM item -/

/-- `ParsedUpToDlm` is an equivalence relation -/
theorem C09_parsedUpToDlm_equiv (o : Rd.ReadOpts) :
    (∀ p, ParsedUpToDlm o p p) ∧ (∀ p p', ParsedUpToDlm o p p' → ParsedUpToDlm o p' p) ∧
    (∀ p p' p'', ParsedUpToDlm o p p' → ParsedUpToDlm o p' p'' → ParsedUpToDlm o p p'') :=
  ⟨parsedUpToDlm_refl o, fun _ _ => parsedUpToDlm_symm o, fun _ _ _ => parsedUpToDlm_trans o⟩

theorem isDlmLine_item (o : Rd.ReadOpts) (x : Str) (h : isDlmLine o x = true) :
    ∀ it ∈ Rd.lineItem o vParser x, isDlmItem o it = true := by
  intro it hit
  unfold isDlmLine at h
  have e : Rd.lineItem o vParser x = some it := hit
  rw [e] at h
  exact h

/-- ONE `.redelim` STEP. A readable document and a `.redelim` whose side condition `RedelimOK` holds for its steering values: the
transformed document is readable (again a `Base`), `steer` is changed in `dlm` only, the parsed result is the same up to the DLM
item. -/
theorem C09_redelim_step (o : Opts) (nullOf : Option Str → Option Str) (ft : FloatTable) (htf : TildeNotFloat ft)
    (first last vk : Nat) (replace : Bool) (frm to : Dlm) (seps : List Str) (d : Doc) (r : FullRead) (hb : Base o nullOf ft d r)
    (hok : RedelimOK o ft (dtSteer nullOf r.steer) (declaredCount r.sections) first last vk replace frm to seps d) :
    ∃ r', Base o nullOf ft ((Transform.redelim first last vk replace frm to seps).apply d) r' ∧
      r'.steer = { r.steer with dlm := some (dlmName to) } ∧ ParsedUpToDlm o.hdr r.parsed r'.parsed := by
  obtain ⟨pre, tV, l₁, l₂, ox, M, s₂, t, body, c, rfl, hrep, rfl, rfl, rfl, hpre, hw, hV, hterm, hM, hk, hx, huniq, hfrm, hnb, hs,
    hS, hS', hC, hag⟩ := hok
  cases ox with
  | none =>
    simp only [Option.isSome_none] at hrep
    subst hrep
    simp only [Option.toList_none, List.append_nil] at hw hb ⊢
    obtain ⟨r', h1, h2, h3, _, _, h6⟩ := C09_redelim_file_insert o nullOf ft htf pre tV l₁ l₂ M s₂ t body frm to c seps r hpre hw hV
      (hterm rfl) hM hk huniq hb hfrm hnb hs hS hS' hC hag
    refine ⟨r', h1, h2, ?_, h6.symm⟩
    have := itemsUpToDlm_dlm o.hdr (Rd.bodyItems o.hdr vParser l₁) (Rd.bodyItems o.hdr vParser l₂) none
      (dlmItem o.hdr.mnemonicCase to) (by intro it hit; cases hit) (dlmItem_isDlm o.hdr to)
    simp only [Option.toList_none, List.append_nil] at this
    exact secsUpToDlm_of_jrel o.hdr _ _ this h3
  | some x =>
    simp only [Option.isSome_some] at hrep
    subst hrep
    simp only [Option.toList_some, List.append_assoc, List.singleton_append] at hw hb ⊢
    obtain ⟨r', h1, h2, h3, _, _, h6⟩ := C09_redelim_file_replace o nullOf ft htf pre tV l₁ l₂ x M s₂ t body frm to c seps r hpre hw hV
      hM hk (hx x rfl) huniq hb hfrm hnb hs hS hS' hC hag
    refine ⟨r', h1, h2, ?_, h6.symm⟩
    exact secsUpToDlm_of_jrel o.hdr _ _
      (itemsUpToDlm_dlm o.hdr _ _ (Rd.lineItem o.hdr vParser x) _ (isDlmLine_item o.hdr x (hx x rfl)) (dlmItem_isDlm o.hdr to)) h3

/-- ONE STEP of a mixed list: `Base` is kept, the parsed result is kept up to the DLM item, the steering values are those
`nextSteer` predicts, the number of declared curves is unchanged -/
theorem C09_step_all (o : Opts) (nullOf : Option Str → Option Str) (ft : FloatTable) (htf : TildeNotFloat ft)
    (t : Transform) (d : Doc) (r : FullRead) (hb : Base o nullOf ft d r)
    (hok : StepOK o ft (dtSteer nullOf r.steer) (declaredCount r.sections) t d) :
    ∃ r', Base o nullOf ft (t.apply d) r' ∧ ParsedUpToDlm o.hdr r.parsed r'.parsed ∧
      dtSteer nullOf r'.steer = nextSteer (dtSteer nullOf r.steer) t ∧ declaredCount r'.sections = declaredCount r.sections := by
  have old : OK' o.dat ft (dtSteer nullOf r.steer) (declaredCount r.sections) t d → nextSteer (dtSteer nullOf r.steer) t = dtSteer nullOf r.steer →
      ∃ r', Base o nullOf ft (t.apply d) r' ∧ ParsedUpToDlm o.hdr r.parsed r'.parsed ∧
        dtSteer nullOf r'.steer = nextSteer (dtSteer nullOf r.steer) t ∧ declaredCount r'.sections = declaredCount r.sections := by
    intro h hn
    obtain ⟨r', h1, h2, h3⟩ := C09_step' o nullOf ft htf t d r hb h
    have hsec : r'.sections = r.sections := congrArg Parsed.sections h3
    exact ⟨r', h1, parsedUpToDlm_of_eq o.hdr h3, by rw [hn, h2], by rw [hsec]⟩
  cases t with
  | redelim first last vk replace frm to seps =>
    obtain ⟨r', h1, h2, h3⟩ := C09_redelim_step o nullOf ft htf first last vk replace frm to seps d r hb hok
    refine ⟨r', h1, h3, ?_, secsUpToDlm_declaredCount o.hdr h3.1⟩
    rw [h2]
    simp only [dtSteer, nextSteer, withDlm, dlmOf_dlmName']
  | insBlank k ws => exact old hok rfl
  | insComment k i tx => exact old hok rfl
  | padLine k a b => exact old hok rfl
  | repadLine k dlm seps => exact old hok rfl
  | relayout k sec p0 p1 p2 p3 p4 p5 => exact old hok rfl
  | crlf => exact old hok rfl
  | lf => exact old hok rfl
  | dropFinalNewline => exact old hok rfl
  | addFinalNewline => exact old hok rfl
  | rewrap f l n ws => exact old hok rfl

/-- **COMPOSITION, all transformations.** Any finite list of transformations — the presentation-only ones of `C09_compose`,
`repadLine` on TAB / COMMA data with numeric cells, and `.redelim` steps — each side condition holding for the document and the
steering values reached: the final document is readable (a `Base`), its parsed result equals the base's up to the DLM item
(header sections, ~Other text, the curves of every data section), its steering values are those of the base with the delimiter
of the last `.redelim`, and the number of declared curves is unchanged. -/
theorem C09_compose_all (o : Opts) (nullOf : Option Str → Option Str) (ft : FloatTable) (htf : TildeNotFloat ft)
    (ts : List Transform) (d : Doc) (r : FullRead) (hb : Base o nullOf ft d r)
    (hc : ChainAll o ft (dtSteer nullOf r.steer) (declaredCount r.sections) ts d) :
    ∃ r', Base o nullOf ft (applyAll ts d) r' ∧ ParsedUpToDlm o.hdr r.parsed r'.parsed ∧
      dtSteer nullOf r'.steer = finalSteer (dtSteer nullOf r.steer) ts ∧ declaredCount r'.sections = declaredCount r.sections := by
  induction ts generalizing d r with
  | nil => exact ⟨r, hb, parsedUpToDlm_refl o.hdr _, rfl, rfl⟩
  | cons t ts ih =>
    obtain ⟨hok, hrest⟩ := hc
    obtain ⟨r1, hb1, hp1, hs1, hd1⟩ := C09_step_all o nullOf ft htf t d r hb hok
    rw [← hs1, ← hd1] at hrest
    obtain ⟨r2, hb2, hp2, hs2, hd2⟩ := ih (t.apply d) r1 hb1 hrest
    refine ⟨r2, hb2, parsedUpToDlm_trans o.hdr hp1 hp2, ?_, hd2.trans hd1⟩
    rw [hs2, hs1]
    rfl

/-- … in terms of `readModel`: both documents are readable and the parsed results are equal up to the DLM item -/
theorem C09_compose_all_readModel (o : Opts) (nullOf : Option Str → Option Str) (ft : FloatTable) (htf : TildeNotFloat ft)
    (ts : List Transform) (d : Doc) (r : FullRead) (hb : Base o nullOf ft d r)
    (hc : ChainAll o ft (dtSteer nullOf r.steer) (declaredCount r.sections) ts d) :
    ∃ p', readModel o nullOf ft (applyAll ts d) = .ok p' ∧ readModel o nullOf ft d = .ok r.parsed ∧
      ParsedUpToDlm o.hdr r.parsed p' ∧ p'.data = r.parsed.data := by
  obtain ⟨r', hb', hp, _, _⟩ := C09_compose_all o nullOf ft htf ts d r hb hc
  refine ⟨r'.parsed, ?_, ?_, hp, hp.2.symm⟩
  · unfold readModel; rw [hb'.read]; rfl
  · unfold readModel; rw [hb.read]; rfl

/-- WITHOUT `.redelim` the mixed chain condition is `Chain'`, and `C09_compose'` gives equality of the steering values and of the
parsed result (so `C09_compose_all` specialises to `C09_compose'`, and — `C09_chain'_of_chain` — to `C09_compose`) -/
theorem C09_compose_all_no_redelim (o : Opts) (nullOf : Option Str → Option Str) (ft : FloatTable) (htf : TildeNotFloat ft)
    (ts : List Transform) (hno : ∀ t ∈ ts, isRedelim t = false) (d : Doc) (r : FullRead) (hb : Base o nullOf ft d r)
    (hc : ChainAll o ft (dtSteer nullOf r.steer) (declaredCount r.sections) ts d) :
    ∃ r', Base o nullOf ft (applyAll ts d) r' ∧ r'.steer = r.steer ∧ r'.parsed = r.parsed :=
  C09_compose' o nullOf ft htf ts d r hb ((chainAll_iff_chain' o ft _ _ ts d hno).mp hc)

/-- the curves themselves: after any admissible mixed list the curves of every data section are those of the base -/
theorem C09_compose_all_curves (o : Opts) (nullOf : Option Str → Option Str) (ft : FloatTable) (htf : TildeNotFloat ft)
    (ts : List Transform) (d : Doc) (r : FullRead) (hb : Base o nullOf ft d r)
    (hc : ChainAll o ft (dtSteer nullOf r.steer) (declaredCount r.sections) ts d) :
    ∃ r', readFull o nullOf ft (applyAll ts d) = .ok r' ∧
      r'.data.map (fun x => x.res.map Prod.snd) = r.data.map (fun x => x.res.map Prod.snd) := by
  obtain ⟨r', hb', hp, _, _⟩ := C09_compose_all o nullOf ft htf ts d r hb hc
  exact ⟨r', hb'.read, hp.2.symm⟩


/-! ## 3. non-vacuity: a mixed chain -/

def cmDoc : Doc := [c09r "~V\n", c09r "VERS. 2.0 : v\n", c09r "WRAP. NO : w\n", c09r "DLM. COMMA : d\n", c09r "~C\n", c09r "A.M : a\n",
  c09r "B.M : b\n", c09r "C.M : c\n", c09r "~A\n", c09r "1.5 , -2,3e5\n", c09r "# 2018-05-22 - note\n", c09r "4,5 ,6\n"]

/-- a blank line before the last data row, CRLF line ends, new separators in the first (COMMA-delimited) data row, and the whole
data section re-delimited with TABs (the DLM item, line 3, replaced) -/
def cmTs : List Transform :=
  [.insBlank 11 (c09r " "), .crlf, .repadLine 9 .comma [c09r " ,"], .redelim 8 12 3 true .comma .tab rdExSeps]

def cmD1 : Doc := (Transform.insBlank 11 (c09r " ")).apply cmDoc
def cmD2 : Doc := Transform.crlf.apply cmD1
def cmD3 : Doc := (Transform.repadLine 9 .comma [c09r " ,"]).apply cmD2

def cmRead : FullRead :=
  match readFull rdExOpts (fun _ => none) rdExFt cmDoc with
  | .ok r => r
  | .error _ => ⟨[], Rd.Steer.init, []⟩

/-- the base document is readable: COMMA declared, three curves declared, normal engine -/
theorem C09_compose_example_base :
    Base rdExOpts (fun _ => none) rdExFt cmDoc cmRead ∧ dtSteer (fun _ => none) cmRead.steer = rdStComma ∧
    declaredCount cmRead.sections = 3 :=
  ⟨⟨by rfl, fun tb _ _ => agreeAlone_of_normal _ _ _ _ _ (by rfl)⟩, by rfl, by rfl⟩

def cmSecV : Str × List Str := (c09r "~V\r\n", [c09r "VERS. 2.0 : v\r\n", c09r "WRAP. NO : w\r\n", c09r "DLM. COMMA : d\r\n"])
def cmSecC : Str × List Str := (c09r "~C\r\n", [c09r "A.M : a\r\n", c09r "B.M : b\r\n", c09r "C.M : c\r\n"])
def cmBody2 : List Str := [c09r "1.5 , -2,3e5\r\n", c09r "# 2018-05-22 - note\r\n", c09r " \r\n", c09r "4,5 ,6\r\n"]
def cmBody3 : List Str := [c09r "1.5 ,-2,3e5\r\n", c09r "# 2018-05-22 - note\r\n", c09r " \r\n", c09r "4,5 ,6\r\n"]

/-- the four side conditions hold along the way (all by evaluation) -/
theorem C09_compose_example_chain : ChainAll rdExOpts rdExFt rdStComma 3 cmTs cmDoc := by
  show OK' _ _ rdStComma 3 (.insBlank 11 (c09r " ")) cmDoc ∧ OK' _ _ rdStComma 3 .crlf cmD1 ∧
    OK' _ _ rdStComma 3 (.repadLine 9 .comma [c09r " ,"]) cmD2 ∧
    RedelimOK rdExOpts rdExFt rdStComma 3 8 12 3 true .comma .tab rdExSeps cmD3 ∧ True
  refine ⟨Or.inl ?_, Or.inl ?_, Or.inr ?_, ?_, trivial⟩
  · show Insertable (ctxAt .pre cmDoc 11); decide
  · show ∀ l ∈ cmD1, NoInnerNl l; decide
  · show RepadOK _ _ _ 9 .comma _ cmD2
    refine ⟨[], [cmSecV, cmSecC], [], c09r "~A\r\n", cmBody2, 0, 3, (by decide), (by intro x hx; cases hx),
      (by unfold Rd.WellFormed; decide), (by decide), (by decide), (by decide), (by decide), rfl, Or.inl (by rfl), (by decide),
      trivial, (by unfold FtStripOn; decide), (by unfold FtStripOn; decide), (by unfold Converts; decide)⟩
  · refine ⟨[], c09r "~V\r\n", [c09r "VERS. 2.0 : v\r\n", c09r "WRAP. NO : w\r\n"], [], some (c09r "DLM. COMMA : d\r\n"), [cmSecC], [],
      c09r "~A\r\n", cmBody3, 3, (by decide), (by rfl), (by decide), (by decide), (by decide), (by intro x hx; cases hx),
      (by unfold Rd.WellFormed; decide), (by decide), (by intro h; cases h), (by decide), (by decide), (by decide), (by decide),
      rfl, (by decide), (by decide), (by unfold FtStripOn; decide), (by unfold FtStripOn; decide), (by unfold Converts; decide),
      agreeAlone_of_normal _ _ _ _ _ (by rfl)⟩

/-- … hence (instance of `C09_compose_all`) the transformed text — given explicitly — is readable, declares TAB, and has the same
curves (computed here: three float curves) and, up to the DLM item, the same header sections -/
theorem C09_compose_example :
    applyAll cmTs cmDoc =
      [c09r "~V\r\n", c09r "VERS. 2.0 : v\r\n", c09r "WRAP. NO : w\r\n", c09r "DLM. TAB : delimiter\r\n", c09r "~C\r\n",
        c09r "A.M : a\r\n", c09r "B.M : b\r\n", c09r "C.M : c\r\n", c09r "~A\r\n", c09r "1.5 \t-2\t\t3e5\r\n",
        c09r "# 2018-05-22 - note\r\n", c09r " \r\n", c09r "4 \t5\t\t6\r\n"] ∧
    (∃ r', Base rdExOpts (fun _ => none) rdExFt (applyAll cmTs cmDoc) r' ∧ ParsedUpToDlm rdExOpts.hdr cmRead.parsed r'.parsed ∧
      dtSteer (fun _ => none) r'.steer = withDlm rdStComma .tab ∧
      r'.data.map (fun x => x.res.map Prod.snd) = cmRead.data.map (fun x => x.res.map Prod.snd)) ∧
    cmRead.data.map (fun x => x.res.map Prod.snd) =
      [.ok [(.declared 0, .floats [c09r "v1", c09r "v4"]), (.declared 1, .floats [c09r "v2", c09r "v5"]),
        (.declared 2, .floats [c09r "v3", c09r "v6"])]] := by
  obtain ⟨hb, hst, hdc⟩ := C09_compose_example_base
  refine ⟨by decide, ?_, by rfl⟩
  have hc : ChainAll rdExOpts rdExFt (dtSteer (fun _ => none) cmRead.steer) (declaredCount cmRead.sections) cmTs cmDoc := by
    rw [hst, hdc]; exact C09_compose_example_chain
  obtain ⟨r', h1, h2, h3, _⟩ := C09_compose_all rdExOpts (fun _ => none) rdExFt C09_redelim_example_tilde cmTs cmDoc cmRead hb hc
  refine ⟨r', h1, h2, ?_, h2.2.symm⟩
  rw [h3, hst]
  rfl

end Lasio.Tf

#print axioms Lasio.Tf.C09_step'
#print axioms Lasio.Tf.C09_compose'
#print axioms Lasio.Tf.C09_compose_readModel'
#print axioms Lasio.Tf.C09_chain'_of_chain
#print axioms Lasio.Tf.C09_parsedUpToDlm_equiv
#print axioms Lasio.Tf.C09_redelim_step
#print axioms Lasio.Tf.C09_step_all
#print axioms Lasio.Tf.C09_compose_all
#print axioms Lasio.Tf.C09_compose_all_readModel
#print axioms Lasio.Tf.C09_compose_all_no_redelim
#print axioms Lasio.Tf.C09_compose_all_curves
#print axioms Lasio.Tf.C09_compose_example_chain
#print axioms Lasio.Tf.C09_compose_example
