import Mathlib.Tactic.Ring
import Mathlib.Tactic.FieldSimp
import Mathlib.Tactic.NormNum
import LasioModel.Views
import LasioProofs.Lemmas.ViewsLemmas
/-
C18 — JSON, CSV, Excel, DataFrame and depth views carry the same values as the curves.

What is proved here is the DECISION LOGIC lasio adds on top of its runtime:
  * JSON  : `_json_value` + `JSONEncoder.default` (type dispatch, NaN/inf ↦ null, numpy scalars like Python scalars, dict
            construction keyed by session mnemonics) — every emitted scalar is strict JSON and carries the value;
  * CSV   : which header rows `to_csv` writes for every combination of `mnemonics` / `units` / `units_loc`, data rows in order;
  * units : index-unit detection over the table `Generated.depthUnits` (REGENERATED from /repo/lasio/defaults.py on every
            check: the `decide` obligations below are re-proved against the current table), case-insensitivity for ALL strings
            of the modelled alphabet, conflicts ↦ None;
  * depth : `depth_m = depth_ft × 0.3048` as an identity of exact rational expressions (0.3048 = 381/1250).
NOT modelled (trusted runtime, covered by correspondence + oracle in harness/props/c18.py only): the json module's text
layout/escaping and float repr, csv quoting, openpyxl (to_excel), pandas (df, set_data_from_df), numpy; IEEE rounding of the
depth conversions.
-/
namespace Lasio

/-! ## JSON -/

theorem C18_json_value_strict (v : HVal) : StrictJson (jsonValue v) := by
  cases v <;> simp [jsonValue, jsonValueConv, npItem, pyJsonNative, StrictJson]

/-- every scalar produced by `jsonValue` / `jsonSample` / `encodeLas` is accepted by a strict JSON parser: it is `null`,
`true`/`false`, a string, or a number whose text is a JSON number literal — never the bare tokens NaN / Infinity. -/
theorem C18_json_strict :
    (∀ v : HVal, StrictJson (jsonValue v)) ∧
    (∀ s : Sample, StrictJson (jsonSample s)) ∧
    (∀ l : LasView, ∀ v ∈ (encodeLas l).vals, StrictJson v) := by
  refine ⟨C18_json_value_strict, fun s => C18_json_value_strict _, ?_⟩
  intro l v hv
  unfold JTree.vals at hv
  rcases List.mem_append.mp hv with hv | hv
  · obtain ⟨vs, hvs, hin⟩ := List.mem_flatten.mp hv
    obtain ⟨ns, hns, rfl⟩ := List.mem_map.mp hvs
    have hmem := mem_dictOf _ _ hns
    obtain ⟨sv, _, rfl⟩ := List.mem_map.mp hmem
    cases hsv : sv.2 with
    | text s =>
      simp only [hsv, encodeSection, JSec.vals, List.mem_singleton] at hin
      subst hin; trivial
    | items its =>
      simp only [hsv, encodeSection, JSec.vals] at hin
      obtain ⟨kv, hkv, rfl⟩ := List.mem_map.mp hin
      have := mem_dictOf _ _ hkv
      obtain ⟨kv', _, rfl⟩ := List.mem_map.mp this
      exact C18_json_value_strict _
  · obtain ⟨vs, hvs, hin⟩ := List.mem_flatten.mp hv
    obtain ⟨c, hc, rfl⟩ := List.mem_map.mp hvs
    have hmem := mem_dictOf _ _ hc
    obtain ⟨c', _, rfl⟩ := List.mem_map.mp hmem
    obtain ⟨s, _, rfl⟩ := List.mem_map.mp hin
    exact C18_json_value_strict _

/-- the text of a `JVal.num` is a JSON number literal, hence none of the constants a strict parser rejects, nor Python's
spellings of the non-finite floats -/
theorem C18_json_num_not_constant (t : NumText) :
    isJsonNumber t.text = true ∧
    t.text ≠ "NaN".toList ∧ t.text ≠ "Infinity".toList ∧ t.text ≠ "-Infinity".toList ∧
    t.text ≠ "nan".toList ∧ t.text ≠ "inf".toList ∧ t.text ≠ "-inf".toList := by
  have h := t.ok
  refine ⟨h, ?_, ?_, ?_, ?_, ?_, ?_⟩ <;> intro e <;> rw [e] at h <;> exact absurd h (by decide)

/-- numbers as numbers (same text), text as text, None ↦ null, NaN / ±inf ↦ null, booleans as booleans; numpy scalars
exactly like the Python scalars they convert to -/
theorem C18_json_values :
    (∀ t, jsonValue (.pyInt t) = .num t) ∧ (∀ t, jsonValue (.pyFloat t) = .num t) ∧
    (∀ t, jsonValue (.npInt t) = .num t) ∧ (∀ t, jsonValue (.npFloat t) = .num t) ∧
    (∀ s, jsonValue (.text s) = .str s) ∧ jsonValue .none = .null ∧
    (∀ w, jsonValue (.pyFloatNonFinite w) = .null) ∧ (∀ w, jsonValue (.npFloatNonFinite w) = .null) ∧
    (∀ b, jsonValue (.bool b) = .bool b) ∧ (∀ b, jsonValue (.npBool b) = .bool b) ∧
    (∀ v, jsonValue (npItem v) = jsonValue v) ∧
    (∀ t, jsonSample (.f t) = .num t) ∧ jsonSample .nan = .null ∧ (∀ n, jsonSample (.inf n) = .null) ∧
    (∀ s, jsonSample (.text s) = .str s) ∧ (∀ t, jsonSample (.int t) = .num t) := by
  refine ⟨fun _ => rfl, fun _ => rfl, fun _ => rfl, fun _ => rfl, fun _ => rfl, rfl, fun _ => rfl, fun _ => rfl,
    fun _ => rfl, fun _ => rfl, ?_, fun _ => rfl, rfl, ?_, fun _ => rfl, fun _ => rfl⟩
  · intro v; cases v <;> rfl
  · intro n; cases n <;> rfl

/-- "carrying every header value": with pairwise distinct session mnemonics (C13, under NoSuffixClash) the JSON object of a
section lists every item, in order, with its converted value -/
theorem C18_json_carries_every_item (its : List (Str × HVal)) (h : (its.map (·.1)).Nodup) :
    encodeSection (.items its) = .obj (its.map fun kv => (kv.1, jsonValue kv.2)) := by
  show JSec.obj (dictOf ((dictOf its).map fun kv => (kv.1, jsonValue kv.2))) = _
  rw [dictOf_nodup its h, dictOf_nodup]
  simpa [List.map_map, Function.comp_def] using h

/-- "and every curve sample": with distinct section names and distinct curve names the tree is the plain map -/
theorem C18_json_carries_every_curve (l : LasView) (hs : (l.sections.map (·.1)).Nodup) (hc : (l.curves.map (·.1)).Nodup) :
    encodeLas l = { metadata := l.sections.map fun ns => (ns.1, encodeSection ns.2),
                    data := l.curves.map fun c => (c.1, c.2.map jsonSample) } := by
  unfold encodeLas
  rw [dictOf_nodup, dictOf_nodup]
  · simpa [List.map_map, Function.comp_def] using hc
  · simpa [List.map_map, Function.comp_def] using hs

/-- the distinctness hypothesis is necessary: `dictview()` is keyed by SESSION mnemonics, a repeated key (only possible
through the C13 suffix clash ['A:1','A','A'] ↦ ['A:1','A:1','A:2']) silently drops a header value -/
theorem C18_json_duplicate_key_drops :
    encodeSection (.items [("A:1".toList, .text "x".toList), ("A:1".toList, .text "y".toList), ("A:2".toList, .none)])
      = .obj [("A:1".toList, .str "y".toList), ("A:2".toList, .null)] := by
  decide

/-- BEFORE the repair (5e01986, R13): NaN header values were written as the bare token `NaN`, numpy integers as `null` -/
theorem C18_json_old_defects :
    (∀ w, ¬ StrictJson (jsonValueOld (.pyFloatNonFinite w))) ∧ (∀ w, ¬ StrictJson (jsonValueOld (.npFloatNonFinite w))) ∧
    (∀ t, jsonValueOld (.npInt t) = .null) ∧ (∀ t, jsonValue (.npInt t) = .num t) := by
  refine ⟨fun _ h => h, fun _ h => h, fun _ => rfl, fun _ => rfl⟩

/-! ## CSV -/

/-- rows = mnemonic row? ++ unit row? ++ data rows, the data rows unchanged and in order (one record per depth step) -/
theorem C18_csv_layout (o : CsvOpts) (origs units : List Str) (rows : List (List Str)) :
    csvRows o origs units rows = (csvMnemonicRow o origs units).toList ++ (csvUnitRow o units).toList ++ rows ∧
    (csvRows o origs units rows).length =
      (csvMnemonicRow o origs units).toList.length + (csvUnitRow o units).toList.length + rows.length ∧
    (csvRows o origs units rows).drop
      ((csvMnemonicRow o origs units).toList.length + (csvUnitRow o units).toList.length) = rows ∧
    (csvMnemonicRow o origs units).toList.length ≤ 1 ∧ (csvUnitRow o units).toList.length ≤ 1 := by
  refine ⟨rfl, by simp [csvRows]; omega, ?_, ?_, ?_⟩
  · unfold csvRows
    rw [← List.length_append, List.drop_left]
  · cases csvMnemonicRow o origs units <;> simp
  · cases csvUnitRow o units <;> simp

/-- which header rows are written, for every option combination (`ms`/`us` = the lists after `True` ↦ defaults):
no mnemonics ↦ no mnemonic row; no units ↦ neither unit row nor decoration; `"line"` ↦ units on their own row;
`"()"`/`"[]"` ↦ `m + " (" + u + ")"` zipped (truncating to the shorter list) and no unit row; anything else ↦ plain
mnemonic row only -/
theorem C18_csv_units_loc (o : CsvOpts) (origs units ms us : List Str)
    (hm : o.mnemonics.resolve origs = ms) (hu : o.units.resolve units = us) :
    (ms = [] → csvMnemonicRow o origs units = none) ∧
    (us = [] → csvUnitRow o units = none) ∧
    (ms ≠ [] → us = [] → csvMnemonicRow o origs units = some ms) ∧
    (ms ≠ [] → o.unitsLoc = .line → csvMnemonicRow o origs units = some ms) ∧
    (us ≠ [] → o.unitsLoc = .line → csvUnitRow o units = some us) ∧
    (ms ≠ [] → us ≠ [] → o.unitsLoc = .paren → csvMnemonicRow o origs units = some (csvDecorate '(' ')' ms us)) ∧
    (ms ≠ [] → us ≠ [] → o.unitsLoc = .bracket → csvMnemonicRow o origs units = some (csvDecorate '[' ']' ms us)) ∧
    (ms ≠ [] → o.unitsLoc = .other → csvMnemonicRow o origs units = some ms) ∧
    (o.unitsLoc ≠ .line → csvUnitRow o units = none) ∧
    (∀ a b, (csvDecorate a b ms us).length = min ms.length us.length) := by
  have hne : ∀ {l : List Str}, l ≠ [] → l.isEmpty = false := by intro l h; cases l <;> simp_all
  rw [csvMnemonicRow_eq, csvUnitRow_eq, hm, hu]
  refine ⟨?_, ?_, ?_, ?_, ?_, ?_, ?_, ?_, ?_, fun a b => length_csvDecorate a b ms us⟩
  · intro h; simp [h]
  · intro h; simp [h]
  · intro h1 h2; rw [hne h1, h2]; cases o.unitsLoc <;> simp [UnitsLoc.brackets]
  · intro h1 h2; rw [hne h1, h2]; simp [UnitsLoc.brackets]
  · intro h1 h2; rw [hne h1, h2]; simp
  · intro h1 h2 h3; rw [hne h1, hne h2, h3]; simp [UnitsLoc.brackets]
  · intro h1 h2 h3; rw [hne h1, hne h2, h3]; simp [UnitsLoc.brackets]
  · intro h1 h3; rw [hne h1, h3]; simp [UnitsLoc.brackets]
  · intro h; simp [h]

/-- option values: `True` ↦ the curve's own lists, a list ↦ itself, `False`/`None` ↦ nothing, and an EMPTY list behaves
like `False` -/
theorem C18_csv_option_values (origs : List Str) (l : List Str) :
    RowOpt.dflt.resolve origs = origs ∧ (RowOpt.list l).resolve origs = l ∧ RowOpt.off.resolve origs = [] ∧
    (RowOpt.list []).resolve origs = RowOpt.off.resolve origs := ⟨rfl, rfl, rfl, rfl⟩

/-- default options on `n ≥ 1` curves: mnemonic row, unit row, then the data; with default mnemonics/units EVERY record has
as many fields as there are curves, whatever `units_loc` -/
theorem C18_csv_default_width (loc : UnitsLoc) (origs units : List Str) (rows : List (List Str)) (n : Nat)
    (ho : origs.length = n) (hu : units.length = n) (hr : ∀ r ∈ rows, r.length = n) :
    (n ≠ 0 → csvRows {} origs units rows = origs :: units :: rows) ∧
    (n = 0 → csvRows { unitsLoc := loc } origs units rows = rows) ∧
    ∀ r ∈ csvRows { unitsLoc := loc } origs units rows, r.length = n := by
  refine ⟨?_, ?_, ?_⟩
  · intro hn
    have h1 : origs ≠ [] := by intro h; subst h; simp at ho; omega
    have h2 : units ≠ [] := by intro h; subst h; simp at hu; omega
    cases origs with
    | nil => exact absurd rfl h1
    | cons a as =>
      cases units with
      | nil => exact absurd rfl h2
      | cons b bs => simp [csvRows, csvMnemonicRow, csvUnitRow, RowOpt.resolve, UnitsLoc.brackets]
  · intro hn
    subst hn
    have h1 : origs = [] := List.eq_nil_of_length_eq_zero ho
    have h2 : units = [] := List.eq_nil_of_length_eq_zero hu
    subst h1; subst h2
    simp [csvRows, csvMnemonicRow, csvUnitRow, RowOpt.resolve]
  · intro r hr'
    unfold csvRows at hr'
    rcases List.mem_append.mp hr' with h | h
    · rcases List.mem_append.mp h with h | h
      · have hs : csvMnemonicRow { unitsLoc := loc } origs units = some r := by
          cases hm : csvMnemonicRow { unitsLoc := loc } origs units with
          | none => simp [hm] at h
          | some r' => simp [hm] at h; rw [h]
        rcases csvMnemonicRow_some _ _ _ _ hs with h | ⟨a, b, h⟩
        · rw [h]; exact ho
        · rw [h, length_csvDecorate]; simp only [RowOpt.resolve]; omega
      · have hs : csvUnitRow { unitsLoc := loc } units = some r := by
          cases hm : csvUnitRow { unitsLoc := loc } units with
          | none => simp [hm] at h
          | some r' => simp [hm] at h; rw [h]
        rw [(csvUnitRow_some _ _ _ hs).1]; exact hu
    · exact hr r h

/-! ## Index unit -/

/-- detection depends on the candidate units only through their upper-cased spelling (for EVERY string of the model,
in or outside the recognised sets) — in particular upper / lower / title case variants are treated alike -/
theorem C18_units_case_insensitive :
    (∀ units units', units.map upper = units'.map upper → detectIndexUnit units = detectIndexUnit units') ∧
    (∀ units, detectIndexUnit (units.map upper) = detectIndexUnit units) ∧
    (∀ units, detectIndexUnit (units.map lower) = detectIndexUnit units) := by
  have key : ∀ units units', units.map upper = units'.map upper → detectIndexUnit units = detectIndexUnit units' := by
    intro units units' h
    unfold detectIndexUnit detectWith
    rw [unitMatchList_upper, unitMatchList_upper, h]
  refine ⟨key, ?_, ?_⟩
  · intro units
    apply key
    simp [List.map_map, Function.comp_def, upper_idem]
  · intro units
    apply key
    simp [List.map_map, Function.comp_def, upper_lower]

/-- GENERATED OBLIGATION (re-proved against the current `defaults.DEPTH_UNITS`): every spelling of every entry — as written,
upper-cased and lower-cased — alone as a candidate is recognised as ITS key (no spelling is shared by two keys) -/
theorem C18_units_table_recognised :
    (depthUnitTable.all fun r => r.2.all fun p =>
      detectIndexUnit [p] == some r.1 && detectIndexUnit [upper p] == some r.1 && detectIndexUnit [lower p] == some r.1) = true := by
  decide +kernel

/-- exact characterisation: a key is returned iff some candidate matches it and every matching (key, candidate) pair
names that same key -/
theorem C18_units_detect_iff (units : List Str) (k : Str) :
    detectIndexUnit units = some k ↔
      (∃ r ∈ depthUnitTable, ∃ u ∈ units, unitMatches u r.2 = true) ∧
      (∀ r ∈ depthUnitTable, ∀ u ∈ units, unitMatches u r.2 = true → r.1 = k) := by
  unfold detectIndexUnit detectWith
  rw [uniqueKey_eq_some]
  constructor
  · rintro ⟨hne, hall⟩
    constructor
    · obtain ⟨x, hx⟩ := List.exists_mem_of_ne_nil _ hne
      obtain ⟨r, hr, _, u, hu, hm⟩ := (mem_unitMatchList _ _ _ _).mp hx
      exact ⟨r, hr, u, hu, hm⟩
    · intro r hr u hu hm
      exact hall r.1 ((mem_unitMatchList _ _ _ _).mpr ⟨r, hr, rfl, u, hu, hm⟩)
  · rintro ⟨⟨r, hr, u, hu, hm⟩, hall⟩
    constructor
    · exact List.ne_nil_of_mem ((mem_unitMatchList _ _ _ r.1).mpr ⟨r, hr, rfl, u, hu, hm⟩)
    · intro x hx
      obtain ⟨r', hr', hk, u', hu', hm'⟩ := (mem_unitMatchList _ _ _ _).mp hx
      rw [← hk]; exact hall r' hr' u' hu' hm'

/-- spellings outside the recognised sets (in any case) → undefined -/
theorem C18_units_unknown_undefined (units : List Str)
    (h : ∀ u ∈ units, ∀ r ∈ depthUnitTable, ∀ p ∈ r.2, upper u ≠ upper p) :
    detectIndexUnit units = none := by
  cases hd : detectIndexUnit units with
  | none => rfl
  | some k =>
    obtain ⟨⟨r, hr, u, hu, hm⟩, _⟩ := (C18_units_detect_iff units k).mp hd
    rw [unitMatches_eq] at hm
    obtain ⟨p, hp, he⟩ := List.any_eq_true.mp hm
    exact absurd (by simpa using he) (h u hu r hr p hp)

/-- two candidates matching DIFFERENT keys → the index unit is left undefined -/
theorem C18_units_conflict_undefined (units : List Str) (r1 r2 : Str × List Str) (u1 u2 : Str)
    (h1 : r1 ∈ depthUnitTable) (h2 : r2 ∈ depthUnitTable) (hne : r1.1 ≠ r2.1)
    (hu1 : u1 ∈ units) (hu2 : u2 ∈ units)
    (hm1 : unitMatches u1 r1.2 = true) (hm2 : unitMatches u2 r2.2 = true) :
    detectIndexUnit units = none := by
  unfold detectIndexUnit detectWith
  exact uniqueKey_none_of_two _ r1.1 r2.1
    ((mem_unitMatchList _ _ _ _).mpr ⟨r1, h1, rfl, u1, hu1, hm1⟩)
    ((mem_unitMatchList _ _ _ _).mpr ⟨r2, h2, rfl, u2, hu2, hm2⟩) hne

/-- GENERATED OBLIGATION: the keys of the current table are pairwise distinct and any two spellings taken from different
entries conflict (so the hypothesis of the conflict theorem is met by every cross-entry pair) -/
theorem C18_units_table_conflicts :
    (depthUnitTable.all fun r1 => depthUnitTable.all fun r2 => r1.1 == r2.1 ||
      (r1.2.all fun p1 => r2.2.all fun p2 =>
        detectIndexUnit [p1, p2] == none && detectIndexUnit [lower p1, upper p2] == none)) = true := by
  decide +kernel

/-- BEFORE the repair (ae3c068, R18): `unit.upper() == p` against a table storing `м` in lower case — Cyrillic upper-case
`М` was not recognised although `м` was; now both are -/
theorem C18_units_old_defect :
    detectIndexUnitOld ["М".toList] = none ∧ detectIndexUnitOld ["м".toList] = some "M".toList ∧
    detectIndexUnit ["М".toList] = some "M".toList ∧ detectIndexUnit ["м".toList] = some "M".toList := by
  decide +kernel

/-! ## depth_m / depth_ft -/

/-- both conversions take the same branch (first of "M", "F", ".1IN" contained in the upper-cased index unit), raise
together, and whenever defined `depth_m = depth_ft × 0.3048` EXACTLY over ℚ (0.3048 = 381/1250; IEEE rounding of the two
float computations is not modelled — the harness compares them with rtol 1e-12) -/
theorem C18_depth_consistent (iu : Option Str) :
    (depthM iu = none ↔ depthFt iu = none) ∧
    (depthM iu = none ↔ unitClass iu = none) ∧
    ∀ em ef, depthM iu = some em → depthFt iu = some ef → ∀ x : Rat, em.eval x = ef.eval x * (381 / 1250) := by
  unfold depthM depthFt unitClass
  refine ⟨?_, ?_, ?_⟩
  · repeat' split
    all_goals simp
  · repeat' split
    all_goals simp
  · intro em ef hm hf x
    split at hm
    · rw [if_pos ‹_›] at hf
      cases hm; cases hf
      simp only [DepthExpr.eval, DConst.val]
      field_simp
    · split at hm
      · rw [if_neg ‹_›, if_pos ‹_›] at hf
        cases hm; cases hf
        simp only [DepthExpr.eval, DConst.val]
      · split at hm
        · rw [if_neg ‹_›, if_neg ‹_›, if_pos ‹_›] at hf
          cases hm; cases hf
          simp only [DepthExpr.eval, DConst.val]
        · cases hm

/-- GENERATED OBLIGATION: for every recognised index unit (every key of the current table) both conversions are defined -/
theorem C18_depth_defined_on_recognised :
    (depthUnitTable.all fun r => (depthM (some r.1)).isSome && (depthFt (some r.1)).isSome) = true := by
  decide +kernel

/-- undefined index unit → both raise -/
theorem C18_depth_undefined : depthM none = none ∧ depthFt none = none := ⟨rfl, rfl⟩

/-! ## non-vacuity -/

example : isJsonNumber "1e-07".toList = true ∧ isJsonNumber "-9999.25".toList = true ∧ isJsonNumber "1.5e+300".toList = true ∧
    isJsonNumber "1000000000000000000000000000000".toList = true ∧ isJsonNumber "-0.0".toList = true ∧
    isJsonNumber "01".toList = false ∧ isJsonNumber "1.".toList = false ∧ isJsonNumber ".5".toList = false := by decide

example : encodeLas { sections := [("Well".toList, .items [("STRT".toList, .pyFloatNonFinite .nan),
                                      ("X".toList, .npInt ⟨"3".toList, by decide⟩), ("C".toList, .text "ab".toList)]),
                                   ("Other".toList, .text "free".toList)],
                      curves := [("DEPT".toList, [.f ⟨"1.0".toList, by decide⟩, .nan]), ("T".toList, [.text "a".toList, .inf true])] }
    = { metadata := [("Well".toList, .obj [("STRT".toList, .null), ("X".toList, .num ⟨"3".toList, by decide⟩),
                                           ("C".toList, .str "ab".toList)]),
                     ("Other".toList, .text "free".toList)],
        data := [("DEPT".toList, [.num ⟨"1.0".toList, by decide⟩, .null]), ("T".toList, [.str "a".toList, .null])] } := by
  decide

example : csvRows { unitsLoc := .paren } ["DEPT".toList, "GR".toList] ["M".toList, "API".toList, "X".toList]
    [["1.0".toList, "nan".toList]] = [["DEPT (M)".toList, "GR (API)".toList], ["1.0".toList, "nan".toList]] := by decide

example : csvRows { mnemonics := .list ["a".toList], units := .off } ["DEPT".toList, "GR".toList] ["M".toList, "API".toList]
    [["1.0".toList, "nan".toList]] = [["a".toList], ["1.0".toList, "nan".toList]] := by decide

example : detectIndexUnit ["m".toList, "M".toList, "Metres".toList, "".toList] = some "M".toList ∧
    detectIndexUnit ["ft".toList, "m".toList] = none ∧ detectIndexUnit ["fathom".toList] = none ∧
    detectIndexUnit [] = none := by decide +kernel

example : depthM (some "FT".toList) = some (.mul .idx .ft) ∧ depthFt (some ".1IN".toList) = some (.div .idx .tenthIn) ∧
    depthM (some ".1in".toList) = some (.mul (.div .idx .tenthIn) .ft) ∧ depthM (some "s".toList) = none := by decide +kernel

example : (DepthExpr.mul (.div .idx .tenthIn) .ft).eval 120 = 381 / 1250 := by
  simp only [DepthExpr.eval, DConst.val]; norm_num

end Lasio

#print axioms Lasio.C18_json_value_strict
#print axioms Lasio.C18_json_strict
#print axioms Lasio.C18_json_num_not_constant
#print axioms Lasio.C18_json_values
#print axioms Lasio.C18_json_carries_every_item
#print axioms Lasio.C18_json_carries_every_curve
#print axioms Lasio.C18_json_duplicate_key_drops
#print axioms Lasio.C18_json_old_defects
#print axioms Lasio.C18_csv_layout
#print axioms Lasio.C18_csv_units_loc
#print axioms Lasio.C18_csv_option_values
#print axioms Lasio.C18_csv_default_width
#print axioms Lasio.C18_units_case_insensitive
#print axioms Lasio.C18_units_table_recognised
#print axioms Lasio.C18_units_detect_iff
#print axioms Lasio.C18_units_unknown_undefined
#print axioms Lasio.C18_units_conflict_undefined
#print axioms Lasio.C18_units_table_conflicts
#print axioms Lasio.C18_units_old_defect
#print axioms Lasio.C18_depth_consistent
#print axioms Lasio.C18_depth_defined_on_recognised
#print axioms Lasio.C18_depth_undefined
