import LasioProofs.Lemmas.FileNull
/-
C06 at WHOLE-FILE level: "Under the default policy a sample becomes NaN if and only if it lies in a non-index numeric curve and is
numerically equal to the ~Well NULL value, however either is spelled; index samples equal to NULL are kept, and text columns are
untouched.  With null_policy='none' no sample is changed."

`Tf.readFull` = header-level reader, then `Dt.readData` on every data window with the steering values `dtSteer nullOf steer`
(`nullValue := nullOf steer.null`: `nullOf` is the numeric service — raw NULL text ↦ canonical float text when `num()`/`float()`
accept it).  In `readData` the NULL step sits between the engine and the assignment to curves:
`(e, assignCurves d (applyNull (policy == strict) nullValue raw))`.

* `C06_file`             EVERY document, every option record, every successful data record: the curves are
                         `assignCurves d (applyNull (policy == .strict) (nullOf r.steer.null) raw)` for the raw columns `raw` of the
                         engine that is recorded (`numpyEngine` / `normalEngine` on that window), all of one length.
* `C06_file_cells`       cell by cell, for the curves that have a column (`j < |raw|`; the other declared curves are NaN-filled,
                         `C07_file_curves`): strict policy and numeric NULL `nv`: NaN afterwards IFF NaN in the data, or `j ≠ 0` and
                         the cell is `feq` (IEEE `==` on float texts — however spelled in the file) to `nv`; a cell that is not
                         NaN afterwards is the raw cell; curve 0 is the raw column 0; a text column stays that text column.
* `C06_file_unchanged`   policy `none`, or `nullOf r.steer.null = none` (no NULL item, several NULL items, a NULL that is not a
                         number): the curves are `assignCurves d raw` — no sample is changed.
* `C06_file_null_source` where `steer.null` comes from: a section that is not a ~W header section never touches it
                         (`C06_file_null_other_sections`); the LAST ~W header section sets it to the value of its single NULL item
                         (single under the reader's mnemonic comparison), and keeps what the earlier sections left when it has no
                         or several NULL items; `C06_file_null_none`: no ~W header section — no NULL.
* tightness / counter-examples (by evaluation): `C06_file_two_null_items`, `C06_file_text_null`, `C06_file_example` (three
  spellings of NULL in curve 1 nulled, the same value in the index curve kept; policy `none`: nothing changed).
-/
namespace Lasio.Tf
open Lasio Lasio.Dt

/-! ## 1. the curves of every data record -/

/-- **C06, whole file**: the curves of a successful data record are the raw columns of the recorded engine with NULL applied under
the policy, assigned to the declared curves -/
theorem C06_file (o : Opts) (nullOf : Option Str → Option Str) (ft : FloatTable) (doc : Doc) (r : FullRead)
    (h : readFull o nullOf ft doc = .ok r) :
    ∀ x ∈ r.data, ∀ e curves, x.res = .ok (e, curves) →
      ∃ raw : List Column, (∃ L, ∀ col ∈ raw, col.length = L) ∧
        (e = .numpy → numpyEngine ft doc x.first x.last = some raw) ∧
        (e = .normal → ∃ sb n, normalEngine ft sb (dtSteer nullOf r.steer).delimiter n doc x.first x.last = .ok raw) ∧
        curves = assignCurves (declaredCount r.sections) (applyNull (o.dat.nullPolicy == .strict) (nullOf r.steer.null) raw) := by
  obtain ⟨hd, _, e1, e2, e3⟩ := readFull_data o nullOf ft doc r h
  intro x hx e curves hres
  rw [e3] at hx
  obtain ⟨w, _, rfl⟩ := List.mem_map.mp hx
  obtain ⟨raw, hrect, hc, hnp, hno⟩ := readData_ok_cols o.dat doc w.1 w.2.1 _ _ ft e curves hres
  refine ⟨raw, hrect, hnp, ?_, ?_⟩
  · intro he
    obtain ⟨sb, n, _, _, hne⟩ := hno he
    exact ⟨sb, n, by rw [e2]; exact hne⟩
  · rw [hc, e1, e2]
    rfl

/-- **C06, cell by cell** (curves that have a column: `j < |raw|`) -/
theorem C06_file_cells (d : Nat) (u : Bool) (null : Option Str) (raw : List Column) (j i : Nat) (hj : j < raw.length) :
    -- strict policy: NaN afterwards iff NaN in the data, or non-index float curve and numerically equal to the numeric NULL
    (u = true → (curveCell (assignCurves d (applyNull u null raw)) j i = some nanTxt ↔
      floatCell raw j i = some nanTxt ∨ (j ≠ 0 ∧ ∃ nv v, null = some nv ∧ floatCell raw j i = some v ∧ feq v nv = true))) ∧
    -- every other cell keeps its value
    (∀ v, curveCell (assignCurves d (applyNull u null raw)) j i = some v → v ≠ nanTxt → floatCell raw j i = some v) ∧
    -- index samples are kept: curve 0 is the raw column 0
    (j = 0 → ((assignCurves d (applyNull u null raw)).map Prod.snd)[0]? = raw[0]?) ∧
    -- text columns are untouched
    (∀ cells, raw[j]? = some (.text cells) → ((assignCurves d (applyNull u null raw)).map Prod.snd)[j]? = some (.text cells)) := by
  have hl : j < (applyNull u null raw).length := by rw [applyNull_length]; exact hj
  refine ⟨?_, ?_, ?_, ?_⟩
  · intro hu
    subst hu
    rw [curveCell_assign d _ j i hl]
    exact C06_iff_strict null raw j i
  · intro v hv hne
    rw [curveCell_assign d _ j i hl] at hv
    exact C06_other_cells u null raw j i v hv hne
  · intro h0
    subst h0
    rw [assignCurves_snd_getElem? d _ 0 hl]
    exact C06_index_kept u null raw
  · intro cells hc
    rw [assignCurves_snd_getElem? d _ j hl]
    exact C06_text_untouched u null raw j cells hc

/-- **C06, nothing changes**: with `null_policy='none'`, or when the header has no numeric NULL (`nullOf r.steer.null = none`: no
NULL item in ~Well, several of them, or a NULL `num()` leaves a text), the curves are the raw columns, unchanged -/
theorem C06_file_unchanged (o : Opts) (nullOf : Option Str → Option Str) (ft : FloatTable) (doc : Doc) (r : FullRead)
    (h : readFull o nullOf ft doc = .ok r) (hcase : o.dat.nullPolicy = .none ∨ nullOf r.steer.null = none) :
    ∀ x ∈ r.data, ∀ e curves, x.res = .ok (e, curves) →
      ∃ raw : List Column, (e = .numpy → numpyEngine ft doc x.first x.last = some raw) ∧
        (e = .normal → ∃ sb n, normalEngine ft sb (dtSteer nullOf r.steer).delimiter n doc x.first x.last = .ok raw) ∧
        curves = assignCurves (declaredCount r.sections) raw := by
  intro x hx e curves hres
  obtain ⟨raw, _, h1, h2, h3⟩ := C06_file o nullOf ft doc r h x hx e curves hres
  refine ⟨raw, h1, h2, ?_⟩
  rw [h3]
  rcases hcase with hp | hn
  · rw [hp]
    have : (NullPolicy.none == NullPolicy.strict) = false := by decide
    rw [this, C06_none]
  · rw [hn, C06_nonnumeric_null]

/-! ## 2. where the NULL comes from -/

/-- sections that are not ~W header sections — ~V, ~P, ~C, custom, ~O, data sections, whatever items they hold (a `NULL` item among
them included) — leave `steer.null` alone -/
theorem C06_file_null_other_sections (o : Rd.ReadOpts) (secs : List (Str × List Str)) (n : Nat) (st r : Rd.RState)
    (hw : ∀ tb ∈ secs, Rd.isW tb = false) (h : Rd.docSections o secs n st = .ok r) : r.steer.null = st.steer.null :=
  docSections_null_nonW o secs n st r hw h

/-- **THE SOURCE OF NULL.** `(tW, bW)` is the last ~W header section of the document.  With `p` the parser in force for it and
`items` the items of its body: the header's NULL text is the value of the single item among `items` whose (useful) mnemonic
compares equal to `NULL` (`mnemonic_case` rules) — when there is none, or more than one, it is what the sections before left
(`sA.steer.null`: by the same law, the last earlier ~W section with exactly one NULL item; `none` when there is no such section). -/
theorem C06_file_null_source (o : Rd.ReadOpts) (pre : List Str) (A B : List (Str × List Str)) (tW : Str) (bW : List Str)
    (hpre : ∀ x ∈ pre, Rd.isTitle x = false) (hw : Rd.WellFormed (A ++ (tW, bW) :: B))
    (hW : Rd.isW (tW, bW) = true) (hB : ∀ tb ∈ B, Rd.isW tb = false) (h : Rd.RHeader)
    (hr : Rd.readLines o (pre ++ Rd.flat (A ++ (tW, bW) :: B)) = .ok h) :
    ∃ sA ver p, Rd.docSections o A pre.length Rd.RState.init = .ok sA ∧ Rd.mkParser (Rd.lineStrip tW) ver = .ok p ∧
      h.steer.null =
        Rd.orKeep ((Rd.uniq ((Rd.bodyItems o p bW).filter fun it => Rd.mcmp (trOf o) (Rd.U it) "NULL".toList)).map (·.value))
          sA.steer.null ∧
      ((∀ tb ∈ A, Rd.isW tb = false) → sA.steer.null = none) := by
  obtain ⟨sA, ver, p, hA, hp, hn⟩ := readLines_null_last o pre A B tW bW hpre hw hW hB h hr
  refine ⟨sA, ver, p, hA, hp, ?_, ?_⟩
  · rw [hn, nullOfItems_eq]
  · intro hAw
    rw [docSections_null_nonW o A _ _ sA hAw hA]
    rfl

/-- no ~W header section at all: the header has no NULL -/
theorem C06_file_null_none (o : Rd.ReadOpts) (pre : List Str) (secs : List (Str × List Str))
    (hpre : ∀ x ∈ pre, Rd.isTitle x = false) (hw : Rd.WellFormed secs) (hnoW : ∀ tb ∈ secs, Rd.isW tb = false) (h : Rd.RHeader)
    (hr : Rd.readLines o (pre ++ Rd.flat secs) = .ok h) : h.steer.null = none := by
  obtain ⟨st, hd, hs⟩ := readLines_steer o pre secs hpre hw h hr
  rw [hs, docSections_null_nonW o secs _ _ st hnoW hd]
  rfl

/-! ## 3. tightness and non-vacuity -/

def c06f (x : String) : Str := x.toList

/-- three spellings of −999.25 with one float text -/
def nfFt : FloatTable := [(c06f "-999.25", c06f "neg"), (c06f "-999.2500", c06f "neg"), (c06f "-9.9925E2", c06f "neg"),
  (c06f "2", c06f "a2"), (c06f "3", c06f "a3"), (c06f "4", c06f "a4"), (c06f "5", c06f "a5")]
def nfNull : Option Str → Option Str := fun o => o.bind fun t => nfFt.lookup t
def nfOpts (e : Engine) (p : NullPolicy) : Opts := ⟨⟨false, .preserve⟩, ⟨e, p⟩⟩

/-- ~V, ~W with the given item lines, two curves, four data rows: column 0 holds −999.25 once, column 1 in three spellings -/
def nfDoc (w : List Str) : Doc :=
  [c06f "~V\n", c06f "VERS. 2.0 : v\n", c06f "WRAP. NO : w\n", c06f "~W\n"] ++ w ++
    [c06f "~C\n", c06f "A.M : a\n", c06f "B.M : b\n", c06f "~A\n", c06f "-999.25 -999.25\n", c06f "2 -999.2500\n",
     c06f "3 -9.9925E2\n", c06f "4 5\n"]

def nfShow (o : Opts) (d : Doc) : Option Str × List (Except DErr (Engine × List (Slot × Column))) :=
  match readFull o nfNull nfFt d with
  | .ok r => (r.steer.null, r.data.map DataRead.res)
  | .error _ => (none, [])

/-- NON-VACUITY / the property on a file: default policy — the three spellings in curve 1 become NaN, the same value in the index
curve is kept (both engines); policy `none` — nothing changes -/
theorem C06_file_example :
    nfShow (nfOpts .normal .strict) (nfDoc [c06f "NULL. -999.25 : n\n"]) =
      (some (c06f "-999.25"), [.ok (.normal, [(.declared 0, .floats [c06f "neg", c06f "a2", c06f "a3", c06f "a4"]),
        (.declared 1, .floats [nanTxt, nanTxt, nanTxt, c06f "a5"])])]) ∧
    nfShow (nfOpts .numpy .strict) (nfDoc [c06f "NULL. -999.25 : n\n"]) =
      (some (c06f "-999.25"), [.ok (.numpy, [(.declared 0, .floats [c06f "neg", c06f "a2", c06f "a3", c06f "a4"]),
        (.declared 1, .floats [nanTxt, nanTxt, nanTxt, c06f "a5"])])]) ∧
    nfShow (nfOpts .numpy .none) (nfDoc [c06f "NULL. -999.25 : n\n"]) =
      (some (c06f "-999.25"), [.ok (.normal, [(.declared 0, .floats [c06f "neg", c06f "a2", c06f "a3", c06f "a4"]),
        (.declared 1, .floats [c06f "neg", c06f "neg", c06f "neg", c06f "a5"])])]) := ⟨by rfl, by rfl, by rfl⟩

/-- TWO NULL items in ~Well: `"NULL" in section` is false (the session mnemonics are `NULL:1`, `NULL:2`), there is no NULL, and
nothing is nulled -/
theorem C06_file_two_null_items :
    nfShow (nfOpts .normal .strict) (nfDoc [c06f "NULL. -999.25 : n\n", c06f "NULL. -999.25 : m\n"]) =
      (none, [.ok (.normal, [(.declared 0, .floats [c06f "neg", c06f "a2", c06f "a3", c06f "a4"]),
        (.declared 1, .floats [c06f "neg", c06f "neg", c06f "neg", c06f "a5"])])]) := by rfl

/-- a NULL that is not a number: the text is kept in `steer.null`, `nullOf` gives nothing, nothing is nulled -/
theorem C06_file_text_null :
    nfNull (some (c06f "abc")) = none ∧
    nfShow (nfOpts .normal .strict) (nfDoc [c06f "NULL. abc : n\n"]) =
      (some (c06f "abc"), [.ok (.normal, [(.declared 0, .floats [c06f "neg", c06f "a2", c06f "a3", c06f "a4"]),
        (.declared 1, .floats [c06f "neg", c06f "neg", c06f "neg", c06f "a5"])])]) := ⟨by rfl, by rfl⟩

/-- the general theorems instantiated on the example (hypotheses by evaluation): curve 1, row 2 (spelled `-9.9925E2`) is NaN
because the raw cell is `feq` the NULL; curve 0, row 0 holds the NULL value and is kept -/
example (r : FullRead) (h : readFull (nfOpts .normal .strict) nfNull nfFt (nfDoc [c06f "NULL. -999.25 : n\n"]) = .ok r) :
    ∀ x ∈ r.data, ∀ e curves, x.res = .ok (e, curves) →
      ∃ raw : List Column, curves = assignCurves (declaredCount r.sections) (applyNull true (nfNull r.steer.null) raw) := by
  intro x hx e curves hres
  obtain ⟨raw, _, _, _, hc⟩ := C06_file _ _ _ _ r h x hx e curves hres
  exact ⟨raw, hc⟩

example : let raw : List Column := [.floats [c06f "neg", c06f "a2"], .floats [c06f "neg", c06f "a5"], .text [c06f "x", c06f "y"]]
    curveCell (assignCurves 2 (applyNull true (some (c06f "neg")) raw)) 1 0 = some nanTxt ∧
    curveCell (assignCurves 2 (applyNull true (some (c06f "neg")) raw)) 0 0 = some (c06f "neg") ∧
    ((assignCurves 2 (applyNull true (some (c06f "neg")) raw)).map Prod.snd)[2]? = some (.text [c06f "x", c06f "y"]) := by
  decide

end Lasio.Tf

#print axioms Lasio.Tf.C06_file
#print axioms Lasio.Tf.C06_file_cells
#print axioms Lasio.Tf.C06_file_unchanged
#print axioms Lasio.Tf.C06_file_null_other_sections
#print axioms Lasio.Tf.C06_file_null_source
#print axioms Lasio.Tf.C06_file_null_none
#print axioms Lasio.Tf.C06_file_example
#print axioms Lasio.Tf.C06_file_two_null_items
#print axioms Lasio.Tf.C06_file_text_null
