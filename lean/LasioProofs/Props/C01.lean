import LasioProofs.Lemmas.DataWriteLemmas
import LasioProofs.Lemmas.RoundTripData
/-
C01 — Numeric curve data survives write->read within the printed precision (WRITER half, token level).

The model (`LasioModel/DataWrite.lean`) carries a binary64 sample exactly as `(-1)^neg · m · 2^e`, prints it with the exact
round-half-even `%.Nf`, lays rows out as `format_data_section_line` does and wraps them with the TextWrapper chunk model.
Theorems (all over EVERY value / configuration of the stated shape, no bounds):
* `C01_value`       the printed decimal has exactly N fraction digits and is within half a unit of the last digit of the sample;
* `C01_plain_token` a printed finite sample is one plain numeric token;  `C01_cell_token`, `C01_row_tokens` (+ the exact
                    separation condition `C01_row_tokens_sep`, and the counter-example with an empty spacer and width -1);
* `C01_wrap_preserves_tokens`, `C01_wrap_line_length`, `C01_wrap_nonempty_lines`: wrapping only moves line breaks between tokens;
* `C01_nan_marker`, `C01_fmt_idem`, `C01_fmt_stable`; `C01_lines_tokens` puts the pieces together for a whole data section.
The reader half (tokens -> floats -> NULL -> NaN, column inference) is covered for C01 by the oracle of harness/props/c01.py.
-/
namespace Lasio.Dw
open Lasio

/-- (`sgn neg = if neg then -1 else 1`.)  **Recovered to within half a unit of the last printed digit** (at the level of the printed decimal).
For the finite sample `x = sgn · m · 2^e`, `'%.Nf' % x` is a plain decimal token with exactly `N` fraction digits whose exact
value `a / 10^N` satisfies `|a/10^N − x| ≤ 1/(2·10^N)`; written without division, with `D = 2^max(-e,0)`:
`2 · |a · D − sgn · m · 2^max(e,0) · 10^N| ≤ D`. -/
theorem C01_value (N : Nat) (neg : Bool) (m : Nat) (e : Int) :
    ∃ a : Int, decOfTok (fmtFixed N (.finite neg m e)) = some (a, N) ∧
      2 * (a * 2 ^ (-e).toNat - sgn neg * m * 2 ^ e.toNat * 10 ^ N).natAbs ≤ 2 ^ (-e).toNat :=
  value_bound N neg m e

/-- the sign of the sample is the sign of the token (`-0.00000` keeps its sign) and the magnitude is the rounded number of units -/
theorem C01_value_signed (N : Nat) (neg : Bool) (m : Nat) (e : Int) :
    decOfTokS (fmtFixed N (.finite neg m e)) = some (neg, fixedUnits N m e, N) :=
  decOfTokS_fmtFixed N neg m e

/-- for `e ≥ 0` (integers) the printed decimal is exact -/
theorem C01_value_exact_of_int (N : Nat) (neg : Bool) (m k : Nat) :
    decOfTok (fmtFixed N (.finite neg m (k : Int))) = some (sgn neg * (m * 2 ^ k * 10 ^ N : Nat), N) := by
  unfold decOfTok
  rw [decOfTokS_fmtFixed]
  have : fixedUnits N m (k : Int) = m * 2 ^ k * 10 ^ N := by
    unfold fixedUnits
    have h1 : (-(k : Int)).toNat = 0 := by omega
    have h2 : (k : Int).toNat = k := by omega
    rw [h1, h2, Nat.pow_zero]
    simpa using divRoundHalfEven_exact (m * 2 ^ k * 10 ^ N) 1 (by decide)
  rw [this]
  cases neg <;> simp [sgn]

/-- **A printed finite sample is a plain numeric token**: non-empty; only `-`, digits and `.`; hence no whitespace, quote,
`#` or `,`; whitespace tokenisation leaves it untouched. -/
theorem C01_plain_token (N : Nat) (neg : Bool) (m : Nat) (e : Int) :
    let t := fmtFixed N (.finite neg m e)
    t ≠ [] ∧ (∀ c ∈ t, isPlainChar c = true) ∧
    (∀ c ∈ t, isPySpace c = false ∧ c ≠ '"' ∧ c ≠ '\'' ∧ c ≠ '#' ∧ c ≠ ',') ∧
    tokensWs t = [t] :=
  ⟨(fmtFixed_isTok N _).1, fmtFixed_plain N neg m e,
   fun c hc => plainChar_facts c (fmtFixed_plain N neg m e c hc),
   tokensWs_tok _ (fmtFixed_isTok N _)⟩

/-- **A formatted cell** is the spacing characters, blank padding, then the cell's token; when the spacing characters are
whitespace and the NULL text is a token, its whitespace tokenisation is exactly `[token]`. -/
theorem C01_cell_token (null : Str) (f : Fmt) (l : Int) (sp : Str) (x : F64)
    (hsp : ∀ c ∈ sp, isPySpace c = true) (hnull : IsTok null) :
    (∃ pad, Blank pad ∧ formatCell null f l sp x = sp ++ pad ++ cellToken null f x) ∧
    tokensWs (formatCell null f l sp x) = [cellToken null f x] := by
  obtain ⟨pad, hpad, hshape⟩ := formatCell_shape null f l sp x
  refine ⟨⟨pad, hpad, hshape⟩, ?_⟩
  rw [hshape]
  apply tokensWs_cell_end _ _ _ (cellToken_isTok null hnull f x)
  intro c hc
  rcases List.mem_append.mp hc with h | h
  · exact hsp c h
  · exact hpad.ws c h

/-- **Whitespace tokenisation of a data row returns exactly the cell tokens**, under `CfgOK` (non-empty whitespace spacer,
whitespace left-hand spacer, NULL text a single token); any F64 cells, any formats, any field width. -/
theorem C01_row_tokens (c : RowCfg) (null : Str) (hok : CfgOK c null) (cells : List F64) :
    tokensWs (dataRow c null cells) = rowTokens c null cells :=
  tokensWs_dataRowFrom hok 0 cells

/-- the number of tokens of a row is its number of cells -/
theorem C01_row_token_count (c : RowCfg) (null : Str) (hok : CfgOK c null) (cells : List F64) :
    (tokensWs (dataRow c null cells)).length = cells.length := by
  rw [C01_row_tokens c null hok]; exact rowTokensFrom_length c null 0 cells

/-- The exact separation condition: it is enough (and, by the counter-example below, needed) that every cell after the first
BEGINS with a whitespace character — through a non-empty spacer (`CfgOK.rowSep`) or through right-justification in a field
wider than the value (`justified_sepAt`). -/
theorem C01_row_tokens_sep (c : RowCfg) (null : Str) (h : SpacersWs c null) (x : F64) (xs : List F64)
    (hsep : RowSep c null 1 xs) : tokensWs (dataRow c null (x :: xs)) = rowTokens c null (x :: xs) :=
  tokensWs_dataRowFrom_sep h 0 x xs hsep

/-- a cell narrower than a (non -1) `len_numeric_field` begins with whitespace even when the spacer is empty -/
theorem C01_justified_sep (c : RowCfg) (null : Str) (j : Nat) (y : F64)
    (hl : c.lenNumericField ≠ -1) (hlen : (cellValue null (c.colFmt j) y).length < c.lenNumericField.toNat)
    (hws : ∀ ch ∈ c.leftSpacing j, isPySpace ch = true) : SepAt c null j y :=
  justified_sepAt c null j y hl hlen hws

def one : F64 := .finite false 1 0
def two : F64 := .finite false 1 1
def nullTxt : Str := "-999.25".toList

/-- COUNTER-EXAMPLE (hypothesis `spacer ≠ ""` of `CfgOK` is needed): with `spacer=""` and `len_numeric_field=-1` the cells
1.0 and 2.0 printed with `%.1f` merge into the single token `1.02.0`. -/
theorem C01_row_tokens_needs_spacer :
    tokensWs (dataRow ⟨⟨none, 1⟩, [], -1, [' '], []⟩ nullTxt [one, two]) = ["1.02.0".toList] := by decide

/-- **Wrapping only moves line breaks between tokens** -/
theorem C01_wrap_preserves_tokens (w : Nat) (s : Str) (ls : List Str) (h : textWrap w s = some ls) :
    ls.flatMap tokensWs = tokensWs s :=
  textWrap_tokens h

/-- every wrapped line fits in the width, except a line that holds a single value which is itself longer than the width: that
value stands alone and unbroken (a maximal run of non-blank characters of the row, no blank in it) -/
theorem C01_wrap_line_length (w : Nat) (s : Str) (ls : List Str) (h : textWrap w s = some ls) :
    ∀ l ∈ ls, l.length ≤ w ∨ (l ∈ wrapChunks (wrapMunge s) ∧ ' ' ∉ l) :=
  textWrap_length_or h

/-- when every value (and every run of blanks) of the row fits in the width, every line does -/
theorem C01_wrap_line_length_fits (w : Nat) (s : Str) (ls : List Str) (h : textWrap w s = some ls)
    (hc : ∀ c ∈ wrapChunks (wrapMunge s), c.length ≤ w) : ∀ l ∈ ls, l.length ≤ w :=
  textWrap_length h hc

/-- **No output line is blank**: no line is empty, and when the only whitespace characters of the row are TextWrapper's
(blank, TAB, LF, VT, FF, CR — always the case for a data row written under `CfgOK`) every line carries a token. -/
theorem C01_wrap_nonempty_lines (w : Nat) (s : Str) (ls : List Str) (h : textWrap w s = some ls) :
    (∀ l ∈ ls, l ≠ []) ∧
    ((∀ c ∈ s, isPySpace c = true → isWrapSpace c = true) → ∀ l ∈ ls, tokensWs l ≠ []) :=
  ⟨textWrap_ne_nil h, fun hs => textWrap_nonblank h hs⟩

/-- COUNTER-EXAMPLE (the whitespace hypothesis of the second clause is needed): U+00A0 is whitespace for `str.split` but
not for TextWrapper; `wrap("  b", 2)` emits the line `" "`, which holds no token. -/
theorem C01_wrap_blank_line_exotic :
    textWrap 2 [Char.ofNat 0xA0, ' ', 'b'] = some [[Char.ofNat 0xA0], ['b']] ∧ tokensWs [Char.ofNat 0xA0] = [] := by
  decide

/-- a value longer than the width gets a line of its own and is not cut (repair "wrapped data lines cut a value longer than
data_width in two"); before the repair TextWrapper broke it (`12345.5` at width 3 → `123`, `45.`, `5`), which the model of the
old call did not follow (`textWrapOld … = none`) and which the reader took for three values -/
theorem C01_wrap_long_value_own_line :
    textWrap 3 "12345.5 1".toList = some ["12345.5".toList, "1".toList] ∧
    textWrap 3 " 1 12345.5 2 3".toList = some [" 1".toList, "12345.5".toList, "2 3".toList] ∧
    textWrapOld 3 "12345.5 1".toList = none := by decide

/-- **A NaN cell is written as the NULL text** (whatever the format), and under `CfgOK` it tokenises to `[NULL]` -/
theorem C01_nan_marker (null : Str) (f : Fmt) (l : Int) (sp : Str) :
    cellValue null f .nan = null ∧ cellToken null f .nan = null ∧
    formatCell null f l sp .nan = sp ++ (if l == -1 then null else rjust l.toNat null) ∧
    ((∀ c ∈ sp, isPySpace c = true) → IsTok null → tokensWs (formatCell null f l sp .nan) = [null]) :=
  ⟨rfl, rfl, rfl, fun hsp hn => (C01_cell_token null f l sp .nan hsp hn).2⟩

/-- a finite cell is never written as the NULL text by the NaN branch: its text is `fmt % x` -/
theorem C01_finite_cell (null : Str) (f : Fmt) (neg : Bool) (m : Nat) (e : Int) :
    cellValue null f (.finite neg m e) = fmtApply f (.finite neg m e) := rfl

/-- **Re-printing the printed decimal reproduces the digits**: the exact decimal value of a printed token, formatted again with
`%.Nf`, gives the same token (no accumulating loss). -/
theorem C01_fmt_idem (N : Nat) (neg : Bool) (m : Nat) (e : Int) :
    ∃ a, decOfTokS (fmtFixed N (.finite neg m e)) = some (neg, a, N) ∧
      fmtFixedDec N neg a N = fmtFixed N (.finite neg m e) := by
  refine ⟨fixedUnits N m e, decOfTokS_fmtFixed N neg m e, ?_⟩
  unfold fmtFixedDec fmtFixed
  rw [divRoundHalfEven_exact _ _ (Nat.pow_pos (by decide))]

/-- **Stability**: ANY binary64 value `y = sgn · m' · 2^e'` lying strictly within half a unit of the last digit of the decimal
`q / 10^N` prints as that decimal — in particular the double nearest to a printed token re-prints to the same token. -/
theorem C01_fmt_stable (N : Nat) (neg : Bool) (m' : Nat) (e' : Int) (q : Nat)
    (h : 2 * ((q : Int) * 2 ^ (-e').toNat - m' * 2 ^ e'.toNat * 10 ^ N).natAbs < 2 ^ (-e').toNat) :
    fmtFixed N (.finite neg m' e') = (if neg then ['-'] else []) ++ fixedDigits N q := by
  show (if neg then ['-'] else []) ++ fixedDigits N (fixedUnits N m' e') = _
  unfold fixedUnits
  rw [divRoundHalfEven_unique _ _ q (Nat.pow_pos (by decide)) (by push_cast; exact h)]

/-- **The whole data section**: when `dataLines` emits `header :: body` under `CfgOK`, the whitespace tokens of the body lines,
in order, are exactly the cell tokens of the rows in row-major order (so `rows × columns` tokens, each row contiguous);
when wrapping, a body line is longer than `data_width` only if it is one unbroken value, and none is empty. -/
theorem C01_lines_tokens (cfg : DataCfg) (null : Str) (mn : List Str) (rows : List (List F64)) (c : RowCfg)
    (hc : cfg.rowCfg = some c) (hok : CfgOK c null) (ls : List Str) (h : dataLines cfg null mn rows = some ls) :
    ∃ header body, ls = header :: body ∧
      body.flatMap tokensWs = rows.flatMap (rowTokens c null) ∧
      (cfg.wrap = true → ∀ l ∈ body, (l.length ≤ cfg.dataWidth ∨ ' ' ∉ l) ∧ l ≠ []) := by
  unfold dataLines at h
  rw [hc] at h
  simp only at h
  split at h
  · rename_i hd b hh hb
    injection h with h; subst h
    refine ⟨hd, b, rfl, dwBodyLines_tokens hok _ _ rows b hb, ?_⟩
    intro hw
    rw [hw] at hb
    exact dwBodyLines_length _ rows b hb
  · cases h

/-! ### non-vacuity: the model computes the expected texts -/

example : fmtFixed 5 F64.pi = "3.14159".toList := by decide
example : fmtFixed 0 (.finite false 1 (-1)) = "0".toList ∧ fmtFixed 0 (.finite false 3 (-1)) = "2".toList ∧
    fmtFixed 0 (.finite false 5 (-1)) = "2".toList ∧ fmtFixed 1 (.finite true 1 (-2)) = "-0.2".toList ∧
    fmtFixed 5 (.finite true 0 0) = "-0.00000".toList := by decide
example : parseFmt "%10.3f".toList = some ⟨some 10, 3⟩ ∧ parseFmt "%.5f".toList = some ⟨none, 5⟩ ∧
    parseFmt "%.3e".toList = none ∧ parseFmt "%010.3f".toList = none := by decide
example : lenNumericFieldDefault ⟨none, 5⟩ = 10 ∧ lenNumericFieldDefault ⟨none, 12⟩ = 15 := by decide
example : CfgOK ⟨⟨none, 5⟩, [], 10, [' '], [' ']⟩ nullTxt :=
  ⟨by decide, by decide, by decide, ⟨by decide, by decide⟩⟩
example : dataRow ⟨⟨none, 1⟩, [], 5, [' '], [' ']⟩ nullTxt [one, .nan, two]
    = "   1.0 -999.25   2.0".toList := by decide
example : textWrap 8 "  1.0  2.5\t3.25".toList = some ["  1.0".toList, "2.5".toList, "3.25".toList] := by decide
example : dataLines ⟨true, "%.1f".toList, [], none, [' '], [' '], 12, 20, "~A".toList, false⟩ nullTxt
      ["DEPT".toList, "A".toList] [[one, .nan], [two, one]]
    = some ["~A -----------------".toList, "        1.0".toList, "-999.25".toList, "        2.0".toList, "1.0".toList] := by
  decide

/-! ### write -> read: the reader model (`LasioModel/Data.lean`, namespace `Dt`) inverts the writer model

Bridge lemmas in `Lemmas/RoundTripData.lean` (namespace `Rt`).  `Rt.tokenRows c null rows` is the r × n matrix of written
tokens (`C01_token_matrix`); `Rt.Written cfg null mn rows c n hdr body` bundles the hypotheses of the round trip
(`C01_written` builds it from them); `eol` is any whitespace line end (`""`, `"\n"`, `"\r\n"`) appended to the written lines. -/

/-- **The two models tokenise alike and the read substitutions are silent on written text.**
1. `str.split()` is modelled twice (`Dt.pySplit` in the genfromtxt specification, `tokensWs` here): equal on every string.
2. The reader's whitespace splitter (`sow_regex.findall`, groups joined) is `str.split()` on every line without `"` and `'`.
3. A printed finite sample is in the plain decimal grammar, is a quiet token, and every subset of the read substitutions is
   the identity on it.
4. On ANY line whose `str.split()` tokens are quiet tokens (tokens separated by at least one whitespace character, which is
   what the non-empty spacer of `CfgOK` gives, `C01_row_tokens`): every subset of the read substitutions leaves the WHOLE line
   unchanged — the comma pattern needs a `,`, the run-on-dot pattern two dots in one token, and the run-on-hyphen pattern
   `(\d)-(\d)` a digit immediately followed by `-`, which does not occur: a `-` only stands first in a token and the character
   before a token is whitespace — and the normal engine's items, the raw splitter and genfromtxt's tokens are the
   `str.split()` tokens.  Since this holds with and without the hyphen substitution, the sniffer's hyphen recommendation
   (which only removes that substitution) is harmless. -/
theorem C01_tokens_bridge :
    (∀ l : Str, Dt.pySplit l = tokensWs l) ∧
    (∀ l : Str, (∀ x ∈ l, x ≠ '"' ∧ x ≠ '\'') → Dt.splitWs l = tokensWs l) ∧
    (∀ N neg m e, Dt.isPlainDecimal (fmtFixed N (.finite neg m e)) = true ∧ Dt.QuietTok (fmtFixed N (.finite neg m e)) ∧
      ∀ sb, Dt.applySubs sb (fmtFixed N (.finite neg m e)) = fmtFixed N (.finite neg m e)) ∧
    (∀ l : Str, (∀ t ∈ tokensWs l, Dt.QuietTok t) → ∀ sb,
      Dt.applySubs sb l = l ∧ Dt.splitWs l = tokensWs l ∧ Dt.lineTokens sb .space l = tokensWs l ∧
      Dt.npTokens l = tokensWs l) :=
  ⟨Rt.pySplit_eq_tokensWs, Rt.splitWs_eq_tokensWs_noquote,
   fun N neg m e => ⟨Rt.fmtFixed_isPlainDecimal N neg m e, Rt.quiet_fmtFixed_finite N neg m e,
     fun sb => Dt.applySubs_core sb (Dt.Core.one (Rt.quiet_fmtFixed_finite N neg m e))⟩,
   fun l hq sb => ⟨Rt.applySubs_line sb l hq, Rt.splitWs_eq_tokensWs l hq, Rt.lineTokens_eq_tokensWs sb l hq,
     Rt.npTokens_eq_tokensWs l hq⟩⟩

/-- every cell token (NULL text, `%.Nf` of a finite value, `inf`, `-inf`) is quiet when the NULL text is; a NULL text in the
plain decimal grammar (`-999.25`, `-9999`, …) is -/
theorem C01_cell_token_quiet (null : Str) (f : Fmt) (x : F64) :
    (Dt.isPlainDecimal null = true → Dt.QuietTok null) ∧ (Dt.QuietTok null → Dt.QuietTok (cellToken null f x)) :=
  ⟨fun h => Dt.quietTok_of_simple null (Dt.simplePlain_of_grammar null h), fun h => Rt.quiet_cellToken null h f x⟩

/-- the matrix of written tokens: entry (i, j) is the NULL text when cell (i, j) is NaN, else `'%.Nf' % cell` with the
precision of column j -/
theorem C01_token_matrix (c : RowCfg) (null : Str) (rows : List (List F64)) :
    Rt.tokenRows c null rows = rows.map (fun row => row.mapIdx (fun j x => cellToken null (c.colFmt j) x)) ∧
    ∀ f x, cellToken null f x = if x.isNaN then null else fmtFixed f.prec x := by
  refine ⟨?_, fun _ _ => rfl⟩
  unfold Rt.tokenRows
  apply List.map_congr_left
  intro r _
  exact Rt.rowTokens_eq_mapIdx c null r

/-- the hypotheses of the round trip: a supported configuration (`CfgOK`), a quiet NULL text, `dataLines` succeeded with
`hdr :: body`, the cells form a non-empty r × n matrix (n ≥ 1) -/
theorem C01_written (cfg : DataCfg) (null : Str) (mn : List Str) (rows : List (List F64)) (c : RowCfg) (n : Nat)
    (hdr : Str) (body : List Str) (hc : cfg.rowCfg = some c) (hok : CfgOK c null) (hq : Dt.QuietTok null)
    (h : dataLines cfg null mn rows = some (hdr :: body)) (hr : rows ≠ []) (hn : 0 < n) (hrect : ∀ r ∈ rows, r.length = n) :
    Rt.Written cfg null mn rows c n hdr body := ⟨hc, hok, hq, h, hr, hn, hrect⟩

/-- every written body line satisfies the condition of `C01_tokens_bridge` (4) -/
theorem C01_written_lines_quiet {cfg : DataCfg} {null : Str} {mn : List Str} {rows : List (List F64)} {c : RowCfg} {n : Nat}
    {hdr : Str} {body : List Str} (w : Rt.Written cfg null mn rows c n hdr body) :
    ∀ l ∈ body, ∀ t ∈ tokensWs l, Dt.QuietTok t :=
  Rt.body_tokens_quiet w.ok w.nullQuiet _ _ rows body w.body_eq

/-- **write -> read, normal engine** (any F64 cells, any supported formats, wrapped or not, any active substitutions):
reading the written body with `n_columns = n` returns exactly the matrix of written tokens, column by column (a column is
`floats` when all its tokens convert, `text` otherwise). -/
theorem C01_roundtrip_normal (cfg : DataCfg) (null : Str) (mn : List Str) (rows : List (List F64)) (c : RowCfg) (n : Nat)
    (hdr : Str) (body : List Str) (hc : cfg.rowCfg = some c) (hok : CfgOK c null) (hq : Dt.QuietTok null)
    (h : dataLines cfg null mn rows = some (hdr :: body)) (hr : rows ≠ []) (hn : 0 < n) (hrect : ∀ r ∈ rows, r.length = n)
    (ft : Dt.FloatTable) (sb : Dt.Subs) (eol : Str) (heol : Dt.AllWs eol) :
    Dt.normalEngineLines ft sb .space n (body.map (· ++ eol)) =
      .ok (Dt.matrixColumns ft n (rows.map (fun row => row.mapIdx (fun j x => cellToken null (c.colFmt j) x)))) := by
  rw [← (C01_token_matrix c null rows).1]
  exact Rt.roundtrip_normal (C01_written cfg null mn rows c n hdr body hc hok hq h hr hn hrect) ft sb eol heol

/-- the flat item list of the normal engine is the row-major flattening of the token matrix (wrapped or not) -/
theorem C01_roundtrip_items {cfg : DataCfg} {null : Str} {mn : List Str} {rows : List (List F64)} {c : RowCfg} {n : Nat}
    {hdr : Str} {body : List Str} (w : Rt.Written cfg null mn rows c n hdr body) (sb : Dt.Subs) (eol : Str)
    (heol : Dt.AllWs eol) :
    Dt.normalTokens sb .space (body.map (· ++ eol)) = (Rt.tokenRows c null rows).flatten :=
  Rt.normalTokens_written w sb eol heol

/-- **unwrapped output**: one data line of `n` quiet tokens per row (a plain data section in the sense of C02), and the
sniffer (`inspect_data_section`) counts `n` columns whichever substitutions are active -/
theorem C01_roundtrip_sniff {cfg : DataCfg} {null : Str} {mn : List Str} {rows : List (List F64)} {c : RowCfg} {n : Nat}
    {hdr : Str} {body : List Str} (w : Rt.Written cfg null mn rows c n hdr body) (hwrap : cfg.wrap = false)
    (sb : Dt.Subs) (eol : Str) (heol : Dt.AllWs eol) (pre : List Str) (title : Str) (after : List Str) :
    Dt.Body n (body.map (· ++ eol)) (Rt.tokenRows c null rows) ∧ (body.map (· ++ eol)).length = rows.length ∧
    (Dt.sniffColumns sb .space (pre ++ title :: (body.map (· ++ eol) ++ after)) pre.length
      (pre.length + (body.map (· ++ eol)).length)).count = some n :=
  ⟨(w.body_plain hwrap eol heol).1, (w.body_plain hwrap eol heol).2, Rt.roundtrip_sniff w hwrap sb eol heol pre title after⟩

/-- **write -> read, genfromtxt specification** (unwrapped output; every written token a number for `float()`; after the
section nothing, or a line whose first token is not a number): the same columns as the normal engine -/
theorem C01_roundtrip_numpy {cfg : DataCfg} {null : Str} {mn : List Str} {rows : List (List F64)} {c : RowCfg} {n : Nat}
    {hdr : Str} {body : List Str} (w : Rt.Written cfg null mn rows c n hdr body) (hwrap : cfg.wrap = false)
    (ft : Dt.FloatTable) (hnum : Dt.Numeric ft (Rt.tokenRows c null rows)) (eol : Str) (heol : Dt.AllWs eol)
    (after : List Str)
    (hnext : after = [] ∨ ∃ ln rest t ts, after = ln :: rest ∧ Dt.npTokens ln = t :: ts ∧ Dt.toFloat ft t = none) :
    Dt.numpyEngineLines ft (body.map (· ++ eol)).length (body.map (· ++ eol) ++ after) =
      some (Dt.matrixColumns ft n (Rt.tokenRows c null rows)) :=
  Rt.roundtrip_numpy w hwrap ft hnum eol heol after hnext

/-- **through `readData`, WRAP = YES declared** (file written with any `wrap`), `n` declared curves: the normal engine runs
with `n_columns = n` and the curves are those of the written matrix (`Rt.curvesOf` = `assignCurves` of `applyNull` of it) -/
theorem C01_roundtrip_read_wrapYes {cfg : DataCfg} {null : Str} {mn : List Str} {rows : List (List F64)} {c : RowCfg} {n : Nat}
    {hdr : Str} {body : List Str} (w : Rt.Written cfg null mn rows c n hdr body) (e : Dt.Engine) (p : Dt.NullPolicy)
    (st : Dt.Steer) (ft : Dt.FloatTable) (eol : Str) (heol : Dt.AllWs eol) (pre : List Str) (title : Str) (after : List Str)
    (hdlm : st.delimiter = .space) (hwd : st.wrapDeclared = true) (hwy : st.wrapped = Dt.yesTxt) :
    Dt.readData ⟨e, p⟩ (pre ++ title :: (body.map (· ++ eol) ++ after)) pre.length
        (pre.length + (body.map (· ++ eol)).length) st n ft =
      .ok (.normal, Dt.assignCurves n (Dt.applyNull (p == .strict) st.nullValue
        (Dt.matrixColumns ft n (Rt.tokenRows c null rows)))) :=
  Rt.readData_wrapYes w e p st ft eol heol pre title after hdlm hwd hwy

/-- **through `readData`, file written with `wrap=False`, WRAP ≠ YES**, any engine, any null policy, any number `d` of declared
curves: the sniffer finds `n`, and the curves are those of the written matrix (fast engine and fallback agree) -/
theorem C01_roundtrip_read_unwrapped {cfg : DataCfg} {null : Str} {mn : List Str} {rows : List (List F64)} {c : RowCfg}
    {n : Nat} {hdr : Str} {body : List Str} (w : Rt.Written cfg null mn rows c n hdr body) (hwrap : cfg.wrap = false)
    (e : Dt.Engine) (p : Dt.NullPolicy) (st : Dt.Steer) (d : Nat) (ft : Dt.FloatTable) (eol : Str) (heol : Dt.AllWs eol)
    (pre : List Str) (title : Str) (after : List Str)
    (hdlm : st.delimiter = .space) (hw : st.wrapped ≠ Dt.yesTxt)
    (hnext : after = [] ∨ ∃ ln rest t ts, after = ln :: rest ∧ Dt.npTokens ln = t :: ts ∧ Dt.toFloat ft t = none) :
    (Dt.readData ⟨e, p⟩ (pre ++ title :: (body.map (· ++ eol) ++ after)) pre.length
        (pre.length + (body.map (· ++ eol)).length) st d ft).map Prod.snd =
      .ok (Dt.assignCurves d (Dt.applyNull (p == .strict) st.nullValue
        (Dt.matrixColumns ft n (Rt.tokenRows c null rows)))) :=
  Rt.readData_unwrapped w hwrap e p st d ft eol heol pre title after hdlm hw hnext

/-- COUNTER-EXAMPLE (the NULL text must be a quiet token; `CfgOK` only asks for a whitespace-free one): with `NULL = -999,25`
the written line `1.0 -999,25` tokenises to the NULL text, but the reader's comma-decimal substitution turns it into `-999.25` -/
theorem C01_roundtrip_needs_quiet_null :
    tokensWs "1.0 -999,25".toList = ["1.0".toList, "-999,25".toList] ∧
    Dt.lineTokens Dt.Subs.default .space "1.0 -999,25".toList = ["1.0".toList, "-999.25".toList] := by decide

/-- COUNTER-EXAMPLE (`rows ≠ []` is needed): without data rows the body is empty and the normal engine returns no column at
all, not `n` empty columns -/
theorem C01_roundtrip_needs_rows (ft : Dt.FloatTable) (sb : Dt.Subs) :
    Dt.normalEngineLines ft sb .space 1 [] = .ok [] ∧ Dt.matrixColumns ft 1 [] = [.floats []] := ⟨rfl, rfl⟩

/-- non-vacuity of the round trip: the wrapped example below satisfies `Rt.Written`, and reading its body back gives the
two columns of tokens -/
theorem C01_roundtrip_example :
    Rt.Written ⟨true, "%.1f".toList, [], none, [' '], [' '], 12, 20, "~A".toList, false⟩ nullTxt
      ["DEPT".toList, "A".toList] [[one, .nan], [two, one]] ⟨⟨none, 1⟩, [], 10, [' '], [' ']⟩ 2
      "~A -----------------".toList ["        1.0".toList, "-999.25".toList, "        2.0".toList, "1.0".toList] ∧
    Dt.normalEngineLines [] Dt.Subs.default .space 2
        (["        1.0".toList, "-999.25".toList, "        2.0".toList, "1.0".toList].map (· ++ ['\n'])) =
      .ok [.text ["1.0".toList, "2.0".toList], .text ["-999.25".toList, "1.0".toList]] := by
  refine ⟨⟨by rfl, ⟨by decide, by decide, by decide, ⟨by decide, by decide⟩⟩, Rt.quietTok_of_check _ (by decide),
    by decide, by decide, by decide, by decide⟩, by rfl⟩

#print axioms C01_value
#print axioms C01_plain_token
#print axioms C01_row_tokens
#print axioms C01_wrap_preserves_tokens
#print axioms C01_wrap_line_length
#print axioms C01_wrap_line_length_fits
#print axioms C01_wrap_long_value_own_line
#print axioms C01_wrap_nonempty_lines
#print axioms C01_fmt_stable
#print axioms C01_lines_tokens
#print axioms C01_tokens_bridge
#print axioms C01_cell_token_quiet
#print axioms C01_token_matrix
#print axioms C01_written
#print axioms C01_written_lines_quiet
#print axioms C01_roundtrip_normal
#print axioms C01_roundtrip_items
#print axioms C01_roundtrip_sniff
#print axioms C01_roundtrip_numpy
#print axioms C01_roundtrip_read_wrapYes
#print axioms C01_roundtrip_read_unwrapped
#print axioms C01_roundtrip_needs_quiet_null
#print axioms C01_roundtrip_needs_rows
#print axioms C01_roundtrip_example

end Lasio.Dw
