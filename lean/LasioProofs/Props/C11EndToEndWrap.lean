import LasioProofs.Props.C11FixedText
/-
C11 END TO END, WRAPPED — `C11_cycle_end_to_end_partial`, `C11_cycle_text_fixed_point` and `C11_cycle_text_iterate` for `wrap=True`.

HOW THE MODEL DECIDES THE WRAPPED PATH.  `Ro.readObjFullLines` has no option for it: as `Tf.readFull`, it hands `Tf.dtSteer nullOf h.steer` to
`Dt.readData`, where `h.steer.wrap` is the raw text of the WRAP item of the ~Version section it has just read (`Rd.steer`; `none` = no such
item, then `wrapped = "YES"` is the provisional default and `wrapDeclared = false`).  `Dt.effectiveEngine` switches to the normal engine when that
text is `"YES"`, and `Dt.readerColumns` takes the number of ~Curves items as the number of columns when WRAP was declared YES.  So the written
header steers the read: `write(wrap=True)` puts `WRAP. YES` into the ~Version copy (`Wr.wrapItem true`), the reader finds it
(`hwy : Fr.steerVal opts.hdr "WRAP" (RH.versionCopy …) = some "YES"`: exactly one WRAP item, its text YES) and re-assembles the depth steps from
the physical lines with `n = number of ~Curves items` values per step (`Fd.C01_file_dlm_wrapYes`, `Rt.readData_wrapYes`).

WHAT CHANGES WITH RESPECT TO THE UNWRAPPED PROOF: `Fd.C01_file_dlm_wrapYes` instead of `Fd.C01_file_dlm_unwrapped`; everything after the read
(`dataOf_written`, `Cd.dataLines_reRows`, `Cr.C11_cycle_fixed_point`, `Hc.header_text_fixed`) is independent of `wrap`.
HYPOTHESES THAT WRAPPING ADDS OR CHANGES
  `hwr : wcfg.wrap = some true`
  `hwy` (above) replaces "the written WRAP text is not YES" of the unwrapped theorem.
  `hcur : (toWLas o2).curves.length = n`  as before, but now it is what the READER relies on: the depth steps are cut after `len(curves)` values
        (`writeObj` guarantees it: it refuses `data.length ≠ curves.length`).
  `h6 : Dw.dataLines … = some (hdr :: body)` with `(dataCfg wcfg).wrap = true` CONTAINS the wrapping condition, which is only `data_width ≠ 0`
        (`textwrap.TextWrapper(width=0)` raises: `C11_wrapped_width_zero`).  A field wider than `data_width` stands alone on its line
        (`break_long_words=False` since the repair recorded in DataWrite.lean) and is no obstacle: `C11_wrapped_narrow_example` (`data_width = 5`,
        one value per physical line, five lines per depth step, still `t2 = t1`).
  `hwy` is NEEDED: the same data lines under `WRAP NO` are not read back as the object (`C11_wrapped_needs_wrap_yes`).
  Unchanged: `Rt.Written` (`CfgOK`, quiet NULL, non-empty r × n matrix), `ReadOK`, `StrtodClose`, `NoNullClash`, `IndexNaNFree`, `SpeltConf`,
  `CaseStable`, `OtherStripped`, `LinkOK`, no refresh / units / NULL text of the object read back.
Evaluated example (`C11_wrapped_example`): 5 curves, 2 depth steps, `data_width = 24`: every depth step spans three physical lines; written wrapped,
read by `readObjFullLines` (the object read back IS the object written), written again: `t2 = t1` (24 lines); `C11_wrapped_iterate_example`: three more
cycles; the last `example` applies `C11_cycle_text_iterate_wrapped` to it with every hypothesis discharged.
NOT proved: as in C11EndToEnd / C11FixedText (runtime services, hypotheses on the object read back, no mnemonics header, strict NULL policy, numeric
columns, no NaN in the index column, documents as line lists); `hwy` is assumed, not derived from `wrap = some true` + `CycleConf.hwrap`.
-/
namespace Lasio.Ro
open Lasio Lasio.Wo

/-- **End to end, WRAPPED (partial: `wrap=True`, no mnemonics header, strict NULL policy, numeric columns).** -/
theorem C11_cycle_end_to_end_wrapped_partial (env : Env) (opts : Tf.Opts) (wcfg : WriteCfg) (v : String)
    (hv : wcfg.version = some v) (hwr : wcfg.wrap = some true) (hmh : wcfg.mnemonicsHeader = false)
    (hstrict : opts.dat.nullPolicy = .strict)
    -- the first write, by its steps
    {sd : Option F64} {o : WObj} {vsec : List OItem} {o2 : WObj} {hl : List Str × Wr.WLas} {null : Str} {hdr : Str} {body : List Str}
    (hs1 : (o.data.length != o.curves.length || !sameLengths o.data) = false)
    (h1 : setWrap wcfg o = .ok vsec) (h2 : resolveVersion wcfg o.versionTr vsec = .ok v) (h3 : prepare sd o = .ok o2)
    (h4 : Wr.headerLines v wcfg.wrap wcfg.headerWidth (toWLas o2) = .ok hl)
    (h5 : nullText (afterHeader wcfg o2) = .ok null)
    (h6 : Dw.dataLines (dataCfg wcfg) null ((afterHeader wcfg o2).curves.map (·.session)) (rowsOf (afterHeader wcfg o2).data)
      = some (hdr :: body))
    -- configuration well-formedness (C03 / C01 / C11)
    (hc : Fd.FileConfD opts.hdr v wcfg.wrap (toWLas o2)) (hx : Cy.CycleConf opts.hdr v wcfg.wrap (toWLas o2))
    {c : Dw.RowCfg} {n : Nat}
    (wd : Rt.Written (dataCfg wcfg) null ((afterHeader wcfg o2).curves.map (·.session)) (rowsOf (afterHeader wcfg o2).data) c n hdr body)
    (hn : null.head? ≠ some '~') (a : Char) (r : Str) (hdA : wcfg.dataSectionHeader = '~' :: a :: r) (ha : upperC a = 'A')
    (hcur : (toWLas o2).curves.length = n)
    (hwy : Fr.steerVal opts.hdr "WRAP" (RH.versionCopy v wcfg.wrap (toWLas o2)) = some Dt.yesTxt)
    -- runtime services
    (hsp : Cy.SpeltConf (rvNum env.py) v wcfg.wrap (toWLas o2))
    (nv : Str) (hnull : env.nullOf (Fr.steerVal opts.hdr "NULL" (Wr.standardizeItems (toWLas o2).well)) = some nv)
    (hrd : Cd.ReadOK env.ft env.val null nv) (hst : Cd.StrtodClose env.ft env.val c (rowsOf (afterHeader wcfg o2).data))
    (hcl : Rt.NoNullClash env.ft nv c (rowsOf (afterHeader wcfg o2).data))
    (hfree : Cd.IndexNaNFree (rowsOf (afterHeader wcfg o2).data)) :
    writeObj wcfg sd o = .ok (hl.1 ++ hdr :: body, afterHeader wcfg o2) ∧
    ∃ th o2r,
      readObjLines opts.hdr (Fr.fileDoc hl.1 hdr body) = .ok th ∧
      readObjFullLines env opts (Fr.fileDoc hl.1 hdr body) = .ok o2r ∧
      th.raw.sections = Cy.firstRead opts.hdr v wcfg.wrap (toWLas o2) ∧
      o2r = withData (headerObj env.py opts.hdr th) o2r.data o2r.indexInitial ∧
      rowsOf o2r.data = Cd.reRows env.ft env.val null nv c (rowsOf (afterHeader wcfg o2).data) ∧
      o2r.data.length = o2r.curves.length ∧ sameLengths o2r.data = true ∧
      o2r.indexInitial = o2r.index ∧ o2r.index = o2r.data.head? ∧
      (LinkOK env.py th → ∀ (sd' : Option F64) (u : Str) (a' b' c' : Nat),
        refreshDecision o2r = .ok false → Cr.UnitsAligned o2r u a' b' c' →
        nullText (afterHeader wcfg o2r) = .ok null →
        ∃ lines2 las2', Wr.headerLines v wcfg.wrap wcfg.headerWidth (toWLas o2r) = .ok (lines2, las2') ∧
          writeObj wcfg sd' o2r = .ok (lines2 ++ hdr :: body, afterHeader wcfg o2r) ∧
          Rd.readLines opts.hdr hl.1 =
            .ok ⟨Cy.firstRead opts.hdr v wcfg.wrap (toWLas o2), Fd.fileSteerD opts.hdr v wcfg.wrap (toWLas o2), []⟩ ∧
          Rd.readLines opts.hdr lines2 =
            .ok ⟨Cy.firstRead opts.hdr v wcfg.wrap (toWLas o2), Fd.fileSteerD opts.hdr v wcfg.wrap (toWLas o2), []⟩ ∧
          (afterHeader wcfg o2r).data = o2r.data ∧ (afterHeader wcfg o2r).indexInitial = o2r.indexInitial) := by
  refine ⟨writeObj_of_steps hs1 h1 h2 h3 h4 h5 h6, ?_⟩
  -- the whole-file read of the written text
  have hfull := Fd.C01_file_dlm_wrapYes opts env.nullOf env.ft v wcfg.wrap wcfg.headerWidth (toWLas o2) hl.2 hl.1 h4 hc
    wd hn a r hdA ha hwy hcur
  have hst' : (opts.dat.nullPolicy == Dt.NullPolicy.strict) = true := by rw [hstrict]; rfl
  rw [hst', hnull] at hfull
  obtain ⟨hnumc, hDlen, hDcol, hDrows⟩ := dataOf_written env.ft env.val null nv c (rowsOf (afterHeader wcfg o2).data) n wd.npos wd.rect
    (Cd.numeric_of hrd hst)
  obtain ⟨th, hth, hsec, _, hobj⟩ := readObjFullLines_of_readFull env opts _ _ _ _ _ _ _ hfull rfl hnumc
  generalize hD : dataOf env.val (Dt.assignCurves n (Dt.applyNull true (some nv)
    (Dt.matrixColumns env.ft n (Rt.tokenRows c null (rowsOf (afterHeader wcfg o2).data))))) = D at hDlen hDcol hDrows hobj
  refine ⟨th, _, hth, hobj, hsec, rfl, hDrows, ?_, sameLengths_of _ _ hDcol, rfl, rfl, ?_⟩
  · -- as many columns as curves
    show D.length = (objItems env.py opts.hdr th Rd.kCurves).length
    rw [hDlen, objItems, oItems_length, hsec, ← hcur, secItems_firstRead_curves]
    simp
  · intro hlink sd' u a' b' c' hd hu h5'
    have hW : toWLas (withData (headerObj env.py opts.hdr th) D D.head?) =
        Cy.lasOfRead (rvNum env.py) opts.hdr (Cy.firstRead opts.hdr v wcfg.wrap (toWLas o2)) := by
      rw [toWLas_withData, toWLas_headerObj env.py opts.hdr th hlink, hsec]
    have hs2 : ((withData (headerObj env.py opts.hdr th) D D.head?).data.length !=
        (withData (headerObj env.py opts.hdr th) D D.head?).curves.length ||
        !sameLengths (withData (headerObj env.py opts.hdr th) D D.head?).data) = false := by
      have e1 : D.length = (objItems env.py opts.hdr th Rd.kCurves).length := by
        rw [hDlen, objItems, oItems_length, hsec, ← hcur, secItems_firstRead_curves]
        simp
      show (D.length != (objItems env.py opts.hdr th Rd.kCurves).length || !sameLengths D) = false
      rw [e1, sameLengths_of _ _ hDcol]
      simp
    have h6' : Dw.dataLines (dataCfg wcfg) null
        ((afterHeader wcfg (withData (headerObj env.py opts.hdr th) D D.head?)).curves.map (·.session))
        (rowsOf (afterHeader wcfg (withData (headerObj env.py opts.hdr th) D D.head?)).data) =
        some (hdr :: body) := by
      show Dw.dataLines (dataCfg wcfg) null _ (rowsOf D) = _
      rw [hDrows, Cd.dataLines_reRows (dataCfg wcfg) _ wd.rowCfg hrd hst hfree hcl,
        dataLines_mnemonics (dataCfg wcfg) null _ ((afterHeader wcfg o2).curves.map (·.session)) _ (by simp [dataCfg, hmh])]
      exact wd.lines
    obtain ⟨lines2, las2', hh, hw, r1, r2, _, e1, e2⟩ := Cr.C11_cycle_fixed_point opts.hdr (rvNum env.py) (rvNum_retype env.py) v wcfg hv
      wcfg.headerWidth (toWLas o2) hl.2 hl.1 h4 hc hx hsp _ hW sd' u a' b' c' hd hu hs2 _ (by unfold setWrap; rw [hwr]) null hdr body h5' h6'
    exact ⟨lines2, las2', hh, hw, r1, r2, e1, e2⟩

/-- **The whole WRAPPED text is a fixed point.** -/
theorem C11_cycle_text_fixed_point_wrapped (env : Env) (opts : Tf.Opts) (wcfg : WriteCfg) (v : String)
    (hv : wcfg.version = some v) (hwr : wcfg.wrap = some true) (hmh : wcfg.mnemonicsHeader = false)
    (hstrict : opts.dat.nullPolicy = .strict)
    {sd : Option F64} {o : WObj} {vsec : List OItem} {o2 : WObj} {hl : List Str × Wr.WLas} {null : Str} {hdr : Str} {body : List Str}
    (hs1 : (o.data.length != o.curves.length || !sameLengths o.data) = false)
    (h1 : setWrap wcfg o = .ok vsec) (h2 : resolveVersion wcfg o.versionTr vsec = .ok v) (h3 : prepare sd o = .ok o2)
    (h4 : Wr.headerLines v wcfg.wrap wcfg.headerWidth (toWLas o2) = .ok hl)
    (h5 : nullText (afterHeader wcfg o2) = .ok null)
    (h6 : Dw.dataLines (dataCfg wcfg) null ((afterHeader wcfg o2).curves.map (·.session)) (rowsOf (afterHeader wcfg o2).data)
      = some (hdr :: body))
    (hc : Fd.FileConfD opts.hdr v wcfg.wrap (toWLas o2)) (hx : Cy.CycleConf opts.hdr v wcfg.wrap (toWLas o2))
    {c : Dw.RowCfg} {n : Nat}
    (wd : Rt.Written (dataCfg wcfg) null ((afterHeader wcfg o2).curves.map (·.session)) (rowsOf (afterHeader wcfg o2).data) c n hdr body)
    (hn : null.head? ≠ some '~') (a : Char) (r : Str) (hdA : wcfg.dataSectionHeader = '~' :: a :: r) (ha : upperC a = 'A')
    (hcur : (toWLas o2).curves.length = n)
    (hwy : Fr.steerVal opts.hdr "WRAP" (RH.versionCopy v wcfg.wrap (toWLas o2)) = some Dt.yesTxt)
    (hsp : Cy.SpeltConf (rvNum env.py) v wcfg.wrap (toWLas o2))
    (nv : Str) (hnull : env.nullOf (Fr.steerVal opts.hdr "NULL" (Wr.standardizeItems (toWLas o2).well)) = some nv)
    (hrd : Cd.ReadOK env.ft env.val null nv) (hst : Cd.StrtodClose env.ft env.val c (rowsOf (afterHeader wcfg o2).data))
    (hcl : Rt.NoNullClash env.ft nv c (rowsOf (afterHeader wcfg o2).data))
    (hfree : Cd.IndexNaNFree (rowsOf (afterHeader wcfg o2).data))
    -- the three conditions of the TEXTUAL fixed point
    (hcase : Hc.CaseStable opts.hdr (Cy.writtenItems v wcfg.wrap (toWLas o2)))
    (hcase1 : Hc.CaseStable opts.hdr (Cy.writtenItems v wcfg.wrap
      (Cy.lasOfRead (rvNum env.py) opts.hdr (Cy.firstRead opts.hdr v wcfg.wrap (toWLas o2)))))
    (hoth : Hc.OtherStripped o2.other) :
    writeObj wcfg sd o = .ok (hl.1 ++ hdr :: body, afterHeader wcfg o2) ∧
    ∃ th o2r,
      readObjLines opts.hdr ((hl.1 ++ hdr :: body).map (· ++ Tf.nl)) = .ok th ∧
      readObjFullLines env opts ((hl.1 ++ hdr :: body).map (· ++ Tf.nl)) = .ok o2r ∧
      (LinkOK env.py th → ∀ (sd' : Option F64) (u : Str) (a' b' c' : Nat),
        refreshDecision o2r = .ok false → Cr.UnitsAligned o2r u a' b' c' →
        nullText (afterHeader wcfg o2r) = .ok null →
        writeObj wcfg sd' o2r = .ok (hl.1 ++ hdr :: body, afterHeader wcfg o2r)) := by
  obtain ⟨hw, th, o2r, hth, hobj, hsec, ho2r, _, _, _, _, _, himp⟩ :=
    C11_cycle_end_to_end_wrapped_partial env opts wcfg v hv hwr hmh hstrict hs1 h1 h2 h3 h4 h5 h6 hc hx wd hn a r hdA ha hcur hwy hsp nv hnull
      hrd hst hcl hfree
  refine ⟨hw, th, o2r, hth, hobj, ?_⟩
  intro hlink sd' u a' b' c' hd hu h5'
  obtain ⟨lines2, las2', hh, hw2, _⟩ := himp hlink sd' u a' b' c' hd hu h5'
  have e : toWLas o2r = Cy.lasOfRead (rvNum env.py) opts.hdr (Cy.firstRead opts.hdr v wcfg.wrap (toWLas o2)) := by
    have e0 := congrArg toWLas ho2r
    rw [toWLas_withData, toWLas_headerObj env.py opts.hdr th hlink, hsec] at e0
    exact e0
  obtain ⟨las2'', hfix⟩ := Hc.header_text_fixed opts.hdr (rvNum_retype env.py) v wcfg.wrap wcfg.headerWidth (toWLas o2) hl.2 hl.1 h4 hc hx hsp
    hcase hcase1 hoth
  rw [e, hfix] at hh
  simp only [Except.ok.injEq, Prod.mk.injEq] at hh
  rw [← hh.1] at hw2
  exact hw2

/-- **Nothing changes any more**: the text `t1` of the first write is returned by every number of further read/write cycles.  The hypotheses on
the object read back (`LinkOK`, no refresh, units aligned, NULL text) are asked of WHATEVER `readObjLines` / `readObjFullLines` return for `t1`. -/
theorem C11_cycle_text_iterate_wrapped (env : Env) (opts : Tf.Opts) (wcfg : WriteCfg) (v : String)
    (hv : wcfg.version = some v) (hwr : wcfg.wrap = some true) (hmh : wcfg.mnemonicsHeader = false)
    (hstrict : opts.dat.nullPolicy = .strict)
    {sd : Option F64} {o : WObj} {vsec : List OItem} {o2 : WObj} {hl : List Str × Wr.WLas} {null : Str} {hdr : Str} {body : List Str}
    (hs1 : (o.data.length != o.curves.length || !sameLengths o.data) = false)
    (h1 : setWrap wcfg o = .ok vsec) (h2 : resolveVersion wcfg o.versionTr vsec = .ok v) (h3 : prepare sd o = .ok o2)
    (h4 : Wr.headerLines v wcfg.wrap wcfg.headerWidth (toWLas o2) = .ok hl)
    (h5 : nullText (afterHeader wcfg o2) = .ok null)
    (h6 : Dw.dataLines (dataCfg wcfg) null ((afterHeader wcfg o2).curves.map (·.session)) (rowsOf (afterHeader wcfg o2).data)
      = some (hdr :: body))
    (hc : Fd.FileConfD opts.hdr v wcfg.wrap (toWLas o2)) (hx : Cy.CycleConf opts.hdr v wcfg.wrap (toWLas o2))
    {c : Dw.RowCfg} {n : Nat}
    (wd : Rt.Written (dataCfg wcfg) null ((afterHeader wcfg o2).curves.map (·.session)) (rowsOf (afterHeader wcfg o2).data) c n hdr body)
    (hn : null.head? ≠ some '~') (a : Char) (r : Str) (hdA : wcfg.dataSectionHeader = '~' :: a :: r) (ha : upperC a = 'A')
    (hcur : (toWLas o2).curves.length = n)
    (hwy : Fr.steerVal opts.hdr "WRAP" (RH.versionCopy v wcfg.wrap (toWLas o2)) = some Dt.yesTxt)
    (hsp : Cy.SpeltConf (rvNum env.py) v wcfg.wrap (toWLas o2))
    (nv : Str) (hnull : env.nullOf (Fr.steerVal opts.hdr "NULL" (Wr.standardizeItems (toWLas o2).well)) = some nv)
    (hrd : Cd.ReadOK env.ft env.val null nv) (hst : Cd.StrtodClose env.ft env.val c (rowsOf (afterHeader wcfg o2).data))
    (hcl : Rt.NoNullClash env.ft nv c (rowsOf (afterHeader wcfg o2).data))
    (hfree : Cd.IndexNaNFree (rowsOf (afterHeader wcfg o2).data))
    (hcase : Hc.CaseStable opts.hdr (Cy.writtenItems v wcfg.wrap (toWLas o2)))
    (hcase1 : Hc.CaseStable opts.hdr (Cy.writtenItems v wcfg.wrap
      (Cy.lasOfRead (rvNum env.py) opts.hdr (Cy.firstRead opts.hdr v wcfg.wrap (toWLas o2)))))
    (hoth : Hc.OtherStripped o2.other)
    -- the object read back
    (hlink : ∀ th, readObjLines opts.hdr ((hl.1 ++ hdr :: body).map (· ++ Tf.nl)) = .ok th → LinkOK env.py th)
    (hback : ∀ o2r, readObjFullLines env opts ((hl.1 ++ hdr :: body).map (· ++ Tf.nl)) = .ok o2r →
      refreshDecision o2r = .ok false ∧ (∃ u a' b' c', Cr.UnitsAligned o2r u a' b' c') ∧ nullText (afterHeader wcfg o2r) = .ok null)
    (stepOf : WObj → Option F64) :
    writeObj wcfg sd o = .ok (hl.1 ++ hdr :: body, afterHeader wcfg o2) ∧
    ∀ k, cycleTextN env opts wcfg stepOf k (hl.1 ++ hdr :: body) = some (hl.1 ++ hdr :: body) := by
  obtain ⟨hw, th, o2r, hth, hobj, himp⟩ :=
    C11_cycle_text_fixed_point_wrapped env opts wcfg v hv hwr hmh hstrict hs1 h1 h2 h3 h4 h5 h6 hc hx wd hn a r hdA ha hcur hwy hsp nv hnull
      hrd hst hcl hfree hcase hcase1 hoth
  refine ⟨hw, cycleTextN_fixed env opts wcfg stepOf _ ?_⟩
  obtain ⟨hd, ⟨u, a', b', c', hu⟩, h5'⟩ := hback o2r hobj
  have := himp (hlink th hth) (stepOf o2r) u a' b' c' hd hu h5'
  unfold cycleText
  simp only [hobj, this]


/-! ## a wrapped file, evaluated -/

/-- `wrap=True`, `data_width=24`: two fields per physical line -/
def wCfg : WriteCfg := ⟨some "2.0", some true, 20, Cr.rs "%.5f", [], none, [' '], [' '], 24, Cr.rs "~ASCII", false⟩
def wVersion : List OItem :=
  [mkOItem sVERS [] (.num (Cr.rf false 2 0) (Cr.rs "2.0")) (Cr.rs "CWLS log ASCII Standard -VERSION 2.0"),
   mkOItem sWRAP [] (.str (Cr.rs "YES")) (Cr.rs "Multiple lines per depth step"),
   mkOItem (Cr.rs "DLM") [] (.str (Cr.rs "SPACE")) (Cr.rs "Column Data Section Delimiter")]
def wCurves : List OItem :=
  [mkOItem (Cr.rs "DEPT") (Cr.rs "M") (.str []) (Cr.rs "depth"), mkOItem (Cr.rs "A") (Cr.rs "API") (.str []) (Cr.rs "a"),
   mkOItem (Cr.rs "B") (Cr.rs "API") (.str []) (Cr.rs "b"), mkOItem (Cr.rs "C") (Cr.rs "API") (.str []) (Cr.rs "c"),
   mkOItem (Cr.rs "D") (Cr.rs "API") (.str []) (Cr.rs "d")]
def wData : List (List F64) :=
  [[Cr.rf false 1 0, Cr.rf false 2 0], [Cr.rf false 3 0, Cr.rf false 1 (-1)], [.nan, Cr.rf false 2 0],
   [Cr.rf false 1 (-1), Cr.rf false 3 0], [Cr.rf false 2 0, .nan]]
/-- five curves, two depth steps, as `read()` builds it from a wrapped file (`mnemonic_case="upper"`) -/
def wObj : WObj :=
  ⟨wVersion, true, Cr.rWell (Cr.rNum 1 0 "1.0") (Cr.rNum 2 0 "2.0") (Cr.rNum 1 0 "1.0"), true, wCurves, [], [], wData,
   some [Cr.rf false 1 0, Cr.rf false 2 0]⟩
def wHdr : Str := Cr.rs "~ASCII -------------"
def wBody : List Str :=
  [Cr.rs "    1.00000    3.00000", Cr.rs "-999.25    0.50000", Cr.rs "2.00000",
   Cr.rs "    2.00000    0.50000", Cr.rs "2.00000    3.00000", Cr.rs "-999.25"]

/-- **write wrapped → read the whole file → write, evaluated**: every depth step spans THREE physical lines (`wBody`); the object read back is
`wObj` itself (header values, the 5 × 2 data, `index_initial`), and writing it gives the same 24 lines -/
theorem C11_wrapped_example :
    (match writeObj wCfg none wObj with
     | .ok (t1, _) =>
       match readObjFullLines exEnv exFOpts (t1.map (· ++ Tf.nl)) with
       | .ok o2r =>
         (match writeObj wCfg none o2r with
          | .ok (t2, _) => some (decide (t2 = t1), decide (o2r = wObj), decide (t1.drop 17 = wHdr :: wBody), t1.length)
          | .error _ => none)
       | .error _ => none
     | .error _ => none) = some (true, true, true, 24) := by
  decide +kernel

theorem C11_wrapped_iterate_example :
    (match writeObj wCfg none wObj with
     | .ok (t1, _) => some (decide (cycleTextN exEnv exFOpts wCfg (fun _ => none) 3 t1 = some t1))
     | .error _ => none) = some true := by
  decide +kernel

/-- **the wrapping condition inside `h6`**: `textwrap.TextWrapper(width=0)` raises: `Dw.dataLines` answers `none` and `writeObj` is `unmodelled`.
(Every positive `data_width` is fine: see `C11_wrapped_narrow_example`.) -/
theorem C11_wrapped_width_zero :
    Dw.dataLines (dataCfg { wCfg with dataWidth := 0 }) (Cr.rs "-999.25") [] (rowsOf wData) = none ∧
    (match writeObj { wCfg with dataWidth := 0 } none wObj with | .error .unmodelled => true | _ => false) = true := by
  decide +kernel

/-- **a field wider than `data_width` stands alone on its line** (`break_long_words=False`): with `data_width = 5` every value is on a line of its
own (a depth step spans FIVE physical lines, 10 body lines in all); the cycle is a fixed point all the same -/
theorem C11_wrapped_narrow_example :
    (match writeObj { wCfg with dataWidth := 5 } none wObj with
     | .ok (t1, _) =>
       match readObjFullLines exEnv exFOpts (t1.map (· ++ Tf.nl)) with
       | .ok o2r =>
         (match writeObj { wCfg with dataWidth := 5 } none o2r with
          | .ok (t2, _) => some (decide (t2 = t1), decide (o2r = wObj), t1.length)
          | .error _ => none)
       | .error _ => none
     | .error _ => none) = some (true, true, 28) := by
  decide +kernel

/-- **`hwy` is what steers the read**: the same data lines under a header that says `WRAP NO` are read line by line (the numpy engine refuses
the ragged lines, the normal engine cuts after the FIRST line's 2 values): the object is not `wObj` -/
theorem C11_wrapped_needs_wrap_yes :
    (match writeObj wCfg none wObj with
     | .ok (t1, _) =>
       (match readObjFullLines exEnv exFOpts ((t1.map fun l => if l = Cr.rs "WRAP.   YES : Multiple lines per depth step"
            then Cr.rs "WRAP.    NO : Multiple lines per depth step" else l).map (· ++ Tf.nl)) with
        | .ok o2r => some (decide (o2r = wObj))
        | .error _ => some false)
     | .error _ => none) = some false := by
  decide +kernel

/-! ## non-vacuity: the wrapped theorems apply to `wObj` -/

def wLas : Wr.WLas := toWLas wObj
def wRows : List (List F64) :=
  [[Cr.rf false 1 0, Cr.rf false 3 0, .nan, Cr.rf false 1 (-1), Cr.rf false 2 0],
   [Cr.rf false 2 0, Cr.rf false 1 (-1), Cr.rf false 2 0, Cr.rf false 3 0, .nan]]

theorem wRows_eq : rowsOf (afterHeader wCfg wObj).data = wRows := by decide

theorem wConf (kind : SecName) (it : Wr.WItem) (h : it ∈ wLas.version ++ wLas.well ++ wLas.curves) : Wr.TextConf kind it := by
  have : ∀ it ∈ wLas.version ++ wLas.well ++ wLas.curves,
      it.orig ≠ [] ∧ strip it.orig = it.orig ∧ (∀ c ∈ it.orig, c ≠ '.' ∧ c ≠ ':') ∧ (∀ c ∈ it.unit, isPySpace c = false) ∧
      ¬ hasDotDot it.unit ∧ (it.unit = [] ∨ ¬ allDigits it.unit) ∧ Wr.isBracketed it.unit = false ∧
      it.unit.head? ≠ some '.' ∧ it.unit.getLast? ≠ some '.' ∧ strip it.value.text = it.value.text ∧
      (∀ c ∈ it.value.text, c ≠ ':') ∧ ¬ hasDotDot it.value.text ∧ strip it.descr = it.descr ∧ (∀ c ∈ it.descr, c ≠ ':') := by
    decide
  obtain ⟨h1, h2, h3, h4, h5, h6, h7, h8, h9, h10, h11, h12, h13, h14⟩ := this it h
  exact ⟨h1, h2, h3, h4, h5, h6, h7, h8, h9, h10, h11, fun _ => h12, h13, h14⟩

theorem wFileConf : Fd.FileConfD Cr.rOpts "2.0" (some true) wLas := by
  obtain ⟨hcv, hmv⟩ := Wr.C03_versionCopy_conf "2.0" (some true) wLas
    (fun it hit => wConf _ it (by simp [hit])) (by decide)
  refine ⟨hcv, ?_, ?_, ?_, hmv, by decide, by decide, by decide, ?_,
    (show ∀ l ∈ Wr.splitlines wLas.other, (strip l).head? ≠ some '~' by decide +kernel), ?_⟩
  · intro it hit
    have : Wr.standardizeItems wLas.well = wLas.well := by decide
    rw [this] at hit
    exact wConf _ it (by simp [hit])
  · intro it hit
    exact wConf _ it (by simp [hit])
  · intro it hit
    have : Wr.standardizeItems wLas.params = [] := by decide
    rw [this] at hit
    cases hit
  · exact ⟨(mkOItem sVERS [] (.num (Cr.rf false 2 0) (Cr.rs "2.0")) (Cr.rs "CWLS log ASCII Standard -VERSION 2.0")).toW,
      by decide +kernel, by decide⟩
  · apply Fd.dlmOK_of_single
    intro x hx
    have : (RH.versionCopy "2.0" (some true) wLas).filter (Cy.inGroup Cr.rOpts "DLM".toList) =
        [(mkOItem (Cr.rs "DLM") [] (.str (Cr.rs "SPACE")) (Cr.rs "Column Data Section Delimiter")).toW] := by decide +kernel
    rw [this] at hx
    cases hx
    rfl

theorem wCycleConf : Cy.CycleConf Cr.rOpts "2.0" (some true) wLas :=
  ⟨⟨Wr.wrapItem true, by decide +kernel⟩, by decide, by decide, by decide⟩

theorem wSpelt : Cy.SpeltConf (rvNum exPy) "2.0" (some true) wLas := by
  have : ∀ it ∈ Cy.writtenItems "2.0" (some true) wLas, (rvNum exPy it.value.text).text = it.value.text := by decide +kernel
  exact this

theorem wWritten : Rt.Written (dataCfg wCfg) (Cr.rs "-999.25") ((afterHeader wCfg wObj).curves.map (·.session))
    (rowsOf (afterHeader wCfg wObj).data) exRowCfg5 5 wHdr wBody :=
  ⟨by rfl, ⟨by decide, by decide, by decide, ⟨by decide, by decide⟩⟩, Rt.quietTok_of_check _ (by decide),
    by decide, by decide, by decide, by decide⟩

theorem wStrtod : Cd.StrtodClose exFt exVal exRowCfg5 wRows := by
  intro row hrow j x hx hnan
  have hm := Cd.mem_cellsOf wRows row hrow j x hx
  simp only [Cd.cellsOf, Cd.idxFrom, wRows, List.flatMap_cons, List.flatMap_nil, List.append_nil, List.cons_append,
    List.nil_append, List.mem_cons, Prod.mk.injEq, List.not_mem_nil, or_false] at hm
  rcases hm with ⟨rfl, rfl⟩ | ⟨rfl, rfl⟩ | ⟨rfl, rfl⟩ | ⟨rfl, rfl⟩ | ⟨rfl, rfl⟩ | ⟨rfl, rfl⟩ | ⟨rfl, rfl⟩ | ⟨rfl, rfl⟩ | ⟨rfl, rfl⟩ | ⟨rfl, rfl⟩
  · exact ⟨eH1, _, by decide, by decide, Or.inl rfl⟩
  · exact ⟨eH3, _, by decide, by decide, Or.inl rfl⟩
  · cases hnan
  · exact ⟨eHh, _, by decide, by decide, Or.inl rfl⟩
  · exact ⟨eH2, _, by decide, by decide, Or.inl rfl⟩
  · exact ⟨eH2, _, by decide, by decide, Or.inl rfl⟩
  · exact ⟨eHh, _, by decide, by decide, Or.inl rfl⟩
  · exact ⟨eH2, _, by decide, by decide, Or.inl rfl⟩
  · exact ⟨eH3, _, by decide, by decide, Or.inl rfl⟩
  · cases hnan

theorem wNoClash : Rt.NoNullClash exFt eHn exRowCfg5 wRows := by
  intro row hrow j x hj hx hnan v hv
  have hm := Cd.mem_cellsOf wRows row hrow j x hx
  simp only [Cd.cellsOf, Cd.idxFrom, wRows, List.flatMap_cons, List.flatMap_nil, List.append_nil, List.cons_append,
    List.nil_append, List.mem_cons, Prod.mk.injEq, List.not_mem_nil, or_false] at hm
  rcases hm with ⟨rfl, rfl⟩ | ⟨rfl, rfl⟩ | ⟨rfl, rfl⟩ | ⟨rfl, rfl⟩ | ⟨rfl, rfl⟩ | ⟨rfl, rfl⟩ | ⟨rfl, rfl⟩ | ⟨rfl, rfl⟩ | ⟨rfl, rfl⟩ | ⟨rfl, rfl⟩
  · exact absurd rfl hj
  · have hv' : some v = some eH3 := hv.symm.trans (by decide)
    cases hv'; decide
  · cases hnan
  · have hv' : some v = some eHh := hv.symm.trans (by decide)
    cases hv'; decide
  · have hv' : some v = some eH2 := hv.symm.trans (by decide)
    cases hv'; decide
  · exact absurd rfl hj
  · have hv' : some v = some eHh := hv.symm.trans (by decide)
    cases hv'; decide
  · have hv' : some v = some eH2 := hv.symm.trans (by decide)
    cases hv'; decide
  · have hv' : some v = some eH3 := hv.symm.trans (by decide)
    cases hv'; decide
  · cases hnan

theorem wIndexFree : Cd.IndexNaNFree wRows := by
  intro row hrow x hx
  have hm := Cd.mem_cellsOf wRows row hrow 0 x hx
  simp only [Cd.cellsOf, Cd.idxFrom, wRows, List.flatMap_cons, List.flatMap_nil, List.append_nil, List.cons_append,
    List.nil_append, List.mem_cons, Prod.mk.injEq, List.not_mem_nil, or_false] at hm
  rcases hm with ⟨_, rfl⟩ | ⟨h, _⟩ | ⟨h, _⟩ | ⟨h, _⟩ | ⟨h, _⟩ | ⟨_, rfl⟩ | ⟨h, _⟩ | ⟨h, _⟩ | ⟨h, _⟩ | ⟨h, _⟩
  all_goals first | rfl | omega

/-- whatever the typed reads return for the wrapped text written for `wObj`: `LinkOK` holds and the object IS `wObj` (evaluated) -/
theorem wKeyFull :
    (match Wr.headerLines "2.0" (some true) 20 (toWLas wObj) with
     | .ok (l, _) =>
       (match readObjLines Cr.rOpts ((l ++ wHdr :: wBody).map (· ++ Tf.nl)),
              readObjFullLines exEnv exFOpts ((l ++ wHdr :: wBody).map (· ++ Tf.nl)) with
        | .ok th, .ok o2r => some (linkOKB exPy th && decide (o2r = wObj))
        | _, _ => none)
     | .error _ => none) = some true := by
  decide +kernel

theorem wUnits : Cr.UnitsAligned wObj (Cr.rs "M") 0 1 2 :=
  ⟨by decide, by decide, by decide,
   fun x hx => by cases hx; rfl, fun x hx => by cases hx; rfl, fun x hx => by cases hx; rfl, fun c0 hc => by cases hc; rfl⟩

/-- **non-vacuity of `C11_cycle_text_iterate_wrapped`** (and so of the wrapped fixed-point and end-to-end theorems it is proved from): every
hypothesis holds for `write(wrap=True, data_width=24)` on `wObj`; the wrapped text is returned by every number of further cycles -/
example (hl : List Str × Wr.WLas) (h4 : Wr.headerLines "2.0" (some true) 20 (toWLas wObj) = .ok hl) :
    writeObj wCfg none wObj = .ok (hl.1 ++ wHdr :: wBody, afterHeader wCfg wObj) ∧
    ∀ k, cycleTextN exEnv exFOpts wCfg (fun _ => none) k (hl.1 ++ wHdr :: wBody) = some (hl.1 ++ wHdr :: wBody) := by
  have hprep : prepare none wObj = .ok wObj := by decide
  have key := wKeyFull
  rw [h4] at key
  simp only at key
  have hd : refreshDecision wObj = .ok false := by decide
  refine C11_cycle_text_iterate_wrapped exEnv exFOpts wCfg "2.0" rfl rfl rfl rfl (sd := none) (o := wObj) (o2 := wObj)
      (hl := hl) (null := Cr.rs "-999.25") (hdr := wHdr) (body := wBody)
      (by decide) rfl (by decide) hprep h4 (by decide) (by decide) wFileConf wCycleConf wWritten (by decide) 'A' (Cr.rs "SCII") rfl
      (by decide) rfl (by decide +kernel) wSpelt eHn (by decide +kernel) exReadOK
      (by rw [wRows_eq]; exact wStrtod) (by rw [wRows_eq]; exact wNoClash) (by rw [wRows_eq]; exact wIndexFree)
      (by unfold Hc.CaseStable; decide +kernel) (by unfold Hc.CaseStable; decide +kernel) (by decide) ?_ ?_ (fun _ => none)
  · intro th hth
    have hth' : readObjLines Cr.rOpts ((hl.1 ++ wHdr :: wBody).map (· ++ Tf.nl)) = .ok th := hth
    rw [hth'] at key
    show LinkOK exPy th
    apply linkOKB_sound
    cases hf : readObjFullLines exEnv exFOpts ((hl.1 ++ wHdr :: wBody).map (· ++ Tf.nl)) with
    | error e => rw [hf] at key; cases key
    | ok o2r =>
      rw [hf] at key
      simp only [Option.some.injEq, Bool.and_eq_true, decide_eq_true_eq] at key
      exact key.1
  · intro o2r hf
    rw [hf] at key
    cases hth : readObjLines Cr.rOpts ((hl.1 ++ wHdr :: wBody).map (· ++ Tf.nl)) with
    | error e => rw [hth] at key; cases key
    | ok th =>
      rw [hth] at key
      simp only [Option.some.injEq, Bool.and_eq_true, decide_eq_true_eq] at key
      rw [key.2]
      exact ⟨hd, ⟨Cr.rs "M", 0, 1, 2, wUnits⟩, by decide⟩

end Lasio.Ro

#print axioms Lasio.Ro.C11_cycle_end_to_end_wrapped_partial
#print axioms Lasio.Ro.C11_cycle_text_fixed_point_wrapped
#print axioms Lasio.Ro.C11_cycle_text_iterate_wrapped
#print axioms Lasio.Ro.C11_wrapped_example
#print axioms Lasio.Ro.C11_wrapped_iterate_example
#print axioms Lasio.Ro.C11_wrapped_width_zero
#print axioms Lasio.Ro.C11_wrapped_narrow_example
#print axioms Lasio.Ro.C11_wrapped_needs_wrap_yes
#print axioms Lasio.Ro.wFileConf
#print axioms Lasio.Ro.wWritten
#print axioms Lasio.Ro.wKeyFull
