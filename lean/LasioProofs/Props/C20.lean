import LasioModel.Generated
import LasioProofs.Lemmas.ResourceSound
/-
C20 — every file lasio opens is closed again, whatever fails and wherever.
`Generated.readProg / writeProg / toCsvProg` are produced from /repo's CURRENT source by harness/translate.py on every
run; the obligations below are therefore re-checked against what the code says now.
-/
namespace Lasio

/-- all behaviours of a generated program (any fault schedule, any loop counts) end with nothing held, nothing leaked -/
def ProgLeakFree (p : Option Stmt) : Prop :=
  ∃ q, p = some q ∧ ∀ fuel σ, (exec fuel q σ St.init).2.1.held = [] ∧ (exec fuel q σ St.init).2.1.leaked = false

theorem progLeakFree_of_check (p : Option Stmt) (h : (p.map leakFree) = some true) : ProgLeakFree p := by
  cases p with
  | none => simp at h
  | some q =>
    simp at h
    exact ⟨q, rfl, fun fuel σ => leakFree_sound q h fuel σ⟩

/-- soundness of the "no foreign close" analysis: on every behaviour no variable that holds no handle opened by the
program (i.e. a caller-supplied object) is ever closed -/
theorem noForeignClose_sound (p : Stmt) (h : noForeignClose p = true) (fuel : Nat) (σ : List Bool) :
    (exec fuel p σ St.init).2.1.foreign = false := by
  unfold noForeignClose at h
  cases ho : outs p St.init with
  | none => simp [ho] at h
  | some L =>
    simp only [ho] at h
    have hm := sound p fuel σ St.init L ho
    have := (List.all_eq_true.mp h) _ hm
    simpa [resOf] using this

/-- read(): the handle opened for a path (through open_file / open_with_codecs / adhoc_test_encoding) is closed on
every path, including every raise point -/
theorem C20_read : ProgLeakFree Generated.readProg :=
  progLeakFree_of_check _ (by decide +kernel)

/-- write(path): closed on every path -/
theorem C20_write : ProgLeakFree Generated.writeProg :=
  progLeakFree_of_check _ (by decide +kernel)

/-- to_csv(path): closed on every path -/
theorem C20_to_csv : ProgLeakFree Generated.toCsvProg :=
  progLeakFree_of_check _ (by decide +kernel)

/-- write()/to_csv() never close an object they did not open themselves (a file object supplied by the caller is left open) -/
theorem C20_caller_left_open :
    (∃ q, Generated.writeProg = some q ∧ ∀ fuel σ, (exec fuel q σ St.init).2.1.foreign = false) ∧
    (∃ q, Generated.toCsvProg = some q ∧ ∀ fuel σ, (exec fuel q σ St.init).2.1.foreign = false) := by
  have hw : (Generated.writeProg.map noForeignClose) = some true := by decide +kernel
  have hc : (Generated.toCsvProg.map noForeignClose) = some true := by decide +kernel
  constructor
  · cases h : Generated.writeProg with
    | none => simp [h] at hw
    | some q => simp [h] at hw; exact ⟨q, rfl, fun fuel σ => noForeignClose_sound q hw fuel σ⟩
  · cases h : Generated.toCsvProg with
    | none => simp [h] at hc
    | some q => simp [h] at hc; exact ⟨q, rfl, fun fuel σ => noForeignClose_sound q hc fuel σ⟩

/-- the statement is not vacuous: a program shaped like the unrepaired write() (open; body may raise; close, no
finally) is rejected by the analysis and has a concrete leaking schedule -/
theorem C20_unrepaired_write_leaks :
    leakFree writeProg = false ∧ ∃ fuel σ, (exec fuel writeProg σ St.init).2.1.held ≠ [] :=
  ⟨writeProg_rejected, writeProg_leaks⟩

end Lasio
