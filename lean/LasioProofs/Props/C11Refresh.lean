import LasioProofs.Lemmas.CycleRefresh
import LasioProofs.Props.C01FileDlm
import LasioProofs.Props.C11Data
/-
C11 — the refresh of STRT / STOP / STEP and of the units INSIDE the composed load/save cycle.

`Wo.writeObj cfg sd o` = `setWrap`, `resolveVersion`, `prepare sd o` (= `refreshDecision`, `updateStartStopStep` when decided,
`updateUnits`), header lines of `toWLas o2`, `afterHeader`, data lines.  C11File / C01FileDlm speak about `headerLines` of the
object AFTER `prepare`, C11Data about the data lines.  Here: what `prepare` does to the object `o1` that `read()` builds from
lasio's own output — `o1.indexInitial = o1.index` (the index as read), a STOP item whose value is the NUMBER read from the header.

  `C11_refresh_decision`   for such an object the refresh decision is `index[-1] != STOP.value` (Python's cross-type `!=`)
  `C11_refresh_stable`     … so NO refresh iff `last == stop` as binary64 (a STOP that stayed a `str` always refreshes)
  `C11_refresh_same_float` `last` = the re-read of the last index token, `stop` = the re-read of the STOP text (both through the float
                           table `ft` and `val`, as `Cd.reTok` in column 0): when `float()` returns the same float text for the two
                           tokens (hypothesis on exactly these two tokens) and it is not NaN, no refresh is decided
  `C11_refresh_prec5`      the case the first write produces: it refreshed (STOP text = `'%.5f' % index[-1]`) and the index column is
                           printed with precision 5 — the two tokens are the SAME string, nothing is asked of `float()`
  `C11_prepare_noop`       no refresh + units aligned (what `C16_units` says of every written object): `prepare sd o1 = .ok o1`
  `C11_cycle_fixed_point`  the composed cycle: `las` is the header object some cycle wrote (after `prepare`), `o1` a typed object whose
                           header is the re-read of it (`toWLas o1 = Cy.lasOfRead rv o (firstRead … las)`), no refresh, units aligned.
                           Then `writeObj` on `o1` writes `headerLines (toWLas o1)` ++ the data lines of `o1.data`, reading that header
                           gives the sections and ALL steering values of the first re-read, and in memory every numeric ~Well value
                           (STRT / STOP / STEP included), the data and `index_initial` are untouched
  `C11_cycle_data`         … and the data tokens are those of the previous output (`C11_data_tokens_fixed`)
What changes ONCE: a write that refreshes stores `'%.5f'` STRINGS; their re-read is a number, printed by `str()` in the next write
(`1.00000` -> `1.0`: `C11_refresh_respelt`, numerically equal — the hypothesis `SpeltConf` of the header fixed point fails for that one
step), and an index printed with fewer decimals than it holds makes the NEXT write refresh (`C11_refresh_counterexample_lossy_index`, the
known finding `sss-shift-after-lossy-index-format`: STRT 0.5 -> 0, STOP 1.5 -> 2, STEP 0.5 -> 1 under `%.0f`), after which the decision
is "no refresh" again (`C11_refresh_stable` applies to every cycle: cycle k+1 refreshes iff the float of the STOP text written by cycle k
differs from the float of the last index token written by cycle k).
NOT proved: the typed link itself — that `read()` builds `PVal.num x text` with `x` = the binary64 of the float text and `text` =
`str(x)` — is a hypothesis (`hW`, and `last` / `stop` given as `Cd.reTok`), as are `float()` / `str()`; the general statement "after one
refreshing cycle over an index printed with N < 5 decimals the third output equals the second" needs `'%.5f' % float(tok)` to denote the
decimal of `tok`, a magnitude assumption on `float()` that is not made here (it is shown on the concrete data).
-/
namespace Lasio.Cr
open Lasio Lasio.Wo

/-! ## when the second cycle refreshes -/

/-- **The decision.**  `o1` as `read()` builds it: `index_initial` is the index, no NaN in it.  The refresh is decided iff
`index_initial[-1] != STOP.value`. -/
theorem C11_refresh_decision (o1 : WObj) (idx : List F64) (hii : o1.indexInitial = some idx) (hidx : o1.index = some idx)
    (hnan : ∀ x ∈ idx, x.isNaN = false) (last : F64) (hl : idx.getLast? = some last) (stop : OItem)
    (hs : lookup o1.wellTr sSTOP o1.well = some stop) :
    refreshDecision o1 = .ok (pyNe last stop.value) :=
  refreshDecision_reread o1 idx hii hidx hnan last hl stop hs

/-- **No refresh iff the last index sample `==` the STOP value** (a number, as `num()` makes it); a STOP value that is a `str` (not
a numeric literal) or `None` always refreshes. -/
theorem C11_refresh_stable (o1 : WObj) (idx : List F64) (hii : o1.indexInitial = some idx) (hidx : o1.index = some idx)
    (hnan : ∀ x ∈ idx, x.isNaN = false) (last : F64) (hl : idx.getLast? = some last) (stop : OItem)
    (hs : lookup o1.wellTr sSTOP o1.well = some stop) :
    (∀ x t, stop.value = .num x t → (refreshDecision o1 = .ok false ↔ feq last x = true)) ∧
    ((∀ x t, stop.value ≠ .num x t) → refreshDecision o1 = .ok true) := by
  rw [refreshDecision_reread o1 idx hii hidx hnan last hl stop hs]
  constructor
  · intro x t hv
    rw [hv]
    cases h : feq last x <;> simp [pyNe, h]
  · intro hne
    cases hv : stop.value with
    | num x t => exact absurd hv (hne x t)
    | str s => rfl
    | none => rfl

/-- **Same float, no refresh.**  `last` is the re-read of the last index token `lastTok`, the STOP value the re-read of the STOP text
`stopText` (`float()` through `ft`, then the binary64 the float text denotes: `Cd.reTok` in column 0, where nothing is NULL-ed).  If
`float()` gives the same float text for the two tokens — in particular when they denote the same decimal — and it is not NaN, the second
cycle decides NO refresh. -/
theorem C11_refresh_same_float (ft : Dt.FloatTable) (val : Str → Option F64) (nv : Str) (lastTok stopText : Str)
    (o1 : WObj) (idx : List F64) (hii : o1.indexInitial = some idx) (hidx : o1.index = some idx)
    (hnan : ∀ x ∈ idx, x.isNaN = false) (hl : idx.getLast? = some (Cd.reTok ft val nv 0 lastTok)) (stop : OItem)
    (hs : lookup o1.wellTr sSTOP o1.well = some stop) (t : Str)
    (hv : stop.value = .num (Cd.reTok ft val nv 0 stopText) t)
    (hsame : Dt.toFloat ft stopText = Dt.toFloat ft lastTok) :
    refreshDecision o1 = .ok false := by
  have he : Cd.reTok ft val nv 0 stopText = Cd.reTok ft val nv 0 lastTok := by
    unfold Cd.reTok Cd.readTxt
    rw [hsame]
  have hn : (Cd.reTok ft val nv 0 lastTok).isNaN = false :=
    hnan _ (List.mem_of_getLast? hl)
  refine ((C11_refresh_stable o1 idx hii hidx hnan _ hl stop hs).1 _ t hv).mpr ?_
  rw [he]
  exact feq_self _ hn

/-- **After a refreshing write over an index printed with `%.5f`** (the default): the STOP text is `'%.5f' % x` and the last index token
is `'%.5f' % x` for the same in-memory sample `x` — one and the same string — so the next cycle decides NO refresh. -/
theorem C11_refresh_prec5 (ft : Dt.FloatTable) (val : Str → Option F64) (null nv : Str) (c : Dw.RowCfg) (x : F64)
    (hx : x.isNaN = false) (hp : (c.colFmt 0).prec = 5)
    (o1 : WObj) (idx : List F64) (hii : o1.indexInitial = some idx) (hidx : o1.index = some idx)
    (hnan : ∀ y ∈ idx, y.isNaN = false)
    (hl : idx.getLast? = some (Cd.reTok ft val nv 0 (Dw.cellToken null (c.colFmt 0) x))) (stop : OItem)
    (hs : lookup o1.wellTr sSTOP o1.well = some stop) (t : Str)
    (hv : stop.value = .num (Cd.reTok ft val nv 0 (fmt5 x)) t) :
    refreshDecision o1 = .ok false := by
  have htok : Dw.cellToken null (c.colFmt 0) x = fmt5 x := by
    rw [Cd.cellToken_num null _ x hx, hp]; rfl
  rw [htok] at hl
  exact C11_refresh_same_float ft val nv (fmt5 x) (fmt5 x) o1 idx hii hidx hnan hl stop hs t hv rfl

/-- **`prepare` is the identity** on an object for which no refresh is decided and whose STRT / STOP / STEP / first-curve units are
aligned (`C16_units`: every written object has them aligned, and the reader keeps unit texts) -/
theorem C11_prepare_noop (sd : Option F64) (o1 : WObj) (u : Str) (a b c : Nat)
    (hd : refreshDecision o1 = .ok false) (hu : UnitsAligned o1 u a b c) : prepare sd o1 = .ok o1 :=
  prepare_noop sd o1 u a b c hd hu

/-! ## the composed cycle -/

/-- **The composed cycle is a fixed point.**  `las` is the header object a cycle wrote (`lines1` its header lines); `o1` is a typed
object whose header is the re-read of `lines1`; no refresh is decided for `o1` and its units are aligned; `setWrap`, `nullText` and
`dataLines` succeed.  Then `write` on `o1` succeeds, its text is `headerLines (toWLas o1)` followed by the data lines of `o1.data`,
the header lines read back to the sections AND steering values that `lines1` read back to, and in memory every ~Well value is only
standardised (numbers — STRT / STOP / STEP as read — are untouched), data and `index_initial` are untouched. -/
theorem C11_cycle_fixed_point (o : Rd.ReadOpts) (rv : Str → Wr.WVal) (hrv : Cy.Retype rv) (v : String) (wcfg : WriteCfg)
    (hv : wcfg.version = some v) (w1 : Nat) (las las' : Wr.WLas) (lines1 : List Str)
    (hH : Wr.headerLines v wcfg.wrap w1 las = .ok (lines1, las'))
    (hc : Fd.FileConfD o v wcfg.wrap las) (hx : Cy.CycleConf o v wcfg.wrap las) (hsp : Cy.SpeltConf rv v wcfg.wrap las)
    (o1 : WObj) (hW : toWLas o1 = Cy.lasOfRead rv o (Cy.firstRead o v wcfg.wrap las))
    (sd : Option F64) (u : Str) (a b c : Nat) (hd : refreshDecision o1 = .ok false) (hu : UnitsAligned o1 u a b c)
    (hs : (o1.data.length != o1.curves.length || !sameLengths o1.data) = false)
    (vsec : List OItem) (h1 : setWrap wcfg o1 = .ok vsec)
    (null2 hdr2 : Str) (body2 : List Str) (h5 : nullText (afterHeader wcfg o1) = .ok null2)
    (h6 : Dw.dataLines (dataCfg wcfg) null2 ((afterHeader wcfg o1).curves.map (·.session))
      (rowsOf (afterHeader wcfg o1).data) = some (hdr2 :: body2)) :
    ∃ lines2 las2', Wr.headerLines v wcfg.wrap wcfg.headerWidth (toWLas o1) = .ok (lines2, las2') ∧
      writeObj wcfg sd o1 = .ok (lines2 ++ hdr2 :: body2, afterHeader wcfg o1) ∧
      Rd.readLines o lines1 = .ok ⟨Cy.firstRead o v wcfg.wrap las, Fd.fileSteerD o v wcfg.wrap las, []⟩ ∧
      Rd.readLines o lines2 = .ok ⟨Cy.firstRead o v wcfg.wrap las, Fd.fileSteerD o v wcfg.wrap las, []⟩ ∧
      (∀ (j : Nat) (x : OItem), o1.well[j]? = some x → ∃ y : OItem, (afterHeader wcfg o1).well[j]? = some y ∧
        y.value = stdP x.value x.unit ∧
        y.unit = x.unit ∧ ∀ f t, x.value = .num f t → y.value = x.value) ∧
      (afterHeader wcfg o1).data = o1.data ∧ (afterHeader wcfg o1).indexInitial = o1.indexInitial := by
  have hver := Cy.headerLines_version v wcfg.wrap w1 las las' lines1 hH
  obtain ⟨hc1, _, _, hfix, htot⟩ := Fd.cycle_core_dlm o hrv v wcfg.wrap las hver hc hx hsp
  obtain ⟨lines2, las2', h4⟩ := htot wcfg.headerWidth
  have hr2 := Fd.readLines_header_dlm o v wcfg.wrap wcfg.headerWidth _ las2' lines2 h4 hc1
  rw [hfix, Fd.fileSteerD_of_firstRead o v wcfg.wrap _ las hfix] at hr2
  rw [← hW] at h4
  refine ⟨lines2, las2', h4, ?_, Fd.readLines_header_dlm o v wcfg.wrap w1 las las' lines1 hH hc, hr2,
    fun j x hx => afterHeader_well wcfg o1 j x hx, rfl, rfl⟩
  exact writeObj_of_steps (hl := (lines2, las2')) hs h1 (resolveVersion_given wcfg o1.versionTr vsec v hv hver)
    (prepare_noop sd o1 u a b c hd hu) h4 h5 h6

/-- **… and the data tokens are those of the previous output**: `o1.data` holds the re-read matrix of `rows`, the NULL text is the
same: the token matrix `write` prints for `o1` is the token matrix it printed for `rows` (`C11_data_tokens_fixed`) -/
theorem C11_cycle_data (wcfg : WriteCfg) (o1 : WObj) {ft : Dt.FloatTable} {val : Str → Option F64} {null nv : Str}
    {c : Dw.RowCfg} {rows : List (List F64)}
    (hD : rowsOf o1.data = Cd.reRows ft val null nv c rows)
    (hr : Cd.ReadOK ft val null nv) (hst : Cd.StrtodClose ft val c rows) (hcl : Rt.NoNullClash ft nv c rows)
    (hi : Cd.IndexOK val nv null c rows) :
    Rt.tokenRows c null (rowsOf (afterHeader wcfg o1).data) = Rt.tokenRows c null rows := by
  show Rt.tokenRows c null (rowsOf o1.data) = _
  rw [hD]
  exact C11.C11_data_tokens_fixed hr hst hcl hi

/-! ## concrete objects: a LASFile built from scratch (default ~Version section), and the objects `read()` builds from its outputs -/

def rs (s : String) : Str := s.toList
def rf (n : Bool) (m : Nat) (e : Int) : F64 := .finite n m e
def rCfg (fmt : String) : WriteCfg :=
  ⟨some "2.0", some false, 20, rs fmt, [], none, [' '], [' '], 80, rs "~ASCII", false⟩
def rVersion : List OItem :=
  [mkOItem sVERS [] (.num (rf false 2 0) (rs "2.0")) (rs "CWLS log ASCII Standard -VERSION 2.0"),
   mkOItem sWRAP [] (.str (rs "NO")) (rs "One line per depth step"),
   mkOItem (rs "DLM") [] (.str (rs "SPACE")) (rs "Column Data Section Delimiter")]
def rNull : OItem := mkOItem sNULL [] (.num (rf true 3997 (-2)) (rs "-999.25")) (rs "null")
def rCurves : List OItem := [mkOItem (rs "DEPT") (rs "M") (.str []) (rs "depth"), mkOItem (rs "GR") (rs "API") (.str []) (rs "gamma")]
def rWell (a b c : PVal) : List OItem :=
  [mkOItem sSTRT (rs "M") a (rs "start"), mkOItem sSTOP (rs "M") b (rs "stop"), mkOItem sSTEP (rs "M") c (rs "step"), rNull]
def rNaN : PVal := .num .nan (rs "nan")
/-- `str()` of the float `m · 2^e`, as `read()` stores a header number -/
def rNum (m : Nat) (e : Int) (t : String) : PVal := .num (rf false m e) (rs t)

/-! ### the known finding: an index printed with fewer decimals than it holds -/

/-- built from scratch: index 0.5, 1.0, 1.5 -/
def rFreshL : WObj :=
  ⟨rVersion, false, rWell rNaN rNaN rNaN, false, rCurves, [], [],
   [[rf false 1 (-1), rf false 1 0, rf false 3 (-1)], [rf false 1 0, rf false 2 0, rf false 3 0]], none⟩
/-- what `read()` builds from its `%.0f` output: index 0, 1, 2 (`'%.0f' % 0.5 = "0"`, `'%.0f' % 1.5 = "2"`), STOP the number 1.5 -/
def rReadL1 : WObj :=
  ⟨rVersion, true, rWell (rNum 1 (-1) "0.5") (rNum 3 (-1) "1.5") (rNum 1 (-1) "0.5"), true, rCurves, [], [],
   [[rf false 0 0, rf false 1 0, rf false 2 0], [rf false 1 0, rf false 2 0, rf false 3 0]],
   some [rf false 0 0, rf false 1 0, rf false 2 0]⟩
/-- … and from the output of the second write: STRT 0.0, STOP 2.0, STEP 1.0 -/
def rReadL2 : WObj := { rReadL1 with well := rWell (rNum 0 0 "0.0") (rNum 2 0 "2.0") (rNum 1 0 "1.0") }

def wellLines (t : List Str) : List Str := (t.drop 5).take 3

/-- **COUNTER-EXAMPLE (`sss-shift-after-lossy-index-format`)**: fmt `%.0f`.  Cycle 1 (refresh, the object was not read from a file) writes
STRT 0.50000, STOP 1.50000, STEP 0.50000 over the index tokens 0, 1, 2.  The re-read object has `index[-1] = 2.0 != 1.5 = STOP`:
cycle 2 REFRESHES and writes 0.00000, 2.00000, 1.00000.  For the object re-read from that, `2.0 == 2.0`: cycle 3 does not refresh, prints
the numbers with `str()` (0.0, 2.0, 1.0), and cycle 4 writes the text of cycle 3. -/
theorem C11_refresh_counterexample_lossy_index :
    ((writeObj (rCfg "%.0f") (some (rf false 1 (-1))) rFreshL).toOption.map fun r => wellLines r.1) =
      some [rs "STRT.M 0.50000 : start", rs "STOP.M 1.50000 : stop", rs "STEP.M 0.50000 : step"] ∧
    refreshDecision rReadL1 = .ok true ∧
    ((writeObj (rCfg "%.0f") (some (rf false 1 0)) rReadL1).toOption.map fun r => wellLines r.1) =
      some [rs "STRT.M 0.00000 : start", rs "STOP.M 2.00000 : stop", rs "STEP.M 1.00000 : step"] ∧
    refreshDecision rReadL2 = .ok false ∧
    ((writeObj (rCfg "%.0f") (some (rf false 1 0)) rReadL2).toOption.map fun r => wellLines r.1) =
      some [rs "STRT.M    0.0 : start", rs "STOP.M    2.0 : stop", rs "STEP.M    1.0 : step"] ∧
    ((writeObj (rCfg "%.0f") (some (rf false 1 0)) rReadL2).toOption.map fun r => r.2.well) = some rReadL2.well ∧
    ((writeObj (rCfg "%.0f") (some (rf false 1 0)) rReadL1).toOption.map fun r => (r.1.drop 15)) =
      ((writeObj (rCfg "%.0f") (some (rf false 1 (-1))) rFreshL).toOption.map fun r => (r.1.drop 15)) := by
  decide

/-! ### non-vacuity: the default format `%.5f`, a 3-row index -/

/-- built from scratch: index 1, 2, 3; GR 0.123456, NaN, 0.5 -/
def rFresh : WObj :=
  ⟨rVersion, false, rWell rNaN rNaN rNaN, false, rCurves, [], [],
   [[rf false 1 0, rf false 2 0, rf false 3 0], [rf false 8895942329546431 (-56), .nan, rf false 1 (-1)]], none⟩
/-- what `read()` builds from its `%.5f` output (`mnemonic_case="upper"`): the numbers 1.0, 3.0, 1.0; GR 0.12346 (binary64), NaN, 0.5 -/
def rRead : WObj :=
  ⟨rVersion, true, rWell (rNum 1 0 "1.0") (rNum 3 0 "3.0") (rNum 1 0 "1.0"), true, rCurves, [], [],
   [[rf false 1 0, rf false 2 0, rf false 3 0], [rf false 8896230559922583 (-56), .nan, rf false 1 (-1)]],
   some [rf false 1 0, rf false 2 0, rf false 3 0]⟩

/-- **the one-time respelling**: the refreshing first write stores and prints `'%.5f'` strings (`1.00000`), the next write prints the numbers
that were read with `str()` (`1.0`) — equal numbers, different text; the data lines are the same; a further write of the (same) re-read object
gives the same text and leaves the ~Well values as they are -/
theorem C11_refresh_respelt :
    ((writeObj (rCfg "%.5f") (some (rf false 1 0)) rFresh).toOption.map fun r => wellLines r.1) =
      some [rs "STRT.M 1.00000 : start", rs "STOP.M 3.00000 : stop", rs "STEP.M 1.00000 : step"] ∧
    refreshDecision rRead = .ok false ∧
    ((writeObj (rCfg "%.5f") none rRead).toOption.map fun r => wellLines r.1) =
      some [rs "STRT.M    1.0 : start", rs "STOP.M    3.0 : stop", rs "STEP.M    1.0 : step"] ∧
    ((writeObj (rCfg "%.5f") none rRead).toOption.map fun r => r.1.drop 15) =
      some [rs "    1.00000    0.12346", rs "    2.00000    -999.25", rs "    3.00000    0.50000"] ∧
    ((writeObj (rCfg "%.5f") (some (rf false 1 0)) rFresh).toOption.map fun r => r.1.drop 15) =
      some [rs "    1.00000    0.12346", rs "    2.00000    -999.25", rs "    3.00000    0.50000"] ∧
    ((writeObj (rCfg "%.5f") none rRead).toOption.map fun r => (r.2.well, r.2.data, r.2.indexInitial)) =
      some (rRead.well, rRead.data, rRead.indexInitial) := by
  decide

/-- `num()` for the header values of the example: the numeric literals become numbers that print as they are spelt -/
def rvEx (t : Str) : Wr.WVal :=
  if t = rs "2.0" ∨ t = rs "1.0" ∨ t = rs "3.0" ∨ t = rs "-999.25" then Wr.WVal.num t false else Wr.WVal.str t

theorem rvEx_retype : Cy.Retype rvEx where
  notNone := fun t => by unfold rvEx; split <;> rfl
  falsy := fun t h _ => by
    unfold rvEx at h
    split at h
    · cases h
    · simpa [Wr.WVal.str] using h

def rOpts : Rd.ReadOpts := ⟨false, .upper⟩
def rLas : Wr.WLas := toWLas rRead

theorem rConf (kind : SecName) (it : Wr.WItem) (h : it ∈ rLas.version ++ rLas.well ++ rLas.curves) : Wr.TextConf kind it := by
  have : ∀ it ∈ rLas.version ++ rLas.well ++ rLas.curves,
      it.orig ≠ [] ∧ strip it.orig = it.orig ∧ (∀ c ∈ it.orig, c ≠ '.' ∧ c ≠ ':') ∧ (∀ c ∈ it.unit, isPySpace c = false) ∧
      ¬ hasDotDot it.unit ∧ (it.unit = [] ∨ ¬ allDigits it.unit) ∧ Wr.isBracketed it.unit = false ∧
      it.unit.head? ≠ some '.' ∧ it.unit.getLast? ≠ some '.' ∧ strip it.value.text = it.value.text ∧
      (∀ c ∈ it.value.text, c ≠ ':') ∧ ¬ hasDotDot it.value.text ∧ strip it.descr = it.descr ∧ (∀ c ∈ it.descr, c ≠ ':') := by
    decide
  obtain ⟨h1, h2, h3, h4, h5, h6, h7, h8, h9, h10, h11, h12, h13, h14⟩ := this it h
  exact ⟨h1, h2, h3, h4, h5, h6, h7, h8, h9, h10, h11, fun _ => h12, h13, h14⟩

theorem rFileConf : Fd.FileConfD rOpts "2.0" (some false) rLas := by
  obtain ⟨hcv, hmv⟩ := Wr.C03_versionCopy_conf "2.0" (some false) rLas
    (fun it hit => rConf _ it (by simp [hit])) (by decide)
  refine ⟨hcv, ?_, ?_, ?_, hmv, by decide, by decide, by decide, ?_,
    (show ∀ l ∈ Wr.splitlines rLas.other, (strip l).head? ≠ some '~' by decide +kernel), ?_⟩
  · intro it hit
    have : Wr.standardizeItems rLas.well = rLas.well := by decide
    rw [this] at hit
    exact rConf _ it (by simp [hit])
  · intro it hit
    exact rConf _ it (by simp [hit])
  · intro it hit
    have : Wr.standardizeItems rLas.params = [] := by decide
    rw [this] at hit
    cases hit
  · exact ⟨(mkOItem sVERS [] (.num (rf false 2 0) (rs "2.0")) (rs "CWLS log ASCII Standard -VERSION 2.0")).toW,
      by decide +kernel, by decide⟩
  · apply Fd.dlmOK_of_single
    intro x hx
    have : (RH.versionCopy "2.0" (some false) rLas).filter (Cy.inGroup rOpts "DLM".toList) =
        [(mkOItem (rs "DLM") [] (.str (rs "SPACE")) (rs "Column Data Section Delimiter")).toW] := by decide +kernel
    rw [this] at hx
    cases hx
    rfl

theorem rCycleConf : Cy.CycleConf rOpts "2.0" (some false) rLas :=
  ⟨⟨Wr.wrapItem false, by decide +kernel⟩, by decide, by decide, by decide⟩

theorem rSpelt : Cy.SpeltConf rvEx "2.0" (some false) rLas := by
  intro it _
  unfold Cy.Spelt rvEx
  split <;> rfl

theorem rUnits : UnitsAligned rRead (rs "M") 0 1 2 :=
  ⟨by decide, by decide, by decide,
   fun x hx => by cases hx; rfl, fun x hx => by cases hx; rfl, fun x hx => by cases hx; rfl, fun c0 hc => by cases hc; rfl⟩

/-- **the composed cycle on the example, by the theorems**: `rRead` is what `read()` builds from the output written for `rRead` itself
(`hW`), no refresh is decided (`C11_refresh_stable`: 3.0 == 3.0), the units are aligned: `write` gives `headerLines (toWLas rRead)` followed by
the three data lines, and that header reads back to the same sections and steering values as the previous one -/
example (lines1 : List Str) (las' : Wr.WLas) (hH : Wr.headerLines "2.0" (some false) 60 rLas = .ok (lines1, las')) :
    ∃ lines2 las2', Wr.headerLines "2.0" (some false) 20 (toWLas rRead) = .ok (lines2, las2') ∧
      writeObj (rCfg "%.5f") none rRead = .ok
        (lines2 ++ rs "~ASCII -------------" ::
          [rs "    1.00000    0.12346", rs "    2.00000    -999.25", rs "    3.00000    0.50000"], afterHeader (rCfg "%.5f") rRead) ∧
      Rd.readLines rOpts lines1 = .ok ⟨Cy.firstRead rOpts "2.0" (some false) rLas, Fd.fileSteerD rOpts "2.0" (some false) rLas, []⟩ ∧
      Rd.readLines rOpts lines2 = .ok ⟨Cy.firstRead rOpts "2.0" (some false) rLas, Fd.fileSteerD rOpts "2.0" (some false) rLas, []⟩ ∧
      Fd.fileSteerD rOpts "2.0" (some false) rLas = ⟨some (rs "2.0"), some (rs "NO"), some (rs "-999.25"), some (rs "SPACE")⟩ ∧
      Cy.secItems Rd.kWell (Cy.firstRead rOpts "2.0" (some false) rLas) =
        [⟨rs "STRT", rs "M", rs "1.0", rs "start"⟩, ⟨rs "STOP", rs "M", rs "3.0", rs "stop"⟩,
         ⟨rs "STEP", rs "M", rs "1.0", rs "step"⟩, ⟨rs "NULL", [], rs "-999.25", rs "null"⟩] := by
  have hd : refreshDecision rRead = .ok false :=
    ((C11_refresh_stable rRead _ rfl rfl (by decide) (rf false 3 0) rfl
      (mkOItem sSTOP (rs "M") (rNum 3 0 "3.0") (rs "stop")) (by decide)).1 (rf false 3 0) (rs "3.0") rfl).mpr
      (by decide)
  obtain ⟨lines2, las2', h4, hw, r1, r2, _⟩ := C11_cycle_fixed_point rOpts rvEx rvEx_retype "2.0" (rCfg "%.5f") rfl 60 rLas las'
    lines1 hH rFileConf rCycleConf rSpelt rRead (by decide +kernel) none (rs "M") 0 1 2 hd rUnits (by decide) _ rfl
    (rs "-999.25") (rs "~ASCII -------------")
    [rs "    1.00000    0.12346", rs "    2.00000    -999.25", rs "    3.00000    0.50000"] (by decide) (by decide)
  exact ⟨lines2, las2', h4, hw, r1, r2, by decide +kernel, by decide +kernel⟩

/-- `C11_refresh_prec5` on the example: last index token and STOP text are both `3.00000` -/
example : refreshDecision rRead = .ok false :=
  C11_refresh_prec5 [(rs "3.00000", rs "0x1.8000000000000p+1")]
    (fun s => if s = rs "0x1.8000000000000p+1" then some (rf false 3 0) else none) (rs "-999.25") (rs "-0x1.f3a0000000000p+9")
    ⟨⟨none, 5⟩, [], 10, [' '], [' ']⟩ (rf false 3 0) rfl rfl rRead _ rfl rfl (by decide) (by decide)
    (mkOItem sSTOP (rs "M") (rNum 3 0 "3.0") (rs "stop")) (by decide) (rs "3.0") (by decide)

end Lasio.Cr

#print axioms Lasio.Cr.C11_refresh_decision
#print axioms Lasio.Cr.C11_refresh_stable
#print axioms Lasio.Cr.C11_refresh_same_float
#print axioms Lasio.Cr.C11_refresh_prec5
#print axioms Lasio.Cr.C11_prepare_noop
#print axioms Lasio.Cr.C11_cycle_fixed_point
#print axioms Lasio.Cr.C11_cycle_data
#print axioms Lasio.Cr.C11_refresh_counterexample_lossy_index
#print axioms Lasio.Cr.C11_refresh_respelt
#print axioms Lasio.Cr.rFileConf
