import LasioProofs.Lemmas.CycleDataLemmas
/-
C11 (data section) — the data section `write` emits is a fixed point of  read -> write -> read:
"no accumulating precision loss … the same curve data as the first re-read".

Set-up (`Lemmas/CycleDataLemmas.lean`, namespace `Lasio.Cd`).  `rows : List (List Dw.F64)` is the matrix of binary64 samples,
`c : Dw.RowCfg` the row configuration (a `%.Nf` format per column), `null` the NULL text `write` prints for NaN.
  cycle 1   `T1 = Rt.tokenRows c null rows`, the matrix of written tokens.  The reader turns a token into a canonical float text
            through the float table `ft` (Python's `float()`), and replaces a float `==` the header NULL `nv` by NaN outside
            column 0 (strict NULL policy): `Cd.readTxt`.  `val : Str → Option Dw.F64` is "the binary64 a canonical float text
            denotes"; `rows1 = Cd.reRows ft val null nv c rows` is the matrix read back (`C11_data_reread_is_read` ties it to
            `Dt.applyNull` of `Dt.matrixColumns`, what the engines of `Dt.readData` return for the written text by C01/C06).
  cycle 2   `T2 = Rt.tokenRows c null rows1`; `rows2 = Cd.reRows … rows1`.

Hypotheses.
  `hr : Cd.ReadOK ft val null nv`     the NULL text converts to `nv`, `nv == nv`, the text `nan` denotes NaN
  `hs : Cd.StrtodClose ft val c rows` the strtod assumption of C01, on the cells of the matrix: the token of every sample `x` that
        is not NaN converts, and the binary64 its float text denotes is `Cd.Near` `x`: `x` itself, or a finite value of the same
        sign STRICTLY within half a unit of the last printed digit of the printed decimal (`C01_fmt_stable`); ±inf ↦ ±inf.
        (Correctly rounded `strtod` returns the binary64 nearest to the decimal, `x` lies within half a unit of it by
        `C01_value`: so the result is `x` or strictly closer than `x`.)
  `hc : Rt.NoNullClash ft nv c rows`  no sample outside column 0 that is not NaN prints to a token whose float is `==` NULL
  `hi : Cd.IndexOK val nv null c rows` no NaN in the index column, or the index format prints the number NULL as the NULL text

Theorems.
  `C11_data_cell`            one sample, no index hypothesis: outside the index column, and in the index column when the sample is
                             not NaN, the sample read back prints to the SAME TOKEN (finite: `C01_fmt_stable`; NaN: NULL text ->
                             NULL-ed -> NaN -> NULL text)
  `C11_data_index_nan`       a NaN of the index column is written as the NULL text, read back as the NUMBER NULL and re-printed
                             with the index format: the same token exactly when that format prints NULL exactly
  `C11_data_tokens_fixed`    T2 = T1
  `C11_data_text_fixed`      with no NaN in the index column: `dataLines` on `rows1` = `dataLines` on `rows`, the same TEXT
                             (header line, every body line, wrapped or not)
  `C11_data_reread_fixed`    rows2 = rows1 — WITHOUT `NoNullClash` (a clashing sample is NaN from the first re-read on)
  `C11_data_read_fixed`      the strict reader's columns (float texts) for T2 are its columns for T1
  `C11_data_iterate`         the k-th re-read is the first, the k-th output has the tokens of the second (of the first with `hc`)
  `C11_data_readData_unwrapped`, `C11_data_readData_wrapYes`   `Dt.readData` of the second output = `Dt.readData` of the first
                             (any engine / NULL policy / surrounding lines), via `C01_roundtrip_read_*`
Counter-examples (forced hypotheses): `…_index_nan_drift` (NULL -999.25, index format `%.1f`: -999.25, -999.2, …),
`…_needs_noNullClash` (-999.25 printed `%.3f` under NULL -999.25: token `-999.250` then `-999.25`; the re-read does not change),
`…_needs_strtod` (a `float()` that is off by one unit).

NOT proved / not modelled: that CPython's `float()` satisfies `StrtodClose` (a runtime service; the harness checks it on every
run); the `null_policy="none"` cycle (there every NaN behaves like a NaN of the index column); text columns.
-/
namespace Lasio.C11
open Lasio Lasio.Cd

/-! ## one sample -/

/-- **One sample through write -> read -> write** (no hypothesis on the index column).  `x` is sample `j` of a row of the matrix, and
it is not a NaN of the index column.  The sample read back prints to the same token; it is NaN iff `x` is. -/
theorem C11_data_cell {ft : Dt.FloatTable} {val : Str → Option Dw.F64} {null nv : Str} {c : Dw.RowCfg}
    {rows : List (List Dw.F64)} (hr : ReadOK ft val null nv) (hs : StrtodClose ft val c rows)
    (hc : Rt.NoNullClash ft nv c rows)
    (row : List Dw.F64) (hrow : row ∈ rows) (j : Nat) (x : Dw.F64) (hx : row[j]? = some x)
    (hnot : j ≠ 0 ∨ x.isNaN = false) :
    Dw.cellToken null (c.colFmt j) (reCell ft val null nv c j x) = Dw.cellToken null (c.colFmt j) x ∧
    (reCell ft val null nv c j x).isNaN = x.isNaN := by
  have hi : j = 0 → x.isNaN = true → NullExact val nv null (c.colFmt 0) := by
    intro h1 h2
    rcases hnot with h | h
    · exact absurd h1 h
    · rw [h2] at h; cases h
  refine ⟨reCell_token hr hs hc row hrow j x hx hi, ?_⟩
  rcases reCell_cases hr hs row hrow j x hx hi with ⟨h, _⟩ | ⟨h1, h2, _, _⟩ | ⟨hj, hn, _, v, hv, hf⟩
  · exact h
  · exact absurd h2 (by rcases hnot with h | h; exact absurd h1 h; rw [h]; simp)
  · have := hc row hrow j x hj hx hn v hv
    rw [hf] at this; cases this

/-- a finite sample: the binary64 read back re-prints to the same digits (`C11_fmt_stable` under the strtod assumption) -/
theorem C11_data_cell_finite {ft : Dt.FloatTable} {val : Str → Option Dw.F64} {null nv : Str} {c : Dw.RowCfg}
    {rows : List (List Dw.F64)} (hr : ReadOK ft val null nv) (hs : StrtodClose ft val c rows)
    (hc : Rt.NoNullClash ft nv c rows)
    (row : List Dw.F64) (hrow : row ∈ rows) (j : Nat) (neg : Bool) (m : Nat) (e : Int)
    (hx : row[j]? = some (.finite neg m e)) :
    Dw.fmtFixed (c.colFmt j).prec (reCell ft val null nv c j (.finite neg m e)) =
      Dw.fmtFixed (c.colFmt j).prec (.finite neg m e) := by
  obtain ⟨h1, h2⟩ := C11_data_cell hr hs hc row hrow j _ hx (Or.inr rfl)
  rwa [cellToken_num null _ _ (by rw [h2]; rfl), cellToken_num null _ _ rfl] at h1

/-- **A NaN of the index column**: written as the NULL text, it is read back as the NUMBER NULL `y` (column 0 is never NULL-ed)
and re-printed with the index format — the same token exactly when that format prints NULL exactly. -/
theorem C11_data_index_nan {ft : Dt.FloatTable} {val : Str → Option Dw.F64} {null nv : Str} (c : Dw.RowCfg)
    (hr : ReadOK ft val null nv) (x y : Dw.F64) (hx : x.isNaN = true) (hy : val nv = some y) (hyn : y.isNaN = false) :
    Dw.cellToken null (c.colFmt 0) x = null ∧ reCell ft val null nv c 0 x = y ∧
    Dw.cellToken null (c.colFmt 0) (reCell ft val null nv c 0 x) = Dw.fmtFixed (c.colFmt 0).prec y := by
  have e : reCell ft val null nv c 0 x = y := by
    unfold reCell
    rw [cellToken_nan null _ x hx, reTok_null_index hr, hy]; rfl
  exact ⟨cellToken_nan null _ x hx, e, by rw [e, cellToken_num null _ y hyn]⟩

/-! ## the matrix -/

/-- **Token level: the second output has the tokens of the first**, `T2 = T1`, every cell of every column. -/
theorem C11_data_tokens_fixed {ft : Dt.FloatTable} {val : Str → Option Dw.F64} {null nv : Str} {c : Dw.RowCfg}
    {rows : List (List Dw.F64)} (hr : ReadOK ft val null nv) (hs : StrtodClose ft val c rows)
    (hc : Rt.NoNullClash ft nv c rows) (hi : IndexOK val nv null c rows) :
    Rt.tokenRows c null (reRows ft val null nv c rows) = Rt.tokenRows c null rows :=
  tokenRows_reRows hr hs hi hc

/-- **Text level: the written data section is a fixed point.**  With no NaN in the index column, `write` on the re-read matrix emits
the same `~A` line and the same body lines (any supported formats, field width, spacers, `wrap`, `data_width`, header style). -/
theorem C11_data_text_fixed {ft : Dt.FloatTable} {val : Str → Option Dw.F64} {null nv : Str} {c : Dw.RowCfg}
    {rows : List (List Dw.F64)} (cfg : Dw.DataCfg) (mn : List Str) (hcfg : cfg.rowCfg = some c)
    (hr : ReadOK ft val null nv) (hs : StrtodClose ft val c rows)
    (hc : Rt.NoNullClash ft nv c rows) (hfree : IndexNaNFree rows) :
    Dw.dataLines cfg null mn (reRows ft val null nv c rows) = Dw.dataLines cfg null mn rows :=
  dataLines_reRows cfg mn hcfg hr hs hfree hc

/-- **Re-read level: the second re-read is the first re-read**, `rows2 = rows1`, sample by sample as binary64 values.
`NoNullClash` is not needed: a sample whose token reads as NULL is NaN in the first re-read and stays NaN. -/
theorem C11_data_reread_fixed {ft : Dt.FloatTable} {val : Str → Option Dw.F64} {null nv : Str} {c : Dw.RowCfg}
    {rows : List (List Dw.F64)} (hr : ReadOK ft val null nv) (hs : StrtodClose ft val c rows)
    (hi : IndexOK val nv null c rows) :
    reRows ft val null nv c (reRows ft val null nv c rows) = reRows ft val null nv c rows :=
  reRows_idem hr hs hi

/-- **`reRows` is what the reader returns**: cell (i, j) of the strict reader's columns for the written tokens (`applyNull` of
`matrixColumns`, the result of the engines by `C01_roundtrip_normal` / `C01_roundtrip_numpy`) is `readTxt` of the written token,
and cell (i, j) of `reRows` is the binary64 that float text denotes. -/
theorem C11_data_reread_is_read {ft : Dt.FloatTable} {val : Str → Option Dw.F64} {null nv : Str} {c : Dw.RowCfg}
    {rows : List (List Dw.F64)} (n : Nat) (hrect : ∀ r ∈ rows, r.length = n)
    (hr : ReadOK ft val null nv) (hs : StrtodClose ft val c rows)
    (i j : Nat) (row : List Dw.F64) (x : Dw.F64) (hi : rows[i]? = some row) (hx : row[j]? = some x) :
    ∃ row1, (reRows ft val null nv c rows)[i]? = some row1 ∧
      row1[j]? = some (((Dt.floatCell (Dt.applyNull true (some nv)
        (Dt.matrixColumns ft n (Rt.tokenRows c null rows))) j i).bind val).getD .nan) := by
  obtain ⟨row1, h1, h2⟩ := reRows_cell ft val null nv c rows i j row x hi hx
  refine ⟨row1, h1, ?_⟩
  rw [h2, floatCell_read ft null nv c rows n hrect (numeric_of hr hs) i j row x hi hx]
  rfl

/-- **The second re-read equals the first as float texts**: the strict reader's columns for the second output are its columns for
the first. -/
theorem C11_data_read_fixed {ft : Dt.FloatTable} {val : Str → Option Dw.F64} {null nv : Str} {c : Dw.RowCfg}
    {rows : List (List Dw.F64)} (n : Nat) (hr : ReadOK ft val null nv) (hs : StrtodClose ft val c rows)
    (hc : Rt.NoNullClash ft nv c rows) (hi : IndexOK val nv null c rows) :
    Dt.applyNull true (some nv) (Dt.matrixColumns ft n (Rt.tokenRows c null (reRows ft val null nv c rows))) =
      Dt.applyNull true (some nv) (Dt.matrixColumns ft n (Rt.tokenRows c null rows)) := by
  rw [C11_data_tokens_fixed hr hs hc hi]

/-- **Nothing accumulates**: `k + 1` load/save cycles give the matrix of the first re-read; what is written after them has the
tokens of the second output — of the first one under `NoNullClash`. -/
theorem C11_data_iterate {ft : Dt.FloatTable} {val : Str → Option Dw.F64} {null nv : Str} {c : Dw.RowCfg}
    {rows : List (List Dw.F64)} (hr : ReadOK ft val null nv) (hs : StrtodClose ft val c rows)
    (hi : IndexOK val nv null c rows) (k : Nat) :
    iter (reRows ft val null nv c) (k + 1) rows = reRows ft val null nv c rows ∧
    Rt.tokenRows c null (iter (reRows ft val null nv c) (k + 1) rows) = Rt.tokenRows c null (reRows ft val null nv c rows) ∧
    (Rt.NoNullClash ft nv c rows →
      Rt.tokenRows c null (iter (reRows ft val null nv c) (k + 1) rows) = Rt.tokenRows c null rows) := by
  have h := iter_idem (reRows ft val null nv c) rows (reRows_idem hr hs hi) k
  refine ⟨h, by rw [h], fun hc => by rw [h]; exact tokenRows_reRows hr hs hi hc⟩

/-! ## through `Dt.readData` on the whole data section text -/

/-- with no NaN in the index column the re-read matrix is written as the same lines: the hypotheses of the round trip
(`Rt.Written`) hold for it with the same header line and body -/
theorem C11_data_written_again {ft : Dt.FloatTable} {val : Str → Option Dw.F64} {null nv : Str}
    {cfg : Dw.DataCfg} {mn : List Str} {rows : List (List Dw.F64)} {c : Dw.RowCfg} {n : Nat} {hdr : Str} {body : List Str}
    (w : Rt.Written cfg null mn rows c n hdr body)
    (hr : ReadOK ft val null nv) (hs : StrtodClose ft val c rows)
    (hc : Rt.NoNullClash ft nv c rows) (hfree : IndexNaNFree rows) :
    Rt.Written cfg null mn (reRows ft val null nv c rows) c n hdr body :=
  ⟨w.rowCfg, w.ok, w.nullQuiet, by rw [C11_data_text_fixed cfg mn w.rowCfg hr hs hc hfree]; exact w.lines,
    reRows_ne ft val null nv c rows w.rne, w.npos, reRows_rect ft val null nv c rows n w.rect⟩

/-- **`readData` of the second output = `readData` of the first output**, files written with `wrap=False` and read with WRAP ≠ YES:
any engine, any NULL policy, any number of declared curves, any lines before / after the section, any line ends. -/
theorem C11_data_readData_unwrapped {ft : Dt.FloatTable} {val : Str → Option Dw.F64} {null nv : Str}
    {cfg : Dw.DataCfg} {mn : List Str} {rows : List (List Dw.F64)} {c : Dw.RowCfg} {n : Nat} {hdr1 hdr2 : Str}
    {body1 body2 : List Str}
    (w1 : Rt.Written cfg null mn rows c n hdr1 body1)
    (w2 : Rt.Written cfg null mn (reRows ft val null nv c rows) c n hdr2 body2) (hwrap : cfg.wrap = false)
    (hr : ReadOK ft val null nv) (hs : StrtodClose ft val c rows)
    (hc : Rt.NoNullClash ft nv c rows) (hi : IndexOK val nv null c rows)
    (e : Dt.Engine) (p : Dt.NullPolicy) (st : Dt.Steer) (d : Nat) (eol1 eol2 : Str) (h1 : Dt.AllWs eol1) (h2 : Dt.AllWs eol2)
    (pre1 pre2 : List Str) (title1 title2 : Str) (after1 after2 : List Str)
    (hdlm : st.delimiter = .space) (hw : st.wrapped ≠ Dt.yesTxt)
    (hn1 : after1 = [] ∨ ∃ ln rest t ts, after1 = ln :: rest ∧ Dt.npTokens ln = t :: ts ∧ Dt.toFloat ft t = none)
    (hn2 : after2 = [] ∨ ∃ ln rest t ts, after2 = ln :: rest ∧ Dt.npTokens ln = t :: ts ∧ Dt.toFloat ft t = none) :
    (Dt.readData ⟨e, p⟩ (pre2 ++ title2 :: (body2.map (· ++ eol2) ++ after2)) pre2.length
        (pre2.length + (body2.map (· ++ eol2)).length) st d ft).map Prod.snd =
    (Dt.readData ⟨e, p⟩ (pre1 ++ title1 :: (body1.map (· ++ eol1) ++ after1)) pre1.length
        (pre1.length + (body1.map (· ++ eol1)).length) st d ft).map Prod.snd := by
  rw [Dw.C01_roundtrip_read_unwrapped w2 hwrap e p st d ft eol2 h2 pre2 title2 after2 hdlm hw hn2,
    Dw.C01_roundtrip_read_unwrapped w1 hwrap e p st d ft eol1 h1 pre1 title1 after1 hdlm hw hn1,
    C11_data_tokens_fixed hr hs hc hi]

/-- the same for files read with WRAP = YES declared (written with any `wrap`), `n` declared curves -/
theorem C11_data_readData_wrapYes {ft : Dt.FloatTable} {val : Str → Option Dw.F64} {null nv : Str}
    {cfg : Dw.DataCfg} {mn : List Str} {rows : List (List Dw.F64)} {c : Dw.RowCfg} {n : Nat} {hdr1 hdr2 : Str}
    {body1 body2 : List Str}
    (w1 : Rt.Written cfg null mn rows c n hdr1 body1)
    (w2 : Rt.Written cfg null mn (reRows ft val null nv c rows) c n hdr2 body2)
    (hr : ReadOK ft val null nv) (hs : StrtodClose ft val c rows)
    (hc : Rt.NoNullClash ft nv c rows) (hi : IndexOK val nv null c rows)
    (e : Dt.Engine) (p : Dt.NullPolicy) (st : Dt.Steer) (eol1 eol2 : Str) (h1 : Dt.AllWs eol1) (h2 : Dt.AllWs eol2)
    (pre1 pre2 : List Str) (title1 title2 : Str) (after1 after2 : List Str)
    (hdlm : st.delimiter = .space) (hwd : st.wrapDeclared = true) (hwy : st.wrapped = Dt.yesTxt) :
    Dt.readData ⟨e, p⟩ (pre2 ++ title2 :: (body2.map (· ++ eol2) ++ after2)) pre2.length
        (pre2.length + (body2.map (· ++ eol2)).length) st n ft =
    Dt.readData ⟨e, p⟩ (pre1 ++ title1 :: (body1.map (· ++ eol1) ++ after1)) pre1.length
        (pre1.length + (body1.map (· ++ eol1)).length) st n ft := by
  rw [Dw.C01_roundtrip_read_wrapYes w2 e p st ft eol2 h2 pre2 title2 after2 hdlm hwd hwy,
    Dw.C01_roundtrip_read_wrapYes w1 e p st ft eol1 h1 pre1 title1 after1 hdlm hwd hwy,
    C11_data_tokens_fixed hr hs hc hi]

/-! ## the hypotheses are needed -/

def hOne : Str := "0x1.0000000000000p+0".toList
def hTwo : Str := "0x1.0000000000000p+1".toList
/-- `float("-999.25").hex()` -/
def hNull : Str := "-0x1.f3a0000000000p+9".toList
def nullTxt : Str := "-999.25".toList
/-- −999.25 = −3997 / 4 -/
def nullNum : Dw.F64 := .finite true 3997 (-2)
def cfg1 : Dw.RowCfg := ⟨⟨none, 1⟩, [], 10, [' '], [' ']⟩
def cfg3 : Dw.RowCfg := ⟨⟨none, 3⟩, [], 10, [' '], [' ']⟩

def lookupVal (t : List (Str × Dw.F64)) (s : Str) : Option Dw.F64 := t.lookup s

/-- **`IndexOK` is needed** (the known drift of a NaN in the index column): NULL −999.25, every column `%.1f`, the matrix
`[[NaN, 1.0]]`.  The index NaN is written `-999.25`, read back as the number −999.25, written `-999.2` (round-half-even), read back
as −999.2: the tokens AND the re-read drift.  Every other hypothesis (`ReadOK`, no sample outside column 0 clashes) holds. -/
theorem C11_data_counterexample_index_nan_drift :
    let ft : Dt.FloatTable := [("-999.25".toList, hNull), ("1.0".toList, hOne), ("-999.2".toList, "-0x1.f39999999999ap+9".toList)]
    let val := lookupVal [(hNull, nullNum), (hOne, .finite false 1 0),
      ("-0x1.f39999999999ap+9".toList, .finite true 4394528073895117 (-42)), (Dt.nanTxt, .nan)]
    let rows : List (List Dw.F64) := [[.nan, .finite false 1 0]]
    Rt.tokenRows cfg1 nullTxt rows = [["-999.25".toList, "1.0".toList]] ∧
    reRows ft val nullTxt hNull cfg1 rows = [[nullNum, .finite false 1 0]] ∧
    Rt.tokenRows cfg1 nullTxt (reRows ft val nullTxt hNull cfg1 rows) = [["-999.2".toList, "1.0".toList]] ∧
    reRows ft val nullTxt hNull cfg1 (reRows ft val nullTxt hNull cfg1 rows) =
      [[.finite true 4394528073895117 (-42), .finite false 1 0]] := by
  decide

/-- **`NoNullClash` is needed for the fixed point of the TOKENS** (not for the re-read): NULL −999.25, the sample −999.25 in column
1 printed with `%.3f`: the first output has `-999.250`, which reads as a float `==` NULL, hence NaN, which the second output prints
as the NULL text `-999.25`.  The re-read is NaN both times. -/
theorem C11_data_counterexample_needs_noNullClash :
    let ft : Dt.FloatTable := [("-999.25".toList, hNull), ("-999.250".toList, hNull), ("1.000".toList, hOne)]
    let val := lookupVal [(hNull, nullNum), (hOne, .finite false 1 0), (Dt.nanTxt, .nan)]
    let rows : List (List Dw.F64) := [[.finite false 1 0, nullNum]]
    Rt.tokenRows cfg3 nullTxt rows = [["1.000".toList, "-999.250".toList]] ∧
    reRows ft val nullTxt hNull cfg3 rows = [[.finite false 1 0, .nan]] ∧
    Rt.tokenRows cfg3 nullTxt (reRows ft val nullTxt hNull cfg3 rows) = [["1.000".toList, "-999.25".toList]] ∧
    reRows ft val nullTxt hNull cfg3 (reRows ft val nullTxt hNull cfg3 rows) = [[.finite false 1 0, .nan]] := by
  decide

/-- **`StrtodClose` is needed**: a `float()` / `val` pair that returns 1.1 for the token `1.0` (off by one unit of the last digit)
makes every cycle add 0.1 -/
theorem C11_data_counterexample_needs_strtod :
    let ft : Dt.FloatTable := [("1.0".toList, hOne), ("1.1".toList, hTwo)]
    let val := lookupVal [(hOne, .finite false 2476979795053773 (-51)), (hTwo, .finite false 5404319552844595 (-52))]
    let rows : List (List Dw.F64) := [[.finite false 1 0]]
    Rt.tokenRows cfg1 nullTxt rows = [["1.0".toList]] ∧
    Rt.tokenRows cfg1 nullTxt (reRows ft val nullTxt hNull cfg1 rows) = [["1.1".toList]] ∧
    Rt.tokenRows cfg1 nullTxt (reRows ft val nullTxt hNull cfg1 (reRows ft val nullTxt hNull cfg1 rows)) = [["1.2".toList]] := by
  decide

/-! ## non-vacuity -/

def exCfg : Dw.RowCfg := ⟨⟨none, 2⟩, [], 10, [' '], [' ']⟩
/-- 1.0 and the binary64 nearest to 0.123456; 2.0 and a NaN -/
def exRows : List (List Dw.F64) :=
  [[.finite false 1 0, .finite false 8895942329546431 (-56)], [.finite false 1 1, .nan]]
/-- `float("0.12").hex()` -/
def h012 : Str := "0x1.eb851eb851eb8p-4".toList
def exFt : Dt.FloatTable := [("1.00".toList, hOne), ("2.00".toList, hTwo), ("0.12".toList, h012), ("-999.25".toList, hNull)]
/-- 2.0 comes back as `2 · 2^0` (another spelling of the same binary64), 0.12 as the binary64 nearest to 0.12 -/
def exVal : Str → Option Dw.F64 :=
  lookupVal [(hOne, .finite false 1 0), (hTwo, .finite false 2 0), (h012, .finite false 1080863910568919 (-53)),
    (hNull, nullNum), (Dt.nanTxt, .nan)]

theorem ex_read : ReadOK exFt exVal nullTxt hNull := ⟨by decide, by decide, by decide⟩

theorem ex_strtod : StrtodClose exFt exVal exCfg exRows := by
  intro row hrow j x hx hnan
  have hm := mem_cellsOf exRows row hrow j x hx
  simp only [cellsOf, idxFrom, exRows, List.flatMap_cons, List.flatMap_nil, List.append_nil, List.cons_append,
    List.nil_append, List.mem_cons, Prod.mk.injEq, List.not_mem_nil, or_false] at hm
  rcases hm with ⟨rfl, rfl⟩ | ⟨rfl, rfl⟩ | ⟨rfl, rfl⟩ | ⟨rfl, rfl⟩
  · exact ⟨hOne, _, by decide, by decide, Or.inl rfl⟩
  · exact ⟨h012, _, by decide, by decide, Or.inr ⟨1080863910568919, -53, rfl, by decide⟩⟩
  · exact ⟨hTwo, _, by decide, by decide, Or.inr ⟨2, 0, rfl, by decide⟩⟩
  · cases hnan

theorem ex_noClash : Rt.NoNullClash exFt hNull exCfg exRows := by
  intro row hrow j x hj hx hnan v hv
  have hm := mem_cellsOf exRows row hrow j x hx
  simp only [cellsOf, idxFrom, exRows, List.flatMap_cons, List.flatMap_nil, List.append_nil, List.cons_append,
    List.nil_append, List.mem_cons, Prod.mk.injEq, List.not_mem_nil, or_false] at hm
  rcases hm with ⟨rfl, rfl⟩ | ⟨rfl, rfl⟩ | ⟨rfl, rfl⟩ | ⟨rfl, rfl⟩
  · exact absurd rfl hj
  · have : Dt.toFloat exFt (Dw.fmtFixed (exCfg.colFmt (0 + 1)).prec (.finite false 8895942329546431 (-56))) = some h012 := by
      decide
    rw [this] at hv
    cases hv
    decide
  · exact absurd rfl hj
  · cases hnan

theorem ex_indexFree : IndexNaNFree exRows := by
  intro row hrow x hx
  have hm := mem_cellsOf exRows row hrow 0 x hx
  simp only [cellsOf, idxFrom, exRows, List.flatMap_cons, List.flatMap_nil, List.append_nil, List.cons_append,
    List.nil_append, List.mem_cons, Prod.mk.injEq, List.not_mem_nil, or_false] at hm
  rcases hm with ⟨_, rfl⟩ | ⟨h, _⟩ | ⟨_, rfl⟩ | ⟨h, _⟩
  · rfl
  · cases h
  · rfl
  · cases h

def exDataCfg : Dw.DataCfg := ⟨true, "%.2f".toList, [], none, [' '], [' '], 12, 20, "~A".toList, false⟩

/-- a 2 × 2 matrix with a sample that does not survive the `%.2f` (0.123456), a NaN and a value that comes back in another
spelling satisfies every hypothesis; the theorems give: same tokens, same text (wrapped at 12 columns), same re-read, for ever -/
example :
    Rt.tokenRows exCfg nullTxt exRows = [["1.00".toList, "0.12".toList], ["2.00".toList, "-999.25".toList]] ∧
    reRows exFt exVal nullTxt hNull exCfg exRows =
      [[.finite false 1 0, .finite false 1080863910568919 (-53)], [.finite false 2 0, .nan]] ∧
    Rt.tokenRows exCfg nullTxt (reRows exFt exVal nullTxt hNull exCfg exRows) = Rt.tokenRows exCfg nullTxt exRows ∧
    Dw.dataLines exDataCfg nullTxt ["DEPT".toList, "A".toList] (reRows exFt exVal nullTxt hNull exCfg exRows) =
      Dw.dataLines exDataCfg nullTxt ["DEPT".toList, "A".toList] exRows ∧
    Dw.dataLines exDataCfg nullTxt ["DEPT".toList, "A".toList] exRows =
      some ["~A -----------------".toList, "       1.00".toList, "0.12".toList, "       2.00".toList, "-999.25".toList] ∧
    (∀ k, iter (reRows exFt exVal nullTxt hNull exCfg) (k + 1) exRows = reRows exFt exVal nullTxt hNull exCfg exRows) :=
  ⟨by decide, by decide,
   C11_data_tokens_fixed ex_read ex_strtod ex_noClash (Or.inl ex_indexFree),
   C11_data_text_fixed exDataCfg _ (by rfl) ex_read ex_strtod ex_noClash ex_indexFree,
   by decide,
   fun k => (C11_data_iterate ex_read ex_strtod (Or.inl ex_indexFree) k).1⟩

/-- the hypothesis `NullExact` can be met: NULL −999.25 is printed exactly by `%.2f`, so a NaN in the index column is harmless there -/
example : NullExact exVal hNull nullTxt (exCfg.colFmt 0) := ⟨nullNum, by decide, by decide, by decide⟩

end Lasio.C11

#print axioms Lasio.C11.C11_data_cell
#print axioms Lasio.C11.C11_data_cell_finite
#print axioms Lasio.C11.C11_data_index_nan
#print axioms Lasio.C11.C11_data_tokens_fixed
#print axioms Lasio.C11.C11_data_text_fixed
#print axioms Lasio.C11.C11_data_reread_fixed
#print axioms Lasio.C11.C11_data_reread_is_read
#print axioms Lasio.C11.C11_data_read_fixed
#print axioms Lasio.C11.C11_data_iterate
#print axioms Lasio.C11.C11_data_written_again
#print axioms Lasio.C11.C11_data_readData_unwrapped
#print axioms Lasio.C11.C11_data_readData_wrapYes
#print axioms Lasio.C11.C11_data_counterexample_index_nan_drift
#print axioms Lasio.C11.C11_data_counterexample_needs_noNullClash
#print axioms Lasio.C11.C11_data_counterexample_needs_strtod
#print axioms Lasio.C11.ex_strtod
#print axioms Lasio.C11.ex_noClash
