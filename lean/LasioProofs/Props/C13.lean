import LasioModel.Section
import LasioProofs.Props.C15
import LasioProofs.Lemmas.SectionInv
/-
C13 — duplicate mnemonics are disambiguated with `:1`, `:2`, … suffixes; original mnemonics are never
touched; after every edit operation the suffix invariant `Inv` holds, and (unless some useful name already
looks like another one followed by `:<digits>`) the session names are pairwise distinct and each resolves
to exactly its own item.

`ckey`, `SuffixForm`, `Rel`, `Inv`, `inGroup`, `withSuffix` are defined in `Lemmas/SectionInv.lean`.
-/
namespace Lasio

/-- no useful name equals another item's useful name followed by `:<digits>` (modulo case when tr) -/
def NoSuffixClash (s : Section) : Prop :=
  ∀ a ∈ s.items, ∀ b ∈ s.items, ∀ k,
    ckey s.tr (useful a.orig) ≠ ckey s.tr (useful b.orig) ++ ':' :: natToStr k

/-- session names pairwise distinct under the section's own comparison -/
def Distinct (s : Section) : Prop :=
  s.items.Pairwise (fun a b => cmpStr s.tr a.session b.session = false)

/-! ### 1. originals are never touched -/

theorem C13_originals_assign (s : Section) (t : Str) : (s.assignSuffixes t).origs = s.origs :=
  assign_origs s t

theorem C13_originals_append (s : Section) (it : Item) : (s.append it).origs = s.origs ++ [it.orig] := by
  unfold Section.append
  rw [assign_origs]
  simp [Section.origs]

theorem C13_originals_insert (s : Section) (i : Int) (it : Item) :
    (s.insert i it).origs = insertAt s.origs (pyInsertPos s.items.length i) it.orig := by
  unfold Section.insert
  rw [assign_origs]
  simp [Section.origs, insertAt]

theorem origs_eraseIdx (s : Section) (i : Nat) :
    ({ s with items := s.items.eraseIdx i } : Section).origs = s.origs.eraseIdx i := by
  simp [Section.origs, List.eraseIdx_eq_take_drop_succ]

theorem C13_originals_delete (s s' : Section) (k : Key) (h : s.delitem k = .ok s') :
    ∃ i, s.getitem k = .ok i ∧ s'.origs = s.origs.eraseIdx i := by
  unfold Section.delitem at h
  cases hg : s.getitem k with
  | error e => simp [hg] at h
  | ok i =>
    simp [hg] at h; subst h
    exact ⟨i, rfl, origs_eraseIdx s i⟩

theorem C13_originals_pop (s s' : Section) (i : Int) (h : s.pop i = .ok s') :
    ∃ j, pyIndex s.items.length i = some j ∧ s'.origs = s.origs.eraseIdx j := by
  unfold Section.pop at h
  cases hp : pyIndex s.items.length i with
  | none => simp [hp] at h
  | some j =>
    simp [hp] at h; subst h
    exact ⟨j, rfl, origs_eraseIdx s j⟩

theorem C13_originals_setItem (s : Section) (k : Key) (it : Item) :
    (s.setItem k it).origs =
      (match s.find k with
       | some i => s.origs.set i it.orig
       | none => s.origs ++ [it.orig]) := by
  unfold Section.setItem
  cases s.find k with
  | none => exact C13_originals_append s it
  | some i =>
    simp only []
    rw [assign_origs]
    simp [Section.origs]

theorem C13_originals_setValue (s s' : Section) (k : Key) (v : Str) (h : s.setValue k v = .ok s') :
    s'.origs = s.origs := by
  unfold Section.setValue at h
  cases hg : s.getitem k with
  | error e => simp [hg] at h
  | ok i =>
    simp [hg] at h; subst h
    have := congrArg (List.map Prod.fst) (modify_value_keys s.items i v)
    simpa [Section.origs, List.map_map, Function.comp_def] using this

theorem C13_originals_getAdd (s : Section) (m d : Str) :
    (s.get m d true).2.origs = if s.contains (.str m) then s.origs else s.origs ++ [m] := by
  unfold Section.get Section.contains
  cases hf : s.find (.str m) with
  | some i => simp
  | none => simpa [mkItem] using C13_originals_append s (mkItem m [] d [])

/-- the effect of one operation on the plain list of original mnemonics: exactly what the same operation does
to an ordinary Python list (the position addressed by a key is the one found in `s`) -/
def Section.origsStep (s : Section) : Op → List Str
  | .append o _ _ _ => s.origs ++ [o]
  | .insert i o _ _ _ => insertAt s.origs (pyInsertPos s.origs.length i) o
  | .del k => match s.getitem k with
    | .ok i => s.origs.eraseIdx i
    | .error _ => s.origs
  | .pop i => match pyIndex s.origs.length i with
    | some j => s.origs.eraseIdx j
    | none => s.origs
  | .setItem k o _ _ _ => match s.find k with
    | some i => s.origs.set i o
    | none => s.origs ++ [o]
  | .setValue _ _ => s.origs
  | .getAdd m _ => if s.contains (.str m) then s.origs else s.origs ++ [m]

/-- disambiguation never touches original mnemonics: the list of originals evolves as a plain list -/
theorem C13_originals_step (s : Section) (op : Op) : (s.step op).origs = s.origsStep op := by
  have hlen : s.origs.length = s.items.length := by simp [Section.origs]
  cases op with
  | append o u v d => exact C13_originals_append s (mkItem o u v d)
  | insert i o u v d =>
    simp only [Section.step, Section.origsStep, hlen]
    exact C13_originals_insert s i (mkItem o u v d)
  | del k =>
    simp only [Section.step, Section.origsStep]
    cases hd : s.delitem k with
    | error e =>
      unfold Section.delitem at hd
      cases hg : s.getitem k with
      | error e' => rfl
      | ok i => simp [hg] at hd
    | ok s' =>
      obtain ⟨i, hg, ho⟩ := C13_originals_delete s s' k hd
      simp [hg, ho]
  | pop i =>
    simp only [Section.step, Section.origsStep, hlen]
    cases hd : s.pop i with
    | error e =>
      unfold Section.pop at hd
      cases hp : pyIndex s.items.length i with
      | none => rfl
      | some j => simp [hp] at hd
    | ok s' =>
      obtain ⟨j, hp, ho⟩ := C13_originals_pop s s' i hd
      simp [hp, ho]
  | setItem k o u v d =>
    simp only [Section.step, Section.origsStep]
    exact C13_originals_setItem s k (mkItem o u v d)
  | setValue k v =>
    simp only [Section.step, Section.origsStep]
    cases hd : s.setValue k v with
    | error e => rfl
    | ok s' => exact C13_originals_setValue s s' k v hd
  | getAdd m d => exact C13_originals_getAdd s m d

/-! ### 2. blank mnemonics -/

theorem C13_blank_unknown (o : Str) (h : strip o = []) (u v d : Str) :
    (mkItem o u v d).session = "UNKNOWN".toList ∧ (mkItem o u v d).orig = o := by
  simp [mkItem, useful, h]

/-! ### 3./4. what `assign_duplicate_suffixes` does -/

theorem C13_unique_untouched (s : Section) (t : Str) (h : countGroup s.tr t s.items ≤ 1) :
    s.assignSuffixes t = s := by
  unfold Section.assignSuffixes
  have : ¬ countGroup s.tr t s.items > 1 := by omega
  simp [this]

/-- when the group of `t` has more than one member: the section keeps its length and its `tr`; the items of the
group are, in list order, the old group items with session names `useful orig ++ ":1"`, `":2"`, …, `":n"`
(everything else about them unchanged); the items outside the group are unchanged, in the same order; and
position by position, the item at `i` is the old one, re-suffixed with 1 + (number of group members before `i`)
when it is in the group. -/
theorem C13_numbering (s : Section) (t : Str) (h : countGroup s.tr t s.items > 1) :
    (s.assignSuffixes t).tr = s.tr ∧
    (s.assignSuffixes t).items.length = s.items.length ∧
    (s.assignSuffixes t).items.filter (inGroup s.tr t) =
      ((s.items.filter (inGroup s.tr t)).zipIdx).map (fun p => withSuffix p.1 (p.2 + 1)) ∧
    ((s.assignSuffixes t).items.filter (inGroup s.tr t)).map (·.session) =
      ((s.items.filter (inGroup s.tr t)).zipIdx).map
        (fun p => useful p.1.orig ++ ':' :: natToStr (p.2 + 1)) ∧
    (s.assignSuffixes t).items.filter (fun it => !inGroup s.tr t it) =
      s.items.filter (fun it => !inGroup s.tr t it) ∧
    ∀ i, (s.assignSuffixes t).items[i]? = (s.items[i]?).map (fun it =>
      if inGroup s.tr t it then withSuffix it (countGroup s.tr t (s.items.take i) + 1) else it) := by
  have e : s.assignSuffixes t = { s with items := renumber s.tr t s.items 0 } := by
    unfold Section.assignSuffixes; simp [h]
  rw [e]
  refine ⟨rfl, renumber_length _ _ _ _, renumber_filter_in _ _ _ _, ?_, renumber_filter_out _ _ _ _, ?_⟩
  · simp only []
    rw [renumber_filter_in, List.map_map]
    rfl
  · intro i
    simp only []
    rw [renumber_getElem?]
    simp

/-! ### 5. the invariant is preserved by every operation -/

theorem C13_inv_append (s : Section) (it : Item) (hs : SuffixForm it) (h : Inv s) : Inv (s.append it) := by
  unfold Section.append
  have := inv_insert_assign s.tr s.items [] it (by simpa using h) hs
  simpa using this

theorem C13_inv_insert (s : Section) (i : Int) (it : Item) (hs : SuffixForm it) (h : Inv s) :
    Inv (s.insert i it) := by
  unfold Section.insert insertAt
  exact inv_insert_assign s.tr _ _ it (by simpa using h) hs

theorem C13_inv_setItem (s : Section) (k : Key) (it : Item) (hs : SuffixForm it) (h : Inv s) :
    Inv (s.setItem k it) := by
  unfold Section.setItem
  cases s.find k with
  | none => exact C13_inv_append s it hs h
  | some i => exact inv_set_assign s.tr s.items i it h hs

theorem C13_inv_step (s : Section) (op : Op) (h : Inv s) : Inv (s.step op) := by
  cases op with
  | append o u v d => exact C13_inv_append s _ (suffixForm_mkItem o u v d) h
  | insert i o u v d => exact C13_inv_insert s i _ (suffixForm_mkItem o u v d) h
  | del k =>
    simp only [Section.step]
    unfold Section.delitem
    cases s.getitem k with
    | error e => exact h
    | ok i => exact inv_sublist s.tr s.items _ (List.eraseIdx_sublist _ _) h
  | pop i =>
    simp only [Section.step]
    unfold Section.pop
    cases pyIndex s.items.length i with
    | none => exact h
    | some j => exact inv_sublist s.tr s.items _ (List.eraseIdx_sublist _ _) h
  | setItem k o u v d => exact C13_inv_setItem s k _ (suffixForm_mkItem o u v d) h
  | setValue k v =>
    simp only [Section.step]
    unfold Section.setValue
    cases s.getitem k with
    | error e => exact h
    | ok i => exact inv_congr s.tr s.items _ (modify_value_keys s.items i v) h
  | getAdd m d =>
    simp only [Section.step]
    unfold Section.get
    cases s.find (.str m) with
    | some i => exact h
    | none => exact C13_inv_append s _ (suffixForm_mkItem m [] d []) h

theorem C13_inv_run_from (s : Section) (ops : List Op) (h : Inv s) : Inv (s.run ops) := by
  induction ops generalizing s with
  | nil => exact h
  | cons op ops ih => exact ih (s.step op) (C13_inv_step s op h)

theorem C13_inv_empty (tr : Bool) : Inv ⟨[], tr⟩ := ⟨by simp, List.Pairwise.nil⟩

theorem C13_inv_run (tr : Bool) (ops : List Op) : Inv (Section.run ⟨[], tr⟩ ops) :=
  C13_inv_run_from _ ops (C13_inv_empty tr)

/-! ### 6. distinctness of session names -/

theorem C13_distinct (s : Section) (h : Inv s) (hc : NoSuffixClash s) : Distinct s := by
  refine List.Pairwise.imp_of_mem (R := Rel s.tr) ?_ h.2
  intro a b ha hb hr
  rw [cmpStr_false_iff]
  intro heq
  by_cases hsame : ckey s.tr (useful a.orig) = ckey s.tr (useful b.orig)
  · obtain ⟨ka, kb, _, hlt, hsa, hsb⟩ := hr hsame
    rw [hsa, hsb, ckey_suffix, ckey_suffix, hsame] at heq
    have := (suffix_inj _ _ _ _ heq).2
    omega
  · rcases h.1 a ha with hsa | ⟨ka, _, hsa⟩ <;> rcases h.1 b hb with hsb | ⟨kb, _, hsb⟩
    · rw [hsa, hsb] at heq
      exact hsame heq
    · rw [hsa, hsb, ckey_suffix] at heq
      exact hc a ha b hb kb heq
    · rw [hsa, hsb, ckey_suffix] at heq
      exact hc b hb a ha ka heq.symm
    · rw [hsa, hsb, ckey_suffix, ckey_suffix] at heq
      exact hsame (suffix_inj _ _ _ _ heq).1

/-- every section reachable from the empty one whose useful names do not clash has distinct session names -/
theorem C13_distinct_run (tr : Bool) (ops : List Op) (hc : NoSuffixClash (Section.run ⟨[], tr⟩ ops)) :
    Distinct (Section.run ⟨[], tr⟩ ops) :=
  C13_distinct _ (C13_inv_run tr ops) hc

/-! ### 7. each session name resolves to its own item -/

theorem C13_resolve (s : Section) (hd : Distinct s) (i : Nat) (it : Item) (hi : s.items[i]? = some it) :
    s.getitem (.str it.session) = .ok i ∧ s.contains (.str it.session) = true := by
  have hf : s.find (.str it.session) = some i := by
    unfold Section.find
    rw [findFirst_some_iff]
    refine ⟨⟨it, hi, cmpStr_refl _ _⟩, ?_⟩
    intro j b hj hb
    obtain ⟨hjl, hjb⟩ := List.getElem?_eq_some_iff.mp hb
    obtain ⟨hil, hib⟩ := List.getElem?_eq_some_iff.mp hi
    have := List.pairwise_iff_getElem.mp hd j i hjl hil hj
    rw [hjb, hib] at this
    exact this
  simp [Section.getitem, Section.contains, hf]

/-! ### 8. the clash hypothesis is needed -/

/-- appending originals "A:1", "A", "A" gives two items with the session name "A:1" -/
def clashSec : Section :=
  Section.run ⟨[], false⟩ [.append "A:1".toList [] [] [], .append "A".toList [] [] [], .append "A".toList [] [] []]

theorem C13_counterexample_clash :
    clashSec.keys = ["A:1".toList, "A:1".toList, "A:2".toList] ∧
    clashSec.origs = ["A:1".toList, "A".toList, "A".toList] ∧
    Inv clashSec ∧ ¬ Distinct clashSec ∧ ¬ NoSuffixClash clashSec := by
  have hk : clashSec.keys = ["A:1".toList, "A:1".toList, "A:2".toList] := by decide
  have hnd : ¬ Distinct clashSec := by
    intro hd
    have h0 : clashSec.getitem (.str "A:1".toList) = .ok 1 :=
      (C13_resolve clashSec hd 1 ⟨"A".toList, "A:1".toList, [], [], []⟩ (by decide)).1
    have h1 : clashSec.getitem (.str "A:1".toList) = .ok 0 := by rfl
    rw [h1] at h0
    simp at h0
  refine ⟨hk, by decide, C13_inv_run _ _, hnd, ?_⟩
  intro hc
  exact hnd (C13_distinct _ (C13_inv_run _ _) hc)

/-! ### 9. non-vacuity -/

theorem noSuffixClash_of_no_colon (s : Section)
    (h : ∀ a ∈ s.items, ':' ∉ ckey s.tr (useful a.orig)) : NoSuffixClash s := by
  intro a ha b _ k heq
  apply h a ha
  rw [heq]
  simp

def exRun : Section :=
  Section.run ⟨[], true⟩
    [.append "A".toList [] [] [], .append "a".toList [] [] [], .append [] [] [] [],
     .insert 0 "A".toList [] [] [], .del (.str "A:2".toList)]

example :
    exRun.keys = ["A:1".toList, "a:3".toList, "UNKNOWN".toList] ∧
    exRun.origs = ["A".toList, "a".toList, []] ∧
    Inv exRun ∧ NoSuffixClash exRun ∧ Distinct exRun ∧
    exRun.getitem (.str "a:3".toList) = .ok 1 ∧ exRun.getitem (.str "A:3".toList) = .ok 1 := by
  have hc : NoSuffixClash exRun := noSuffixClash_of_no_colon _ (by decide)
  have hi : Inv exRun := C13_inv_run _ _
  have hd : Distinct exRun := C13_distinct _ hi hc
  exact ⟨by decide, by decide, hi, hc, hd,
    (C13_resolve exRun hd 1 ⟨"a".toList, "a:3".toList, [], [], []⟩ (by decide)).1, by rfl⟩

#print axioms C13_originals_step
#print axioms C13_originals_append
#print axioms C13_originals_insert
#print axioms C13_originals_delete
#print axioms C13_originals_pop
#print axioms C13_originals_setItem
#print axioms C13_originals_setValue
#print axioms C13_originals_assign
#print axioms C13_blank_unknown
#print axioms C13_unique_untouched
#print axioms C13_numbering
#print axioms C13_inv_step
#print axioms C13_inv_run_from
#print axioms C13_inv_run
#print axioms C13_distinct
#print axioms C13_distinct_run
#print axioms C13_resolve
#print axioms C13_counterexample_clash

end Lasio
