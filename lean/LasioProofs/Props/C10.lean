import LasioModel.Channel
import LasioModel.Generated
import LasioProofs.Lemmas.ChannelLemmas
/-
C10 — result is independent of input channel and encoding; reads are pure.  (partial: codecs are a hypothesis)
-/
namespace Lasio

/-- a string with more than one line is LAS content, never taken for a file name; a one-line string is a file name -/
theorem C10_classify (s : Str) :
    (2 ≤ (pySplitlines s).length → classifyStr s = .content) ∧
    ((pySplitlines s).length = 1 → classifyStr s = .filename) := by
  unfold classifyStr
  constructor
  · intro h
    match hs : pySplitlines s with
    | [] => simp [hs] at h
    | [_] => simp [hs] at h
    | _ :: _ :: _ => rfl
  · intro h
    match hs : pySplitlines s with
    | [] => simp [hs] at h
    | [_] => rfl
    | _ :: _ :: _ => simp [hs] at h

/-- a UTF-8 BOM wins over everything; otherwise a non-empty `encoding=` argument is used as given -/
theorem C10_encoding_choice (arg : Option Str) (e : Str) (he : e ≠ []) :
    chooseEncoding true arg = .utf8sig ∧ chooseEncoding false (some e) = .named e := by
  constructor
  · rfl
  · unfold chooseEncoding
    cases e with
    | nil => exact absurd rfl he
    | cons c cs => rfl

/-- all file channels deliver the same text; strings and StringIO deliver the text itself -/
theorem C10_deliver (t d : Str) :
    deliver .pathStr t d = univNL d ∧ deliver .pathObj t d = univNL d ∧ deliver .fileObj t d = univNL d ∧
    deliver .stringIO t d = t ∧ deliver .content t d = t := ⟨rfl, rfl, rfl, rfl, rfl⟩

/-- if the codec round-trips the text (`decoded = t`: the trusted hypothesis on Python's codecs), every channel delivers
text whose stripped lines are the same — the reader strips every line before using it.  Lone CRs are excluded for the
string channels (claimed for files only). -/
theorem C10_channels (t : Str) (ch : Channel) (hcr : NoLoneCR t) :
    (splitLF (deliver ch t t)).map strip = (splitLF t).map strip := by
  cases ch <;> simp only [deliver] <;> first | rfl | exact splitLF_univNL_strip t hcr

/-- universal newline translation is idempotent and leaves no CR -/
theorem C10_univNL (t : Str) : univNL (univNL t) = univNL t ∧ '\r' ∉ univNL t :=
  ⟨univNL_idem t, univNL_noCR t⟩

/-- generated obligation (re-checked against the current source): every LASFile gets freshly built default sections -/
theorem C10_default_items_fresh : Generated.defaultItemsFresh = true := by decide

/-- with fresh defaults every reachable world is well-formed: section ids in range, no section shared between objects -/
theorem C10_wf_run (ops : List WOp) : WF (World.run true World.init ops) :=
  wf_run ops

/-- non-interference: in a well-formed world an in-place mutation or a read of one object never changes what another
object shows -/
theorem C10_noninterference (w : World) (h : WF w) (o o' : Nat) (ho : o ≠ o') :
    (∀ k v, (w.mutate o k v).observe o' = w.observe o') ∧
    (∀ parsed, (w.read o parsed).observe o' = w.observe o') ∧
    ((w.newLas true).observe o' = w.observe o' ∨ w.objs.length ≤ o') :=
  ⟨fun k v => observe_mutate_other w h o o' ho k v, fun p => observe_read_other w h o o' ho p, observe_newLas_other w h o'⟩

/-- purity for all histories: whatever happens to OTHER objects, an object shows what it showed -/
theorem C10_pure (ops : List WOp) (o' : Nat) (w : World) (h : WF w) (ho : o' < w.objs.length)
    (hops : ∀ op ∈ ops, targetOf op ≠ some o') :
    (World.run true w ops).observe o' = w.observe o' :=
  observe_run_other ops o' w h ho hops

/-- the hypothesis is needed: with a shared (cached) default dictionary, mutating one fresh LASFile changes another -/
theorem C10_shared_defaults_interfere :
    (World.run false World.init [.newLas, .newLas, .mutate 0 1 [['X']]]).observe 1 ≠
    (World.run false World.init [.newLas, .newLas]).observe 1 := by decide

/-- `NoLoneCR` is needed in `C10_channels`: a lone CR is a line break for files but not for strings -/
theorem C10_channels_needs_noLoneCR :
    (splitLF (deliver .pathStr ['a', '\r', 'b'] ['a', '\r', 'b'])).map strip ≠
    (splitLF ['a', '\r', 'b']).map strip := by decide

/-- non-vacuity: a CRLF text satisfies `NoLoneCR` and is delivered as two stripped lines by a file channel -/
example : NoLoneCR ['a', '\r', '\n', 'b'] ∧
    (splitLF (deliver .fileObj ['a', '\r', '\n', 'b'] ['a', '\r', '\n', 'b'])).map strip = [['a'], ['b']] := by
  decide

/-- non-vacuity (contrast with `C10_shared_defaults_interfere`): with fresh defaults the same history leaves
object 1 untouched -/
example :
    (World.run true World.init [.newLas, .newLas, .mutate 0 1 [['X']], .read 0 [(2, [['Y']])]]).observe 1 =
    (World.run true World.init [.newLas, .newLas]).observe 1 := by decide

end Lasio

#print axioms Lasio.C10_classify
#print axioms Lasio.C10_encoding_choice
#print axioms Lasio.C10_deliver
#print axioms Lasio.C10_channels
#print axioms Lasio.C10_univNL
#print axioms Lasio.C10_default_items_fresh
#print axioms Lasio.C10_wf_run
#print axioms Lasio.C10_noninterference
#print axioms Lasio.C10_pure
#print axioms Lasio.C10_shared_defaults_interfere
#print axioms Lasio.C10_channels_needs_noLoneCR
