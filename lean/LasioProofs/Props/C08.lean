import LasioProofs.Lemmas.NumLitLemmas
/-
C08 — A ~Version/~Well/~Parameter value is turned into a number exactly when its text is a plain decimal literal
(optional sign, digits, optional fraction using '.' or ',' as the mark, optional exponent) denoting a finite value:
integer literals that fit 64 bits become integers, the others floats, each numerically equal to the literal.  Every
other text is kept verbatim as a string; API / UWI (any case) outside ~Parameter are kept verbatim; ~Curves API codes
are never converted.

Model: LasioModel/NumLit.lean (`num`, `commaSub`, `isPlainDec`, `metadataValue`, `paramsValue`, `curvesValue`).
Specification (LasioProofs/Lemmas/NumLitLemmas.lean): `PlainDec` (grammar as rendering of a syntax tree `Lit` with
side conditions `Lit.WF`), `Lit.denote` (sign, mantissa, power of ten, positional value `decVal`), `FiniteDec`.

Vocabulary (same file):  litText s = strip (commaSub s)  — the text the guard looks at;
  PadOK s = (numStrip (commaSub s) = litText s);   Int64 v = (-2^63 ≤ v ≤ 2^63-1);
  IsInt64Lit l = (no '.', no exponent, at most 4300 digits, Int64 (sign · decVal digits));
  FiniteDec m e = (m · 10^e < 2^1024 − 2^970, scaled to naturals);  tripleQ / Lit.valueQ — values in ℚ.

Two hypotheses are forced by the code and shown necessary below:
 * `PadOK s`   — the white space around the literal contains none of U+001C..U+001F (`str.strip` removes them, `int()` and
                 `float()` refuse them: such a text stays a string);
 * `≤ 4300 digits` for the integer case — CPython's `int()` refuses longer digit strings (sys.get_int_max_str_digits()),
                 such an integer literal falls through to `float()` and comes back as a float even when its value fits 64 bits.
-/
namespace Lasio

/-! ### recogniser = grammar -/

theorem C08_isPlainDec_iff (s : Str) : isPlainDec s = true ↔ PlainDec s := isPlainDec_iff s

/-- the grammar is unambiguous, so "the" denotation of a literal text is well defined -/
theorem C08_parse_unique {l₁ l₂ : Lit} (h₁ : l₁.WF) (h₂ : l₂.WF) (h : l₁.render = l₂.render) : l₁ = l₂ :=
  render_injective h₁ h₂ h

/-! ### `num` -/

/-- a text that is not a plain decimal literal (after the comma substitution and `strip`) is kept verbatim -/
theorem C08_verbatim (s : Str) (h : ¬ PlainDec (litText s)) : num s = .str s := by
  have : parseDec (litText s) = none := by
    cases hp : parseDec (litText s) with
    | none => rfl
    | some l => exact absurd ((isPlainDec_iff _).mp (by simp [isPlainDec, hp])) h
  unfold num
  simp only [litText] at this
  simp only [this]

/-- U+001C..U+001F in the white space around the text: kept verbatim (`int()` and `float()` raise ValueError) -/
theorem C08_pad_verbatim (s : Str) (h : ¬ PadOK s) : num s = .str s := by
  by_cases hp : PlainDec (litText s)
  · obtain ⟨l, hw, hr⟩ := (plainDec_iff_exists _).mp hp
    rw [num_of_lit hw hr, if_pos h]
  · exact C08_verbatim s hp

/-- general form of the integer clause, on the syntax tree -/
theorem C08_int_lit (s : Str) (l : Lit) (hw : l.WF) (hr : l.render = litText s) (hpad : PadOK s)
    (hint : IsInt64Lit l) : num s = .int (l.sign.toInt * (decVal l.ip : Int)) := by
  rw [num_of_lit hw hr, if_neg (not_not.mpr hpad), if_pos ((intCond_iff l).mpr hint)]
  simp [Lit.intVal, sign_apply_eq, digitsVal_eq_decVal]

/-- an integer literal `sign? digits+` (at most 4300 digits) whose value fits int64 becomes that integer -/
theorem C08_int (s : Str) (sg : Sign) (ds : Str) (hlit : litText s = sg.str ++ ds) (hne : ds ≠ []) (hd : AllDig ds)
    (hpad : PadOK s) (hlen : ds.length ≤ 4300) (hrange : Int64 (sg.toInt * (decVal ds : Int))) :
    num s = .int (sg.toInt * (decVal ds : Int)) := by
  have hw : (⟨sg, ds, false, [], none⟩ : Lit).WF :=
    ⟨hd, AllDig.nil, fun _ => rfl, Or.inl hne, (by intro c sg ds h; cases h)⟩
  have hr : (⟨sg, ds, false, [], none⟩ : Lit).render = litText s := by
    rw [hlit]; simp [Lit.render, expStr]
  exact C08_int_lit s _ hw hr hpad ⟨rfl, rfl, hlen, hrange⟩

/-- every other finite plain literal becomes a float whose exact decimal value is the literal's denotation -/
theorem C08_float (s : Str) (l : Lit) (hw : l.WF) (hr : l.render = litText s) (hpad : PadOK s)
    (hnotint : ¬ IsInt64Lit l) (hfin : FiniteDec l.denote.2.1 l.denote.2.2) :
    num s = .flt l.denote.1 l.denote.2.1 l.denote.2.2 := by
  rw [num_of_lit hw hr, if_neg (not_not.mpr hpad), if_neg (fun h => hnotint ((intCond_iff l).mp h)),
    if_pos ((finite_iff l hw).mpr hfin), ← model_value_eq_denote]

/-- a plain literal whose value does not round to a finite binary64 (|value| ≥ 2^1024 − 2^970) is kept verbatim -/
theorem C08_nonfinite_verbatim (s : Str) (l : Lit) (hw : l.WF) (hr : l.render = litText s)
    (hinf : ¬ FiniteDec l.denote.2.1 l.denote.2.2) : num s = .str s := by
  rw [num_of_lit hw hr]
  have hnotint : ¬ IsInt64Lit l := fun h => hinf (int64Lit_finite l hw h)
  rw [if_neg (fun h => hnotint ((intCond_iff l).mp h)), if_neg (fun h => hinf ((finite_iff l hw).mp h))]
  simp

/-- when `num` answers a string, it is the argument itself -/
theorem C08_str_is_verbatim (s u : Str) (h : num s = .str u) : u = s := by
  by_cases hp : PlainDec (litText s)
  · obtain ⟨l, hw, hr⟩ := (plainDec_iff_exists _).mp hp
    rw [num_of_lit hw hr] at h
    split at h
    · cases h; rfl
    · split at h
      · cases h
      · split at h
        · cases h
        · cases h; rfl
  · rw [C08_verbatim s hp] at h; cases h; rfl

/-- "turned into a number exactly when": `num` answers a number iff the text is a plain literal (after the comma
substitution and `strip`), `int()`/`float()` accept its padding, and its value is finite in binary64 -/
theorem C08_number_iff (s : Str) :
    (∀ u, num s ≠ .str u) ↔
      ∃ l : Lit, l.WF ∧ l.render = litText s ∧ PadOK s ∧ FiniteDec l.denote.2.1 l.denote.2.2 := by
  constructor
  · intro h
    by_cases hp : PlainDec (litText s)
    · obtain ⟨l, hw, hr⟩ := (plainDec_iff_exists _).mp hp
      by_cases hpad : PadOK s
      · by_cases hfin : FiniteDec l.denote.2.1 l.denote.2.2
        · exact ⟨l, hw, hr, hpad, hfin⟩
        · exact absurd (C08_nonfinite_verbatim s l hw hr hfin) (h s)
      · exact absurd (C08_pad_verbatim s hpad) (h s)
    · exact absurd (C08_verbatim s hp) (h s)
  · rintro ⟨l, hw, hr, hpad, hfin⟩ u
    by_cases hint : IsInt64Lit l
    · rw [C08_int_lit s l hw hr hpad hint]; intro h; cases h
    · rw [C08_float s l hw hr hpad hint hfin]; intro h; cases h

/-- the float's (sign, mantissa, power of ten) IS the literal's value as a rational number: nothing is lost before the
(trusted, correctly rounded) decimal-to-binary conversion -/
theorem C08_denote_exact (l : Lit) : tripleQ l.denote = l.valueQ := denote_valueQ l

/-- no U+001C..U+001F anywhere in the text is enough for `PadOK` -/
theorem C08_padOK_of_no_separators (s : Str) (h : ∀ c ∈ s, ¬ (0x1C ≤ c.toNat ∧ c.toNat ≤ 0x1F)) : PadOK s :=
  padOK_of_no_separators s h

/-! ### necessity of the two hypotheses -/

/-- `PadOK` is necessary: ' 5' followed by U+001F is a literal after `strip`, yet stays a string -/
theorem C08_padOK_necessary : num [' ', '5', Char.ofNat 0x1F] = .str [' ', '5', Char.ofNat 0x1F] := by decide

/-- the 4300-digit bound is necessary: 4301 or more zeros denote 0, which fits 64 bits, yet the result is the float
0·10^0 (CPython `int()` raises ValueError beyond `sys.get_int_max_str_digits()` digits, `float()` then succeeds) -/
theorem C08_digit_limit_necessary (n : Nat) (h : 4300 < n) : num (List.replicate n '0') = .flt false 0 0 := by
  obtain ⟨k, rfl⟩ : ∃ k, n = k + 1 := ⟨n - 1, by omega⟩
  have hw : (⟨.none, List.replicate (k + 1) '0', false, [], none⟩ : Lit).WF :=
    ⟨allDig_zeros _, AllDig.nil, fun _ => rfl, Or.inl (by simp), (by intro c sg ds h; cases h)⟩
  have hr : (⟨.none, List.replicate (k + 1) '0', false, [], none⟩ : Lit).render = litText (List.replicate (k + 1) '0') := by
    rw [litText_zeros]; simp [Lit.render, expStr, Sign.str]
  have hd : (⟨.none, List.replicate (k + 1) '0', false, [], none⟩ : Lit).denote = (false, 0, 0) := by
    simp [Lit.denote, Lit.writtenExp, decVal_zeros]
  have := C08_float _ _ hw hr (padOK_zeros _)
    (by intro hi; have := hi.2.2.1; simp at this; omega)
    (by rw [hd]; unfold FiniteDec; decide +kernel)
  rw [hd] at this
  exact this

/-- ... and tight: up to 4300 zeros give the integer 0 -/
theorem C08_digit_limit_tight (n : Nat) (h0 : 0 < n) (h : n ≤ 4300) : num (List.replicate n '0') = .int 0 := by
  obtain ⟨k, rfl⟩ : ∃ k, n = k + 1 := ⟨n - 1, by omega⟩
  have := C08_int (List.replicate (k + 1) '0') .none (List.replicate (k + 1) '0')
    (by rw [litText_zeros]; rfl) (by simp) (allDig_zeros _) (padOK_zeros _) (by simpa using h)
    (by rw [decVal_zeros]; decide)
  rw [decVal_zeros] at this
  simpa using this

/-! ### the three item constructors -/

/-- API / UWI (any case; the table is regenerated from `number_strings` in reader.py) outside ~Parameter: verbatim -/
theorem C08_api_uwi (name v : Str) (h : upper name ∈ Generated.numberStrings.map String.toList) :
    metadataValue name v = .str v := by
  unfold metadataValue isNumberString
  rw [if_pos (List.contains_iff_mem.mpr h)]

theorem C08_api_uwi_names (name v : Str) (h : upper name = "API".toList ∨ upper name = "UWI".toList) :
    metadataValue name v = .str v := by
  apply C08_api_uwi
  rcases h with h | h <;> rw [h] <;> decide

theorem C08_metadata_other (name v : Str) (h : upper name ∉ Generated.numberStrings.map String.toList) :
    metadataValue name v = num v := by
  unfold metadataValue isNumberString
  rw [if_neg (fun hc => h (List.contains_iff_mem.mp hc))]

/-- ~Parameter values always go through `num` (API / UWI included) -/
theorem C08_params (v : Str) : paramsValue v = num v := rfl

/-- ~Curves API codes are never converted -/
theorem C08_curves_never (v : Str) : curvesValue v = .str v := rfl

theorem C08_items (df : Bool) (name unit value descr : Str) :
    (metadataItem df name unit value descr).value = metadataValue name (if df then descr else value) ∧
    (paramsItem name unit value descr).value = num value ∧
    (curvesItem name unit value descr).value = .str value := ⟨rfl, rfl, rfl⟩

/-! ### the comma substitution -/

/-- a comma is replaced only where it stands between two digits (and then by '.'); every other character is kept -/
theorem C08_comma_only_between_digits (s : Str) (i : Nat) :
    (commaSub s)[i]? = s[i]? ∨
    ∃ j d1 d2, i = j + 1 ∧ s[j]? = some d1 ∧ isUniDigit d1 = true ∧ s[j + 1]? = some ',' ∧ s[j + 2]? = some d2 ∧
      isUniDigit d2 = true ∧ (commaSub s)[j + 1]? = some '.' :=
  commaSubWith_pointwise isUniDigit s i

/-- a text with a single comma: the comma becomes '.' exactly when it stands between two digits -/
theorem C08_comma (a b : Str) (ha : ',' ∉ a) (hb : ',' ∉ b) :
    commaSub (a ++ ',' :: b) =
      if (a.getLast?.any isUniDigit && b.head?.any isUniDigit) = true then a ++ '.' :: b else a ++ ',' :: b :=
  commaSubWith_single isUniDigit a b ha hb

theorem C08_comma_length (s : Str) : (commaSub s).length = s.length := commaSubWith_length _ s

theorem C08_comma_none (s : Str) (h : ',' ∉ s) : commaSub s = s := commaSubWith_no_comma _ s h

/-- the digit class of the substitution is Unicode `\d` (the pattern is not compiled with re.ASCII); on texts below
U+0660 — all of ASCII and Latin-1 — it is `[0-9]` -/
theorem C08_comma_ascii (s : Str) (h : ∀ c ∈ s, c.toNat < 0x660) : commaSub s = commaSubWith isDigit s :=
  commaSubWith_congr _ _ s (fun c hc => isUniDigit_ascii c (h c hc))

/-- matches do not overlap: in `1,5,6` only the first comma is replaced (so the text is not a literal and stays a string) -/
theorem C08_comma_non_overlapping : commaSub "1,5,6".toList = "1.5,6".toList ∧ num "1,5,6".toList = .str "1,5,6".toList := by
  decide

/-! ### concrete values -/

theorem C08_examples :
    num "15_9".toList = .str "15_9".toList ∧
    num "12-34-12-34W5M".toList = .str "12-34-12-34W5M".toList ∧
    num "inf".toList = .str "inf".toList ∧ num "nan".toList = .str "nan".toList ∧
    num "0x10".toList = .str "0x10".toList ∧ num [] = .str [] ∧
    num "2001-05-13".toList = .str "2001-05-13".toList ∧ num "12:30".toList = .str "12:30".toList ∧
    num "007".toList = .int 7 ∧ num "+5".toList = .int 5 ∧ num " -12 ".toList = .int (-12) ∧
    num "1,5".toList = .flt false 15 (-1) ∧ num "5.".toList = .flt false 5 0 ∧ num ".5".toList = .flt false 5 (-1) ∧
    num "1e5".toList = .flt false 1 5 ∧ num "-.5e-3".toList = .flt true 5 (-4) ∧
    num ",5".toList = .str ",5".toList ∧ num "5,".toList = .str "5,".toList ∧
    num "9223372036854775807".toList = .int 9223372036854775807 ∧
    num "9223372036854775808".toList = .flt false 9223372036854775808 0 ∧
    num "-9223372036854775808".toList = .int (-9223372036854775808) := by decide

set_option exponentiation.threshold 400 in
/-- the overflow boundary: 1.797693134862315807e308 < 2^1024 − 2^970 < 1.797693134862315808e308 -/
theorem C08_overflow_boundary :
    num "1.797693134862315807e308".toList = .flt false 1797693134862315807 290 ∧
    num "1.797693134862315808e308".toList = .str "1.797693134862315808e308".toList ∧
    num "1e309".toList = .str "1e309".toList ∧ num "1e-400".toList = .flt false 1 (-400) := by decide +kernel

theorem C08_item_examples :
    metadataValue "API".toList "0012345".toList = .str "0012345".toList ∧
    metadataValue "uwi".toList "007".toList = .str "007".toList ∧
    metadataValue "Api".toList "1e5".toList = .str "1e5".toList ∧
    metadataValue "APIX".toList "007".toList = .int 7 ∧
    paramsValue "007".toList = .int 7 ∧
    (paramsItem "API".toList [] "007".toList []).value = .int 7 ∧
    curvesValue "007".toList = .str "007".toList := by decide

/-! ### non-vacuity -/

/-- the hypotheses of `C08_int` and `C08_float` are satisfiable -/
example : num "-42".toList = .int (-42) :=
  C08_int "-42".toList .minus "42".toList (by decide) (by decide) (by decide) (by decide) (by decide) (by decide)

example : ∃ l : Lit, l.WF ∧ l.render = litText "1,5e3".toList ∧ PadOK "1,5e3".toList ∧ ¬ IsInt64Lit l ∧
    FiniteDec l.denote.2.1 l.denote.2.2 ∧ num "1,5e3".toList = .flt false 15 2 := by
  refine ⟨⟨.none, ['1'], true, ['5'], some ('e', .none, ['3'])⟩, ?_, by decide, by decide, ?_, ?_, by decide⟩
  · refine ⟨by decide, by decide, by decide, by decide, ?_⟩
    intro c sg ds h; cases h; decide
  · intro h; exact absurd h.1 (by decide)
  · unfold FiniteDec; decide +kernel

end Lasio

#print axioms Lasio.C08_isPlainDec_iff
#print axioms Lasio.C08_parse_unique
#print axioms Lasio.C08_verbatim
#print axioms Lasio.C08_pad_verbatim
#print axioms Lasio.C08_int_lit
#print axioms Lasio.C08_int
#print axioms Lasio.C08_float
#print axioms Lasio.C08_nonfinite_verbatim
#print axioms Lasio.C08_str_is_verbatim
#print axioms Lasio.C08_number_iff
#print axioms Lasio.C08_denote_exact
#print axioms Lasio.C08_padOK_of_no_separators
#print axioms Lasio.C08_padOK_necessary
#print axioms Lasio.C08_digit_limit_necessary
#print axioms Lasio.C08_digit_limit_tight
#print axioms Lasio.C08_api_uwi
#print axioms Lasio.C08_api_uwi_names
#print axioms Lasio.C08_metadata_other
#print axioms Lasio.C08_params
#print axioms Lasio.C08_curves_never
#print axioms Lasio.C08_items
#print axioms Lasio.C08_comma_only_between_digits
#print axioms Lasio.C08_comma
#print axioms Lasio.C08_comma_length
#print axioms Lasio.C08_comma_none
#print axioms Lasio.C08_comma_ascii
#print axioms Lasio.C08_comma_non_overlapping
#print axioms Lasio.C08_examples
#print axioms Lasio.C08_overflow_boundary
#print axioms Lasio.C08_item_examples
