import Mathlib.Data.List.Forall2
import Mathlib.Logic.Function.Iterate
import LasioModel.WriteObj
import LasioProofs.Props.C01
import LasioProofs.Props.C03
import LasioProofs.Props.C13
import LasioProofs.Props.C16
/-
C11 — lasio's own output is a fixed point of read -> write.

What is PROVED here (writer side + one header line; all over every input of the stated shape):
* `C11_fmt_idem`, `C11_reprint_iterate`, `C11_fmt_stable`   printing the decimal of a printed `%.Nf` token — or any binary64 lying
  within half a unit of its last digit, in particular the double `strtod` returns for it — reproduces the token, any number of
  times: no accumulating precision loss in curve data or in STRT/STOP/STEP;
* `C11_standardize_idem`, `C11_standardize_idem_typed`, `C11_standardize_reread`   the header normalisations are idempotent and
  never touch a value that was read back from a file unless it is the empty string on an item with a unit;
* `C11_suffix_stable`   session mnemonics are a function of the list of original mnemonics: a section rebuilt by appending
  the same originals in the same order gets the same session names (no growing suffixes);
* `C11_item_fixed_point`, `C11_item_fixed_point_text`   a conformant header line written, read, written again and read again gives
  the same mnemonic, unit and description (and the same value when the value is kept as text): no field migrates;
* `C11_write_idempotent`   writing the same object again gives the same text (re-export of `C16_idempotent`).

What is proved in Props/C11File.lean: the whole-file HEADER fixed point (C11_file_fixed_point, C11_file_iterate).
What is NOT proved: the statement over whole files including the data section and the refresh of STRT/STOP/STEP ("for any input that lasio can read and then write").  There is no
whole-file reader model composed with `strtod`, `num()` and `str()` of the re-read numbers; non-conformant lines (the property's
"odd units", blank mnemonics, colons) are outside `C03_item`.  That part is covered by the oracle and the correspondence of
harness/props/c11.py only.
-/
namespace Lasio.C11
open Lasio Lasio.Dw Lasio.Wr

/-! ## numbers: no accumulating precision loss -/

/-- **Re-printing the printed decimal reproduces the digits** (re-export of `C01_fmt_idem`). -/
theorem C11_fmt_idem (N : Nat) (neg : Bool) (m : Nat) (e : Int) :
    ∃ a, decOfTokS (fmtFixed N (.finite neg m e)) = some (neg, a, N) ∧
      fmtFixedDec N neg a N = fmtFixed N (.finite neg m e) :=
  C01_fmt_idem N neg m e

/-- one load/save of a token at precision `N` on the exact decimal it denotes (tokens that are not plain decimals — `nan`,
`inf` — are kept as they are) -/
def reprint (N : Nat) (tok : Str) : Str :=
  match decOfTokS tok with
  | some (neg, a, k) => fmtFixedDec N neg a k
  | none => tok

theorem decOfTokS_special : decOfTokS ['n', 'a', 'n'] = none ∧ decOfTokS ['i', 'n', 'f'] = none ∧
    decOfTokS ['-', 'i', 'n', 'f'] = none := by decide

/-- a printed token is a fixed point of `reprint`, whatever the sample was (NaN and infinities included) -/
theorem C11_reprint_fixed (N : Nat) (x : F64) : reprint N (fmtFixed N x) = fmtFixed N x := by
  cases x with
  | nan => simp [reprint, fmtFixed, decOfTokS_special.1]
  | inf neg => cases neg <;> simp [reprint, fmtFixed, decOfTokS_special]
  | finite neg m e =>
    obtain ⟨a, h1, h2⟩ := C01_fmt_idem N neg m e
    simp [reprint, h1, h2]

/-- **Nothing accumulates**: after the first print, any number `k` of further cycles leaves the token as it is. -/
theorem C11_reprint_iterate (N : Nat) (x : F64) (k : Nat) : (reprint N)^[k] (fmtFixed N x) = fmtFixed N x := by
  induction k with
  | zero => rfl
  | succ k ih => rw [Function.iterate_succ_apply', ih, C11_reprint_fixed]

/-- **Stability under `strtod`**: ANY binary64 `y = sgn · m' · 2^e'` strictly within half a unit of the last digit of the decimal
`q / 10^N` prints as that decimal (re-export of `C01_fmt_stable`). -/
theorem C11_fmt_stable (N : Nat) (neg : Bool) (m' : Nat) (e' : Int) (q : Nat)
    (h : 2 * ((q : Int) * 2 ^ (-e').toNat - m' * 2 ^ e'.toNat * 10 ^ N).natAbs < 2 ^ (-e').toNat) :
    fmtFixed N (.finite neg m' e') = (if neg then ['-'] else []) ++ fixedDigits N q :=
  C01_fmt_stable N neg m' e' q h

/-! ## header normalisation -/

/-- `standardize_value` is idempotent (re-export of `C03_standardize_idem`) -/
theorem C11_standardize_idem (v : WVal) (u : Str) (hwf : v.WF) :
    standardizeValue (standardizeValue v u) u = standardizeValue v u :=
  C03_standardize_idem v u hwf

/-- ... and so is its typed form, for every Python value the model distinguishes (no hypothesis) -/
theorem C11_standardize_idem_typed (v : Wo.PVal) (u : Str) : Wo.stdP (Wo.stdP v u) u = Wo.stdP v u :=
  Wo.stdP_idem v u

/-- a value read back from a file is a number or a string, never `None`: the normalisation leaves it alone unless it is
the empty string on an item that has a unit (then it is written as `0`, which reads back as the number 0: a fixed point
from the first re-read on) -/
theorem C11_standardize_reread (v : Wo.PVal) (u : Str) (hv : v ≠ .none) (h : v ≠ .str [] ∨ u = []) : Wo.stdP v u = v := by
  cases v with
  | none => exact absurd rfl hv
  | num x t => exact Wo.stdP_num x t u
  | str s =>
    rcases h with h | h
    · exact Wo.stdP_str_ne s u (fun hs => h (by rw [hs]))
    · subst h
      cases s <;> simp [Wo.stdP, Wo.PVal.falsy]

/-! ## session mnemonics: no growing suffixes -/

/-- two items agree on what the suffix machinery looks at -/
def SameNames (a b : Item) : Prop := a.orig = b.orig ∧ a.session = b.session

theorem renumber_sameNames (tr : Bool) (t : Str) {l1 l2 : List Item} (h : List.Forall₂ SameNames l1 l2) (k : Nat) :
    List.Forall₂ SameNames (renumber tr t l1 k) (renumber tr t l2 k) := by
  induction h generalizing k with
  | nil => exact List.Forall₂.nil
  | cons hab _ ih =>
    rename_i a b l1 l2
    obtain ⟨ho, hs⟩ := hab
    unfold renumber
    rw [ho]
    split
    · exact List.Forall₂.cons ⟨rfl, rfl⟩ (ih _)
    · exact List.Forall₂.cons ⟨ho, hs⟩ (ih _)

theorem countGroup_sameNames (tr : Bool) (t : Str) {l1 l2 : List Item} (h : List.Forall₂ SameNames l1 l2) :
    countGroup tr t l1 = countGroup tr t l2 := by
  unfold countGroup
  induction h with
  | nil => rfl
  | cons hab _ ih =>
    obtain ⟨ho, _⟩ := hab
    simp only [List.filter_cons, ho]
    split <;> simp [ih]

theorem append_sameNames {s1 s2 : Section} {a b : Item} (htr : s1.tr = s2.tr)
    (h : List.Forall₂ SameNames s1.items s2.items) (hab : SameNames a b) :
    (s1.append a).tr = (s2.append b).tr ∧ List.Forall₂ SameNames (s1.append a).items (s2.append b).items := by
  have happ : List.Forall₂ SameNames (s1.items ++ [a]) (s2.items ++ [b]) :=
    List.rel_append h (List.Forall₂.cons hab List.Forall₂.nil)
  unfold Section.append Section.assignSuffixes
  simp only
  rw [hab.1, htr, countGroup_sameNames s2.tr (useful b.orig) happ]
  split
  · exact ⟨rfl, renumber_sameNames s2.tr _ happ 0⟩
  · exact ⟨rfl, happ⟩

/-- a section rebuilt by appending items one after the other, as the reader does -/
def rebuild (s : Section) (l : List Item) : Section := l.foldl Section.append s

theorem rebuild_sameNames {s1 s2 : Section} {l1 l2 : List Item} (htr : s1.tr = s2.tr)
    (hs : List.Forall₂ SameNames s1.items s2.items) (hl : List.Forall₂ SameNames l1 l2) :
    List.Forall₂ SameNames (rebuild s1 l1).items (rebuild s2 l2).items := by
  induction hl generalizing s1 s2 with
  | nil => exact hs
  | cons hab _ ih =>
    obtain ⟨h1, h2⟩ := append_sameNames htr hs hab
    exact ih h1 h2

/-- **Suffixes are a function of the originals.**  Two lists of freshly built items (`HeaderItem(mnemonic, ...)`: the session
name starts as the useful name) with the same original mnemonics in the same order — for instance the items of a section and
the items obtained by reading back the lines written from their ORIGINAL mnemonics — appended to an empty section give the
same session mnemonics, position by position: `:1`, `:2`, … never pile up over load/save cycles. -/
theorem C11_suffix_stable (tr : Bool) (l1 l2 : List Item)
    (h1 : ∀ it ∈ l1, it.session = useful it.orig) (h2 : ∀ it ∈ l2, it.session = useful it.orig)
    (ho : l1.map (·.orig) = l2.map (·.orig)) :
    (rebuild ⟨[], tr⟩ l1).keys = (rebuild ⟨[], tr⟩ l2).keys ∧ (rebuild ⟨[], tr⟩ l1).origs = (rebuild ⟨[], tr⟩ l2).origs := by
  have hl : List.Forall₂ SameNames l1 l2 := by
    induction l1 generalizing l2 with
    | nil =>
      cases l2 with
      | nil => exact List.Forall₂.nil
      | cons b l2 => simp at ho
    | cons a l1 ih =>
      cases l2 with
      | nil => simp at ho
      | cons b l2 =>
        simp only [List.map_cons, List.cons.injEq] at ho
        refine List.Forall₂.cons ⟨ho.1, ?_⟩ (ih l2 (fun it h => h1 it (by simp [h])) (fun it h => h2 it (by simp [h])) ho.2)
        rw [h1 a (by simp), h2 b (by simp), ho.1]
  have := rebuild_sameNames (s1 := ⟨[], tr⟩) (s2 := ⟨[], tr⟩) rfl List.Forall₂.nil hl
  unfold Section.keys Section.origs
  generalize (rebuild ⟨[], tr⟩ l1).items = x at this
  generalize (rebuild ⟨[], tr⟩ l2).items = y at this
  induction this with
  | nil => exact ⟨rfl, rfl⟩
  | cons hab _ ih => simp [hab.1, hab.2, ih.1, ih.2]

/-- the rebuilt section satisfies the suffix invariant of C13 (`Inv`: suffixed names within a group are `:k` with strictly
increasing `k`) -/
theorem C11_suffix_inv (tr : Bool) (l : List Item) (h : ∀ it ∈ l, SuffixForm it) : Inv (rebuild ⟨[], tr⟩ l) := by
  have gen : ∀ (s : Section), Inv s → Inv (rebuild s l) := by
    induction l with
    | nil => intro s hs; exact hs
    | cons a l ih =>
      intro s hs
      exact ih (fun it hit => h it (by simp [hit])) (s.append a) (C13_inv_append s a (h a (by simp)) hs)
  exact gen _ (C13_inv_empty tr)

/-! ## one header line: no field migrates -/

theorem lowerC_idem (c : Char) : lowerC (lowerC c) = lowerC c := by
  have fix : ∀ d : Char, ¬ InUpper d.toNat → ¬ (0x400 ≤ d.toNat ∧ d.toNat ≤ 0x40F) → lowerC d = d := by
    intro d h1 h2
    rcases lowerC_cases d with ⟨h, _⟩ | ⟨h, _⟩ | h
    · exact absurd h h1
    · exact absurd h h2
    · exact h
  rcases lowerC_cases c with ⟨h, e⟩ | ⟨h, e⟩ | e
  · rw [e]
    unfold InUpper at h
    apply fix <;> rw [toNat_ofNat_small _ (by omega)] <;> (try unfold InUpper) <;> omega
  · rw [e]
    apply fix <;> rw [toNat_ofNat_small _ (by omega)] <;> (try unfold InUpper) <;> omega
  · rw [e, e]

theorem caseMap_idem (c : MCase) (m : Str) : caseMap c (caseMap c m) = caseMap c m := by
  cases c
  · rfl
  · exact upper_idem m
  · simp [caseMap, lower, List.map_map, Function.comp_def, lowerC_idem]

/-- **Second re-read = first re-read, one line.**  `it` is a conformant item written as version `v`; `r1` is what the reader
returns for its line (`C03_item`).  `it2` is ANY item carrying r1's mnemonic, unit and description (its value is whatever
`num()` made of the text, printed by `str()`), still conformant, written again: its line reads back with the same
mnemonic, unit and description as `r1` — nothing migrates between the fields — and with `it2`'s value text. -/
theorem C11_item_fixed_point (v : String) (kind : SecName) (c : MCase) (o o2 : Order) (W W2 : Widths) (it it2 : WItem)
    (hkind : kind ≠ .other)
    (hw : orderOf v (secKey kind) it.orig = .ok o) (hconf : TextConf kind it)
    (hpad : 1 ≤ W.middle - it.unit.length - (rhsOf o it).length)
    (hname : it2.orig = caseMap c it.orig) (hunit : it2.unit = it.unit) (hdescr : it2.descr = it.descr)
    (hw2 : orderOf v (secKey kind) it2.orig = .ok o2) (hconf2 : TextConf kind it2)
    (hpad2 : 1 ≤ W2.middle - it2.unit.length - (rhsOf o2 it2).length) :
    ∃ r1 r2, readItem v kind c (formatItem o W it) = some r1 ∧ readItem v kind c (formatItem o2 W2 it2) = some r2 ∧
      r2.name = r1.name ∧ r2.unit = r1.unit ∧ r2.descr = r1.descr ∧ r2.value = it2.value.text := by
  refine ⟨expected c it, expected c it2, C03_item v kind c o W it hkind hw hconf hpad,
    C03_item v kind c o2 W2 it2 hkind hw2 hconf2 hpad2, ?_, ?_, ?_, rfl⟩
  · simp [expected, hname, caseMap_idem]
  · simp [expected, hunit]
  · simp [expected, hdescr]

/-- ... and when the value is kept as text (`it2.value.text = it.value.text`: strings, and numbers whose `str()` is their
spelling in the file) the two re-reads are the same item. -/
theorem C11_item_fixed_point_text (v : String) (kind : SecName) (c : MCase) (o o2 : Order) (W W2 : Widths) (it it2 : WItem)
    (hkind : kind ≠ .other)
    (hw : orderOf v (secKey kind) it.orig = .ok o) (hconf : TextConf kind it)
    (hpad : 1 ≤ W.middle - it.unit.length - (rhsOf o it).length)
    (hname : it2.orig = caseMap c it.orig) (hunit : it2.unit = it.unit) (hdescr : it2.descr = it.descr)
    (hval : it2.value.text = it.value.text)
    (hw2 : orderOf v (secKey kind) it2.orig = .ok o2) (hconf2 : TextConf kind it2)
    (hpad2 : 1 ≤ W2.middle - it2.unit.length - (rhsOf o2 it2).length) :
    readItem v kind c (formatItem o2 W2 it2) = readItem v kind c (formatItem o W it) := by
  rw [C03_item v kind c o W it hkind hw hconf hpad, C03_item v kind c o2 W2 it2 hkind hw2 hconf2 hpad2]
  simp [expected, hname, hunit, hdescr, hval, caseMap_idem]

/-- the hypothesis "still conformant" is needed: the unit `.1IN` (leading period, outside `TextConf.unit_first`) written
tight against a mnemonic that fills its column reads back as mnemonic `DEPT.` with unit `1IN` in ~Curves -/
theorem C11_counterexample_unit_leading_period :
    readItem "2.0" .curves .upper (formatItem .valueDescr ⟨4, 5⟩ ⟨"DEPT".toList, "DEPT".toList, ".1IN".toList, .str [], []⟩) =
      some ⟨"DEPT.".toList, "1IN".toList, [], []⟩ := by
  decide

/-! ## the write itself -/

/-- writing the object a second time with the same options: same text, same object (re-export of `C16_idempotent`) -/
theorem C11_write_idempotent {cfg : Wo.WriteCfg} {sd : Option Wo.F64} {o : Wo.WObj} {t1 : List Str} {o1 : Wo.WObj}
    (hwrap : ∀ w, cfg.wrap = some w → Wo.WrapOK o.versionTr o.version)
    (h : Wo.writeObj cfg sd o = .ok (t1, o1)) : Wo.writeObj cfg sd o1 = .ok (t1, o1) :=
  Wo.C16_idempotent hwrap h

/-! ## non-vacuity -/

example : reprint 2 (fmtFixed 2 F64.pi) = "3.14".toList := by decide
example : (reprint 5)^[3] (fmtFixed 5 (.finite true 1 (-3))) = "-0.12500".toList := by decide
example : (rebuild ⟨[], true⟩ [mkItem "A".toList [] [] [], mkItem "B".toList [] [] [], mkItem "a".toList [] [] []]).keys =
    ["A:1".toList, "B".toList, "a:2".toList] := by decide

end Lasio.C11

#print axioms Lasio.C11.C11_fmt_idem
#print axioms Lasio.C11.C11_reprint_iterate
#print axioms Lasio.C11.C11_fmt_stable
#print axioms Lasio.C11.C11_standardize_idem
#print axioms Lasio.C11.C11_standardize_reread
#print axioms Lasio.C11.C11_suffix_stable
#print axioms Lasio.C11.C11_suffix_inv
#print axioms Lasio.C11.C11_item_fixed_point
#print axioms Lasio.C11.C11_item_fixed_point_text
#print axioms Lasio.C11.C11_write_idempotent
