import LasioModel.Curves
import LasioProofs.Props.C13
import LasioProofs.Lemmas.CurvesLemmas
/-
C14 — a LASFile's curves behave like an ordered list of (name, metadata, 1-D array).

Model: `LasioModel/Curves.lean` (`LasCurves` = the `~Curves` `Section` of C13 + one array per curve; `step` =
the real methods of las.py, partial mutations on failure included).  Specification: `SpecCurves`, a plain list
of (original name, unit, value, descr, array) with ordinary list surgery (`specStep`); a mnemonic argument is
resolved in the table of current session names (`keys.index(m)`), nothing else of the session-name machinery is
visible to the specification.

Well-formedness `WF` (one array per curve) is an invariant of every operation (`C14_wf_step`) and holds for a fresh
LASFile; it is the only hypothesis of the refinement theorems.
-/
namespace Lasio

/-! ### 1. every operation refines the plain-list operation; well-formedness is invariant -/

theorem C14_step_spec (L : LasCurves) (h : L.WF) (op : CurveOp) :
    (L.step op).1.abs = specStep L.keys L.abs op ∧ (L.step op).1.WF := by
  have hlen := abs_length L h
  cases op with
  | appendCurve m u v d data =>
    exact appendItem_spec L h ⟨mkItem m u v d, data, true⟩ rfl
  | insertCurve ix m u v d data =>
    have := insertItem_spec L h ix ⟨mkItem m u v d, data, true⟩ rfl
    exact ⟨this.1, this.2.1⟩
  | appendItem c =>
    simp only [LasCurves.step, specStep, LasCurves.appendItem]
    cases hc : c.isCurve with
    | true =>
      have := appendItem_spec L h c hc
      exact ⟨by simpa using this.1, this.2⟩
    | false =>
      rw [insertItem_notCurve L _ c hc]
      exact ⟨by simp, h⟩
  | insertItem ix c =>
    simp only [LasCurves.step, specStep]
    cases hc : c.isCurve with
    | true =>
      have := insertItem_spec L h ix c hc
      exact ⟨by simpa using this.1, this.2.1⟩
    | false =>
      rw [insertItem_notCurve L _ c hc]
      exact ⟨by simp, h⟩
  | replaceItem ix c => exact replaceItem_spec L h ix c
  | deleteIx ix => exact deleteIx_spec L h ix
  | deleteMnem m =>
    simp only [LasCurves.step, specStep, LasCurves.deleteMnem]
    cases hk : keyIndex L.keys m with
    | none => exact ⟨rfl, h⟩
    | some j =>
      have hj : j < L.sec.items.length := by rw [← keys_length]; exact keyIndex_lt hk
      have := deleteIx_spec L h (Int.ofNat j)
      unfold specDelete at this
      rw [hlen, pyIndex_ofNat _ _ hj] at this
      exact this
  | updateIx ix data u d v => exact updateIx_spec L h ix data u d v
  | updateMnem m data u d v =>
    simp only [LasCurves.step, specStep, LasCurves.updateMnem]
    cases hk : keyIndex L.keys m with
    | none => exact ⟨rfl, h⟩
    | some j => exact updateIx_spec L h (Int.ofNat j) data u d v
  | setItemCurve key it data =>
    simp only [LasCurves.step, specStep, LasCurves.setItemCurve]
    by_cases hkey : (key != it.session) = true
    · simp only [hkey, if_true]
      exact ⟨by first | rfl | trivial, h⟩
    · simp only [hkey, Bool.false_eq_true, if_false]
      cases hk : keyIndex L.keys key with
      | none =>
        simp only [LasCurves.appendItem]
        exact appendItem_spec L h ⟨it, data, true⟩ rfl
      | some j =>
        have hj : j < L.abs.length := by rw [hlen, ← keys_length]; exact keyIndex_lt hk
        have := replaceItem_spec L h (Int.ofNat j) ⟨it, data, true⟩
        rw [specReplace_ofNat _ _ _ hj rfl] at this
        exact this
  | setItemData key data =>
    simp only [LasCurves.step, specStep, LasCurves.setItemData]
    cases hk : keyIndex L.keys key with
    | none =>
      simp only [LasCurves.appendCurve, LasCurves.insertCurve]
      exact appendItem_spec L h ⟨mkItem key [] [] [], data, true⟩ rfl
    | some j =>
      simp only [LasCurves.updateMnem, hk]
      exact updateIx_spec L h (Int.ofNat j) (some data) none none none
  | setData rows names truncate => exact setData_spec L h rows names truncate

/-- order, original names, metadata and arrays after ANY operation (successful or raising) are those of the
plain list model after the same operation -/
theorem C14_refines (L : LasCurves) (h : L.WF) (op : CurveOp) :
    (L.step op).1.abs = specStep L.keys L.abs op := (C14_step_spec L h op).1

theorem C14_wf_step (L : LasCurves) (h : L.WF) (op : CurveOp) : (L.step op).1.WF := (C14_step_spec L h op).2

theorem C14_wf_run (L : LasCurves) (h : L.WF) (ops : List CurveOp) : (L.run ops).WF := by
  induction ops generalizing L with
  | nil => exact h
  | cons op ops ih => exact ih _ (C14_wf_step L h op)

/-- all histories: the abstraction of the state reached equals the plain-list history -/
theorem C14_refines_run (L : LasCurves) (h : L.WF) (ops : List CurveOp) :
    (L.run ops).abs = specRun L L.abs ops := by
  induction ops generalizing L with
  | nil => rfl
  | cons op ops ih =>
    have e : L.run (op :: ops) = (L.step op).1.run ops := rfl
    rw [e, ih _ (C14_wf_step L h op), C14_refines L h op]
    rfl

/-- a fresh `LASFile()` -/
theorem C14_refines_run_fresh (ops : List CurveOp) :
    (LasCurves.empty.run ops).abs = specRun LasCurves.empty [] ops ∧ (LasCurves.empty.run ops).WF :=
  ⟨C14_refines_run LasCurves.empty rfl ops, C14_wf_run LasCurves.empty rfl ops⟩

/-- operations that carry no mnemonic argument do not look at the session names at all -/
theorem C14_index_ops_ignore_keys (keys keys' : List Str) (S : SpecCurves) (op : CurveOp)
    (h : match op with
      | .deleteMnem _ | .updateMnem .. | .setItemCurve .. | .setItemData .. => False
      | _ => True) : specStep keys S op = specStep keys' S op := by
  cases op <;> first | rfl | exact absurd h id

/-- `replace_curve_item(ix, c)` with `0 ≤ ix < len` is list item assignment -/
theorem C14_replace_is_set (S : SpecCurves) (keys : List Str) (j : Nat) (c : CurveArg) (hj : j < S.length)
    (hc : c.isCurve = true) :
    specStep keys S (.replaceItem (Int.ofNat j) c) = S.set j (specOf c.item c.data) :=
  specReplace_ofNat S j c hj hc

/-- … but a NEGATIVE `ix` is resolved twice, the second time against the shorter list:
`replace_curve_item(-1, c)` on `[x, y]` gives `[c, x]` (model = code, validated by the harness) -/
theorem C14_counterexample_replace_negative (x y c : SpecCurve) :
    specStep [] [x, y] (.replaceItem (-1) ⟨⟨c.orig, [], c.unit, c.value, c.descr⟩, c.data, true⟩) = [c, x] := by
  rfl

/-! ### 2. the session-name machinery is C13's: the section component evolves by `SectionItems` operations -/

theorem C14_sec_insert (L : LasCurves) (ix : Int) (m u v d : Str) (data : List Cell) :
    (L.step (.insertCurve ix m u v d data)).1.sec = L.sec.insert ix (mkItem m u v d) := rfl

theorem C14_sec_append (L : LasCurves) (m u v d : Str) (data : List Cell) :
    (L.step (.appendCurve m u v d data)).1.sec = L.sec.append (mkItem m u v d) := by
  show L.sec.insert (Int.ofNat L.sec.items.length) (mkItem m u v d) = L.sec.append (mkItem m u v d)
  unfold Section.insert Section.append
  rw [pyInsertPos_ofNat_len, insertAt_len_eq_append]

theorem C14_sec_delete (L : LasCurves) (ix : Int) :
    (L.step (.deleteIx ix)).1.sec = L.sec.step (.pop ix) := by
  show (L.deleteIx ix).1.sec = (match L.sec.pop ix with | .ok s' => s' | .error _ => L.sec)
  rw [deleteIx_eq, pop_eq]
  cases pyIndex L.sec.items.length ix <;> rfl

/-- C13's invariant transfers to the curve section (shown for the growth and deletion operations) -/
theorem C14_inv_insert_delete (L : LasCurves) (h : Inv L.sec) :
    (∀ ix m u v d data, Inv (L.step (.insertCurve ix m u v d data)).1.sec) ∧
    (∀ m u v d data, Inv (L.step (.appendCurve m u v d data)).1.sec) ∧
    (∀ ix, Inv (L.step (.deleteIx ix)).1.sec) := by
  refine ⟨?_, ?_, ?_⟩
  · intro ix m u v d data
    rw [C14_sec_insert]
    exact C13_inv_insert _ _ _ (suffixForm_mkItem m u v d) h
  · intro m u v d data
    rw [C14_sec_append]
    exact C13_inv_append _ _ (suffixForm_mkItem m u v d) h
  · intro ix
    rw [C14_sec_delete]
    exact C13_inv_step _ _ h

/-- the originals of the curve section are the names of the plain list (C13's `origs`) -/
theorem C14_originals (L : LasCurves) (h : L.WF) : L.abs.map (·.orig) = L.sec.origs := abs_map_orig L h

/-- `assign_duplicate_suffixes()` iterates over a Python `set`: any order and multiplicity of the test mnemonics
gives the same section -/
theorem C14_assignAll_order (s : Section) (ts : List Str)
    (h : ∀ t, t ∈ ts ↔ t ∈ s.items.map (fun it => useful it.orig)) : assignMany s ts = s.assignAll :=
  assignMany_set_indep s ts _ h

/-- closed form: after re-suffixing all groups, the item at position `i` carries `useful:k` (k = its rank in its
group) when its group has more than one member, and is untouched otherwise -/
theorem C14_assignAll_closed_form (s : Section) (i : Nat) :
    s.assignAll.items[i]? = (s.items[i]?).map (fun it =>
      if 1 < countGroup s.tr (useful it.orig) s.items then
        withSuffix it (countGroup s.tr (useful it.orig) (s.items.take i) + 1) else it) := by
  unfold Section.assignAll
  rw [assignMany_getElem?]
  cases hi : s.items[i]? with
  | none => rfl
  | some it =>
    simp only [Option.map_some]
    congr 1
    unfold finalItem
    have hmem : it ∈ s.items := List.mem_of_getElem? hi
    by_cases hc : 1 < countGroup s.tr (useful it.orig) s.items
    · have : suffixHit s.tr (s.items.map fun it => useful it.orig) s.items it = true := by
        unfold suffixHit
        rw [List.any_eq_true]
        refine ⟨useful it.orig, List.mem_map.mpr ⟨it, hmem, rfl⟩, ?_⟩
        simp [inGroup, cmpStr_refl, hc]
      simp [this, hc]
    · have : suffixHit s.tr (s.items.map fun it => useful it.orig) s.items it = false := by
        unfold suffixHit
        rw [Bool.eq_false_iff]
        intro hh
        rw [List.any_eq_true] at hh
        obtain ⟨t, _, ht⟩ := hh
        simp only [Bool.and_eq_true, decide_eq_true_eq] at ht
        rw [countGroup_of_inGroup s.tr t it ht.1] at ht
        exact hc ht.2
      simp [this, hc]

/-! ### 3. the views -/

theorem C14_views_keys (L : LasCurves) : L.keys = L.sec.items.map (·.session) := rfl

theorem C14_views_values (L : LasCurves) (h : L.WF) : L.values = L.abs.map (·.data) := by
  unfold LasCurves.values LasCurves.abs LasCurves.WF at *
  generalize L.sec.items = l1 at *
  generalize L.data = l2 at *
  induction l1 generalizing l2 with
  | nil => cases l2 <;> simp_all
  | cons a as ih =>
    cases l2 with
    | nil => simp at h
    | cons b bs =>
      simp only [List.length_cons, Nat.add_right_cancel_iff] at h
      simp [← ih bs h, specOf]

theorem C14_views_items (L : LasCurves) (h : L.WF) : L.itemsView = L.keys.zip (L.abs.map (·.data)) := by
  rw [← C14_views_values L h]; rfl

theorem C14_getitem_int (L : LasCurves) (h : L.WF) (i : Int) :
    L.getitem (.int i) = match pyIndex L.abs.length i with
      | some j => .ok ((L.abs.map (·.data)).getD j [])
      | none => .error .indexError := by
  unfold LasCurves.getitem
  simp only []
  rw [getitem_int, abs_length L h, ← C14_views_values L h]
  cases pyIndex L.sec.items.length i <;> rfl

/-- `las.index` is the array of the first curve -/
theorem C14_views_index (L : LasCurves) (h : L.WF) :
    L.index = match L.abs with
      | [] => .error .indexError
      | c :: _ => .ok c.data := by
  unfold LasCurves.index
  rw [C14_getitem_int L h]
  cases hl : L.abs with
  | nil => rfl
  | cons c cs => simp [pyIndex]

/-- `las[m]` for a string: `m` must literally be a session name; the curve returned is the first one whose session
name matches `m` under the section's comparison -/
theorem C14_getitem_mnemonic (L : LasCurves) (m : Str) :
    L.getitem (.str m) =
      if L.keys.contains m then
        match findFirst (fun k => cmpStr L.sec.tr k m) L.keys with
        | some j => .ok (L.data.getD j [])
        | none => .error .keyError
      else .error .keyError := by
  have hg : L.sec.getitem (.str m) = match findFirst (fun k => cmpStr L.sec.tr k m) L.keys with
      | some j => .ok j
      | none => .error .keyError := by
    unfold Section.getitem Section.find
    show _ = (match findFirst (fun k => cmpStr L.sec.tr k m) (L.sec.items.map (·.session)) with
      | some j => Except.ok j
      | none => Except.error Err.keyError : Except Err Nat)
    rw [findFirst_map]
    show (match findFirst (fun it => cmpStr L.sec.tr it.session m) L.sec.items with
      | some i => Except.ok i
      | none => Except.error Err.keyError) = _
    cases findFirst (fun it => cmpStr L.sec.tr it.session m) L.sec.items <;> rfl
  unfold LasCurves.getitem
  simp only []
  rw [hg]
  split
  · cases findFirst (fun k => cmpStr L.sec.tr k m) L.keys <;> rfl
  · rfl

/-- with `mnemonic_transforms` off, or with session names that are distinct under the section's comparison (C13's
`Distinct`, which holds under `Inv` and `NoSuffixClash`), `las[m]` is the array of the FIRST curve whose session
name equals `m` exactly, and KeyError when there is none -/
theorem C14_getitem_mnemonic_exact (L : LasCurves) (m : Str) (hd : L.sec.tr = false ∨ Distinct L.sec) :
    L.getitem (.str m) = match keyIndex L.keys m with
      | some j => .ok (L.data.getD j [])
      | none => .error .keyError := by
  rw [C14_getitem_mnemonic]
  have hd' : L.sec.tr = false ∨ L.keys.Pairwise (fun a b => cmpStr L.sec.tr a b = false) := by
    rcases hd with h | h
    · exact Or.inl h
    · exact Or.inr (by
        unfold Distinct at h
        simpa [LasCurves.keys, Section.keys, List.pairwise_map] using h)
  by_cases hm : L.keys.contains m = true
  · simp only [hm, if_true]
    rw [keyIndex_eq_findFirst_cmp _ _ _ hd' hm]
  · simp only [hm, Bool.false_eq_true, if_false]
    have : keyIndex L.keys m = none := by
      unfold keyIndex
      rw [findFirst_none_iff]
      intro k hk
      simp only [beq_eq_false_iff_ne, ne_eq]
      rintro rfl
      exact hm (by simpa using hk)
    rw [this]

/-- the hypothesis is needed: a curve section read with the default `mnemonic_case="upper"` (transforms on) holding
originals `a:2`, `A`, `A` has session names `a:2`, `A:1`, `A:2`; `las["A:2"]` passes the exact membership test and
then resolves, case-insensitively, to the FIRST curve -/
def getitemClash : LasCurves :=
  (LasCurves.run ⟨⟨[], true⟩, []⟩
    [.appendCurve "a:2".toList [] [] [] ["x".toList], .appendCurve "A".toList [] [] [] ["y".toList],
     .appendCurve "A".toList [] [] [] ["z".toList]])

theorem C14_counterexample_getitem_transforms :
    getitemClash.keys = ["a:2".toList, "A:1".toList, "A:2".toList] ∧
    keyIndex getitemClash.keys "A:2".toList = some 2 ∧
    getitemClash.getitem (.str "A:2".toList) = .ok ["x".toList] ∧
    ¬ Distinct getitemClash.sec := by
  refine ⟨by decide, by decide, by rfl, ?_⟩
  intro hd
  have h := C14_getitem_mnemonic_exact getitemClash "A:2".toList (Or.inr hd)
  have h1 : getitemClash.getitem (.str "A:2".toList) = .ok ["x".toList] := by rfl
  have h2 : keyIndex getitemClash.keys "A:2".toList = some 2 := by decide
  rw [h1, h2] at h
  simp only [] at h
  injection h with h
  revert h
  decide

/-- `las.data`: column `i` of the 2-D view is the array of curve `i`; the view has one row per sample and one
column per curve -/
theorem C14_data_column (L : LasCurves) (rows : List (List Cell)) (h : L.dataView = .ok rows) :
    (∀ i d, L.data[i]? = some d → rows.map (fun r => r.getD i []) = d) ∧
    (∀ r ∈ rows, r.length = L.data.length) ∧
    (∀ d ∈ L.data, d.length = rows.length) := by
  unfold LasCurves.dataView at h
  cases hdat : L.data with
  | nil =>
    rw [hdat] at h
    injection h with h
    subst h
    simp
  | cons d0 ds =>
    rw [hdat] at h
    simp only [] at h
    split at h
    · rename_i hall
      injection h with h
      subst h
      have hlen : ∀ d ∈ d0 :: ds, d.length = d0.length := by
        intro d hd
        rcases List.mem_cons.mp hd with rfl | hd
        · rfl
        · have := (List.all_eq_true.mp hall) d hd
          simpa using this
      refine ⟨?_, ?_, ?_⟩
      · intro i d hi
        have hd : d.length = d0.length := hlen d (List.mem_of_getElem? hi)
        have hrow : ∀ j, (List.map (fun col : List Cell => col.getD j []) (d0 :: ds)).getD i [] = d.getD j [] := by
          intro j
          rw [List.getD_eq_getElem?_getD, List.getElem?_map, hi]; rfl
        rw [List.map_map]
        apply List.ext_getElem?
        intro j
        rw [List.getElem?_map]
        by_cases hj : j < d0.length
        · rw [List.getElem?_range hj]
          simp only [Option.map_some, Function.comp]
          rw [hrow j, List.getD_eq_getElem?_getD, List.getElem?_eq_getElem (by omega)]
          rfl
        · rw [List.getElem?_eq_none (by simp; omega), List.getElem?_eq_none (by omega)]
          rfl
      · intro r hr
        simp only [List.mem_map] at hr
        obtain ⟨j, _, rfl⟩ := hr
        simp
      · intro d hd
        simp [hlen d hd]
    · simp at h

/-- … and it raises (ValueError) exactly when two arrays have different lengths; without curves it is the empty
2-D array -/
theorem C14_data_error (L : LasCurves) :
    (∃ e, L.dataView = .error e) ↔ (∃ a ∈ L.data, ∃ b ∈ L.data, a.length ≠ b.length) := by
  unfold LasCurves.dataView
  cases hdat : L.data with
  | nil =>
    constructor
    · rintro ⟨e, he⟩; cases he
    · rintro ⟨a, ha, _⟩; cases ha
  | cons d0 ds =>
    simp only []
    by_cases hall : ds.all (fun x => x.length == d0.length) = true
    · simp only [hall, if_true]
      constructor
      · rintro ⟨e, he⟩; cases he
      · rintro ⟨a, ha, b, hb, hne⟩
        · exfalso
          have hl : ∀ d ∈ d0 :: ds, d.length = d0.length := by
            intro d hd
            rcases List.mem_cons.mp hd with rfl | hd
            · rfl
            · simpa using (List.all_eq_true.mp hall) d hd
          exact hne ((hl a ha).trans (hl b hb).symm)
    · simp only [hall, Bool.false_eq_true, if_false]
      refine ⟨fun _ => ?_, fun _ => ⟨_, rfl⟩⟩
      rw [List.all_eq_true] at hall
      obtain ⟨x, hx⟩ := Classical.not_forall.mp hall
      have hx1 : x ∈ ds := Classical.byContradiction (fun hn => hx (fun hm => absurd hm hn))
      have hx2 : ¬ (x.length == d0.length) = true := fun hp => hx (fun _ => hp)
      exact ⟨x, List.mem_cons_of_mem _ hx1, d0, List.mem_cons_self, by simpa using hx2⟩

/-! ### 4. two LASFiles edited alternately never affect each other -/

theorem C14_two_objects (A B : LasCurves) (ops : List (Bool × CurveOp)) :
    cvRun2 (A, B) ops =
      (A.run ((ops.filter (fun o => !o.1)).map (·.2)), B.run ((ops.filter (fun o => o.1)).map (·.2))) := by
  induction ops generalizing A B with
  | nil => rfl
  | cons o ops ih =>
    obtain ⟨w, op⟩ := o
    have e : cvRun2 (A, B) ((w, op) :: ops) = cvRun2 (cvStep2 (A, B) (w, op)) ops := rfl
    rw [e]
    cases w with
    | true =>
      have : cvStep2 (A, B) (true, op) = (A, (B.step op).1) := rfl
      rw [this, ih]
      rfl
    | false =>
      have : cvStep2 (A, B) (false, op) = ((A.step op).1, B) := rfl
      rw [this, ih]
      rfl

/-! ### 5. `set_data(..., truncate=True)` -/

/-- with `truncate` the surplus columns are dropped (the call equals the call on the truncated array) and no curve
is added -/
theorem C14_set_data_truncate (L : LasCurves) (rows : List (List Cell)) (names : Option (List Str)) :
    L.setData rows names true = L.setData (rows.map (fun r => r.take L.sec.items.length)) names false ∧
    (L.setData rows names true).1.sec.items.length = L.sec.items.length ∧
    (L.WF → (L.setData rows names true).1.abs.length = L.abs.length) := by
  have e : L.setData rows names true = L.setData (rows.map (fun r => r.take L.sec.items.length)) names false := by
    unfold LasCurves.setData setDataRows
    simp
  have hl : (L.setData rows names true).1.sec.items.length = L.sec.items.length := by
    unfold LasCurves.setData
    simp only [setDataRows, if_true]
    have hw := cvRowsWidth_truncate L.sec.items.length rows
    have h0 : cvRowsWidth (rows.map (fun r => r.take L.sec.items.length)) - L.sec.items.length = 0 := by omega
    rw [h0]
    split
    · unfold LasCurves.assignCols LasCurves.extend
      simp only []
      split
      · rw [assignAll_length]; simp [cvMapIdx_length]
      · simp [cvMapIdx_length]
    · rfl
  refine ⟨e, hl, fun h => ?_⟩
  have hw : (L.setData rows names true).1.WF := C14_wf_step L h (.setData rows names true)
  rw [abs_length _ hw, abs_length L h]
  exact hl

/-! ### 6. non-vacuity -/

def exCurves : LasCurves :=
  LasCurves.empty.run
    [.appendCurve "DEPT".toList "m".toList [] [] ["1".toList, "2".toList],
     .appendCurve "A".toList [] [] [] ["3".toList, "4".toList],
     .insertCurve (-1) "A".toList [] [] [] ["5".toList, "6".toList],
     .deleteMnem "A:2".toList,
     .setData [["7".toList, "8".toList, "9".toList]] (some ["X".toList]) false]

example :
    exCurves.keys = ["X".toList, "UNKNOWN:1".toList, "UNKNOWN:2".toList] ∧
    exCurves.abs.map (·.orig) = ["X".toList, [], []] ∧
    exCurves.abs.map (·.data) = [["7".toList], ["8".toList], ["9".toList]] ∧
    exCurves.WF ∧ exCurves.dataView = .ok [["7".toList, "8".toList, "9".toList]] ∧
    exCurves.getitem (.str "UNKNOWN:2".toList) = .ok ["9".toList] ∧
    (exCurves.step (.setData [["q".toList]] none false)).2 = .indexError := by
  refine ⟨by decide, by decide, by decide, by decide, by rfl, by rfl, by decide⟩

#print axioms C14_step_spec
#print axioms C14_refines
#print axioms C14_wf_step
#print axioms C14_wf_run
#print axioms C14_refines_run
#print axioms C14_refines_run_fresh
#print axioms C14_index_ops_ignore_keys
#print axioms C14_replace_is_set
#print axioms C14_counterexample_replace_negative
#print axioms C14_inv_insert_delete
#print axioms C14_originals
#print axioms C14_assignAll_order
#print axioms C14_assignAll_closed_form
#print axioms C14_views_values
#print axioms C14_views_items
#print axioms C14_getitem_int
#print axioms C14_views_index
#print axioms C14_getitem_mnemonic
#print axioms C14_getitem_mnemonic_exact
#print axioms C14_counterexample_getitem_transforms
#print axioms C14_data_column
#print axioms C14_data_error
#print axioms C14_two_objects
#print axioms C14_set_data_truncate

end Lasio
