import LasioProofs.Lemmas.FileConfig
/-
C12 at WHOLE-FILE level — the content recovered from a written file does not depend on how it was written.

ONE object — the header `las : Wr.WLas` (after `prepare`) and the data matrix `rows` (an r × n matrix of binary64, NULL text `null`) —
is written under TWO configurations `(version₁, wrap₁, header_width₁, cfg₁)` and `(version₂, wrap₂, header_width₂, cfg₂)`; both texts
(`Fr.fileDoc`: header lines ++ `~A` line ++ data lines, each followed by "\n") are read by `Tf.readFull` with the same options.
`Fc.FileWritten …` bundles, per configuration, the hypotheses of `C01_file`: `headerLines` succeeded, `Cy.FileConf` (= the hypotheses
of `C03_file`, no DLM item), `Rt.Written` for the data section, a data title `~A…`, and `Fc.Fit` (WRAP = YES in the written header, or
data written with `wrap=False` and WRAP ≠ YES — `Wo.writeObj` always produces one of the two).

`C12_file`: with equal precision per column (`Rt.SamePrec c₁ c₂ n`, the hypothesis of `C12_data_tokens_independent`), a NULL text
that does not start with '~', as many ~Curves items as columns and sane session mnemonics in ~Version (`Fc.SessionsSane`):
  (a) the two reads return the SAME "Well", "Curves", "Parameter", "Other" entries (`Fc.commonSections`, which mentions neither
      configuration) and "Version" items that are equal once the reader's VERS and WRAP items are filtered out;
  (b) the same curves for the one data window (`.map Prod.snd`: the engine may differ between a wrapped and an unwrapped output);
  (c) steering: `vers` = the version written, `wrap` = the WRAP value written, the same `null`, `dlm = none`.
Corollaries in the words of the property: `C12_file_version_swap` ("converting between 1.2 and 2.0 swaps the layout of ~Well lines on
disk but never their meaning"), `C12_file_wrap_swap`, `C12_file_layout` (widths, spacers, data width, data-section header style,
numeric formats of equal precision).

Forced hypotheses: `SessionsSane` (`C12_file_counterexample_session_mnemonic`); equal precision (`C12_file_counterexample_precision`,
file-level form of `C12_data_precision_matters`); the `TextConf` clauses inside `FileConf` (a ~Well value or description with a
colon, a blank mnemonic with a further period: `C12_counterexample_colon_value`, `…_colon_descr`, `…_blank_mnemonic_period` in
Props/C12.lean, at section level — not restated here); the rest are the hypotheses of `C01_file`, with their counter-examples there.
NOT proved: `float()` / `num()` (the sections hold value TEXTS, the curves hold `float()` of the tokens through the table `ft`);
`prepare` (refresh of STRT/STOP/STEP, which does not depend on the configuration: `las` is the object after it).
-/
namespace Lasio.Fc
open Lasio

/-- everything `C01_file` asks of one configuration -/
structure FileWritten (opts : Tf.Opts) (las : Wr.WLas) (null : Str) (rows : List (List Dw.F64)) (n : Nat)
    (version : String) (wrap : Option Bool) (w : Nat) (cfg : Dw.DataCfg) (mn : List Str) (c : Dw.RowCfg)
    (hlines : List Str) (hdr : Str) (body : List Str) : Prop where
  header : ∃ las', Wr.headerLines version wrap w las = .ok (hlines, las')
  conf : Cy.FileConf opts.hdr version wrap las
  data : Rt.Written cfg null mn rows c n hdr body
  title : ∃ a r, cfg.dataSectionHeader = '~' :: a :: r ∧ upperC a = 'A'
  fit : Fit opts.hdr version wrap las cfg

/-- the entries of `las.sections` after "Version": they mention neither the version, nor `wrap`, nor any width -/
def commonSections (o : Rd.ReadOpts) (las : Wr.WLas) : List (Rd.RKey × Rd.SecVal) :=
  [(Rd.kWell, .items ((Wr.standardizeItems las.well).map (Wr.rdExpected o))),
   (Rd.kCurves, .items (las.curves.map (Wr.rdExpected o))),
   (Rd.kParameter, .items ((Wr.standardizeItems las.params).map (Wr.rdExpected o))),
   (Rd.kOther, .text (Cy.otherRead las.other))]

theorem firstRead_eq (o : Rd.ReadOpts) (version : String) (wrap : Option Bool) (las : Wr.WLas) :
    Cy.firstRead o version wrap las =
      (Rd.kVersion, .items ((RH.versionCopy version wrap las).map (Wr.rdExpected o))) :: commonSections o las := rfl

/-- `wrap=True/False` given and exactly one WRAP item in the written ~Version section: the halves fit when the data are written with
the same `wrap` -/
theorem fit_of_wrap (o : Rd.ReadOpts) (version : String) (b : Bool) (las : Wr.WLas) (cfg : Dw.DataCfg)
    (hw : Cy.WrapOK o (RH.versionCopy version (some b) las)) (hcw : cfg.wrap = b) : Fit o version (some b) las cfg := by
  have h := steerVal_wrap_given o version b las hw
  cases b with
  | true => exact Or.inl h
  | false => exact Or.inr ⟨hcw, "NO".toList, h, by decide⟩

/-- **C12, whole file.** -/
theorem C12_file (opts : Tf.Opts) (nullOf : Option Str → Option Str) (ft : Dt.FloatTable)
    (las : Wr.WLas) (null : Str) (rows : List (List Dw.F64)) (n : Nat)
    {v1 v2 : String} {wr1 wr2 : Option Bool} {w1 w2 : Nat} {cfg1 cfg2 : Dw.DataCfg} {mn1 mn2 : List Str} {c1 c2 : Dw.RowCfg}
    {hl1 hl2 : List Str} {hdr1 hdr2 : Str} {body1 body2 : List Str}
    (F1 : FileWritten opts las null rows n v1 wr1 w1 cfg1 mn1 c1 hl1 hdr1 body1)
    (F2 : FileWritten opts las null rows n v2 wr2 w2 cfg2 mn2 c2 hl2 hdr2 body2)
    (hp : Rt.SamePrec c1 c2 n) (hn : null.head? ≠ some '~') (hcur : las.curves.length = n)
    (hs : SessionsSane opts.hdr las) :
    ∃ res1 res2,
      Tf.readFull opts nullOf ft (Fr.fileDoc hl1 hdr1 body1) = .ok
        ⟨(Rd.kVersion, .items ((RH.versionCopy v1 wr1 las).map (Wr.rdExpected opts.hdr))) :: commonSections opts.hdr las,
         ⟨some v1.toList, Fr.steerVal opts.hdr "WRAP" (RH.versionCopy v1 wr1 las),
          Fr.steerVal opts.hdr "NULL" (Wr.standardizeItems las.well), none⟩,
         [⟨hl1.length, hl1.length + body1.length, res1⟩]⟩ ∧
      Tf.readFull opts nullOf ft (Fr.fileDoc hl2 hdr2 body2) = .ok
        ⟨(Rd.kVersion, .items ((RH.versionCopy v2 wr2 las).map (Wr.rdExpected opts.hdr))) :: commonSections opts.hdr las,
         ⟨some v2.toList, Fr.steerVal opts.hdr "WRAP" (RH.versionCopy v2 wr2 las),
          Fr.steerVal opts.hdr "NULL" (Wr.standardizeItems las.well), none⟩,
         [⟨hl2.length, hl2.length + body2.length, res2⟩]⟩ ∧
      ((RH.versionCopy v1 wr1 las).map (Wr.rdExpected opts.hdr)).filter (notVW opts.hdr) =
        ((RH.versionCopy v2 wr2 las).map (Wr.rdExpected opts.hdr)).filter (notVW opts.hdr) ∧
      res1.map Prod.snd = res2.map Prod.snd ∧
      res1.map Prod.snd = .ok (Dt.assignCurves n (Dt.applyNull (opts.dat.nullPolicy == .strict)
        (nullOf (Fr.steerVal opts.hdr "NULL" (Wr.standardizeItems las.well)))
        (Dt.matrixColumns ft n (Rt.tokenRows c1 null rows)))) := by
  obtain ⟨las1', hH1⟩ := F1.header
  obtain ⟨las2', hH2⟩ := F2.header
  obtain ⟨a1, r1, hd1, ha1⟩ := F1.title
  obtain ⟨a2, r2, hd2, ha2⟩ := F2.title
  obtain ⟨res1, e1, q1⟩ := file_read opts nullOf ft v1 wr1 w1 las las1' hl1 hH1 F1.conf F1.data hn a1 r1 hd1 ha1 F1.fit hcur
  obtain ⟨res2, e2, q2⟩ := file_read opts nullOf ft v2 wr2 w2 las las2' hl2 hH2 F2.conf F2.data hn a2 r2 hd2 ha2 F2.fit hcur
  refine ⟨res1, res2, e1, e2, version_items_independent opts.hdr v1 v2 wr1 wr2 las hs, ?_, q1⟩
  rw [q1, q2, Rt.tokenRows_samePrec c1 c2 null rows n F1.data.rect hp]

/-- the same through the parsed result of `Tf.readModel` (sections and curves, no line numbers, no engine): the data parts are equal,
the sections are equal after the first entry -/
theorem C12_file_parsed (opts : Tf.Opts) (nullOf : Option Str → Option Str) (ft : Dt.FloatTable)
    (las : Wr.WLas) (null : Str) (rows : List (List Dw.F64)) (n : Nat)
    {v1 v2 : String} {wr1 wr2 : Option Bool} {w1 w2 : Nat} {cfg1 cfg2 : Dw.DataCfg} {mn1 mn2 : List Str} {c1 c2 : Dw.RowCfg}
    {hl1 hl2 : List Str} {hdr1 hdr2 : Str} {body1 body2 : List Str}
    (F1 : FileWritten opts las null rows n v1 wr1 w1 cfg1 mn1 c1 hl1 hdr1 body1)
    (F2 : FileWritten opts las null rows n v2 wr2 w2 cfg2 mn2 c2 hl2 hdr2 body2)
    (hp : Rt.SamePrec c1 c2 n) (hn : null.head? ≠ some '~') (hcur : las.curves.length = n)
    (hs : SessionsSane opts.hdr las) :
    ∃ p1 p2, Tf.readModel opts nullOf ft (Fr.fileDoc hl1 hdr1 body1) = .ok p1 ∧
      Tf.readModel opts nullOf ft (Fr.fileDoc hl2 hdr2 body2) = .ok p2 ∧
      p1.data = p2.data ∧ p1.sections.tail = p2.sections.tail ∧ p1.sections.tail = commonSections opts.hdr las := by
  obtain ⟨res1, res2, e1, e2, _, hq, _⟩ := C12_file opts nullOf ft las null rows n F1 F2 hp hn hcur hs
  have m1 := congrArg (Except.map Tf.FullRead.parsed) e1
  have m2 := congrArg (Except.map Tf.FullRead.parsed) e2
  refine ⟨Tf.FullRead.parsed _, Tf.FullRead.parsed _, m1, m2, ?_, rfl, rfl⟩
  simp only [Tf.FullRead.parsed, List.map_cons, List.map_nil, hq]

/-- **Version swap.**  The same `wrap`, widths and data configuration, target version 1.2 vs 2.0: on disk the ~Well lines of the two
texts differ (description and value swapped, except STRT/STOP/STEP/NULL); read back, every section but "Version" is identical, the
"Version" items differ in VERS only, the curves are identical. -/
theorem C12_file_version_swap (opts : Tf.Opts) (nullOf : Option Str → Option Str) (ft : Dt.FloatTable)
    (las : Wr.WLas) (null : Str) (rows : List (List Dw.F64)) (n : Nat)
    {wr : Option Bool} {w : Nat} {cfg : Dw.DataCfg} {mn : List Str} {c : Dw.RowCfg}
    {hl12 hl20 : List Str} {hdr : Str} {body : List Str}
    (F12 : FileWritten opts las null rows n "1.2" wr w cfg mn c hl12 hdr body)
    (F20 : FileWritten opts las null rows n "2.0" wr w cfg mn c hl20 hdr body)
    (hn : null.head? ≠ some '~') (hcur : las.curves.length = n) (hs : SessionsSane opts.hdr las) :
    ∃ p12 p20, Tf.readModel opts nullOf ft (Fr.fileDoc hl12 hdr body) = .ok p12 ∧
      Tf.readModel opts nullOf ft (Fr.fileDoc hl20 hdr body) = .ok p20 ∧
      p12.data = p20.data ∧ p12.sections.tail = p20.sections.tail ∧ p12.sections.tail = commonSections opts.hdr las :=
  C12_file_parsed opts nullOf ft las null rows n F12 F20 (fun _ _ => rfl) hn hcur hs

/-- **Wrap swap.**  The same version, `wrap=True` vs `wrap=False` (header item and data layout), exactly one WRAP item in each written
~Version section; formats of equal precision. -/
theorem C12_file_wrap_swap (opts : Tf.Opts) (nullOf : Option Str → Option Str) (ft : Dt.FloatTable)
    (las : Wr.WLas) (null : Str) (rows : List (List Dw.F64)) (n : Nat)
    {v : String} {w1 w2 : Nat} {cfg1 cfg2 : Dw.DataCfg} {mn1 mn2 : List Str} {c1 c2 : Dw.RowCfg}
    {hl1 hl2 : List Str} {hdr1 hdr2 : Str} {body1 body2 : List Str}
    (hH1 : ∃ las', Wr.headerLines v (some true) w1 las = .ok (hl1, las'))
    (hH2 : ∃ las', Wr.headerLines v (some false) w2 las = .ok (hl2, las'))
    (hc1 : Cy.FileConf opts.hdr v (some true) las) (hc2 : Cy.FileConf opts.hdr v (some false) las)
    (wd1 : Rt.Written cfg1 null mn1 rows c1 n hdr1 body1) (wd2 : Rt.Written cfg2 null mn2 rows c2 n hdr2 body2)
    (ht1 : ∃ a r, cfg1.dataSectionHeader = '~' :: a :: r ∧ upperC a = 'A')
    (ht2 : ∃ a r, cfg2.dataSectionHeader = '~' :: a :: r ∧ upperC a = 'A')
    (hw1 : Cy.WrapOK opts.hdr (RH.versionCopy v (some true) las)) (hw2 : Cy.WrapOK opts.hdr (RH.versionCopy v (some false) las))
    (hcw1 : cfg1.wrap = true) (hcw2 : cfg2.wrap = false)
    (hp : Rt.SamePrec c1 c2 n) (hn : null.head? ≠ some '~') (hcur : las.curves.length = n)
    (hs : SessionsSane opts.hdr las) :
    ∃ p1 p2, Tf.readModel opts nullOf ft (Fr.fileDoc hl1 hdr1 body1) = .ok p1 ∧
      Tf.readModel opts nullOf ft (Fr.fileDoc hl2 hdr2 body2) = .ok p2 ∧
      p1.data = p2.data ∧ p1.sections.tail = p2.sections.tail ∧ p1.sections.tail = commonSections opts.hdr las :=
  C12_file_parsed opts nullOf ft las null rows n
    ⟨hH1, hc1, wd1, ht1, fit_of_wrap opts.hdr v true las cfg1 hw1 hcw1⟩
    ⟨hH2, hc2, wd2, ht2, fit_of_wrap opts.hdr v false las cfg2 hw2 hcw2⟩ hp hn hcur hs

/-- **Layout only.**  The same version and `wrap`; header width, numeric formats of equal precision, `len_numeric_field`, spacers, data
width, data-section header style differ: the two reads are the same in EVERY section (the "Version" items included) and in the curves. -/
theorem C12_file_layout (opts : Tf.Opts) (nullOf : Option Str → Option Str) (ft : Dt.FloatTable)
    (las : Wr.WLas) (null : Str) (rows : List (List Dw.F64)) (n : Nat)
    {v : String} {wr : Option Bool} {w1 w2 : Nat} {cfg1 cfg2 : Dw.DataCfg} {mn1 mn2 : List Str} {c1 c2 : Dw.RowCfg}
    {hl1 hl2 : List Str} {hdr1 hdr2 : Str} {body1 body2 : List Str}
    (F1 : FileWritten opts las null rows n v wr w1 cfg1 mn1 c1 hl1 hdr1 body1)
    (F2 : FileWritten opts las null rows n v wr w2 cfg2 mn2 c2 hl2 hdr2 body2)
    (hp : Rt.SamePrec c1 c2 n) (hn : null.head? ≠ some '~') (hcur : las.curves.length = n)
    (hs : SessionsSane opts.hdr las) :
    ∃ p, Tf.readModel opts nullOf ft (Fr.fileDoc hl1 hdr1 body1) = .ok p ∧
      Tf.readModel opts nullOf ft (Fr.fileDoc hl2 hdr2 body2) = .ok p := by
  obtain ⟨res1, res2, e1, e2, _, hq, _⟩ := C12_file opts nullOf ft las null rows n F1 F2 hp hn hcur hs
  have m1 := congrArg (Except.map Tf.FullRead.parsed) e1
  have m2 := congrArg (Except.map Tf.FullRead.parsed) e2
  refine ⟨Tf.FullRead.parsed _, m1, ?_⟩
  refine m2.trans ?_
  show Except.ok (Tf.FullRead.parsed _) = Except.ok (Tf.FullRead.parsed _)
  simp only [Tf.FullRead.parsed, List.map_cons, List.map_nil, hq]

/-! ## the hypotheses are needed -/

/-- `SessionsSane` is needed: a ~Version item `FOO` whose SESSION mnemonic is `WRAP` (next to a real WRAP item whose session mnemonic
is `WRAP:2`): with `wrap=None` it is written as it is, with `wrap=False` it is the item `version["WRAP"] = …` replaces — the item FOO
is in one re-read and not in the other -/
theorem C12_file_counterexample_session_mnemonic :
    let las : Wr.WLas := ⟨[Fr.fVers, ⟨Fr.fs "FOO", Fr.fs "WRAP", [], .str (Fr.fs "1"), Fr.fs "d"⟩,
      { Wr.wrapItem true with session := Fr.fs "WRAP:2" }], true, [], [], [], []⟩
    ((RH.versionCopy "2.0" none las).map (Wr.rdExpected Fr.fOpts.hdr)).filter (notVW Fr.fOpts.hdr) =
      [⟨Fr.fs "FOO", [], Fr.fs "1", Fr.fs "d"⟩] ∧
    ((RH.versionCopy "2.0" (some false) las).map (Wr.rdExpected Fr.fOpts.hdr)).filter (notVW Fr.fOpts.hdr) = [] := by
  decide +kernel

/-- equal precision is needed (file-level form of `C12_data_precision_matters`): 0.25 written with `%.1f` and with `%.2f` gives the
token matrices `[["0.2"]]` and `[["0.25"]]`, read back as two different numbers -/
theorem C12_file_counterexample_precision :
    Rt.tokenRows ⟨⟨none, 1⟩, [], 10, [' '], [' ']⟩ Fr.fNull [[.finite false 1 (-2)]] = [[Fr.fs "0.2"]] ∧
    Rt.tokenRows ⟨⟨none, 2⟩, [], 10, [' '], [' ']⟩ Fr.fNull [[.finite false 1 (-2)]] = [[Fr.fs "0.25"]] ∧
    ¬ Rt.SamePrec ⟨⟨none, 1⟩, [], 10, [' '], [' ']⟩ ⟨⟨none, 2⟩, [], 10, [' '], [' ']⟩ 1 := by
  refine ⟨by decide, by decide, ?_⟩
  intro h
  have := h 0 (by decide)
  revert this
  decide

/-! ## non-vacuity: the object of C01File (plus a company item) written as (2.0, unwrapped, `%.2f`) and as (1.2, wrapped, `%8.2f`) -/

open Fr in
def gComp : Wr.WItem := Wr.mkWItem (fs "COMP") [] (.str (fs "ACME")) (fs "company")
open Fr in
def gLas : Wr.WLas := ⟨[fVers, Wr.wrapItem true], true, [fStrt, fStop, fStep, fNullIt, gComp], [fDept, fGr], [], fs "note"⟩
open Fr in
/-- wrapped at 12 columns, `%8.2f`, a mnemonics header `~A  DEPT  Gr` (the session mnemonics, as `Wo.writeObj` passes them) -/
def gCfg : Dw.DataCfg := ⟨true, fs "%8.2f", [], none, [' '], [' '], 12, 30, fs "~A", true⟩
def gRowCfg : Dw.RowCfg := ⟨⟨some 8, 2⟩, [], 10, [' '], [' ']⟩
open Fr in
def gHdr : Str := fs "~A     DEPT         Gr"
open Fr in
def gBody : List Str := [fs "       1.00", fs "0.12", fs "       2.00", fs "-999.25"]

theorem gCompConf (kind : SecName) : Wr.TextConf kind gComp :=
  ⟨by decide, by decide, by decide, by decide, by decide, by decide, by decide, by decide, by decide,
    by decide, by decide, (fun _ => by decide), by decide, by decide⟩

open Fr in
theorem gFileConf (v : String) (b : Bool) (hvers : Wr.VersOK fOpts.hdr v (RH.versionCopy v (some b) gLas))
    (hdlm : ∀ it ∈ RH.versionCopy v (some b) gLas, upper it.orig ≠ "DLM".toList) :
    Cy.FileConf fOpts.hdr v (some b) gLas := by
  have hvc : ∀ it ∈ gLas.version, Wr.TextConf .version it := by
    intro it hit
    have : it = fVers ∨ it = Wr.wrapItem true := by simpa [gLas] using hit
    rcases this with rfl | rfl
    · exact fConf _ _ (Or.inl rfl)
    · exact Wr.conf_wrapItem true
  have hvm : ∀ it ∈ gLas.version, it.orig.head? ≠ some '#' ∧ it.orig.head? ≠ some '~' := by decide
  obtain ⟨hcv, hmv⟩ := Wr.C03_versionCopy_conf v (some b) gLas hvc hvm
  refine ⟨hcv, ?_, ?_, ?_, hmv, by decide, by decide, by decide, hvers,
    (show ∀ l ∈ Wr.splitlines gLas.other, (strip l).head? ≠ some '~' by decide +kernel), hdlm⟩
  · intro it hit
    have : it = fStrt ∨ it = fStop ∨ it = fStep ∨ it = fNullIt ∨ it = gComp := by
      simpa [gLas, Wr.standardizeItems, fNullIt, fStrt, fStop, fStep, gComp, fs, Wr.standardizeValue, Wr.mkWItem, Wr.WVal.num,
        Wr.WVal.str] using hit
    rcases this with h | h | h | h | h
    · exact fConf _ _ (Or.inr (Or.inr (Or.inr (Or.inr (Or.inl h)))))
    · exact fConf _ _ (Or.inr (Or.inr (Or.inr (Or.inr (Or.inr (Or.inl h))))))
    · exact fConf _ _ (Or.inr (Or.inr (Or.inr (Or.inr (Or.inr (Or.inr h))))))
    · exact fConf _ _ (Or.inr (Or.inl h))
    · rw [h]; exact gCompConf _
  · intro it hit
    have : it = fDept ∨ it = fGr := by simpa [gLas] using hit
    rcases this with h | h
    · exact fConf _ _ (Or.inr (Or.inr (Or.inl h)))
    · exact fConf _ _ (Or.inr (Or.inr (Or.inr (Or.inl h))))
  · intro it hit
    simp [gLas, Wr.standardizeItems] at hit

open Fr in
theorem gWritten : Rt.Written gCfg fNull [fs "DEPT", fs "Gr"] fRows gRowCfg 2 gHdr gBody :=
  ⟨by rfl, ⟨by decide, by decide, by decide, ⟨by decide, by decide⟩⟩, Rt.quietTok_of_check _ (by decide),
    by decide, by decide, by decide, by decide⟩

open Fr in
/-- configuration A: version 2.0, `wrap=False`, header width 20, `%.2f` -/
theorem gFileA (hl : List Str) (las' : Wr.WLas) (hH : Wr.headerLines "2.0" (some false) 20 gLas = .ok (hl, las')) :
    FileWritten fOpts gLas fNull fRows 2 "2.0" (some false) 20 fCfg [fs "DEPT", fs "GR"] fRowCfg hl fHdr fBody :=
  ⟨⟨las', hH⟩,
   gFileConf "2.0" false ⟨Wr.mkWItem (fs "VERS") [] (.num (fs "2.0") false) (fs "CWLS log ASCII Standard -VERSION 2.0"),
     by decide +kernel, by decide⟩ (by decide +kernel),
   fWritten, ⟨'A', fs "SCII", rfl, by decide⟩,
   fit_of_wrap fOpts.hdr "2.0" false gLas fCfg ⟨Wr.wrapItem false, by decide +kernel⟩ rfl⟩

open Fr in
/-- configuration B: version 1.2, `wrap=True`, header width 30, `%8.2f`, data width 12, `~A` with the mnemonics -/
theorem gFileB (hl : List Str) (las' : Wr.WLas) (hH : Wr.headerLines "1.2" (some true) 30 gLas = .ok (hl, las')) :
    FileWritten fOpts gLas fNull fRows 2 "1.2" (some true) 30 gCfg [fs "DEPT", fs "Gr"] gRowCfg hl gHdr gBody :=
  ⟨⟨las', hH⟩,
   gFileConf "1.2" true ⟨Wr.mkWItem (fs "VERS") [] (.num (fs "1.2") false) (fs "CWLS LOG ASCII STANDARD - VERSION 1.2"),
     by decide +kernel, by decide⟩ (by decide +kernel),
   gWritten, ⟨'A', [], rfl, by decide⟩,
   fit_of_wrap fOpts.hdr "1.2" true gLas gCfg ⟨Wr.wrapItem true, by decide +kernel⟩ rfl⟩

theorem gSamePrec : Rt.SamePrec Fr.fRowCfg gRowCfg 2 := fun _ _ => rfl

theorem gSane : SessionsSane Fr.fOpts.hdr gLas := by
  intro y hy _
  have : y = Fr.fVers ∨ y = Wr.wrapItem true := by simpa [gLas] using hy
  rcases this with rfl | rfl <;> decide

open Fr in
/-- **the two texts differ on disk, the two reads agree**: the same curves (DEPT 1.0, 2.0; GR 0.12, NaN), the same ~Well, ~Curves,
~Parameter, ~Other entries (COMP reads `ACME` / `company` from `COMP.  company : ACME` as from `COMP.     ACME : company`), the ~Version
items differ in VERS and WRAP only (nothing else is there) -/
example (hlA hlB : List Str) (lasA lasB : Wr.WLas)
    (hHA : Wr.headerLines "2.0" (some false) 20 gLas = .ok (hlA, lasA))
    (hHB : Wr.headerLines "1.2" (some true) 30 gLas = .ok (hlB, lasB)) :
    ∃ pA pB, Tf.readModel fOpts fNullOf fFt (fileDoc hlA fHdr fBody) = .ok pA ∧
      Tf.readModel fOpts fNullOf fFt (fileDoc hlB gHdr gBody) = .ok pB ∧
      pA.data = pB.data ∧ pA.sections.tail = pB.sections.tail ∧
      pA.data = [.ok [(.declared 0, .floats [fH1, fH2]), (.declared 1, .floats [fH012, Dt.nanTxt])]] ∧
      Cy.secItems Rd.kWell pA.sections =
        [⟨fs "STRT", fs "M", fs "1.00000", fs "start"⟩, ⟨fs "STOP", fs "M", fs "2.00000", fs "stop"⟩,
         ⟨fs "STEP", fs "M", fs "1.00000", fs "step"⟩, ⟨fs "NULL", [], fs "-999.25", fs "null value"⟩,
         ⟨fs "COMP", [], fs "ACME", fs "company"⟩] ∧
      Cy.secItems Rd.kVersion pA.sections =
        [⟨fs "VERS", [], fs "2.0", fs "CWLS log ASCII Standard -VERSION 2.0"⟩, ⟨fs "WRAP", [], fs "NO", fs "One line per depth step"⟩] ∧
      Cy.secItems Rd.kVersion pB.sections =
        [⟨fs "VERS", [], fs "1.2", fs "CWLS LOG ASCII STANDARD - VERSION 1.2"⟩,
         ⟨fs "WRAP", [], fs "YES", fs "Multiple lines per depth step"⟩] := by
  obtain ⟨res1, res2, e1, e2, _, hq, hq1⟩ := C12_file fOpts fNullOf fFt gLas fNull fRows 2 (gFileA hlA lasA hHA)
    (gFileB hlB lasB hHB) gSamePrec (by decide) rfl gSane
  have m1 := congrArg (Except.map Tf.FullRead.parsed) e1
  have m2 := congrArg (Except.map Tf.FullRead.parsed) e2
  refine ⟨Tf.FullRead.parsed _, Tf.FullRead.parsed _, m1, m2, ?_, rfl, ?_, ?_, ?_, ?_⟩
  · simp only [Tf.FullRead.parsed, List.map_cons, List.map_nil, hq]
  · simp only [Tf.FullRead.parsed, List.map_cons, List.map_nil, hq1]
    decide +kernel
  · show Cy.secItems Rd.kWell ((Rd.kVersion, Rd.SecVal.items _) :: commonSections fOpts.hdr gLas) = _
    decide +kernel
  · show Cy.secItems Rd.kVersion ((Rd.kVersion, Rd.SecVal.items _) :: commonSections fOpts.hdr gLas) = _
    decide +kernel
  · show Cy.secItems Rd.kVersion ((Rd.kVersion, Rd.SecVal.items _) :: commonSections fOpts.hdr gLas) = _
    decide +kernel

open Fr in
def gDocA : Tf.Doc :=
  match Wr.headerLines "2.0" (some false) 20 gLas with
  | .ok (hl, _) => fileDoc hl fHdr fBody
  | .error _ => []
open Fr in
def gDocB : Tf.Doc :=
  match Wr.headerLines "1.2" (some true) 30 gLas with
  | .ok (hl, _) => fileDoc hl gHdr gBody
  | .error _ => []

open Fr in
/-- the same by running the models on the two concrete documents (no theorem involved); the COMP line as it stands in each -/
example :
    ((Tf.readModel fOpts fNullOf fFt gDocA).toOption.map fun p => p.data.map (·.toOption)) =
      ((Tf.readModel fOpts fNullOf fFt gDocB).toOption.map fun p => p.data.map (·.toOption)) ∧
    ((Tf.readModel fOpts fNullOf fFt gDocA).toOption.map fun p => p.data.map (·.toOption)) =
      some [some [(.declared 0, .floats [fH1, fH2]), (.declared 1, .floats [fH012, Dt.nanTxt])]] ∧
    ((Tf.readModel fOpts fNullOf fFt gDocA).toOption.map fun p => p.sections.tail) =
      ((Tf.readModel fOpts fNullOf fFt gDocB).toOption.map fun p => p.sections.tail) ∧
    gDocA[8]? = some (fs "COMP.     ACME : company\n") ∧ gDocB[8]? = some (fs "COMP.  company : ACME\n") ∧
    gDocA.length = 18 ∧ gDocB.length = 20 := by
  refine ⟨by decide +kernel, by decide +kernel, by decide +kernel, by decide +kernel, by decide +kernel, by decide +kernel,
    by decide +kernel⟩

end Lasio.Fc

#print axioms Lasio.Fc.C12_file
#print axioms Lasio.Fc.C12_file_parsed
#print axioms Lasio.Fc.C12_file_version_swap
#print axioms Lasio.Fc.C12_file_wrap_swap
#print axioms Lasio.Fc.C12_file_layout
#print axioms Lasio.Fc.C12_file_counterexample_session_mnemonic
#print axioms Lasio.Fc.C12_file_counterexample_precision
#print axioms Lasio.Fc.gFileA
#print axioms Lasio.Fc.gFileB
