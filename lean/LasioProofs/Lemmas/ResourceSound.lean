import LasioModel.Resource

/-!
Soundness of the C20 outcome analysis (`outs`, `leakFree`) with respect to the
executable semantics `exec`, for every fuel and every fault/branch schedule.
-/
namespace Lasio

theorem collectRaw_some_mem {xs : List Res} {f : Res → Option (List Res)} {L : List Res}
    (h : collectRaw f xs = some L) {x : Res} (hx : x ∈ xs) :
    ∃ l, f x = some l ∧ ∀ y ∈ l, y ∈ L := by
  induction xs generalizing L with
  | nil => cases hx
  | cons a as ih =>
    simp only [collectRaw] at h
    cases hfa : f a with
    | none => simp [hfa] at h
    | some la =>
      cases hrest : collectRaw f as with
      | none => simp [hfa, hrest] at h
      | some lr =>
        simp only [hfa, hrest] at h
        have hL := Option.some.inj h
        subst hL
        rcases List.mem_cons.mp hx with rfl | hx'
        · exact ⟨la, hfa, fun y hy => List.mem_append_left _ hy⟩
        · obtain ⟨l, hl, hsub⟩ := ih hrest hx'
          exact ⟨l, hl, fun y hy => List.mem_append_right _ (hsub y hy)⟩

theorem collect_some_mem {xs : List Res} {f : Res → Option (List Res)} {L : List Res}
    (h : collect xs f = some L) {x : Res} (hx : x ∈ xs) :
    ∃ l, f x = some l ∧ ∀ y ∈ l, y ∈ L := by
  unfold collect at h
  cases hr : collectRaw f xs with
  | none => simp [hr] at h
  | some L' =>
    simp only [hr] at h
    have hL := Option.some.inj h
    subst hL
    obtain ⟨l, hl, hsub⟩ := collectRaw_some_mem hr hx
    exact ⟨l, hl, fun y hy => List.mem_eraseDups.mpr (hsub y hy)⟩

theorem grow_mono (fb : St → Option (List Res)) (n : Nat) (R R' : List St)
    (h : grow fb n R = some R') : ∀ s ∈ R, s ∈ R' := by
  induction n generalizing R with
  | zero => simp [grow] at h; subst h; exact fun s hs => hs
  | succ n ih =>
    simp only [grow] at h
    split at h
    · rename_i l hl
      intro s hs
      apply ih _ h
      exact List.mem_eraseDups.mpr (List.mem_append_left _ hs)
    · cases h

theorem mem_normStates {l : List Res} {s : St} (h : (Out.norm, s) ∈ l) : s ∈ normStates l := by
  unfold normStates
  refine List.mem_map.mpr ⟨(Out.norm, s), ?_, rfl⟩
  exact List.mem_filter.mpr ⟨h, by simp⟩

theorem closed_step {fb : St → Option (List Res)} {R : List St} (hc : closedUnder fb R = true)
    {r : St} (hr : r ∈ R) : ∃ l, fb r = some l ∧ ∀ s, (Out.norm, s) ∈ l → s ∈ R := by
  have := (List.all_eq_true.mp hc) r hr
  cases hfb : fb r with
  | none => simp [hfb] at this
  | some l =>
    simp only [hfb] at this
    refine ⟨l, rfl, fun s hs => ?_⟩
    have h2 := (List.all_eq_true.mp this) s (mem_normStates hs)
    simpa using h2

/-- loop soundness for an invariant set `R` closed under the body -/
theorem loop_sound (b : Stmt) (R : List St) (Lx : List Res)
    (hb : ∀ fuel σ s L, outs b s = some L → resOf (exec fuel b σ s) ∈ L)
    (hc : closedUnder (outs b) R = true)
    (hx : collect (R.map fun r => (Out.norm, r)) (fun x => outs b x.2) = some Lx) :
    ∀ fuel σ s, s ∈ R →
      resOf (exec fuel (.loop b) σ s) ∈ R.map (fun r => (Out.norm, r)) ++ Lx.filter (fun r => r.1 != .norm) := by
  intro fuel
  induction fuel with
  | zero =>
    intro σ s hs
    simp only [exec, resOf]
    exact List.mem_append_left _ (List.mem_map.mpr ⟨s, hs, rfl⟩)
  | succ fuel ih =>
    intro σ s hs
    simp only [exec]
    cases hp : pop σ with
    | mk c σ' =>
      simp only []
      cases c with
      | false =>
        simp only [Bool.false_eq_true, if_false, resOf]
        exact List.mem_append_left _ (List.mem_map.mpr ⟨s, hs, rfl⟩)
      | true =>
        simp only [if_true]
        obtain ⟨l, hl, hclosed⟩ := closed_step hc hs
        have hmem := hb fuel σ' s l hl
        obtain ⟨l', hl', hsub⟩ := collect_some_mem hx (x := (Out.norm, s))
          (List.mem_map.mpr ⟨s, hs, rfl⟩)
        have hll : l' = l := by
          have : outs b s = some l' := hl'
          rw [hl] at this; exact (Option.some.inj this).symm
        subst hll
        cases he : exec fuel b σ' s with
        | mk o rest =>
          cases rest with
          | mk s1 σ1 =>
            rw [he] at hmem
            simp only [resOf] at hmem
            cases o with
            | norm =>
              simp only []
              exact ih σ1 s1 (hclosed s1 hmem)
            | ret =>
              simp only [resOf]
              exact List.mem_append_right _ (List.mem_filter.mpr ⟨hsub _ hmem, by simp⟩)
            | exc =>
              simp only [resOf]
              exact List.mem_append_right _ (List.mem_filter.mpr ⟨hsub _ hmem, by simp⟩)

theorem sound : ∀ (p : Stmt) (fuel : Nat) (σ : List Bool) (s : St) (L : List Res),
    outs p s = some L → resOf (exec fuel p σ s) ∈ L := by
  intro p
  induction p with
  | skip => intro fuel σ s L h; simp [outs] at h; subst h; simp [exec, resOf]
  | ret => intro fuel σ s L h; simp [outs] at h; subst h; simp [exec, resOf]
  | raise => intro fuel σ s L h; simp [outs] at h; subst h; simp [exec, resOf]
  | mayRaise =>
    intro fuel σ s L h; simp [outs] at h; subst h
    simp only [exec]
    cases hp : pop σ with
    | mk c σ' => cases c <;> simp [resOf]
  | openV v =>
    intro fuel σ s L h; simp [outs] at h; subst h
    simp only [exec]
    cases hp : pop σ with
    | mk c σ' => cases c <;> simp [resOf]
  | close v => intro fuel σ s L h; simp [outs] at h; subst h; simp [exec, resOf]
  | move dst src => intro fuel σ s L h; simp [outs] at h; subst h; simp [exec, resOf]
  | setFlag f b => intro fuel σ s L h; simp [outs] at h; subst h; simp [exec, resOf]
  | seq a b iha ihb =>
    intro fuel σ s L h
    simp only [outs] at h
    cases hoa : outs a s with
    | none => simp [hoa] at h
    | some la =>
      simp only [hoa] at h
      have hm := iha fuel σ s la hoa
      simp only [exec]
      cases he : exec fuel a σ s with
      | mk o rest =>
        cases rest with
        | mk s1 σ1 =>
          rw [he] at hm; simp only [resOf] at hm
          obtain ⟨l, hl, hsub⟩ := collect_some_mem h hm
          cases o with
          | norm =>
            simp only [] at hl ⊢
            have : outs b s1 = some l := by simpa using hl
            exact hsub _ (ihb fuel σ1 s1 l this)
          | ret =>
            simp at hl; subst hl
            simpa [resOf] using hsub (Out.ret, s1) (by simp)
          | exc =>
            simp at hl; subst hl
            simpa [resOf] using hsub (Out.exc, s1) (by simp)
  | tryFinally a f iha ihf =>
    intro fuel σ s L h
    simp only [outs] at h
    cases hoa : outs a s with
    | none => simp [hoa] at h
    | some la =>
      simp only [hoa] at h
      have hm := iha fuel σ s la hoa
      simp only [exec]
      cases he : exec fuel a σ s with
      | mk o rest =>
        cases rest with
        | mk s1 σ1 =>
          rw [he] at hm; simp only [resOf] at hm
          obtain ⟨l, hl, hsub⟩ := collect_some_mem h hm
          simp only [] at hl ⊢
          cases hof : outs f s1 with
          | none => simp [hof] at hl
          | some lf =>
            simp only [hof] at hl
            have hl' := Option.some.inj hl
            have hm2 := ihf fuel σ1 s1 lf hof
            cases he2 : exec fuel f σ1 s1 with
            | mk o2 rest2 =>
              cases rest2 with
              | mk s2 σ2 =>
                rw [he2] at hm2; simp only [resOf] at hm2
                apply hsub
                rw [← hl']
                cases o2 with
                | norm => exact List.mem_map.mpr ⟨(Out.norm, s2), hm2, by simp [resOf]⟩
                | ret => exact List.mem_map.mpr ⟨(Out.ret, s2), hm2, by simp [resOf]⟩
                | exc => exact List.mem_map.mpr ⟨(Out.exc, s2), hm2, by simp [resOf]⟩
  | tryExcept a hh iha ihh =>
    intro fuel σ s L h
    simp only [outs] at h
    cases hoa : outs a s with
    | none => simp [hoa] at h
    | some la =>
      simp only [hoa] at h
      have hm := iha fuel σ s la hoa
      simp only [exec]
      cases he : exec fuel a σ s with
      | mk o rest =>
        cases rest with
        | mk s1 σ1 =>
          rw [he] at hm; simp only [resOf] at hm
          obtain ⟨l, hl, hsub⟩ := collect_some_mem h hm
          cases o with
          | exc =>
            simp only [] at hl ⊢
            have : outs hh s1 = some l := by simpa using hl
            exact hsub _ (ihh fuel σ1 s1 l this)
          | ret =>
            simp at hl; subst hl
            simpa [resOf] using hsub (Out.ret, s1) (by simp)
          | norm =>
            simp at hl; subst hl
            simpa [resOf] using hsub (Out.norm, s1) (by simp)
  | choice a b iha ihb =>
    intro fuel σ s L h
    simp only [outs] at h
    cases hoa : outs a s with
    | none => simp [hoa] at h
    | some la =>
      cases hob : outs b s with
      | none => simp [hoa, hob] at h
      | some lb =>
        simp only [hoa, hob] at h
        have hL := Option.some.inj h
        subst hL
        simp only [exec]
        cases hp : pop σ with
        | mk c σ' =>
          cases c with
          | true =>
            simp only [if_true]
            exact List.mem_eraseDups.mpr (List.mem_append_left _ (iha fuel σ' s la hoa))
          | false =>
            simp only [Bool.false_eq_true, if_false]
            exact List.mem_eraseDups.mpr (List.mem_append_right _ (ihb fuel σ' s lb hob))
  | ifFlag f a b iha ihb =>
    intro fuel σ s L h
    simp only [outs] at h
    simp only [exec]
    cases hf : getFlag f s with
    | true =>
      simp only [hf, if_true] at h ⊢
      exact iha fuel σ s L h
    | false =>
      simp only [hf, Bool.false_eq_true, if_false] at h ⊢
      exact ihb fuel σ s L h
  | withOpen b ihb =>
    intro fuel σ s L h
    simp only [outs] at h
    cases hob : outs b s with
    | none => simp [hob] at h
    | some lb =>
      simp only [hob] at h
      have hL := Option.some.inj h
      subst hL
      simp only [exec]
      cases hp : pop σ with
      | mk c σ' =>
        cases c with
        | true =>
          simp only [if_true, resOf]
          exact List.mem_eraseDups.mpr (List.mem_cons_self)
        | false =>
          simp only [Bool.false_eq_true, if_false]
          exact List.mem_eraseDups.mpr (List.mem_cons_of_mem _ (ihb fuel σ' s lb hob))
  | scope b ihb =>
    intro fuel σ s L h
    simp only [outs] at h
    cases hob : outs b s with
    | none => simp [hob] at h
    | some lb =>
      simp only [hob] at h
      have hL := Option.some.inj h
      subst hL
      have hm := ihb fuel σ s lb hob
      simp only [exec]
      cases he : exec fuel b σ s with
      | mk o rest =>
        cases rest with
        | mk s1 σ1 =>
          rw [he] at hm; simp only [resOf] at hm ⊢
          exact List.mem_eraseDups.mpr (List.mem_map.mpr ⟨(o, s1), hm, rfl⟩)
  | loop b ihb =>
    intro fuel σ s L h
    simp only [outs] at h
    cases hg : grow (outs b) growRounds [s] with
    | none => simp [hg] at h
    | some R =>
      simp only [hg] at h
      cases hc : closedUnder (outs b) R with
      | false => simp [hc] at h
      | true =>
        simp only [hc, if_true] at h
        cases hx : collect (R.map fun r => (Out.norm, r)) (fun x => outs b x.2) with
        | none => simp [hx] at h
        | some Lx =>
          simp only [hx] at h
          have hL := Option.some.inj h
          subst hL
          exact loop_sound b R Lx ihb hc hx fuel σ s (grow_mono _ _ _ _ hg s (by simp))

/-- the C20 statement for a program: whatever the fault schedule and loop counts, nothing is left open -/
theorem leakFree_sound (p : Stmt) (h : leakFree p = true) (fuel : Nat) (σ : List Bool) :
    (exec fuel p σ St.init).2.1.held = [] ∧ (exec fuel p σ St.init).2.1.leaked = false := by
  unfold leakFree at h
  cases ho : outs p St.init with
  | none => simp [ho] at h
  | some L =>
    simp only [ho] at h
    have hm := sound p fuel σ St.init L ho
    have := (List.all_eq_true.mp h) _ hm
    simpa [resOf, List.isEmpty_iff] using this


/-- same statement with the initial state spelled out -/
theorem leakFree_sound' (p : Stmt) (h : leakFree p = true) (fuel : Nat) (σ : List Bool) :
    (exec fuel p σ ⟨[], false, [], false⟩).2.1.held = [] ∧
    (exec fuel p σ ⟨[], false, [], false⟩).2.1.leaked = false :=
  leakFree_sound p h fuel σ

-- ---------- examples ----------
theorem readProg_ok : leakFree readProg = true := by decide

theorem readProg_never_leaks (fuel : Nat) (σ : List Bool) :
    (exec fuel readProg σ St.init).2.1.held = [] ∧ (exec fuel readProg σ St.init).2.1.leaked = false :=
  leakFree_sound readProg readProg_ok fuel σ

theorem writeProg_leaks : ∃ fuel σ, (exec fuel writeProg σ St.init).2.1.held ≠ [] :=
  ⟨1, [true, false, true], by simp [exec, writeProg, pop, openSt, St.init]⟩

theorem writeProg_rejected : leakFree writeProg = false := by decide

end Lasio

#print axioms Lasio.sound
#print axioms Lasio.leakFree_sound
#print axioms Lasio.readProg_ok
#print axioms Lasio.writeProg_leaks
