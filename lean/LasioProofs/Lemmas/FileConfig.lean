import LasioProofs.Props.C01File
import LasioProofs.Props.C12
/-
Helper lemmas for C12File: one object written under two configurations, both texts read by `Tf.readFull`.
-/
namespace Lasio.Fc
open Lasio

/-! ## `set_item` seen through a filter that drops the new item and every item it could replace -/

theorem wRenumber_back (tr : Bool) (t : Str) (L : List Wr.WItem) (k : Nat) :
    ∀ z ∈ Wr.wRenumber tr t L k, ∃ x ∈ L, RH.textOf z = RH.textOf x ∧
      (z.session = x.session ∨ ∃ n, z.session = useful x.orig ++ ':' :: natToStr n) := by
  induction L generalizing k with
  | nil => intro z hz; simp [Wr.wRenumber] at hz
  | cons a L ih =>
    intro z hz
    unfold Wr.wRenumber at hz
    split at hz
    · rcases List.mem_cons.mp hz with rfl | hz
      · exact ⟨a, List.mem_cons_self, rfl, Or.inr ⟨_, rfl⟩⟩
      · obtain ⟨x, hx, h1, h2⟩ := ih (k + 1) z hz
        exact ⟨x, List.mem_cons_of_mem _ hx, h1, h2⟩
    · rcases List.mem_cons.mp hz with rfl | hz
      · exact ⟨z, List.mem_cons_self, rfl, Or.inl rfl⟩
      · obtain ⟨x, hx, h1, h2⟩ := ih k z hz
        exact ⟨x, List.mem_cons_of_mem _ hx, h1, h2⟩

theorem wAssignSuffixes_back (tr : Bool) (t : Str) (L : List Wr.WItem) :
    ∀ z ∈ Wr.wAssignSuffixes tr t L, ∃ x ∈ L, RH.textOf z = RH.textOf x ∧
      (z.session = x.session ∨ ∃ n, z.session = useful x.orig ++ ':' :: natToStr n) := by
  intro z hz
  unfold Wr.wAssignSuffixes at hz
  split at hz
  · exact wRenumber_back tr t L 0 z hz
  · exact ⟨z, hz, rfl, Or.inl rfl⟩

/-- what `section[key] = it` does: the new item replaces the first item whose session mnemonic matches, or is appended -/
theorem wSetItem_cases (tr : Bool) (key : Str) (it : Wr.WItem) (items : List Wr.WItem) :
    ∃ L, Wr.wSetItem tr key it items = Wr.wAssignSuffixes tr (useful it.orig) L ∧
      (L = items ++ [it] ∨ ∃ A y B, items = A ++ y :: B ∧ L = A ++ it :: B ∧ cmpStr tr key y.session = true) := by
  unfold Wr.wSetItem
  cases hf : findFirst (fun x : Wr.WItem => cmpStr tr key x.session) items with
  | none => exact ⟨items ++ [it], rfl, Or.inl rfl⟩
  | some i =>
    obtain ⟨A, y, B, e, hl, hy, _⟩ := Cy.findFirst_decomp _ _ _ hf
    refine ⟨A ++ it :: B, ?_, Or.inr ⟨A, y, B, e, rfl, hy⟩⟩
    rw [e, ← hl]
    simp only [Cy.set_mid]

/-- a filter on the original mnemonic commutes with forgetting the session mnemonics -/
theorem filter_orig_text (Q : Str → Bool) (l : List Wr.WItem) :
    (l.filter (fun z => Q z.orig)).map RH.textOf = (l.map RH.textOf).filter (fun t => Q t.1) := by
  rw [List.filter_map]
  rfl

theorem wSetItem_filter (tr : Bool) (key : Str) (it : Wr.WItem) (items : List Wr.WItem) (Q : Str → Bool)
    (hit : Q it.orig = false) (hrep : ∀ y ∈ items, cmpStr tr key y.session = true → Q y.orig = false) :
    ((Wr.wSetItem tr key it items).filter (fun z => Q z.orig)).map RH.textOf =
      (items.filter (fun z => Q z.orig)).map RH.textOf := by
  obtain ⟨L, e, hL⟩ := wSetItem_cases tr key it items
  rw [e, filter_orig_text, RH.wAssignSuffixes_text, ← filter_orig_text]
  rcases hL with rfl | ⟨A, y, B, rfl, rfl, hy⟩
  · simp [List.filter_append, hit]
  · have hQy := hrep y (by simp) hy
    simp [List.filter_append, hit, hQy]

/-- an item of the section after `section[key] = it`: the new item, or an old one with its session mnemonic or a suffixed one -/
theorem wSetItem_back (tr : Bool) (key : Str) (it : Wr.WItem) (items : List Wr.WItem) :
    ∀ z ∈ Wr.wSetItem tr key it items, ∃ x, (x = it ∨ x ∈ items) ∧ RH.textOf z = RH.textOf x ∧
      (z.session = x.session ∨ ∃ n, z.session = useful x.orig ++ ':' :: natToStr n) := by
  intro z hz
  obtain ⟨L, e, hL⟩ := wSetItem_cases tr key it items
  rw [e] at hz
  obtain ⟨x, hx, h1, h2⟩ := wAssignSuffixes_back tr _ L z hz
  refine ⟨x, ?_, h1, h2⟩
  rcases hL with rfl | ⟨A, y, B, rfl, rfl, _⟩
  · rcases List.mem_append.mp hx with h | h
    · exact Or.inr h
    · exact Or.inl (by simpa using h)
  · simp only [List.mem_append, List.mem_cons] at hx ⊢
    rcases hx with h | rfl | h
    · exact Or.inr (Or.inl h)
    · exact Or.inl rfl
    · exact Or.inr (Or.inr (Or.inr h))

/-! ## the written ~Version section apart from VERS and WRAP -/

/-- the mnemonic is VERS or WRAP for the reader -/
def isVW (o : Rd.ReadOpts) (orig : Str) : Bool :=
  Rd.mcmp (o.mnemonicCase != .preserve) (Rd.usefulMn (Wr.caseMap (RH.cvtCase o.mnemonicCase) orig)) "VERS".toList ||
  Rd.mcmp (o.mnemonicCase != .preserve) (Rd.usefulMn (Wr.caseMap (RH.cvtCase o.mnemonicCase) orig)) "WRAP".toList

/-- a re-read item that is neither VERS nor WRAP -/
def notVW (o : Rd.ReadOpts) (r : Rd.RItem) : Bool :=
  !(Rd.mcmp (o.mnemonicCase != .preserve) (Rd.U r) "VERS".toList || Rd.mcmp (o.mnemonicCase != .preserve) (Rd.U r) "WRAP".toList)

/-- **the session mnemonics of ~Version are sane for the reader**: an item that `version["VERS"]` / `version["WRAP"]` finds (by its
SESSION mnemonic, under the section's own `mnemonic_transforms`) is a VERS / WRAP item for the reader (by its mnemonic as re-read) -/
def SessionsSane (o : Rd.ReadOpts) (las : Wr.WLas) : Prop :=
  ∀ y ∈ las.version, (cmpStr las.versionTr "WRAP".toList y.session = true ∨ cmpStr las.versionTr "VERS".toList y.session = true) →
    isVW o y.orig = true

theorem isVW_VERS (o : Rd.ReadOpts) : isVW o "VERS".toList = true := by
  obtain ⟨ig, mc⟩ := o
  unfold isVW
  cases mc <;> dsimp only <;> decide

theorem isVW_WRAP (o : Rd.ReadOpts) : isVW o "WRAP".toList = true := by
  obtain ⟨ig, mc⟩ := o
  unfold isVW
  cases mc <;> dsimp only <;> decide

theorem versItem_orig (version : String) (vers : Wr.WItem) (h : Wr.versItem version = some vers) : vers.orig = "VERS".toList :=
  (Cy.versItem_facts true version vers h).1

/-- **The written ~Version section differs from `las.version` in VERS and WRAP items only** -/
theorem versionCopy_filter (o : Rd.ReadOpts) (version : String) (wrap : Option Bool) (las : Wr.WLas)
    (hs : SessionsSane o las) :
    ((RH.versionCopy version wrap las).filter (fun z => !isVW o z.orig)).map RH.textOf =
      (las.version.filter (fun z => !isVW o z.orig)).map RH.textOf := by
  have hkV : ':' ∉ Rd.ck las.versionTr "VERS".toList := Rd.steerKey_nocolon _ _ (by simp [Rd.steerKeys])
  -- the WRAP step
  have hW : ((RH.wrapSection wrap las).filter (fun z => !isVW o z.orig)).map RH.textOf =
      (las.version.filter (fun z => !isVW o z.orig)).map RH.textOf := by
    cases wrap with
    | none => rfl
    | some b =>
      apply wSetItem_filter las.versionTr "WRAP".toList (Wr.wrapItem b) las.version (fun s => !isVW o s)
      · rw [Cy.wrapItem_orig, isVW_WRAP]; rfl
      · intro y hy hc
        rw [hs y hy (Or.inl hc)]; rfl
  -- an item of the section after the WRAP step that `version["VERS"]` finds is VERS / WRAP for the reader
  have hrepV : ∀ y ∈ RH.wrapSection wrap las, cmpStr las.versionTr "VERS".toList y.session = true → (!isVW o y.orig) = false := by
    intro y hy hc
    cases wrap with
    | none => rw [hs y hy (Or.inr hc)]; rfl
    | some b =>
      obtain ⟨x, hx, ht, hsess⟩ := wSetItem_back las.versionTr "WRAP".toList (Wr.wrapItem b) las.version y hy
      have ho : y.orig = x.orig := Cy.textOf_orig ht
      rcases hsess with e | ⟨n, e⟩
      · rcases hx with rfl | hx
        · rw [ho, Cy.wrapItem_orig, isVW_WRAP]; rfl
        · rw [ho, hs x hx (Or.inr (by rw [← e]; exact hc))]; rfl
      · rw [e, Cy.cmpStr_suffixed _ _ _ _ hkV] at hc
        cases hc
  unfold RH.versionCopy
  cases hv : Wr.versItem version with
  | none => exact hW
  | some vers =>
    simp only []
    rw [wSetItem_filter las.versionTr "VERS".toList vers (RH.wrapSection wrap las) (fun s => !isVW o s)
      (by rw [versItem_orig version vers hv, isVW_VERS]; rfl) hrepV]
    exact hW

theorem map_rdExpected_of_text (o : Rd.ReadOpts) (l1 l2 : List Wr.WItem) (h : l1.map RH.textOf = l2.map RH.textOf) :
    l1.map (Wr.rdExpected o) = l2.map (Wr.rdExpected o) := by
  have e : ∀ l : List Wr.WItem, l.map (Wr.rdExpected o) =
      (l.map RH.textOf).map (fun t => (⟨Wr.caseMap (RH.cvtCase o.mnemonicCase) t.1, t.2.1, t.2.2.1.text, t.2.2.2⟩ : Rd.RItem)) := by
    intro l; rw [List.map_map]; rfl
  rw [e l1, e l2, h]

/-- **the re-read ~Version items apart from VERS and WRAP do not depend on the configuration** -/
theorem version_items_independent (o : Rd.ReadOpts) (v1 v2 : String) (w1 w2 : Option Bool) (las : Wr.WLas)
    (hs : SessionsSane o las) :
    ((RH.versionCopy v1 w1 las).map (Wr.rdExpected o)).filter (notVW o) =
      ((RH.versionCopy v2 w2 las).map (Wr.rdExpected o)).filter (notVW o) := by
  have hP : notVW o ∘ Wr.rdExpected o = fun z : Wr.WItem => !isVW o z.orig := rfl
  rw [List.filter_map, List.filter_map, hP]
  apply map_rdExpected_of_text
  rw [versionCopy_filter o v1 w1 las hs, versionCopy_filter o v2 w2 las hs]

/-! ## the WRAP steering value when `wrap` is given -/

theorem steerVal_wrap_given (o : Rd.ReadOpts) (version : String) (b : Bool) (las : Wr.WLas)
    (hw : Cy.WrapOK o (RH.versionCopy version (some b) las)) :
    Fr.steerVal o "WRAP" (RH.versionCopy version (some b) las) = some (if b then Dt.yesTxt else "NO".toList) := by
  obtain ⟨x, hx⟩ := hw
  obtain ⟨z, hz, hzt⟩ := Cy.versionCopy_has_wrap version b las
  have hzx : z = x := Cy.filter_single_elem _ _ x z hx hz
    (Cy.inGroup_WRAP o z ((Cy.textOf_orig hzt).trans (Cy.wrapItem_orig b)))
  unfold Fr.steerVal
  rw [hx]
  simp only []
  rw [← hzx]
  have : z.value = (Wr.wrapItem b).value := congrArg (·.2.2.1) hzt
  rw [this]
  cases b <;> rfl

/-! ## one file: the curves, whichever of the two fitting cases holds -/

/-- the header and the data section fit: WRAP = YES in the written header, or the data were written with `wrap=False` and the
written WRAP value is not YES (`Wo.writeObj` always produces one of the two) -/
def Fit (o : Rd.ReadOpts) (version : String) (wrap : Option Bool) (las : Wr.WLas) (cfg : Dw.DataCfg) : Prop :=
  Fr.steerVal o "WRAP" (RH.versionCopy version wrap las) = some Dt.yesTxt ∨
  (cfg.wrap = false ∧ ∃ t, Fr.steerVal o "WRAP" (RH.versionCopy version wrap las) = some t ∧ t ≠ Dt.yesTxt)

/-- `C01_file_wrapYes` / `C01_file_unwrapped` in one statement -/
theorem file_read (opts : Tf.Opts) (nullOf : Option Str → Option Str) (ft : Dt.FloatTable)
    (version : String) (wrap : Option Bool) (w : Nat) (las las' : Wr.WLas)
    (hlines : List Str) (hH : Wr.headerLines version wrap w las = .ok (hlines, las'))
    (hc : Cy.FileConf opts.hdr version wrap las)
    {cfg : Dw.DataCfg} {null : Str} {mn : List Str} {rows : List (List Dw.F64)} {c : Dw.RowCfg} {n : Nat} {hdr : Str}
    {body : List Str} (wd : Rt.Written cfg null mn rows c n hdr body) (hn : null.head? ≠ some '~')
    (a : Char) (r : Str) (hd : cfg.dataSectionHeader = '~' :: a :: r) (ha : upperC a = 'A')
    (hfit : Fit opts.hdr version wrap las cfg) (hcur : las.curves.length = n) :
    ∃ res, Tf.readFull opts nullOf ft (Fr.fileDoc hlines hdr body) = .ok
      ⟨Cy.firstRead opts.hdr version wrap las, Fr.fileSteer opts.hdr version wrap las,
       [⟨hlines.length, hlines.length + body.length, res⟩]⟩ ∧
      res.map Prod.snd = .ok (Dt.assignCurves n (Dt.applyNull (opts.dat.nullPolicy == .strict)
        (nullOf (Fr.steerVal opts.hdr "NULL" (Wr.standardizeItems las.well)))
        (Dt.matrixColumns ft n (Rt.tokenRows c null rows)))) := by
  rcases hfit with hy | ⟨hwrap, t, ht, hne⟩
  · exact ⟨_, Fr.C01_file_wrapYes opts nullOf ft version wrap w las las' hlines hH hc wd hn a r hd ha hy hcur, rfl⟩
  · obtain ⟨res, h1, h2⟩ := Fr.C01_file_unwrapped opts nullOf ft version wrap w las las' hlines hH hc wd hn a r hd ha
      hwrap t ht hne
    exact ⟨res, h1, by rw [h2, hcur]⟩

end Lasio.Fc
