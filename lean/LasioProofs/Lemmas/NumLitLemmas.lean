import Mathlib.Tactic.FieldSimp
import Mathlib.Tactic.Ring
import Mathlib.Tactic.NormNum
import Mathlib.Algebra.Field.Rat
import LasioModel.NumLit
/-
Specification of plain decimal literals (independent of the parser of LasioModel/NumLit.lean) and the lemmas that
tie the parser, the value computation and the finiteness shortcut to it.  Used by Props/C08.lean.
-/
namespace Lasio

/-! ### the grammar, as rendering of a syntax tree with side conditions -/

def AllDig (s : Str) : Prop := ∀ c ∈ s, isDigit c = true

def Sign.str : Sign → Str
  | .none => []
  | .plus => ['+']
  | .minus => ['-']

/-- text of an exponent part -/
def expStr : Option (Char × Sign × Str) → Str
  | none => []
  | some (c, sg, ds) => c :: (sg.str ++ ds)

/-- the text a syntax tree stands for: sign, integer digits, optional '.', fraction digits, exponent part -/
def Lit.render (l : Lit) : Str :=
  l.sign.str ++ (l.ip ++ ((if l.dot then '.' :: l.fp else l.fp) ++ expStr l.exp))

/-- side conditions of the grammar  sign? (digits+ ('.' digits*)? | '.' digits+) ([eE] sign? digits+)?  -/
structure Lit.WF (l : Lit) : Prop where
  ip : AllDig l.ip
  fp : AllDig l.fp
  nodot : l.dot = false → l.fp = []
  nonempty : l.ip ≠ [] ∨ (l.dot = true ∧ l.fp ≠ [])
  exp : ∀ c sg ds, l.exp = some (c, sg, ds) → (c = 'e' ∨ c = 'E') ∧ ds ≠ [] ∧ AllDig ds

/-- plain decimal literal -/
inductive PlainDec : Str → Prop
  | mk (l : Lit) (h : l.WF) : PlainDec l.render

/-- positional value of a digit string: d₀·10^(n-1) + … + d_{n-1} -/
def decVal : Str → Nat
  | [] => 0
  | c :: t => (c.toNat - 48) * 10 ^ t.length + decVal t

def Sign.toInt : Sign → Int
  | .minus => -1
  | _ => 1

/-- the exponent as written (0 when there is no exponent part) -/
def Lit.writtenExp (l : Lit) : Int :=
  match l.exp with
  | none => 0
  | some (_, sg, ds) => sg.toInt * (decVal ds : Int)

/-- denotation: the literal stands for `(if neg then -1 else 1) * mant * 10 ^ exp10` where `mant` is the value of all
digits of the mantissa read as one integer and `exp10` = written exponent − number of fraction digits -/
def Lit.denote (l : Lit) : Bool × Nat × Int :=
  (decide (l.sign = .minus), decVal (l.ip ++ l.fp), l.writtenExp - (l.fp.length : Int))

/-- `mant * 10 ^ e` is below the binary64 overflow threshold (both sides scaled to naturals) -/
def FiniteDec (mant : Nat) (e : Int) : Prop :=
  mant * 10 ^ e.toNat < (2 ^ 1024 - 2 ^ 970) * 10 ^ (-e).toNat

/-! ### characters -/

theorem digit_ne_of {c d : Char} (h : isDigit c = true) (hd : isDigit d = false) : c ≠ d := by
  intro e; subst e; simp [h] at hd

theorem digit_ne_plus {c : Char} (h : isDigit c = true) : c ≠ '+' := digit_ne_of h (by decide)
theorem digit_ne_minus {c : Char} (h : isDigit c = true) : c ≠ '-' := digit_ne_of h (by decide)
theorem digit_ne_dot {c : Char} (h : isDigit c = true) : c ≠ '.' := digit_ne_of h (by decide)
theorem digit_ne_e {c : Char} (h : isDigit c = true) : c ≠ 'e' := digit_ne_of h (by decide)
theorem digit_ne_E {c : Char} (h : isDigit c = true) : c ≠ 'E' := digit_ne_of h (by decide)

theorem AllDig.nil : AllDig [] := by intro c h; cases h
theorem AllDig.cons {c : Char} {t : Str} : AllDig (c :: t) ↔ isDigit c = true ∧ AllDig t := by
  simp [AllDig]
theorem AllDig.append {a b : Str} : AllDig (a ++ b) ↔ AllDig a ∧ AllDig b := by
  simp only [AllDig, List.mem_append]
  constructor
  · intro h; exact ⟨fun c hc => h c (Or.inl hc), fun c hc => h c (Or.inr hc)⟩
  · rintro ⟨h1, h2⟩ c (hc | hc)
    · exact h1 c hc
    · exact h2 c hc

theorem allDig_takeWhile (s : Str) : AllDig (s.takeWhile isDigit) := by
  induction s with
  | nil => exact AllDig.nil
  | cons x xs ih =>
    rw [List.takeWhile_cons]
    by_cases hx : isDigit x = true
    · rw [if_pos hx]; exact AllDig.cons.mpr ⟨hx, ih⟩
    · rw [if_neg hx]; exact AllDig.nil

/-- a string does not start with a digit -/
def NoDigitHead (s : Str) : Prop := ∀ c t, s = c :: t → isDigit c = false

theorem takeWhile_digits_append {a r : Str} (ha : AllDig a) (hr : NoDigitHead r) :
    (a ++ r).takeWhile isDigit = a := by
  rw [List.takeWhile_append_of_pos ha]
  cases r with
  | nil => simp
  | cons c t => simp [hr c t rfl]

theorem dropWhile_digits_append {a r : Str} (ha : AllDig a) (hr : NoDigitHead r) :
    (a ++ r).dropWhile isDigit = r := by
  rw [List.dropWhile_append_of_pos ha]
  cases r with
  | nil => simp
  | cons c t => simp [hr c t rfl]

theorem noDigitHead_dropWhile (s : Str) : NoDigitHead (s.dropWhile isDigit) := by
  induction s with
  | nil => intro c t h; cases h
  | cons x xs ih =>
    intro c t h
    rw [List.dropWhile_cons] at h
    by_cases hx : isDigit x = true
    · rw [if_pos hx] at h; exact ih c t h
    · rw [if_neg hx] at h; cases h; simpa using hx

/-! ### sign -/

theorem takeSign_spec (s : Str) : (takeSign s).1.str ++ (takeSign s).2 = s := by
  cases s with
  | nil => rfl
  | cons c t =>
    unfold takeSign
    by_cases h1 : c = '+'
    · simp [h1, Sign.str]
    · by_cases h2 : c = '-'
      · simp [h2, Sign.str]
      · simp [h1, h2, Sign.str]

/-- the rest does not start with a sign character -/
def NoSignHead (s : Str) : Prop := ∀ c t, s = c :: t → c ≠ '+' ∧ c ≠ '-'

theorem takeSign_render (sg : Sign) {r : Str} (hr : NoSignHead r) : takeSign (sg.str ++ r) = (sg, r) := by
  cases sg with
  | plus => simp [Sign.str, takeSign]
  | minus => simp [Sign.str, takeSign]
  | none =>
    cases r with
    | nil => rfl
    | cons c t =>
      have := hr c t rfl
      simp [Sign.str, takeSign, this.1, this.2]

theorem noSignHead_takeSign (s : Str) : (takeSign s).1 = .none → NoSignHead (takeSign s).2 := by
  cases s with
  | nil => intro _ c t h; simp [takeSign] at h
  | cons c t =>
    unfold takeSign
    by_cases h1 : c = '+'
    · simp [h1]
    · by_cases h2 : c = '-'
      · simp [h2]
      · simp only [h1, h2, if_false]
        intro _ c' t' h
        cases h
        exact ⟨h1, h2⟩

theorem noSignHead_of_digits {a r : Str} (ha : AllDig a) (hne : a ≠ []) : NoSignHead (a ++ r) := by
  intro c t h
  cases a with
  | nil => exact absurd rfl hne
  | cons x xs =>
    simp at h
    have hx := (AllDig.cons.mp ha).1
    rw [h.1] at hx
    exact ⟨digit_ne_plus hx, digit_ne_minus hx⟩

/-! ### exponent part -/

/-- well-formedness of an exponent part -/
def ExpWF (e : Option (Char × Sign × Str)) : Prop :=
  ∀ c sg ds, e = some (c, sg, ds) → (c = 'e' ∨ c = 'E') ∧ ds ≠ [] ∧ AllDig ds

theorem parseExp_expStr {e : Option (Char × Sign × Str)} (h : ExpWF e) : parseExp (expStr e) = some e := by
  cases e with
  | none => rfl
  | some v =>
    obtain ⟨c, sg, ds⟩ := v
    obtain ⟨hc, hne, hd⟩ := h c sg ds rfl
    have hts : takeSign (sg.str ++ ds) = (sg, ds) := by
      have := takeSign_render sg (r := ds ++ []) (noSignHead_of_digits hd hne)
      simpa using this
    have hall : ds.all isDigit = true := List.all_eq_true.mpr hd
    simp [expStr, parseExp, hc, hts, hne, hall]

theorem parseExp_sound {r : Str} {e : Option (Char × Sign × Str)} (h : parseExp r = some e) :
    expStr e = r ∧ ExpWF e := by
  cases r with
  | nil =>
    simp [parseExp] at h
    subst h
    exact ⟨rfl, by intro c sg ds h; cases h⟩
  | cons c t =>
    simp only [parseExp] at h
    by_cases hc : c = 'e' ∨ c = 'E'
    · rw [if_pos hc] at h
      by_cases h2 : (takeSign t).2 ≠ [] ∧ (takeSign t).2.all isDigit = true
      · rw [if_pos h2] at h
        cases h
        refine ⟨?_, ?_⟩
        · simp [expStr, takeSign_spec]
        · intro c' sg ds heq
          cases heq
          exact ⟨hc, h2.1, List.all_eq_true.mp h2.2⟩
      · rw [if_neg h2] at h; cases h
    · rw [if_neg hc] at h; cases h

theorem noDigitHead_expStr {e : Option (Char × Sign × Str)} (h : ExpWF e) : NoDigitHead (expStr e) := by
  intro c t heq
  cases e with
  | none => cases heq
  | some v =>
    obtain ⟨c', sg, ds⟩ := v
    simp [expStr] at heq
    obtain ⟨hc, -, -⟩ := h c' sg ds rfl
    rw [← heq.1]
    rcases hc with hc | hc <;> subst hc <;> decide

theorem expStr_head_ne_dot {e : Option (Char × Sign × Str)} (h : ExpWF e) :
    ∀ c t, expStr e = c :: t → c ≠ '.' := by
  intro c t heq
  cases e with
  | none => cases heq
  | some v =>
    obtain ⟨c', sg, ds⟩ := v
    simp [expStr] at heq
    obtain ⟨hc, -, -⟩ := h c' sg ds rfl
    rw [← heq.1]
    rcases hc with hc | hc <;> subst hc <;> decide

/-! ### the parser is exactly the grammar -/

theorem parseDec_eq (sg : Sign) (ip rest : Str) (hip : AllDig ip) (hnd : NoDigitHead rest)
    (hns : NoSignHead (ip ++ rest)) :
    parseDec (sg.str ++ (ip ++ rest)) = parseTail sg ip rest := by
  unfold parseDec
  simp only [takeSign_render sg hns, takeWhile_digits_append hip hnd, dropWhile_digits_append hip hnd]

theorem parseDec_render {l : Lit} (h : l.WF) : parseDec l.render = some l := by
  obtain ⟨sg, ip, dot, fp, ex⟩ := l
  obtain ⟨hip, hfp, hnodot, hne, hex⟩ := h
  simp only at hip hfp hnodot hne hex
  have hexwf : ExpWF ex := hex
  cases dot with
  | true =>
    have hrest : NoDigitHead ('.' :: (fp ++ expStr ex)) := by
      intro c t heq; cases heq; decide
    have hns : NoSignHead (ip ++ ('.' :: (fp ++ expStr ex))) := by
      cases ip with
      | nil => intro c t heq; simp at heq; rw [← heq.1]; decide
      | cons x xs => exact noSignHead_of_digits hip (by simp)
    have htw2 : (fp ++ expStr ex).takeWhile isDigit = fp := takeWhile_digits_append hfp (noDigitHead_expStr hexwf)
    have hdw2 : (fp ++ expStr ex).dropWhile isDigit = expStr ex :=
      dropWhile_digits_append hfp (noDigitHead_expStr hexwf)
    have hcond : ¬ (ip = [] ∧ fp = []) := by
      rintro ⟨h1, h2⟩
      rcases hne with h | ⟨-, h⟩
      · exact h h1
      · exact h h2
    have hr : (⟨sg, ip, true, fp, ex⟩ : Lit).render = sg.str ++ (ip ++ ('.' :: (fp ++ expStr ex))) := by
      simp [Lit.render]
    rw [hr, parseDec_eq sg ip _ hip hrest hns]
    simp only [parseTail, if_true, htw2, hdw2, if_neg hcond, parseExp_expStr hexwf, Option.map_some]
  | false =>
    have hfp0 : fp = [] := hnodot rfl
    subst hfp0
    have hipne : ip ≠ [] := by
      rcases hne with h | ⟨h, -⟩
      · exact h
      · cases h
    have hns : NoSignHead (ip ++ expStr ex) := noSignHead_of_digits hip hipne
    have hnd : NoDigitHead (expStr ex) := noDigitHead_expStr hexwf
    have hr : (⟨sg, ip, false, [], ex⟩ : Lit).render = sg.str ++ (ip ++ expStr ex) := by
      simp [Lit.render]
    rw [hr, parseDec_eq sg ip _ hip hnd hns]
    have hpe := parseExp_expStr hexwf
    cases hes : expStr ex with
    | nil =>
      cases ex with
      | none => simp [parseTail, hipne]
      | some v => obtain ⟨c, sg', ds⟩ := v; simp [expStr] at hes
    | cons c t =>
      have hcd : c ≠ '.' := expStr_head_ne_dot hexwf c t hes
      rw [hes] at hpe
      simp [parseTail, hcd, hipne, hpe]

theorem parseTail_sound {sg : Sign} {ip rest : Str} {l : Lit} (hipd : AllDig ip)
    (h : parseTail sg ip rest = some l) : l.WF ∧ l.render = sg.str ++ (ip ++ rest) := by
  cases rest with
  | nil =>
    simp only [parseTail] at h
    by_cases hip : ip = []
    · rw [if_pos hip] at h; cases h
    · rw [if_neg hip] at h
      cases h
      exact ⟨⟨hipd, AllDig.nil, fun _ => rfl, Or.inl hip, (by intro c sg ds h; cases h)⟩, by simp [Lit.render, expStr]⟩
  | cons c r2 =>
    simp only [parseTail] at h
    by_cases hc : c = '.'
    · rw [if_pos hc] at h
      by_cases hcond : ip = [] ∧ r2.takeWhile isDigit = []
      · rw [if_pos hcond] at h; cases h
      · rw [if_neg hcond] at h
        cases hpe : parseExp (r2.dropWhile isDigit) with
        | none => rw [hpe] at h; cases h
        | some e =>
          rw [hpe, Option.map_some] at h
          cases h
          obtain ⟨hes, hew⟩ := parseExp_sound hpe
          refine ⟨⟨hipd, allDig_takeWhile r2, (by intro h; cases h), ?_, hew⟩, ?_⟩
          · by_cases h1 : ip = []
            · right; exact ⟨rfl, fun h2 => hcond ⟨h1, h2⟩⟩
            · left; exact h1
          · simp only [Lit.render, if_true]
            rw [hes, List.cons_append, List.takeWhile_append_dropWhile, ← hc]
    · rw [if_neg hc] at h
      by_cases hip : ip = []
      · rw [if_pos hip] at h; cases h
      · rw [if_neg hip] at h
        cases hpe : parseExp (c :: r2) with
        | none => rw [hpe] at h; cases h
        | some e =>
          rw [hpe, Option.map_some] at h
          cases h
          obtain ⟨hes, hew⟩ := parseExp_sound hpe
          refine ⟨⟨hipd, AllDig.nil, fun _ => rfl, Or.inl hip, hew⟩, ?_⟩
          simp only [Lit.render]
          rw [hes]
          simp

theorem parseDec_sound {s : Str} {l : Lit} (h : parseDec s = some l) : l.WF ∧ l.render = s := by
  have hs := takeSign_spec s
  have hsplit := List.takeWhile_append_dropWhile (p := isDigit) (l := (takeSign s).2)
  obtain ⟨hw, hr⟩ := parseTail_sound (allDig_takeWhile (takeSign s).2) h
  refine ⟨hw, ?_⟩
  rw [hr, hsplit, hs]

theorem isPlainDec_iff (s : Str) : isPlainDec s = true ↔ PlainDec s := by
  unfold isPlainDec
  constructor
  · intro h
    cases hp : parseDec s with
    | none => rw [hp] at h; cases h
    | some l =>
      obtain ⟨hw, hr⟩ := parseDec_sound hp
      rw [← hr]; exact PlainDec.mk l hw
  · rintro ⟨l, hw⟩
    rw [parseDec_render hw]; rfl

/-- the grammar is unambiguous: a text has at most one syntax tree -/
theorem render_injective {l₁ l₂ : Lit} (h₁ : l₁.WF) (h₂ : l₂.WF) (h : l₁.render = l₂.render) : l₁ = l₂ := by
  have a := parseDec_render h₁
  rw [h, parseDec_render h₂] at a
  exact (Option.some.inj a).symm

/-! ### values -/

theorem foldl_digits (s : Str) (a : Nat) :
    s.foldl (fun a c => 10 * a + (c.toNat - 48)) a = a * 10 ^ s.length + decVal s := by
  induction s generalizing a with
  | nil => simp [decVal]
  | cons c t ih =>
    simp only [List.foldl_cons, ih, decVal, List.length_cons]
    ring

theorem digitsVal_eq_decVal (s : Str) : digitsVal s = decVal s := by
  unfold digitsVal; rw [foldl_digits]; simp

theorem decVal_append (a b : Str) : decVal (a ++ b) = decVal a * 10 ^ b.length + decVal b := by
  induction a with
  | nil => simp [decVal]
  | cons c t ih =>
    simp only [List.cons_append, decVal, ih, List.length_append]
    ring

theorem digit_toNat_le {c : Char} (h : isDigit c = true) : c.toNat - 48 ≤ 9 := by
  unfold isDigit at h
  simp only [Bool.and_eq_true, decide_eq_true_eq] at h
  have h2 : c.toNat ≤ 57 := h.2
  omega

theorem decVal_lt (s : Str) (h : AllDig s) : decVal s < 10 ^ s.length := by
  induction s with
  | nil => simp [decVal]
  | cons c t ih =>
    have hc := digit_toNat_le (AllDig.cons.mp h).1
    have ht := ih (AllDig.cons.mp h).2
    simp only [decVal, List.length_cons, Nat.pow_succ]
    have : (c.toNat - 48) * 10 ^ t.length ≤ 9 * 10 ^ t.length := Nat.mul_le_mul_right _ hc
    omega

theorem sign_apply_eq (sg : Sign) (n : Nat) : sg.apply n = sg.toInt * (n : Int) := by
  cases sg <;> simp [Sign.apply, Sign.toInt]

/-- the model's (neg, mant, exp10) is the specification's denotation -/
theorem model_value_eq_denote (l : Lit) : (l.neg, l.mant, l.exp10) = l.denote := by
  unfold Lit.denote Lit.neg Lit.mant Lit.exp10 Lit.expVal Lit.writtenExp
  rw [digitsVal_eq_decVal]
  have h1 : (l.sign == Sign.minus) = decide (l.sign = Sign.minus) := by
    cases l.sign <;> rfl
  rw [h1]
  cases l.exp with
  | none => rfl
  | some v =>
    obtain ⟨c, sg, ds⟩ := v
    simp only [sign_apply_eq, digitsVal_eq_decVal]

/-! ### finiteness shortcut -/

theorem overflowThreshold_eq : overflowThreshold = 2 ^ 1024 - 2 ^ 970 := by
  decide +kernel

theorem overflowThreshold_lt : overflowThreshold < 10 ^ 311 := by
  decide +kernel

theorem overflowThreshold_pos : 1 ≤ overflowThreshold := by
  decide +kernel

set_option exponentiation.threshold 400 in
theorem finiteDec_iff (nd mant : Nat) (e : Int) (hm : mant < 10 ^ nd) :
    finiteDec nd mant e = true ↔ FiniteDec mant e := by
  unfold finiteDec FiniteDec
  rw [← overflowThreshold_eq]
  by_cases h0 : mant = 0
  · subst h0
    simp only [if_true, Nat.zero_mul, true_iff]
    exact Nat.mul_pos overflowThreshold_pos (Nat.pow_pos (by decide))
  · rw [if_neg h0]
    cases e with
    | ofNat k =>
      have e1 : (Int.ofNat k).toNat = k := rfl
      have e2 : (-Int.ofNat k).toNat = 0 := by simp
      rw [e1, e2]
      simp only [Nat.pow_zero, Nat.mul_one]
      by_cases hk : k > 310
      · rw [if_pos hk]
        simp only [Bool.false_eq_true, false_iff, Nat.not_lt]
        have h1 : 10 ^ 311 ≤ 10 ^ k := Nat.pow_le_pow_right (by decide) hk
        have h2 : 10 ^ k ≤ mant * 10 ^ k := Nat.le_mul_of_pos_left _ (Nat.pos_of_ne_zero h0)
        have := overflowThreshold_lt
        omega
      · rw [if_neg hk]; simp
    | negSucc k =>
      have e1 : (Int.negSucc k).toNat = 0 := rfl
      have e2 : (-Int.negSucc k).toNat = k + 1 := by simp [Int.neg_negSucc]
      rw [e1, e2]
      simp only [Nat.pow_zero, Nat.mul_one]
      by_cases hk : k + 1 ≥ nd
      · rw [if_pos hk]
        simp only [true_iff]
        have h1 : 10 ^ nd ≤ 10 ^ (k + 1) := Nat.pow_le_pow_right (by decide) hk
        have h2 : 10 ^ (k + 1) ≤ overflowThreshold * 10 ^ (k + 1) :=
          Nat.le_mul_of_pos_left _ overflowThreshold_pos
        omega
      · rw [if_neg hk]; simp

/-! ### the comma substitution -/

theorem commaSubWith_length (isD : Char → Bool) (s : Str) : (commaSubWith isD s).length = s.length := by
  fun_induction commaSubWith isD s <;> simp_all

theorem commaSubWith_no_comma (isD : Char → Bool) (s : Str) (h : ',' ∉ s) : commaSubWith isD s = s := by
  fun_induction commaSubWith isD s with
  | case1 => rfl
  | case2 => rfl
  | case3 => rfl
  | case4 a c b rest hc ih =>
    simp only [Bool.and_eq_true, beq_iff_eq] at hc
    simp [hc.1.2] at h
  | case5 a c b rest hc ih =>
    simp only [List.mem_cons, not_or] at h
    rw [ih (by simp only [List.mem_cons, not_or]; exact ⟨h.2.1, h.2.2.1, h.2.2.2⟩)]

theorem commaSubWith_congr (p q : Char → Bool) (s : Str) (h : ∀ c ∈ s, p c = q c) :
    commaSubWith p s = commaSubWith q s := by
  fun_induction commaSubWith p s with
  | case1 => rfl
  | case2 => rfl
  | case3 => rfl
  | case4 a c b rest hc ih =>
    have ha := h a (by simp)
    have hb := h b (by simp)
    rw [ha, hb] at hc
    rw [commaSubWith, if_pos hc, ih (fun x hx => h x (by simp [hx]))]
  | case5 a c b rest hc ih =>
    have ha := h a (by simp)
    have hb := h b (by simp)
    rw [ha, hb] at hc
    rw [commaSubWith, if_neg hc, ih (fun x hx => h x (List.mem_cons_of_mem _ hx))]

/-- a string with exactly one comma: it becomes '.' exactly when it stands between two digits -/
theorem commaSubWith_single (isD : Char → Bool) (a b : Str) (ha : ',' ∉ a) (hb : ',' ∉ b) :
    commaSubWith isD (a ++ ',' :: b) =
      if (a.getLast?.any isD && b.head?.any isD) = true then a ++ '.' :: b else a ++ ',' :: b := by
  induction a with
  | nil =>
    cases b with
    | nil => simp [commaSubWith]
    | cons y b' =>
      cases b' with
      | nil => simp [commaSubWith]
      | cons z b'' =>
        have hy : y ≠ ',' := by intro e; subst e; simp at hb
        have : commaSubWith isD (y :: z :: b'') = y :: z :: b'' := commaSubWith_no_comma isD _ hb
        simp [commaSubWith, hy, this]
  | cons x a' ih =>
    simp only [List.mem_cons, not_or] at ha
    have ih' := ih ha.2
    cases a' with
    | nil =>
      cases b with
      | nil => simp [commaSubWith]
      | cons y b' =>
        simp only [List.mem_cons, not_or] at hb
        have hb' := commaSubWith_no_comma isD b' hb.2
        by_cases hd : (isD x && isD y) = true
        · simp only [Bool.and_eq_true] at hd
          simp [commaSubWith, hd.1, hd.2, hb']
        · have hyb : commaSubWith isD (y :: b') = y :: b' :=
            commaSubWith_no_comma isD _ (by simp only [List.mem_cons, not_or]; exact hb)
          have h0 : commaSubWith isD (',' :: y :: b') = ',' :: y :: b' := by
            have := ih'
            simp only [List.nil_append, List.getLast?_nil, Option.any_none, Bool.false_and,
              Bool.false_eq_true, if_false] at this
            exact this
          have hd' : ¬ (isD x = true ∧ isD y = true) := by simpa using hd
          simp only [List.cons_append, List.nil_append, commaSubWith, List.getLast?_singleton, Option.any_some,
            List.head?_cons]
          by_cases hx : isD x = true
          · have hy : isD y = false := by
              cases hyv : isD y with
              | false => rfl
              | true => exact absurd ⟨hx, hyv⟩ hd'
            simp [hx, hy, h0]
          · have hx' : isD x = false := by simpa using hx
            simp [hx', h0]
    | cons x' a'' =>
      have hx' : x' ≠ ',' := by intro e; subst e; simp at ha
      have hlast : (x :: x' :: a'').getLast? = (x' :: a'').getLast? := by simp [List.getLast?_cons_cons]
      rw [hlast]
      cases hrest : a'' ++ ',' :: b with
      | nil => simp at hrest
      | cons w rest' =>
        have hstep : commaSubWith isD (x :: x' :: w :: rest') = x :: commaSubWith isD (x' :: w :: rest') := by
          rw [commaSubWith]
          simp [hx']
        have e1 : (x :: x' :: a'') ++ ',' :: b = x :: x' :: w :: rest' := by simp [hrest]
        have e2 : (x' :: a'') ++ ',' :: b = x' :: w :: rest' := by simp [hrest]
        rw [e1, hstep, ← e2, ih']
        split <;> simp

/-- the substitution changes nothing but commas that stand between two digits, and those become '.' -/
theorem commaSubWith_pointwise (isD : Char → Bool) (s : Str) (i : Nat) :
    (commaSubWith isD s)[i]? = s[i]? ∨
    ∃ j d1 d2, i = j + 1 ∧ s[j]? = some d1 ∧ isD d1 = true ∧ s[j + 1]? = some ',' ∧ s[j + 2]? = some d2 ∧
      isD d2 = true ∧ (commaSubWith isD s)[j + 1]? = some '.' := by
  fun_induction commaSubWith isD s generalizing i with
  | case1 => left; rfl
  | case2 => left; rfl
  | case3 => left; rfl
  | case4 a c b rest hc ih =>
    simp only [Bool.and_eq_true, beq_iff_eq] at hc
    obtain ⟨⟨ha, hcc⟩, hb⟩ := hc
    subst hcc
    match i with
    | 0 => left; rfl
    | 1 => right; exact ⟨0, a, b, rfl, rfl, ha, rfl, rfl, hb, rfl⟩
    | 2 => left; rfl
    | k + 3 =>
      rcases ih k with h | ⟨j, d1, d2, hk, h1, h2, h3, h4, h5, h6⟩
      · left; simpa using h
      · right
        refine ⟨j + 3, d1, d2, by omega, ?_, h2, ?_, ?_, h5, ?_⟩
        · simpa using h1
        · simpa using h3
        · simpa using h4
        · simpa using h6
  | case5 a c b rest hc ih =>
    match i with
    | 0 => left; rfl
    | k + 1 =>
      rcases ih k with h | ⟨j, d1, d2, hk, h1, h2, h3, h4, h5, h6⟩
      · left; simpa using h
      · right
        refine ⟨j + 1, d1, d2, by omega, ?_, h2, ?_, ?_, h5, ?_⟩
        · simpa using h1
        · simpa using h3
        · simpa using h4
        · simpa using h6

theorem uniDigitZeros_split : ∀ z ∈ uniDigitZeros, z = 48 ∨ 0x660 ≤ z := by decide

/-- below U+0660 (in particular on ASCII and Latin-1) the regex class `\d` is `[0-9]` -/
theorem isUniDigit_ascii (c : Char) (h : c.toNat < 0x660) : isUniDigit c = isDigit c := by
  have e1 : isDigit c = (decide (48 ≤ c.toNat) && decide (c.toNat ≤ 57)) := rfl
  rw [e1, Bool.eq_iff_iff]
  unfold isUniDigit
  simp only [List.any_eq_true, Bool.and_eq_true, decide_eq_true_eq]
  constructor
  · rintro ⟨z, hz, h1, h2⟩
    rcases uniDigitZeros_split z hz with e | e
    · omega
    · omega
  · rintro ⟨h1, h2⟩
    exact ⟨48, by decide, h1, by omega⟩

theorem mem_commaSubWith (isD : Char → Bool) (s : Str) (c : Char) (h : c ∈ commaSubWith isD s) : c ∈ s ∨ c = '.' := by
  fun_induction commaSubWith isD s with
  | case1 => simp at h
  | case2 => left; exact h
  | case3 => left; exact h
  | case4 a c' b rest hc ih =>
    simp only [List.mem_cons] at h ⊢
    rcases h with h | h | h | h
    · left; left; exact h
    · right; exact h
    · left; right; right; left; exact h
    · rcases ih h with h' | h'
      · left; right; right; right; exact h'
      · right; exact h'
  | case5 a c' b rest hc ih =>
    simp only [List.mem_cons] at h ⊢
    rcases h with h | h
    · left; left; exact h
    · rcases ih h with h' | h'
      · left; right; simpa using h'
      · right; exact h'

/-! ### white space accepted by `int()` / `float()` -/

theorem dropWhile_congr_mem {p q : Char → Bool} (l : Str) (h : ∀ c ∈ l, p c = q c) :
    l.dropWhile p = l.dropWhile q := by
  induction l with
  | nil => rfl
  | cons x xs ih =>
    rw [List.dropWhile_cons, List.dropWhile_cons, h x (by simp), ih (fun c hc => h c (List.mem_cons_of_mem _ hc))]

theorem mem_of_mem_dropWhile {p : Char → Bool} {l : Str} {c : Char} (h : c ∈ l.dropWhile p) : c ∈ l :=
  (List.dropWhile_sublist p).subset h

theorem numStrip_eq_strip (x : Str) (h : ∀ c ∈ x, isNumSpace c = isPySpace c) : numStrip x = strip x := by
  unfold numStrip strip rstrip lstrip
  rw [dropWhile_congr_mem x h]
  rw [dropWhile_congr_mem _ (fun c hc => h c (mem_of_mem_dropWhile (List.mem_reverse.mp hc)))]

theorem isNumSpace_eq (c : Char) (h : ¬ (0x1C ≤ c.toNat ∧ c.toNat ≤ 0x1F)) : isNumSpace c = isPySpace c := by
  unfold isNumSpace
  have : (decide (0x1C ≤ c.toNat) && decide (c.toNat ≤ 0x1F)) = false := by
    simp only [Bool.and_eq_false_iff, decide_eq_false_iff_not]
    by_cases h1 : 0x1C ≤ c.toNat
    · right; exact fun h2 => h ⟨h1, h2⟩
    · left; exact h1
  rw [this]; simp

/-! ### the denotation as a rational number -/

/-- the usual reading of a decimal literal as a rational number:
sign · (integer digits + fraction digits / 10^(number of fraction digits)) · 10^(written exponent) -/
def Lit.valueQ (l : Lit) : ℚ :=
  (l.sign.toInt : ℚ) * ((decVal l.ip : ℚ) + (decVal l.fp : ℚ) / (10 : ℚ) ^ l.fp.length) * (10 : ℚ) ^ l.writtenExp

/-- rational value of a (neg, mant, exp10) triple -/
def tripleQ (t : Bool × Nat × Int) : ℚ := (if t.1 then -1 else 1) * (t.2.1 : ℚ) * (10 : ℚ) ^ t.2.2

theorem denote_valueQ (l : Lit) : tripleQ l.denote = l.valueQ := by
  unfold tripleQ Lit.denote Lit.valueQ
  simp only
  rw [decVal_append, zpow_sub₀ (by norm_num : (10 : ℚ) ≠ 0), zpow_natCast]
  have hs : (if decide (l.sign = Sign.minus) = true then (-1 : ℚ) else 1) = (l.sign.toInt : ℚ) := by
    cases l.sign <;> simp [Sign.toInt]
  rw [hs]
  push_cast
  field_simp

/-! ### vocabulary of the C08 statements and the unfolding of `num` on a literal -/

/-- the text the guard looks at: comma substitution, then `str.strip()` -/
def litText (s : Str) : Str := strip (commaSub s)

/-- `int()` / `float()` accept the white space around the literal (no U+001C..U+001F in it) -/
def PadOK (s : Str) : Prop := numStrip (commaSub s) = litText s

instance (s : Str) : Decidable (PadOK s) := by unfold PadOK; infer_instance

def Int64 (v : Int) : Prop := -(2 : Int) ^ 63 ≤ v ∧ v ≤ (2 : Int) ^ 63 - 1

instance (v : Int) : Decidable (Int64 v) := by unfold Int64; infer_instance
instance (t : Str) : Decidable (AllDig t) := by unfold AllDig; infer_instance

/-- the literal is `sign? digits+` of at most 4300 digits with a value in the int64 range -/
def IsInt64Lit (l : Lit) : Prop :=
  l.dot = false ∧ l.exp = none ∧ l.ip.length ≤ 4300 ∧ Int64 (l.sign.toInt * (decVal l.ip : Int))

theorem inInt64_iff (v : Int) : inInt64 v = true ↔ Int64 v := by
  simp [inInt64, Int64]

theorem num_of_lit {s : Str} {l : Lit} (hw : l.WF) (hr : l.render = litText s) :
    num s =
      if ¬ PadOK s then .str s
      else if l.isIntLit = true ∧ l.ip.length ≤ intMaxStrDigits ∧ inInt64 l.intVal = true then .int l.intVal
      else if finiteDec (l.ip.length + l.fp.length) l.mant l.exp10 = true then .flt l.neg l.mant l.exp10
      else .str s := by
  unfold num PadOK
  simp only [litText] at hr ⊢
  simp only [← hr, parseDec_render hw, ne_eq]

theorem intCond_iff (l : Lit) :
    (l.isIntLit = true ∧ l.ip.length ≤ intMaxStrDigits ∧ inInt64 l.intVal = true) ↔ IsInt64Lit l := by
  unfold IsInt64Lit Lit.isIntLit Lit.intVal intMaxStrDigits
  rw [inInt64_iff, sign_apply_eq, digitsVal_eq_decVal]
  cases l.dot <;> cases l.exp <;> simp

theorem mant_lt (l : Lit) (hw : l.WF) : l.mant < 10 ^ (l.ip.length + l.fp.length) := by
  unfold Lit.mant
  rw [digitsVal_eq_decVal, ← List.length_append]
  exact decVal_lt _ (AllDig.append.mpr ⟨hw.ip, hw.fp⟩)

theorem finite_iff (l : Lit) (hw : l.WF) :
    finiteDec (l.ip.length + l.fp.length) l.mant l.exp10 = true ↔ FiniteDec l.denote.2.1 l.denote.2.2 := by
  rw [finiteDec_iff _ _ _ (mant_lt l hw), ← model_value_eq_denote]

theorem plainDec_iff_exists (t : Str) : PlainDec t ↔ ∃ l : Lit, l.WF ∧ l.render = t := by
  constructor
  · rintro ⟨l, hw⟩; exact ⟨l, hw, rfl⟩
  · rintro ⟨l, hw, rfl⟩; exact PlainDec.mk l hw

/-- an int64 integer literal is finite, so the two numeric clauses and the next one partition the literals -/
theorem int64Lit_finite (l : Lit) (hw : l.WF) (h : IsInt64Lit l) : FiniteDec l.denote.2.1 l.denote.2.2 := by
  obtain ⟨hdot, hexp, -, hr⟩ := h
  have hfp := hw.nodot hdot
  have hv : decVal l.ip ≤ 2 ^ 63 := by
    unfold Int64 at hr
    cases hs : l.sign <;> simp only [hs, Sign.toInt] at hr <;> omega
  have he : l.writtenExp = 0 := by simp [Lit.writtenExp, hexp]
  have h2 : (2 : Nat) ^ 63 < overflowThreshold := by decide +kernel
  unfold FiniteDec Lit.denote
  rw [← overflowThreshold_eq]
  simp only [hfp, he, List.append_nil, List.length_nil]
  simp
  omega

/-- no U+001C..U+001F anywhere in the text is enough for `PadOK` -/
theorem padOK_of_no_separators (s : Str) (h : ∀ c ∈ s, ¬ (0x1C ≤ c.toNat ∧ c.toNat ≤ 0x1F)) : PadOK s := by
  unfold PadOK litText
  apply numStrip_eq_strip
  intro c hc
  apply isNumSpace_eq
  rcases mem_commaSubWith _ _ _ hc with h' | h'
  · exact h c h'
  · subst h'; decide

theorem litText_zeros (n : Nat) : litText (List.replicate (n + 1) '0') = List.replicate (n + 1) '0' := by
  have hc : commaSub (List.replicate (n + 1) '0') = List.replicate (n + 1) '0' :=
    commaSubWith_no_comma _ _ (by intro h; have := List.eq_of_mem_replicate h; exact absurd this (by decide))
  have h0 : isPySpace '0' = false := by decide
  unfold litText strip rstrip lstrip
  rw [hc, List.replicate_succ, List.dropWhile_cons_of_neg (by simp [h0]), ← List.replicate_succ,
    List.reverse_replicate, List.replicate_succ, List.dropWhile_cons_of_neg (by simp [h0]), ← List.replicate_succ,
    List.reverse_replicate]

theorem decVal_zeros (n : Nat) : decVal (List.replicate n '0') = 0 := by
  induction n with
  | zero => rfl
  | succ k ih => rw [List.replicate_succ, decVal, ih]; simp

theorem padOK_zeros (n : Nat) : PadOK (List.replicate n '0') :=
  padOK_of_no_separators _ (by intro c hc; rw [List.eq_of_mem_replicate hc]; decide)

theorem allDig_zeros (n : Nat) : AllDig (List.replicate n '0') := by
  intro c hc; rw [List.eq_of_mem_replicate hc]; decide

end Lasio
